"""C20 - data transforms round-trip and never read outside their input.

(A) TLC, spec/Transform.tla: the implementation-shaped transcription of src/transform.c (per-region
    loops with carried state, read-ahead through mapped subranges, output buffer growth) is checked
    against the reference meaning (RFC 4648 on the bit string, Unicode well-formed UTF-8, UTF-16) for
    every string over a branch-covering token alphabet up to MaxLen bytes and every split into
    <= MaxRegions regions: encoders = RFC 4648, Dec(split(Enc(x))) = x (also with white space),
    UTF-8 -> UTF-16 -> UTF-8 modulo leading BOMs, fragmentation independence, "NULL or the inverse
    accepts", no out-of-range index.  Every named defect of the pinned tree and two spec mutants
    must be refuted inside the same bounds (non-vacuity).
(B) spec -> code: TLC prints every explored case as a vector (expected result of the repaired
    algorithm; and, per named defect, where and how the result differs).  harness/drv_transform.c
    builds the data object with exactly that fragmentation and calls the real
    dispatch_data_create_with_transform; the result (and whether the inverse transform accepts it) is
    compared with the spec's expectation.  A deviation is attributed to a named defect only if the
    spec with exactly that defect predicts it.
(C) the spec's laws as oracles on seeded random inputs (up to a few KB, random fragmentation); failing
    cases are shrunk and classified by TLC against the named defects.
(D) thorough tier: the same replay on an ASan+UBSan build; a sanitizer report is a violation
    OBSERVED (the memory-safety half cannot be decided by TLA+; the spec decides the index discipline)."""
import os, json, re, itertools, time, subprocess, shutil
from concurrent.futures import ThreadPoolExecutor
from vlib import *

PROP = "C20"
FMT = {"NONE": 0, "B32": 1, "B32H": 2, "B64": 3, "UTF8": 4, "U16LE": 5, "U16BE": 6, "UANY": 7}
FMTN = {v: k for k, v in FMT.items()}
# spec defect name -> (known-finding key, what)
DEFECTS = {
    "pad_cumulative": "base-decode:padding-counter-cumulative-across-regions",
    "b32hex_tabsize": "base32hex-decode:table-size-taken-from-encode-table",
    "utf8_dfff": "utf8-to-utf16:U+DFFF-accepted",
    "utf_skip_offset": "utf:skip-not-added-to-offset",
    "utf8_bom_position": "utf8-to-utf16:U+FEFF-position-test-after-split-sequence",
    "utf16_odd_overread": "utf16-to-utf8:odd-region-8-byte-read",
    "utf16_lowsur_straddle": "utf16-to-utf8:low-surrogate-split-by-odd-region-end",
}
# (family, defect) pairs TLC must refute; mutants likewise
REFUTE = [("base", "pad_cumulative"), ("base", "b32hex_tabsize"), ("basedec", "pad_cumulative"),
          ("utf8", "utf8_dfff"), ("utf8", "utf_skip_offset"), ("utf8", "utf8_bom_position"),
          ("utf16", "utf16_odd_overread"), ("utf16", "utf16_lowsur_straddle"), ("utf16", "utf_skip_offset")]
MUTANTS = [("base", "enc_nocarry"), ("base", "ws_noskip")]

BOUNDS = {
    "quick":    {"base": ("q", 5, 3), "basedec": ("q", 5, 3), "utf8": ("q", 5, 3), "utf16": ("q", 6, 3)},
    "thorough": {"base": ("t", 5, 4), "basedec": ("t", 5, 3), "utf8": ("t", 5, 3), "utf16": ("t", 6, 3)},
}


def listed_defects():
    keys = {f.get("key") for f in known_findings(PROP)["findings"]}
    return [d for d, k in DEFECTS.items() if k in keys]


def write_cfg(path, fam, alpha, maxlen, maxreg, defects=(), mut="none", emit=False, classify=False):
    body = "INIT %s\nNEXT %s\nCONSTANTS\n" % (("ClassifyInit", "ClassifyNext") if classify else ("Init", "Next"))
    body += "  Defects = {%s}\n  Mut = \"%s\"\n  Family = \"%s\"\n  Alpha = \"%s\"\n" % (
        ", ".join('"%s"' % d for d in defects), mut, fam, alpha)
    body += "  MaxLen = %d\n  MaxRegions = %d\n  Emit = %s\n" % (maxlen, maxreg, "TRUE" if emit else "FALSE")
    body += "  Listed = {%s}\n" % ", ".join('"%s"' % x for x in listed_defects())
    if not classify:
        body += "INVARIANTS Laws EmitAll\n"
    body += "CHECK_DEADLOCK FALSE\n"
    with open(path, "w") as f:
        f.write(body)


def tlc_stream(name, cfg, outpath, workers, timeout, env=None):
    """Like vlib.tlc but the (large) output goes to a file."""
    meta = os.path.join(BUILD, "tlc", "c20_%s.%d" % (name, os.getpid()))
    shutil.rmtree(meta, ignore_errors=True)
    os.makedirs(meta, exist_ok=True)
    cmd = ["tlc", "-workers", str(workers), "-metadir", meta, "-config", cfg, "-noGenerateSpecTE",
           os.path.join(SPEC, "Transform.tla")]
    e = dict(os.environ)
    e.update(env or {})
    # the state spaces are tiny; do not let every JVM claim a quarter of the machine's memory
    e["JAVA_TOOL_OPTIONS"] = (e.get("JAVA_TOOL_OPTIONS", "") + " -Xmx3g -Xss1g").strip()
    t0 = time.time()
    r = TlcResult()
    with open(outpath, "w") as fo:
        try:
            p = subprocess.run(cmd, stdout=fo, stderr=subprocess.STDOUT, timeout=timeout, env=e, cwd=SPEC)
            r.rc = p.returncode
        except subprocess.TimeoutExpired:
            r.rc, r.timeout = 124, True
    r.wall = time.time() - t0
    shutil.rmtree(meta, ignore_errors=True)
    tail = []
    with open(outpath, errors="replace") as f:
        for line in f:
            if not line.startswith('"['):
                tail.append(line)
    txt = "".join(tail)
    r.out = txt[-6000:]
    m = None
    for m in re.finditer(r"(\d[\d,]*) states generated, (\d[\d,]*) distinct states found", txt):
        pass
    if m:
        r.generated, r.distinct = int(m.group(1).replace(",", "")), int(m.group(2).replace(",", ""))
    m = re.search(r"depth of the complete state graph search is (\d+)", txt)
    if m:
        r.depth = int(m.group(1))
    m = re.search(r"Error: Invariant (\w+) is violated", txt)
    if m:
        r.violated = m.group(1)
    if r.timeout:
        raise Broken("TLC timed out on %s" % name)
    if r.rc not in (0, 12, 13, 11) and r.violated is None:
        raise Broken("TLC failed on %s (rc=%s):\n%s" % (name, r.rc, r.out[-3000:]))
    return r


def rows_of(path):
    with open(path, errors="replace") as f:
        for line in f:
            if line.startswith('"['):
                try:
                    yield json.loads(json.loads(line))
                except Exception:
                    raise Broken("cannot parse TLC row: %s" % line[:200])


# ---------------------------------------------------------------- model checking
def model(v, tier, d):
    bounds = BOUNDS[tier]
    outs = {}

    def law_run(fam):
        alpha, ml, mr = bounds[fam]
        cfg = os.path.join(d, "law_%s.cfg" % fam)
        write_cfg(cfg, fam, alpha, ml, mr, emit=True)
        out = os.path.join(d, "tlc_%s.out" % fam)
        w = {"base": 6, "utf16": 4, "utf8": 4, "basedec": 2}[fam] * max(1, NCPU // 16) if tier == "thorough" else \
            (max(2, NCPU // 2) if fam == "base" else max(2, NCPU // 4))
        return fam, out, tlc_stream("law_" + fam, cfg, out, w, 1500 if tier == "quick" else 3000)

    def refute_run(args):
        fam, defect, mut = args
        alpha, ml, mr = BOUNDS["quick"][fam]
        cfg = os.path.join(d, "ref_%s_%s_%s.cfg" % (fam, defect or "none", mut))
        write_cfg(cfg, fam, alpha, ml, mr, defects=[defect] if defect else [], mut=mut, emit=False)
        r = tlc_stream("ref_%s_%s_%s" % (fam, defect or "none", mut), cfg, cfg + ".out", 1, 900)
        return fam, defect, mut, r

    jobs = [(f, dft, "none") for f, dft in REFUTE] + [(f, None, m) for f, m in MUTANTS]
    with ThreadPoolExecutor(max_workers=4) as ex1, ThreadPoolExecutor(max_workers=4) as ex2:
        fl = [ex1.submit(law_run, f) for f in ("base", "utf16", "utf8", "basedec")]
        fr = [ex2.submit(refute_run, j) for j in jobs]
        laws = [f.result() for f in fl]
        refs = [f.result() for f in fr]
    for fam, out, r in laws:
        alpha, ml, mr = bounds[fam]
        v.add_model("Transform %s: alphabet %s, <=%d bytes, <=%d regions, Defects={}" % (fam, alpha, ml, mr), r)
        outs[fam] = out
        if r.violated:
            p = save_replay(PROP, "law_%s.tlc.out" % fam, r.out)
            v.violation("the transcribed (repaired) algorithm violates %s in family %s" % (r.violated, fam), p)
    for fam, defect, mut, r in refs:
        what = defect or ("mutant " + mut)
        if r.violated != "Laws":
            raise Broken("%s is not refuted by TLC in family %s: the laws are vacuous in these bounds" % (what, fam))
        m = re.search(r"x = (<<[^\n]*>>)\s*\n\s*\n?\d+ states generated", r.out)
        v.notes.setdefault("refuted_in_spec", []).append(
            {"family": fam, "deviation": what, "states": r.distinct, "counterexample_x": m.group(1) if m else None})
    return outs


# ---------------------------------------------------------------- vectors
def hx(bs):
    return "".join("%02x" % b for b in bs) if bs else "-"


def splits(n, maxreg):
    if n == 0:
        yield ()
        return
    for k in range(0, min(maxreg, n)):
        for cuts in itertools.combinations(range(1, n), k):
            yield cuts


def regions_of(u, cuts):
    if not u:
        return []
    pts = [0] + list(cuts) + [len(u)]
    return [u[pts[i]:pts[i + 1]] for i in range(len(pts) - 1)]


def cuts_of(regs):
    c, o = [], 0
    for r in regs[:-1]:
        o += len(r)
        c.append(o)
    return tuple(c)


class Table:
    """Expectations emitted by TLC."""

    def __init__(self):
        self.ref = {}    # (u, fin, fout) -> (pin, ok, out)
        self.dev = {}    # (u, fin, fout) -> {defect: {"*" | cuts: (ok, out, oob, nd)}}
        self.maxreg = {}

    def load(self, path, maxreg):
        for row in rows_of(path):
            if row[0] == "V":
                _, u, fin, fout, pin, ok, out = row
                k = (tuple(u), fin, fout)
                self.ref[k] = (pin, ok, tuple(out))
                self.maxreg[k] = maxreg
            elif row[0] == "K":
                _, dname, sp, u, fin, fout, ok, out, oob, nd = row
                k = (tuple(u), fin, fout)
                key = "*" if sp == "*" else cuts_of(sp)
                self.dev.setdefault(k, {}).setdefault(dname, {})[key] = (ok, tuple(out), oob, nd)

    def preds(self, k, cuts):
        """[(defect, (ok,out,oob,nd))] predicted deviations for this split; single defects first."""
        res = []
        for dname, m in self.dev.get(k, {}).items():
            p = m.get("*") or m.get(cuts)
            if p:
                res.append((dname, p))
        res.sort(key=lambda x: x[0] == "ALL")
        return res


def norm(fout, b):
    b = bytes(b)
    bom = {"UTF8": b"\xef\xbb\xbf", "U16LE": b"\xff\xfe", "U16BE": b"\xfe\xff"}.get(fout)
    if bom:
        while b.startswith(bom):
            b = b[len(bom):]
    return b


def plan_vectors(tab, san, seed):
    """The vectors to replay: (key, cuts, flag).  A vector for which the spec, run with a LISTED defect,
    predicts memory-unsafe behaviour is run in a forked child, and only a 1/8 sample of those is run:
    plain build - predicted out-of-bounds WRITES (absurd object fed to an encoder);
    sanitizer build - every predicted out-of-range access."""
    skipped = 0
    for k in tab.ref:
        u, fin, fout = k
        dv = tab.dev.get(k)
        n = 0
        for cuts in splits(len(u), tab.maxreg[k]):
            flag = "-"
            if dv:
                ps = tab.preds(k, cuts)
                if san:
                    risky = any(p[2] or p[3] for _, p in ps)
                else:
                    risky = fout in ("B32", "B32H", "B64") and any(p[3] for _, p in ps)
                if risky:
                    n += 1
                    if (hash((u, cuts, seed)) & 7) != 0:
                        skipped += 1
                        continue
                    flag = "F"
            yield k, cuts, flag
    tab.skipped = skipped


def write_vectors(tab, path, san, seed):
    plan = []
    with open(path, "w") as f:
        for n, (k, cuts, flag) in enumerate(plan_vectors(tab, san, seed)):
            regs = regions_of(k[0], cuts)
            f.write("%d %s %d %d %d%s\n" % (n, flag, FMT[k[1]], FMT[k[2]], len(regs), "".join(" " + hx(r) for r in regs)))
            plan.append((k, cuts))
    return plan


def _run_chunk(cmd, cin, cout, env, timeout):
    """One driver process over one chunk; restarts after an in-process crash.
    Returns (pieces, [(crashed id, stderr tail)], stderr)."""
    pieces, crashes, errs = [], [], ""
    cur = cin
    n = 0
    while True:
        po = cout if n == 0 else "%s.rest%d" % (cout, n)
        rc, out, err = sh(cmd + ["replay", cur, po], timeout=timeout, env=env)
        if rc == 124:
            raise Broken("driver timed out")
        errs += err[-4000:]
        pieces.append(po)
        lines = open(cur).read().splitlines()
        done = sum(1 for _ in open(po)) if os.path.exists(po) else 0
        if done >= len(lines):
            return pieces, crashes, errs
        crashes.append((int(lines[done].split()[0]), err[-3000:]))
        if len(crashes) >= 12:
            # the process keeps dying: enough evidence, the rest of this chunk is not run
            return pieces, crashes, errs
        n += 1
        cur = "%s.rest%d" % (cin, n)
        with open(cur, "w") as f:
            f.write("\n".join(lines[done + 1:]) + ("\n" if lines[done + 1:] else ""))
        if not lines[done + 1:]:
            return pieces, crashes, errs


def run_driver_replay(cmd, vin, vout, env=None, timeout=1500, par=None):
    """Replays vin with `cmd` (driver, possibly under valgrind) in parallel chunks."""
    if isinstance(cmd, str):
        cmd = [cmd]
    lines = open(vin).read().splitlines()
    par = par or (max(1, min(NCPU // 2, 8)) if len(lines) > 20000 else 1)
    size = (len(lines) + par - 1) // par if lines else 1
    chunks = []
    for c in range(par):
        part = lines[c * size:(c + 1) * size]
        if not part:
            continue
        cin = "%s.c%d" % (vin, c)
        with open(cin, "w") as f:
            f.write("\n".join(part) + "\n")
        chunks.append((cin, "%s.c%d" % (vout, c)))
    pieces, crashes, errs = [], [], ""
    with ThreadPoolExecutor(max_workers=max(1, len(chunks))) as ex:
        for p, c, e in ex.map(lambda a: _run_chunk(cmd, a[0], a[1], env, timeout), chunks):
            pieces += p
            crashes += c
            errs += e
    return pieces, crashes, errs


def crash_headline(err):
    m = re.search(r"(ERROR: AddressSanitizer: [^\n]*|runtime error: [^\n]*|Invalid (?:read|write) of size \d+|SUMMARY: [^\n]*)", err or "")
    return m.group(1)[:200] if m else "process died"


def read_results(pieces, crashes):
    """id -> (st, size, bytes|None, inv); crashed in-process vectors get st 'X'."""
    res = {}
    for p in pieces:
        with open(p) as f:
            for line in f:
                t = line.split()
                if len(t) != 5:
                    continue
                b = bytes.fromhex(t[3]) if t[1] == "R" and t[3] != "-" else b""
                res[int(t[0])] = (t[1], int(t[2]), b, t[4])
    for cid, err in crashes:
        res[cid] = ("X", 0, b"", "-", crash_headline(err))
    return res


def judge(tab, k, cuts, real):
    """-> (verdict, defect, text); verdict in ok / drift / known / violation"""
    u, fin, fout = k
    pin, ok, out = tab.ref[k]
    st, size, rb, inv = real[:4]
    match_ref = (st == "N" and not ok) or (st == "R" and ok and norm(fout, out) == norm(fout, rb))
    law_bad = st in "AX" or (st == "R" and inv in "0a")
    if match_ref and not law_bad:
        return "ok", None, ""
    what = {"A": "result object of absurd size %d" % size,
            "X": "crash / sanitizer report" + (" (%s)" % real[4] if len(real) > 4 else ""),
            "N": "NULL", "R": "%d bytes %s" % (len(rb), rb.hex()[:64])}[st]
    if st == "R" and inv in "0a":
        what += " which the inverse transform " + ("rejects" if inv == "0" else "turns into an absurd object")
    exp = ("NULL" if not ok else bytes(out).hex()[:64] or "(empty)") + ("" if pin else " (not fixed by the property)")
    text = "%s->%s on regions [%s]: got %s, spec expects %s" % (
        fin, fout, " ".join(hx(r) for r in regions_of(u, cuts)), what, exp)
    # is the deviation exactly what the spec predicts for a named defect?
    for dname, (pok, pout, poob, pnd) in tab.preds(k, cuts):
        if pnd or (poob and st == "X") or \
           (st == "N" and not pok) or (st == "R" and pok and norm(fout, pout) == norm(fout, rb)):
            return "known", dname, text
    if st == "R" and inv in "0a" and match_ref:
        # the inverse transform is the one misbehaving: is the inverse vector a predicted deviation?
        for dname, m in tab.dev.get((tuple(rb), fout, fin), {}).items():
            if any((not p[0]) or p[3] for p in m.values()):
                return "known", dname, text
        # inverse vector outside the emitted set: decided by the classification pass
        return "inv", None, text
    if law_bad or pin:
        return "violation", None, text
    return "drift", None, text


def replay_vectors(v, tab, drv, d, tag, env=None):
    vin = os.path.join(d, "vectors_%s.in" % tag)
    vout = os.path.join(d, "vectors_%s.out" % tag)
    for f in os.listdir(d):
        if f.startswith("vectors_%s." % tag):
            os.unlink(os.path.join(d, f))
    plan = write_vectors(tab, vin, env is not None, v.seed)
    n = len(plan)
    pieces, crashes, err = run_driver_replay(drv, vin, vout, env=env)
    res = read_results(pieces, crashes)
    stats = {"vectors": n, "ok": 0, "drift": 0, "known": {}, "violations": 0,
             "skipped_predicted_unsafe_under_listed_defect": tab.skipped}
    pending_inv = []
    expn = {}
    for i, (k, cuts) in enumerate(plan):
        real = res.get(i)
        if real is None:
            if crashes:
                stats["not_run_after_repeated_crashes"] = stats.get("not_run_after_repeated_crashes", 0) + 1
                continue
            raise Broken("driver produced no result for vector %d" % i)
        st = real[0]
        if st == "G":
            raise Broken("driver could not establish the fragmentation of vector %d" % i)
        # fast path: exactly as specified
        e = expn.get(k)
        if e is None:
            pin, ok, out = tab.ref[k]
            e = expn[k] = (ok, norm(k[2], out))
        if real[3] in "1-" and ((st == "N" and not e[0]) or (st == "R" and e[0] and norm(k[2], real[2]) == e[1])):
            stats["ok"] += 1
            if len(v.samples) < 4 and len(k[0]) >= 3 and len(cuts) >= 1 and i % 977 == 0:
                v.samples.append({"replayed": "%s->%s regions [%s]" % (k[1], k[2], " ".join(hx(r) for r in regions_of(k[0], cuts))),
                                  "result": "NULL" if st == "N" else real[2].hex(), "matches_spec": True, "build": tag})
            continue
        verdict, dname, text = judge(tab, k, cuts, real)
        if verdict == "ok":
            stats["ok"] += 1
        elif verdict == "drift":
            stats["drift"] += 1
            if stats["drift"] <= 3:
                v.drift.append("(%s) outside the property's fixed results: %s" % (tag, text))
        elif verdict == "known":
            e = stats["known"].setdefault(dname, {"count": 0, "example": text})
            e["count"] += 1
            if "not fixed by the property" in e["example"] and "not fixed by the property" not in text:
                e["example"] = text
        elif verdict == "inv":
            pending_inv.append((k, cuts, real, text))
        else:
            stats["violations"] += 1
            if stats["violations"] <= 5:
                rp = save_replay(PROP, "vector_%s_%d.json" % (tag, i), json.dumps(
                    {"vectors": [{"fin": k[1], "fout": k[2], "regions": [hx(r) for r in regions_of(k[0], cuts)],
                                  "expected": {"ok": tab.ref[k][1], "out": bytes(tab.ref[k][2]).hex(), "pinned": tab.ref[k][0]},
                                  "observed": {"st": real[0], "size": real[1], "out": real[2].hex(), "inverse": real[3]}}]}))
                v.violation("(%s) %s" % (tag, text), rp)
    v.traces += stats["ok"]
    return stats, pending_inv, err


# ---------------------------------------------------------------- classification by TLC
def classify(d, cases, tag):
    """cases: list of dict(id, regions=[[int]], fin, fout) -> (refs {id:(pin,ok,out)}, preds {id:{defect:(same,ok,out,oob,nd)}})"""
    if not cases:
        return {}, {}
    path = os.path.join(d, "cases_%s.ndjson" % tag)
    with open(path, "w") as f:
        for c in cases:
            f.write(json.dumps(c) + "\n")
    cfg = os.path.join(d, "classify_%s.cfg" % tag)
    write_cfg(cfg, "classify", "q", 0, 64, classify=True)
    out = os.path.join(d, "classify_%s.out" % tag)
    r = tlc_stream("classify_" + tag, cfg, out, 1, 900, env={"C20_CASES": path})
    if r.rc != 0:
        raise Broken("TLC classification failed: %s" % r.out[-2000:])
    refs, preds = {}, {}
    byflat = {}
    for c in cases:
        byflat.setdefault((tuple(b for rg in c["regions"] for b in rg), c["fin"], c["fout"]), []).append(c["id"])
    for row in rows_of(out):
        if row[0] == "V":
            _, u, fin, fout, pin, ok, o = row
            for i in byflat.get((tuple(u), fin, fout), []):
                refs[i] = (pin, ok, tuple(o))
        elif row[0] == "C":
            _, i, dname, same, ok, o, oob, nd = row
            preds.setdefault(i, {})[dname] = (same, ok, tuple(o), oob, nd)
    return refs, preds


def judge_steps(d, drv, steps, tag, env=None, depth=0):
    """steps: list of (regions [bytes], fin, fout) -> list of (verdict, defect, text) using TLC classification
    of exactly these inputs and a replay on the real code."""
    steps = [s for s in steps if sum(len(r) for r in s[0]) <= 2600]
    cases = [{"id": i + 1, "regions": [list(r) for r in regs], "fin": fin, "fout": fout}
             for i, (regs, fin, fout) in enumerate(steps)]
    refs, preds = classify(d, cases, tag)
    vin = os.path.join(d, "steps_%s.in" % tag)
    with open(vin, "w") as f:
        for i, (regs, fin, fout) in enumerate(steps):
            f.write("%d F %d %d %d%s\n" % (i, FMT[fin], FMT[fout], len(regs), "".join(" " + hx(r) for r in regs)))
    pieces, crashes, err = run_driver_replay(drv, vin, vin + ".out", env=env)
    res = read_results(pieces, crashes)
    verdicts = []
    for i, (regs, fin, fout) in enumerate(steps):
        tab = Table()
        u = tuple(b for r in regs for b in r)
        k = (u, fin, fout)
        if (i + 1) not in refs:
            verdicts.append(("violation", None, "no classification for step"))
            continue
        tab.ref[k] = refs[i + 1]
        cuts = cuts_of(regs)
        for dname, (same, ok, o, oob, nd) in preds.get(i + 1, {}).items():
            if dname != "none" and not same:
                tab.dev.setdefault(k, {}).setdefault(dname, {})[cuts] = (ok, o, oob, nd)
        # the spec itself (no defect) on exactly this split
        pn = preds.get(i + 1, {}).get("none")
        if pn and not pn[0]:
            verdicts.append(("violation", None, "the spec's repaired algorithm is fragmentation dependent here"))
            continue
        verdicts.append(judge(tab, k, cuts, res[i]))
    if depth == 0:
        # "inv": the step is as specified but the inverse transform rejected the real result: judge the inverse step
        idx = [i for i, x in enumerate(verdicts) if x[0] == "inv"]
        if idx:
            sub = judge_steps(d, drv, [([res[i][2]] if res[i][2] else [], steps[i][2], steps[i][1]) for i in idx],
                              tag + "_inv", env=env, depth=1)
            for i, sv in zip(idx, sub):
                verdicts[i] = ("known", sv[1], verdicts[i][2]) if sv[0] == "known" else ("violation", None, verdicts[i][2] + " ; inverse step: " + sv[2])
    else:
        verdicts = [("violation", x[1], x[2]) if x[0] == "inv" else x for x in verdicts]
    return verdicts


def resolve_inverse(v, d, drv, pending, tag, stats, env=None):
    """Vectors whose own result is as specified but whose real result the inverse transform rejects:
    classify the inverse vector (real output as one region)."""
    if not pending:
        return
    uniq = {}
    for k, cuts, real, text in pending:
        uniq.setdefault((real[2], k[2], k[1]), []).append(text)
    keys = list(uniq)[:300]
    steps = [([rb] if rb else [], fin, fout) for rb, fin, fout in keys]
    vs = judge_steps(d, drv, steps, "inv_" + tag, env=env)
    for (rb, fin, fout), (verdict, dname, t2) in zip(keys, vs):
        n = len(uniq[(rb, fin, fout)])
        text = uniq[(rb, fin, fout)][0]
        if verdict == "known":
            e = stats["known"].setdefault(dname, {"count": 0, "example": text})
            e["count"] += n
        elif verdict in ("ok", "drift"):
            # inverse behaves as specified on its own, yet rejected the object: only possible through the object's fragmentation
            stats["violations"] += n
            v.violation("(%s) %s" % (tag, text), save_replay(PROP, "inverse_%s.json" % rb.hex()[:40], json.dumps({"vectors": [
                {"fin": fin, "fout": fout, "regions": [hx(rb)]}]})))
        else:
            stats["violations"] += n
            v.violation("(%s) %s; inverse: %s" % (tag, text, t2), save_replay(PROP, "inverse_%s.json" % rb.hex()[:40], json.dumps(
                {"vectors": [{"fin": fin, "fout": fout, "regions": [hx(rb)]}]})))


# ---------------------------------------------------------------- random law oracle
def strip_ws(b):
    return bytes(x for x in b if x not in (10, 9, 32))


def random_laws(v, d, drv, seed, iters, maxlen, tag, env=None, timeout=1200):
    out = os.path.join(d, "random_%s.out" % tag)
    rc, o, err = sh((drv if isinstance(drv, list) else [drv]) + ["random", str(seed), str(iters), str(maxlen), out, "fork"],
                    timeout=timeout, env=env)
    if rc != 0:
        raise Broken("random law driver failed rc=%s: %s" % (rc, err[-1500:]))
    wit, done, unshrunk = {}, None, 0
    with open(out) as f:
        for line in f:
            try:
                j = json.loads(line)
            except Exception:
                continue
            if j["kind"] == "done":
                done = j
            elif j["kind"] == "crash-unshrunk":
                unshrunk += 1
            else:
                key = (j["pred"], j["fin"], j["fout"], tuple(j["regions"]))
                w = wit.setdefault(key, {"n": 0, "kind": j["kind"], "detail": j.get("detail", "")})
                w["n"] += 1
                if j["kind"] == "crash":
                    w["kind"] = "crash"
    if done is None:
        raise Broken("random law driver did not finish: %s" % err[-1500:])
    stats = {"cases": done["cases"], "law_evaluations": done["evals"], "failing_evaluations": sum(w["n"] for w in wit.values()),
             "distinct_shrunk_witnesses": len(wit), "crashed_iterations": done["crashed_iterations"],
             "crashes_not_shrunk": unshrunk, "known": {}, "violations": 0}
    if not wit:
        v.traces += done["evals"]
        return stats
    v.traces += max(0, done["evals"] - stats["failing_evaluations"])
    # steps of every witness
    # at most 3000 witnesses are classified, taken round-robin over (law, formats) so that no class is starved;
    # witnesses that could not be shrunk (results depending on foreign memory are not reproducible) are long:
    # at most 8 of those (<= 2500 bytes) go to TLC
    nb = lambda k: sum(len(r) for r in k[3]) // 2
    longw = sorted([k for k in wit if nb(k) > 400], key=nb)
    keys = [k for k in longw if nb(k) <= 2500][:8]
    longs, unclassified_long = len(keys), len(longw) - len(keys)
    groups = {}
    for key in wit:
        if nb(key) <= 400:
            groups.setdefault(key[:3], []).append(key)
    lists = [sorted(g, key=nb) for g in groups.values()]
    i = 0
    while len(keys) < 3000 and any(i < len(l) for l in lists):
        for l in lists:
            if i < len(l) and len(keys) < 3000:
                keys.append(l[i])
        i += 1
    stats["witnesses_not_classified_over_budget"] = len(wit) - len(keys) - unclassified_long
    stats["witnesses_classified"] = len(keys)
    stats["long_witnesses_classified"] = longs
    stats["long_witnesses_not_classified"] = unclassified_long
    wsteps, steps = [], []
    for (pred, fin, fout, regs) in keys:
        rg = [bytes.fromhex(r) for r in regs]
        flat = b"".join(rg)
        fi, fo = FMTN[fin], FMTN[fout]
        one = [flat] if flat else []
        if pred == "frag":
            st = [(rg, fi, fo), (one, fi, fo)]
        elif pred == "whitespace":
            nw = strip_ws(flat)
            st = [(rg, fi, fo), ([nw] if nw else [], fi, fo)]
        elif pred == "inverse":
            st = [(rg, fi, fo)]
        elif pred == "compose":
            st = [(rg, fi, fo), (rg, fi, "NONE")]
        elif pred == "utfany":
            st = [(rg, "UANY", fo), (rg, "UTF8" if flat[:2] not in (b"\xff\xfe", b"\xfe\xff") else ("U16LE" if flat[:2] == b"\xff\xfe" else "U16BE"), fo)]
        elif pred == "roundtrip":
            st = [(one, "NONE", fi)]
        else:  # roundtrip_utf
            st = [(one, "UTF8", fo)]
        wsteps.append((len(steps), len(st)))
        steps += st
    # second steps of the round trips need the spec's expected intermediate: classify the first steps first
    rt = [(i, key) for i, key in enumerate(keys) if key[0] in ("roundtrip", "roundtrip_utf")]
    if rt:
        cases = []
        for n, (i, (pred, fin, fout, regs)) in enumerate(rt):
            s0 = steps[wsteps[i][0]]
            cases.append({"id": n + 1, "regions": [list(r) for r in s0[0]], "fin": s0[1], "fout": s0[2]})
        refs, _ = classify(d, cases, "rt_" + tag)
        extra = []
        for n, (i, (pred, fin, fout, regs)) in enumerate(rt):
            pin, ok, o = refs.get(n + 1, (0, 0, ()))
            if ok:
                s0 = steps[wsteps[i][0]]
                extra.append((i, ([bytes(o)] if o else [], s0[2], s0[1])))
        for i, s in extra:
            a, n = wsteps[i]
            steps.append(s)
            wsteps[i] = (a, n, len(steps) - 1)
    verd = judge_steps(d, drv, steps, "rnd_" + tag, env=env)
    # judge_steps drops over-long steps: map back by identity
    kept = [s for s in steps if sum(len(r) for r in s[0]) <= 2600]
    vmap = {id(s): vd for s, vd in zip(kept, verd)}
    for i, key in enumerate(keys):
        ws = wsteps[i]
        idx = list(range(ws[0], ws[0] + ws[1])) + ([ws[2]] if len(ws) > 2 else [])
        vs = [vmap.get(id(steps[j]), ("violation", None, "witness too long to classify")) for j in idx]
        known = [x for x in vs if x[0] == "known"]
        w = wit[key]
        text = "law %s failed (%s) on %s->%s regions [%s] %s" % (key[0], w["kind"], FMTN[key[1]], FMTN[key[2]],
                                                                " ".join(key[3]), w["detail"])
        if known:
            e = stats["known"].setdefault(known[0][1], {"count": 0, "example": (text + " :: " + known[0][2])[:600]})
            e["count"] += w["n"]
        else:
            stats["violations"] += 1
            if stats["violations"] <= 5:
                rp = save_replay(PROP, "law_%s_%d.json" % (tag, i), json.dumps(
                    {"law": key[0], "vectors": [{"fin": FMTN[key[1]], "fout": FMTN[key[2]], "regions": list(key[3])}],
                     "steps": [x[2] for x in vs]}))
                v.violation("(%s) %s; steps: %s" % (tag, text[:700], " | ".join("%s: %s" % (x[0], x[2][:300]) for x in vs)[:900]), rp)
    if unclassified_long and (stats["violations"] or not stats["known"]):
        # long witnesses beyond the classification budget count only if something is unexplained anyway
        rp = save_replay(PROP, "law_%s_long.txt" % tag, "%d long witnesses were not classified" % unclassified_long)
        v.violation("(%s) %d law failures with witnesses too long to classify" % (tag, unclassified_long), rp)
    return stats


# ---------------------------------------------------------------- known findings
def report_known(v, allstats):
    listed = {}
    for f in known_findings(PROP)["findings"]:
        listed[f.get("key")] = f
    merged = {}
    for tag, st in allstats:
        for dname, e in st.get("known", {}).items():
            m = merged.setdefault(dname, {"count": 0, "example": e["example"], "where": []})
            m["count"] += e["count"]
            m["where"].append(tag)
    for dname, m in sorted(merged.items()):
        key = DEFECTS.get(dname)
        if dname == "ALL":
            # several listed defects interacting on one input (the spec run with all LISTED defects predicts it)
            v.notes.setdefault("known_combinations", []).append({"count": m["count"], "example": m["example"][:300]})
            v.known.append("combination of listed defects observed %d times, e.g. %s" % (m["count"], m["example"][:300]))
            continue
        if key and key in listed:
            v.known.append("key=%s (spec deviation \"%s\") observed %d times in %s, e.g. %s" % (
                key, dname, m["count"], "+".join(sorted(set(m["where"]))), m["example"][:300]))
        else:
            rp = save_replay(PROP, "unlisted_%s.txt" % dname, m["example"])
            v.violation("behaviour of the catalogued defect \"%s\" observed but it is not a listed known finding: %s" % (
                dname, m["example"][:400]), rp)
    v.notes["known_defects_observed"] = {k: {"count": m["count"], "where": sorted(set(m["where"]))} for k, m in merged.items()}


def memory_checker(plain_drv, d):
    """The sanitizer build if it can be built, otherwise valgrind memcheck on the plain driver
    (debug info stripped: valgrind cannot read clang-16's DWARF 5)."""
    try:
        return build_driver("drv_transform", "asan"), SAN_ENV, "asan+ubsan build"
    except Broken as e:
        why = str(e)
    if not shutil.which("valgrind"):
        raise Broken("neither a sanitizer build nor valgrind is available: %s" % why[-600:])
    vg = os.path.join(d, "drv_transform.stripped")
    sh(["objcopy", "--strip-debug", plain_drv, vg], check=True)
    return (["valgrind", "-q", "--error-exitcode=99", "--exit-on-first-error=yes", "--run-libc-freeres=no", vg],
            {"C20_MEMCHECK": "1"}, "valgrind memcheck (sanitizer runtime for clang-16 is not installed)")


SAN_ENV = {"ASAN_OPTIONS": "detect_leaks=0:abort_on_error=0:allocator_may_return_null=1:max_allocation_size_mb=2048",
           "UBSAN_OPTIONS": "halt_on_error=1:print_stacktrace=1"}


def run(tier, seed):
    v = Verdict(PROP, tier, seed)
    d = rundir(PROP)
    v.assumptions = [
        "little-endian host (UTF_ANY detection reads the first two bytes as a host uint16_t)",
        "exhaustive part: token alphabets and bounds listed under models; longer inputs are covered by the random law oracle only",
        "memory safety is decided only as index discipline in the spec; on the code it is observed (thorough tier: ASan+UBSan build)",
        "results of UTF transforms are compared modulo leading byte-order marks, as the property states for the round trip",
        "BUFFER_MALLOC_MAX (100 MiB) and allocation failure paths are not reached",
    ]
    outs = model(v, tier, d)
    log("[C20] model checking done %.0fs" % (time.time() - v.t0))
    tab = Table()
    for fam, out in outs.items():
        tab.load(out, BOUNDS[tier][fam][2])
    if not tab.ref:
        raise Broken("TLC emitted no vectors")
    allstats = []
    log("[C20] tables loaded %.0fs" % (time.time() - v.t0))
    drv = build_driver("drv_transform")
    st, pend, _ = replay_vectors(v, tab, drv, d, "plain")
    log("[C20] replay done %.0fs (%d vectors)" % (time.time() - v.t0, st["vectors"]))
    resolve_inverse(v, d, drv, pend, "plain", st)
    log("[C20] inverse resolution done %.0fs (%d pending)" % (time.time() - v.t0, len(pend)))
    allstats.append(("replay", st))
    rs = random_laws(v, d, drv, seed, 1500 if tier == "quick" else 20000, 3000, "plain")
    allstats.append(("random-laws", rs))
    log("[C20] random laws done %.0fs" % (time.time() - v.t0))
    v.notes["replay"] = {k: st[k] for k in st if k != "known"}
    v.notes["random_laws"] = {k: rs[k] for k in rs if k != "known"}
    if tier == "thorough":
        adrv, senv, tool = memory_checker(drv, d)
        log("[C20] memory checker: %s" % tool)
        st2, pend2, err2 = replay_vectors(v, tab, adrv, d, "memcheck", env=senv)
        resolve_inverse(v, d, adrv, pend2, "memcheck", st2, env=senv)
        allstats.append(("replay-" + tool.split()[0], st2))
        log("[C20] checked replay done %.0fs" % (time.time() - v.t0))
        rs2 = random_laws(v, d, adrv, seed + 7919, 4000 if tool.startswith("asan") else 1200, 3000, "memcheck", env=senv, timeout=1500)
        allstats.append(("random-laws-" + tool.split()[0], rs2))
        v.notes["replay_memcheck"] = {k: st2[k] for k in st2 if k != "known"}
        v.notes["random_laws_memcheck"] = {k: rs2[k] for k in rs2 if k != "known"}
        v.notes["memory_safety"] = ("observed: vectors and random laws re-run under %s; decided: index ranges in Transform.tla "
                                    "(ghost oob)" % tool)
    else:
        v.notes["memory_safety"] = "quick tier: index ranges decided in Transform.tla (ghost oob); sanitizer build only in the thorough tier"
    report_known(v, allstats)
    v.notes["decided_vs_observed"] = "functional laws: decided by TLC on the transcription and bound by replay; sanitizer reports: observed"
    return v.finish()


def replay(path, seed):
    j = json.load(open(path))
    d = rundir(PROP)
    drv = build_driver("drv_transform")
    steps = []
    for vec in j.get("vectors", []):
        regs = [bytes.fromhex(r) if r != "-" else b"" for r in vec["regions"]]
        steps.append(([r for r in regs if r], vec["fin"], vec["fout"]))
        flat = b"".join(regs)
        if len(regs) > 1:
            steps.append(([flat], vec["fin"], vec["fout"]))
    vs = judge_steps(d, drv, steps, "replay")
    bad = 0
    for s, (verdict, dname, text) in zip(steps, vs):
        print("%s %s %s" % (verdict.upper(), dname or "", text or "%s->%s [%s] as specified" % (s[1], s[2], " ".join(hx(r) for r in s[0]))))
        if verdict not in ("ok", "drift", "known"):
            bad = 1
    if j.get("law"):
        print("law that failed: %s" % j["law"])
    return bad
