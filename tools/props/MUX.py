"""MUX - the epoll "muxnote" layer (src/event/event_epoll.c): several sources on ONE descriptor share one epoll
registration with EPOLLONESHOT re-arming.  An element of C16's check (`muxnote_element(v, tier, seed)`); `tools/check MUX`
runs it alone (verdict lines under property C16, evidence in evidence/MUX.json).
(A) TLC: spec/Muxnote.tla - kernel entry {interest mask, enabled}, muxnote {dmn_events, dmn_disarmed_events, the two
    lists}, per unote {du_state, ds_pending_data, handler}, the descriptor's readiness as environment; one action per
    system call / shared store of _dispatch_unote_register_muxed, _dispatch_event_merge_fd (+ hang-up path),
    _dispatch_unote_resume_muxed, _dispatch_unote_unregister_muxed.  Invariants: every epoll_ctl mask is
    dmn_events & ~dmn_disarmed_events; kernel entry == armed set between deliveries; disarmed <=> a delivered event is
    unconsumed; a direction is enabled only if no delivered event of it is unconsumed; no second event while the first
    is pending / being handled; unotes sit in the list of their own direction; registration exists exactly while a
    unote is linked; the API consequences (never 0 bytes without EOF, never an empty descriptor, invocations <= writes);
    liveness under fairness.  Spec mutants (the seeded re-arm with dmn_events & ~fired_now, a resume / merge without
    its MOD, an unregister that keeps the mask / the entry) must be refuted; the two deviations of the code as pinned
    (ListFix = FALSE, Fix = FALSE) must yield their counterexamples, the repaired variants none.
(B) real executions: harness/drv_mux.c (READ+WRITE, READ+READ, READ+READ+WRITE on one end of a socketpair / pipe, slow
    handlers, four readiness patterns, suspend / resume, late activation, one source leaving while the others stay,
    re-creation, hang-up); epoll_ctl / epoll_wait interposed at the library/kernel boundary + the probes of
    event_epoll.c + du_state / ds_pending_data atomics + handler records, validated by spec/MuxnoteTrace.tla: every
    epoll_ctl carries exactly the mask the muxnote state dictates, every delivery is explained by an enabled
    direction, every merge goes to a unote the list walk owes; all invariants in every state.  API oracles in the
    driver (sound for every schedule while r1 is the only consumer)."""
import os, re, json, time, collections
from concurrent.futures import ThreadPoolExecutor
from vlib import *

PROP = "C16"
ELEM = "MUX"
KF_LIST = "mux_reader_linked_as_writer"
KF_SIB = "mux_sibling_rearm_double_delivery"
TSPEC = "MuxnoteTrace.tla"
ALL_INVS = ("CtlMaskIsArmedSet KernelMatchesMux DisarmedImpliesUnconsumed UnconsumedImpliesDisarmed EnabledOnlyIfConsumed "
            "NoDoubleDelivery NoSiblingDoubleDelivery ListsMatchDirection RegistrationExact EventsMatchLists ReadNeverZero "
            "ReaderFindsData InvocationsLeWrites HandlerSerial")
# what holds for two unotes of one direction on the code as pinned (per-direction disarm): everything structural, and no
# double delivery other than the one caused by the sibling's re-arm / registration
SIB_INVS = ("CtlMaskIsArmedSet KernelMatchesMux DisarmedImpliesUnconsumed NoDoubleDelivery ListsMatchDirection "
            "RegistrationExact EventsMatchLists HandlerSerial")
# driver oracle failures that ARE the consequence of a sibling double delivery (r1 handed an event it already consumed)
SIB_ORACLES = ("dispatch_source_get_data() == 0 and no end of file", "the descriptor is empty", "exceeds the bytes present",
               "more read handler invocations than chunks", "is not the size of the chunk")
CFG_RW, CFG_RR, CFG_RRW, CFG_RAW = 1, 2, 4, 8
F_SAFEORDER, F_CONTINUE = 1, 2


def _rd():
    return rundir(ELEM)


def _derive(base, tag, subs=None, invs=None, drop_props=False):
    txt = open(os.path.join(SPEC, "cfg", base)).read()
    for k, val in (subs or {}).items():
        txt, n = re.subn(r"^  %s = .*$" % k, "  %s = %s" % (k, val), txt, flags=re.M)
        if n != 1:
            raise Broken("cannot derive %s from %s: %s" % (tag, base, k))
    if invs is not None:
        txt, n = re.subn(r"^INVARIANTS .*$", "INVARIANTS " + invs, txt, flags=re.M)
        if n != 1:
            raise Broken("cannot derive %s from %s: INVARIANTS" % (tag, base))
    if drop_props:
        txt = re.sub(r"^PROPERTY .*\n", "", txt, flags=re.M)
    p = os.path.join(_rd(), "%s.cfg" % tag)
    open(p, "w").write(txt)
    return p


# ------------------------------------------------------------------ (A) model checking
def _jobs(tier):
    """(kind, label, cfg path, workers, expectation)"""
    C = lambda n: os.path.join(SPEC, "cfg", n)
    J = [("pass", "Muxnote_rw_q", C("Muxnote_rw_q.cfg"), 4, None),
         ("pass", "Muxnote_rw_live_q", C("Muxnote_rw_live_q.cfg"), 2, None),
         ("pass", "Muxnote_rr_fix_q", C("Muxnote_rr_fix_q.cfg"), 3, None),
         ("pass", "Muxnote_rr_pinned/structural",
          _derive("Muxnote_rr_pinned.cfg", "rr_pinned_structural", invs="TypeOK " + SIB_INVS), 3, None),
         # the code as pinned, modelled as switchable deviations: TLC must show their consequence
         ("pinned", "Muxnote_rw_pinned", C("Muxnote_rw_pinned.cfg"), 2, "ListsMatchDirection"),
         ("pinned", "Muxnote_rr_pinned/sibling",
          _derive("Muxnote_rr_pinned.cfg", "rr_pinned_sibling", invs="TypeOK NoSiblingDoubleDelivery"), 2, "NoSiblingDoubleDelivery")]
    M = [("rearm_fired_now", "Muxnote_rw_q.cfg", "EnabledOnlyIfConsumed NoDoubleDelivery", False),
         ("rearm_fired_now", "Muxnote_rw_q.cfg", "CtlMaskIsArmedSet", False),
         ("rearm_fired_now", "Muxnote_rw_q.cfg", "ReaderFindsData InvocationsLeWrites ReadNeverZero", False),
         ("resume_no_mod", "Muxnote_rw_live_q.cfg", None, True),
         ("unreg_keeps_mask", "Muxnote_rw_q.cfg", "KernelMatchesMux", False),
         ("last_leaves_no_del", "Muxnote_rw_q.cfg", "RegistrationExact", False)]
    if tier != "quick":
        J += [("pass", "Muxnote_rw_t", C("Muxnote_rw_t.cfg"), 6, None),
              ("pass", "Muxnote_rw_fix_t", C("Muxnote_rw_fix_t.cfg"), 4, None),
              ("pass", "Muxnote_rrw_fix_t", C("Muxnote_rrw_fix_t.cfg"), 6, None),
              ("pass", "Muxnote_rw_live_t", C("Muxnote_rw_live_t.cfg"), 4, None)]
        M += [("no_rearm", "Muxnote_rw_live_q.cfg", None, True),
              ("resume_no_mod", "Muxnote_rw_q.cfg", "KernelMatchesMux", False)]
    for k, (mut, base, invs, live) in enumerate(M):
        cfg = _derive(base, "mut%d_%s" % (k, mut), subs={"Mut": '"%s"' % mut},
                      invs="TypeOK" + (" " + invs if invs else ""), drop_props=not live)
        J.append(("mut", "%s/%s" % (mut, "liveness" if live else invs.split()[0]), cfg, 2, ("live" if live else invs, mut)))
    return J


def _model_job(job):
    kind, label, cfg, workers, exp = job
    to = 900 if kind == "pass" else 300
    r = tlc("Muxnote.tla", cfg, workers=workers, timeout=to * (1 if "_q" in label or kind != "pass" else 4), heap="2500m",
            metaname="mux_%s.%d" % (re.sub(r"\W", "_", label), os.getpid()), extra=["-lncheck", "final"])
    if r.timeout:
        raise Broken("TLC timed out on %s" % label)
    if r.rc not in (0, 12, 13, 11) and r.violated is None:
        raise Broken("TLC failed on %s (rc=%s):\n%s" % (label, r.rc, r.out[-3000:]))
    return job, r


def _steps(r, n=40):
    return [re.sub(r" line \d+.*$", "", x) for x in re.findall(r"^State \d+: <(.*)>$", r.out, flags=re.M)][:n]


def model(v, tier):
    t0 = time.time()
    with ThreadPoolExecutor(max_workers=6) as ex:
        results = list(ex.map(_model_job, _jobs(tier)))
    note = v.notes.setdefault("muxnote", {})
    note["model_checking_wall_s"] = round(time.time() - t0, 1)
    for (kind, label, cfg, workers, exp), r in results:
        if kind == "pass":
            v.add_model(label, r)
            if r.violated:
                p = save_replay(PROP, "mux_" + label.replace("/", "_") + ".tlc.out", r.out)
                v.violation("Muxnote.tla config %s violates %s" % (label, r.violated), p)
        elif kind == "pinned":
            v.add_model(label, r)
            v.models[-1]["result"] = ("expected counterexample: %s" % r.violated) if r.violated else "NO counterexample"
            if r.violated != exp:
                raise Broken("%s: the modelled deviation of the pinned code no longer yields the %s counterexample (%s)" % (label, exp, r.violated))
            note.setdefault("pinned_deviations", []).append({"config": label, "tlc_counterexample": exp, "steps": _steps(r)})
        else:
            by, mut = exp
            if not r.violated or r.violated == "TypeOK":
                raise Broken("spec mutant %s not refuted (%s): the properties are vacuous in these bounds" % (mut, label))
            if by == "live" and not r.violated.startswith("temporal"):
                raise Broken("liveness mutant %s refuted by %s, not by the temporal property" % (mut, r.violated))
            note.setdefault("spec_mutants_refuted", []).append({"mutant": mut, "by": r.violated if by != "live" else "Live (temporal)",
                                                                "distinct_states": r.distinct})


# ------------------------------------------------------------------ (B) real executions
def _tcfg(listfix, fix, invs=ALL_INVS, tag=None):
    tag = tag or "trace_L%d_F%d_%s" % (listfix, fix, "all" if invs == ALL_INVS else "sib" if invs == SIB_INVS else "x")
    return _derive("MuxnoteTrace.cfg", tag, subs={"ListFix": "TRUE" if listfix else "FALSE", "Fix": "TRUE" if fix else "FALSE"},
                   invs=invs + " StopWhenAccepted")


def _validate(tr, cfg, tag):
    r = validate_trace(TSPEC, cfg, tr, nthreads=count_threads(tr), timeout=600, metaname="muxtr_%s.%d" % (tag, os.getpid()))
    return r


def _context(r, n=6):
    """the first record no action explains (or the record at which an invariant failed), preceded by n - 1 records"""
    try:
        lines = open(r.trace_with_header).read().splitlines()
    except Exception:
        return ""
    k = r.maxl or 1
    return " | ".join(x[:170] for x in lines[max(0, k - n):k])


def _why(r):
    if r.violated and r.violated != "StopWhenAccepted":
        return "invariant %s of Muxnote.tla is violated by the behaviour the real library performed; records up to there: %s" % (r.violated, _context(r, 5))
    return "no action of Muxnote.tla explains record %d (the last one shown); records: %s" % (r.maxl or 1, _context(r))


def _run(drv, name, seed, perturb, nexec, cfgmask, flags, storm=False):
    tr = os.path.join(_rd(), "%s.ndjson" % name)
    for p in (tr, tr + ".hdr.ndjson"):
        if os.path.exists(p):
            os.unlink(p)
    env = {"VRT_SIGNAL_STORM_US": "400"} if storm else None       # (set in the outer environment: every run)
    rc, out, err = sh([drv, tr, str(seed), str(perturb), str(nexec), hex(cfgmask), hex(flags)], timeout=300, env=env)
    if rc == 124:
        raise Broken("mux driver timed out (%s)" % name)
    if rc not in (0, 2, 70, 71) or not os.path.exists(tr):
        raise Broken("mux driver failed rc=%d (%s): %s" % (rc, name, err[-800:]))
    fails = [x.strip() for x in err.splitlines() if x.startswith("ORACLE-FAIL")]
    stats = dict((k, int(val)) for k, val in re.findall(r"(\w+)=(\d+)", err.splitlines()[-1] if err.strip() else ""))
    return {"name": name, "trace": tr, "rc": rc, "err": err, "fails": fails, "stats": stats, "seed": seed, "storm": storm}


def _detect(drv, seed, kf, v, note):
    """The directed execution `reader after writer` (the WRITE source is registered and stays armed because the send buffer
    is full; then the READ source registers on the same muxnote).  Tells which variant of the library is under test:
    returns (listfix, fix)."""
    res = _run(drv, "directed", seed * 1000 + 900, 2, 1, CFG_RAW, F_CONTINUE)
    tr = res["trace"]
    if res["rc"] in (70, 71):
        p = save_replay(PROP, "mux_directed_fail.ndjson", src=tr)
        v.violation("muxnote, directed execution 'READ source registered after an armed WRITE source': %s: %s"
                    % ("crash inside libdispatch" if res["rc"] == 70 else "hang", res["err"].strip()[-300:]), p)
        return None
    first = None

    def repaired():
        nonlocal first
        for fix in (False, True):
            r = _validate(tr, _tcfg(True, fix), "directed")
            if r.accepted:
                if res["rc"] != 0:
                    p = save_replay(PROP, "mux_directed_oracle.ndjson", src=r.trace_with_header)
                    v.violation("muxnote, directed execution: API oracle failed although the trace follows Muxnote.tla: %s" % " ;; ".join(res["fails"][:3]), p)
                v.traces += 1
                v.states += r.distinct
                v.transitions += r.generated
                note["library_variant"] = {"list_choice_repaired": True, "per_unote_arming": fix}
                return True, fix
            if first is None or (r.maxl or 0) > (first.maxl or 0):
                first = r           # (the variant that explains the longest prefix is the one reported)
        return None

    def pinned():
        # does it follow the deviation of the pinned code (reader linked as writer)?
        for fix in (False, True):
            # (NoWrongDirDelivery is bound to a recorded merge: an EPOLLOUT delivery stored into the READ unote's ds_pending_data)
            r2 = _validate(tr, _tcfg(False, fix, invs="NoWrongDirDelivery", tag="trace_L0_F%d_lists" % fix), "directed_p")
            if r2.violated == "NoWrongDirDelivery":
                what = ("the READ source that registered while EPOLLOUT of the shared muxnote was armed was linked into the WRITERS list "
                        "and handed an EPOLLOUT delivery (the trace follows Muxnote.tla with ListFix = FALSE up to the violation of invariant "
                        "NoWrongDirDelivery: %s); "
                        "driver oracles: %s" % (_context(r2, 4), " ;; ".join(res["fails"][:2]) or "none failed"))
                if KF_LIST in kf:
                    v.known.append("%s [%s]" % (kf[KF_LIST]["what"], "directed execution, driver seed %d" % res["seed"]))
                    note["known_finding_%s" % KF_LIST] = what[:1200]
                else:
                    p = save_replay(PROP, "mux_directed_rejected.ndjson", src=r2.trace_with_header)
                    v.violation("muxnote: " + what, p)
                note["library_variant"] = {"list_choice_repaired": False, "per_unote_arming": fix}
                return False, fix
        return None

    # (the variant the known-findings list expects is tried first: fewer TLC starts)
    for attempt in ((pinned, repaired) if KF_LIST in kf else (repaired, pinned)):
        got = attempt()
        if got is not None:
            return got
    if first is None:
        first = _validate(tr, _tcfg(True, False), "directed")
    p = save_replay(PROP, "mux_directed_rejected.ndjson", src=first.trace_with_header)
    v.violation("muxnote, directed execution 'READ source registered after an armed WRITE source': trace rejected: %s" % _why(first), p)
    # the general runs are made all the same (more evidence), under the variant the known-findings list expects
    return (KF_LIST not in kf), False


def _judge(res, variant, kf, two_readers):
    """Validation + classification of one driver run.  Returns dict(viol=[(text, src)], known=[...], ...)."""
    listfix, fix = variant
    out = {"res": res, "viol": [], "known": [], "tlc": None, "sib_execs": set()}
    tr, rc = res["trace"], res["rc"]
    tag = res["name"]
    if rc in (70, 71):
        out["viol"].append(("muxnote: %s (driver run %s, seed %d%s): %s" % ("crash inside libdispatch" if rc == 70 else
                            "hang: a handler / cancel handler never ran", tag, res["seed"], ", signal storm" if res["storm"] else "",
                            res["err"].strip()[-300:]), tr))
        return out
    # the variant seen in the directed execution first, the other one if the trace does not follow it
    order = [fix, not fix]
    r = None
    for f in order:
        full = f or not two_readers
        r1 = _validate(tr, _tcfg(True, f, invs=ALL_INVS if full else SIB_INVS), tag)
        if r is None or r1.accepted or (r1.maxl or 0) > (r.maxl or 0):
            r = r1              # (the variant that explains the longest prefix is the one reported)
        if r1.accepted:
            out["tlc"], out["fix"] = r1, f
            break
        if r1.violated and r1.violated != "StopWhenAccepted":
            r = r1
            break
    if not r.accepted:
        detail = _why(r)
        if res["fails"]:
            detail += "; driver oracles: " + " ;; ".join(res["fails"][:3])
        out["viol"].append(("muxnote: trace rejected (driver run %s, seed %d%s): %s" % (tag, res["seed"], ", signal storm" if res["storm"] else "", detail),
                            r.trace_with_header))
        return out
    out["sib_execs"] = set(int(x) for x in re.findall(r'<<"SIBDBL", (-?\d+)>>', r.out))
    if out["sib_execs"] and (out["fix"] or not two_readers):
        out["viol"].append(("muxnote: sibling double delivery reported where it cannot happen (%s)" % tag, r.trace_with_header))
    bad = []
    for f in res["fails"]:
        m = re.search(r"exec=(-?\d+) cfg=(\w+) .* unote=(\w+): (.*?) a=", f)
        if (m and two_readers and not out["fix"] and int(m.group(1)) in out["sib_execs"] and m.group(3) == "r1"
                and any(s in m.group(4) for s in SIB_ORACLES)):
            continue            # the consequence of the sibling double delivery in that very execution
        bad.append(f)
    if bad:
        out["viol"].append(("muxnote: API oracle failed (driver run %s, seed %d%s): %s" % (tag, res["seed"], ", signal storm" if res["storm"] else "",
                            " ;; ".join(bad[:3])), r.trace_with_header))
    if out["sib_execs"] and not out["viol"]:
        n_or = len(res["fails"]) - len(bad)
        if KF_SIB in kf:
            out["known"].append((KF_SIB, "driver run %s seed %d: %d executions with a sibling double delivery, %d r1 oracle failures that follow from it"
                                 % (tag, res["seed"], len(out["sib_execs"]), n_or)))
        else:
            out["viol"].append(("muxnote: with two READ sources on one descriptor r1 is handed a second event while its previous one is pending / "
                                "being handled, after its sibling re-armed or registered (per-direction disarm; Muxnote.tla Fix = FALSE, invariant "
                                "NoSiblingDoubleDelivery; driver run %s, seed %d, executions %s); driver oracles: %s"
                                % (tag, res["seed"], sorted(out["sib_execs"])[:5], " ;; ".join(res["fails"][:2]) or "none failed"), r.trace_with_header))
    return out


def traces(v, tier, seed):
    t0 = time.time()
    note = v.notes.setdefault("muxnote", {})
    drv = build_driver("drv_mux")
    note["phase_wall_s"] = {"build": round(time.time() - t0, 1)}
    kf = {x["key"]: x for x in known_findings(PROP)["findings"]}
    t1 = time.time()
    variant = _detect(drv, seed, kf, v, note)
    note["phase_wall_s"]["directed"] = round(time.time() - t1, 1)
    if variant is None:
        return
    listfix, fix = variant
    # while the list choice is as pinned the general runs never register a READ source on a descriptor that already has a
    # WRITE source (that one situation is the directed execution's); with the repair every order is used
    flags = F_CONTINUE | (0 if listfix else F_SAFEORDER)
    nrw, nrr, nexec = (6, 2, 8) if tier == "quick" else (30, 10, 12)
    jobs = []
    for i in range(nrw):
        jobs.append(("rw%d" % i, seed * 1000 + i, [2, 3, 1][i % 3], nexec, CFG_RW, flags & ~F_CONTINUE, i % 3 == 1, False))
    for i in range(nrr):
        jobs.append(("rr%d" % i, seed * 1000 + 500 + i, [2, 3, 1][i % 3], max(4, nexec - 2), CFG_RR | CFG_RRW, flags, i % 2 == 1, True))

    def one(job):
        name, s, perturb, n, cfgmask, fl, storm, two = job
        return _run(drv, name, s, perturb, n, cfgmask, fl, storm), two

    t1 = time.time()
    with ThreadPoolExecutor(max_workers=4) as ex:
        ran = list(ex.map(one, jobs))
        note["phase_wall_s"]["driver_runs"] = round(time.time() - t1, 1)
        t1 = time.time()
        # the clean READ+WRITE runs are validated with ONE TLC start (executions are Reset-delimited and independent);
        # only if that is rejected are they validated one by one.  Everything else is judged run by run.
        clean = [res for res, two in ran if not two and res["rc"] == 0]
        batch_r = None
        if len(clean) > 1:
            comb = os.path.join(_rd(), "rw_batch.ndjson")
            with open(comb, "w") as f:
                for res in clean:
                    f.write(open(res["trace"]).read())
            fb = ex.submit(_validate, comb, _tcfg(True, fix), "rwbatch")
        singles = [(res, two) for res, two in ran if two or res["rc"] != 0 or len(clean) <= 1]
        fs = [ex.submit(_judge, res, variant, kf, two) for res, two in singles]
        results = [(f.result(), two) for f, (res, two) in zip(fs, singles)]
        if len(clean) > 1:
            batch_r = fb.result()
            if batch_r.accepted:
                for k, res in enumerate(clean):
                    results.append(({"res": res, "viol": [], "known": [], "tlc": batch_r if k == 0 else None, "sib_execs": set()}, False))
            else:
                results += [(x, False) for x in ex.map(lambda res: _judge(res, variant, kf, False), clean)]
    note["phase_wall_s"]["validation"] = round(time.time() - t1, 1)
    stats = collections.Counter()
    known = collections.Counter()
    for out, two in results:
        res = out["res"]
        for text, src in out["viol"]:
            p = save_replay(PROP, "mux_%s_seed%d.ndjson" % (res["name"], res["seed"]), src=src) if os.path.exists(src) else src
            if res["fails"]:
                with open(p, "a") as f:
                    f.write(json.dumps({"e": "OracleFailText", "what": " ;; ".join(res["fails"][:6])[:900]}) + "\n")
            v.violation(text, p)
        for key, text in out["known"]:
            known[key] += 1
            note.setdefault("known_finding_%s" % key, []).append(text)
        if out["viol"]:
            continue
        r = out["tlc"]
        nx = sum(res["stats"].get(k, 0) for k in ("exec_RW", "exec_RR", "exec_RRW"))
        v.traces += nx
        stats["driver_runs"] += 1
        stats["runs_under_signal_storm"] += 1 if (res["storm"] or os.environ.get("VRT_SIGNAL_STORM_US", "") not in ("", "0")) else 0
        for k, val in res["stats"].items():
            if k not in ("records", "overflow", "threads"):
                stats[k] += val
        if r is not None:
            v.states += r.distinct
            v.transitions += r.generated
            stats["records_validated"] += (r.tracelen or 0)
        if len(v.samples) < 4 and (two or len(v.samples) < 2):
            lines = open(res["trace"]).read().splitlines()
            k0 = next((j for j, x in enumerate(lines) if '"e":"Wait"' in x), 0)
            v.samples.append({"trace": "mux/" + os.path.basename(res["trace"]), "records": len(lines),
                              "excerpt": [x[:190] for x in lines[max(0, k0 - 3):k0 + 9]]})
    if known[KF_SIB]:
        v.known.append("%s [%d driver runs with two READ sources]" % (kf[KF_SIB]["what"], known[KF_SIB]))
    note["driver_statistics"] = dict(stats)
    note["general_runs_order"] = "every activation order" if listfix else "readers before the writer (the other order is the directed execution: known finding)"


def muxnote_element(v, tier, seed):
    """Adds the muxnote models / mutants / traces / violations / known findings to an existing Verdict."""
    vm, vt = Verdict(PROP, tier, seed), Verdict(PROP, tier, seed)
    t0 = time.time()
    with ThreadPoolExecutor(max_workers=2) as ex:
        fm = ex.submit(model, vm, tier)
        ft = ex.submit(traces, vt, tier, seed)
        fm.result()
        ft.result()
    note = v.notes.setdefault("muxnote", {})
    for x in (vm, vt):
        v.states += x.states
        v.transitions += x.transitions
        v.traces += x.traces
        v.samples += x.samples
        v.violations += x.violations
        v.known += x.known
        v.drift += x.drift
        v.models += x.models
        for k, val in x.notes.get("muxnote", {}).items():
            if isinstance(val, dict) and isinstance(note.get(k), dict):
                note[k].update(val)
            else:
                note[k] = val
    note["wall_s"] = round(time.time() - t0, 1)
    v.assumptions += ["muxnote: the kernel is abstracted as an epoll entry {interest mask, enabled} with level-triggered readiness evaluated at "
                      "epoll_wait, EPOLLHUP unmaskable, EPOLLONESHOT disabling the entry until the next EPOLL_CTL_MOD",
                      "muxnote: TLC bounds: 2-3 unotes on one descriptor, <= 2-3 peer writes, 1-2 buffer fills, 1-2 suspensions, 1-2 cancels, "
                      "one re-creation, one hang-up; the source machine (dq_state, DSF flags) is reduced to latch / handler / re-arm pass",
                      "muxnote: the hang-up path's unregistration on the target queue is an atomic action (the C data race on the muxnote "
                      "lists is not visible at this level)"]


def _finish(v):
    """Verdict.finish for the stand-alone run: verdict lines under the property the element belongs to, evidence under
    the element's own name (evidence/C16.json belongs to the C16 check)."""
    cov = {"states": max(v.states, 0), "transitions": max(v.transitions, 0), "traces_validated_against_impl": v.traces,
           "samples": v.samples[:6] if v.samples else ["(none)"], "models": v.models, "exhaustive": False,
           "reports_under_property": PROP}
    cov.update(v.notes)
    write_evidence(ELEM, v.tier, v.seed, "model_checking", cov, time.time() - v.t0, len(v.violations), v.assumptions)
    for k in v.known:
        log("KNOWN-FINDING: property=%s %s" % (PROP, k))
    for d in v.drift:
        log("DRIFT property=%s %s" % (PROP, d))
    if v.violations:
        for text, rp in v.violations:
            log("VIOLATION property=%s replay=%s" % (PROP, rp))
            log("  detail: %s" % text)
        return 1
    log("OK property=%s element=%s tier=%s states=%d traces=%d wall=%.1fs" % (PROP, ELEM, v.tier, v.states, v.traces, time.time() - v.t0))
    return 0


def run(tier, seed):
    v = Verdict(PROP, tier, seed)
    muxnote_element(v, tier, seed)
    return _finish(v)


def replay(path, seed):
    path = os.path.abspath(path)
    if path.endswith(".out"):
        print(open(path).read()[-6000:])
        return 1
    body = open(path).read().splitlines()
    body = [x for x in body if '"OracleFailText"' not in x or print("driver oracles: " + x[:1000]) is not None]
    if body and '"Header"' in body[0]:
        body = body[1:]
    tmp = os.path.join(_rd(), "replay.ndjson")
    open(tmp, "w").write("\n".join(body) + "\n")
    two = any('"cfg":"RR' in x for x in body)
    ok = False
    for listfix, fix in ((True, False), (True, True)):
        r = _validate(tmp, _tcfg(listfix, fix), "replay")
        print("ListFix=%s Fix=%s: %s" % (listfix, fix, "accepted" if r.accepted else _why(r)))
        if r.accepted:
            ok = True
            break
    failed = any('"OracleFail"' in x or '"Crash"' in x or '"Hang"' in x for x in body)
    if failed:
        print("the recorded execution contains a failed driver oracle / crash / hang")
    return 0 if ok and not failed else 1
