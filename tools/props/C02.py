"""C02 - serial queues: one item at a time, in submission order (async, sync, barrier, async_and_wait)."""
from vlib import *
from props.lane_common import *
import os, re
PROP = "C02"

def run(tier, seed):
    v = Verdict(PROP, tier, seed)
    v.assumptions = ["TLC bounds: 2 clients x 2 workers, 3-4 items; the thread-bound main queue is modelled in MainQueue.tla and bound at API level only (drv_mainq)",
                     "real executions sample schedules"]
    run_models(v, PROP, ["Q1"] if tier == "quick" else ["Q1", "Q1w", "Q1p", "Q6b"])
    # the repaired defect F1 stays refutable: without the tail check the same spec violates Order
    run_mutants(v, PROP, [("Q1p", "F1"), ("Q1", "sync_does_not_wait")])
    # the thread-bound main queue (MainQueue.tla): snapshot drain, eventfd wakeup protocol
    r = tlc_must_pass("MainQueue/M1", "MCMainQueue.tla", "MainQueue_M1.cfg", timeout=1500, metaname="C02_mainq")
    v.add_model("MainQueue/M1", r)
    if r.violated:
        v.violation("MainQueue.tla violates %s" % r.violated, save_replay(PROP, "MainQueue_M1.tlc.out", r.out))
    mc = os.path.join(rundir(PROP), "MainQueue_mut.cfg")
    open(mc, "w").write(open(os.path.join(SPEC, "cfg", "MainQueue_M1.cfg")).read().replace('Mut = "none"', 'Mut = "first_push_no_wakeup"').replace("PROPERTY Live\n", ""))
    r = tlc_must_pass("MainQueue mutant", "MCMainQueue.tla", mc, timeout=600, metaname="C02_mainq_mut")
    if not r.violated:
        raise Broken("MainQueue.tla mutant first_push_no_wakeup not refuted")
    v.notes.setdefault("spec_mutants_refuted", []).append({"mutant": "first_push_no_wakeup", "config": "MainQueue/M1", "by": r.violated})
    dqstate_conformance(v, PROP)
    n = 2 if tier == "quick" else 10
    runs = []
    for k in range(n):
        runs += [dict(W=1, pp=1, execs=10, ops=40, perturb=2 + k % 2, nt=3 + k % 2), dict(W=1, pp=1, susp=1, execs=6, ops=30, perturb=3)]
    drive(v, PROP, seed, runs, tier)
    steer_f1(v, PROP)
    main_queue(v, PROP, seed, 2 if tier == "quick" else 10)
    return v.finish()

def main_queue(v, prop, seed, n):
    """The main queue, thread-bound then converted by dispatch_main() (harness/drv_mainq.c): API oracles only."""
    drv = build_driver("drv_mainq")
    for i in range(n):
        tr = os.path.join(rundir(prop), "mainq_%d.ndjson" % i)
        rc, out, err = sh([drv, tr, str(seed * 50 + i), str(1 + i % 3), "60"], timeout=300)
        fails = re.findall(r"ORACLE-FAIL (C\d+) (.*)", err)
        if rc in (70, 71):
            v.violation("main queue: %s: %s" % ("crash" if rc == 70 else "hang (an item or a synchronous caller was stranded)", err.strip()[-300:]),
                        save_replay(prop, "mainq_fail_%d.ndjson" % i, src=tr) if os.path.exists(tr) else tr)
        elif rc == 2 and any(f[0] in ((prop, "C01", "C05", "C03") if prop != "C18" else ("C18",)) for f in fails):
            v.violation("main queue API oracle: %s" % "; ".join("%s %s" % f for f in fails[:3]), save_replay(prop, "mainq_oracle_%d.ndjson" % i, src=tr))
        elif rc not in (0, 2):
            raise Broken("drv_mainq failed rc=%d: %s" % (rc, err[-500:]))
        else:
            v.traces += 1

def steer_f1(v, prop):
    """Steered schedule of finding F1 on the real library (harness/drv_f1.c)."""
    drv = build_driver("drv_f1")
    for mode, form in (("serial", "sync"), ("concurrent", "sync"), ("serial", "aaw"), ("concurrent", "aaw")):
        rc, out, err = sh([drv, mode, form], timeout=120)
        mode = mode + "/" + form
        v.notes.setdefault("steered_F1", []).append({"mode": mode, "rc": rc, "out": (out + err).strip()[-200:]})
        if rc == 2:
            p = save_replay(prop, "f1_%s.txt" % mode.replace("/", "_"), out + err)
            v.violation("steered schedule F1 (%s): a synchronous submission overtook the caller's earlier dispatch_async: %s" % (mode, out.strip()[-200:]), p)
        elif rc == 4:
            v.notes.setdefault("steering_inconclusive", []).append(mode)
        elif rc != 0:
            raise Broken("drv_f1 failed rc=%d: %s" % (rc, (out + err)[-500:]))
        else:
            v.traces += 1

def replay(path, seed):
    return replay_lane(PROP, path)
