"""C09 - dispatch_once runs its initialiser exactly once, before anyone returns.
(A) TLC: Once.tla, every interleaving of the gate's enter / wait / broadcast steps
    (one action per atomic access and per futex call of once.c, lock.h, lock.c and the
    inline fast path of dispatch/once.h) for 3-5 racing threads, safety invariants +
    liveness under fairness, + spec mutants that must be refuted (non-vacuity).
(B) trace validation: recorded executions of the real dispatch_once / dispatch_once_f
    (hooked os_atomics on dgo_once + futex probes + API events) vs OnceTrace.tla, with
    every invariant evaluated in every state of the accepted behaviour.
(V1) API oracles in the driver (initialiser count, return only after its end, payload
    intact); a hang (a waiter never released) or a crash inside the library is a violation."""
import os, json, re, threading
from concurrent.futures import ThreadPoolExecutor
from vlib import *

PROP = "C09"
TSPEC, TCFG = "OnceTrace.tla", "OnceTrace.cfg"
MUTANTS = ("bcast_nowake", "sleep_uncond", "tryenter_nonzero", "no_waiters_bit", "done_before_callout",
           "wait_noloop")


def _checked(name, *a, **kw):
    """tlc_must_pass + recognise this TLC's wording of a liveness counterexample
    ('Temporal properties A and B were violated', exit code 13)."""
    r = tlc_must_pass(name, *a, **kw)
    if r.violated is None:
        m = re.search(r"Error: Temporal propert(?:y|ies) (.*?) (?:was|were) violated", r.out)
        if m or r.rc == 13:
            r.violated = "temporal:" + (m.group(1).replace(" ", "") if m else "?")
        elif r.rc != 0:
            raise Broken("TLC failed on %s (rc=%s):\n%s" % (name, r.rc, r.out[-3000:]))
    return r


PROPERTY_INVARIANTS = "INVARIANTS TypeOK InitAtMostOnce NoReturnBeforeInitDone LateCallsImmediate NoCrash NoLostSleeper"


def _mutant(job):
    """Spec mutants are judged by the property-level invariants only (not by the auxiliary structural ones);
    mode 'live' drops the invariants too, so the lost wakeup must be found by the temporal properties alone."""
    mut, mode = job
    src = open(os.path.join(SPEC, "cfg", "Once_q.cfg")).read()
    if 'Mut = "none"' not in src or not re.search(r"^INVARIANTS .*$", src, flags=re.M):
        raise Broken("Once_q.cfg: unexpected shape")
    src = src.replace('Mut = "none"', 'Mut = "%s"' % mut)
    if mode == "live":
        src = re.sub(r"^INVARIANTS .*$", "INVARIANTS TypeOK", src, flags=re.M).replace("MaxCalls = 2", "MaxCalls = 1")
    else:
        src = re.sub(r"^INVARIANTS .*$", PROPERTY_INVARIANTS, src, flags=re.M)
    p = os.path.join(rundir(PROP), "mut_%s_%s.cfg" % (mut, mode))
    open(p, "w").write(src)
    return mut, mode, _checked("mutant " + mut, "Once.tla", p, timeout=600, workers=2,
                                    metaname="once_mut_%s_%s.%d" % (mut, mode, os.getpid()))


def model(v, tier):
    cfgs = [("Once_q.cfg", 600), ("Once_qs.cfg", 600)]
    if tier != "quick":
        cfgs += [("Once_t.cfg", 1500), ("Once_ts.cfg", 1500), ("Once_t5.cfg", 1500)]
    for cfg, to in cfgs:
        r = _checked(cfg, "Once.tla", cfg, timeout=to)
        v.add_model(cfg, r)
        if r.violated:
            p = save_replay(PROP, cfg + ".tlc.out", r.out)
            v.violation("spec %s violates %s" % (cfg, r.violated), p)
    # non-vacuity: every spec mutant must be refuted inside the quick bounds
    with ThreadPoolExecutor(max_workers=3) as ex:
        jobs = [(m, "safety") for m in MUTANTS] + [("bcast_nowake", "live"), ("sleep_uncond", "live")]
        for mut, mode, r in ex.map(_mutant, jobs):
            if not r.violated or r.violated == "TypeOK":
                raise Broken("spec mutant %s (%s) not refuted: the properties are vacuous in these bounds" % (mut, mode))
            v.notes.setdefault("spec_mutants_refuted", []).append(
                {"mutant": mut, "judged_by": "temporal properties only" if mode == "live" else
                 "property-level invariants", "by": r.violated})
            if mode == "live" and not r.violated.startswith("temporal"):
                raise Broken("liveness mutant %s refuted by %s, not by the temporal properties" % (mut, r.violated))


def coverage_of(path, cov):
    """Which of the interleavings the property names did the real executions hit (statistics only)."""
    init_ended = xchg_done = False
    pending = {}
    for rec in trace_lines(path):
        e, t = rec.get("e"), rec.get("t")
        if e == "Reset":
            init_ended = xchg_done = False
            pending = {}
            cov["executions"] = cov.get("executions", 0) + (1 if rec.get("k", 0) else 0)
            continue
        def hit(k):
            cov[k] = cov.get(k, 0) + 1
        if e == "InitEnd":
            init_ended = True
        elif e == "Xchg":
            xchg_done = True
            hit("broadcast_with_waiters" if rec["old"].get("w") else "broadcast_without_waiters")
        elif e == "CallOnce":
            pending[t] = rec["kind"]
            if init_ended and not xchg_done:
                hit("call_arrived_between_init_end_and_xchg")
            continue
        elif e == "Cas":
            if "wait" in rec.get("site", ""):
                hit("waiters_bit_cas_ok" if rec["ok"] else "waiters_bit_cas_lost_race")
            elif rec["ok"] == 0 and init_ended and not xchg_done:
                hit("tryenter_failed_between_init_end_and_xchg")
        elif e == "FutexWaitRet":
            hit("futex_wait_refused_value_changed" if rec["rc"] else "futex_sleeper_woken")
        elif e == "FutexWait" and xchg_done:
            hit("futex_wait_called_after_done_published")
        elif e == "RetOnce" and pending.get(t) == "inline":
            hit("inline_fast_path_return")
        elif e == "Giveup" and "wait" in rec.get("site", ""):
            pass
        if t in pending and e != "RetOnce":
            pending[t] = "slow"
        if e == "RetOnce":
            pending.pop(t, None)


_stop = threading.Event()    # once a run has shown a violation the queued ones are skipped


def _run_one(args):
    drv, d, i, s, perturb, execs = args
    if _stop.is_set():
        return None
    tr = os.path.join(d, "once_%d.ndjson" % i)
    if os.path.exists(tr):
        os.unlink(tr)
    rc, out, err = sh([drv, tr, str(s), str(perturb), str(execs)], timeout=300)
    res = {"i": i, "seed": s, "rc": rc, "err": err, "trace": tr, "perturb": perturb}
    if not os.path.exists(tr):
        _stop.set()
        return res
    nt = count_threads(tr)
    r = validate_trace(TSPEC, TCFG, tr, nthreads=nt, metaname="once_tr%d.%d" % (i, os.getpid()))
    if rc == 0 and not r.accepted:
        # a rejection is reported only if one automatic re-validation reproduces it
        r = validate_trace(TSPEC, TCFG, tr, nthreads=nt, metaname="once_tr%db.%d" % (i, os.getpid()))
    res["r"] = r
    if rc != 0 or not r.accepted:
        _stop.set()
    return res


def _context(r, before=4):
    lines = open(r.trace_with_header).read().splitlines()
    k = r.maxl or 1
    return k, lines[max(0, k - before):k]


def traces(v, tier, seed):
    drv = build_driver("drv_once")
    runs, execs = (12, 50) if tier == "quick" else (60, 80)
    d = rundir(PROP)
    jobs = [(drv, d, i, seed * 1000 + i, [2, 3, 1][i % 3], execs) for i in range(runs)]
    cov, drift = {}, set()
    _stop.clear()
    with ThreadPoolExecutor(max_workers=4) as ex:
        results = [x for x in ex.map(_run_one, jobs) if x is not None]
    v.notes["driver_runs_done"] = len(results)
    for res in results:
        rc, s, tr, err = res["rc"], res["seed"], res["trace"], res["err"]
        r = res.get("r")
        if r is not None:
            for line in r.printed:
                if "MO_DRIFT" in line:
                    drift.add(line)
        if rc in (2, 70, 71):
            what = {2: "API oracle failed", 70: "crash inside libdispatch",
                    71: "hang: a caller of dispatch_once was never released"}[rc]
            detail = ""
            p = tr
            if r is not None:
                p = save_replay(PROP, "fail_seed%d.ndjson" % s, src=r.trace_with_header)
                k, ctx = _context(r, 3)
                if not r.accepted:
                    detail = "; first record no spec action explains is #%d: %s" % (k, " | ".join(ctx))
            v.violation("%s (driver seed %d perturb %d): %s%s" % (what, s, res["perturb"],
                                                                  err.strip()[-300:], detail), p)
            continue
        if rc != 0 or r is None:
            raise Broken("driver failed rc=%d: %s" % (rc, err[-1000:]))
        if not r.accepted:
            k, ctx = _context(r)
            p = save_replay(PROP, "rejected_seed%d.ndjson" % s, src=r.trace_with_header)
            why = ("invariant %s violated in the matched prefix" % r.violated) if r.violated else \
                  "no spec action explains record %d" % k
            v.violation("trace rejected: %s; last records: %s" % (why, " | ".join(ctx)), p)
            continue
        v.traces += 1
        v.states += r.distinct
        v.transitions += r.generated
        coverage_of(tr, cov)
        if len(v.samples) < 2:
            v.samples.append({"trace": os.path.basename(tr), "records": r.tracelen,
                              "excerpt": open(tr).read().splitlines()[0:12]})
    v.notes["real_execution_coverage"] = cov
    v.notes["driver_runs"] = {"runs": runs, "executions_per_run": execs, "threads_racing": "3-5",
                              "perturbation_levels": [1, 2, 3]}
    # memory-order tokens: compared with the spec's transcription; a difference in the order alone is
    # DRIFT (x86-64 is TSO, DESIGN 5.6), never a violation
    v.notes["memory_order_drift"] = sorted(drift)
    for line in sorted(drift):
        v.drift.append("memory order differs from the spec's transcription (informational on TSO): " + line)


def run(tier, seed):
    v = Verdict(PROP, tier, seed)
    v.assumptions = ["the kernel futex compares and enqueues atomically, wakes all on FUTEX_WAKE(INT_MAX); spurious "
                     "and EINTR returns allowed",
                     "the initialiser terminates and does not call dispatch_once on the same predicate",
                     "TLA+ is sequentially consistent; the machine is TSO: memory-order tokens are compared "
                     "record by record but a mismatch in the order alone is reported as DRIFT",
                     "TLC bounds: see models",
                     "hooked build serialises traced atomics with their log record (global lock)"]
    v.notes["c11_informational"] = ("the give-up that leaves _dispatch_once_wait when it observes DONE is a relaxed fence "
                                    "(transcribed as MO.giveup = relaxed): no C11 happens-before edge on that path; "
                                    "harmless on TSO (DESIGN 5.6), not judged here")
    model(v, tier)
    traces(v, tier, seed)
    return v.finish()


def replay(path, seed):
    if path.endswith(".tlc.out"):
        print(open(path).read()[-4000:])
        return 1
    first = open(path).readline()
    if '"Header"' in first:
        r = tlc(TSPEC, TCFG, workers=1, env={"TRACE": path}, dfs=True, timeout=600)
    else:
        r = validate_trace(TSPEC, TCFG, path, nthreads=count_threads(path))
    print(r.out[-3000:])
    if not r.accepted:
        lines = open(path).read().splitlines()
        k = r.maxl or 1
        off = 0 if '"Header"' in first else 1
        print("first record no spec action explains (or invariant %s) at #%d:" % (r.violated, k))
        for x in lines[max(0, k - 6 - off):k - off]:
            print("   " + x)
    return 0 if r.accepted else 1
