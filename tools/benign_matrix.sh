#!/bin/bash
# Runs the checks named in benign/MAP.txt against each behaviour-preserving patch of benign/ (scratch worktrees,
# /repo untouched).  Any exit code other than 0 is a false alarm (1) or a broken check (3) of the machinery.
# usage: benign_matrix.sh [tier] [patch-prefix...]
ROOT=$(cd "$(dirname "$0")/.." && pwd); TIER=${1:-quick}; shift
while read -r patch props; do
  [ -z "$patch" ] && continue
  if [ $# -gt 0 ]; then ok=0; for p in "$@"; do case "$patch" in $p*) ok=1;; esac; done; [ $ok = 1 ] || continue; fi
  WT=$(mktemp -d /tmp/benign-run.XXXX); rmdir "$WT"
  git -C /repo worktree add -q "$WT" HEAD || exit 3
  ALT=$ROOT/build/alt-$(echo "$WT" | md5sum | cut -c1-8)
  if ! git -C "$WT" apply "$ROOT/benign/$patch"; then echo "$patch DOES-NOT-APPLY"; git -C /repo worktree remove --force "$WT"; continue; fi
  for prop in $props; do
    t0=$(date +%s); mkdir -p "$ROOT/build/benign-evidence"
    VERIF_REPO=$WT VERIF_EVIDENCE_DIR=$ROOT/build/benign-evidence "$ROOT/tools/check" "$prop" --tier "$TIER" > "$ROOT/build/benignrun_${patch%.diff}_$prop.log" 2>&1; rc=$?
    echo "$patch $prop exit=$rc $(( $(date +%s) - t0 ))s $(grep -cE '^DRIFT' "$ROOT/build/benignrun_${patch%.diff}_$prop.log") drift $(grep -E '^(VIOLATION|BROKEN)' "$ROOT/build/benignrun_${patch%.diff}_$prop.log" | head -1 | cut -c1-160)"
  done
  git -C /repo worktree remove --force "$WT" 2>/dev/null; rm -rf "$ALT" "$ROOT/build/benign-evidence"
done < "$ROOT/benign/MAP.txt"
