#!/bin/bash
# usage: confirm_seed.sh <seed-out-dir> <name>   e.g. /tmp/seed-C08-out C08-1
# Confirms a seeded change independently in a fresh scratch worktree (never in /repo):
#  1. the patch applies to /repo HEAD and the library builds, 2. the pinned ctest suite passes with it,
#  3. the demonstration fails with it and 4. passes without it.  Copies the artefacts to /verif/seeded/<name>/
# and writes the outcome into meta.json ("confirmed").  Scratch dirs are removed at the end.
set -u
OUT=$1; NAME=$2
ROOT=$(cd "$(dirname "$0")/.." && pwd)
WT=$(mktemp -d /tmp/confirm-$NAME.XXXX); rmdir "$WT"
git -C /repo worktree add -q "$WT" HEAD || exit 3
trap 'git -C /repo worktree remove --force "$WT" 2>/dev/null; rm -rf "$WT-b0" "$WT-b1"' EXIT
cfg() { cmake -G Ninja -S "$WT" -B "$1" -DCMAKE_C_COMPILER=clang-16 -DCMAKE_CXX_COMPILER=clang++-16 -DCMAKE_BUILD_TYPE=RelWithDebInfo -DCMAKE_C_FLAGS="-Wno-error $2" -DCMAKE_CXX_FLAGS="-Wno-error $2" -DENABLE_TESTING=ON >/dev/null 2>&1 && cmake --build "$1" >/dev/null 2>&1; }
EXTRA=${SEED_CFLAGS:-}
res_base=skip; res_mut=skip; res_ctest=skip
cfg "$WT-b0" "$EXTRA" || { echo "baseline build failed"; exit 3; }
( cd "$OUT" && timeout 900 bash ./run_demo.sh "$WT-b0" >"$WT-b0/demo.log" 2>&1 ); rc0=$?
git -C "$WT" apply "$OUT/patch.diff" || { echo "patch does not apply"; exit 3; }
cfg "$WT-b1" "$EXTRA" || { echo "mutant build failed"; exit 3; }
( cd "$OUT" && timeout 900 bash ./run_demo.sh "$WT-b1" >"$WT-b1/demo.log" 2>&1 ); rc1=$?
ctest --test-dir "$WT-b1" -j4 --timeout 900 >"$WT-b1/ctest.log" 2>&1; rcc=$?
if [ $rcc -ne 0 ]; then ctest --test-dir "$WT-b1" -j2 --timeout 900 --rerun-failed >"$WT-b1/ctest2.log" 2>&1; rcc=$?; fi
echo "demo baseline rc=$rc0 (want 0); demo mutant rc=$rc1 (want !=0); ctest mutant rc=$rcc (want 0)"
tail -3 "$WT-b1/demo.log"
D=$ROOT/seeded/$NAME; mkdir -p "$D"
cp "$OUT/patch.diff" "$OUT"/demo.* "$OUT/run_demo.sh" "$D/" 2>/dev/null
python3 - "$OUT/meta.json" "$D/meta.json" "$rc0" "$rc1" "$rcc" <<'PY'
import json,sys
try: m=json.load(open(sys.argv[1]))
except Exception as e: m={"meta_error":str(e)}
m["confirmed"]={"demo_passes_on_unchanged_tree":sys.argv[3]=="0","demo_fails_with_change":sys.argv[4]!="0","ctest_passes_with_change":sys.argv[5]=="0",
  "how":"tools/confirm_seed.sh in a fresh scratch worktree of /repo HEAD (built twice: without and with the patch; run_demo.sh on both; ctest -j4 on the patched build)"}
json.dump(m,open(sys.argv[2],"w"),indent=1)
PY
[ "$rc0" = 0 ] && [ "$rc1" != 0 ] && [ "$rcc" = 0 ]
