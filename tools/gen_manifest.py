#!/usr/bin/env python3
"""Writes /verif/MANIFEST.json from the table below (single source of truth)."""
import json, os, subprocess
ROOT = os.path.dirname(os.path.dirname(os.path.abspath(__file__)))
props = [json.loads(l) for l in open(os.path.join(ROOT, "properties.jsonl"))]
ids = [p["id"] for p in props]

CHECKS = {
 "C08": dict(
   technique="TLA+ spec (Semaphore.tla) model-checked with TLC + trace validation of hooked real executions against the same actions + API oracles",
   text="TLC explores every interleaving of 3 threads x 2 calls (signal, poll, timed, untimed wait) of a one-action-per-atomic transcription of semaphore.c and checks permit conservation, no spurious success, timeout-only-after-timeout, a structural deficit invariant and release of waiters under fairness; every recorded execution of the real library (hooked atomics + sem_t probes, schedule perturbation) must be a behaviour of that spec with all invariants evaluated in every state.",
   note="Assumes sem_t is a correct counting semaphore; bounds 3 threads x 2 calls (thorough: + 2 threads x 3 calls, more executions); real executions are samples of schedules, not all of them.",
   design_ref="7/C08"),
}
hooks_commits = subprocess.run(["git", "-C", "/repo", "log", "--format=%H %s"], capture_output=True, text=True).stdout.splitlines()
hook_shas = [l.split()[0] for l in hooks_commits if "verif hook" in l]

NA_REASON = "check not built yet in this round (planned in DESIGN.md section 14); not claimed"
m = {
 "version": 1,
 "setup_cmd": "tools/setup.sh",
 "hooks": {
   "guard": "DISPATCH_VERIF",
   "enable": "tools/build_repo.sh configures an out-of-tree static build of /repo with -DDISPATCH_VERIF=1 under /verif/build and rebuilds it incrementally (ninja) before every check",
   "baseline_off_cmd": "tools/baseline_off.sh",
   "source_commits": hook_shas,
   "add_only": True,
 },
 "engines": [
   {"name": "tlc", "path": "/opt/veriftools/tla/tla2tools.jar", "serves_properties": sorted(CHECKS), "kind_free_text": "explicit-state model checker for the TLA+ specs under spec/ (design check, trace validation, behaviour generation)"},
   {"name": "verif_rt", "path": "harness/verif_rt.c", "serves_properties": sorted(CHECKS), "kind_free_text": "runtime that records hooked atomics of the real library, perturbs schedules and dumps ndjson traces"},
 ],
 "checks": [],
 "not_applicable": [],
 "notes": "Single entry point tools/check <id> [--tier quick|thorough]. See DESIGN.md.",
}
for i in ids:
    if i in CHECKS:
        c = CHECKS[i]
        m["checks"].append({
          "property_id": i,
          "quick_cmd": "tools/check %s --tier quick" % i,
          "thorough_cmd": "tools/check %s --tier thorough" % i,
          "evidence_file": "evidence/%s.json" % i,
          "replay_cmd_template": "tools/check %s --replay {path}" % i,
          "engine": "tlc",
          "level_claimed": {"category": c.get("category", "model_checking"), "text": c["text"], "design_ref": c["design_ref"]},
          "level_note": c["note"],
          "technique": c["technique"],
        })
    else:
        m["not_applicable"].append({"property_id": i, "reason": NA_REASON})
json.dump(m, open(os.path.join(ROOT, "MANIFEST.json"), "w"), indent=1)
print("MANIFEST.json: %d checks, %d not_applicable" % (len(m["checks"]), len(m["not_applicable"])))
