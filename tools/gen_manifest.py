#!/usr/bin/env python3
"""Writes /verif/MANIFEST.json from the table below (single source of truth)."""
import json, os, subprocess
ROOT = os.path.dirname(os.path.dirname(os.path.abspath(__file__)))
props = [json.loads(l) for l in open(os.path.join(ROOT, "properties.jsonl"))]
ids = [p["id"] for p in props]

LANE_TECH = 'TLA+ (DQState.tla + Lane.tla, one action per atomic access) model-checked with TLC; bound to the code by (1) exhaustive function-level conformance of the real inline dq_state functions against the DQState operators, (2) word-level trace validation of every recorded dq_state access of hooked real executions, (3) the property evaluated on the recorded API order'
LANE_NOTE = "Bounds: TLC explores 2 clients x 2 pool workers with 3-4 items per configuration (thorough: 4-item programs, ~1e6 states each); the root queue is a fair bag; real executions are seeded samples of schedules (perturbation injected inside the library's atomicity windows), not all of them; function-level conformance is exhaustive over the abstract dq_state domain for widths 1-3."
CHECKS = {
 "C13": dict(technique="TLA+ spec (Data.tla) transcribing src/data.c function by function + reference meaning Bytes(o), model-checked with TLC (invariants + refuted spec mutants); TLC emits every explored behaviour (and -simulate deep trees) with the expected projection after each step; harness/drv_data.c replays them on the real dispatch_data API comparing after every step (result identity, sizes, internal record lists, bytes via apply/map, applier callbacks, copy_region at every location, reference counts, destructor counts); thorough: same replay on the ASan+UBSan+LSan build",
   text="TLC checks, in every state of the client state machine, the concat / clamped-slice / size / map / apply-tiling / copy_region laws on the denoted byte strings, record-in-range bookkeeping, the reference ledger and exactly-once-after-last-release destructors. Quick covers every tree of up to 3 operations over 2 leaves with all offsets/lengths 0..size+1 and SIZE_MAX, all release orders for up to 2 operations, a 2-symbol alphabet and all destructor kinds; thorough adds up to 4 operations, 3 leaves, leaf length 3, flatten SPI interleavings and 20,000 simulated deep trees. Every explored behaviour is replayed on the real library (quick about 2e5 behaviours).",
   note="Bounds as listed in spec/cfg/Data_*.cfg. 'Never reads outside' is decided only as record/offset/refcount bookkeeping (model + identical record lists and pointers in the real objects); actual addresses are observed by the ASan/UBSan/LSan replay in the thorough tier, not decided. Single client thread.",
   design_ref="7/C13, 8"),
 "C20": dict(technique="TLC model checking of a TLA+ transcription of src/transform.c against reference codecs (RFC 4648, well-formed UTF-8/UTF-16), with spec-generated vectors replayed on the real code and the spec's laws evaluated as oracles on seeded random inputs",
   text="Transform.tla has three layers: the reference meaning, an implementation-shaped transcription of the per-region C loops with their carried state and read-ahead (every read index range-checked by a ghost flag), and the pinned tree's seven defects as named switchable deviations (all repaired by fix: commits; TLC shows each violating and none with the repairs). TLC checks encoder = RFC 4648, Dec(split(Enc(x))) = x, UTF round trip modulo leading BOMs, fragmentation independence, 'NULL or the inverse accepts' and no out-of-range read over strings up to 5-6 bytes and every split into <= 3 regions; every explored case is replayed on the real dispatch_data_create_with_transform with exactly that fragmentation (about 4.7e5 vectors in quick); the laws are also evaluated on seeded random inputs up to 3 KB.",
   note="Exhaustive over branch-covering token alphabets within the stated bounds; longer inputs only by the sampled law oracle. Memory safety is decided as index discipline in the spec and observed with ASan/UBSan on the code in the thorough tier. Host assumed little-endian.",
   design_ref="7/C20, 8, 9"),

 "C07": dict(technique="TLA+ spec (Group.tla) model-checked with TLC + trace validation of hooked real executions (random histories plus a steered reproduction of finding F2) against the same actions + API oracles",
   text="TLC explores every interleaving of 3 threads running bounded client programs (enter, leave, group_async, notify; NOW, timed and untimed waits; >= 2 generations; up to 2 notifiers) of a one-action-per-atomic transcription of dispatch_group (32-bit enter, 64-bit leave with carry into the generation, the CAS loop on the local old state, the notify MPSC list and its snapshot in _dispatch_group_wake, futex compare-and-sleep with spurious wakes and timeouts) and checks in every state: wait returns 0 only if the count was zero during the call, non-zero only after the timeout step, each notification submitted exactly once, not early except in the class of known finding F2, nothing left behind at a quiescent zero, reusability; liveness under fairness on the small programs; 5 spec mutants refuted. The property as stated (NotifyNotEarly) yields exactly the F2 counterexample class, which is also steered on the real library and reported as KNOWN-FINDING. Every recorded execution of the real library (dg_* atomics, notify-list links, futex probes, API events in one total order) must be a behaviour of the spec with all invariants evaluated in every state.",
   note="Bounds as listed, at most 1 spurious wake; liveness on the larger programs reduced to the safety invariants NothingLeft/StuckFree; real time not modelled (driver checks elapsed >= timeout); futex semantics assumed; real executions are samples of schedules; F2 is a known finding (not small/safe to repair). An observation not judged: a notifier registered behind a first pusher that has not yet published HAS_NOTIFS can miss one zero transition and is delivered at the next.",
   design_ref="7/C07, 9/F2"),

 "C12": dict(technique="TLA+ spec (Time.tla, TimeMC.tla, TimeEmit.tla) parametric in word width: TLC exhaustive at W=8, Apalache/Z3 on the same invariants at W=64; bound to the code by replaying TLC-emitted vectors (landmark-lifted to 64 bits) and Apalache witnesses on the real functions with clock_gettime interposed, plus the spec's reference evaluated as oracle on seeded random 64-bit inputs (the C oracle is compared row by row with TLC's exhaustive W=8 table on every run)",
   text="Time.tla transcribes dispatch_time, dispatch_walltime, _dispatch_timeout and the encode/decode helpers with explicit two's-complement wrap and, separately, the reference meaning the property states (same clock; exact shift, or FOREVER beyond the future, or an elapsed time on the same clock before the past; monotone; FOREVER absorbing; past implies zero timeout). TLC at W=8 enumerates every (base, delta) pair x 4 now values and every tv_sec x delta x several tv_nsec: the repaired algorithm meets the reference; the pinned tree's five defect classes (repaired by three fix: commits) are kept as switchable deviations shown violating; spec mutants are refuted. Apalache discharges the same invariants at W=64. 11340 lifted rows plus witnesses are replayed on the real code and >= 2.2e6 seeded random calls are judged by the reference.",
   note="Exhaustive at W=8; full domain at W=64 for the spec's transcription only (SMT); the real code is sampled apart from the lifted rows and witnesses. Assumes each clock reads a value in [1, 2^62-1]; x86-64 Linux where nano<->mach is the identity; signed overflow observed as wrap. An Apalache run that times out is recorded as stalled and never produces a verdict.",
   design_ref="7/C12"),

 "C18": dict(technique="TLA+ specs Attr.tla / AttrGlobal.tla / Frames.tla (implementation-shaped transcriptions compared by TLC with separately stated reference meanings) model-checked with TLC; bound to the code by spec-generated test vectors replayed on the real functions: the complete constructor transition relation and creation reports for every attribute-table entry, every identifier/flag of dispatch_get_global_queue, and one case per hierarchy shape x key placement x submission path with dispatch_get_specific compared and dispatch_assert_queue(_not) judged in children forked inside the running item",
   text="TLC checks the attribute index<->fields bijection, last-writer-wins / order independence over the whole constructor lattice and faithful reporting of label, clamped QoS class, relative priority, width and inactivity for every attribute; the documented identifier->class->queue mapping over -32768..64 plus wide identifiers x 8 flag values; nearest-value lookup and exact assert acceptance on all submission paths for depth <= 3 hierarchies with nested submission; 6 (quick) / 10 (thorough) spec mutants refuted; the pinned tree's two global-queue defects (repaired by fix: commits) are kept as switchable deviations that TLC shows violating.",
   note="The real side is exhaustive for the attribute table (4032 entries in this build, radices read from the build) and for the global-queue domain, and seeded-sampled for Frames in the quick tier. Fast/slow path steering is best effort; expectations do not depend on the path (a TLC invariant). Main queue, workloops, pthread root queues and dispatch_assert_queue_barrier are not covered. A hang is reported as BROKEN, not VIOLATION, because C18 states no progress property.",
   design_ref="7/C18"),

 "C09": dict(technique="TLA+ spec (Once.tla) model-checked with TLC (safety + liveness under fairness) + trace validation of hooked real executions of dispatch_once/dispatch_once_f against the same actions + API oracles",
   text="TLC explores every interleaving of the gate's enter/wait/broadcast steps (one action per atomic on dgo_once and per futex call, inline fast path included) for 3-5 racing threads and checks: initialiser at most once and exactly once before any return, DONE only after completion, late calls immediate, no lost sleeper, every call returns and every sleeper is released under fairness; 6 spec mutants must be refuted; every recorded execution of the real library (hooked atomics + futex probes + API events, 3-5 threads, perturbation and bounded steering) must be a behaviour of that spec with all invariants evaluated in every state.",
   note="Bounds are 3 threads x 2 calls for liveness (4 x 1 thorough) and 4 x 1 for safety (4 x 2 and 5 x 1 thorough). Futex semantics are assumed (atomic compare+enqueue, wake-all, spurious returns). Real executions are samples of schedules. TLA+ is SC and the machine is TSO: memory orders are compared as tokens only. A trace rejection is reported as a violation, so a wholesale but benign rewrite of the gate would need the spec updated.",
   design_ref="7/C09"),

 "C01": dict(technique=LANE_TECH,
   text="Lane.tla transcribes push / wakeup / drain / unlock / waiter hand-off of a serial or concurrent lane; TLC checks exactly-once, nothing stranded at quiescence, async submission never blocks (ENABLED), sync calls return, and termination under fairness over all interleavings of the configured programs, and refutes the 'unlock ignores DIRTY' mutant. The real dq_state functions are compared with the spec operators on every abstract state; recorded executions (ping-pong resubmission, sync/async mixes, narrowed concurrent queues) must have every dq_state transition explained by the operator of its C function, and every item must run exactly once with no hang.",
   note=LANE_NOTE + " Pool growth when all workers are blocked is not modelled yet (observed only through the hang oracle).", design_ref="7/C01"),
 "C02": dict(technique=LANE_TECH,
   text="Same machine with W = 1: TLC checks that no two items of a serial lane overlap and that submission order (return-before-call, and same-thread program order) is execution order for async, sync, barrier and async_and_wait paths; the model of the repaired defect F1 (fast path without the dq_items_tail check) is kept as a mutant that TLC must refute, and the F1 schedule is steered on the real library on every run. Real executions: overlap / order / plain-counter oracles on the recorded total order plus word-level validation.",
   note=LANE_NOTE + " The thread-bound main queue is modelled (MainQueue.tla: snapshot drain, eventfd wakeup) and bound at API level only (drv_mainq: runloop emulation, then dispatch_main conversion).", design_ref="7/C02"),
 "C04": dict(technique=LANE_TECH,
   text="Lane.tla with W = 2: width accounting exactly as the code (pending barrier reservation, full-width upgrade, last-reader-takes-lock, drain_non_barriers); TLC checks barrier exclusion, ordering against items whose submission completed before / started after the barrier, width conservation, and refutes 'reader ignores PENDING_BARRIER'. Real queues are narrowed to width 2/3 so the same arithmetic is exercised; every recorded dq_state transition is validated and exclusion/order are evaluated on the recorded order; F1 through dispatch_barrier_sync is steered on the real library.",
   note=LANE_NOTE + " dispatch_apply on the queue is decided under C10.", design_ref="7/C04"),
 "C05": dict(technique=LANE_TECH,
   text="SyncAfterEnd (a synchronous submission returns only after its item finished) is an invariant of Lane.tla on every path (fast path, slow path with lock transfer, waiter woken by the drainer); TLC refutes 'sync does not wait'. On real executions the driver checks, for every item, that the submitter's plain writes are visible in the item, the item's plain writes are visible after the synchronous call returns, and exclusive items chain a plain counter without loss; visibility is judged on this machine's TSO model as the property states. Group, semaphore and once hand-off edges are decided by C07 / C08 / C09.",
   note=LANE_NOTE + " Memory-order annotations are not weakened/explored (TLA+ is sequentially consistent): only missing communication steps are decided.", design_ref="7/C05, 5.6"),
 "C06": dict(technique=LANE_TECH,
   text="Lane.tla + DQState suspend/resume/activate operators (inline count with overflow into the side count under the side lock, the five outcomes of the resume RMW, the activation step): TLC checks that nothing starts while suspended from the lane's own context or before activation, at most one committed item after a foreign suspend on a serial lane, counter balance (N suspends need N resumes), no crash, and that everything (blocked sync callers included) runs after the last resume / activation; refutes 'drain ignores suspension'. Real executions nest suspensions up to depth 120 (crossing the 63/32 boundary) from several threads, suspend from inside items, create queues initially inactive; windows are judged on the recorded order and every dq_state transition is validated.",
   note=LANE_NOTE + " Model uses capacity 3 / transfer unit 2 for the inline counter; the real constants are exercised by the word-level traces.", design_ref="7/C06"),
 "C08": dict(
   technique="TLA+ spec (Semaphore.tla) model-checked with TLC + trace validation of hooked real executions against the same actions + API oracles",
   text="TLC explores every interleaving of 3 threads x 2 calls (signal, poll, timed, untimed wait) of a one-action-per-atomic transcription of semaphore.c and checks permit conservation, no spurious success, timeout-only-after-timeout, a structural deficit invariant and release of waiters under fairness; every recorded execution of the real library (hooked atomics + sem_t probes, schedule perturbation) must be a behaviour of that spec with all invariants evaluated in every state.",
   note="Assumes sem_t is a correct counting semaphore; bounds 3 threads x 2 calls (thorough: + 2 threads x 3 calls, more executions); real executions are samples of schedules, not all of them.",
   design_ref="7/C08"),
}
hooks_commits = subprocess.run(["git", "-C", "/repo", "log", "--format=%H %s"], capture_output=True, text=True).stdout.splitlines()
hook_shas = [l.split()[0] for l in hooks_commits if "verif hook" in l]

NA_REASON = "check not built yet in this round (planned in DESIGN.md section 14); not claimed"
m = {
 "version": 1,
 "setup_cmd": "tools/setup.sh",
 "hooks": {
   "guard": "DISPATCH_VERIF",
   "enable": "tools/build_repo.sh configures an out-of-tree static build of /repo with -DDISPATCH_VERIF=1 under /verif/build and rebuilds it incrementally (ninja) before every check",
   "baseline_off_cmd": "tools/baseline_off.sh",
   "source_commits": hook_shas,
   "add_only": True,
 },
 "engines": [
   {"name": "tlc", "path": "/opt/veriftools/tla/tla2tools.jar", "serves_properties": sorted(CHECKS), "kind_free_text": "explicit-state model checker for the TLA+ specs under spec/ (design check, trace validation, behaviour generation)"},
   {"name": "verif_rt", "path": "harness/verif_rt.c", "serves_properties": sorted(CHECKS), "kind_free_text": "runtime that records hooked atomics of the real library, perturbs schedules and dumps ndjson traces"},
 ],
 "checks": [],
 "not_applicable": [],
 "notes": "Single entry point tools/check <id> [--tier quick|thorough]. See DESIGN.md.",
}
for i in ids:
    if i in CHECKS:
        c = CHECKS[i]
        m["checks"].append({
          "property_id": i,
          "quick_cmd": "tools/check %s --tier quick" % i,
          "thorough_cmd": "tools/check %s --tier thorough" % i,
          "evidence_file": "evidence/%s.json" % i,
          "replay_cmd_template": "tools/check %s --replay {path}" % i,
          "engine": "tlc",
          "level_claimed": {"category": c.get("category", "model_checking"), "text": c["text"], "design_ref": c["design_ref"]},
          "level_note": c["note"],
          "technique": c["technique"],
        })
    else:
        m["not_applicable"].append({"property_id": i, "reason": NA_REASON})
json.dump(m, open(os.path.join(ROOT, "MANIFEST.json"), "w"), indent=1)
print("MANIFEST.json: %d checks, %d not_applicable" % (len(m["checks"]), len(m["not_applicable"])))
