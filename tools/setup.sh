#!/bin/bash
# Offline setup: parse every spec, build the hooked library and the runtime once.
set -e
cd "$(dirname "$0")/.."
mkdir -p build/tlc evidence
for f in spec/*.tla; do
  ( cd spec && tla-sany "$(basename "$f")" >/dev/null 2>&1 ) || { echo "SANY failed on $f"; (cd spec && tla-sany "$(basename "$f")" | tail -20); exit 1; }
done
tools/build_repo.sh plain >/dev/null
echo "setup ok"
