#!/bin/bash
# Offline setup: build the hooked library once and parse every spec (parse problems are
# reported; a check whose spec does not parse fails as BROKEN-CHECK when it runs).
set -e
cd "$(dirname "$0")/.."
mkdir -p build/tlc evidence
tools/build_repo.sh plain >/dev/null
bad=0
for f in spec/*.tla; do
  ( cd spec && timeout 120 tla-sany "$(basename "$f")" >/dev/null 2>&1 ) || { echo "WARNING: SANY failed on $f"; bad=$((bad+1)); }
done
echo "setup ok ($bad specs with parse problems)"
