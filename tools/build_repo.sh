#!/bin/bash
# Build the hooked static libdispatch from /repo's CURRENT working tree.
# usage: build_repo.sh [plain|asan]   -> prints the build directory
# One build dir per flavour under /verif/build; ninja makes the rebuild incremental,
# so every check can call this unconditionally (no-op ~0.2 s, full ~25 s).
set -e
FLAV=${1:-plain}
REPO=${VERIF_REPO:-/repo}
ROOT=$(cd "$(dirname "$0")/.." && pwd)
# a scratch worktree (VERIF_REPO=/tmp/...) gets its own build directory
if [ "$REPO" = /repo ]; then BD=$ROOT/build/lib-$FLAV; else BD=$ROOT/build/alt-$(echo "$REPO" | md5sum | cut -c1-8)/lib-$FLAV; fi
mkdir -p "$(dirname "$BD")"
exec 9>"$BD.lock"
flock 9
CF="-DDISPATCH_VERIF=1 -Wno-error -Wno-unused-variable -Wno-static-in-inline"
CC=clang-16; CXX=clang++-16
# clang-16 ships without compiler-rt on this image: the sanitizer flavour uses clang-15 (same front end family)
if [ "$FLAV" = asan ]; then CC=clang-15; CXX=clang++-15; CF="$CF -fsanitize=address,undefined -fno-omit-frame-pointer -fno-sanitize=alignment,function"; fi
if [ ! -f "$BD/build.ninja" ]; then
  rm -rf "$BD"
  cmake -G Ninja -S "$REPO" -B "$BD" -DCMAKE_C_COMPILER=$CC -DCMAKE_CXX_COMPILER=$CXX \
    -DCMAKE_BUILD_TYPE=RelWithDebInfo -DBUILD_TESTING=OFF -DBUILD_SHARED_LIBS=OFF \
    -DCMAKE_C_FLAGS="$CF" -DCMAKE_CXX_FLAGS="$CF" >"$BD.cmake.log" 2>&1 || { cat "$BD.cmake.log" >&2; exit 3; }
fi
if ! ninja -C "$BD" dispatch BlocksRuntime >"$BD.ninja.log" 2>&1; then
  tail -40 "$BD.ninja.log" >&2; exit 3
fi
echo "$BD"
