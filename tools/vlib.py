#!/usr/bin/env python3
"""Shared machinery for the /verif checks: building, running TLC, validating traces,
writing evidence, known findings.  Everything runs offline; nothing is kept under /tmp."""
import json, os, re, subprocess, sys, time, shutil, hashlib, threading

ROOT = os.path.dirname(os.path.dirname(os.path.abspath(__file__)))
REPO = os.environ.get("VERIF_REPO", "/repo")
SPEC = os.path.join(ROOT, "spec")
BUILD = os.path.join(ROOT, "build")
EVID = os.environ.get("VERIF_EVIDENCE_DIR", os.path.join(ROOT, "evidence"))
NCPU = os.cpu_count() or 4


class Broken(Exception):
    """The check itself could not run (build failure, TLC parse error...)."""


def log(*a):
    print(*a, flush=True)


# Environment perturbation: every second execution (per driver, per check process) of these drivers runs under the
# runtime's signal storm (SIGUSR2 without SA_RESTART to random threads every 400 us: blocking calls of the library return
# EINTR at arbitrary moments).  VERIF_STORM=0 disables it, VRT_SIGNAL_STORM_US in the environment overrides it.
STORM_DRIVERS = {"drv_lane", "drv_root", "drv_mainq", "drv_chain", "drv_apply", "drv_source", "drv_cancel", "drv_block",
                 "drv_refs", "drv_timer", "drv_group", "drv_semaphore", "drv_once"}
_storm_count = {}
_storm_lock = threading.Lock()


def sh(cmd, timeout=None, env=None, cwd=None, check=False):
    e = dict(os.environ)
    if env:
        e.update(env)
    if not isinstance(cmd, str) and cmd and "VRT_SIGNAL_STORM_US" not in e and os.environ.get("VERIF_STORM", "1") != "0":
        name = os.path.basename(str(cmd[0]))
        if name in STORM_DRIVERS:
            with _storm_lock:
                k = _storm_count[name] = _storm_count.get(name, 0) + 1
            if k % 2 == 0:
                # the small primitives block for short moments only: a denser storm is needed to hit them
                e["VRT_SIGNAL_STORM_US"] = "150" if name in ("drv_group", "drv_semaphore", "drv_once") else "400"
    try:
        p = subprocess.run(cmd, shell=isinstance(cmd, str), capture_output=True, text=True,
                           timeout=timeout, env=e, cwd=cwd, errors="replace")
    except subprocess.TimeoutExpired as ex:
        out = (ex.stdout or b"")
        if isinstance(out, bytes):
            out = out.decode(errors="replace")
        return 124, out, "timeout"
    if check and p.returncode != 0:
        raise Broken("command failed (%d): %s\n%s\n%s" % (p.returncode, cmd, p.stdout[-2000:], p.stderr[-2000:]))
    return p.returncode, p.stdout, p.stderr


_ALT = "" if REPO == "/repo" else "-alt-" + hashlib.md5(REPO.encode()).hexdigest()[:8]


def rundir(prop):
    # a run against a scratch worktree (VERIF_REPO) gets its own directories so that it can run next to a
    # check of the real tree
    d = os.path.join(BUILD, "run" + _ALT, prop)
    os.makedirs(d, exist_ok=True)
    return d


def replay_dir(prop):
    d = os.path.join(BUILD, "replay" + _ALT, prop)
    os.makedirs(d, exist_ok=True)
    return d


def build_driver(name, flavour="plain", extra_cflags="", extra_libs=""):
    env = {"EXTRA_CFLAGS": extra_cflags, "EXTRA_LIBS": extra_libs}
    rc, out, err = sh([os.path.join(ROOT, "tools", "build_harness.sh"), name, flavour], timeout=900, env=env)
    if rc != 0:
        raise Broken("cannot build %s (%s): %s %s" % (name, flavour, out[-3000:], err[-3000:]))
    return out.strip().splitlines()[-1]


def build_lib(flavour="plain"):
    rc, out, err = sh([os.path.join(ROOT, "tools", "build_repo.sh"), flavour], timeout=900)
    if rc != 0:
        raise Broken("cannot build libdispatch (%s): %s %s" % (flavour, out[-3000:], err[-3000:]))
    return out.strip().splitlines()[-1]


class TlcResult:
    def __init__(self):
        self.rc = None
        self.generated = 0
        self.distinct = 0
        self.depth = 0
        self.violated = None      # name of violated invariant/property, or "deadlock"
        self.accepted = False     # trace validation
        self.maxl = None
        self.tracelen = None
        self.out = ""
        self.wall = 0.0
        self.timeout = False
        self.coverage = {}
        self.printed = []         # PrintT outputs (tuples as text)

    def ok(self):
        return self.rc == 0 and self.violated is None


def _tlc_slot():
    """At most VERIF_TLC_SLOTS (default 6) TLC JVMs at a time across all checks running on this machine
    (several checks / builders may run concurrently; 62 GB of RAM do not hold 15 model checkers)."""
    import fcntl
    n = int(os.environ.get("VERIF_TLC_SLOTS", "6"))
    if n <= 0:
        return None
    d = os.path.join(BUILD, ".tlcslots")
    os.makedirs(d, exist_ok=True)
    while True:
        for i in range(n):
            f = open(os.path.join(d, "slot%d" % i), "w")
            try:
                fcntl.flock(f, fcntl.LOCK_EX | fcntl.LOCK_NB)
                return f
            except OSError:
                f.close()
        time.sleep(0.5)


def tlc(spec, cfg, workers=None, timeout=600, env=None, simulate=None, depth=None, metaname=None,
        dfs=False, coverage=False, heap=None, extra=None, seed=None):
    """Run TLC on spec (path relative to SPEC dir) with cfg. Returns TlcResult."""
    r = TlcResult()
    specpath = spec if os.path.isabs(spec) else os.path.join(SPEC, spec)
    cfgpath = cfg if os.path.isabs(cfg) else os.path.join(SPEC, "cfg", cfg)
    meta = os.path.join(BUILD, "tlc", (metaname or os.path.basename(cfgpath)) + "." + str(os.getpid()))
    shutil.rmtree(meta, ignore_errors=True)
    os.makedirs(meta, exist_ok=True)
    jopts = []
    if dfs:
        jopts.append("-Dtlc2.tool.queue.IStateQueue=StateDeque")
    jopts.append("-Xmx%s" % (heap or os.environ.get("VERIF_TLC_HEAP", "6g")))
    e = dict(env or {})
    if jopts:
        e["JAVA_TOOL_OPTIONS"] = " ".join(jopts)
    cmd = ["tlc", "-workers", str(workers or int(os.environ.get("VERIF_TLC_WORKERS", min(NCPU, 8)))), "-metadir", meta, "-config", cfgpath, "-noGenerateSpecTE"]
    if simulate:
        cmd += ["-simulate", "num=%d" % simulate]
        if depth:
            cmd += ["-depth", str(depth)]
    if seed is not None:
        cmd += ["-seed", str(seed)]
    if coverage:
        cmd += ["-coverage", "1"]
    if extra:
        cmd += extra
    cmd.append(specpath)
    slot = _tlc_slot()
    try:
        t0 = time.time()
        rc, out, err = sh(cmd, timeout=timeout, env=e, cwd=os.path.dirname(specpath))
        r.wall = time.time() - t0
    finally:
        if slot:
            slot.close()
    r.rc = rc
    r.out = out + ("\n" + err if err and err != "timeout" else "")
    r.timeout = (rc == 124)
    shutil.rmtree(meta, ignore_errors=True)
    m = None
    for m in re.finditer(r"(\d[\d,]*) states generated, (\d[\d,]*) distinct states found", out):
        pass
    if m:
        r.generated = int(m.group(1).replace(",", ""))
        r.distinct = int(m.group(2).replace(",", ""))
    if not m:
        ms = re.search(r"The number of states generated: (\d+)", out)      # -simulate
        if ms:
            r.generated = int(ms.group(1))
    m = re.search(r"depth of the complete state graph search is (\d+)", out)
    if m:
        r.depth = int(m.group(1))
    m = re.search(r"Error: Invariant (\w+) is violated", out)
    if m:
        r.violated = m.group(1)
    elif re.search(r"Temporal propert(y|ies) .*violated", out):
        r.violated = "temporal"
    elif "Deadlock reached" in out:
        r.violated = "deadlock"
    elif re.search(r"Error: Action property (\w+)", out):
        r.violated = re.search(r"Error: Action property (\w+)", out).group(1)
    if '"TRACE_ACCEPTED"' in out:
        r.accepted = True
    m = re.search(r'<<"MAXL", (\d+), (\d+)>>', out)
    if m:
        r.maxl, r.tracelen = int(m.group(1)), int(m.group(2))
    r.printed = re.findall(r"^<<.*>>$", out, flags=re.M)
    if coverage:
        for m in re.finditer(r"^<(\w+) line \d+, col \d+ to line \d+, col \d+ of module (\w+)>: (\d+):(\d+)", out, flags=re.M):
            r.coverage[m.group(1)] = r.coverage.get(m.group(1), 0) + int(m.group(3))
    return r


def tlc_must_pass(name, *a, **kw):
    """Model-check; a TLC failure that is not a property violation is a broken check."""
    r = tlc(*a, **kw)
    if r.timeout:
        raise Broken("TLC timed out on %s" % name)
    if r.rc not in (0, 12, 13, 11) and r.violated is None:
        raise Broken("TLC failed on %s (rc=%s):\n%s" % (name, r.rc, r.out[-3000:]))
    return r


def validate_trace(tspec, tcfg, trace, nthreads=None, timeout=600, metaname=None, header=None):
    """Trace validation (code -> spec).  The ndjson trace gets a header record.
    Returns TlcResult with .accepted/.maxl."""
    path = trace + ".hdr.ndjson"
    with open(trace) as f:
        body = f.read()
    hdr = dict(header or {})
    hdr["e"] = "Header"
    if nthreads is not None:
        hdr["nt"] = nthreads
    # a driver that crashed or was killed while dumping (two threads crashing at once, SIGKILL at the outer timeout) can
    # leave a torn last line: cut the trace at the first line that is not a JSON object - the run is judged by its exit
    # code anyway, the validation of the prefix only says where the execution left the spec
    lines, torn = [], 0
    for ln in body.splitlines():
        if not ln.strip():
            continue
        try:
            if not isinstance(json.loads(ln), dict):
                raise ValueError
        except ValueError:
            torn = 1
            break
        lines.append(ln)
    with open(path, "w") as f:
        f.write(json.dumps(hdr) + "\n")
        f.write("\n".join(lines) + ("\n" if lines else ""))
    r = tlc(tspec, tcfg, workers=1, timeout=timeout, env={"TRACE": path}, dfs=True, metaname=metaname)
    r.torn = torn
    if r.timeout:
        raise Broken("trace validation timed out (%s)" % trace)
    if r.rc != 0 and r.violated is None and not r.accepted:
        raise Broken("TLC failed during trace validation of %s (rc=%s):\n%s" % (trace, r.rc, r.out[-3000:]))
    r.trace_with_header = path
    return r


def trace_lines(path):
    with open(path) as f:
        return [json.loads(x) for x in f if x.strip()]


def count_threads(path):
    mx = -1
    with open(path) as f:
        for line in f:
            if '"t":' in line:
                try:
                    t = json.loads(line).get("t", -1)
                except Exception:
                    continue
                if isinstance(t, int) and t > mx:
                    mx = t
    return mx + 1


def known_findings(prop=None):
    """Known findings are committed under /verif/known_findings.d/<ID>.json (never written at run
    time): {"findings":[{"property","key","what",...}], "fixed":[{"property","commit","what"}]}."""
    d = os.path.join(ROOT, "known_findings.d")
    res = {"findings": [], "fixed": []}
    if os.path.isdir(d):
        for fn in sorted(os.listdir(d)):
            if fn.endswith(".json"):
                with open(os.path.join(d, fn)) as f:
                    j = json.load(f)
                res["findings"] += j.get("findings", [])
                res["fixed"] += j.get("fixed", [])
    if prop:
        res["findings"] = [x for x in res["findings"] if x.get("property") == prop]
        res["fixed"] = [x for x in res["fixed"] if x.get("property") == prop]
    return res


def write_evidence(prop, tier, seed, level, coverage, wall_s, violations=0, assumptions=None):
    os.makedirs(EVID, exist_ok=True)
    ev = {
        "property_id": prop, "tier": tier, "seed": int(seed), "level": level,
        "coverage": coverage, "assumptions": assumptions or [], "wall_s": round(wall_s, 2),
        "violations": int(violations),
    }
    with open(os.path.join(EVID, prop + ".json"), "w") as f:
        json.dump(ev, f, indent=1, sort_keys=True)
        f.write("\n")


class Verdict:
    """Collects results of one check run."""

    def __init__(self, prop, tier, seed):
        self.prop, self.tier, self.seed = prop, tier, seed
        self.t0 = time.time()
        self.states = 0
        self.transitions = 0
        self.traces = 0
        self.samples = []
        self.violations = []   # (text, replay)
        self.known = []        # text
        self.drift = []
        self.notes = {}
        self.assumptions = []
        self.models = []

    def add_model(self, name, r, expect_violation=None):
        self.states += r.distinct
        self.transitions += r.generated
        self.models.append({"config": name, "distinct_states": r.distinct, "states_generated": r.generated,
                            "depth": r.depth, "wall_s": round(r.wall, 1),
                            "result": r.violated or "ok"})

    def violation(self, text, replay):
        self.violations.append((text, replay))

    def finish(self, level="model_checking", extra_cov=None):
        cov = {
            "states": max(self.states, 0), "transitions": max(self.transitions, 0),
            "traces_validated_against_impl": self.traces,
            "samples": self.samples[:6] if self.samples else ["(none)"],
            "models": self.models,
            "exhaustive": False,
        }
        cov.update(self.notes)
        if extra_cov:
            cov.update(extra_cov)
        write_evidence(self.prop, self.tier, self.seed, level, cov, time.time() - self.t0,
                       len(self.violations), self.assumptions)
        for k in self.known:
            log("KNOWN-FINDING: property=%s %s" % (self.prop, k))
        for d in self.drift:
            log("DRIFT property=%s %s" % (self.prop, d))
        if self.violations:
            for text, replay in self.violations:
                log("VIOLATION property=%s replay=%s" % (self.prop, replay))
                log("  detail: %s" % text)
            return 1
        log("OK property=%s tier=%s states=%d traces=%d wall=%.1fs" % (self.prop, self.tier, self.states,
                                                                      self.traces, time.time() - self.t0))
        return 0


def save_replay(prop, name, content=None, src=None):
    d = replay_dir(prop)
    p = os.path.join(d, name)
    if src:
        shutil.copyfile(src, p)
    else:
        with open(p, "w") as f:
            f.write(content)
    return p
