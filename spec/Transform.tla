------------------------------ MODULE Transform ------------------------------
(* C20 - data transforms (src/transform.c, dispatch_data_create_with_transform).

   A data object is a sequence of REGIONS, a region is a non-empty sequence of bytes
   (naturals 0..255).  The module has three layers.

   (R) REFERENCE meaning, on flat byte strings: RFC 4648 Base32 / Base32Hex / Base64
       encoding defined on the bit string (RefEnc); Unicode well-formedness of UTF-8
       (Table 3-7), scalar values, UTF-16 encoding with one leading BOM (RefTo16).

   (I) IMPLEMENTATION-SHAPED transcription of the C algorithms: one operator per C
       function, a loop over regions with the carried state of the C blocks (count, x,
       pad; skip, offset, the growing output buffer of _dispatch_transform_buffer_new),
       read-ahead through a mapped subrange.  Every index used for a read is checked
       against the range it reads from (ghost oob): that is the discipline whose
       violation is the memory-unsafety the property talks about.  The deviations of the
       pinned tree are NAMED and SWITCHABLE (parameter D, a subset of AllDefects);
       with D = {} the operators describe the repaired code.

   (L) The LAWS of the property, checked by TLC on (I) against (R) for every string
       over a branch-covering token alphabet up to MaxLen bytes and every split into
       <= MaxRegions regions:  encoders = RFC 4648;  Dec(split(Enc(x))) = x, also with
       white space;  well-formed UTF-8 -> UTF-16 = RefTo16 and back = x modulo leading
       BOMs;  fragmentation independence;  "NULL or the inverse accepts";  no
       out-of-range read, no nondeterministic (garbage dependent) result.

   With Emit = TRUE every explored case is printed as a test vector (V rows: expected
   result of the repaired algorithm; K rows: where a named defect makes the result
   differ, and how).  tools/props/C20.py replays them on the real code.            *)
EXTENDS Integers, Sequences, FiniteSets, TLC, Json, IOUtils

CONSTANTS Defects,     \* deviations switched on for the law check
          Mut,         \* "none" or the name of a spec mutant (non-vacuity)
          Family,      \* "base" | "basedec" | "utf8" | "utf16" | "classify"
          Alpha,       \* "q" | "t": token alphabet (quick / thorough)
          MaxLen, MaxRegions,
          Emit,        \* print vectors
          Listed       \* the named defects currently listed as known findings (K rows only for these)

VARIABLE x

AllDefects == {"pad_cumulative", "b32hex_tabsize", "utf8_dfff", "utf_skip_offset",
               "utf8_bom_position", "utf16_odd_overread", "utf16_lowsur_straddle"}
BaseDefects == {"pad_cumulative", "b32hex_tabsize"}
UtfDefects == AllDefects \ BaseDefects

-----------------------------------------------------------------------------
(* generic helpers *)
RECURSIVE Flat(_)
Flat(rs) == IF rs = <<>> THEN <<>> ELSE Head(rs) \o Flat(Tail(rs))

Rep(n, v) == [i \in 1..n |-> v]
DropN(s, n) == SubSeq(s, n + 1, Len(s))
TakeN(s, n) == SubSeq(s, 1, n)

RECURSIVE SplitsR(_, _)
SplitsR(s, k) ==
  IF s = <<>> THEN {<<>>}
  ELSE IF k = 1 THEN {<<s>>}
  ELSE UNION {{<<TakeN(s, i)>> \o r : r \in SplitsR(DropN(s, i), k - 1)} : i \in 1..Len(s)}
Splits(s) == SplitsR(s, MaxRegions)
One(s) == IF s = <<>> THEN <<>> ELSE <<s>>

IsWS(b) == b = 10 \/ b = 9 \/ b = 32
RECURSIVE NoWS(_)
NoWS(s) == IF s = <<>> THEN <<>> ELSE (IF IsWS(Head(s)) THEN <<>> ELSE <<Head(s)>>) \o NoWS(Tail(s))

Null == [ok |-> FALSE, regs |-> <<>>, oob |-> FALSE, nd |-> FALSE]
Good(rs) == [ok |-> TRUE, regs |-> rs, oob |-> FALSE, nd |-> FALSE]

-----------------------------------------------------------------------------
(* (R) reference: RFC 4648 on the bit string *)
Bits8(b) == [i \in 1..8 |-> (b \div (2 ^ (8 - i))) % 2]
RECURSIVE BitsOf(_)
BitsOf(s) == IF s = <<>> THEN <<>> ELSE Bits8(Head(s)) \o BitsOf(Tail(s))
RECURSIVE BV(_, _)
BV(c, n) == IF n = 0 THEN 0 ELSE 2 * BV(c, n - 1) + c[n]
RECURSIVE ChunkVals(_, _)
ChunkVals(bits, w) ==
  IF bits = <<>> THEN <<>>
  ELSE LET c == IF Len(bits) >= w THEN TakeN(bits, w) ELSE bits \o Rep(w - Len(bits), 0)
       IN <<BV(c, w)>> \o ChunkVals(DropN(bits, w), w)

B64Tab(i) == IF i < 26 THEN 65 + i ELSE IF i < 52 THEN 71 + i ELSE IF i < 62 THEN i - 4
             ELSE IF i = 62 THEN 43 ELSE 47
B32Tab(i) == IF i < 26 THEN 65 + i ELSE 24 + i
B32HTab(i) == IF i < 10 THEN 48 + i ELSE 55 + i
Tab(c, i) == IF c = "B64" THEN B64Tab(i) ELSE IF c = "B32" THEN B32Tab(i) ELSE B32HTab(i)
Width(c) == IF c = "B64" THEN 6 ELSE 5
Group(c) == IF c = "B64" THEN 4 ELSE 8

RefEnc(c, s) ==
  LET vals == ChunkVals(BitsOf(s), Width(c))
      g == Group(c)
  IN [i \in 1..Len(vals) |-> Tab(c, vals[i])] \o Rep((g - (Len(vals) % g)) % g, 61)

(* value of an input character: 0.. = digit, -2 = '=', -1 = not in the alphabet *)
Val(D, c, ch) ==
  IF c = "B32H" /\ "b32hex_tabsize" \in D /\ ch >= 33 THEN -1   \* pinned tree: table size computed from the ENCODE table (33)
  ELSE IF ch = 61 THEN -2
  ELSE IF c = "B64" THEN
       IF ch >= 65 /\ ch <= 90 THEN ch - 65 ELSE IF ch >= 97 /\ ch <= 122 THEN ch - 71
       ELSE IF ch >= 48 /\ ch <= 57 THEN ch + 4 ELSE IF ch = 43 THEN 62 ELSE IF ch = 47 THEN 63 ELSE -1
  ELSE IF c = "B32" THEN
       IF ch >= 65 /\ ch <= 90 THEN ch - 65 ELSE IF ch >= 50 /\ ch <= 55 THEN ch - 24 ELSE -1
  ELSE IF ch >= 48 /\ ch <= 57 THEN ch - 48 ELSE IF ch >= 65 /\ ch <= 86 THEN ch - 55 ELSE -1

-----------------------------------------------------------------------------
(* (I) _dispatch_transform_to_base64 / _to_base32_with_table: per region loop, `count'
   carried, previous byte through a mapped subrange at offset-1, padding when
   offset + size = total.  Output: one region. *)
EncChars(c, cm, last, curr) ==
  IF c = "B64" THEN
       CASE cm = 0 -> <<Tab(c, (curr \div 4) % 64)>>
         [] cm = 1 -> <<Tab(c, (last * 16 + curr \div 16) % 64)>>
         [] cm = 2 -> <<Tab(c, (last * 4 + curr \div 64) % 64), Tab(c, curr % 64)>>
  ELSE CASE cm = 0 -> <<Tab(c, (curr \div 8) % 32)>>
         [] cm = 1 -> <<Tab(c, (last * 4 + curr \div 64) % 32), Tab(c, (curr \div 2) % 32)>>
         [] cm = 2 -> <<Tab(c, (last * 16 + curr \div 16) % 32)>>
         [] cm = 3 -> <<Tab(c, (last * 2 + curr \div 128) % 32), Tab(c, (curr \div 4) % 32)>>
         [] cm = 4 -> <<Tab(c, (last * 8 + curr \div 32) % 32), Tab(c, curr % 32)>>
EncTail(c, cm, b) ==
  IF c = "B64" THEN
       CASE cm = 0 -> <<>>
         [] cm = 1 -> <<Tab(c, (b % 4) * 16), 61, 61>>
         [] cm = 2 -> <<Tab(c, (b % 16) * 4), 61>>
  ELSE CASE cm = 0 -> <<>>
         [] cm = 1 -> <<Tab(c, (b % 8) * 4)>> \o Rep(6, 61)
         [] cm = 2 -> <<Tab(c, (b % 2) * 16)>> \o Rep(4, 61)
         [] cm = 3 -> <<Tab(c, (b % 16) * 2)>> \o Rep(3, 61)
         [] cm = 4 -> <<Tab(c, (b % 4) * 8)>> \o Rep(1, 61)

RECURSIVE EncLoop(_, _, _, _, _, _, _)
EncLoop(c, flat, offset, reg, i, count, out) ==   \* i is 1-based
  IF i > Len(reg) THEN [count |-> count, out |-> out]
  ELSE LET n == IF c = "B64" THEN 3 ELSE 5
           cm == count % n
           last == IF cm = 0 THEN 0
                   ELSE IF i = 1 THEN (IF Mut = "enc_nocarry" THEN 0 ELSE flat[offset])  \* map(data, offset-1, 1)
                   ELSE reg[i - 1]
       IN EncLoop(c, flat, offset, reg, i + 1, count + 1, out \o EncChars(c, cm, last, reg[i]))

RECURSIVE EncRegions(_, _, _, _, _, _)
EncRegions(c, flat, regs, offset, count, out) ==
  IF regs = <<>> THEN out
  ELSE LET reg == Head(regs)
           st == EncLoop(c, flat, offset, reg, 1, count, out)
           n == IF c = "B64" THEN 3 ELSE 5
           out2 == IF offset + Len(reg) = Len(flat)
                   THEN st.out \o EncTail(c, st.count % n, reg[Len(reg)]) ELSE st.out
       IN EncRegions(c, flat, Tail(regs), offset + Len(reg), st.count, out2)

ImplEnc(c, regs) == Good(One(EncRegions(c, Flat(regs), regs, 0, 0, <<>>)))

(* (I) _dispatch_transform_from_base64 / _from_base32_with_table.  Carried: the digits of
   the open group (the C code keeps them in x), count (= their number mod group), pad.
   Pinned tree ("pad_cumulative"): pad is never reset and `final -= f(pad)' is applied to
   the byte count of EVERY region; a result below zero wraps to about 2^64 (nd: the object
   has an absurd size).  Repaired: the padding of a group shortens that group, an impossible
   number of '=' in a group is rejected. *)
GroupBytes(c, g) ==
  IF c = "B64" THEN
       LET n == ((g[1] * 64 + g[2]) * 64 + g[3]) * 64 + g[4]
       IN <<n \div 65536, (n \div 256) % 256, n % 256>>
  ELSE <<g[1] * 8 + g[2] \div 4,
         (g[2] % 4) * 64 + g[3] * 2 + g[4] \div 16,
         (g[4] % 16) * 16 + g[5] \div 2,
         (g[5] % 2) * 128 + g[6] * 4 + g[7] \div 8,
         (g[7] % 8) * 32 + g[8]>>
PadCut(c, pad) ==   \* bytes removed for `pad' padding characters; -1 = impossible count
  IF c = "B64" THEN (IF pad <= 2 THEN pad ELSE -1)
  ELSE CASE pad = 0 -> 0 [] pad = 1 -> 1 [] pad = 3 -> 2 [] pad = 4 -> 3 [] pad = 6 -> 4 [] OTHER -> -1
PadCutPinned(c, pad) ==
  IF c = "B64" THEN pad
  ELSE CASE pad = 1 -> 1 [] pad = 3 -> 2 [] pad = 4 -> 3 [] pad = 6 -> 4 [] OTHER -> 0

RECURSIVE DecLoop(_, _, _, _, _)
DecLoop(D, c, reg, i, st) ==    \* st = [ok, grp, pad, em]
  IF i > Len(reg) \/ ~st.ok THEN st
  ELSE LET ch == reg[i] IN
       IF IsWS(ch) /\ Mut # "ws_noskip" THEN DecLoop(D, c, reg, i + 1, st)
       ELSE LET v == Val(D, c, ch) IN
            IF v = -1 THEN [st EXCEPT !.ok = FALSE]
            ELSE LET pad2 == IF v = -2 THEN st.pad + 1 ELSE st.pad
                     grp2 == Append(st.grp, IF v = -2 THEN 0 ELSE v)
                 IN IF Len(grp2) < Group(c)
                    THEN DecLoop(D, c, reg, i + 1, [st EXCEPT !.grp = grp2, !.pad = pad2])
                    ELSE LET gb == GroupBytes(c, grp2) IN
                         IF "pad_cumulative" \in D
                         THEN DecLoop(D, c, reg, i + 1, [st EXCEPT !.grp = <<>>, !.pad = pad2, !.em = @ \o gb])
                         ELSE LET cut == PadCut(c, pad2) IN
                              IF cut < 0 THEN [st EXCEPT !.ok = FALSE]
                              ELSE DecLoop(D, c, reg, i + 1,
                                     [st EXCEPT !.grp = <<>>, !.pad = 0, !.em = @ \o TakeN(gb, Len(gb) - cut)])

RECURSIVE DecRegions(_, _, _, _)
DecRegions(D, c, regs, acc) ==   \* acc = [ok, grp, pad, out (regions), nd]
  IF regs = <<>> \/ ~acc.ok \/ acc.nd THEN acc
  ELSE LET st == DecLoop(D, c, Head(regs), 1, [ok |-> TRUE, grp |-> acc.grp, pad |-> acc.pad, em |-> <<>>])
       IN IF ~st.ok THEN [acc EXCEPT !.ok = FALSE]
          ELSE LET final == IF "pad_cumulative" \in D THEN Len(st.em) - PadCutPinned(c, st.pad) ELSE Len(st.em)
               IN IF final < 0 THEN [acc EXCEPT !.nd = TRUE]
                  ELSE DecRegions(D, c, Tail(regs),
                         [acc EXCEPT !.grp = st.grp, !.pad = st.pad,
                                     !.out = IF final = 0 THEN @ ELSE Append(@, TakeN(st.em, final))])

ImplDec(D, c, regs) ==
  LET a == DecRegions(D, c, regs, [ok |-> TRUE, grp |-> <<>>, pad |-> 0, out |-> <<>>, nd |-> FALSE])
  IN IF a.nd THEN [ok |-> TRUE, regs |-> <<>>, oob |-> FALSE, nd |-> TRUE]
     ELSE IF ~a.ok THEN Null ELSE Good(a.out)

-----------------------------------------------------------------------------
(* (R) reference: UTF-8 well-formedness, scalar values, UTF-16 *)
In(b, lo, hi) == b >= lo /\ b <= hi
SeqLenWF(s, i) ==   \* length of the well-formed sequence starting at s[i], 0 if none (Unicode Table 3-7)
  LET n == Len(s) - i + 1
      b1 == s[i]
      c(k, lo, hi) == n >= k /\ In(s[i + k - 1], lo, hi)
  IN IF b1 <= 127 THEN 1
     ELSE IF In(b1, 194, 223) THEN (IF c(2, 128, 191) THEN 2 ELSE 0)
     ELSE IF b1 = 224 THEN (IF c(2, 160, 191) /\ c(3, 128, 191) THEN 3 ELSE 0)
     ELSE IF In(b1, 225, 236) \/ In(b1, 238, 239) THEN (IF c(2, 128, 191) /\ c(3, 128, 191) THEN 3 ELSE 0)
     ELSE IF b1 = 237 THEN (IF c(2, 128, 159) /\ c(3, 128, 191) THEN 3 ELSE 0)
     ELSE IF b1 = 240 THEN (IF c(2, 144, 191) /\ c(3, 128, 191) /\ c(4, 128, 191) THEN 4 ELSE 0)
     ELSE IF In(b1, 241, 243) THEN (IF c(2, 128, 191) /\ c(3, 128, 191) /\ c(4, 128, 191) THEN 4 ELSE 0)
     ELSE IF b1 = 244 THEN (IF c(2, 128, 143) /\ c(3, 128, 191) /\ c(4, 128, 191) THEN 4 ELSE 0)
     ELSE 0
Scalar(s, i, n) ==
  CASE n = 1 -> s[i]
    [] n = 2 -> (s[i] % 32) * 64 + (s[i + 1] % 64)
    [] n = 3 -> ((s[i] % 16) * 64 + (s[i + 1] % 64)) * 64 + (s[i + 2] % 64)
    [] n = 4 -> (((s[i] % 8) * 64 + (s[i + 1] % 64)) * 64 + (s[i + 2] % 64)) * 64 + (s[i + 3] % 64)
RECURSIVE Scalars(_, _)      \* <<-1>> if ill-formed
Scalars(s, i) ==
  IF i > Len(s) THEN <<>>
  ELSE LET n == SeqLenWF(s, i) IN
       IF n = 0 THEN <<-1>>
       ELSE LET r == Scalars(s, i + n) IN IF r # <<>> /\ r[Len(r)] = -1 THEN <<-1>> ELSE <<Scalar(s, i, n)>> \o r
WellFormed8(s) == LET r == Scalars(s, 1) IN r = <<>> \/ r[Len(r)] # -1

Unit(u, bo) == IF bo = "LE" THEN <<u % 256, u \div 256>> ELSE <<u \div 256, u % 256>>
UnitsOf(cp, bo) ==
  IF cp >= 65536 THEN Unit(55296 + ((cp - 65536) \div 1024), bo) \o Unit(56320 + ((cp - 65536) % 1024), bo)
  ELSE Unit(cp, bo)
RECURSIVE UnitsAll(_, _)
UnitsAll(cps, bo) == IF cps = <<>> THEN <<>> ELSE UnitsOf(Head(cps), bo) \o UnitsAll(Tail(cps), bo)
(* one BOM, then the text; a leading U+FEFF of the text is that BOM *)
RefTo16(s, bo) ==
  LET cps == Scalars(s, 1)
      body == IF cps # <<>> /\ cps[1] = 65279 THEN Tail(cps) ELSE cps
  IN Unit(65279, bo) \o UnitsAll(body, bo)
RECURSIVE StripBoms(_)
StripBoms(s) == IF Len(s) >= 3 /\ s[1] = 239 /\ s[2] = 187 /\ s[3] = 191 THEN StripBoms(DropN(s, 3)) ELSE s
RECURSIVE StripBoms16(_, _)
StripBoms16(s, bo) == IF Len(s) >= 2 /\ <<s[1], s[2]>> = Unit(65279, bo) THEN StripBoms16(DropN(s, 2), bo) ELSE s

-----------------------------------------------------------------------------
(* (I) _dispatch_transform_buffer_new: b = [data (flushed regions), cur, cap, oob] *)
Buf0 == [data |-> <<>>, cur |-> <<>>, cap |-> 0, oob |-> FALSE]
BufNew(b, req, sz) ==
  IF req = 0 \/ b.cap - Len(b.cur) < req
  THEN [b EXCEPT !.data = IF b.cur # <<>> THEN Append(@, b.cur) ELSE @, !.cur = <<>>, !.cap = req + sz]
  ELSE b
BufPut(b, bytes) == [b EXCEPT !.cur = @ \o bytes, !.oob = @ \/ Len(b.cur) + Len(bytes) > b.cap]

(* _dispatch_transform_utf8_length / _dispatch_transform_read_utf8_sequence (no validation of
   continuation bytes, as in the C code) *)
U8Len(b) == IF b < 128 THEN 1 ELSE IF b \div 32 = 6 THEN 2 ELSE IF b \div 16 = 14 THEN 3
            ELSE IF b \div 8 = 30 THEN 4 ELSE 0
ReadSeq(p, n) == Scalar(p, 1, n)

(* _dispatch_transform_to_utf16.  st = [ok, skip, buf, oob, nd].
   "utf_skip_offset": the `skip' bytes consumed at the start of a region are not added to
   `offset' (read-ahead position, BOM position).  "utf8_dfff": wch < 0xdfff.
   "utf8_bom_position": the leading BOM is recognised by `offset + i == 3' AFTER i was advanced,
   but for a sequence that spans regions i is set to size, not to the end of the sequence. *)
RECURSIVE To16Loop(_, _, _, _, _, _, _)
To16Loop(D, flat, bo, off, src, i, st) ==    \* i is the C index (0-based)
  IF ~st.ok \/ st.nd \/ i >= Len(src) THEN st
  ELSE LET size == Len(src)
           n == U8Len(src[i + 1])
       IN IF n = 0 THEN [st EXCEPT !.ok = FALSE]
          ELSE LET span == n + i > size
                   mapok == off + i + n <= Len(flat)
                   p == IF span THEN SubSeq(flat, off + i + 1, off + i + n) ELSE SubSeq(src, i + 1, i + n)
                   n2 == IF span /\ mapok THEN U8Len(p[1]) ELSE n
               IN IF span /\ ~mapok THEN [st EXCEPT !.ok = FALSE]
                  ELSE IF n2 = 0 \/ n2 > n
                       THEN [st EXCEPT !.nd = TRUE, !.oob = TRUE]   \* reads past the mapped bytes
                  ELSE LET wch == ReadSeq(p, n2)
                           i2 == IF span THEN size ELSE i + n
                           skip2 == IF span THEN st.skip + n - (size - i) ELSE st.skip
                           nxt == (size - i2) * 2
                           hi == IF "utf8_dfff" \in D THEN 57343 ELSE 57344
                           atstart == IF "utf8_bom_position" \in D THEN off + i2 = 3 ELSE off + i = 0
                       IN IF wch = 65279 /\ atstart
                          THEN To16Loop(D, flat, bo, off, src, i2, [st EXCEPT !.skip = skip2])
                          ELSE IF wch >= 55296 /\ wch < hi THEN [st EXCEPT !.ok = FALSE]
                          ELSE IF wch >= 65536
                          THEN LET w == wch - 65536
                                   b2 == BufPut(BufNew(st.buf, 4, nxt),
                                           Unit(((w \div 1024) % 1024) + 55296, bo) \o Unit((w % 1024) + 56320, bo))
                               IN To16Loop(D, flat, bo, off, src, i2, [st EXCEPT !.skip = skip2, !.buf = b2])
                          ELSE LET b2 == BufPut(BufNew(st.buf, 2, nxt), Unit(wch % 65536, bo))
                               IN To16Loop(D, flat, bo, off, src, i2, [st EXCEPT !.skip = skip2, !.buf = b2])

RECURSIVE To16Regions(_, _, _, _, _, _)
To16Regions(D, flat, bo, regs, offset, st) ==
  IF regs = <<>> \/ ~st.ok \/ st.nd THEN st
  ELSE LET reg == Head(regs)
           size0 == Len(reg)
           st1 == IF offset = 0
                  THEN [st EXCEPT !.buf = BufPut(BufNew(st.buf, size0 * 2 + 2, 0), Unit(65279, bo))]
                  ELSE st
           st2 == IF st1.skip >= size0 THEN [st1 EXCEPT !.skip = @ - size0]
                  ELSE LET sk == st1.skip
                           off == IF "utf_skip_offset" \in D THEN offset ELSE offset + sk
                           r == To16Loop(D, flat, bo, off, DropN(reg, sk), 0, [st1 EXCEPT !.skip = 0])
                       IN [r EXCEPT !.buf = BufNew(@, 0, 0)]
       IN To16Regions(D, flat, bo, Tail(regs), offset + size0, st2)

UtfResult(st) ==
  IF st.nd THEN [ok |-> TRUE, regs |-> <<>>, oob |-> TRUE, nd |-> TRUE]
  ELSE IF ~st.ok THEN [Null EXCEPT !.oob = st.oob \/ st.buf.oob]
  ELSE [ok |-> TRUE, regs |-> st.buf.data, oob |-> st.oob \/ st.buf.oob, nd |-> FALSE]

ImplTo16(D, bo, regs) ==
  UtfResult(To16Regions(D, Flat(regs), bo, regs, 0,
              [ok |-> TRUE, skip |-> 0, buf |-> Buf0, oob |-> FALSE, nd |-> FALSE]))

(* _dispatch_transform_from_utf16.
   "utf16_odd_overread": the last, split code unit of an odd sized region is read as
   a 64-bit load through p from a 2 byte mapping.  "utf16_lowsur_straddle": a low surrogate that
   is itself split by the end of an odd sized region is read as src[i] (one byte past the
   region, value depends on foreign memory) and the byte taken from the next region is not
   skipped. *)
Utf8Of(wch) ==
  IF wch < 128 THEN <<wch>>
  ELSE IF wch < 2048 THEN <<192 + (wch \div 64), 128 + (wch % 64)>>
  ELSE IF wch < 65536 THEN <<224 + (wch \div 4096), 128 + ((wch \div 64) % 64), 128 + (wch % 64)>>
  ELSE <<240 + (wch \div 262144), 128 + ((wch \div 4096) % 64), 128 + ((wch \div 64) % 64), 128 + (wch % 64)>>
U16At(s, k, bo) == IF bo = "LE" THEN s[k + 1] + 256 * s[k + 2] ELSE 256 * s[k + 1] + s[k + 2]  \* k: byte offset

RECURSIVE From16Loop(_, _, _, _, _, _, _, _)
From16Loop(D, flat, bo, offset, off, src, i, st) ==
  LET size == Len(src)
      odd == size % 2 = 1
      max == size \div 2 + (IF odd THEN 1 ELSE 0)
  IN IF ~st.ok \/ st.nd \/ i >= max THEN st
     ELSE LET lastodd == odd /\ i = max - 1
              mapok == off + i * 2 + 2 <= Len(flat)
          IN IF lastodd /\ ~mapok THEN [st EXCEPT !.ok = FALSE]
             ELSE LET ch == IF lastodd THEN U16At(flat, off + i * 2, bo) ELSE U16At(src, i * 2, bo)
                      st1 == IF lastodd
                             THEN [st EXCEPT !.skip = @ + 1, !.oob = @ \/ "utf16_odd_overread" \in D]
                             ELSE st
                  IN IF ch = 65534 /\ offset = 0 /\ i = 0 THEN [st1 EXCEPT !.ok = FALSE]
                     ELSE IF ch = 65279 /\ offset = 0 /\ i = 0
                          THEN From16Loop(D, flat, bo, offset, off, src, i + 1, st1)
                     ELSE IF ch >= 55296 /\ ch <= 56319
                     THEN LET j == i + 1
                              beyond == j >= max
                              straddle == ~beyond /\ odd /\ j = max - 1
                              mapok2 == off + j * 2 + 2 <= Len(flat)
                          IN IF straddle /\ "utf16_lowsur_straddle" \in D
                             THEN [st1 EXCEPT !.nd = TRUE, !.oob = TRUE]
                             ELSE IF (beyond \/ straddle) /\ ~mapok2 THEN [st1 EXCEPT !.ok = FALSE]
                             ELSE LET ch2 == IF beyond \/ straddle THEN U16At(flat, off + j * 2, bo)
                                             ELSE U16At(src, j * 2, bo)
                                      st2 == IF beyond THEN [st1 EXCEPT !.skip = @ + 2]
                                             ELSE IF straddle THEN [st1 EXCEPT !.skip = @ + 1] ELSE st1
                                  IN IF ~(ch2 >= 56320 /\ ch2 <= 57343) THEN [st2 EXCEPT !.ok = FALSE]
                                     ELSE LET wch == (ch - 55296) * 1024 + (ch2 % 1024) + 65536
                                              nxt == (max - j) * 2
                                              b2 == BufPut(BufNew(st2.buf, 4, nxt), Utf8Of(wch))
                                          IN From16Loop(D, flat, bo, offset, off, src, j + 1, [st2 EXCEPT !.buf = b2])
                     ELSE IF ch >= 56320 /\ ch <= 57343 THEN [st1 EXCEPT !.ok = FALSE]
                     ELSE LET u == Utf8Of(ch)
                              b2 == BufPut(BufNew(st1.buf, Len(u), (max - i) * 2), u)
                          IN From16Loop(D, flat, bo, offset, off, src, i + 1, [st1 EXCEPT !.buf = b2])

RECURSIVE From16Regions(_, _, _, _, _, _)
From16Regions(D, flat, bo, regs, offset, st) ==
  IF regs = <<>> \/ ~st.ok \/ st.nd THEN st
  ELSE LET reg == Head(regs)
           size0 == Len(reg)
           st1 == IF offset = 0 THEN [st EXCEPT !.buf = BufNew(@, ((size0 + 2) \div 3) * 2, 0)] ELSE st
           st2 == IF st1.skip >= size0 THEN [st1 EXCEPT !.skip = @ - size0]
                  ELSE LET sk == st1.skip
                           off == IF "utf_skip_offset" \in D THEN offset ELSE offset + sk
                           offz == IF "utf_skip_offset" \in D THEN offset ELSE offset + sk
                           r == From16Loop(D, flat, bo, offz, off, DropN(reg, sk), 0, [st1 EXCEPT !.skip = 0])
                       IN [r EXCEPT !.buf = BufNew(@, 0, 0)]
       IN From16Regions(D, flat, bo, Tail(regs), offset + size0, st2)

ImplFrom16(D, bo, regs) ==
  UtfResult(From16Regions(D, Flat(regs), bo, regs, 0,
              [ok |-> TRUE, skip |-> 0, buf |-> Buf0, oob |-> FALSE, nd |-> FALSE]))

(* _dispatch_transform_to_utf8_without_bom: subrange(3, size-3) keeps the remaining regions *)
RECURSIVE DropBytes(_, _)
DropBytes(regs, n) ==
  IF n = 0 \/ regs = <<>> THEN regs
  ELSE IF Len(Head(regs)) <= n THEN DropBytes(Tail(regs), n - Len(Head(regs)))
  ELSE <<DropN(Head(regs), n)>> \o Tail(regs)
ImplTo8NoBom(regs) ==
  LET f == Flat(regs) IN
  IF Len(f) >= 3 /\ f[1] = 239 /\ f[2] = 187 /\ f[3] = 191 THEN Good(DropBytes(regs, 3)) ELSE Good(regs)

-----------------------------------------------------------------------------
(* (I) dispatch_data_create_with_transform: detection, mask compatibility, empty input,
   decode of the input format, encode of the output format *)
BaseFmts == {"NONE", "B32", "B32H", "B64"}
UtfFmts == {"UTF8", "U16LE", "U16BE"}
AllFmts == BaseFmts \cup UtfFmts \cup {"UANY"}
TypeBit(f) == CASE f = "NONE" -> 1 [] f = "UTF8" -> 2 [] f = "U16LE" -> 4 [] f = "U16BE" -> 8
                [] f = "UANY" -> 16 [] f = "B32" -> 32 [] f = "B32H" -> 64 [] f = "B64" -> 128
(* input_mask / output_mask as sets of type bits; NONE has ~0 *)
Mask(f) == IF f = "NONE" THEN {1, 2, 4, 8, 16, 32, 64, 128}
           ELSE IF f \in BaseFmts THEN {1, 32, 64, 128}
           ELSE IF f \in UtfFmts THEN {2, 4, 8}
           ELSE {}
Detect(flat) ==   \* host is little endian: *(uint16_t*)p
  IF Len(flat) < 2 THEN "FAIL"
  ELSE LET ch == flat[1] + 256 * flat[2] IN
       IF ch = 65279 THEN "U16LE" ELSE IF ch = 65534 THEN "U16BE" ELSE "UTF8"

Merge(a, b) == [b EXCEPT !.oob = a.oob \/ b.oob, !.nd = a.nd \/ b.nd]

Decode(D, f, regs) ==
  CASE f \in {"B32", "B32H", "B64"} -> ImplDec(D, f, regs)
    [] f = "U16LE" -> ImplFrom16(D, "LE", regs)
    [] f = "U16BE" -> ImplFrom16(D, "BE", regs)
    [] OTHER -> Good(regs)
Encode(D, f, regs) ==
  CASE f \in {"B32", "B32H", "B64"} -> ImplEnc(f, regs)
    [] f = "U16LE" -> ImplTo16(D, "LE", regs)
    [] f = "U16BE" -> ImplTo16(D, "BE", regs)
    [] f = "UTF8" -> ImplTo8NoBom(regs)
    [] OTHER -> Good(regs)

Xform(D, regs, fin0, fout) ==
  LET flat == Flat(regs)
      fin == IF fin0 = "UANY" THEN Detect(flat) ELSE fin0
  IN IF fin = "FAIL" THEN Null
     ELSE IF TypeBit(fin) \notin Mask(fout) \/ TypeBit(fout) \notin Mask(fin) THEN Null
     ELSE IF flat = <<>> THEN Good(<<>>)
     ELSE LET t1 == Decode(D, fin, regs) IN
          IF ~t1.ok \/ t1.nd THEN t1
          ELSE Merge(t1, Encode(D, fout, t1.regs))

Inverse(fin, fout) == <<fout, fin>>

-----------------------------------------------------------------------------
(* token alphabets: every branch of the codecs is hit by some string over them *)
TokBase == {<<0>>, <<65>>, <<255>>}     \* thorough: same bytes, splits into <= 4 regions and more white space
(* 'M' digit in all three alphabets, 'g' only Base64, '7' digit of Base32 and Base64 but not of
   Base32Hex, '!' of none *)
TokDec == IF Alpha = "q" THEN {<<77>>, <<61>>, <<10>>, <<103>>, <<33>>}
          ELSE {<<77>>, <<61>>, <<10>>, <<103>>, <<33>>, <<55>>}
TokUtf8 == IF Alpha = "q"
           THEN {<<65>>, <<195, 169>>, <<226, 130, 172>>, <<240, 159, 152, 128>>, <<239, 187, 191>>,
                 <<237, 191, 191>>, <<226>>, <<169>>, <<255>>}
           ELSE {<<65>>, <<195, 169>>, <<226, 130, 172>>, <<240, 159, 152, 128>>, <<239, 187, 191>>,
                 <<237, 191, 191>>, <<237, 159, 191>>, <<244, 143, 191, 191>>,
                 <<226>>, <<169>>, <<255>>, <<195>>, <<240>>}
(* UTF-16LE code units: A, BOM, reversed BOM, high and low surrogates (also the extreme ones), U+20AC, and
   single bytes to make odd sizes *)
TokUtf16 == IF Alpha = "q"
            THEN {<<65, 0>>, <<255, 254>>, <<61, 216>>, <<0, 222>>, <<254, 255>>, <<65>>}
            ELSE {<<65, 0>>, <<172, 32>>, <<255, 254>>, <<254, 255>>, <<61, 216>>, <<255, 219>>,
                  <<0, 222>>, <<255, 223>>, <<65>>, <<216>>}
Tokens == CASE Family = "base" -> TokBase [] Family = "basedec" -> TokDec
            [] Family = "utf8" -> TokUtf8 [] Family = "utf16" -> TokUtf16 [] OTHER -> {}

-----------------------------------------------------------------------------
(* (L) the laws *)
Safe(r) == ~r.oob /\ ~r.nd
(* results of UTF transforms are compared modulo leading byte-order marks (the property says so
   for the round trip; the C code emits a second BOM when the input's BOM is split over regions) *)
Norm(fout, s) == IF fout = "UTF8" THEN StripBoms(s) ELSE IF fout = "U16LE" THEN StripBoms16(s, "LE")
                 ELSE IF fout = "U16BE" THEN StripBoms16(s, "BE") ELSE s
Same(a, b, fout) == a.ok = b.ok /\ a.oob = b.oob /\ a.nd = b.nd
                    /\ (a.ok => Norm(fout, Flat(a.regs)) = Norm(fout, Flat(b.regs)))
Is(r, bytes) == r.ok /\ Safe(r) /\ Flat(r.regs) = bytes
Accepted(D, r, fin, fout) ==     \* NULL, or sane and accepted by the inverse transform
  Safe(r) /\ (r.ok => LET q == Xform(D, r.regs, fout, fin) IN q.ok /\ Safe(q))
FragIndep(D, s, fin, fout) ==
  \A sp \in Splits(s) : Same(Xform(D, sp, fin, fout), Xform(D, One(s), fin, fout), fout)

Codecs == {"B32", "B32H", "B64"}
NextCodec(c) == IF c = "B32" THEN "B32H" ELSE IF c = "B32H" THEN "B64" ELSE "B32"
WithNL(y) == y \o <<10>>
MidNL(y) == TakeN(y, Len(y) \div 2) \o <<10>> \o DropN(y, Len(y) \div 2)

LawBase(D, s) ==
  \A c \in Codecs :
    LET y == RefEnc(c, s) IN
    /\ \A sp \in Splits(s) : Is(Xform(D, sp, "NONE", c), y)                   \* encoder = RFC 4648
    /\ \A sp \in Splits(y) : Is(Xform(D, sp, c, "NONE"), s)                   \* Dec(split(Enc(x))) = x
    /\ \A sp \in Splits(WithNL(y)) : Is(Xform(D, sp, c, "NONE"), s)           \* ... with white space
    /\ Alpha = "t" => \A sp \in Splits(MidNL(y)) : Is(Xform(D, sp, c, "NONE"), s)
    /\ \A sp \in Splits(y) : Is(Xform(D, sp, c, NextCodec(c)), RefEnc(NextCodec(c), s))  \* transcoding
    /\ Is(Xform(D, One(y), c, c), y)
LawBaseDec(D, s) ==
  \A c \in Codecs :
    /\ FragIndep(D, s, c, "NONE")
    /\ \A sp \in Splits(s) : Accepted(D, Xform(D, sp, c, "NONE"), c, "NONE")
LawUtf8(D, s) ==
  \A bo \in {"LE", "BE"} :
    LET f16 == IF bo = "LE" THEN "U16LE" ELSE "U16BE"
        g16 == IF bo = "LE" THEN "U16BE" ELSE "U16LE"
    IN /\ FragIndep(D, s, "UTF8", f16)
       /\ \A sp \in Splits(s) : Accepted(D, Xform(D, sp, "UTF8", f16), "UTF8", f16)
       /\ WellFormed8(s) /\ s # <<>> =>
            LET y == RefTo16(s, bo) IN
            /\ \A sp \in Splits(s) :    \* the UTF-16 text, modulo leading BOMs
                 LET r == Xform(D, sp, "UTF8", f16) IN
                 r.ok /\ Safe(r) /\ StripBoms16(Flat(r.regs), bo) = StripBoms16(y, bo)
            /\ \A sp \in Splits(y) :    \* and back: the original text, modulo leading BOMs
                 LET r == Xform(D, sp, f16, "UTF8") IN r.ok /\ Safe(r) /\ StripBoms(Flat(r.regs)) = StripBoms(s)
            /\ FragIndep(D, y, f16, g16)
            /\ \A sp \in Splits(y) : Accepted(D, Xform(D, sp, f16, g16), f16, g16)
LawUtf16(D, s) ==
  /\ \A fo \in {"UTF8", "U16BE", "U16LE"} :
       /\ FragIndep(D, s, "U16LE", fo)
       /\ \A sp \in Splits(s) : Accepted(D, Xform(D, sp, "U16LE", fo), "U16LE", fo)
  /\ FragIndep(D, s, "U16BE", "UTF8")

Law(D, s) ==
  CASE Family = "base" -> LawBase(D, s)
    [] Family = "basedec" -> LawBaseDec(D, s)
    [] Family = "utf8" -> LawUtf8(D, s)
    [] Family = "utf16" -> LawUtf16(D, s)
    [] OTHER -> TRUE

Laws == Law(Defects, x)

-----------------------------------------------------------------------------
(* vectors.  V: <<"V", input, fin, fout, pinned, ok, output>> - the result of the repaired
   algorithm on the unsplit input (by the laws above, on every split).  K: <<"K", defect, regions
   or "*", input, fin, fout, ok, output, oob, nd>> - a named defect (or all of them, "ALL") changes
   the result on that split ("*": on every split, identically). *)
B(b) == IF b THEN 1 ELSE 0
Canon(c, u) ==    \* u is RFC 4648 text plus white space: its decoding re-encodes to it
  LET r == Xform({}, One(u), c, "NONE") IN r.ok /\ ~r.nd /\ RefEnc(c, Flat(r.regs)) = NoWS(u)
Wf16(u, bo) ==    \* u = RefTo16 of some well-formed text
  LET r == Xform({}, One(u), IF bo = "LE" THEN "U16LE" ELSE "U16BE", "UTF8") IN
  r.ok /\ ~r.nd /\ WellFormed8(Flat(r.regs)) /\ RefTo16(Flat(r.regs), bo) = u
(* does the property fix the exact result?  (otherwise only "NULL or the inverse accepts") *)
Pinned(u, fin, fout) ==
  IF fin = "UANY" \/ fout = "UANY" \/ (fin \in BaseFmts) # (fout \in BaseFmts) THEN FALSE
  ELSE IF u = <<>> THEN TRUE
  ELSE IF fin = "NONE" THEN TRUE
  ELSE IF fin \in Codecs THEN Canon(fin, u)
  ELSE IF fin = "UTF8" THEN WellFormed8(u)
  ELSE fout = "UTF8" /\ Wf16(u, IF fin = "U16LE" THEN "LE" ELSE "BE")

DefectsFor(fin, fout) == Listed \cap
  ((IF fin = "B32H" THEN BaseDefects ELSE IF fin \in Codecs THEN {"pad_cumulative"} ELSE {}) \cup
   (IF fin \in UtfFmts \cup {"UANY"} /\ fout \in UtfFmts THEN UtfDefects ELSE {}))

EmitCase(u, fin, fout) ==
  LET ref == Xform({}, One(u), fin, fout)
      ds == DefectsFor(fin, fout)
      dsets == {<<d, {d}>> : d \in ds} \cup (IF Cardinality(ds) > 1 THEN {<<"ALL", ds>>} ELSE {})
      row(r) == <<B(r.ok), IF r.ok /\ ~r.nd THEN Flat(r.regs) ELSE <<>>, B(r.oob), B(r.nd)>>
  IN /\ PrintT(ToJson(<<"V", u, fin, fout, B(Pinned(u, fin, fout)), B(ref.ok), IF ref.ok THEN Flat(ref.regs) ELSE <<>>>>))
     /\ \A dd \in dsets :
          LET rs == [sp \in Splits(u) |-> Xform(dd[2], sp, fin, fout)]
              devs == {sp \in Splits(u) : ~Same(rs[sp], ref, fout)}
          IN IF devs = {} THEN TRUE
             ELSE IF devs = Splits(u) /\ \A a, b \in devs : row(rs[a]) = row(rs[b])
                  THEN LET sp == CHOOSE a \in devs : TRUE IN
                       PrintT(ToJson(<<"K", dd[1], "*", u, fin, fout>> \o row(rs[sp])))
                  ELSE \A sp \in devs : PrintT(ToJson(<<"K", dd[1], sp, u, fin, fout>> \o row(rs[sp])))

EmitBase(s) ==
  /\ EmitCase(s, "NONE", "NONE") /\ EmitCase(s, "NONE", "UTF8") /\ EmitCase(s, "B64", "U16LE")
  /\ EmitCase(s, "NONE", "UANY")
  /\ \A c \in Codecs :
       LET y == RefEnc(c, s) IN
       /\ EmitCase(s, "NONE", c) /\ EmitCase(y, c, "NONE")
       /\ EmitCase(WithNL(y), c, "NONE") /\ (Alpha = "t" => EmitCase(MidNL(y), c, "NONE"))
       /\ EmitCase(y, c, NextCodec(c))
EmitBaseDec(s) == \A c \in Codecs : EmitCase(s, c, "NONE") /\ EmitCase(s, c, "B64")
EmitUtf8(s) ==
  /\ EmitCase(s, "UTF8", "UTF8") /\ EmitCase(s, "UANY", "U16LE") /\ EmitCase(s, "UTF8", "B64")
  /\ \A bo \in {"LE", "BE"} :
       LET f16 == IF bo = "LE" THEN "U16LE" ELSE "U16BE"
           g16 == IF bo = "LE" THEN "U16BE" ELSE "U16LE"
       IN /\ EmitCase(s, "UTF8", f16)
          /\ WellFormed8(s) /\ s # <<>> =>
               LET y == RefTo16(s, bo) IN
               EmitCase(y, f16, "UTF8") /\ EmitCase(y, f16, g16) /\ EmitCase(y, "UANY", "UTF8")
EmitUtf16(s) ==
  /\ EmitCase(s, "U16LE", "UTF8") /\ EmitCase(s, "U16LE", "U16BE") /\ EmitCase(s, "U16LE", "U16LE")
  /\ EmitCase(s, "U16BE", "UTF8") /\ EmitCase(s, "UANY", "UTF8") /\ EmitCase(s, "U16LE", "NONE")

EmitAll ==
  ~Emit \/ CASE Family = "base" -> EmitBase(x) [] Family = "basedec" -> EmitBaseDec(x)
             [] Family = "utf8" -> EmitUtf8(x) [] Family = "utf16" -> EmitUtf16(x) [] OTHER -> TRUE

-----------------------------------------------------------------------------
(* classification of witnesses found by the random law oracle: the cases come from a file *)
CasesFile == IF "C20_CASES" \in DOMAIN IOEnv THEN IOEnv.C20_CASES ELSE ""
Cases == IF Family = "classify" THEN ndJsonDeserialize(CasesFile) ELSE <<>>
ClassifyAll ==
  \A k \in 1..Len(Cases) :
    LET cs == Cases[k]
        MaxR == Len(cs.regions)
        ref == Xform({}, One(Flat(cs.regions)), cs.fin, cs.fout)
        ds == DefectsFor(cs.fin, cs.fout)
        dsets == {<<"none", {}>>} \cup {<<d, {d}>> : d \in ds} \cup (IF Cardinality(ds) > 1 THEN {<<"ALL", ds>>} ELSE {})
        row(r) == <<B(r.ok), IF r.ok /\ ~r.nd THEN Flat(r.regs) ELSE <<>>, B(r.oob), B(r.nd)>>
    IN /\ PrintT(ToJson(<<"V", Flat(cs.regions), cs.fin, cs.fout, B(Pinned(Flat(cs.regions), cs.fin, cs.fout)),
                         B(ref.ok), IF ref.ok THEN Flat(ref.regs) ELSE <<>>>>))
       /\ \A dd \in dsets :
            LET r == Xform(dd[2], cs.regions, cs.fin, cs.fout) IN
            PrintT(ToJson(<<"C", cs.id, dd[1], B(Same(r, ref, cs.fout))>> \o row(r)))

-----------------------------------------------------------------------------
Init == x = <<>>
Next == \E t \in Tokens : Len(x) + Len(t) <= MaxLen /\ x' = x \o t
Spec == Init /\ [][Next]_x
(* evaluated in a Next step: TLC worker threads get the enlarged stack (-Xss) that long witnesses need *)
ClassifyInit == x = <<>>
ClassifyNext == x = <<>> /\ ClassifyAll /\ x' = <<0>>
=============================================================================
