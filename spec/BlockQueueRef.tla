--------------------------- MODULE BlockQueueRef ---------------------------
(* The "+2" a submitted block object keeps on its queue through dbpd_queue (src/queue.c):
     submitter  (_dispatch_continuation_init_slow / _dispatch_sync_block_with_privdata /
                 _dispatch_async_and_wait_block_with_privdata):  take +2 on dq ; cmpxchg(dbpd_queue, NULL, dq)
                 (give the +2 back if the field was already set)
     invoker    (_dispatch_block_async_invoke2 / _dispatch_block_sync_invoke):  q = xchg(dbpd_queue, NULL) ; release_2(q)
     waiter     (dispatch_block_wait):  q = xchg(dbpd_queue, NULL) ; dx_wakeup(q, BLOCK_WAIT | CONSUME_2) = release_2(q)
   Whoever reads a non-NULL pointer out of the field owns the +2 and gives it back at once, so the +2 must exist
   before the pointer is visible.  Finding F9 (fixed): the pinned code published first and retained afterwards
   (Mut = "publish_before_retain"): a dispatch_block_wait between the two steps releases references nobody took.
   The application holds one reference (App) on the queue throughout; rc counts references in units of one. *)
EXTENDS Integers
CONSTANTS Mut
VARIABLES rc,          \* references on the queue (the application's one + pending +2s)
          field,       \* dbpd_queue: "null" or "dq"
          pcS, pcI, pcW, gotI, gotW, bad
vars == <<rc, field, pcS, pcI, pcW, gotI, gotW, bad>>
Init == rc = 1 /\ field = "null" /\ pcS = "start" /\ pcI = "wait_submit" /\ pcW = "start" /\ gotI = FALSE /\ gotW = FALSE /\ bad = FALSE

\* ---- submitter ----
SRetainFirst == /\ pcS = "start" /\ Mut # "publish_before_retain" /\ rc' = rc + 2 /\ pcS' = "publish"
                /\ UNCHANGED <<field, pcI, pcW, gotI, gotW, bad>>
SPublish == /\ pcS = "publish"
            /\ IF field = "null" THEN field' = "dq" /\ rc' = rc ELSE field' = field /\ rc' = rc - 2      \* cmpxchg failed: give it back
            /\ pcS' = "submitted" /\ pcI' = "ready"
            /\ UNCHANGED <<pcW, gotI, gotW, bad>>
\* pinned order
SPublishFirst == /\ pcS = "start" /\ Mut = "publish_before_retain"
                 /\ IF field = "null" THEN field' = "dq" /\ pcS' = "retain_late" ELSE field' = field /\ pcS' = "submitted"
                 /\ pcI' = IF field # "null" THEN "ready" ELSE pcI
                 /\ UNCHANGED <<rc, pcW, gotI, gotW, bad>>
SRetainLate == /\ pcS = "retain_late" /\ rc' = rc + 2 /\ pcS' = "submitted" /\ pcI' = "ready"
               /\ UNCHANGED <<field, pcW, gotI, gotW, bad>>
\* ---- invoker: runs the block after the submission, then clears the field ----
IXchg == /\ pcI = "ready" /\ gotI' = (field = "dq") /\ field' = "null" /\ pcI' = "release"
         /\ UNCHANGED <<rc, pcS, pcW, gotW, bad>>
IRelease == /\ pcI = "release" /\ pcI' = "done"
            /\ IF gotI THEN (IF rc < 3 THEN bad' = TRUE /\ rc' = rc ELSE bad' = bad /\ rc' = rc - 2) ELSE UNCHANGED <<rc, bad>>
            /\ UNCHANGED <<field, pcS, pcW, gotI, gotW>>
\* ---- waiter: dispatch_block_wait at any time ----
WXchg == /\ pcW = "start" /\ gotW' = (field = "dq") /\ field' = "null" /\ pcW' = "release"
         /\ UNCHANGED <<rc, pcS, pcI, gotI, bad>>
WRelease == /\ pcW = "release" /\ pcW' = "done"
            \* releasing 2 with fewer than 3 references over-releases the application's own reference
            /\ IF gotW THEN (IF rc < 3 THEN bad' = TRUE /\ rc' = rc ELSE bad' = bad /\ rc' = rc - 2) ELSE UNCHANGED <<rc, bad>>
            /\ UNCHANGED <<field, pcS, pcI, gotI, gotW>>
Next == SRetainFirst \/ SPublish \/ SPublishFirst \/ SRetainLate \/ IXchg \/ IRelease \/ WXchg \/ WRelease
Spec == Init /\ [][Next]_vars
FairSpec == Spec /\ WF_vars(Next)

NoOverRelease == ~bad
\* the pointer is only visible while its +2 exists
PublishedImpliesRetained == field = "dq" => rc >= 3
\* at rest exactly the application's reference is left: nothing leaked, nothing lost
Settled == (pcS = "submitted" /\ pcI = "done" /\ pcW = "done") => (rc = 1 /\ field = "null")
Terminates == <>(pcS = "submitted" /\ pcI = "done" /\ pcW = "done")
=============================================================================
