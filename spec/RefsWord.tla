------------------------------ MODULE RefsWord ------------------------------
(* Pure transition functions of the two reference counters of a dispatch object
   (src/object_internal.h _os_atomic_refcnt_*, src/inline_internal.h:205-383, src/object.c)
   and the reference LEDGER: which role owns how many internal references.

   Both counters are biased by -1 in C (value v = v + 1 references; -1 = none left):
     os_obj_xref_cnt   external references (dispatch_retain / dispatch_release)
     os_obj_ref_cnt    internal references (_dispatch_retain[_2] / _dispatch_release[_2][_tailcall])
   The external count as a whole owns ONE internal reference, given back by
   _dispatch_xref_dispose when the external count reaches -1; _dispatch_dispose runs when the
   internal count reaches -1.

   Refs.tla (control flow, model checked) and RefsTrace.tla (recorded executions of the real
   library) both use exactly these operators, like DQState.tla for the dq_state word. *)
EXTENDS Integers

(* ---- _os_object_retain_internal_n_inline / _dispatch_retain_n_unsafe: add n, n in {1, 2} ---- *)
\* old < 0 means the object is already being disposed: "Resurrection of an object"
RetainN(rc, n) == [ok |-> rc >= 0, rc |-> rc + n]

(* ---- _os_object_release_internal_n_inline: sub n ---- *)
ReleaseN(rc, n) ==
    [rc |-> rc - n,
     kind |-> IF rc - n >= 0 THEN "live" ELSE IF rc - n = -1 THEN "dispose" ELSE "overrelease"]
\* _os_object_release_internal_n_no_dispose_inline: reaching -1 is "Over-release of an object" too
ReleaseNoDispose(rc, n) == [rc |-> rc - n, kind |-> IF rc - n >= 0 THEN "live" ELSE "overrelease"]

(* ---- _os_object_retain / _os_object_release on the external count ---- *)
XRetain(x) == [ok |-> x >= 0, x |-> x + 1]
XRelease(x) == [x |-> x - 1,
                kind |-> IF x - 1 >= 0 THEN "live" ELSE IF x - 1 = -1 THEN "xdispose" ELSE "overrelease"]

(* ---- the ledger: internal references owned by the role bits of dq_state ----
   ENQUEUED: the +2 taken by the push / wakeup that enqueued the lane on its target, consumed by
   the drainer (_dispatch_queue_class_invoke ... _dispatch_release_2_tailcall);
   suspended (suspend count, side count, INACTIVE / NEEDS_ACTIVATION): the +2 of rdar://8181908
   taken by the first _dispatch_lane_suspend (or at creation of an inactive queue), consumed by
   the wakeup of the last _dispatch_lane_resume. *)
WSuspended(s) == s.sc > 0 \/ s.side \/ s.inact \/ s.na
RoleRefs(s) == (IF s.enq THEN 2 ELSE 0) + (IF WSuspended(s) THEN 2 ELSE 0)
\* references a thread takes over (positive) or hands over (negative) by changing the word old -> new
HandDelta(old, new) == RoleRefs(old) - RoleRefs(new)
\* the role held by the external count as a whole
XRole(x) == IF x >= 0 THEN 1 ELSE 0

(* ---- a thread's hand: what it retained or took over and has not yet released or handed over ----
   Inside the library a thread may hold references (positive) or owe the +2 it is about to take (negative:
   _dispatch_lane_non_barrier_complete_finish and _dispatch_lane_suspend retain AFTER the state change).
   At a rest point (API return, start / end of a client callout) the hand is settled: a surplus is parked with
   the work it belongs to (the +2 of a redirected item travels with the item to the worker that completes it,
   the +1 of an internal targeter such as a dispatch_after timer source stays until that object is disposed);
   a deficit is what such a worker consumed and is drawn from the parked references.  A deficit that the
   parked references cannot cover is a release of a reference nobody held. *)
Settle(hand, parked, rest) ==
    IF ~rest THEN [hand |-> hand, parked |-> parked]
    ELSE IF hand >= 0 THEN [hand |-> 0, parked |-> parked + hand]
    ELSE IF parked >= -hand THEN [hand |-> 0, parked |-> parked + hand]
    ELSE [hand |-> hand + parked, parked |-> 0]

(* ---- the dispose condition of property C17, on the abstract roles ----
   xref: external count; held: references the application still holds; busy: items submitted to the
   object that are pending or running; targeters: live objects whose target queue it is;
   idle: dq_state is the initial value modulo MAX_QOS and DIRTY; empty: no item in the list;
   inflight: references in the hand of other threads or parked with redirected work *)
DisposeOK(xref, held, busy, targeters, idle, empty, inflight) ==
    xref = -1 /\ held = 0 /\ busy = 0 /\ targeters = 0 /\ idle /\ empty /\ inflight = 0
=============================================================================
