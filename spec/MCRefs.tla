------------------------------- MODULE MCRefs -------------------------------
(* Model-checking instances of Refs.tla: client programs per configuration.  Every client starts with one
   external reference and (except where noted) drops it at the end, while work it or the other client
   submitted is still pending or running: the last release races push, wakeup, drain and resume. *)
EXTENDS Refs

A(i)  == [op |-> "async", i |-> i]
BA(i) == [op |-> "basync", i |-> i]
S(i)  == [op |-> "sync", i |-> i]
BS(i) == [op |-> "bsync", i |-> i]
SUSP == [op |-> "suspend"]
RES  == [op |-> "resume"]
ACT  == [op |-> "activate"]
RET  == [op |-> "retain"]
REL  == [op |-> "release"]
RELCH == [op |-> "relchild"]
SETCTX(v) == [op |-> "setctx", v |-> v]
RETARGET(i) == [op |-> "retarget", i |-> i]
RELTQ == [op |-> "reltq"]
NoBody(I) == [i \in I |-> "none"]

\* ---- R1: serial lane; both clients async and release; c1 changes the context before its release ----
ItemsR1 == {"a", "x"}
KindR1 == ("a" :> "ra" @@ "x" :> "ra")
BodyR1 == NoBody(ItemsR1)
ProgR1 == ("c1" :> <<A("a"), SETCTX(2), REL>> @@ "c2" :> <<A("x"), REL>>)

\* ---- R1b: the block owns the reference (rdar://6932776): c1 = async a; async b where b releases c1's reference ----
ItemsR1b == {"a", "b"}
KindR1b == ("a" :> "ra" @@ "b" :> "ra")
BodyR1b == ("a" :> "none" @@ "b" :> "release")
ProgR1b == ("c1" :> <<A("a"), A("b")>> @@ "c2" :> <<REL>>)

\* ---- R2: the last release races the wakeup of a resume ----
ItemsR2 == {"a"}
KindR2 == ("a" :> "ra")
BodyR2 == NoBody(ItemsR2)
ProgR2 == ("c1" :> <<A("a"), REL>> @@ "c2" :> <<SUSP, RES, REL>>)

\* ---- R3: sync waiter hand-off (the drainer borrows the waiter's reference) ----
ItemsR3 == {"a", "b", "x"}
KindR3 == ("a" :> "ra" @@ "b" :> "rs" @@ "x" :> "ra")
BodyR3 == NoBody(ItemsR3)
ProgR3 == ("c1" :> <<A("a"), S("b"), REL>> @@ "c2" :> <<A("x"), REL>>)

\* ---- R4: concurrent lane width 2: a redirected reader carries +2 to the worker that completes it ----
ItemsR4 == {"r1", "b1"}
KindR4 == ("r1" :> "ra" @@ "b1" :> "ba")
BodyR4 == NoBody(ItemsR4)
ProgR4 == ("c1" :> <<A("r1"), REL>> @@ "c2" :> <<BA("b1"), REL>>)
\* thorough (simulated, not exhausted): readers, a barrier and a sync reader
ItemsR4t == {"r1", "b1", "s1"}
KindR4t == ("r1" :> "ra" @@ "b1" :> "ba" @@ "s1" :> "rs")
BodyR4t == NoBody(ItemsR4t)
ProgR4t == ("c1" :> <<A("r1"), BA("b1"), REL>> @@ "c2" :> <<S("s1"), REL>>)

\* ---- R5: a child queue targets the lane: it keeps the lane alive until it is itself deallocated ----
ItemsR5 == {"a"}
KindR5 == ("a" :> "ra")
BodyR5 == NoBody(ItemsR5)
ProgR5 == ("c1" :> <<A("a"), REL>> @@ "c2" :> <<REL, RELCH>>)

\* ---- R6: initially inactive lane (+2 from creation), retain / release pairs ----
ItemsR6 == {"a"}
KindR6 == ("a" :> "ra")
BodyR6 == NoBody(ItemsR6)
ProgR6 == ("c1" :> <<A("a"), ACT, REL>> @@ "c2" :> <<RET, REL, REL>>)

\* ---- R7 (thorough): a barrier sync waiter, and a block that owns (and releases) the other client's reference ----
ItemsR7 == {"a", "b", "y"}
KindR7 == ("a" :> "ra" @@ "b" :> "bs" @@ "y" :> "ra")
BodyR7 == ("a" :> "none" @@ "b" :> "none" @@ "y" :> "release")
ProgR7 == ("c1" :> <<A("a"), BS("b"), REL>> @@ "c2" :> <<A("y")>>)

\* ---- R8: legacy retarget of the ACTIVE lane, suspended or busy or idle at the call; then the application drops the new target ----
ItemsR8 == {"a", "rt"}
KindR8 == ("a" :> "ra" @@ "rt" :> "ba")
BodyR8 == ("a" :> "none" @@ "rt" :> "retarget")
ProgR8 == ("c1" :> <<A("a"), RETARGET("rt"), RELTQ, REL>> @@ "c2" :> <<SUSP, RES, REL>>)
=============================================================================
