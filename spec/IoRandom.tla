---------------------------- MODULE IoRandom ----------------------------
(* C14 - random-access channels (dispatch_io_create(DISPATCH_IO_RANDOM, fd, ...), src/io.c).
   What the code does, and what this module transcribes:
     dispatch_io_create / create_with_io      channel->f_ptr = lseek(fd, 0, SEEK_CUR)   -> `base'
     _dispatch_operation_create               op->offset = offset + channel->f_ptr         -> Start(op)
     _dispatch_stream_pick_next_operation /   random operations of one stream / disk are performed
     _dispatch_disk_pick_next_operation       ROUND-ROBIN, one chunk each                   -> Step(i), any order
     _dispatch_operation_perform              pread / pwrite at (op->offset + op->total); a read ends
                                              when `length' is reached or pread returns 0 (EOF);
                                              a write past EOF extends the file (hole = zero bytes)
   (R) the reference meaning the property gives: a read of (offset, length) delivers exactly the bytes
       of the file in [base+offset, min(base+offset+length, EOF)), in order, each once; a write puts its
       data at base+offset; operations submitted together whose ranges do not conflict do not see each
       other, whatever the chunk interleaving.  PhaseLaw is that statement; TLC checks it on every
       interleaving of chunks (this is what makes the deterministic oracle of the replay sound).
   Phases: the client submits a batch of pairwise non-conflicting operations and waits for all of them
   (dispatch_io_barrier or handler completion) before the next batch; conflicts ACROSS phases are
   allowed and ordered (a later phase reads what an earlier one wrote, holes included).
   Cells are numbers so that TLC can print vectors: 0 = hole byte, 1000+i = i-th cell of the initial
   file, 2000 + 100*p + 10*k + j = j-th cell of write k of phase p. *)
EXTENDS Naturals, Sequences, FiniteSets, TLC

CONSTANTS MaxF,       \* initial file length 0..MaxF
          MaxB,       \* file position at channel creation 0..MaxB
          MaxOff,     \* operation offsets 0..MaxOff
          Lens,       \* finite operation lengths
          INF,        \* SIZE_MAX (reads only): a number larger than any position
          MaxOps,     \* operations per phase 1..MaxOps
          MaxPhases,
          Chunk,      \* cells per pread / pwrite
          WithStop,   \* TRUE: dispatch_io_close(DISPATCH_IO_STOP) may hit the last phase while it is in flight
          WithRebase, \* "no" | "may" | "must" (emission: every later phase uses a derived channel): between phases the client may move the file position and derive a new channel
                      \* (dispatch_io_create_with_io(DISPATCH_IO_RANDOM, old)): its offsets count from the new position
          Emit,       \* TRUE: print one vector per finished behaviour (used with -simulate)
          Mut         \* "none" | "nobase" (ignore f_ptr) | "rr_shared_total" | "stop_after_io" (spec mutants, must be refuted)

VARIABLES file, base, phase, ops, prog, got, fin, file0, hist, stopped, err
vars == <<file, base, phase, ops, prog, got, fin, file0, hist, stopped, err>>

Min(a, b) == IF a < b THEN a ELSE b
Max(a, b) == IF a > b THEN a ELSE b

Op == [k : {"r"}, off : 0..MaxOff, len : Lens \cup {INF}] \cup [k : {"w"}, off : 0..MaxOff, len : Lens]
OpSeqs == UNION {[1..n -> Op] : n \in 1..MaxOps}

Start(o) == base + o.off
IStart(o) == (IF Mut = "nobase" THEN 0 ELSE base) + o.off   \* what the implementation-shaped step uses
End(o) == IF o.len = INF THEN INF ELSE Start(o) + o.len
Overlap(a, b) == Start(a) < End(b) /\ Start(b) < End(a)
\* a write conflicts with whatever overlaps it; a write that moves EOF conflicts with every read that
\* could reach the old EOF (its result would depend on the interleaving)
Conflict(F, a, b) ==
  \/ (a.k = "w" \/ b.k = "w") /\ Overlap(a, b)
  \/ a.k = "w" /\ b.k = "r" /\ End(a) > Len(F) /\ End(b) > Len(F)
  \/ b.k = "w" /\ a.k = "r" /\ End(b) > Len(F) /\ End(a) > Len(F)
NonConflicting(F, os) == \A i, j \in DOMAIN os : i # j => ~Conflict(F, os[i], os[j])

WCell(p, k, j) == 2000 + 100 * p + 10 * k + j
WData(p, k, o) == [j \in 1..o.len |-> WCell(p, k, j)]

(* (R) reference *)
ReadResult(F, o) ==
  LET s == Start(o)  e == Min(End(o), Len(F))
  IN IF s >= e THEN <<>> ELSE SubSeq(F, s + 1, e)
ApplyWrite(F, s, d) ==
  IF d = <<>> THEN F ELSE
  [i \in 1..Max(Len(F), s + Len(d)) |->
     IF i > s /\ i <= s + Len(d) THEN d[i - s] ELSE IF i <= Len(F) THEN F[i] ELSE 0]
\* pr[i] = how much of write i reached the file (all of it unless the channel was stopped)
RECURSIVE ApplyAll(_, _, _, _, _)
ApplyAll(F, p, os, pr, i) ==
  IF i > Len(os) THEN F
  ELSE ApplyAll(IF os[i].k = "w" THEN ApplyWrite(F, Start(os[i]), SubSeq(WData(p, i, os[i]), 1, pr[i])) ELSE F, p, os, pr, i + 1)

Init ==
  /\ \E n \in 0..MaxF : file = [i \in 1..n |-> 1000 + i]
  /\ base \in 0..MaxB
  /\ phase = 0 /\ ops = <<>> /\ prog = <<>> /\ got = <<>> /\ fin = <<>> /\ file0 = <<>> /\ hist = <<>>
  /\ stopped = FALSE /\ err = <<>>

Submit(os) ==
  /\ ops = <<>> /\ phase < MaxPhases /\ NonConflicting(file, os) /\ ~stopped
  /\ (WithRebase = "must" /\ phase > 0 => base # hist[Len(hist)][6])
  /\ ops' = os /\ phase' = phase + 1 /\ file0' = file
  /\ prog' = [i \in DOMAIN os |-> 0] /\ got' = [i \in DOMAIN os |-> <<>>] /\ fin' = [i \in DOMAIN os |-> FALSE]
  /\ err' = [i \in DOMAIN os |-> 0]
  /\ UNCHANGED <<file, base, hist, stopped>>

(* lseek(fd, b) ; dispatch_io_create_with_io(DISPATCH_IO_RANDOM, channel, ...): f_ptr of the new channel is the
   position at ITS creation; the operations of later phases go to the new channel *)
Rechannel(b) ==
  /\ WithRebase # "no" /\ ops = <<>> /\ phase > 0 /\ phase < MaxPhases /\ ~stopped /\ b # base
  /\ base' = b
  /\ UNCHANGED <<file, phase, ops, prog, got, fin, file0, hist, stopped, err>>

(* dispatch_io_close(channel, DISPATCH_IO_STOP) while the batch is in flight: every operation that has not
   finished completes with ECANCELED at its next turn, keeping what it has transferred so far *)
Stop ==
  /\ WithStop /\ ops # <<>> /\ ~stopped /\ phase = MaxPhases
  /\ stopped' = TRUE
  /\ UNCHANGED <<file, base, phase, ops, prog, got, fin, file0, hist, err>>

Cancel(i) ==
  /\ ops # <<>> /\ i \in DOMAIN ops /\ ~fin[i] /\ stopped /\ Mut # "stop_after_io"
  /\ fin' = [fin EXCEPT ![i] = TRUE] /\ err' = [err EXCEPT ![i] = 1]
  /\ UNCHANGED <<file, base, phase, ops, prog, got, file0, hist, stopped>>

(* (I) one chunk of operation i: _dispatch_operation_perform *)
Step(i) ==
  /\ ops # <<>> /\ i \in DOMAIN ops /\ ~fin[i] /\ (~stopped \/ Mut = "stop_after_io")
  /\ (Mut = "stop_after_io" /\ stopped => err' = [err EXCEPT ![i] = 1])
  /\ (~(Mut = "stop_after_io" /\ stopped) => err' = err)
  /\ LET o == ops[i]
         \* mutant: the running total of the round-robin neighbour is used for the position
         tot == IF Mut = "rr_shared_total" /\ Len(ops) > 1 THEN prog[(i % Len(ops)) + 1] ELSE prog[i]
         pos == IStart(o) + tot
         want == IF o.len = INF THEN Chunk ELSE Min(Chunk, o.len - prog[i])
     IN IF o.k = "r"
        THEN LET n == IF pos >= Len(file) THEN 0 ELSE Min(want, Len(file) - pos)
             IN /\ got' = [got EXCEPT ![i] = @ \o (IF n = 0 THEN <<>> ELSE SubSeq(file, pos + 1, pos + n))]
                /\ prog' = [prog EXCEPT ![i] = @ + n]
                /\ fin' = [fin EXCEPT ![i] = (n = 0) \/ (o.len # INF /\ prog[i] + n >= o.len)]
                /\ file' = file
        ELSE LET d == WData(phase, i, o)
             IN /\ file' = ApplyWrite(file, pos, SubSeq(d, prog[i] + 1, prog[i] + want))
                /\ prog' = [prog EXCEPT ![i] = @ + want]
                /\ fin' = [fin EXCEPT ![i] = prog[i] + want >= o.len]
                /\ got' = got
  /\ UNCHANGED <<base, phase, ops, file0, hist, stopped>>

AllDone == ops # <<>> /\ \A i \in DOMAIN ops : fin[i]

EndPhase ==
  /\ AllDone
  /\ hist' = Append(hist, <<[i \in DOMAIN ops |-> <<IF ops[i].k = "r" THEN 0 ELSE 1, ops[i].off, ops[i].len>>], [i \in DOMAIN ops |-> ReadResult(file0, ops[i])], file0, file, IF stopped THEN 1 ELSE 0, base>>)
  /\ ops' = <<>> /\ prog' = <<>> /\ got' = <<>> /\ fin' = <<>> /\ err' = <<>>
  /\ UNCHANGED <<file, base, phase, file0, stopped>>

Finished == phase = MaxPhases /\ ops = <<>>
EmitVec ==
  /\ Finished /\ Emit /\ phase' = phase + 1
  /\ PrintT(ToString(<<7777, Len(hist[1][3]), base, hist>>))
  /\ UNCHANGED <<file, base, ops, prog, got, fin, file0, hist, stopped, err>>

Next ==
  \/ \E os \in OpSeqs : Submit(os)
  \/ \E i \in 1..MaxOps : Step(i) \/ Cancel(i)
  \/ Stop
  \/ \E b \in 0..MaxB : Rechannel(b)
  \/ EndPhase
  \/ EmitVec

Spec == Init /\ [][Next]_vars

(* the property on random channels *)
PhaseLaw ==
  AllDone =>
    /\ \A i \in DOMAIN ops : ops[i].k = "r" /\ err[i] = 0 => got[i] = ReadResult(file0, ops[i])
    /\ \A i \in DOMAIN ops : ops[i].k = "w" /\ err[i] = 0 => prog[i] = ops[i].len
    /\ \A i \in DOMAIN ops : err[i] # 0 => stopped
    \* the file holds exactly what the operations report as transferred (the unwritten remainder a write's handler
    \* receives with ECANCELED is its data minus prog[i])
    /\ file = ApplyAll(file0, phase, ops, prog, 1)
\* nothing moves once the stop has been noticed: an operation cancelled by it transfers no further chunk
StopIsFinal == [][\A i \in DOMAIN ops : (stopped /\ ops' = ops /\ i \in DOMAIN prog') => prog'[i] = prog[i]]_vars
\* delivered at most `length', only bytes that exist, in order (prefix at every moment)
ReadPrefix ==
  \A i \in DOMAIN ops : ops[i].k = "r" =>
     LET r == ReadResult(file0, ops[i]) IN Len(got[i]) <= Len(r) /\ got[i] = SubSeq(r, 1, Len(got[i]))
\* bytes no write touched keep their value; the file never shrinks
Untouched ==
  ops # <<>> => /\ Len(file) >= Len(file0)
                /\ \A p \in 1..Len(file0) :
                     (\A i \in DOMAIN ops : ~(ops[i].k = "w" /\ Start(ops[i]) < p /\ p <= End(ops[i]))) => file[p] = file0[p]
=============================================================================
