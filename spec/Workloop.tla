------------------------------ MODULE Workloop ------------------------------
(* A TARGET-QUEUE HIERARCHY WHOSE BOTTOM IS A DISPATCH WORKLOOP (property C03: "a serial queue OR A WORKLOOP").
   Chain.tla with the bottom lane replaced by the workloop WL of src/queue.c ("#pragma mark dispatch_workloop_t").

   On the pinned Linux build DISPATCH_USE_KEVENT_WORKLOOP = 0: _dispatch_workloop_role_bits() = ROLE_BASE_ANON, the
   workloop's do_targetq is the default overcommit root queue, it is pushed on that root queue like any base lane
   (_dispatch_queue_push_queue -> dx_push(root, dwl)) and drained by an ordinary root worker whose wlh is
   DISPATCH_WLH_ANON (so _dispatch_wlh_to_workloop(_dispatch_get_wlh()) = NULL: the `max_qos > dwl_drained_qos` yield test
   of _dispatch_lane_drain under DISPATCH_INVOKE_WORKLOOP_DRAIN is a no-op, as is _dispatch_workloop_should_yield_4NW).
   HAVE_PTHREAD_WORKQUEUE_QOS = 0: every API-level push carries qos 0 (_dispatch_continuation_priority_set returns
   UNSPECIFIED, _dispatch_get_priority() = 0); a non-zero push qos only comes from the max_qos bits of a queue object
   being pushed (_dispatch_queue_push_queue passes _dq_state_max_qos(new_state)), i.e. from the priority of a leaf
   created with dispatch_queue_attr_make_with_qos_class: QosOf[q].

   The workloop keeps one MPSC list per QoS bucket: dwl_heads[] / dwl_tails[], index DISPATCH_QOS_BUCKET(qos) = qos - 1.
   _dispatch_workloop_push: qos = MAX(qos, _dispatch_priority_qos(dwl->dq_priority) = 0); qos 0 becomes
   _dispatch_priority_fallback_qos(dq_priority) = DISPATCH_QOS_DEFAULT (4): an item pushed with qos 0 lands in bucket
   index 3.  Buckets (a set of qos numbers containing DEFQ) are the buckets a configuration can reach; the others are
   always empty (their reads always yield NULL and are folded).

   ONE ACTION PER SHARED-MEMORY ACCESS, frames as in Chain.tla.  Lane code is Chain.tla's text (same actions, same
   DQState operators, instantiated per lane with QW <- QosOf[q]); it is kept because the property is about queues
   TARGETING the workloop: the way a lane is pushed on / drained inside / sync-acquired through the workloop is the
   mechanism.  dispatch_set_target_queue / dispatch_activate of lanes are not repeated here (Chain.tla C5).

   Transcribed for the workloop (C function -> actions; new dq_state operators are defined below, the others are
   DQState's because the C code calls the same inline function):
     _dispatch_workloop_push            WlTail WlPrev                 (tail exchange, retain_2, publish, wakeup(MAKE_DIRTY))
     _dispatch_workloop_wakeup          WlWkRmw (+ WkRelease)         operator WlWakeup
     _dispatch_workloop_push_waiter     WlwTail WlwPrev WlwRmw        operator WlPushWaiter
     _dispatch_workloop_barrier_complete  WlBcScan WlBcHead WlBcRmw   operator WlBarrierComplete
     _dispatch_workloop_drain_barrier_waiter  WlPop1-3 WlDbwRmw BwRedir   DQState!DrainBarrierWaiter (same non-wlh branch)
         (_dispatch_workloop_probe is only evaluated for its value under ROLE_BASE_WLH: its loads are folded)
     _dispatch_workloop_invoke -> _dispatch_queue_class_invoke   TryLock (DQState!DrainTryLock), Unlock (DQState!DrainTryUnlock
         with owned = (owned & ENQUEUED) + IN_BARRIER + WIDTH_INTERVAL), _dispatch_queue_invoke_finish with a barrier waiter
     _dispatch_workloop_invoke2         WlIScan WlILower WlIHead WlIItem WlPop1-3 WlINext ; dwl_drained_qos is only read and
         written by the thread holding the drain lock on this build: its stores are folded into WlILower / WlIItem
     _dispatch_workloop_try_lower_max_qos   WlILower                  operator WlTryLower
     _dispatch_workloop_activate        WlaAnd WlaNa then _dispatch_workloop_wakeup(0, CONSUME_2)
     _dispatch_sync_recurse / _dispatch_async_and_wait_recurse_one on the workloop: BsFast / AwFast
         (DQState!TryAcquireBarrierSync; the dq_items_tail slot tested by _dispatch_queue_try_acquire_barrier_sync is
          dwl_timer_heap in a workloop, never allocated on this build: always NULL)
     _dispatch_sync_complete_recurse -> dx_wakeup(dwl, 0, BARRIER_COMPLETE)   CrLevel -> WlBcScan
     a lane targeting the workloop: pushed by _dispatch_queue_push_queue(dwl, dq) (WkRmw / FinRmw / NbcFin / BcRmwTq ->
         WlTail), drained by _dispatch_continuation_pop_inline(dq, ..., dwl) -> _dispatch_lane_invoke with the workloop as
         current queue (CallQueue), flags without REDIRECTING_DRAIN (concurrent leaves run their readers inline)

   What the API permits (private/workloop_private.h): a workloop can be passed to every queue API except the
   dispatch_sync family (dispatch_sync on a workloop: DISPATCH_CLIENT_CRASH "Queue type doesn't support dispatch_sync");
   dispatch_async_and_wait must be used instead; dispatch_sync on queues TARGETING a workloop is permitted; submitting to
   an inactive workloop is undefined (DISPATCH_CLIENT_CRASH "Waking up an inactive workloop").  Clients here:
   dispatch_async / barrier_async / sync / barrier_sync on lanes above the workloop, dispatch_async and
   dispatch_async_and_wait directly on the workloop, dispatch_activate of a workloop created inactive (submissions only
   start once some dispatch_activate call has returned).

   NOT modelled: dispatch_async_and_wait on the lanes above the workloop (real library only, harness/drv_chain.c),
   suspension, QoS classes on queues that do not directly target the workloop, kevent workloops (not built here). *)
EXTENDS Integers, Sequences, FiniteSets, TLC

CONSTANTS Queues,        \* the queues of the hierarchy, WL included
          WL,            \* the workloop
          Target,        \* Target[q] \in Queues \cup {ROOT}; Target[WL] = ROOT and nothing else targets a root queue
          Width,         \* dq_width (1 = serial); Width[WL] = 1
          QosOf,         \* QosOf[q]: _dispatch_priority_qos(dq_priority) of lane q (0: default attributes)
          Buckets,       \* qos numbers of the reachable buckets
          DEFQ,           \* DISPATCH_QOS_DEFAULT
          WlInactive,    \* TRUE: dispatch_workloop_create_inactive
          Clients, Workers, Items,
          Kind,          \* "ra" async, "ba" barrier_async, "rs" sync, "bs" barrier_sync, "aw" async_and_wait (workloop only)
          On, Prog, SCMAX, SCHALF,
          Mut

ROOT == "root"
Lanes == Queues \ {WL}
ASSUME /\ WL \in Queues /\ Target[WL] = ROOT /\ Width[WL] = 1 /\ DEFQ \in Buckets
       /\ \A q \in Lanes : Target[q] \in Queues
       /\ \A q \in Lanes : QosOf[q] > 0 => (Target[q] = WL /\ Width[q] = 1 /\ QosOf[q] \in Buckets)
       /\ \A i \in Items : Kind[i] = "aw" => On[i] = WL
       /\ \A i \in Items : On[i] = WL => Kind[i] \in {"ra", "aw"}

DQ(q) == INSTANCE DQState WITH W <- Width[q], BASE <- (q = WL), QW <- QosOf[q]
DW == INSTANCE WorkloopState WITH W <- 1, BASE <- TRUE, QW <- 0   \* the workloop's word: DQState + the workloop's own RMW loops
NULL == DW!NULL
Idle0 == DW!Idle0
Owned0 == DW!Owned0
Suspended(s) == DW!Suspended(s)

\* the workloop-specific RMW loops (WlWakeup, WlPushWaiter, WlBarrierComplete, WlTryLower) are defined in WorkloopState.tla
Threads == Clients \cup Workers
Objs == Items \cup Queues

VARIABLES st,               \* st[q]: dq_state
          head, tail, nxt,  \* dq_items_head / dq_items_tail of the lanes ; do_next of every object
          wh, wt,           \* dwl_heads[b] / dwl_tails[b]
          drained,          \* dwl_drained_qos
          root,             \* the root queue the workloop is pushed on
          pc, fr, ip, ev, bar, wrap, running, runCount, done, ref, pred,
          activated,        \* ghost: some dispatch_activate(workloop) call has returned (or it was created active)
          afn               \* per async_and_wait item: dsc_func == NULL (the drainer ran it)
vars == <<st, head, tail, nxt, wh, wt, drained, root, pc, fr, ip, ev, bar, wrap, running, runCount, done, ref, pred, activated, afn>>

\* _dispatch_object_is_waiter: SYNC_WAITER | ASYNC_AND_WAIT ; _dispatch_object_is_sync_waiter: SYNC_WAITER only
IsWaiter(o) == o \in Items /\ Kind[o] \in {"rs", "bs", "aw"}
IsSyncWaiter(o) == o \in Items /\ Kind[o] \in {"rs", "bs"}
BarFlag(o) == o \in Items /\ wrap[o] = NULL /\ bar[o]
IsBarrierOn(o, q) == Width[q] = 1 \/ BarFlag(o)
Inner(q) == q # WL
TopBar(i) == Width[On[i]] = 1 \/ Kind[i] \in {"ba", "bs"}
BucketOf(q) == IF q = 0 THEN DEFQ ELSE q
TopB == CHOOSE b \in Buckets : \A c \in Buckets : c <= b
Lower(b) == IF \E c \in Buckets : c < b THEN CHOOSE c \in Buckets : c < b /\ \A d \in Buckets : d < b => d <= c ELSE 0

F0 == [q |-> NULL, cq |-> NULL, redir |-> FALSE, dc |-> NULL, n |-> NULL, prev |-> NULL, item |-> NULL, owned |-> Owned0,
       cons2 |-> FALSE, mkdirty |-> FALSE, mode |-> "none", ow |-> 0, ret |-> "none", old |-> Idle0, new |-> Idle0,
       fl2 |-> FALSE, qos |-> 0, act |-> FALSE, lvl |-> NULL, cbar |-> FALSE, fast |-> FALSE, fo |-> Owned0, ftq |-> NULL,
       odq |-> NULL, b |-> 0, pq |-> 0, tf |-> FALSE]

Init == /\ st = [q \in Queues |-> IF q = WL /\ WlInactive THEN DW!InactiveInit ELSE Idle0]
        /\ head = [q \in Lanes |-> NULL] /\ tail = [q \in Lanes |-> NULL] /\ nxt = [o \in Objs |-> NULL]
        /\ wh = [b \in Buckets |-> NULL] /\ wt = [b \in Buckets |-> NULL] /\ drained = 0
        /\ root = <<>> /\ pc = [t \in Threads |-> "idle"] /\ fr = [t \in Threads |-> <<F0>>]
        /\ ip = [c \in Clients |-> 1] /\ ev = [i \in Items |-> 0]
        /\ bar = [i \in Items |-> TopBar(i)] /\ wrap = [o \in Objs |-> NULL]
        /\ running = {} /\ runCount = [i \in Items |-> 0] /\ done = {}
        /\ ref = [q \in Queues |-> IF q = WL /\ WlInactive THEN 2 ELSE 0]
        /\ pred = [i \in Items |-> {}]
        /\ activated = ~WlInactive /\ afn = [i \in Items |-> FALSE]

(* ------------------------------ frames and calls ------------------------------ *)
T(t) == fr[t][Len(fr[t])]
Below(t) == SubSeq(fr[t], 1, Len(fr[t]) - 1)
Go(t, l) == pc' = [pc EXCEPT ![t] = l]
SetF(t, f) == fr' = [fr EXCEPT ![t] = Append(Below(t), f)]
SetL(t, fld, v) == fr' = [fr EXCEPT ![t][Len(fr[t])][fld] = v]
Call(t, cf, nf, entry) == fr' = [fr EXCEPT ![t] = Append(Append(Below(t), cf), nf)] /\ Go(t, entry)
Ret(t) == fr' = [fr EXCEPT ![t] = Below(t)] /\ Go(t, T(t).ret)
Self(t) == t
\* dq_push vtable slot: _dispatch_workloop_push (-> _dispatch_workloop_push_waiter for waiters) / _dispatch_lane_push /
\* _dispatch_lane_concurrent_push
PushEntry(tq, o) == IF tq = WL THEN (IF IsWaiter(o) THEN "wlw_tail" ELSE "wl_tail")
                    ELSE IF Width[tq] > 1 THEN "cpush_tail" ELSE "push_tail"
PushFrame(f, tq, o, qos) == [f EXCEPT !.q = tq, !.item = o, !.pq = qos, !.b = BucketOf(qos)]
\* dx_push(tq, o, qos) as the LAST thing the running frame does
TailPush(t, f, tq, o, qos) ==
    IF tq = ROOT THEN /\ root' = Append(root, o) /\ fr' = [fr EXCEPT ![t] = Below(t)] /\ Go(t, f.ret)
    ELSE /\ root' = root /\ SetF(t, PushFrame(f, tq, o, qos)) /\ Go(t, PushEntry(tq, o))
\* dx_push(tq, o, qos) as a non-tail call; the caller (frame cf) continues at `cont`
CallPush(t, cf, tq, o, qos, cont) ==
    /\ root' = root /\ Call(t, cf, PushFrame([F0 EXCEPT !.ret = cont], tq, o, qos), PushEntry(tq, o))

Returned == UNION {{Prog[c][k].i : k \in {j \in 1..(ip[c] - 1) : "i" \in DOMAIN Prog[c][j]}} : c \in Clients}
ClientOf(i) == CHOOSE c \in Clients : \E k \in 1..Len(Prog[c]) : "i" \in DOMAIN Prog[c][k] /\ Prog[c][k].i = i
QV == <<head, tail, nxt, wh, wt>>
LV == <<head, tail>>
BV == <<wh, wt>>
RUN == <<running, runCount, done>>
FL == <<bar, wrap>>
G == <<drained, activated, afn>>
\* frame of an invocation of _dispatch_workloop_barrier_complete(dwl, qos, flags)
WlBcFrame(f, qos, fl2) == [f EXCEPT !.q = WL, !.qos = qos, !.fl2 = fl2, !.b = TopB, !.tf = FALSE]

(* ======================= client API entry / exit ======================= *)
Start(c) ==
    /\ pc[c] = "idle" /\ ip[c] <= Len(Prog[c])
    /\ LET o == Prog[c][ip[c]] IN
       CASE o.op = "async" ->
              /\ activated
              /\ Call(c, T(c), PushFrame([F0 EXCEPT !.ret = "ret"], On[o.i], o.i, 0), PushEntry(On[o.i], o.i))
              /\ pred' = [pred EXCEPT ![o.i] = Returned]
         [] o.op = "sync" ->
              /\ activated /\ On[o.i] # WL
              /\ Call(c, T(c), [F0 EXCEPT !.q = On[o.i], !.lvl = On[o.i], !.item = o.i, !.ret = "ret"],
                      IF TopBar(o.i) THEN "bs_tail" ELSE "rs_tail")
              /\ pred' = [pred EXCEPT ![o.i] = Returned]
         [] o.op = "aaw" ->       \* dispatch_async_and_wait_f(workloop): dc_flags = ASYNC_AND_WAIT | BARRIER (dq_width == 1)
              /\ activated /\ On[o.i] = WL
              /\ Call(c, T(c), [F0 EXCEPT !.q = WL, !.lvl = WL, !.item = o.i, !.ret = "ret"], "aw_fast")
              /\ pred' = [pred EXCEPT ![o.i] = Returned]
         [] o.op = "wlact" ->     \* dispatch_activate(workloop) -> _dispatch_workloop_activate
              /\ Call(c, T(c), [F0 EXCEPT !.q = WL, !.ret = "ret"], "wla_and")
              /\ pred' = pred
    /\ UNCHANGED <<st, QV, root, ip, ev, FL, RUN, ref, G>>
\* "ret_act": return of the dispatch_activate call that cleared INACTIVE (the workloop is usable from then on).  A racing
\* second dispatch_activate returns as soon as it sees INACTIVE clear, possibly BEFORE the first one cleared NEEDS_ACTIVATION:
\* submitting after that early return crashes in _dispatch_workloop_wakeup (observation Mut = "obs_any_activate_returns",
\* outside C03: not judged)
Return(c) == /\ pc[c] \in {"ret", "ret_act"} /\ Go(c, "idle") /\ ip' = [ip EXCEPT ![c] = @ + 1]
             /\ activated' = (activated \/ pc[c] = "ret_act" \/ (Mut = "obs_any_activate_returns" /\ Prog[c][ip[c]].op = "wlact"))
             /\ UNCHANGED <<st, QV, root, fr, ev, FL, RUN, ref, pred, drained, afn>>

(* ============ _dispatch_lane_concurrent_push: fast path for non-barrier non-waiters ============ *)
CPushTail(t) ==
    /\ pc[t] = "cpush_tail"
    /\ LET f == T(t) IN Go(t, IF tail[f.q] = NULL /\ ~IsWaiter(f.item) /\ ~BarFlag(f.item) THEN "cpush_acq" ELSE "push_tail")
    /\ UNCHANGED <<st, QV, root, fr, ip, ev, FL, RUN, ref, pred, G>>
\* _dispatch_continuation_redirect_push(dl, dou, qos): wrap unless already a redirection (retain_2(dl));
\* if (!qos) qos = _dispatch_priority_qos(tq->dq_priority); dx_push(tq, dou, qos)
RedirQos(q, qos) == IF qos # 0 THEN qos ELSE IF Target[q] = WL THEN 0 ELSE QosOf[Target[q]]
CPushAcq(t) ==
    /\ pc[t] = "cpush_acq"
    /\ LET f == T(t)  q == f.q  o == f.item  r == DQ(q)!TryAcquireAsync(st[q]) IN
       IF r.ok THEN /\ st' = [st EXCEPT ![q] = r.s]
                    /\ wrap' = [wrap EXCEPT ![o] = IF @ = NULL THEN q ELSE @]
                    /\ ref' = [ref EXCEPT ![q] = IF wrap[o] = NULL THEN @ + 2 ELSE @]
                    /\ TailPush(t, f, Target[q], o, RedirQos(q, f.pq))
               ELSE /\ Go(t, "push_tail") /\ UNCHANGED <<st, wrap, ref, root, fr>>
    /\ UNCHANGED <<QV, ip, ev, bar, RUN, pred, G>>

(* ============================ _dispatch_lane_push ============================ *)
PushTail(t) ==
    /\ pc[t] = "push_tail"
    /\ LET f == T(t)  q == f.q  i == f.item  w == IsWaiter(i) IN
       /\ tail' = [tail EXCEPT ![q] = i] /\ nxt' = [nxt EXCEPT ![i] = NULL]
       /\ SetF(t, [f EXCEPT !.prev = tail[q], !.cons2 = (tail[q] = NULL /\ ~w), !.mkdirty = (tail[q] = NULL /\ ~w)])
       /\ ref' = [ref EXCEPT ![q] = IF tail[q] = NULL /\ ~w THEN @ + 2 ELSE @]
       /\ Go(t, IF tail[q] # NULL /\ ~w THEN "push_ovr" ELSE "push_prev")
    /\ UNCHANGED <<st, head, BV, root, ip, ev, FL, RUN, pred, G>>
\* _dispatch_queue_need_override(dq, qos): max_qos == 0 || max_qos < qos, qos = _dispatch_queue_push_qos(dq, 0) = 0:
\* every push on a lane carries qos 0 here (only leaves directly above the workloop have a priority)
PushOvr(t) ==
    /\ pc[t] = "push_ovr"
    /\ LET q == T(t).q IN
       IF st[q].qos = 0 THEN SetL(t, "cons2", TRUE) /\ ref' = [ref EXCEPT ![q] = @ + 2] ELSE fr' = fr /\ ref' = ref
    /\ Go(t, "push_prev")
    /\ UNCHANGED <<st, QV, root, ip, ev, FL, RUN, pred, G>>
PushPrev(t) ==
    /\ pc[t] = "push_prev"
    /\ LET f == T(t)  q == f.q  i == f.item  p == f.prev IN
       /\ IF p = NULL THEN head' = [head EXCEPT ![q] = i] /\ nxt' = nxt ELSE nxt' = [nxt EXCEPT ![p] = i] /\ head' = head
       /\ IF ~IsWaiter(i) THEN (IF f.cons2 THEN Go(t, "wk_probe") /\ fr' = fr ELSE Ret(t))
          ELSE IF p # NULL THEN Ret(t) ELSE Go(t, "pw_rmw") /\ fr' = fr
    /\ UNCHANGED <<st, tail, BV, root, ip, ev, FL, RUN, ref, pred, G>>

(* ================= _dispatch_lane_wakeup / _dispatch_queue_wakeup ================= *)
WkProbe(t) == /\ pc[t] = "wk_probe" /\ Go(t, IF tail[T(t).q] # NULL THEN "wk_rmw" ELSE "wk_release")
              /\ UNCHANGED <<st, QV, root, fr, ip, ev, FL, RUN, ref, pred, G>>
\* the rmw; when it set ENQUEUED: _dispatch_queue_push_queue(tq, dq, new_state) -> dx_push(tq, dq, _dq_state_max_qos(new_state))
WkRmw(t) ==
    /\ pc[t] = "wk_rmw"
    /\ LET f == T(t)  q == f.q  r == DQ(q)!Wakeup(st[q], f.mkdirty) IN
       /\ st' = [st EXCEPT ![q] = IF r.changed THEN r.s ELSE @]
       /\ IF r.changed /\ r.push THEN TailPush(t, f, Target[q], q, r.s.qos)
          ELSE Go(t, "wk_release") /\ UNCHANGED <<root, fr>>
    /\ UNCHANGED <<QV, ip, ev, FL, RUN, ref, pred, G>>
WkRelease(t) == /\ pc[t] = "wk_release" /\ ref' = [ref EXCEPT ![T(t).q] = @ - 2] /\ Ret(t)
                /\ UNCHANGED <<st, QV, root, ip, ev, FL, RUN, pred, G>>

(* ============================ _dispatch_workloop_push ============================ *)
\* frame: q = WL, item, b = bucket (qos after the priority floor / fallback), pq
\* prev = os_mpsc_push_update_tail(dwl_tails[b], dou) ; if (was empty) _dispatch_retain_2_unsafe(dwl)
WlTail(t) ==
    /\ pc[t] = "wl_tail"
    /\ LET f == T(t)  b == f.b  o == f.item IN
       /\ wt' = [wt EXCEPT ![b] = o] /\ nxt' = [nxt EXCEPT ![o] = NULL]
       /\ SetF(t, [f EXCEPT !.prev = wt[b]])
       /\ ref' = [ref EXCEPT ![WL] = IF wt[b] = NULL THEN @ + 2 ELSE @]
    /\ Go(t, "wl_prev")
    /\ UNCHANGED <<st, LV, wh, root, ip, ev, FL, RUN, pred, G>>
\* os_mpsc_push_update_prev ; if (was empty) return _dispatch_workloop_wakeup(dwl, qos, CONSUME_2 | MAKE_DIRTY)
WlPrev(t) ==
    /\ pc[t] = "wl_prev"
    /\ LET f == T(t)  b == f.b  o == f.item  p == f.prev IN
       /\ IF p = NULL THEN wh' = [wh EXCEPT ![b] = o] /\ nxt' = nxt ELSE nxt' = [nxt EXCEPT ![p] = o] /\ wh' = wh
       /\ IF p = NULL THEN SetF(t, [f EXCEPT !.qos = b, !.mkdirty = (Mut # "wakeup_no_dirty"), !.fl2 = TRUE]) /\ Go(t, "wlwk_rmw")
          ELSE Ret(t)
    /\ UNCHANGED <<st, LV, wt, root, ip, ev, FL, RUN, ref, pred, G>>
(* ============================ _dispatch_workloop_wakeup ============================ *)
\* frame: q = WL, qos, mkdirty (fl2 = CONSUME_2 always).  Suspended old state: DISPATCH_CLIENT_CRASH "Waking up an inactive workloop"
WlWkRmw(t) ==
    /\ pc[t] = "wlwk_rmw"
    /\ LET f == T(t)  r == DW!WlWakeup(st[WL], f.qos, f.mkdirty) IN
       IF ~r.changed THEN st' = st /\ Go(t, "wk_release") /\ UNCHANGED <<root, fr>>
       ELSE /\ st' = [st EXCEPT ![WL] = r.s]
            /\ IF Suspended(st[WL]) THEN Go(t, "crash") /\ UNCHANGED <<root, fr>>
               ELSE IF r.push THEN TailPush(t, f, ROOT, WL, r.s.qos)
               ELSE Go(t, "wk_release") /\ UNCHANGED <<root, fr>>
    /\ UNCHANGED <<QV, ip, ev, FL, RUN, ref, pred, G>>
(* ========================= _dispatch_workloop_push_waiter ========================= *)
\* qos = MAX(qos, qos of dsc->dc_priority = 0), 0 -> DEFAULT: bucket f.b
WlwTail(t) ==
    /\ pc[t] = "wlw_tail"
    /\ LET f == T(t)  b == f.b  o == f.item IN
       /\ wt' = [wt EXCEPT ![b] = o] /\ nxt' = [nxt EXCEPT ![o] = NULL] /\ SetF(t, [f EXCEPT !.prev = wt[b]])
    /\ Go(t, "wlw_prev")
    /\ UNCHANGED <<st, LV, wh, root, ip, ev, FL, RUN, ref, pred, G>>
WlwPrev(t) ==
    /\ pc[t] = "wlw_prev"
    /\ LET f == T(t)  b == f.b  o == f.item  p == f.prev IN
       /\ IF p = NULL THEN wh' = [wh EXCEPT ![b] = o] /\ nxt' = nxt ELSE nxt' = [nxt EXCEPT ![p] = o] /\ wh' = wh
       /\ IF p # NULL THEN Ret(t) ELSE Go(t, "wlw_rmw") /\ fr' = fr
    /\ UNCHANGED <<st, LV, wt, root, ip, ev, FL, RUN, ref, pred, G>>
\* if ((old ^ new) & IN_BARRIER) return _dispatch_workloop_barrier_complete(dwl, qos, 0)
WlwRmw(t) ==
    /\ pc[t] = "wlw_rmw"
    /\ LET f == T(t)  r == DW!WlPushWaiter(st[WL], Self(t), f.b, Mut = "waiter_ignores_lock") IN
       /\ st' = [st EXCEPT ![WL] = r.s]
       /\ IF r.took THEN SetF(t, WlBcFrame(f, f.b, FALSE)) /\ Go(t, "wlbc_scan") ELSE Ret(t)
    /\ UNCHANGED <<QV, root, ip, ev, FL, RUN, ref, pred, G>>

(* ===================== worker: root queue pop ===================== *)
\* only the workloop is ever pushed on the root queue; _dispatch_workloop_invoke: flags &= ~REDIRECTING_DRAIN,
\* flags |= WORKLOOP_DRAIN ; _dispatch_queue_class_invoke(dwl, ..., _dispatch_workloop_invoke2)
RootPop(w) ==
    /\ pc[w] = "idle" /\ w \in Workers /\ Len(root) > 0
    /\ \E k \in 1..Len(root) :
         /\ root' = [j \in 1..(Len(root) - 1) |-> IF j < k THEN root[j] ELSE root[j + 1]]
         /\ Call(w, T(w), [F0 EXCEPT !.q = root[k], !.cq = ROOT, !.redir = FALSE, !.ret = "idle"], "try_lock")
    /\ UNCHANGED <<st, QV, ip, ev, FL, RUN, ref, pred, G>>

(* ============================ running a client item ============================ *)
CallStart(t, here, cont, it) ==
    /\ pc[t] = here /\ it \in Items
    /\ running' = running \cup {it} /\ runCount' = [runCount EXCEPT ![it] = @ + 1] /\ done' = done
    /\ Go(t, cont)
    /\ UNCHANGED <<st, QV, root, fr, ip, ev, FL, ref, pred, G>>
CallEnd(t, here, cont, it) ==
    /\ pc[t] = here /\ running' = running \ {it} /\ done' = done \cup {it} /\ runCount' = runCount /\ Go(t, cont)
    /\ UNCHANGED <<st, QV, root, fr, ip, ev, FL, ref, pred, G>>

(* ================= _dispatch_lane_non_barrier_complete (+ _finish) ================= *)
NbcRmw(t) ==
    /\ pc[t] = "nbc_rmw"
    /\ LET f == T(t)  q == f.q  n == DQ(q)!NonBarrierComplete(st[q], Self(t)) IN
       /\ st' = [st EXCEPT ![q] = n] /\ SetF(t, [f EXCEPT !.old = st[q], !.new = n]) /\ Go(t, "nbc_fin")
    /\ UNCHANGED <<QV, root, ip, ev, FL, RUN, ref, pred, G>>
NbcFin(t) ==
    /\ pc[t] = "nbc_fin"
    /\ LET f == T(t)  q == f.q  o == f.old  n == f.new IN
       IF o.ib # n.ib THEN /\ Go(t, "bc_tail") /\ root' = root /\ ref' = ref /\ SetL(t, "qos", 0)
       ELSE IF o.enq # n.enq THEN /\ ref' = [ref EXCEPT ![q] = IF f.fl2 THEN @ ELSE @ + 2]
                                  /\ TailPush(t, f, Target[q], q, n.qos)      \* dx_push(do_targetq, dq, max_qos(new_state))
       ELSE /\ root' = root /\ ref' = [ref EXCEPT ![q] = IF f.fl2 THEN @ - 2 ELSE @] /\ Ret(t)
    /\ UNCHANGED <<st, QV, ip, ev, FL, RUN, pred, G>>

(* ============ _dispatch_queue_class_invoke / _dispatch_lane_invoke2 / _dispatch_lane_drain ============ *)
\* frame: q = the queue invoked, cq = _dispatch_queue_get_current() of the invoker.
\* _dispatch_queue_drain_try_lock; a lane: _dispatch_lane_invoke2 (cq != otq: re-enqueue on otq), serial drain clears
\* REDIRECTING_DRAIN; the workloop: _dispatch_workloop_invoke2, scan from the highest bucket
TryLock(w) ==
    /\ pc[w] = "try_lock"
    /\ LET f == T(w)  q == f.q  r == DQ(q)!DrainTryLock(st[q], Self(w))  W == Width[q] IN
       /\ st' = [st EXCEPT ![q] = r.s]
       /\ IF ~r.ok THEN fr' = fr /\ Go(w, "w_release")
          ELSE IF q = WL
          THEN SetF(w, [f EXCEPT !.owned = r.owned, !.mode = "IB", !.ow = 0, !.b = TopB, !.dc = NULL]) /\ Go(w, "wli_scan")
          ELSE IF f.cq # Target[q]
          THEN SetF(w, [f EXCEPT !.owned = r.owned, !.fo = r.owned, !.ftq = Target[q]]) /\ Go(w, "fin_rmw")
          ELSE /\ SetF(w, [f EXCEPT !.owned = r.owned, !.mode = IF (W = 1 \/ r.owned.ib) THEN "IB" ELSE "W",
                                    !.ow = IF (W = 1 \/ r.owned.ib) THEN 0 ELSE r.owned.w,
                                    !.redir = (f.redir /\ W > 1)])
               /\ Go(w, "dr_tail0")
    /\ UNCHANGED <<QV, root, ip, ev, FL, RUN, ref, pred, G>>
WRelease(w) == /\ pc[w] = "w_release" /\ ref' = [ref EXCEPT ![T(w).q] = @ - 2] /\ Ret(w)
               /\ UNCHANGED <<st, QV, root, ip, ev, FL, RUN, pred, G>>
DrTail0(w) == /\ pc[w] = "dr_tail0"
              /\ IF tail[T(w).q] = NULL THEN SetL(w, "dc", NULL) /\ Go(w, "unlock") ELSE fr' = fr /\ Go(w, "dr_head")
              /\ UNCHANGED <<st, QV, root, ip, ev, FL, RUN, ref, pred, G>>
DrHead(w) == /\ pc[w] = "dr_head" /\ head[T(w).q] # NULL /\ SetL(w, "dc", head[T(w).q]) /\ Go(w, "dr_susp")
             /\ UNCHANGED <<st, QV, root, ip, ev, FL, RUN, ref, pred, G>>
OwnedAtExit(f) == [ib |-> (f.mode = "IB"), w |-> IF f.mode = "IB" THEN Width[f.q] ELSE f.ow,
                   enq |-> f.owned.enq,
                   res |-> (f.dc # NULL /\ Width[f.q] > 1 /\ IsBarrierOn(f.dc, f.q))]
DrSusp(w) == /\ pc[w] = "dr_susp"
             /\ LET f == T(w) IN
                IF Suspended(st[f.q]) THEN SetF(w, [f EXCEPT !.fo = OwnedAtExit(f), !.ftq = Target[f.q]]) /\ Go(w, "fin_rmw")
                ELSE fr' = fr /\ Go(w, "dr_item")
             /\ UNCHANGED <<st, QV, root, ip, ev, FL, RUN, ref, pred, G>>
DrItem(w) ==
    /\ pc[w] = "dr_item"
    /\ LET f == T(w)  dc == f.dc IN
       IF IsBarrierOn(dc, f.q)
         THEN Go(w, IF f.mode = "IB" THEN (IF IsWaiter(dc) THEN "fin_bw" ELSE "pop1") ELSE "upgrade")
         ELSE Go(w, IF f.mode = "IB" THEN "drop_ib" ELSE IF f.ow = 0 THEN "acq_w" ELSE "pop1")
    /\ UNCHANGED <<st, QV, root, fr, ip, ev, FL, RUN, ref, pred, G>>
Upgrade(w) ==
    /\ pc[w] = "upgrade"
    /\ LET f == T(w)  q == f.q  r == DQ(q)!TryUpgradeFullWidth(st[q], f.ow) IN
       /\ st' = [st EXCEPT ![q] = r.s]
       /\ IF r.ok THEN SetF(w, [f EXCEPT !.mode = "IB", !.ow = 0]) /\ Go(w, "dr_item")
                  ELSE SetF(w, [f EXCEPT !.ow = 0]) /\ Go(w, "unlock_wait")
    /\ UNCHANGED <<QV, root, ip, ev, FL, RUN, ref, pred, G>>
DropIb(w) == /\ pc[w] = "drop_ib"
             /\ LET f == T(w) IN /\ st' = [st EXCEPT ![f.q].ib = FALSE]
                                 /\ SetF(w, [f EXCEPT !.mode = "W", !.ow = Width[f.q]]) /\ Go(w, "pop1")
             /\ UNCHANGED <<QV, root, ip, ev, FL, RUN, ref, pred, G>>
AcqW(w) ==
    /\ pc[w] = "acq_w"
    /\ LET f == T(w)  q == f.q IN
       IF IsWaiter(f.dc) THEN st' = [st EXCEPT ![q] = DQ(q)!ReserveSyncWidth(@)] /\ SetL(w, "ow", 1) /\ Go(w, "pop1")
       ELSE LET r == DQ(q)!TryAcquireAsync(st[q]) IN
            IF r.ok THEN st' = [st EXCEPT ![q] = r.s] /\ SetL(w, "ow", 1) /\ Go(w, "pop1")
                    ELSE st' = st /\ fr' = fr /\ Go(w, "unlock_wait")
    /\ UNCHANGED <<QV, root, ip, ev, FL, RUN, ref, pred, G>>
\* os_mpsc_pop_head on a lane's list
Pop1(t, here, cont) == /\ pc[t] = here
                       /\ LET f == T(t)  n == nxt[f.dc] IN head' = [head EXCEPT ![f.q] = n] /\ SetL(t, "n", n)
                       /\ Go(t, cont)
                       /\ UNCHANGED <<st, tail, nxt, BV, root, ip, ev, FL, RUN, ref, pred, G>>
Pop2(t, here, ok, retry) == /\ pc[t] = here
                            /\ LET f == T(t) IN
                               IF f.n # NULL THEN tail' = tail /\ Go(t, ok)
                               ELSE IF tail[f.q] = f.dc THEN tail' = [tail EXCEPT ![f.q] = NULL] /\ Go(t, ok)
                               ELSE tail' = tail /\ Go(t, retry)
                            /\ UNCHANGED <<st, head, nxt, BV, root, fr, ip, ev, FL, RUN, ref, pred, G>>
Pop3(t, here, ok) == /\ pc[t] = here
                     /\ LET f == T(t) IN /\ nxt[f.dc] # NULL
                                         /\ head' = [head EXCEPT ![f.q] = nxt[f.dc]] /\ SetL(t, "n", nxt[f.dc])
                     /\ Go(t, ok)
                     /\ UNCHANGED <<st, tail, nxt, BV, root, ip, ev, FL, RUN, ref, pred, G>>
\* os_mpsc_pop_head on bucket f.b of the workloop (_dispatch_workloop_pop_head)
WlPop1(t, here, cont) == /\ pc[t] = here
                         /\ LET f == T(t)  n == nxt[f.dc] IN wh' = [wh EXCEPT ![f.b] = n] /\ SetL(t, "n", n)
                         /\ Go(t, cont)
                         /\ UNCHANGED <<st, LV, nxt, wt, root, ip, ev, FL, RUN, ref, pred, G>>
WlPop2(t, here, ok, retry) == /\ pc[t] = here
                              /\ LET f == T(t) IN
                                 IF f.n # NULL THEN wt' = wt /\ Go(t, ok)
                                 ELSE IF wt[f.b] = f.dc THEN wt' = [wt EXCEPT ![f.b] = NULL] /\ Go(t, ok)
                                 ELSE wt' = wt /\ Go(t, retry)
                              /\ UNCHANGED <<st, LV, nxt, wh, root, fr, ip, ev, FL, RUN, ref, pred, G>>
WlPop3(t, here, ok) == /\ pc[t] = here
                       /\ LET f == T(t) IN /\ nxt[f.dc] # NULL
                                           /\ wh' = [wh EXCEPT ![f.b] = nxt[f.dc]] /\ SetL(t, "n", nxt[f.dc])
                       /\ Go(t, ok)
                       /\ UNCHANGED <<st, LV, nxt, wt, root, ip, ev, FL, RUN, ref, pred, G>>
\* after the pop (lane).  Under a workloop no drain is redirecting (f.redir is always FALSE): readers of a concurrent
\* lane run inline on the drainer keeping the width they hold
Popped(w) ==
    /\ pc[w] = "popped"
    /\ LET f == T(w)  q == f.q  dc == f.dc IN
       IF IsBarrierOn(dc, q) THEN Go(w, "call") /\ UNCHANGED <<root, fr, ref, wrap>>
       ELSE IF IsWaiter(dc)
       THEN /\ Call(w, [f EXCEPT !.ow = f.ow - 1], [F0 EXCEPT !.q = q, !.dc = dc, !.ret = "dr_next"], "nbw")
            /\ UNCHANGED <<root, ref, wrap>>
       ELSE Go(w, "call") /\ UNCHANGED <<root, fr, ref, wrap>>
    /\ UNCHANGED <<st, QV, ip, ev, bar, RUN, pred, G>>
\* where a drain loop continues after _dispatch_continuation_pop_inline returned
NextPc(f) == IF f.q = WL THEN "wli_next" ELSE "dr_next"
\* _dispatch_continuation_pop_inline of a plain continuation: the client callout; of an async_and_wait context:
\* _dispatch_async_and_wait_invoke (callout, then dsc_func = NULL and the event is signalled)
CallItem(w) == /\ pc[w] = "call" /\ T(w).dc \in Items /\ wrap[T(w).dc] = NULL /\ CallStart(w, "call", "call_end", T(w).dc)
CallItemEnd(w) == /\ pc[w] = "call_end"
                  /\ CallEnd(w, "call_end", IF Kind[T(w).dc] = "aw" THEN "aw_sig" ELSE NextPc(T(w)), T(w).dc)
AwSignal(w) == /\ pc[w] = "aw_sig"
               /\ afn' = [afn EXCEPT ![T(w).dc] = TRUE] /\ ev' = [ev EXCEPT ![T(w).dc] = 1] /\ Go(w, NextPc(T(w)))
               /\ UNCHANGED <<st, QV, root, fr, ip, FL, RUN, ref, pred, drained, activated>>
\* ... of a CHILD QUEUE: dx_invoke(child, dic, flags & PROPAGATE_MASK) with this drain's queue as current queue
CallQueue(w) ==
    /\ pc[w] = "call" /\ T(w).dc \in Queues /\ wrap[T(w).dc] = NULL
    /\ LET f == T(w) IN Call(w, f, [F0 EXCEPT !.q = f.dc, !.cq = f.q, !.redir = FALSE, !.ret = NextPc(f)], "try_lock")
    /\ UNCHANGED <<st, QV, root, ip, ev, FL, RUN, ref, pred, G>>
\* ... of a redirect wrapper: _dispatch_async_redirect_invoke(dc): old_dq = current queue, dq = dc_data
CallRd(w) ==
    /\ pc[w] = "call" /\ wrap[T(w).dc] # NULL
    /\ LET f == T(w)  wq == wrap[f.dc] IN
       Call(w, f, [F0 EXCEPT !.q = wq, !.dc = f.dc, !.odq = f.q, !.lvl = Target[wq], !.ret = NextPc(f)], "rd_call")
    /\ UNCHANGED <<st, QV, root, ip, ev, FL, RUN, ref, pred, G>>
DrNext(w) ==
    /\ pc[w] = "dr_next"
    /\ LET f == T(w) IN
       IF f.n # NULL THEN SetL(w, "dc", f.n) /\ Go(w, "dr_susp")
       ELSE IF tail[f.q] = NULL THEN SetL(w, "dc", NULL) /\ Go(w, "unlock")
       ELSE fr' = fr /\ Go(w, "dr_head")
    /\ UNCHANGED <<st, QV, root, ip, ev, FL, RUN, ref, pred, G>>
\* _dispatch_queue_drain_try_unlock(dq, owned, done = TRUE).  On failure (DIRTY): a root worker (the workloop's drainer)
\* re-runs the invoke; a NESTED invoke leaves through _dispatch_queue_invoke_finish(dq, tq = current queue)
Unlock(w) ==
    /\ pc[w] = "unlock"
    /\ LET f == T(w)  q == f.q  r == DQ(q)!DrainTryUnlock(st[q], OwnedAtExit(f), TRUE) IN
       /\ st' = [st EXCEPT ![q] = r.s]
       /\ IF r.ok THEN fr' = fr /\ Go(w, "w_release")
          ELSE IF q = WL THEN SetL(w, "b", TopB) /\ Go(w, "wli_scan")
          ELSE SetF(w, [f EXCEPT !.fo = OwnedAtExit(f), !.ftq = f.cq]) /\ Go(w, "fin_rmw")
    /\ UNCHANGED <<QV, root, ip, ev, FL, RUN, ref, pred, G>>
UnlockWait(w) ==
    /\ pc[w] = "unlock_wait"
    /\ LET f == T(w)  q == f.q  o == [ib |-> FALSE, w |-> 0, enq |-> f.owned.enq, res |-> FALSE]
           r == DQ(q)!DrainTryUnlock(st[q], o, FALSE) IN
       /\ st' = [st EXCEPT ![q] = r.s]
       /\ IF r.ok THEN fr' = fr /\ Go(w, "w_release")
          ELSE SetF(w, [f EXCEPT !.fo = o, !.ftq = f.cq]) /\ Go(w, "fin_rmw")
    /\ UNCHANGED <<QV, root, ip, ev, FL, RUN, ref, pred, G>>
\* _dispatch_queue_invoke_finish(dq, dic, tq, owned) without barrier waiter: _dispatch_queue_push_queue(tq, dq, new_state)
FinRmw(w) ==
    /\ pc[w] = "fin_rmw"
    /\ LET f == T(w)  q == f.q  r == DQ(q)!InvokeFinish(st[q], f.fo) IN
       /\ st' = [st EXCEPT ![q] = r.s]
       /\ IF r.push THEN TailPush(w, f, f.ftq, q, r.s.qos)
          ELSE Go(w, "w_release") /\ UNCHANGED <<root, fr>>
    /\ UNCHANGED <<QV, ip, ev, FL, RUN, ref, pred, G>>
FinBw(w) == /\ pc[w] = "fin_bw" /\ SetF(w, [T(w) EXCEPT !.fl2 = TRUE, !.act = TRUE]) /\ Go(w, "bw_pop1")
            /\ UNCHANGED <<st, QV, root, ip, ev, FL, RUN, ref, pred, G>>

(* ============================ _dispatch_workloop_invoke2 ============================ *)
\* frame: q = WL, b = bucket being examined / drained, dc, n, owned (from the try_lock)
\* for (qos = MAX; qos >= MIN; qos--) if (!looks_empty(dwl, qos)) break;  all empty: owned = (owned & ENQUEUED) +
\* IN_BARRIER + WIDTH_INTERVAL, return NULL -> _dispatch_queue_drain_try_unlock
WlIScan(w) ==
    /\ pc[w] = "wli_scan"
    /\ LET f == T(w)  b == f.b IN
       IF wt[b] # NULL THEN fr' = fr /\ Go(w, "wli_lower")
       ELSE IF Lower(b) # 0 THEN SetL(w, "b", Lower(b)) /\ Go(w, "wli_scan")
       ELSE SetL(w, "dc", NULL) /\ Go(w, "unlock")
    /\ UNCHANGED <<st, QV, root, ip, ev, FL, RUN, ref, pred, G>>
\* if (!_dispatch_workloop_try_lower_max_qos(dwl, qos)) continue;  dwl->dwl_drained_qos = qos
WlILower(w) ==
    /\ pc[w] = "wli_lower"
    /\ LET f == T(w)  r == DW!WlTryLower(st[WL], f.b) IN
       /\ st' = [st EXCEPT ![WL] = r.s]
       /\ IF r.kind = "dirty" THEN SetL(w, "b", TopB) /\ Go(w, "wli_scan") /\ drained' = drained
          ELSE fr' = fr /\ Go(w, "wli_head") /\ drained' = f.b
    /\ UNCHANGED <<QV, root, ip, ev, FL, RUN, ref, pred, activated, afn>>
\* dc = _dispatch_workloop_get_head(dwl, qos)
WlIHead(w) == /\ pc[w] = "wli_head" /\ wh[T(w).b] # NULL /\ SetL(w, "dc", wh[T(w).b]) /\ Go(w, "wli_item")
              /\ UNCHANGED <<st, QV, root, ip, ev, FL, RUN, ref, pred, G>>
\* sync waiter: dic_barrier_waiter(_bucket) = dc (qos), dwl_drained_qos = UNSPECIFIED, return do_targetq ->
\* _dispatch_queue_invoke_finish -> _dispatch_workloop_drain_barrier_waiter(dwl, dc, qos, CONSUME_2, owned & ENQUEUED);
\* anything else is popped and invoked
WlIItem(w) ==
    /\ pc[w] = "wli_item"
    /\ LET f == T(w) IN
       IF IsSyncWaiter(f.dc) THEN SetF(w, [f EXCEPT !.fl2 = TRUE, !.act = TRUE]) /\ Go(w, "wldbw_pop1") /\ drained' = 0
       ELSE fr' = fr /\ Go(w, "wli_pop1") /\ drained' = drained
    /\ UNCHANGED <<st, QV, root, ip, ev, FL, RUN, ref, pred, activated, afn>>
\* qos = dwl->dwl_drained_qos; } while ((dc = next_dc) && (_dispatch_queue_max_qos(dwl) <= qos));  then the outer loop
WlINext(w) ==
    /\ pc[w] = "wli_next"
    /\ LET f == T(w) IN
       IF f.n # NULL /\ st[WL].qos <= drained THEN SetF(w, [f EXCEPT !.dc = f.n]) /\ Go(w, "wli_item")
       ELSE IF Mut = "invoke_one_bucket" /\ f.n = NULL THEN SetL(w, "dc", NULL) /\ Go(w, "unlock")
       ELSE SetL(w, "b", TopB) /\ Go(w, "wli_scan")
    /\ UNCHANGED <<st, QV, root, ip, ev, FL, RUN, ref, pred, G>>

(* ========== _dispatch_lane_drain_barrier_waiter / _dispatch_workloop_drain_barrier_waiter ========== *)
\* frame: q, dc, act = called from the drainer (enqueued_bits = owned & ENQUEUED), else from barrier_complete (0);
\* pq = _dq_state_max_qos(old_state), the qos an inner queue's waiter is re-pushed with
BwRmw(t) ==
    /\ pc[t] = "bw_rmw"
    /\ LET f == T(t)  q == f.q IN
       /\ st' = [st EXCEPT ![q] = DQ(q)!DrainBarrierWaiter(@, ClientOf(f.dc), f.act /\ f.owned.enq)]
       /\ SetL(t, "pq", st[q].qos)
    /\ Go(t, "bw_redir")
    /\ UNCHANGED <<QV, root, ip, ev, FL, RUN, ref, pred, G>>
\* the workloop: same rmw (the non-BASE_WLH branch: new_state -= enqueued_bits), after the pop from bucket f.b
WlDbwRmw(t) ==
    /\ pc[t] = "wldbw_rmw"
    /\ LET f == T(t) IN
       /\ st' = [st EXCEPT ![WL] = DW!DrainBarrierWaiter(@, ClientOf(f.dc), f.act /\ f.owned.enq)]
       /\ SetL(t, "pq", st[WL].qos)
    /\ Go(t, "bw_redir")
    /\ UNCHANGED <<QV, root, ip, ev, FL, RUN, ref, pred, G>>
\* _dispatch_barrier_waiter_redirect_or_wake: release the +2; base queue (the workloop): wake the waiter (it now owns the
\* lock); INNER queue: tq = do_targetq; tq->dq_width == 1 (a serial lane OR THE WORKLOOP): dc_flags |= BARRIER,
\* dx_push(tq, dsc, max_qos(old_state)); concurrent tq: try_reserve_sync_width(tq) ? non_barrier_waiter_redirect_or_wake : dx_push
BwRedir(t) ==
    /\ pc[t] = "bw_redir"
    /\ LET f == T(t)  q == f.q  dc == f.dc  tq == Target[q] IN
       /\ ref' = [ref EXCEPT ![q] = IF f.fl2 THEN @ - 2 ELSE @]
       /\ IF ~Inner(q)
          THEN ev' = [ev EXCEPT ![dc] = 1] /\ Ret(t) /\ UNCHANGED <<bar, root>>
          ELSE IF Width[tq] = 1
          THEN /\ bar' = [bar EXCEPT ![dc] = TRUE] /\ ev' = ev /\ TailPush(t, f, tq, dc, f.pq)
          ELSE /\ bar' = [bar EXCEPT ![dc] = FALSE] /\ ev' = ev /\ root' = root
               /\ SetF(t, [f EXCEPT !.q = tq]) /\ Go(t, "rsv_tail")
    /\ UNCHANGED <<st, QV, ip, wrap, RUN, pred, G>>
RsvTail(t) == /\ pc[t] = "rsv_tail"
              /\ LET f == T(t) IN
                 IF tail[f.q] # NULL THEN TailPush(t, f, f.q, f.dc, f.pq) ELSE Go(t, "rsv_rmw") /\ UNCHANGED <<root, fr>>
              /\ UNCHANGED <<st, QV, ip, ev, FL, RUN, ref, pred, G>>
RsvRmw(t) == /\ pc[t] = "rsv_rmw"
             /\ LET f == T(t)  q == f.q  r == DQ(q)!TryReserveSyncWidth(st[q]) IN
                IF r.ok THEN st' = [st EXCEPT ![q] = r.s] /\ Go(t, "nbw") /\ UNCHANGED <<root, fr>>
                        ELSE st' = st /\ TailPush(t, f, q, f.dc, f.pq)
             /\ UNCHANGED <<QV, ip, ev, FL, RUN, ref, pred, G>>
\* _dispatch_non_barrier_waiter_redirect_or_wake(dq, dsc): every lane here is an inner queue; dx_push(tq, dsc, 0)
Nbw(t) ==
    /\ pc[t] = "nbw"
    /\ LET f == T(t)  q == f.q  dc == f.dc  tq == Target[q] IN
       IF Width[tq] = 1
       THEN /\ bar' = [bar EXCEPT ![dc] = TRUE] /\ ev' = ev /\ TailPush(t, [f EXCEPT !.pq = 0], tq, dc, 0)
       ELSE /\ bar' = [bar EXCEPT ![dc] = FALSE] /\ ev' = ev /\ root' = root
            /\ SetF(t, [f EXCEPT !.q = tq, !.pq = 0]) /\ Go(t, "rsv_tail")
    /\ UNCHANGED <<st, QV, ip, wrap, RUN, ref, pred, G>>

(* ===================== _dispatch_async_redirect_invoke ===================== *)
RdCallItem(w) == /\ pc[w] = "rd_call" /\ T(w).dc \in Items
                 /\ CallStart(w, "rd_call", "rd_call_end", T(w).dc)
RdCallQueue(w) ==
    /\ pc[w] = "rd_call" /\ T(w).dc \in Queues
    /\ LET f == T(w) IN Call(w, f, [F0 EXCEPT !.q = f.dc, !.cq = f.q, !.redir = FALSE, !.ret = "rd_loop"], "try_lock")
    /\ wrap' = [wrap EXCEPT ![T(w).dc] = NULL]
    /\ UNCHANGED <<st, QV, root, ip, ev, bar, RUN, ref, pred, G>>
RdCallEnd(w) ==
    /\ pc[w] = "rd_call_end"
    /\ LET it == T(w).dc IN
       /\ running' = running \ {it} /\ done' = done \cup {it} /\ runCount' = runCount
       /\ wrap' = [wrap EXCEPT ![it] = NULL]
    /\ Go(w, "rd_loop")
    /\ UNCHANGED <<st, QV, root, fr, ip, ev, bar, ref, pred, G>>
\* rq = dq->do_targetq; while (rq->do_targetq && rq != old_dq) { non_barrier_complete(rq, 0); rq = rq->do_targetq; }
\* (a wrapper drained by the workloop has old_dq = the workloop: the walk stops there) ; then non_barrier_complete(dq, CONSUME_2)
RdLoop(w) ==
    /\ pc[w] = "rd_loop"
    /\ LET f == T(w)  rq == f.lvl IN
       IF rq # ROOT /\ rq # f.odq
       THEN Call(w, [f EXCEPT !.lvl = Target[rq]], [F0 EXCEPT !.q = rq, !.fl2 = FALSE, !.ret = "rd_loop"], "nbc_rmw")
       ELSE SetF(w, [F0 EXCEPT !.q = f.q, !.fl2 = TRUE, !.ret = f.ret]) /\ Go(w, "nbc_rmw")
    /\ UNCHANGED <<st, QV, root, ip, ev, FL, RUN, ref, pred, G>>

(* ================== dispatch_sync / dispatch_barrier_sync through every level ================== *)
\* _dispatch_sync_recurse: tq = tq->do_targetq while tq is not a root queue; dq_width == 1 levels (serial lanes AND THE
\* WORKLOOP) by _dispatch_queue_try_acquire_barrier_sync, concurrent ones by _dispatch_queue_try_reserve_sync_width
Acquired(c, f) ==
    LET nl == Target[f.lvl] IN
    IF nl = ROOT THEN SetF(c, [f EXCEPT !.fast = FALSE]) /\ Go(c, "sync_call")
    ELSE SetF(c, [f EXCEPT !.lvl = nl]) /\ Go(c, IF Width[nl] = 1 THEN "bs_tail" ELSE "rs_tail")
\* the dq_items_tail test of the fast path; in a workloop that slot is dwl_timer_heap (NULL on this build)
BsTail(c) == /\ pc[c] = "bs_tail" /\ Go(c, IF T(c).lvl # WL /\ tail[T(c).lvl] # NULL THEN "sync_slow" ELSE "bs_fast")
             /\ UNCHANGED <<st, QV, root, fr, ip, ev, FL, RUN, ref, pred, G>>
BsFast(c) == /\ pc[c] = "bs_fast"
             /\ LET f == T(c)  l == f.lvl  r == DQ(l)!TryAcquireBarrierSync(st[l], Self(c), 0) IN
                IF r.ok THEN st' = [st EXCEPT ![l] = r.s] /\ Acquired(c, f) ELSE st' = st /\ fr' = fr /\ Go(c, "sync_slow")
             /\ UNCHANGED <<QV, root, ip, ev, FL, RUN, ref, pred, G>>
RsTail(c) == /\ pc[c] = "rs_tail" /\ Go(c, IF tail[T(c).lvl] # NULL THEN "sync_slow" ELSE "rs_fast")
             /\ UNCHANGED <<st, QV, root, fr, ip, ev, FL, RUN, ref, pred, G>>
RsFast(c) == /\ pc[c] = "rs_fast"
             /\ LET f == T(c)  l == f.lvl  r == DQ(l)!TryReserveSyncWidth(st[l]) IN
                IF r.ok THEN st' = [st EXCEPT ![l] = r.s] /\ Acquired(c, f) ELSE st' = st /\ fr' = fr /\ Go(c, "sync_slow")
             /\ UNCHANGED <<QV, root, ip, ev, FL, RUN, ref, pred, G>>
\* _dispatch_sync_f_slow on level lvl: __DISPATCH_WAIT_FOR_QUEUE__: dx_push(lvl, dsc, _dispatch_qos_from_pp(dc_priority) = 0)
\* (_dispatch_wait_prepare gives up: no BASE_WLH role), then _dispatch_thread_event_wait
SyncSlow(c) ==
    /\ pc[c] = "sync_slow"
    /\ LET f == T(c)  l == f.lvl  i == f.item IN
       /\ bar' = [bar EXCEPT ![i] = IF l = f.q THEN TopBar(i) ELSE Width[l] = 1]
       /\ CallPush(c, f, l, i, 0, "wait_event")
    /\ UNCHANGED <<st, QV, ip, ev, wrap, RUN, ref, pred, G>>
WaitEvent(c) == /\ pc[c] = "wait_event" /\ ev[T(c).item] = 1 /\ Go(c, "sync_call")
                /\ UNCHANGED <<st, QV, root, fr, ip, ev, FL, RUN, ref, pred, G>>
\* after the callout: _dispatch_sync_complete_recurse(top_dq, NULL, top_dc_flags)
SyncDone(c) ==
    /\ pc[c] = "sync_done"
    /\ LET f == T(c)  i == f.item IN SetF(c, [f EXCEPT !.lvl = f.q, !.cbar = TopBar(i)]) /\ Go(c, "cr_level")
    /\ UNCHANGED <<st, QV, root, ip, ev, FL, RUN, ref, pred, G>>
\* do { if (barrier) dx_wakeup(dq, 0, BARRIER_COMPLETE) else non_barrier_complete(dq, 0);
\*      dq = dq->do_targetq; barrier = (dq->dq_width == 1); } while (dq->do_targetq);
\* dx_wakeup of the workloop with BARRIER_COMPLETE: _dispatch_workloop_wakeup -> _dispatch_workloop_barrier_complete(dwl, 0, flags)
CrLevel(c) ==
    /\ pc[c] = "cr_level"
    /\ LET f == T(c)  l == f.lvl  nl == Target[l]
           last == (nl = ROOT)
           sub0 == [F0 EXCEPT !.q = l, !.fl2 = FALSE, !.qos = 0, !.ret = IF last THEN f.ret ELSE "cr_level"]
           sub == IF l = WL THEN WlBcFrame(sub0, 0, FALSE) ELSE sub0
           entry == IF l = WL THEN "wlbc_scan" ELSE IF f.cbar THEN "bc_tail" ELSE "nbc_rmw" IN
       IF last THEN SetF(c, sub) /\ Go(c, entry)
       ELSE Call(c, [f EXCEPT !.lvl = nl, !.cbar = (Width[nl] = 1)], sub, entry)
    /\ UNCHANGED <<st, QV, root, ip, ev, FL, RUN, ref, pred, G>>
\* _dispatch_lane_push_waiter rmw (the waiter made the lane's list non-empty)
PwRmw(t) ==
    /\ pc[t] = "pw_rmw"
    /\ LET f == T(t)  q == f.q  r == DQ(q)!PushWaiter(st[q], Self(t)) IN
       /\ st' = [st EXCEPT ![q] = r.s]
       /\ IF r.took THEN SetF(t, [f EXCEPT !.fl2 = FALSE, !.qos = 0]) /\ Go(t, "bc_tail")
                    ELSE Ret(t)
    /\ UNCHANGED <<QV, root, ip, ev, FL, RUN, ref, pred, G>>

(* ============ dispatch_async_and_wait on the workloop ============ *)
\* _dispatch_async_and_wait_recurse -> _dispatch_async_and_wait_recurse_one(dwl): load dq_state (role bits: not "always
\* async", the workloop targets a root queue of the array) ; _dispatch_queue_try_acquire_barrier_sync(dwl, tid).
\* acquired: _dispatch_async_and_wait_invoke_and_complete_recurse runs the item on the caller, then
\* _dispatch_sync_complete_recurse(dwl, NULL, flags).  Else _dispatch_async_and_wait_f_slow -> __DISPATCH_WAIT_FOR_QUEUE__:
\* dx_push(dwl, dsc, 0) (-> _dispatch_workloop_push_waiter) and wait
AwFast(c) == /\ pc[c] = "aw_fast"
             /\ LET f == T(c)  r == DW!TryAcquireBarrierSync(st[WL], Self(c), 0) IN
                IF r.ok THEN st' = [st EXCEPT ![WL] = r.s] /\ Go(c, "sync_call") /\ UNCHANGED <<root, fr>>
                ELSE st' = st /\ CallPush(c, f, WL, f.item, 0, "aw_wait")
             /\ UNCHANGED <<QV, ip, ev, FL, RUN, ref, pred, G>>
\* woken: dsc_func == NULL (a drainer ran it through _dispatch_async_and_wait_invoke): _dispatch_sync_complete_recurse(dq,
\* stop_dq = dq) returns at once ; else the lock was transferred to this thread: run it here
AwWait(c) == /\ pc[c] = "aw_wait" /\ ev[T(c).item] = 1
             /\ IF afn[T(c).item] THEN Ret(c) ELSE Go(c, "sync_call") /\ fr' = fr
             /\ UNCHANGED <<st, QV, root, ip, ev, FL, RUN, ref, pred, G>>

(* ========================= _dispatch_lane_barrier_complete ========================= *)
BcTail(t) == /\ pc[t] = "bc_tail" /\ Go(t, IF tail[T(t).q] # NULL THEN "bc_susp" ELSE "bc_rmw_none")
             /\ UNCHANGED <<st, QV, root, fr, ip, ev, FL, RUN, ref, pred, G>>
BcSusp(t) == /\ pc[t] = "bc_susp" /\ Go(t, IF Suspended(st[T(t).q]) THEN "bc_rmw_none" ELSE "bc_head")
             /\ UNCHANGED <<st, QV, root, fr, ip, ev, FL, RUN, ref, pred, G>>
BcHead(t) ==
    /\ pc[t] = "bc_head"
    /\ LET f == T(t)  q == f.q  h == head[q] IN
       /\ h # NULL
       /\ IF IsBarrierOn(h, q)
            THEN IF IsWaiter(h) THEN SetF(t, [f EXCEPT !.dc = h, !.act = FALSE]) /\ Go(t, "bw_pop1") /\ ref' = ref
                 ELSE /\ SetF(t, [f EXCEPT !.dc = h, !.fl2 = TRUE]) /\ Go(t, "bc_rmw_tq")
                      /\ ref' = [ref EXCEPT ![q] = IF f.fl2 THEN @ ELSE @ + 2]
            ELSE SetF(t, [f EXCEPT !.dc = h, !.ow = Width[q]]) /\ Go(t, "dnb_dropib") /\ ref' = ref
    /\ UNCHANGED <<st, QV, root, ip, ev, FL, RUN, pred, G>>
FullOwned(q) == [ib |-> TRUE, w |-> Width[q], enq |-> FALSE, res |-> FALSE]
BcRmwTq(t) ==
    /\ pc[t] = "bc_rmw_tq"
    /\ LET f == T(t)  q == f.q  r == DQ(q)!BarrierComplete(st[q], FullOwned(q), TRUE, f.qos) IN
       /\ st' = [st EXCEPT ![q] = r.s]
       /\ IF r.s.enq /\ ~st[q].enq THEN ref' = ref /\ TailPush(t, f, Target[q], q, r.s.qos)
          ELSE root' = root /\ ref' = [ref EXCEPT ![q] = @ - 2] /\ Ret(t)
    /\ UNCHANGED <<QV, ip, ev, FL, RUN, pred, G>>
BcRmwNone(t) ==
    /\ pc[t] = "bc_rmw_none"
    /\ LET f == T(t)  q == f.q  r == DQ(q)!BarrierComplete(st[q], FullOwned(q), FALSE, f.qos) IN
       /\ st' = [st EXCEPT ![q] = r.s]
       /\ IF r.ok THEN ref' = [ref EXCEPT ![q] = IF f.fl2 THEN @ - 2 ELSE @] /\ Ret(t)
                  ELSE ref' = ref /\ fr' = fr /\ Go(t, "bc_tail")
    /\ UNCHANGED <<QV, root, ip, ev, FL, RUN, pred, G>>

(* ========================= _dispatch_workloop_barrier_complete ========================= *)
\* frame: q = WL, qos, fl2 = CONSUME_2, b = bucket being examined, tf = target == WAKEUP_TARGET
\* again: for (wl_qos = MAX; wl_qos >= MIN; wl_qos--) { if (looks_empty) continue; dc = get_head;
\*   if (_dispatch_object_is_waiter(dc)) return _dispatch_workloop_drain_barrier_waiter(dwl, dc, wl_qos, flags, 0);
\*   target = TARGET; }   if (target && !(flags & CONSUME_2)) { _dispatch_retain_2(dwl); flags |= CONSUME_2; }
\* (the loop does NOT stop at the first non-empty bucket: a waiter at the head of a LOWER bucket still gets the lock)
BcScanNext(t, f, found) ==
    LET tf2 == f.tf \/ found IN
    IF Lower(f.b) # 0 /\ Mut # "bc_one_bucket"
    THEN SetF(t, [f EXCEPT !.b = Lower(f.b), !.tf = tf2]) /\ Go(t, "wlbc_scan") /\ ref' = ref
    ELSE /\ SetF(t, [f EXCEPT !.tf = tf2, !.fl2 = (f.fl2 \/ tf2)]) /\ Go(t, "wlbc_rmw")
         /\ ref' = [ref EXCEPT ![WL] = IF tf2 /\ ~f.fl2 THEN @ + 2 ELSE @]
WlBcScan(t) ==
    /\ pc[t] = "wlbc_scan"
    /\ LET f == T(t) IN
       IF wt[f.b] # NULL THEN fr' = fr /\ Go(t, "wlbc_head") /\ ref' = ref ELSE BcScanNext(t, f, FALSE)
    /\ UNCHANGED <<st, QV, root, ip, ev, FL, RUN, pred, G>>
WlBcHead(t) ==
    /\ pc[t] = "wlbc_head"
    /\ LET f == T(t)  h == wh[f.b] IN
       /\ h # NULL
       /\ IF IsWaiter(h) THEN SetF(t, [f EXCEPT !.dc = h, !.act = FALSE]) /\ Go(t, "wldbw_pop1") /\ ref' = ref
          ELSE BcScanNext(t, f, TRUE)
    /\ UNCHANGED <<st, QV, root, ip, ev, FL, RUN, pred, G>>
\* the rmw; DIRTY without a target: give up, xor DIRTY (acquire), goto again.  target and ENQUEUED was set by this rmw:
\* _dispatch_queue_push_queue(do_targetq, dwl, new_state) (keeps the +2) ; else release the +2 if CONSUME_2
WlBcRmw(t) ==
    /\ pc[t] = "wlbc_rmw"
    /\ LET f == T(t)  r == DW!WlBarrierComplete(st[WL], f.qos, f.tf) IN
       /\ st' = [st EXCEPT ![WL] = r.s]
       /\ IF ~r.ok THEN SetF(t, [f EXCEPT !.b = TopB, !.tf = FALSE]) /\ Go(t, "wlbc_scan") /\ UNCHANGED <<root, ref>>
          ELSE IF f.tf /\ r.s.enq /\ ~st[WL].enq THEN ref' = ref /\ TailPush(t, f, ROOT, WL, r.s.qos)
          ELSE root' = root /\ ref' = [ref EXCEPT ![WL] = IF f.fl2 THEN @ - 2 ELSE @] /\ Ret(t)
    /\ UNCHANGED <<QV, ip, ev, FL, RUN, pred, G>>

(* ========================= _dispatch_lane_drain_non_barriers ========================= *)
DnbDropIb(t) == /\ pc[t] = "dnb_dropib" /\ st' = [st EXCEPT ![T(t).q].ib = FALSE] /\ Go(t, "dnb_item")
                /\ UNCHANGED <<QV, root, fr, ip, ev, FL, RUN, ref, pred, G>>
DnbItem(t) ==
    /\ pc[t] = "dnb_item"
    /\ LET f == T(t)  q == f.q  dc == f.dc IN
       IF f.ow > 0 THEN st' = st /\ SetL(t, "ow", f.ow - 1) /\ Go(t, "dnb_pop1")
       ELSE IF IsWaiter(dc) THEN st' = [st EXCEPT ![q] = DQ(q)!ReserveSyncWidth(@)] /\ fr' = fr /\ Go(t, "dnb_pop1")
       ELSE LET r == DQ(q)!TryAcquireAsync(st[q]) IN
            IF r.ok THEN st' = [st EXCEPT ![q] = r.s] /\ fr' = fr /\ Go(t, "dnb_pop1")
                    ELSE st' = st /\ fr' = fr /\ Go(t, "dnb_rmw")
    /\ UNCHANGED <<QV, root, ip, ev, FL, RUN, ref, pred, G>>
\* non-waiters: _dispatch_continuation_redirect_push(dq, dc, _dispatch_queue_max_qos(dq))
DnbPopped(t) ==
    /\ pc[t] = "dnb_popped"
    /\ LET f == T(t)  q == f.q  dc == f.dc
           cont == IF f.n # NULL /\ ~IsBarrierOn(f.n, q) THEN "dnb_item" ELSE "dnb_rmw"
           cf == [f EXCEPT !.dc = f.n] IN
       IF IsWaiter(dc)
       THEN Call(t, cf, [F0 EXCEPT !.q = q, !.dc = dc, !.ret = cont], "nbw") /\ UNCHANGED <<root, ref, wrap>>
       ELSE /\ wrap' = [wrap EXCEPT ![dc] = IF @ = NULL THEN q ELSE @]
            /\ ref' = [ref EXCEPT ![q] = IF wrap[dc] = NULL THEN @ + 2 ELSE @]
            /\ CallPush(t, cf, Target[q], dc, RedirQos(q, st[q].qos), cont)
    /\ UNCHANGED <<st, QV, ip, ev, bar, RUN, pred, G>>
DnbRmw(t) ==
    /\ pc[t] = "dnb_rmw"
    /\ LET f == T(t)  q == f.q  dc == f.dc
           r == DQ(q)!DrainNonBarriersExit(st[q], f.ow, dc # NULL, dc # NULL /\ IsBarrierOn(dc, q), Self(t)) IN
       /\ st' = [st EXCEPT ![q] = r.s]
       /\ IF r.ok THEN SetF(t, [f EXCEPT !.old = r.old, !.new = r.s]) /\ Go(t, "nbc_fin")
                  ELSE fr' = fr /\ Go(t, "dnb_again")
    /\ UNCHANGED <<QV, root, ip, ev, FL, RUN, ref, pred, G>>
DnbAgain(t) == /\ pc[t] = "dnb_again"
               /\ LET f == T(t)  h == head[f.q] IN
                  /\ SetL(t, "dc", h)
                  /\ Go(t, IF h # NULL /\ ~IsBarrierOn(h, f.q) THEN "dnb_item" ELSE "dnb_rmw")
               /\ UNCHANGED <<st, QV, root, ip, ev, FL, RUN, ref, pred, G>>

(* ============ dispatch_activate(workloop): _dispatch_workloop_activate ============ *)
\* dq_state = os_atomic_and_orig(dq_state, ~INACTIVE); if (dq_state & INACTIVE) { priority; os_atomic_and(dq_state,
\* ~NEEDS_ACTIVATION); _dispatch_workloop_wakeup(dwl, 0, CONSUME_2) (the +2 taken by _dispatch_queue_init) }
WlaAnd(c) == /\ pc[c] = "wla_and"
             /\ st' = [st EXCEPT ![WL].inact = FALSE]
             /\ IF st[WL].inact THEN Go(c, "wla_na") /\ SetL(c, "ret", "ret_act") ELSE Ret(c)
             /\ UNCHANGED <<QV, root, ip, ev, FL, RUN, ref, pred, G>>
WlaNa(c) == /\ pc[c] = "wla_na"
            /\ st' = [st EXCEPT ![WL].na = FALSE]
            /\ SetF(c, [T(c) EXCEPT !.qos = 0, !.mkdirty = FALSE, !.fl2 = TRUE]) /\ Go(c, "wlwk_rmw")
            /\ UNCHANGED <<QV, root, ip, ev, FL, RUN, ref, pred, G>>

(* ================================ next-state ================================ *)
ClientStep(t) ==
    \/ Start(t) \/ Return(t) \/ RsTail(t) \/ RsFast(t) \/ BsTail(t) \/ BsFast(t) \/ SyncSlow(t)
    \/ WaitEvent(t) \/ SyncDone(t) \/ CrLevel(t) \/ AwFast(t) \/ AwWait(t) \/ WlaAnd(t) \/ WlaNa(t)
    \/ CallStart(t, "sync_call", "sync_call_end", T(t).item) \/ CallEnd(t, "sync_call_end", "sync_done", T(t).item)
WorkerStep(t) ==
    \/ RootPop(t) \/ TryLock(t) \/ WRelease(t) \/ DrTail0(t) \/ DrHead(t) \/ DrSusp(t) \/ DrItem(t) \/ Upgrade(t) \/ DropIb(t) \/ AcqW(t)
    \/ Popped(t) \/ CallQueue(t) \/ CallRd(t) \/ DrNext(t) \/ Unlock(t) \/ UnlockWait(t) \/ FinRmw(t) \/ FinBw(t)
    \/ RdCallItem(t) \/ RdCallQueue(t) \/ RdCallEnd(t) \/ RdLoop(t)
    \/ Pop1(t, "pop1", "pop2") \/ Pop2(t, "pop2", "popped", "pop3") \/ Pop3(t, "pop3", "popped")
    \/ CallItem(t) \/ CallItemEnd(t) \/ AwSignal(t)
    \/ WlIScan(t) \/ WlILower(t) \/ WlIHead(t) \/ WlIItem(t) \/ WlINext(t)
    \/ WlPop1(t, "wli_pop1", "wli_pop2") \/ WlPop2(t, "wli_pop2", "call", "wli_pop3") \/ WlPop3(t, "wli_pop3", "call")
SharedStep(t) ==
    \/ CPushTail(t) \/ CPushAcq(t) \/ PushTail(t) \/ PushOvr(t) \/ PushPrev(t) \/ WkProbe(t) \/ WkRmw(t) \/ WkRelease(t) \/ PwRmw(t)
    \/ NbcRmw(t) \/ NbcFin(t) \/ BwRmw(t) \/ BwRedir(t) \/ RsvTail(t) \/ RsvRmw(t) \/ Nbw(t)
    \/ BcTail(t) \/ BcSusp(t) \/ BcHead(t) \/ BcRmwTq(t) \/ BcRmwNone(t)
    \/ DnbDropIb(t) \/ DnbItem(t) \/ DnbPopped(t) \/ DnbRmw(t) \/ DnbAgain(t)
    \/ Pop1(t, "bw_pop1", "bw_pop2") \/ Pop2(t, "bw_pop2", "bw_rmw", "bw_pop3") \/ Pop3(t, "bw_pop3", "bw_rmw")
    \/ Pop1(t, "dnb_pop1", "dnb_pop2") \/ Pop2(t, "dnb_pop2", "dnb_popped", "dnb_pop3") \/ Pop3(t, "dnb_pop3", "dnb_popped")
    \/ WlTail(t) \/ WlPrev(t) \/ WlWkRmw(t) \/ WlwTail(t) \/ WlwPrev(t) \/ WlwRmw(t)
    \/ WlBcScan(t) \/ WlBcHead(t) \/ WlBcRmw(t) \/ WlDbwRmw(t)
    \/ WlPop1(t, "wldbw_pop1", "wldbw_pop2") \/ WlPop2(t, "wldbw_pop2", "wldbw_rmw", "wldbw_pop3") \/ WlPop3(t, "wldbw_pop3", "wldbw_rmw")
Step(t) == (t \in Clients /\ ClientStep(t)) \/ (t \in Workers /\ WorkerStep(t)) \/ SharedStep(t)
Next == \E t \in Threads : Step(t)
Spec == Init /\ [][Next]_vars
FairSpec == Spec /\ \A t \in Threads : WF_vars(Step(t))

(* ================================ properties ================================ *)
AllSubmitted == \A c \in Clients : ip[c] > Len(Prog[c])
Quiescent == (\A t \in Threads : pc[t] = "idle") /\ root = <<>>
IdleModQos(s) == [s EXCEPT !.qos = 0, !.dirty = FALSE] = Idle0
RECURSIVE ChainOf(_)
ChainOf(q) == IF q = ROOT THEN {} ELSE {q} \cup ChainOf(Target[q])
UpSet(b) == {q \in Queues : b \in ChainOf(q)}
\* C03: at most one item submitted to any queue whose chain reaches the workloop (or a serial lane) executes at any time
HierarchyExclusion == \A b \in Queues : Width[b] = 1 => Cardinality({i \in running : On[i] \in UpSet(b)}) <= 1
WorkloopExclusion == Cardinality(running) <= 1
\* C03: each serial queue of the hierarchy still delivers its own items in submission order (the workloop itself is a
\* priority queue: no order is promised between its own direct items)
Order == \A b \in running \cup done : \A a \in pred[b] : (On[a] = On[b] /\ On[a] # WL /\ Width[On[a]] = 1) => a \in done
BarrierExcl == \A i \in running : TopBar(i) => \A j \in running : (On[j] = On[i]) => j = i
AtMostOnce == \A i \in Items : runCount[i] <= 1
\* nothing stranded; the workloop's word is EXACTLY its initial value (_dispatch_workloop_dispose crashes otherwise)
NoStrand == (Quiescent /\ AllSubmitted) =>
               /\ done = Items
               /\ \A q \in Lanes : IdleModQos(st[q]) /\ tail[q] = NULL /\ head[q] = NULL
               /\ activated => st[WL] = Idle0
               /\ \A b \in Buckets : wt[b] = NULL /\ wh[b] = NULL
               /\ \A q \in Queues : ref[q] = 0
               /\ \A t \in Threads : Len(fr[t]) = 1
SyncAfterEnd == \A c \in Clients : \A k \in 1..(ip[c] - 1) :
                   ("i" \in DOMAIN Prog[c][k] /\ IsWaiter(Prog[c][k].i)) => Prog[c][k].i \in done
WidthOK == \A q \in Queues : st[q].used >= 0 /\ st[q].used <= 2 * Width[q] + Cardinality({i \in Items : IsWaiter(i)})
NoEarlyStart == (running \cup done # {}) => activated
NoCrash == \A t \in Threads : pc[t] # "crash"
RefOK == \A q \in Queues : ref[q] >= 0
\* an item executes on a thread that owns the drain lock of the workloop and of every serial lane on its queue's chain
RunningOn(t) == IF pc[t] \in {"call_end", "rd_call_end"} THEN T(t).dc ELSE IF pc[t] = "sync_call_end" THEN T(t).item ELSE NULL
LockChain == \A t \in Threads : RunningOn(t) # NULL =>
                \A b \in ChainOf(On[RunningOn(t)]) : Width[b] = 1 => st[b].owner = t
\* a lane is drained only by the thread that owns the drain lock of its serial target / of the workloop
DrainPcs == {"dr_tail0", "dr_head", "dr_susp", "dr_item", "upgrade", "drop_ib", "acq_w", "pop1", "pop2", "pop3", "popped", "call",
             "call_end", "dr_next", "unlock", "unlock_wait", "fin_bw"}
DrainFromTarget == \A t \in Threads : (pc[t] \in DrainPcs /\ T(t).q \in Lanes /\ Width[Target[T(t).q]] = 1) =>
                      st[Target[T(t).q]].owner = t
\* buckets are popped only under the workloop's drain lock
WlPopPcs == {"wli_pop1", "wli_pop2", "wli_pop3", "wldbw_pop1", "wldbw_pop2", "wldbw_pop3"}
PopUnderLock == \A t \in Threads : pc[t] \in WlPopPcs => st[WL].owner = t
Live == <>(done = Items)
=============================================================================
