------------------------------ MODULE TimeEmit ------------------------------
(* Test-vector emission for C12 (TLC only).  Evaluates Time.tla on every enumerated input
   and writes one JSON array per input to the file named by the environment variable OUT:

     [fn, base, delta, sec, nsec, now.up, now.mono, now.wall,
      kind, clock, t, class, pinned, fixed, dev]

   fn     0 dispatch_time  1 dispatch_walltime(&ts)  2 dispatch_walltime(NULL)  3 _dispatch_timeout
          4 _dispatch_time_nanoseconds_since_epoch
   kind   reference verdict: 0 exact  1 forever  2 any elapsed time on `clock`
          (fn = 3, 4: 1 if `base` has already elapsed, else 0)
   clock  0 uptime  1 monotonic  2 wall              t  the expected result (kind 0/1)
          (fn = 3, 4: the reference wait, 2^W for "for ever")
   class  0 none, 1.. the known-deviation classes in the order of ClassNames
   pinned/fixed  what the transcription of the pinned / of the repaired code returns
   dev    1 if `pinned` does not meet the reference (a deviation of the pinned code), else 0

   Landmarks = TRUE restricts the inputs to k*2^(W-2)+o, |o| <= 7 (the rows that can be
   lifted to another width); FALSE enumerates everything (W = 8). *)
EXTENDS Time, TLC, Json, IOUtils, SequencesExt, FiniteSets

CONSTANTS Landmarks, Part

ClassNames == <<"dt_sum_eq_max", "dt_wall_sum_eq_1", "wt_int64_overflow", "wt_unsaturated",
                "wt_past_nonneg_delta", "epoch_mono">>
ClassId(c) == IF c = "" THEN 0 ELSE CHOOSE i \in 1 .. 6 : ClassNames[i] = c
ClockId(c) == IF c = "up" THEN 0 ELSE IF c = "mono" THEN 1 ELSE 2
KindId(k) == IF k = "exact" THEN 0 ELSE IF k = "forever" THEN 1 ELSE 2

Near == {k * Q + o : k \in 0 - 2 .. 4, o \in 0 - 7 .. 7}
Words == IF Landmarks THEN {x \in Near : x >= 0 /\ x < M} ELSE 0 .. M - 1
Deltas == IF Landmarks THEN {x \in Near : x >= SMIN /\ x <= SMAX} ELSE SMIN .. SMAX
LiftNows == { [up |-> 1, mono |-> 1, wall |-> 3],
              [up |-> 5, mono |-> Q - 3, wall |-> 7],
              [up |-> MAXV, mono |-> MAXV - 1, wall |-> MAXV] }
Nows == IF Landmarks THEN LiftNows ELSE NowSet
\* dispatch_walltime(&ts): every tv_sec with a few tv_nsec (exhaustive mode); tv_sec = 0 with
\* denormalised landmark tv_nsec (the only rows that do not depend on NPS) in landmark mode
Secs == IF Landmarks THEN {0} ELSE SMIN .. SMAX
Nsecs == IF Landmarks THEN Deltas ELSE {0, NPS - 1, 0 - 1, SMAX}
WtNows == {[up |-> 1, mono |-> 1, wall |-> 3]}

None == {"none"}

RowTime(b, d, n) ==
  LET r == RefTime(b, d, n) IN
  <<0, b, d, 0, 0, n.up, n.mono, n.wall, KindId(r.kind), ClockId(r.clock), r.t,
    ClassId(ClassTime(b, d, n)), DispatchTimeF(None, b, d, n), DispatchTimeF(AllFixes, b, d, n),
    IF RefOK(r, DispatchTimeF(None, b, d, n), n) THEN 0 ELSE 1>>

RowWall(h, s, ns, d, n) ==
  LET r == RefWalltime(h, s, ns, d, n) IN
  <<IF h THEN 1 ELSE 2, 0, d, s, ns, n.up, n.mono, n.wall, KindId(r.kind), ClockId(r.clock), r.t,
    ClassId(ClassWalltime(h, s, ns, d, n)),
    DispatchWalltimeF(None, h, s, ns, d, n), DispatchWalltimeF(AllFixes, h, s, ns, d, n),
    IF RefOK(r, DispatchWalltimeF(None, h, s, ns, d, n), n) THEN 0 ELSE 1>>

RowTimeout(b, n) ==
  <<3, b, 0, 0, 0, n.up, n.mono, n.wall, IF RefElapsed(b, n) THEN 1 ELSE 0,
    ClockId(RefClock(b)), RefWait(b, n), 0, TimeoutM(b, n), TimeoutM(b, n), 0>>

RowEpoch(b, n) ==
  <<4, b, 0, 0, 0, n.up, n.mono, n.wall, IF RefElapsed(b, n) THEN 1 ELSE 0,
    ClockId(RefClock(b)), RefWait(b, n), ClassId(ClassEpoch(b)),
    NanosSinceEpochF(None, b, n), NanosSinceEpochF(AllFixes, b, n),
    IF RefDeadlineOK(b, NanosSinceEpochF(None, b, n), n) THEN 0 ELSE 1>>

\* The rows as sequences (functions over 1..N are built without the sorting and duplicate
\* elimination a set of tuples would cost).
WordSeq == SetToSeq(Words)
DeltaSeq == SetToSeq(Deltas)
NowSeq == SetToSeq(Nows)
SecSeq == SetToSeq(Secs)
NsecSeq == SetToSeq(Nsecs)
WtNowSeq == SetToSeq(WtNows)
NW == Len(WordSeq)
ND == Len(DeltaSeq)
NN == Len(NowSeq)
NS == Len(SecSeq)
NNS == Len(NsecSeq)
NWN == Len(WtNowSeq)
Ix(i, stride, n) == ((((i - 1) \div stride)) % n) + 1     \* mixed-radix digit of row number i

TimeRows == [i \in 1 .. NW * ND * NN |->
               RowTime(WordSeq[Ix(i, ND * NN, NW)], DeltaSeq[Ix(i, NN, ND)], NowSeq[Ix(i, 1, NN)])]
WallRows == [i \in 1 .. NS * NNS * ND * NWN |->
               RowWall(TRUE, SecSeq[Ix(i, NNS * ND * NWN, NS)], NsecSeq[Ix(i, ND * NWN, NNS)],
                       DeltaSeq[Ix(i, NWN, ND)], WtNowSeq[Ix(i, 1, NWN)])]
NullRows == [i \in 1 .. ND * NN |-> RowWall(FALSE, 0, 0, DeltaSeq[Ix(i, NN, ND)], NowSeq[Ix(i, 1, NN)])]
TimeoutRows == [i \in 1 .. NW * NN |-> RowTimeout(WordSeq[Ix(i, NN, NW)], NowSeq[Ix(i, 1, NN)])]
EpochRows == [i \in 1 .. NW * NN |-> RowEpoch(WordSeq[Ix(i, NN, NW)], NowSeq[Ix(i, 1, NN)])]

\* Part = "time" | "wall": which rows this run writes (the runs go in parallel)
Rows == IF Part = "time" THEN TimeRows \o NullRows \o TimeoutRows \o EpochRows ELSE WallRows

VARIABLE
  done
EmitInit == done = FALSE
EmitNext == /\ ~done
            /\ LET rows == Rows IN
               /\ ndJsonSerialize(IOEnv.OUT, rows)
               /\ PrintT(<<"EMITTED", Len(rows)>>)
            /\ done' = TRUE
=============================================================================
