--------------------------- MODULE LaneWordTrace ---------------------------
(* Word-level trace validation (code -> spec) for lanes: every recorded atomic access to
   the dq_state word of the queue under test (hooked real library, harness/drv_lane.c and
   drv_chain.c) must be explained by the DQState operator that transcribes the C function
   it was issued from, applied to the recorded old value with SOME arguments that function
   can legally be called with; give-ups must be decisions the operator also takes; the
   thread that releases or hands over the drain lock must own it; values must chain
   (every access observes the word the previous one left).  All other records are skipped.
   This binds the queue.c RMW loops (which cannot be called in isolation) to DQState.tla;
   the inline ones are bound exhaustively by DQStateConf.tla. *)
EXTENDS DQState, Sequences, FiniteSets, Json, IOUtils, TLCExt

Tr == ndJsonDeserialize(IOEnv.TRACE)
NT == Tr[1].nt
Thr == {ToString(i) : i \in 0..(NT - 1)}      \* thread ids as strings ("null" = no owner)

VARIABLES l, st, known, drift,
          mustDirty,   \* threads that made the item list non-empty in _dispatch_lane_push and have not woken the queue yet
          behind       \* threads that enqueued something since the item list was last empty (dq_items_tail = NULL)
tvars == <<l, st, known, drift, mustDirty, behind>>

Rec == Tr[l]
BOOL == {TRUE, FALSE}
Owneds == [ib : BOOL, w : 0..W, enq : BOOL, res : BOOL]
OwnedsU == {o \in Owneds : ~o.res}
\* abstract word of a record field, without the "odd" markers
Strip(x) == [sc |-> x.sc, side |-> x.side, inact |-> x.inact, na |-> x.na, ib |-> x.ib, pb |-> x.pb, used |-> x.used,
             dirty |-> x.dirty, enq |-> x.enq, ro |-> x.ro, qos |-> x.qos, owner |-> x.owner]
\* role INNER (before an initially-inactive queue is activated) never sets RECEIVED_OVERRIDE: compare modulo ro there
Eq(a, b, base) == IF base THEN a = b ELSE [a EXCEPT !.ro = FALSE] = [b EXCEPT !.ro = FALSE]

OwnsLock(s, t) == s.owner = t
FullO == [ib |-> TRUE, w |-> W, enq |-> FALSE, res |-> FALSE]
SerialO == [ib |-> TRUE, w |-> 1, enq |-> FALSE, res |-> FALSE]
SubOk2(s, o) == SubOk(s, o) /\ o.w <= s.used

\* The projection keeps one bit of max_qos ("some QoS requested").  A merge that raises a non-zero max_qos to a higher one
\* (items and waiters carrying a QoS: block objects made with dispatch_block_create, queues with QoS attributes) therefore
\* looks like "qos unchanged" (for a wakeup without MAKE_DIRTY: like no change at all); on a base queue it also sets
\* RECEIVED_OVERRIDE.  Allow that outcome wherever a QoS is merged.
WithOverride(S) == S \cup {[x EXCEPT !.ro = TRUE] : x \in {y \in S : y.qos > 0 /\ BASE}}
\* ---- which new words can function f produce from old, called by thread t ----
Allowed(f, op, old, t) ==
  CASE f = "_dispatch_queue_drain_try_lock" -> {DrainTryLock(old, t).s}
    [] f = "_dispatch_queue_drain_try_unlock" ->
         IF op = "xor" THEN (IF old.dirty THEN {[old EXCEPT !.dirty = FALSE]} ELSE {})
         ELSE IF ~OwnsLock(old, t) THEN {}
         ELSE {DrainTryUnlock(old, p[1], p[2]).s : p \in {q \in Owneds \X BOOL : SubOk2(old, q[1]) /\ DrainTryUnlock(old, q[1], q[2]).ok}}
    [] f = "_dispatch_queue_try_acquire_barrier_sync_and_suspend" ->
         {TryAcquireBarrierSync(old, t, k).s : k \in {x \in {0, 1} : TryAcquireBarrierSync(old, t, x).ok}}
    [] f = "_dispatch_queue_try_reserve_sync_width" -> IF TryReserveSyncWidth(old).ok THEN {TryReserveSyncWidth(old).s} ELSE {}
    [] f = "_dispatch_queue_reserve_sync_width" -> {ReserveSyncWidth(old)}
    [] f = "_dispatch_queue_try_acquire_async" -> IF TryAcquireAsync(old).ok THEN {TryAcquireAsync(old).s} ELSE {}
    [] f = "_dispatch_queue_try_upgrade_full_width" ->
         IF ~OwnsLock(old, t) THEN {} ELSE {TryUpgradeFullWidth(old, k).s : k \in {x \in 0..W : x <= old.used}}
    [] f = "_dispatch_lane_drain" -> IF op = "xor" /\ old.ib /\ OwnsLock(old, t) THEN {[old EXCEPT !.ib = FALSE]} ELSE {}
    [] f = "_dispatch_queue_invoke_finish" ->
         IF ~OwnsLock(old, t) THEN {} ELSE {InvokeFinish(old, o).s : o \in {x \in Owneds : SubOk2(old, x)}}
    [] f = "_dispatch_queue_wakeup" -> WithOverride({WakeupQ(old, p[1], p[2]).s : p \in {q \in BOOL \X (0..QW) : WakeupQ(old, q[1], q[2]).changed \/ (old.qos > 0 /\ q[2] > 0)}})
    [] f = "_dispatch_lane_push_waiter" -> WithOverride({PushWaiter(MergeQos(old, q), t).s : q \in 0..QW})
    [] f = "_dispatch_lane_non_barrier_complete" -> {NonBarrierComplete(old, t)}
    [] f = "_dispatch_lane_class_barrier_complete" ->
         IF op = "xor" THEN (IF old.dirty THEN {[old EXCEPT !.dirty = FALSE]} ELSE {})
         ELSE IF ~OwnsLock(old, t) THEN {}
         ELSE {BarrierComplete(old, p[1], p[2], p[3]).s :
                  p \in {q \in {FullO, SerialO} \X BOOL \X (0..1) : SubOk2(old, q[1]) /\ BarrierComplete(old, q[1], q[2], q[3]).ok}}
    [] f = "_dispatch_lane_drain_barrier_waiter" ->
         IF ~OwnsLock(old, t) THEN {} ELSE {DrainBarrierWaiter(old, n, e) : n \in Thr, e \in {x \in BOOL : x => old.enq}}
    [] f = "_dispatch_lane_drain_non_barriers" ->
         IF op = "and" THEN (IF old.ib /\ OwnsLock(old, t) THEN {[old EXCEPT !.ib = FALSE]} ELSE {})
         ELSE IF op = "xor" THEN (IF old.dirty THEN {[old EXCEPT !.dirty = FALSE]} ELSE {})
         ELSE IF ~OwnsLock(old, t) THEN {}
         ELSE {DrainNonBarriersExit(old, p[1], p[2], p[3], t).s :
                  p \in {q \in (0..W) \X BOOL \X BOOL : q[1] <= old.used /\ DrainNonBarriersExit(old, q[1], q[2], q[3], t).ok}}
    [] f = "_dispatch_lane_barrier_sync_invoke_and_complete" ->
         IF BarrierSyncUnlock(old).ok /\ OwnsLock(old, t) THEN {BarrierSyncUnlock(old).s} ELSE {}
    [] f = "_dispatch_lane_suspend" -> IF Suspend(old).ok THEN {Suspend(old).s} ELSE {}
    [] f = "_dispatch_lane_suspend_slow" -> {SuspendSlow(old, z).s : z \in {x \in BOOL : SuspendSlow(old, x).ok}}
    [] f = "_dispatch_lane_resume" ->
         {Resume(old, t, FALSE).s : x \in {y \in {1} : Resume(old, t, FALSE).kind \notin {"slow", "over_resume"}}}
         \cup {Activate(old).s : x \in {y \in {1} : Activate(old).kind # "noop"}}
    [] f = "_dispatch_lane_resume_slow" -> {ResumeSlow(old, c).s : c \in {x \in {SCHALF, 2 * SCHALF, 3 * SCHALF} : ResumeSlow(old, x).ok}}
    [] f = "_dispatch_barrier_trysync_or_async_f_complete" -> IF old.sc > 0 THEN {[old EXCEPT !.sc = @ - 1]} ELSE {}
    [] f = "_dispatch_lane_try_inactive_suspend" -> IF TryInactiveSuspend(old).ok THEN {TryInactiveSuspend(old).s} ELSE {}
    [] f = "_dispatch_lane_inherit_wlh_from_target" -> {old}     \* role bits only
    [] OTHER -> {}
\* ---- may function f give up (leave the word unchanged) on old ----
GiveUpOk(f, old, t) ==
  CASE f = "_dispatch_queue_drain_try_lock" -> TRUE       \* override retry / stealing: no decision involved
    [] f = "_dispatch_queue_drain_try_unlock" -> old.dirty /\ ~Suspended(old)
    [] f = "_dispatch_queue_try_acquire_barrier_sync_and_suspend" -> ~CompletelyIdle(old)
    [] f = "_dispatch_queue_try_reserve_sync_width" -> ~TryReserveSyncWidth(old).ok
    [] f = "_dispatch_queue_try_acquire_async" -> ~TryAcquireAsync(old).ok
    [] f = "_dispatch_queue_wakeup" -> \E q \in 0..QW : ~WakeupQ(old, FALSE, q).changed
    [] f = "_dispatch_lane_class_barrier_complete" -> old.dirty /\ ~Suspended(old)
    [] f = "_dispatch_lane_drain_non_barriers" -> old.dirty
    [] f = "_dispatch_lane_barrier_sync_invoke_and_complete" -> ~BarrierSyncUnlock(old).ok
    [] f = "_dispatch_lane_suspend" -> ~Suspend(old).ok
    [] f = "_dispatch_lane_suspend_slow" -> TRUE
    [] f = "_dispatch_lane_resume" -> Resume(old, t, FALSE).kind \in {"slow", "over_resume"} \/ Activate(old).kind = "noop"
    [] f = "_dispatch_lane_resume_slow" -> TRUE
    [] f = "_dispatch_lane_try_inactive_suspend" -> ~old.inact
    [] f = "_dispatch_wait_prepare" -> TRUE                 \* not a workloop: always gives up
    [] f = "_dispatch_lane_drain_barrier_waiter" -> FALSE   \* workloop only
    [] OTHER -> TRUE
KnownFuncs == {"_dispatch_queue_drain_try_lock", "_dispatch_queue_drain_try_unlock", "_dispatch_queue_try_acquire_barrier_sync_and_suspend",
  "_dispatch_queue_try_reserve_sync_width", "_dispatch_queue_reserve_sync_width", "_dispatch_queue_try_acquire_async",
  "_dispatch_queue_try_upgrade_full_width", "_dispatch_lane_drain", "_dispatch_queue_invoke_finish", "_dispatch_queue_wakeup",
  "_dispatch_lane_push_waiter", "_dispatch_lane_non_barrier_complete", "_dispatch_lane_class_barrier_complete",
  "_dispatch_lane_drain_barrier_waiter", "_dispatch_lane_drain_non_barriers", "_dispatch_lane_barrier_sync_invoke_and_complete",
  "_dispatch_lane_suspend", "_dispatch_lane_suspend_slow", "_dispatch_lane_resume", "_dispatch_lane_resume_slow",
  "_dispatch_barrier_trysync_or_async_f_complete", "_dispatch_lane_try_inactive_suspend", "_dispatch_lane_inherit_wlh_from_target"}
AllAllowed(op, old, t) == UNION {Allowed(f, op, old, t) : f \in KnownFuncs}

FastPath(r, old) ==
    /\ r.op = "cmpxchg" /\ r.ok = 1
    /\ \/ r.f \in {"_dispatch_queue_try_reserve_sync_width", "_dispatch_queue_try_acquire_barrier_sync_and_suspend"}
       \/ (r.f = "_dispatch_queue_try_acquire_async" /\ old.owner # ToString(r.t))
TInit == l = 2 /\ st = Idle0 /\ known = TRUE /\ drift = 0 /\ mustDirty = {} /\ behind = {} /\ TLCSet(1, 0)

Consume == l' = l + 1
IsSt == l <= Len(Tr) /\ Rec.e = "St"

TReset == /\ l <= Len(Tr) /\ Rec.e = "Reset" /\ Consume
          /\ st' = IF Rec.inactive THEN InactiveInit ELSE Idle0
          /\ known' = TRUE /\ drift' = drift /\ mustDirty' = {} /\ behind' = {}
\* at the end of an execution, after the flushing barrier returned, the word is idle again
TQuiesce == /\ l <= Len(Tr) /\ Rec.e = "Quiesce" /\ Consume
            /\ [st EXCEPT !.qos = 0, !.dirty = FALSE, !.ro = FALSE, !.enq = FALSE] = Idle0
            /\ UNCHANGED <<st, known, drift, mustDirty, behind>>
\* the exchange of dq_items_tail: a first enqueuer coming through _dispatch_lane_push owes the queue a wakeup with
\* MAKE_DIRTY (this is what makes a concurrent drainer's unlock fail and look at the list again)
TTail == /\ l <= Len(Tr) /\ Rec.e = "Tail" /\ Consume
         /\ mustDirty' = IF Rec.null THEN mustDirty
                          ELSE IF Rec.f = "_dispatch_lane_push" /\ Rec.first THEN mustDirty \cup {Rec.t} ELSE mustDirty \ {Rec.t}
         \* dq_items_tail became NULL (pop of the last item): nobody has anything enqueued any more; an enqueue puts its thread behind
         /\ behind' = IF Rec.null THEN {} ELSE behind \cup {Rec.t}
         /\ UNCHANGED <<st, known, drift>>
\* any API-level event of the thread ends the obligation window (the wakeup may legitimately be skipped when the
\* list was emptied by a drainer before the enqueuer probed it)
TOther == /\ l <= Len(Tr) /\ Rec.e \notin {"St", "Reset", "Quiesce", "Tail"} /\ Consume
          /\ mustDirty' = IF "t" \in DOMAIN Rec THEN mustDirty \ {Rec.t} ELSE mustDirty
          /\ UNCHANGED <<st, known, drift, behind>>

\* a record of an access to one half of the word, or one whose word has bits the abstraction does not carry
Opaque == Rec.op = "half" \/ "odd_old" \in DOMAIN Rec \/ "odd_new" \in DOMAIN Rec
TStOpaque == /\ IsSt /\ Opaque /\ Consume /\ known' = FALSE /\ UNCHANGED <<st, drift, mustDirty, behind>>

TSt == /\ IsSt /\ ~Opaque /\ Consume
       /\ LET old == Strip(Rec.old) new == Strip(Rec.new) base == Rec.base_old IN
          IF Rec.op = "giveup"
          THEN \* the loop left the word alone: that must be a decision the operator also takes on the value it observed
               /\ GiveUpOk(Rec.f, old, ToString(Rec.t)) /\ UNCHANGED <<st, known, drift, mustDirty, behind>>
               /\ ~(Rec.f = "_dispatch_queue_wakeup" /\ Rec.t \in mustDirty)      \* a MAKE_DIRTY wakeup never gives up
          ELSE
          /\ (known => old = st)                          \* values chain: every access observes what the previous one left
          /\ st' = new /\ known' = TRUE /\ behind' = behind
          \* submission fast paths (sync reader / barrier sync / async reader taken by a thread that does not hold the drain
          \* lock) are only legal when nothing this thread enqueued earlier is still in the list: each of them reads
          \* dq_items_tail = NULL first (rdar://24738102; for the barrier path this is the repair of finding F1)
          /\ (FastPath(Rec, old) => Rec.t \notin behind)
          /\ IF Rec.f = "_dispatch_queue_wakeup" /\ Rec.op = "cmpxchg" /\ Rec.ok = 1 /\ Rec.t \in mustDirty
             THEN new.dirty /\ mustDirty' = mustDirty \ {Rec.t}
             ELSE mustDirty' = mustDirty
          /\ CASE Rec.op = "load" -> new = old /\ drift' = drift
               [] Rec.op = "cmpxchg" /\ Rec.ok = 0 -> new = old /\ drift' = drift
               [] OTHER ->
                    IF Rec.f \in KnownFuncs
                    THEN (\E x \in Allowed(Rec.f, Rec.op, old, ToString(Rec.t)) : Eq(x, new, base)) /\ drift' = drift
                    ELSE (\E x \in AllAllowed(Rec.op, old, ToString(Rec.t)) : Eq(x, new, base)) /\ drift' = drift + 1   \* moved/renamed code
\* giveup records carry no value: they are projected with the word the loop last observed
TNext == TReset \/ TQuiesce \/ TOther \/ TTail \/ TStOpaque \/ TSt
TSpec == TInit /\ [][TNext]_tvars

WordOK == st.used >= 0 /\ st.used < 4096 + W /\ (st.pb => W > 1) /\ st.sc >= 0 /\ st.sc <= SCMAX
MaxL == IF TLCGet(1) < l THEN TLCSet(1, l) ELSE TRUE
Accepted == l > Len(Tr)
StopWhenAccepted == Accepted => (PrintT("TRACE_ACCEPTED") /\ PrintT(<<"DRIFT", drift>>) /\ TLCSet("exit", TRUE))
Post == PrintT(<<"MAXL", TLCGet(1), Len(Tr)>>)
=============================================================================
