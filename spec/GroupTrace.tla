---------------------------- MODULE GroupTrace ----------------------------
(* Trace validation: a recorded execution of the real dispatch_group (hooked build,
   harness/drv_group.c) must be a behaviour of Group.tla.  Every record is bound to one spec
   action with all logged fields compared (thread, GROUP, projected old/new word, list pointers mapped
   to notifier ids in order of appearance, memory order, futex arguments and results, API results).
   Several groups live in one execution: every record of a word of a group carries `grp` and is matched
   against the state of THAT group and against the group of the call its thread is in.
   Token discipline of dispatch_group_async: ItemStart(t, tok, grp) / ItemEnd(t, tok) bracket the client
   callout of item tok on thread t; the fetch-add (`Add`) the library performs for the item right after
   ItemEnd must be on the group the item entered (Leave: g = cur[t].g) -- an Add on any other group's word
   is explained by no action.  A thread cannot start another item before that leave happened.
   Silent steps (not hookable add-only or inside the kernel): the kernel's compare-and-sleep of
   FUTEX_WAIT, the elapsed-timeout return of _dispatch_wait_on_address without a syscall, and the
   spin reads of _dispatch_wait_for_enqueuer after a logged NULL load.
   All invariants of Group.tla are evaluated in every state of the matched behaviour; executions
   are concatenated with Reset records.  F2SEEN counts the executions in which the ghost
   classified an early notification as the known finding F2. *)
EXTENDS Group, Json, IOUtils, TLCExt

Tr == ndJsonDeserialize(IOEnv.TRACE)
\* record 1 is a header written by the runner:
\* {"e":"Header","nt":<threads>,"maxn":<notifiers per execution>,"ng":<groups per execution>}
TraceThreads == 0..(Tr[1].nt - 1)
TraceNIds == 1..Tr[1].maxn
TraceGroups == 0..(Tr[1].ng - 1)
NoProg == <<>>
Unbounded == -1

VARIABLES l,       \* next record
          ended,   \* the End record of the current execution has been consumed
          f2n      \* executions so far in which earlyF2 was raised
tvars == <<vars, l, ended, f2n>>

TInit == Init /\ l = 2 /\ ended = FALSE /\ f2n = 0 /\ TLCSet(1, 0)

Rec == Tr[l]
\* memory-order tokens are compared for information only: on this machine (x86-64 TSO) a different memory_order
\* argument cannot change any behaviour the properties speak about (DESIGN 5.6), so a mismatch is DRIFT, never a rejection
MoChk(m) == IF Rec.mo = m THEN TRUE ELSE PrintT(<<"MO_DRIFT", m, Rec.mo>>)
Ev(e) == l <= Len(Tr) /\ Rec.e = e
Consume == l' = l + 1 /\ UNCHANGED <<ip, ended, f2n>>
Same == UNCHANGED vars
\* the record is an access of the call thread Rec.t is in: same group
InGrp == Rec.grp \in Groups /\ G(Rec.t) = Rec.grp

OldW == [gen |-> Rec.og, nv |-> Rec.ov, hn |-> Rec.on, hw |-> Rec.ow]
NewW == [gen |-> Rec.ng, nv |-> Rec.nv, hn |-> Rec.nn, hw |-> Rec.nw]
\* 32-bit view (dg_bits): the generation is not part of the access
Low(w) == [nv |-> w.nv, hn |-> w.hn, hw |-> w.hw]
LowOld == [nv |-> Rec.ov, hn |-> Rec.on, hw |-> Rec.ow]
LowNew == [nv |-> Rec.nv, hn |-> Rec.nn, hw |-> Rec.nw]

TReset ==
    /\ Ev("Reset") /\ l' = l + 1
    /\ (l = 2 \/ ended)            \* an execution ends with its End record
    /\ ended' = FALSE /\ f2n' = f2n
    /\ st' = [g \in Groups |-> S0] /\ ntail' = [g \in Groups |-> 0] /\ nhead' = [g \in Groups |-> 0]
    /\ nnext' = [n \in NIds |-> 0]
    /\ futexQ' = [g \in Groups |-> {}] /\ pc' = [t \in Threads |-> "idle"] /\ lv' = [t \in Threads |-> L0]
    /\ ip' = ip /\ spur' = 0 /\ cur' = [t \in Threads |-> C0]
    /\ outstanding' = [g \in Groups |-> {}] /\ own' = [g \in Groups |-> [t \in Threads |-> {}]]
    /\ tasks' = [g \in Groups |-> {}]
    /\ pushed' = [g \in Groups |-> {}] /\ regd' = {} /\ before' = [n \in NIds |-> {}]
    /\ zeroAfter' = [n \in NIds |-> FALSE]
    /\ fired' = [n \in NIds |-> 0] /\ ran' = [n \in NIds |-> 0]
    /\ zeroSeen' = [t \in Threads |-> FALSE] /\ waitRes' = [t \in Threads |-> "none"]
    /\ earlyF2' = FALSE /\ earlyOther' = FALSE

\* the driver reached the end of the execution: every call has returned, all explicit and
\* asynchronous work has left, every notification block has run.  C07 at the end of a history:
\* EVERY group's count is zero, nothing is left behind, every notifier was submitted and ran exactly once,
\* no thread is still inside an item.
TEnd ==
    /\ Ev("End") /\ l' = l + 1 /\ ~ended /\ ended' = TRUE
    /\ f2n' = IF earlyF2 THEN f2n + 1 ELSE f2n
    /\ UNCHANGED <<vars, ip>>
EndOK == ended => /\ \A t \in Threads : pc[t] = "idle" /\ cur[t].tk = 0
                  /\ \A g \in Groups : /\ Count(st[g].nv) = 0 /\ outstanding[g] = {} /\ tasks[g] = {}
                                       /\ \A n \in pushed[g] : fired[n] = 1 /\ ran[n] = 1

(* ---- API events ---- *)
TCallNotify == Ev("CallNotify") /\ Consume /\ Rec.grp \in Groups /\ CallNotify(Rec.t, Rec.grp)
TCallWait   == Ev("CallWait") /\ Consume /\ Rec.grp \in Groups /\ CallWait(Rec.t, Rec.grp, Rec.kind)
\* the API call returned: the spec thread must already be back to idle (with that result)
TRet        == Ev("Ret") /\ Consume /\ pc[Rec.t] = "idle" /\ Same
TRetWait    == /\ Ev("RetWait") /\ Consume /\ pc[Rec.t] = "idle"
               /\ waitRes[Rec.t] = (IF Rec.r = 0 THEN "ok" ELSE "timeout") /\ Same
TNotifyRan  == Ev("NotifyRan") /\ Consume /\ NotifyRan(Rec.n)
\* the client callout of a dispatch_group_async item
TItemStart  == Ev("ItemStart") /\ Consume /\ Rec.grp \in Groups /\ ItemStart(Rec.t, Rec.grp, Rec.tok)
TItemEnd    == Ev("ItemEnd") /\ Consume /\ ItemEnd(Rec.t, Rec.tok)

(* ---- dg_state / dg_bits / dg_gen ---- *)
TSub == /\ Ev("Sub") /\ Consume /\ Rec.grp \in Groups /\ Enter(Rec.t, Rec.grp, Rec.tok, Rec.async = 1)
        /\ ~cur[Rec.t].done
        /\ Low(st[Rec.grp]) = LowOld /\ Low(st'[Rec.grp]) = LowNew /\ MoChk("acquire")
\* tok: the work the thread is leaving (its own CallLeave, or the item whose callout just ended on it)
TAdd == /\ Ev("Add") /\ Consume /\ Rec.grp \in Groups /\ Leave(Rec.t, Rec.grp, Rec.tok)
        /\ st[Rec.grp] = OldW /\ MoChk("release")
        \* the fetch-add's result (the CAS of the clearing loop is a separate record)
        /\ LET s == st[Rec.grp] IN
           [gen |-> IF s.nv = VMOD - 1 THEN s.gen + 1 ELSE s.gen, nv |-> (s.nv + 1) % VMOD,
            hn |-> s.hn, hw |-> s.hw] = NewW
TLoadS == /\ Ev("LoadS") /\ Consume /\ InGrp /\ st[Rec.grp] = OldW /\ MoChk("relaxed")
          /\ \/ NotifyLoad(Rec.t)
             \/ WaitLoad(Rec.t)
TCas == /\ Ev("Cas") /\ Consume /\ InGrp /\ st[Rec.grp] = OldW
        /\ IF Rec.ok = 1
             THEN /\ \/ LeaveCasOk(Rec.t) /\ MoChk("relaxed")
                     \/ NotifyCasOk(Rec.t) /\ MoChk("release")
                     \/ WaitCasOk(Rec.t) /\ MoChk("relaxed")
                  /\ st'[Rec.grp] = NewW
             ELSE \/ LeaveCasFail(Rec.t) \/ NotifyCasFail(Rec.t) \/ WaitCasFail(Rec.t)
\* the rmw loop gave up on the value just read (no access): the spec thread has already taken the
\* corresponding branch (returned, went to the slow path, or started _dispatch_group_wake)
TGiveUp == /\ Ev("GiveUp") /\ Consume /\ pc[Rec.t] \in {"idle", "w_fcall", "wk_head"}
           /\ (pc[Rec.t] = "idle" \/ InGrp) /\ Same
TLoadG == /\ Ev("LoadG") /\ Consume /\ InGrp /\ st[Rec.grp].gen = Rec.g /\ MoChk("acquire") /\ WaitGenLoad(Rec.t)

(* ---- the notify list ---- *)
TXchgT == /\ Ev("XchgT") /\ Consume /\ InGrp /\ ntail[Rec.grp] = Rec.old /\ MoChk("release")
          /\ IF Rec.new # 0 THEN NotifyXchg(Rec.t, Rec.new) ELSE WakeTailXchg(Rec.t)
TStoreH == /\ Ev("StoreH") /\ Consume /\ InGrp
           /\ IF Rec.v # 0 THEN NotifyLink(Rec.t) /\ lv[Rec.t].prev = 0 /\ lv[Rec.t].n = Rec.v
                           ELSE WakeHeadClear(Rec.t)
TLoadH == /\ Ev("LoadH") /\ Consume /\ InGrp /\ nhead[Rec.grp] = Rec.v
          /\ IF Rec.v # 0 THEN WakeGetHead(Rec.t) ELSE WakeHeadNull(Rec.t)
TStoreN == /\ Ev("StoreN") /\ Consume
           /\ IF Rec.v # 0
                THEN NotifyLink(Rec.t) /\ lv[Rec.t].prev = Rec.c /\ lv[Rec.t].n = Rec.v
                \* dx_push of the snapshotted continuation onto its target queue: the SUBMISSION
                ELSE WakeSubmit(Rec.t) /\ lv[Rec.t].dc = Rec.c
TLoadN == /\ Ev("LoadN") /\ Consume /\ Rec.c \in NIds /\ nnext[Rec.c] = Rec.v /\ lv[Rec.t].dc = Rec.c
          /\ IF Rec.v # 0 THEN WakeGetNext(Rec.t) ELSE WakeNextNull(Rec.t)

(* ---- futex ---- *)
TFutexWait == /\ Ev("FutexWait") /\ Consume /\ pc[Rec.t] = "w_fcall" /\ InGrp /\ lv[Rec.t].g = Rec.val
              /\ (Rec.timed = 1) = (lv[Rec.t].kind = "timed") /\ Same
TFutexRet == /\ Ev("FutexRet") /\ Consume /\ InGrp
             /\ CASE Rec.rc = 0   -> FutexWoken(Rec.t) \/ FutexSpurious(Rec.t)
                  [] Rec.rc = 4   -> FutexSpurious(Rec.t) \/ FutexWoken(Rec.t)     \* EINTR
                  [] Rec.rc = 11  -> FutexAgain(Rec.t)                              \* EWOULDBLOCK
                  [] Rec.rc = 110 -> FutexTimeout(Rec.t)                            \* ETIMEDOUT
                  [] OTHER -> FALSE
TFutexWake == Ev("FutexWake") /\ Consume /\ InGrp /\ WakeFutex(Rec.t)

\* silent steps
TSilent == /\ l <= Len(Tr) /\ UNCHANGED <<l, ip, ended, f2n>>
           /\ \E t \in Threads :
                \/ FutexSleep(t)
                \/ WaitElapsed(t)
                \/ (lv[t].nul /\ WakeGetHead(t))
                \/ (lv[t].nul /\ WakeGetNext(t))

TNext == TReset \/ TEnd \/ TCallNotify \/ TCallWait \/ TRet \/ TRetWait \/ TNotifyRan \/ TItemStart \/ TItemEnd
         \/ TSub \/ TAdd \/ TLoadS \/ TCas \/ TGiveUp \/ TLoadG
         \/ TXchgT \/ TStoreH \/ TLoadH \/ TStoreN \/ TLoadN
         \/ TFutexWait \/ TFutexRet \/ TFutexWake \/ TSilent

TSpec == TInit /\ [][TNext]_tvars

\* longest matched prefix, reported on rejection
MaxL == IF TLCGet(1) < l THEN TLCSet(1, l) ELSE TRUE
Accepted == l > Len(Tr)
\* evaluated in every reached state: stop at the first accepting state
StopWhenAccepted == Accepted => (PrintT(<<"F2SEEN", f2n + (IF earlyF2 /\ ~ended THEN 1 ELSE 0)>>)
                                 /\ PrintT("TRACE_ACCEPTED") /\ TLCSet("exit", TRUE))
Post == PrintT(<<"MAXL", TLCGet(1), Len(Tr)>>)
=============================================================================
