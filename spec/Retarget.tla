------------------------------ MODULE Retarget ------------------------------
(* dispatch_sync through a two-level hierarchy racing a deferred dispatch_set_target_queue() of the top queue
   (src/queue.c: _dispatch_sync_f_inline -> _dispatch_sync_recurse -> _dispatch_sync_invoke_and_complete_recurse ->
   _dispatch_sync_complete_recurse;  _dispatch_lane_set_target_queue -> _dispatch_barrier_trysync_or_async_f ->
   _dispatch_lane_legacy_set_target_queue).

   Queues: Q (top, concurrent), its target OLD, the new target NEW; OLD / NEW are concurrent or serial (constant
   LowerSerial).  The synchronous caller A reserves Q, reads Q's target while it holds Q, reserves/locks that
   target, runs its body, then completes level by level.  The retargeter R calls dispatch_set_target_queue(Q, NEW):
   when Q is completely idle the barrier runs inline, otherwise a barrier item is pushed (deferred).  A worker W
   drains Q when the barrier is at the head and Q has no reader left; Q is an item of the queue it was enqueued on,
   so W also needs that queue to let it run (a serial queue locked by A does not; a concurrent one does).

   Finding F4 (fixed by ea40453): the pinned _dispatch_sync_complete_recurse read dq->do_targetq AFTER completing
   (unlocking) dq.  Mut = "target_read_after_unlock" re-creates it.  One action per shared access. *)
EXTENDS Integers, TLC
CONSTANTS LowerSerial, Mut
VARIABLES tgt,        \* Q->do_targetq
          held,       \* held[q]: reader width (concurrent) or barrier lock (serial: 0/1) held on q by synchronous callers
          pend,       \* the deferred retarget barrier is in Q's list
          enqOn,      \* the queue Q is currently enqueued on for draining ("none" if not enqueued)
          pcA, dqA, tqA, chainA,   \* A: program counter, the cursor of complete_recurse, its saved target, what it locked
          pcR, pcW, bad
vars == <<tgt, held, pend, enqOn, pcA, dqA, tqA, chainA, pcR, pcW, bad>>
Queues == {"Q", "OLD", "NEW"}
Init == /\ tgt = "OLD" /\ held = [q \in Queues |-> 0] /\ pend = FALSE /\ enqOn = "none"
        /\ pcA = "reserveQ" /\ dqA = "Q" /\ tqA = "none" /\ chainA = <<>> /\ pcR = "call" /\ pcW = "idle" /\ bad = "none"

\* ---------------- A: dispatch_sync_f(Q, body), non-barrier (Q is concurrent) ----------------
\* _dispatch_queue_try_reserve_sync_width(Q): refused while a barrier is pending (then A would take the slow path and
\* wait: not the interesting case, A simply retries)
AReserveQ == /\ pcA = "reserveQ" /\ ~pend /\ held' = [held EXCEPT !["Q"] = @ + 1] /\ pcA' = "recurse"
             /\ UNCHANGED <<tgt, pend, enqOn, dqA, tqA, chainA, pcR, pcW, bad>>
\* _dispatch_sync_recurse: tq = dq->do_targetq (Q is held: stable), acquire it (barrier if serial, width otherwise)
ARecurse == /\ pcA = "recurse"
            /\ (LowerSerial => held[tgt] = 0)
            /\ held' = [held EXCEPT ![tgt] = @ + 1] /\ chainA' = <<"Q", tgt>> /\ pcA' = "body"
            /\ UNCHANGED <<tgt, pend, enqOn, dqA, tqA, pcR, pcW, bad>>
ABody == /\ pcA = "body" /\ pcA' = "loop" /\ dqA' = "Q"
         /\ UNCHANGED <<tgt, held, pend, enqOn, tqA, chainA, pcR, pcW, bad>>
\* _dispatch_sync_complete_recurse, one iteration = (read target) ; complete(dq) ; (read target) ; dq = target
AReadBefore == /\ pcA = "loop" /\ Mut # "target_read_after_unlock"
               /\ tqA' = (IF dqA = "Q" THEN tgt ELSE "root") /\ pcA' = "complete"
               /\ UNCHANGED <<tgt, held, pend, enqOn, dqA, chainA, pcR, pcW, bad>>
ASkipRead == /\ pcA = "loop" /\ Mut = "target_read_after_unlock" /\ pcA' = "complete"
             /\ UNCHANGED <<tgt, held, pend, enqOn, dqA, tqA, chainA, pcR, pcW, bad>>
\* _dispatch_lane_non_barrier_complete / BARRIER_COMPLETE wakeup of dqA: gives the width / lock back; the last reader of
\* a queue with a pending barrier hands the queue to a drainer (enqueues it on its CURRENT target)
AComplete == /\ pcA = "complete"
             /\ IF held[dqA] = 0 THEN bad' = "underflow" /\ held' = held
                ELSE bad' = bad /\ held' = [held EXCEPT ![dqA] = @ - 1]
             /\ enqOn' = IF dqA = "Q" /\ pend /\ held[dqA] = 1 THEN tgt ELSE enqOn
             /\ pcA' = IF Mut = "target_read_after_unlock" THEN "readafter" ELSE "advance"
             /\ UNCHANGED <<tgt, pend, dqA, tqA, chainA, pcR, pcW>>
AReadAfter == /\ pcA = "readafter" /\ tqA' = (IF dqA = "Q" THEN tgt ELSE "root") /\ pcA' = "advance"
              /\ UNCHANGED <<tgt, held, pend, enqOn, dqA, chainA, pcR, pcW, bad>>
\* dq = tq; while (dq->do_targetq): the root queue ends the walk
AAdvance == /\ pcA = "advance" /\ dqA' = tqA /\ pcA' = IF tqA = "root" THEN "done" ELSE "loop"
            /\ UNCHANGED <<tgt, held, pend, enqOn, tqA, chainA, pcR, pcW, bad>>

\* ---------------- R: dispatch_set_target_queue(Q, NEW) ----------------
\* _dispatch_barrier_trysync_or_async_f: inline when Q is completely idle, else push a barrier item (+ suspend/resume, folded)
RCall == /\ pcR = "call" /\ pcR' = "done"
         /\ IF held["Q"] = 0 THEN tgt' = "NEW" /\ pend' = pend ELSE pend' = TRUE /\ tgt' = tgt
         /\ UNCHANGED <<held, enqOn, pcA, dqA, tqA, chainA, pcW, bad>>
\* ---------------- W: drains Q from the queue it is enqueued on; the barrier item is _dispatch_lane_legacy_set_target_queue --
WDrain == /\ pcW = "idle" /\ enqOn # "none" /\ pend /\ held["Q"] = 0
          /\ (LowerSerial => held[enqOn] = 0)      \* a serial lower queue locked by a synchronous caller does not run its items
          /\ tgt' = "NEW" /\ pend' = FALSE /\ enqOn' = "none"
          /\ UNCHANGED <<held, pcA, dqA, tqA, chainA, pcR, pcW, bad>>

Next == AReserveQ \/ ARecurse \/ ABody \/ AReadBefore \/ ASkipRead \/ AComplete \/ AReadAfter \/ AAdvance \/ RCall \/ WDrain
Spec == Init /\ [][Next]_vars
FairSpec == Spec /\ WF_vars(Next)

NoUnderflow == bad = "none"
\* C01 (nothing stranded): once the synchronous call has returned, nothing it acquired is still held - a width unit or
\* lock left behind keeps every later barrier of that queue from ever running
NothingLeftHeld == pcA = "done" => \A q \in Queues : held[q] = 0
\* the completion walks exactly the chain that was locked
CompletesWhatItLocked == (pcA = "complete") => (\E i \in 1..2 : chainA[i] = dqA)
RetargetTakesEffect == <>(pcR = "done" /\ ~pend /\ tgt = "NEW")
=============================================================================
