------------------------------ MODULE MainQueue ------------------------------
(* The thread-bound main queue on Linux (src/queue.c: _dispatch_main_queue_push,
   _dispatch_main_queue_wakeup -> _dispatch_runloop_queue_wakeup -> _dispatch_runloop_queue_poke
   -> eventfd_write, _dispatch_main_queue_callback_4CF -> _dispatch_main_queue_drain: snapshot of
   the MPSC list, items run in snapshot order on the main thread, dx_wakeup at the end), before
   dispatch_main() turns it into an ordinary serial lane (then Lane.tla applies).
   Sync waiters pushed on a thread-bound queue are not handed the lock: the main thread runs
   their work item itself (_dispatch_async_and_wait_invoke) and signals their thread event.
   One action per shared-memory access / eventfd operation.  C02's "including the main queue". *)
EXTENDS Integers, Sequences, FiniteSets, TLC

CONSTANTS Clients, Items, Kind, Prog, Mut     \* Kind[i] in {"async", "sync"}
NULL == "null"
MAIN == "main"
Threads == Clients \cup {MAIN}
VARIABLES head, tail, nxt,     \* dq_items_head / dq_items_tail / do_next
          efd,                 \* counter of the runloop eventfd (the main queue's handle)
          pc, lv, ip, ev,
          snap,                \* main thread: <<current, last>> of the captured snapshot
          order, runCount, done, running, pred
vars == <<head, tail, nxt, efd, pc, lv, ip, ev, snap, order, runCount, done, running, pred>>
L0 == [item |-> NULL, prev |-> NULL]
Init == /\ head = NULL /\ tail = NULL /\ nxt = [i \in Items |-> NULL] /\ efd = 0
        /\ pc = [t \in Threads |-> "idle"] /\ lv = [t \in Threads |-> L0] /\ ip = [c \in Clients |-> 1]
        /\ ev = [i \in Items |-> 0] /\ snap = <<NULL, NULL>> /\ order = <<>>
        /\ runCount = [i \in Items |-> 0] /\ done = {} /\ running = {} /\ pred = [i \in Items |-> {}]
Go(t, l) == pc' = [pc EXCEPT ![t] = l]
Returned == UNION {{Prog[c][k] : k \in 1..(ip[c] - 1)} : c \in Clients}
MP == <<head, tail, nxt>>
GH == <<order, runCount, done, running>>

(* ---------------- client: dispatch_async / dispatch_sync on the main queue ---------------- *)
Start(c) == /\ pc[c] = "idle" /\ ip[c] <= Len(Prog[c])
            /\ lv' = [lv EXCEPT ![c] = [L0 EXCEPT !.item = Prog[c][ip[c]]]]
            /\ pred' = [pred EXCEPT ![Prog[c][ip[c]]] = Returned]
            /\ Go(c, "push_tail")           \* sync: the fast path always fails on a thread-bound queue (owner = main thread)
            /\ UNCHANGED <<MP, efd, ip, ev, snap, GH>>
PushTail(c) == /\ pc[c] = "push_tail" /\ tail' = lv[c].item /\ lv' = [lv EXCEPT ![c].prev = tail] /\ Go(c, "push_prev")
               /\ UNCHANGED <<head, nxt, efd, ip, ev, snap, GH, pred>>
PushPrev(c) == /\ pc[c] = "push_prev"
               /\ IF lv[c].prev = NULL THEN head' = lv[c].item /\ nxt' = nxt ELSE nxt' = [nxt EXCEPT ![lv[c].prev] = lv[c].item] /\ head' = head
               \* first pusher: dx_wakeup(MAKE_DIRTY); others: only when need_override (max_qos == 0): modelled as a free choice
               /\ \/ Go(c, "wk_probe")
                  \/ (lv[c].prev # NULL /\ Go(c, "pushed"))
                  \/ (Mut = "first_push_no_wakeup" /\ Go(c, "pushed"))
               /\ UNCHANGED <<tail, efd, lv, ip, ev, snap, GH, pred>>
\* _dispatch_runloop_queue_wakeup: if (_dispatch_queue_class_probe(dq)) poke
WkProbe(t) == /\ pc[t] = "wk_probe" /\ Go(t, IF tail # NULL THEN "wk_poke" ELSE (IF t = MAIN THEN "cb_done" ELSE "pushed"))
              /\ UNCHANGED <<MP, efd, lv, ip, ev, snap, GH, pred>>
\* _dispatch_runloop_queue_class_poke: eventfd_write(handle, 1)
WkPoke(t) == /\ pc[t] = "wk_poke" /\ efd' = efd + 1 /\ Go(t, IF t = MAIN THEN "cb_done" ELSE "pushed")
             /\ UNCHANGED <<MP, lv, ip, ev, snap, GH, pred>>
Pushed(c) == /\ pc[c] = "pushed"
             /\ IF Kind[lv[c].item] = "sync" THEN Go(c, "wait_event") /\ ip' = ip
                ELSE Go(c, "idle") /\ ip' = [ip EXCEPT ![c] = @ + 1]
             /\ UNCHANGED <<MP, efd, lv, ev, snap, GH, pred>>
WaitEvent(c) == /\ pc[c] = "wait_event" /\ ev[lv[c].item] = 1 /\ Go(c, "idle") /\ ip' = [ip EXCEPT ![c] = @ + 1]
                /\ UNCHANGED <<MP, efd, lv, ev, snap, GH, pred>>

(* ---------------- main thread: runloop + _dispatch_main_queue_drain ---------------- *)
\* the runloop wakes up when the handle is readable and consumes it
Runloop == /\ pc[MAIN] = "idle" /\ efd > 0 /\ efd' = 0 /\ Go(MAIN, "cb_tail")
           /\ UNCHANGED <<MP, lv, ip, ev, snap, GH, pred>>
\* if (!dq->dq_items_tail) return;
CbTail == /\ pc[MAIN] = "cb_tail" /\ Go(MAIN, IF tail = NULL THEN "idle" ELSE "snap_head")
          /\ UNCHANGED <<MP, efd, lv, ip, ev, snap, GH, pred>>
\* os_mpsc_capture_snapshot: head = get_head (spins until published); store(head, NULL); tail = xchg(tail, NULL)
SnapHead == /\ pc[MAIN] = "snap_head" /\ head # NULL /\ snap' = <<head, NULL>> /\ head' = NULL /\ Go(MAIN, "snap_tail")
            /\ UNCHANGED <<tail, nxt, efd, lv, ip, ev, GH, pred>>
SnapTail == /\ pc[MAIN] = "snap_tail" /\ snap' = <<snap[1], tail>> /\ tail' = NULL /\ Go(MAIN, "pop")
            /\ UNCHANGED <<head, nxt, efd, lv, ip, ev, GH, pred>>
\* next_dc = os_mpsc_pop_snapshot_head(dc, tail): waits for the link unless dc is the snapshot's last item
Pop == /\ pc[MAIN] = "pop"
       /\ LET dc == snap[1] IN
          /\ (dc = snap[2] \/ nxt[dc] # NULL)
          /\ lv' = [lv EXCEPT ![MAIN] = [item |-> dc, prev |-> IF dc = snap[2] THEN NULL ELSE nxt[dc]]]
       /\ Go(MAIN, "call")
       /\ UNCHANGED <<MP, efd, ip, ev, snap, GH, pred>>
Call == /\ pc[MAIN] = "call"
        /\ running' = running \cup {lv[MAIN].item} /\ runCount' = [runCount EXCEPT ![lv[MAIN].item] = @ + 1]
        /\ order' = Append(order, lv[MAIN].item) /\ done' = done /\ Go(MAIN, "call_end")
        /\ UNCHANGED <<MP, efd, lv, ip, ev, snap, pred>>
CallEnd == /\ pc[MAIN] = "call_end"
           /\ running' = running \ {lv[MAIN].item} /\ done' = done \cup {lv[MAIN].item}
           /\ ev' = IF Kind[lv[MAIN].item] = "sync" THEN [ev EXCEPT ![lv[MAIN].item] = 1] ELSE ev   \* signal the waiter
           /\ IF lv[MAIN].prev # NULL THEN snap' = <<lv[MAIN].prev, snap[2]>> /\ Go(MAIN, "pop")
              ELSE snap' = <<NULL, NULL>> /\ Go(MAIN, IF Mut = "no_final_wakeup" THEN "cb_done" ELSE "wk_probe")   \* dx_wakeup(dq, 0, 0)
           /\ UNCHANGED <<MP, efd, lv, ip, order, runCount, pred>>
CbDone == /\ pc[MAIN] = "cb_done" /\ Go(MAIN, "idle") /\ UNCHANGED <<MP, efd, lv, ip, ev, snap, GH, pred>>

ClientStep(c) == Start(c) \/ PushTail(c) \/ PushPrev(c) \/ WkProbe(c) \/ WkPoke(c) \/ Pushed(c) \/ WaitEvent(c)
MainStep == Runloop \/ CbTail \/ SnapHead \/ SnapTail \/ Pop \/ Call \/ CallEnd \/ CbDone \/ WkProbe(MAIN) \/ WkPoke(MAIN)
Next == (\E c \in Clients : ClientStep(c)) \/ MainStep
Spec == Init /\ [][Next]_vars
FairSpec == Spec /\ (\A c \in Clients : WF_vars(ClientStep(c))) /\ WF_vars(MainStep)

AtMostOnce == \A i \in Items : runCount[i] <= 1
NoOverlap == Cardinality(running) <= 1
\* submission order: a returned before b was submitted => a ran before b
Fifo == \A b \in running \cup done : \A a \in pred[b] : a \in done
SyncAfterEnd == \A c \in Clients : \A k \in 1..(ip[c] - 1) : Kind[Prog[c][k]] = "sync" => Prog[c][k] \in done
\* no lost wakeup: when nothing moves and the handle is not readable, the list is empty
AllSubmitted == \A c \in Clients : ip[c] > Len(Prog[c]) \/ pc[c] = "wait_event"
NoLostWakeup == ((\A c \in Clients : pc[c] \in {"idle", "wait_event"}) /\ pc[MAIN] = "idle" /\ efd = 0) => tail = NULL
Live == <>(done = Items)
=============================================================================
