------------------------------ MODULE DataGen ------------------------------
(* Behaviour generator for C13: Data.tla plus (a) the constant definitions the configurations under
   spec/cfg/Data_*.cfg refer to and (b) an "invariant" that appends every COMPLETE behaviour (all
   client references dropped) with the expected projection after each step to the file named by
   the environment variable C13_OUT, one line per behaviour:  <length> <<n1, n2, ...>>.
   harness/drv_data.c replays each line on the real library. *)
EXTENDS Data, CSV, IOUtils

OutFile == IOEnv.C13_OUT
Emit(h) == CSVWrite("%1$s %2$s", <<Len(h), h>>, OutFile)
EmitTerminal == /\ Terminal => Emit(HistCodes)
                /\ BuildComplete => Emit(HistCodes \o TailCodes)

\* ---- leaf shapes ----
C1 == {"custom"}
CD == {"custom", "default"}
ALLK == {"custom", "default", "free", "customnq"}
Lens_2x2   == <<1..2, 0..2>>
Lens_2x3   == <<1..3, 0..3>>
Lens_t23   == <<{3}, 0..3>>
Lens_3x2   == <<1..2, 1..2, 0..2>>
Lens_3x3   == <<1..3, 1..3, 0..3>>
Lens_q     == <<{2}, {0, 1, 2}>>
Lens_q2    == <<{2}, {1, 3}>>
Lens_ab    == <<{2}, {1, 2}>>
Lens_f2    == <<{2}>>
Lens_f3    == <<{3}>>
Kinds_c1   == <<C1>>
Lens_f22   == <<{2}, {2}>>
Lens_f21   == <<{2}, {1}>>
Lens_k     == <<{0, 2}, {0, 1}>>
Lens_f212  == <<{2}, {1}, {2}>>
Lens_f321  == <<{3}, {2}, {1}>>
Lens_sim   == <<1..4, 0..4, 1..3, 0..5>>
Kinds_c2   == <<C1, C1>>
Kinds_c3   == <<C1, C1, C1>>
Kinds_cd2  == <<C1, CD>>
Kinds_cdf3 == <<C1, {"default"}, {"free"}>>
Kinds_all2 == <<ALLK, ALLK>>
Kinds_sim  == <<ALLK, ALLK, ALLK, ALLK>>
AllOps  == {"concat", "subrange", "map", "region"}
FlatOps == {"concat", "subrange", "map", "region", "flatten"}
=============================================================================
