---------------------------- MODULE DQStateConf ----------------------------
(* Function-level conformance (code -> spec): every row written by harness/drv_dqstate.c
   is one call of a REAL dq_state transition function of src/inline_internal.h on a
   concretised abstract state; the row must equal what the DQState operator yields. *)
EXTENDS DQState, Sequences, Json, IOUtils, TLCExt

Rows == ndJsonDeserialize(IOEnv.ROWS)
VARIABLE k
B2I(b) == IF b THEN 1 ELSE 0

Expect(r) ==
  LET in == r.in IN
  CASE r.f = "pred" -> [ok |-> TRUE, out |-> in, ret |-> 2 * B2I(Suspended(in)) + B2I(Locked(in)),
                         extra |-> (r.a1 = B2I(Runnable(in)) /\ r.a2 = B2I(SyncRunnable(in)))]
    [] r.f = "drain_try_lock" ->
         LET x == DrainTryLock(in, "self") IN
         [ok |-> TRUE, out |-> x.s, ret |-> B2I(x.ok),
          extra |-> (x.ok => (r.o_ib = x.owned.ib /\ r.o_w = x.owned.w /\ r.o_enq = x.owned.enq /\ r.o_bad = 0))]
    [] r.f = "try_acquire_barrier_sync" ->
         LET x == IF r.tail THEN [ok |-> FALSE, s |-> in] ELSE TryAcquireBarrierSync(in, "self", 0) IN
         [ok |-> TRUE, out |-> x.s, ret |-> B2I(x.ok), extra |-> TRUE]
    [] r.f = "try_acquire_barrier_sync_and_suspend" ->
         LET x == TryAcquireBarrierSync(in, "self", r.a1) IN
         [ok |-> TRUE, out |-> x.s, ret |-> B2I(x.ok), extra |-> TRUE]
    [] r.f = "try_reserve_sync_width" ->
         LET x == IF r.tail THEN [ok |-> FALSE, s |-> in] ELSE TryReserveSyncWidth(in) IN
         [ok |-> TRUE, out |-> x.s, ret |-> B2I(x.ok), extra |-> TRUE]
    [] r.f = "reserve_sync_width" -> [ok |-> TRUE, out |-> ReserveSyncWidth(in), ret |-> 1, extra |-> TRUE]
    [] r.f = "try_acquire_async" ->
         LET x == TryAcquireAsync(in) IN [ok |-> TRUE, out |-> x.s, ret |-> B2I(x.ok), extra |-> TRUE]
    [] r.f = "try_upgrade_full_width" ->
         LET x == TryUpgradeFullWidth(in, r.a1) IN [ok |-> TRUE, out |-> x.s, ret |-> B2I(x.ok), extra |-> TRUE]
    [] r.f = "drain_try_unlock" ->
         LET x == DrainTryUnlock(in, [ib |-> r.o_ib, w |-> r.o_w, enq |-> r.o_enq, res |-> FALSE], r.a1 = 1) IN
         [ok |-> TRUE, out |-> x.s, ret |-> B2I(x.ok), extra |-> TRUE]
    [] r.f = "try_inactive_suspend" ->
         LET x == TryInactiveSuspend(in) IN [ok |-> TRUE, out |-> x.s, ret |-> B2I(x.ok), extra |-> TRUE]
    [] r.f = "merge_qos" -> [ok |-> TRUE, out |-> MergeQos(in, r.a1), ret |-> 1, extra |-> TRUE]
    [] OTHER -> [ok |-> FALSE, out |-> in, ret |-> 0, extra |-> FALSE]

RowOk(r) ==
  IF r.f = "adjust_owned" THEN r.ret = (IF W > 1 /\ r.a2 = 1 /\ ~r.pb THEN 1 ELSE 0)
  ELSE LET e == Expect(r) IN e.ok /\ r.proj /\ r.out = e.out /\ r.ret = e.ret /\ e.extra

Init == k = 1
Next == /\ k <= Len(Rows) /\ k' = k + 1
RowsOk == k <= Len(Rows) => (RowOk(Rows[k]) \/ (PrintT(<<"MISMATCH", k, Rows[k], IF Rows[k].f = "adjust_owned" THEN "reservation" ELSE Expect(Rows[k])>>) /\ FALSE))
Post == PrintT(<<"CONFROWS", Len(Rows), TLCGet("distinct")>>)
=============================================================================
