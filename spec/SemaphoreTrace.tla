-------------------------- MODULE SemaphoreTrace --------------------------
(* Trace validation: a recorded execution of the real dispatch_semaphore
   (hooked build, harness/drv_semaphore.c) must be a behaviour of Semaphore.tla.
   Every record is bound to one spec action with all logged fields compared;
   the only silent step is the plain (unhookable) read `orig = dsema->dsema_value`. *)
EXTENDS Semaphore, Json, IOUtils, TLCExt

Tr == ndJsonDeserialize(IOEnv.TRACE)
\* record 1 is a header written by the runner: {"e":"Header","nt":<number of threads>}
TraceThreads == 0..(Tr[1].nt - 1)

VARIABLE l
tvars == <<vars, l>>

TInit == Init /\ l = 2 /\ TLCSet(1, 0)

Rec == Tr[l]
\* memory-order tokens are compared for information only: on this machine (x86-64 TSO) a different memory_order
\* argument cannot change any behaviour the properties speak about (DESIGN 5.6), so a mismatch is DRIFT, never a rejection
MoChk(m) == IF Rec.mo = m THEN TRUE ELSE PrintT(<<"MO_DRIFT", m, Rec.mo>>)
Ev(e) == l <= Len(Tr) /\ Rec.e = e
Consume == l' = l + 1

TReset ==
    /\ Ev("Reset") /\ Consume
    /\ AllIdle    \* an execution ends with every call returned
    /\ v0' = Rec.v0 /\ value' = Rec.v0 /\ ksem' = 0
    /\ pc' = [t \in Threads |-> "idle"]
    /\ kind' = [t \in Threads |-> "forever"]
    /\ orig' = [t \in Threads |-> 0]
    /\ tmo' = [t \in Threads |-> FALSE]
    /\ calls' = [t \in Threads |-> 0]
    /\ sigStarted' = 0 /\ sigDone' = 0 /\ succ' = 0 /\ fail' = 0
    /\ lastRet' = [t \in Threads |-> -1]

TCallSignal == Ev("CallSignal") /\ Consume /\ CallSignal(Rec.t)
TCallWait   == Ev("CallWait") /\ Consume /\ CallWait(Rec.t, Rec.kind)
\* the API call returned: the spec thread must already be back to idle with that result
TRetSignal  == /\ Ev("RetSignal") /\ Consume /\ pc[Rec.t] = "idle" /\ lastRet[Rec.t] = Rec.r
               /\ UNCHANGED vars
TRetWait    == /\ Ev("RetWait") /\ Consume /\ pc[Rec.t] = "idle"
               /\ lastRet[Rec.t] = (IF Rec.r = 0 THEN 0 ELSE 2)
               /\ UNCHANGED vars
TInc  == /\ Ev("Inc") /\ Consume /\ SigInc(Rec.t)
         /\ value = Rec.old /\ value' = Rec.new /\ MoChk("release")
TDec  == /\ Ev("Dec") /\ Consume /\ WaitDec(Rec.t)
         /\ value = Rec.old /\ value' = Rec.new /\ MoChk("acquire")
TCas  == /\ Ev("Cas") /\ Consume
         /\ IF Rec.ok = 1 THEN UndoCasOk(Rec.t) /\ value = Rec.old /\ value' = Rec.new
                          ELSE UndoCasFail(Rec.t) /\ value = Rec.old
\* an atomic load of the counter changes nothing (tolerated: the pinned code has none)
TLoad == Ev("Load") /\ Consume /\ value = Rec.old /\ UNCHANGED vars
TPost == Ev("Post") /\ Consume /\ SigPost(Rec.t)
TWaitRet == Ev("WaitRet") /\ Consume /\ KsemWait(Rec.t)
TTimedRet == /\ Ev("TimedRet") /\ Consume
             /\ IF Rec.timedout = 1 THEN TimedTimeout(Rec.t) ELSE TimedOk(Rec.t)
\* silent: the plain read in the undo path
TSilent == /\ l <= Len(Tr) /\ UNCHANGED l
           /\ \E t \in Threads : UndoRead(t)

TNext == TLoad \/ TReset \/ TCallSignal \/ TCallWait \/ TRetSignal \/ TRetWait \/ TInc \/ TDec \/ TCas
         \/ TPost \/ TWaitRet \/ TTimedRet \/ TSilent

TSpec == TInit /\ [][TNext]_tvars

\* longest matched prefix, reported on rejection
MaxL == IF TLCGet(1) < l THEN TLCSet(1, l) ELSE TRUE
Accepted == l > Len(Tr)
\* evaluated in every reached state: stop at the first accepting state
StopWhenAccepted == Accepted => (PrintT("TRACE_ACCEPTED") /\ TLCSet("exit", TRUE))
Post == PrintT(<<"MAXL", TLCGet(1), Len(Tr)>>)
=============================================================================
