---------------------------- MODULE TimerTrace ----------------------------
(* Trace validation (code -> spec) for the manager side of the timer machinery.

   harness/drv_timer.c (trace mode) records, through the guarded H5 probes in
   src/event/event.c and src/event/event_epoll.c, every decision the manager thread takes on
   the three timer heaps of a real execution:
       arm / disarm      _dispatch_timer_unote_arm / _disarm   (heap insert, update, remove)
       run               _dispatch_timers_run: the timer at dth_min[TARGET] and the `now` it is compared with
       fire              ... the value stored in ds_pending_data and the target after
                         _dispatch_timer_unote_compute_missed
       prog / kprog      _dispatch_timers_program -> _dispatch_timeout_program (timerfd_settime / EPOLL_CTL_DEL)
       kevent            _dispatch_event_merge_timer (the timerfd expired)
       wait              the manager enters a BLOCKING epoll_wait
   and, through the hooked atomics of shims/atomic.h (no probe needed), for the timers the driver created:
       configure         _dispatch_timer_unote_configure on whatever thread runs it (manager: source invoke /
                         _dispatch_timers_run; target queue: tail of _dispatch_source_latch_and_call; activation):
                         pd = class of ds_pending_data at the moment the pending configuration was taken
                         (xchg dt_pending_config -> NULL; 0 nothing, 1 marker only, 2 count, 3 count|DISARMED_MARKER),
                         and the configuring thread's NEXT access to that ds_pending_data (loads made by configure
                         itself excepted): op (1 store, 2 xchg, 3 load, 4 other rmw), old and new value (capped at 255)
   Times are microseconds since a base (TLC integers are 32-bit), floor(ns / 1000).  floor is
   monotone, so minima and "target <= now" survive the conversion.  The driver gives every
   timer IT creates a start and an interval that are whole microseconds: for those, targets
   stay whole microseconds for ever and the quotient (now - target) / interval is reproduced
   exactly.  Timers it does not create (the library's own workqueue-monitor timer) are marked
   x = 1 in their arm records: the quotient law is not evaluated for them and "target > now"
   is relaxed to >= (sub-microsecond information is lost).

   The recorded execution must be a behaviour of this module: the state (armed set with
   targets and intervals, programmed kernel timer) is rebuilt from the records with the
   operators of Timer.tla's algorithm (TimerLaws), and each record must satisfy the law the
   corresponding action of Timer.tla obeys:
       RunTakesMinimum         MRun examines a timer of MinTimers (binds dth_min to the reference on real populations)
       FireOnlyWhenDue         Due(r, now)                        (NeverEarly at the point of decision)
       ComputeMissed           pending count and new target = ComputeMissed(r, now, 0)
       ProgramsMinimum         MProg programs the kernel timer with MinTarget, deletes it iff the heap is empty or due
       ArmedImpliesProgrammed  when the manager blocks, every non-empty heap has its kernel timer enabled at <= MinTarget
       TimeMonotone            the `now` values the manager uses never decrease (clocks 1, 2; the wall clock 3 may be stepped)
       ConfigureClearsPending  Timer!Configure: pcnt' = 0 /\ pmark' = FALSE whether or not the timer is armed ("clear any
                               pending data that might have accumulated on older timer params"): the configuring thread
                               stores 0 to ds_pending_data, or at least finds 0 there when it next looks.  Nobody else can
                               clear the word in between: the thread is the manager (the only one that fires timers) or
                               holds the source's drain lock with the timer out of the heap.  A disarmed timer carries
                               count << 1 | MARKER exactly when it has an undelivered fire (pd = 3): keeping it would deliver
                               a count of the replaced configuration (OnlyNewConfig / NeverEarly / CountBound of Timer.tla)
   OWNERSHIP (Timer.tla: HeapMutatedOnlyByOwner, KernelTimerProgrammedOnlyByOwner, OffManagerMayConfigure, ProgrammedCoversHeap).
   Every record carries th, a small index of the thread that executed the probe / the hooked atomic.  The manager is the
   thread that produced the records only the manager's loop can produce (epoll_wait: `wait`, timerfd expiry: `kevent`); the
   driver names it in the `threads` record that opens each execution (mgr; nw = number of distinct threads seen there, must
   be 1).  Laws:
       HeapMutatedOnlyByOwner             arm (heap insert / re-sift) and disarm (heap remove) records come from the manager
       KernelTimerProgrammedOnlyByOwner   run / fire / prog / kprog records come from the manager
       OffManagerMayConfigure             cfgtake = _dispatch_timer_unote_configure takes the pending configuration
                                          (xchg dt_pending_config -> NULL), recorded at that very access: a thread other than
                                          the manager does so only for a timer that is NOT in a heap (t = 0: no armed slot;
                                          arm = 0: DU_STATE_ARMED clear), and if it is delivering that timer (lm >= 0: the
                                          thread's last xchg of ds_pending_data in _dispatch_source_latch_and_call was this
                                          timer's) the latched value carried DISPATCH_TIMER_DISARMED_MARKER (lm = 1).
                                          lm = -1: the thread never latched this timer (activation).
       ProgrammedCoversHeap               (Timer.tla evaluates it in every state, i.e. also right after steps of other
                                          threads) the manager has recorded nothing since it entered a blocking epoll_wait and
                                          somebody else's arm/disarm leaves a heap whose minimum is not covered by the enabled
                                          kernel timer: nothing will wake the manager for it
   `bad` names the first law broken ("LAW ...") or the first record the state rebuilt so far
   cannot explain structurally ("DRIFT ...": the probes or this module are out of date). *)
EXTENDS Integers, FiniteSets, Sequences, TLC, Json, IOUtils, TLCExt, TimerLaws

Tr == ndJsonDeserialize(IOEnv.TRACE)
\* record 1 is the header written by the runner: {"e":"Header","nt":<timer slots>}
NT == Tr[1].nt
TT == 1..NT
CC == 1..3

VARIABLES l,       \* next record
          am,      \* [slot -> [armed, clk, tgt, iv]]   (same fields as Timer!tm)
          kt, ken, \* [clock -> programmed expiry], [clock -> enabled in the epoll set]
          tnow,    \* [clock -> last `now` the manager used]
          lastrun, \* the last run record: [t, tgt, now] (t = 0: none)
          mgr,     \* thread index of the manager in this execution (0: not known)
          blocked, \* the manager entered a blocking epoll_wait and has recorded nothing since
          bad
tvars == <<l, am, kt, ken, tnow, lastrun, mgr, blocked, bad>>

Unarmed == [armed |-> FALSE, clk |-> 1, tgt |-> INF, iv |-> INF, x |-> 0]
TInit == /\ l = 2 /\ am = [t \in TT |-> Unarmed]
         /\ kt = [c \in CC |-> INF] /\ ken = [c \in CC |-> FALSE]
         /\ tnow = [c \in CC |-> 0] /\ lastrun = [t |-> 0, tgt |-> 0, now |-> 0] /\ bad = <<"", "">>
         /\ mgr = 0 /\ blocked = FALSE
         /\ TLCSet(1, 0)

Rec == Tr[l]
Ev(e) == l <= Len(Tr) /\ Rec.e = e
NoBad == <<"", "">>
\* checks: a sequence of <<holds, "LAW" | "DRIFT", text>>; the first one that does not hold is remembered
Judge(checks) ==
    bad' = IF bad # NoBad THEN bad
           ELSE LET F == {i \in 1..Len(checks) : ~checks[i][1]}
                IN IF F = {} THEN NoBad ELSE <<checks[MinOf(F)][2], checks[MinOf(F)][3]>>
Val(x) == IF x < 0 THEN INF ELSE x           \* -1 in the trace = INT64_MAX / UINT64_MAX
ByOwner == mgr = 0 \/ Rec.th = mgr
OwnerHeap == <<ByOwner, "LAW", "HeapMutatedOnlyByOwner: a timer heap was changed (insert / re-sift / remove) by a thread that is not the manager: nothing reprograms the timerfd for it">>
OwnerKernel == <<ByOwner, "LAW", "KernelTimerProgrammedOnlyByOwner: a decision of _dispatch_timers_run / _dispatch_timers_program was recorded by a thread that is not the manager">>
Covered(m) == \A c \in CC : Heap(m, c) # {} => ken[c] /\ kt[c] <= MinTarget(m, c)
CoverLaw(m) == <<ByOwner \/ ~blocked \/ Covered(m), "LAW",
                 "ProgrammedCoversHeap: while the manager sits in a blocking epoll_wait another thread changed a heap so that its minimum target is not covered by the enabled kernel timer: the timer will not fire at its settings">>
\* the manager recorded something: it is not blocked
Unblock == blocked' = (blocked /\ ~ByOwner)

TArm == /\ Ev("arm")
        /\ am' = [am EXCEPT ![Rec.t] = [armed |-> TRUE, clk |-> Rec.c, tgt |-> Val(Rec.tgt), iv |-> Val(Rec.iv), x |-> Rec.x]]
        /\ Judge(<< <<Val(Rec.tgt) < INF, "DRIFT", "arm with target >= INT64_MAX">>, CoverLaw(am'), OwnerHeap >>)
        /\ Unblock /\ UNCHANGED <<kt, ken, tnow, lastrun, mgr>>
TDisarm == /\ Ev("disarm")
           /\ am' = [am EXCEPT ![Rec.t] = Unarmed]
           /\ Judge(<< <<am[Rec.t].armed /\ am[Rec.t].clk = Rec.c, "DRIFT", "disarm of a timer that is not in that heap">>, OwnerHeap >>)
           /\ Unblock /\ UNCHANGED <<kt, ken, tnow, lastrun, mgr>>
\* _dispatch_timers_run looks at dth_min[DTH_TARGET_ID]
TRun == /\ Ev("run")
        /\ lastrun' = [t |-> Rec.t, tgt |-> Val(Rec.tgt), now |-> Rec.now]
        /\ tnow' = [tnow EXCEPT ![Rec.c] = Rec.now]
        /\ Judge(<< <<am[Rec.t].armed /\ am[Rec.t].clk = Rec.c /\ am[Rec.t].tgt = Val(Rec.tgt),
                      "DRIFT", "run examines a timer whose recorded arming differs">>,
                    <<Rec.t \in MinTimers(am, Rec.c), "LAW", "RunTakesMinimum: dth_min[TARGET] is not a timer with the smallest target">>,
                    <<Rec.c = 3 \/ Rec.now >= tnow[Rec.c], "LAW", "TimeMonotone: the manager used a `now` smaller than before">>, OwnerKernel >>)
        /\ Unblock /\ UNCHANGED <<am, kt, ken, mgr>>
\* the fire branch of _dispatch_timers_run: compute_missed; (re)arm or disarm follow as their own records
TFire == /\ Ev("fire")
         /\ LET r == am[Rec.t]
                cm == ComputeMissed(r, lastrun.now, 0)
                src == Rec.kind = "source" /\ r.x = 0
            IN Judge(<< <<lastrun.t = Rec.t /\ r.armed, "DRIFT", "fire without the run record of that timer">>,
                        <<r.tgt <= lastrun.now, "LAW", "FireOnlyWhenDue: fired with target > now">>,
                        <<Rec.kind # "after" \/ Rec.cnt = 1, "LAW", "ComputeMissed: dispatch_after pending data is not 2">>,
                        <<~src \/ Rec.cnt = cm[2], "LAW", "ComputeMissed: pending count is not (now - target) / interval + 1">>,
                        <<~src \/ Val(Rec.ntgt) = cm[1].tgt, "LAW", "ComputeMissed: new target is not target + missed * interval">>, OwnerKernel >>)
         /\ Unblock /\ UNCHANGED <<am, kt, ken, tnow, lastrun, mgr>>
\* _dispatch_timers_program decided: cls 0 = due now (delay 0), 1 = arm the kernel timer, 2 = nothing to wait for
TProg == /\ Ev("prog")
         /\ LET mt == MinTarget(am, Rec.c)
                fuzzy == \E t \in MinTimers(am, Rec.c) : am[t].x = 1
            IN Judge(<< <<Rec.cls # 2 \/ mt >= INF, "LAW", "ProgramsMinimum: heap not empty but no delay computed">>,
                        <<Rec.cls = 2 \/ mt < INF, "LAW", "ProgramsMinimum: heap empty but a delay computed">>,
                        <<Rec.cls # 0 \/ mt <= Rec.now, "LAW", "ProgramsMinimum: delay 0 although the minimum target is in the future">>,
                        <<Rec.cls # 1 \/ mt > Rec.now \/ (fuzzy /\ mt = Rec.now), "LAW", "ProgramsMinimum: minimum target is due but a positive delay was computed">>,
                        <<Rec.cls = 2 \/ Rec.c = 3 \/ Rec.now >= tnow[Rec.c], "LAW", "TimeMonotone: the manager used a `now` smaller than before">>, OwnerKernel >>)
         /\ tnow' = [tnow EXCEPT ![Rec.c] = IF Rec.cls = 2 THEN @ ELSE Rec.now]
         /\ Unblock /\ UNCHANGED <<am, kt, ken, lastrun, mgr>>
\* _dispatch_timeout_program(tidx, target): timerfd_settime(ABSTIME target) + epoll ADD/MOD, or EPOLL_CTL_DEL
TKprog == /\ Ev("kprog")
          /\ kt' = [kt EXCEPT ![Rec.c] = IF Val(Rec.tgt) < INF THEN Val(Rec.tgt) ELSE @]
          /\ ken' = [ken EXCEPT ![Rec.c] = Val(Rec.tgt) < INF]
          /\ Judge(<< <<Val(Rec.tgt) >= INF \/ Val(Rec.tgt) = MinTarget(am, Rec.c),
                        "LAW", "ProgramsMinimum: kernel timer programmed with a time that is not the minimum target">>, OwnerKernel >>)
          /\ Unblock /\ UNCHANGED <<am, tnow, lastrun, mgr>>
TKevent == /\ Ev("kevent")
           /\ ken' = [ken EXCEPT ![Rec.c] = FALSE]
           /\ Judge(<< <<ken[Rec.c], "DRIFT", "timerfd event although the kernel timer was not enabled">>,
                       <<ByOwner, "DRIFT", "timerfd event merged by a thread other than the one named as manager">> >>)
           /\ Unblock /\ UNCHANGED <<am, kt, tnow, lastrun, mgr>>
\* the manager blocks in epoll_wait: the safety core of "always fires"
TWait == /\ Ev("wait")
         /\ Judge(<< <<ByOwner, "DRIFT", "blocking epoll_wait by a thread other than the one named as manager">>,
                     <<Covered(am), "LAW",
                       "ArmedImpliesProgrammed: the manager blocks with a non-empty heap whose kernel timer is not programmed at or before the minimum target">> >>)
         /\ blocked' = TRUE
         /\ UNCHANGED <<am, kt, ken, tnow, lastrun, mgr>>

\* opens an execution: which thread is the manager
TThreads == /\ Ev("threads")
            /\ mgr' = Rec.mgr /\ blocked' = FALSE
            /\ Judge(<< <<Rec.nw <= 1, "DRIFT", "more than one thread entered epoll_wait / merged a timerfd event: the manager cannot be identified">> >>)
            /\ UNCHANGED <<am, kt, ken, tnow, lastrun>>
\* _dispatch_timer_unote_configure takes the pending configuration (Timer!Configure): Timer!MInvoke / Timer!MRun on the
\* manager, Timer!Activate (never armed yet), or Timer!TPost, whose guard is OffManagerMayConfigure(r) == r.prevmark
TCfgTake == /\ Ev("cfgtake")
            /\ Judge(<< <<Rec.lm \in -1..1 /\ Rec.arm \in 0..1 /\ Rec.t \in 0..NT, "DRIFT", "malformed cfgtake record">>,
                        <<ByOwner \/ (Rec.t = 0 /\ Rec.arm = 0 /\ Rec.lm # 0), "LAW",
                          "OffManagerMayConfigure: a thread that is not the manager applied a pending configuration to a timer that is in the heap (the data it latched carried no DISARMED marker): it re-sifts a heap it does not own and leaves nothing pending that would take the source to the manager">> >>)
            /\ UNCHANGED <<am, kt, ken, tnow, lastrun, mgr, blocked>>

\* _dispatch_timer_unote_configure, word level (the memory_order of the store plays no role)
TConfigure == /\ Ev("configure")
              /\ Judge(<< <<Rec.op \in 1..4 /\ Rec.pd \in 0..3, "DRIFT", "malformed configure record">>,
                          <<IF Rec.op = 1 THEN Rec.nv = 0 ELSE Rec.ov = 0, "LAW",
                            "ConfigureClearsPending: _dispatch_timer_unote_configure left pending data of the replaced configuration in ds_pending_data">> >>)
              /\ UNCHANGED <<am, kt, ken, tnow, lastrun, mgr, blocked>>

\* several executions (processes) are validated in one run: a reset record separates them
TReset == /\ Ev("reset")
          /\ am' = [t \in TT |-> Unarmed]
          /\ kt' = [c \in CC |-> INF] /\ ken' = [c \in CC |-> FALSE]
          /\ tnow' = [c \in CC |-> 0] /\ lastrun' = [t |-> 0, tgt |-> 0, now |-> 0]
          /\ mgr' = 0 /\ blocked' = FALSE
          /\ UNCHANGED bad

TNext == /\ l' = l + 1
         /\ (TArm \/ TDisarm \/ TRun \/ TFire \/ TProg \/ TKprog \/ TKevent \/ TWait \/ TConfigure \/ TReset \/ TThreads \/ TCfgTake)
TSpec == TInit /\ [][TNext]_tvars

NoLawBroken == bad[1] # "LAW"
NoDrift == bad[1] # "DRIFT"
MaxL == IF TLCGet(1) < l THEN TLCSet(1, l) ELSE TRUE
Accepted == l > Len(Tr)
StopWhenAccepted == Accepted => (PrintT("TRACE_ACCEPTED") /\ TLCSet("exit", TRUE))
Post == PrintT(<<"MAXL", TLCGet(1), Len(Tr)>>)
=============================================================================
