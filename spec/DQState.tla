------------------------------ MODULE DQState ------------------------------
(* Pure transition functions of the 64-bit dq_state word of a dispatch lane
   (src/queue_internal.h layout, src/inline_internal.h and src/queue.c RMW loops).
   One operator per os_atomic_rmw_loop on dq_state:  F(old, args) -> result record.
   The word is abstracted to the record below; `used` is the width field relative to
   the queue's own initial value:  used = width_bits - (WIDTH_FULL - dq_width),
   so the queue is "runnable" (state < WIDTH_FULL_BIT) iff it carries no suspend /
   in-barrier bit and used < W.  Control-flow modules (Lane.tla) and the function-level
   conformance harness (harness/drv_dqstate.c, which calls the real inline functions
   on concrete words) both use exactly these operators. *)
EXTENDS Integers, TLC

CONSTANTS W,        \* dq_width of the lane (1 = serial)
          QW,       \* MAX(fallback qos, priority qos) of the queue: what _dispatch_queue_wakeup_qos(dq, 0) yields (0 or 1)
          SCMAX,    \* capacity of the inline suspend count (63 in C; small in model checking)
          SCHALF,   \* DISPATCH_QUEUE_SUSPEND_HALF (32 in C)
          BASE      \* TRUE: role BASE_ANON (targets a root queue); FALSE: inner queue

NULL == "null"

Idle0 == [sc |-> 0, side |-> FALSE, inact |-> FALSE, na |-> FALSE, ib |-> FALSE, pb |-> FALSE,
          used |-> 0, dirty |-> FALSE, enq |-> FALSE, ro |-> FALSE, qos |-> 0, owner |-> NULL]
InactiveInit == [Idle0 EXCEPT !.inact = TRUE, !.na = TRUE]

\* _dq_state_is_suspended: dq_state >= DISPATCH_QUEUE_NEEDS_ACTIVATION
Suspended(s) == s.sc > 0 \/ s.side \/ s.inact \/ s.na
SuspendBitsOnly(s) == <<s.sc, s.side, s.inact, s.na>>
Locked(s) == s.owner # NULL
\* _dq_state_is_runnable: dq_state < WIDTH_FULL_BIT ; _dq_state_is_sync_runnable: dq_state < IN_BARRIER
Runnable(s) == ~Suspended(s) /\ ~s.ib /\ s.used < W
SyncRunnable(s) == ~Suspended(s) /\ ~s.ib
\* "completely idle": dq_state == STATE_INIT_VALUE(width) | role
CompletelyIdle(s) == s = Idle0

\* _dq_state_merge_qos
MergeQos(s, q) == IF s.qos < q THEN [s EXCEPT !.qos = q, !.ro = IF BASE THEN TRUE ELSE @] ELSE s
\* new_state &= ~DISPATCH_QUEUE_DRAIN_UNLOCK_MASK  (owner, RECEIVED_OVERRIDE; sync-transfer bits never set here)
ClearUnlock(s) == [s EXCEPT !.owner = NULL, !.ro = FALSE]
\* new_state &= DISPATCH_QUEUE_DRAIN_PRESERVED_BITS_MASK  (ENQUEUED, role, MAX_QOS survive)
Preserved(s) == [Idle0 EXCEPT !.enq = s.enq, !.qos = s.qos]

\* `owned` as computed by the drainers: in-barrier bit, width units, enqueued bit,
\* and the pending-barrier reservation made by _dispatch_queue_adjust_owned
Owned0 == [ib |-> FALSE, w |-> 0, enq |-> FALSE, res |-> FALSE]
\* new_state = old_state - owned
Sub(s, o) == [s EXCEPT !.ib = IF o.ib THEN FALSE ELSE @,
                       !.used = @ - o.w + (IF o.res THEN W - 1 ELSE 0),
                       !.pb = IF o.res THEN TRUE ELSE @,
                       !.enq = IF o.enq THEN FALSE ELSE @]
\* would the subtraction borrow across fields?  (never in a correct execution; checked as invariant)
SubOk(s, o) == (o.ib => s.ib) /\ (o.enq => s.enq) /\ (o.res => ~s.pb)

\* does the queue have enough free width for a barrier: has_pending_barrier || state + (W-1) units < FULL_BIT
CanTakeBarrier(s) == s.pb \/ s.used = 0

(* ---- _dispatch_queue_drain_try_lock (inline_internal.h) ; flags = plain drain ---- *)
DrainTryLock(s, self) ==
    IF Runnable(s) /\ ~Locked(s)
    THEN LET ibn == CanTakeBarrier(s) IN
         [ok |-> TRUE,
          s |-> [Preserved(s) EXCEPT !.owner = self, !.used = W, !.ib = ibn],
          owned |-> [ib |-> ibn, w |-> W - s.used, enq |-> s.enq, res |-> FALSE]]
    ELSE [ok |-> FALSE, s |-> [s EXCEPT !.enq = ~@], owned |-> Owned0]   \* new_state ^= dequeue_mask

(* ---- _dispatch_queue_try_acquire_barrier_sync_and_suspend ---- *)
TryAcquireBarrierSync(s, self, suspendCount) ==
    IF CompletelyIdle(s)
    THEN [ok |-> TRUE, s |-> [Idle0 EXCEPT !.owner = self, !.used = W, !.ib = TRUE, !.sc = suspendCount]]
    ELSE [ok |-> FALSE, s |-> s]

(* ---- _dispatch_queue_reserve_sync_width / _try_reserve_sync_width / _try_acquire_async ---- *)
ReserveSyncWidth(s) == [s EXCEPT !.used = @ + 1]
TryReserveSyncWidth(s) ==
    IF SyncRunnable(s) /\ ~s.dirty /\ ~s.pb THEN [ok |-> TRUE, s |-> [s EXCEPT !.used = @ + 1]]
    ELSE [ok |-> FALSE, s |-> s]
TryAcquireAsync(s) ==
    IF Runnable(s) /\ ~s.dirty /\ ~s.pb THEN [ok |-> TRUE, s |-> [s EXCEPT !.used = @ + 1]]
    ELSE [ok |-> FALSE, s |-> s]

(* ---- _dispatch_queue_try_upgrade_full_width(dq, owned) ---- *)
TryUpgradeFullWidth(s, ownedW) ==
    LET a == [s EXCEPT !.used = @ - ownedW + (IF s.pb THEN 0 ELSE W - 1), !.pb = TRUE]
        b == IF Runnable(a) THEN [a EXCEPT !.used = @ + 1, !.ib = TRUE, !.pb = FALSE] ELSE a
        n == [b EXCEPT !.dirty = FALSE] IN
    [ok |-> n.ib, s |-> n]

(* ---- _dispatch_queue_drain_try_unlock(dq, owned, done) ---- *)
DrainTryUnlock(s, owned, done) ==
    LET n == ClearUnlock(Sub(s, owned)) IN
    IF Suspended(s) THEN [ok |-> TRUE, s |-> n]
    ELSE IF s.dirty THEN [ok |-> FALSE, s |-> [s EXCEPT !.dirty = FALSE]]   \* give up; xor DIRTY (acquire)
    ELSE IF done THEN [ok |-> TRUE, s |-> [n EXCEPT !.qos = 0]]
    ELSE [ok |-> TRUE, s |-> [n EXCEPT !.dirty = TRUE]]

(* ---- _dispatch_queue_invoke_finish (no barrier waiter) ---- *)
InvokeFinish(s, owned) ==
    LET a == [ClearUnlock(Sub(s, owned)) EXCEPT !.dirty = TRUE]
        n == IF Runnable(a) /\ ~a.enq THEN [a EXCEPT !.enq = TRUE] ELSE a IN
    [s |-> n, push |-> (n.enq /\ ~Sub(s, owned).enq)]

(* ---- _dispatch_queue_wakeup rmw (target = TARGET) ---- *)
\* q = _dispatch_queue_wakeup_qos(dq, 0): QW once the queue's priority is known (0 before an inactive queue is activated)
WakeupQ(s, makeDirty, q) ==
    LET a == MergeQos(s, q)
        b == IF ~Suspended(s) /\ ~s.enq /\ ~Locked(s) THEN [a EXCEPT !.enq = TRUE] ELSE a
        n == IF makeDirty THEN [b EXCEPT !.dirty = TRUE] ELSE b IN
    [changed |-> (makeDirty \/ n # s), s |-> n, push |-> (n.enq /\ ~s.enq)]
Wakeup(s, makeDirty) == WakeupQ(s, makeDirty, QW)

(* ---- _dispatch_lane_push_waiter rmw (waiter made the list non-empty), qos = 0 ---- *)
PushWaiter(s, self) ==
    LET a == [s EXCEPT !.dirty = TRUE] IN
    IF Locked(s) \/ ~Runnable(s) THEN [s |-> a, took |-> FALSE]
    ELSE IF CanTakeBarrier(a) THEN [s |-> [Preserved(a) EXCEPT !.owner = self, !.used = W, !.ib = TRUE], took |-> TRUE]
    ELSE [s |-> a, took |-> FALSE]

(* ---- _dispatch_lane_non_barrier_complete_try_lock ---- *)
NbcTryLock(old, n, self) ==
    LET fw == IF n.pb THEN [n EXCEPT !.pb = FALSE, !.used = @ + 1, !.ib = TRUE]
                      ELSE [n EXCEPT !.used = @ + W, !.ib = TRUE] IN
    IF fw.used = W THEN [fw EXCEPT !.dirty = FALSE, !.owner = self]
    ELSE IF old.dirty THEN [n EXCEPT !.enq = TRUE]
    ELSE n
(* ---- _dispatch_lane_non_barrier_complete rmw ---- *)
NonBarrierComplete(s, self) ==
    LET a == [s EXCEPT !.used = @ - 1] IN
    IF Locked(s) THEN [a EXCEPT !.dirty = TRUE]
    ELSE IF Runnable(a) THEN NbcTryLock(s, a, self)
    ELSE a

(* ---- _dispatch_lane_class_barrier_complete rmw; enqueue = target is TARGET ---- *)
BarrierComplete(s, owned, enqueue, qos) ==
    LET n == ClearUnlock(MergeQos(Sub(s, owned), qos)) IN
    IF Suspended(s) THEN [ok |-> TRUE, s |-> n]
    ELSE IF enqueue THEN [ok |-> TRUE, s |-> IF ~s.enq THEN [n EXCEPT !.enq = TRUE] ELSE n]
    ELSE IF s.dirty THEN [ok |-> FALSE, s |-> [s EXCEPT !.dirty = FALSE]]  \* xor DIRTY, then dx_wakeup(BARRIER_COMPLETE)
    ELSE [ok |-> TRUE, s |-> [n EXCEPT !.qos = 0]]

(* ---- _dispatch_lane_drain_barrier_waiter rmw (transfer of the drain lock) ---- *)
DrainBarrierWaiter(s, nextOwner, enqOwned) ==
    [ClearUnlock(s) EXCEPT !.dirty = FALSE, !.owner = nextOwner, !.enq = IF enqOwned THEN FALSE ELSE @]

(* ---- _dispatch_lane_drain_non_barriers: final rmw ---- *)
DrainNonBarriersExit(s, ownedW, dcPresent, dcBarrier, self) ==
    LET o == [ib |-> FALSE, w |-> ownedW, enq |-> FALSE, res |-> (dcPresent /\ dcBarrier /\ W > 1 /\ ~s.pb)]
        a == [ClearUnlock(Sub(s, o)) EXCEPT !.dirty = FALSE] IN
    IF dcPresent THEN [ok |-> TRUE, s |-> NbcTryLock(s, [a EXCEPT !.dirty = TRUE], self), old |-> Sub(s, o)]
    ELSE IF s.dirty THEN [ok |-> FALSE, s |-> [s EXCEPT !.dirty = FALSE], old |-> s]
    ELSE [ok |-> TRUE, s |-> a, old |-> Sub(s, o)]

(* ---- _dispatch_lane_barrier_sync_invoke_and_complete: cheap unlock of a serial queue ---- *)
BarrierSyncUnlock(s) ==
    IF Suspended(s) \/ s.enq \/ s.dirty \/ s.ro THEN [ok |-> FALSE, s |-> s]
    ELSE [ok |-> TRUE, s |-> [ClearUnlock([s EXCEPT !.ib = FALSE, !.used = @ - 1]) EXCEPT !.qos = 0]]

(* ---- suspension: _dispatch_lane_suspend / _suspend_slow / _resume / _resume_slow ---- *)
\* inline add of one SUSPEND_INTERVAL; overflow of the 64-bit word <=> sc = SCMAX
Suspend(s) == IF s.sc = SCMAX THEN [ok |-> FALSE, s |-> s] ELSE [ok |-> TRUE, s |-> [s EXCEPT !.sc = @ + 1]]
\* slow path under the side lock: move SCHALF counts to the side counter while adding one:
\* dq_state -= (SCHALF - 1) * INTERVAL (- HAS_SIDE bit if side count was 0, i.e. sets it)
SuspendSlow(s, sideWasZero) ==
    IF s.sc < SCHALF - 1 \/ (sideWasZero /\ s.side)    \* os_sub_overflow: retry from scratch
    THEN [ok |-> FALSE, s |-> s]
    ELSE [ok |-> TRUE, s |-> [s EXCEPT !.sc = @ - (SCHALF - 1), !.side = TRUE]]
\* the five outcomes of the non-activating resume RMW
Resume(s, self, isSource) ==
    IF SuspendBitsOnly(s) = <<1, FALSE, FALSE, TRUE>>               \* { sc:1 i:0 na:1 } -> clear na, run activation
    THEN [kind |-> "activate", s |-> [s EXCEPT !.na = FALSE]]
    ELSE IF isSource /\ SuspendBitsOnly(s) = <<0, FALSE, TRUE, TRUE>>
    THEN [kind |-> "activate", s |-> [s EXCEPT !.sc = 1, !.inact = FALSE, !.na = FALSE]]
    ELSE IF s.sc = 0 /\ ~s.side /\ ~s.inact /\ ~s.na THEN [kind |-> "over_resume", s |-> s]
    ELSE IF s.sc = 0 /\ ~s.inact /\ ~s.na THEN [kind |-> "slow", s |-> s]   \* borrow from the side count
    ELSE IF s.sc = 0 THEN [kind |-> (IF s.side THEN "slow" ELSE "over_resume"), s |-> s]
    ELSE LET n == [s EXCEPT !.sc = @ - 1] IN
         IF ~Runnable(n) THEN [kind |-> (IF Suspended(n) THEN "still" ELSE "nowidth"), s |-> [n EXCEPT !.dirty = TRUE]]
         ELSE IF Locked(n) THEN [kind |-> "locked", s |-> [n EXCEPT !.dirty = TRUE]]
         ELSE IF ~isSource /\ CanTakeBarrier(n)
              THEN [kind |-> "barrier", s |-> [Preserved(n) EXCEPT !.owner = self, !.used = W, !.ib = TRUE]]
         ELSE [kind |-> "wakeup", s |-> [ClearUnlock(n) EXCEPT !.qos = 0]]
\* slow path under the side lock: move SCHALF counts back while consuming one
ResumeSlow(s, sideCnt) ==
    IF sideCnt = 0 THEN [ok |-> FALSE, s |-> s]
    ELSE IF s.sc + (SCHALF - 1) > SCMAX THEN [ok |-> FALSE, s |-> s]          \* os_add_overflow: retry
    ELSE [ok |-> TRUE, s |-> [s EXCEPT !.sc = @ + (SCHALF - 1), !.side = IF sideCnt = SCHALF THEN FALSE ELSE @]]
\* dispatch_activate: the activating RMW of _dispatch_lane_resume(dq, true)
Activate(s) ==
    IF SuspendBitsOnly(s) = <<0, FALSE, TRUE, TRUE>> THEN [kind |-> "finalize", s |-> [s EXCEPT !.sc = 1, !.inact = FALSE, !.na = FALSE]]
    ELSE IF s.inact THEN [kind |-> "deferred", s |-> [s EXCEPT !.inact = FALSE]]
    ELSE [kind |-> "noop", s |-> s]
\* _dispatch_lane_try_inactive_suspend
TryInactiveSuspend(s) ==
    IF ~s.inact THEN [ok |-> FALSE, s |-> s] ELSE [ok |-> TRUE, s |-> [s EXCEPT !.sc = @ + 1]]
=============================================================================
