---------------------------- MODULE SourceTrace ----------------------------
(* Trace validation (code -> spec): a recorded execution of real custom data sources (hooked
   build, harness/drv_source.c) must be a behaviour of Source.tla.

   Every logged record is bound to the ONE spec action the recording thread can take at its
   control point, with every logged value compared:
     Pd  atomics on ds_pending_data   add / or / store (merge_data), load (source_wakeup, invoke2
                                      before and after the callout), xchg (latch): old and new value
     St  atomics on the source's dq_state: the projected old word must be the spec's word (values
                                      chain) and the projected new word must be the word the DQState
                                      operator of that action yields (drain_try_lock / try_unlock /
                                      invoke_finish / queue_wakeup / suspend / resume / activate)
     Du  the store to du_state in _dispatch_source_install (it follows the plain store that sets
         ds_is_installed, which is a silent step: the installing thread owes this record next)
     API CallMerge(v) / RetMerge, HandlerStart(d = dispatch_source_get_data) / HandlerEnd,
         SuspCall / SuspRet, ResCall / ResRet, ActCall / ActRet, Quiesce / End (the driver saw the
         source at rest: the spec must be quiescent too, so NoStrand and the conservation laws bite)
   An RMW loop is one spec action, taken at its successful compare-exchange, or - when the loop
   gives up - at the observation (load or failed compare-exchange) the decision was made on; the
   driver marks those observations ("gu"), other observations only have to chain.
   Silent steps (plain accesses the hook cannot see): the read of ds_is_installed in
   _dispatch_source_wakeup while it is still false, the store that sets it, and the "hierarchy not
   settled, install later" branch of _dispatch_source_activate.  A record that no action explains
   rejects the trace.
   Site labels (function names) and memory_order tokens are not used for acceptance (a token that
   differs from the transcription is printed as MO_DRIFT). *)
EXTENDS Source, Json, IOUtils, TLCExt

Tr == ndJsonDeserialize(IOEnv.TRACE)
\* record 1 is a header written by the runner: {"e":"Header","nt":<number of threads>}
TraceThreads == {ToString(i) : i \in 0..(Tr[1].nt - 1)}
TraceVals == 0..4095

VARIABLES l,
          needDu      \* threads that have set ds_is_installed (plain store) and owe the du_state store that follows it
tvars == <<vars, l, needDu>>

Rec == Tr[l]
T == ToString(Rec.t)
Ev(e) == l <= Len(Tr) /\ Rec.e = e
Consume == l' = l + 1
Strip(x) == [sc |-> x.sc, side |-> x.side, inact |-> x.inact, na |-> x.na, ib |-> x.ib, pb |-> x.pb, used |-> x.used,
             dirty |-> x.dirty, enq |-> x.enq, ro |-> x.ro, qos |-> x.qos, owner |-> x.owner]
\* RECEIVED_OVERRIDE is set with the max-qos bits only while the role is BASE_ANON (from the activation on,
\* for a global target) and feeds back into nothing here: words are compared modulo that bit
EqW(a, b) == [a EXCEPT !.ro = FALSE] = [b EXCEPT !.ro = FALSE]
\* memory_order tokens are informational on this machine (x86-64 TSO: a different order cannot change any
\* behaviour the property speaks about): a mismatch with the transcription is printed, never rejects
MoChk(m) == IF Rec.mo = m THEN TRUE ELSE PrintT(<<"MO_DRIFT", m, Rec.mo>>)
AllIdle == (\A t \in Threads : pc[t] = "idle") /\ tq = 0

Fresh(k, tg, s0) ==
    /\ cfg' = [kind |-> k, target |-> tg] /\ st' = s0
    /\ pending' = 0 /\ dsdata' = 0 /\ installed' = FALSE /\ tq' = 0 /\ holder' = NULL
    /\ pc' = [t \in Threads |-> "idle"] /\ lv' = [t \in Threads |-> L0]
    /\ g' = Ghost0 /\ inH' = {} /\ nmerge' = 0 /\ nsusp' = 0 /\ held' = 0 /\ actCalled' = FALSE

TInit == /\ cfg = [kind |-> "add", target |-> "global"] /\ st = InactiveInit
         /\ pending = 0 /\ dsdata = 0 /\ installed = FALSE /\ tq = 0 /\ holder = NULL
         /\ pc = [t \in Threads |-> "idle"] /\ lv = [t \in Threads |-> L0]
         /\ g = Ghost0 /\ inH = {} /\ nmerge = 0 /\ nsusp = 0 /\ held = 0 /\ actCalled = FALSE
         /\ l = 2 /\ needDu = {} /\ TLCSet(1, 0)

\* a new execution: a freshly created (inactive, handlers set) source; the previous one was left at rest
TReset == /\ Ev("Reset") /\ Consume /\ AllIdle /\ Fresh(Rec.kind, Rec.target, Strip(Rec.st))

(* ------------------------------- API events ------------------------------- *)
NoChange == UNCHANGED vars
TCallMerge == Ev("CallMerge") /\ Consume /\ CallMerge(T, Rec.v)
\* the call returned: the spec thread is back where it called from (outside, or inside the handler)
TRetMerge == Ev("RetMerge") /\ Consume /\ pc[T] = lv[T].ret /\ pc[T] \in {"idle", "h_body"} /\ NoChange
THStart == Ev("HandlerStart") /\ Consume /\ HStart(T) /\ dsdata = Rec.d
THEnd == Ev("HandlerEnd") /\ Consume /\ HEnd(T)
TSuspCall == Ev("SuspCall") /\ Consume /\ CallSuspend(T)
TResCall == Ev("ResCall") /\ Consume /\ CallResume(T)
TActCall == Ev("ActCall") /\ Consume /\ CallActivate(T)
TRet == l <= Len(Tr) /\ Rec.e \in {"SuspRet", "ResRet", "ActRet"} /\ Consume /\ pc[T] = "idle" /\ NoChange
\* the driver observed the source at rest (no call in flight, not locked, not enqueued): so must the spec be
TRest == l <= Len(Tr) /\ Rec.e \in {"Quiesce", "End"} /\ Consume /\ AllIdle /\ ~Suspended(st) /\ NoChange
\* flag loads of the data path: the source is not cancelled while it is being validated
TFl == Ev("Fl") /\ Consume /\ ~Rec.canceled /\ NoChange

(* --------------------------- ds_pending_data --------------------------- *)
TPdUpd == /\ Ev("Pd") /\ Rec.op \in {"add", "or", "store"} /\ Consume
          /\ \/ pc[T] = "m_upd" /\ MUpdate(T) /\ (Rec.op # "store" => pending = Rec.old)    \* a store record carries the value stored
             \/ pc[T] = "latch_st" /\ Rec.op = "store" /\ LatchSt(T)        \* only under Mut = "latch_load_store"
          /\ pending' = Rec.new /\ MoChk("relaxed")
TPdXchg == Ev("Pd") /\ Rec.op = "xchg" /\ Consume /\ pending = Rec.old /\ Latch(T) /\ pending' = Rec.new /\ MoChk("relaxed")
TPdLoad == /\ Ev("Pd") /\ Rec.op = "load" /\ Consume /\ pending = Rec.old /\ MoChk("relaxed")
           /\ \/ pc[T] = "wk_pend" /\ WkPend(T)
              \/ pc[T] = "i2_pend" /\ I2Pend(T)
              \/ pc[T] = "i2_after" /\ I2After(T)
              \/ pc[T] = "latch_ld" /\ LatchLd(T)         \* only under Mut = "latch_load_store"
              \/ pc[T] = "m_ld" /\ MLoad(T)               \* only under Mut = "merge_load_store"

(* ------------------------------- dq_state ------------------------------- *)
StOld == Strip(Rec.old)
StNew == Strip(Rec.new)
IsObs == Rec.op = "load" \/ (Rec.op = "cmpxchg" /\ Rec.ok = 0)
\* an observation the loop went on from (or the load of DISPATCH_QUEUE_IS_SUSPENDED in invoke2)
TStObs == /\ Ev("St") /\ IsObs /\ ~Rec.gu /\ Consume /\ EqW(StOld, st)
          /\ IF pc[T] = "i2_susp" /\ Rec.op = "load" THEN I2Susp(T) /\ MoChk("relaxed") ELSE UNCHANGED vars
\* an observation on which the loop gave up: the decision of the action at this control point
TStGiveUp == /\ Ev("St") /\ IsObs /\ Rec.gu /\ Consume /\ EqW(StOld, st)
             /\ \/ pc[T] = "wk_rmw" /\ \E q \in 0..QW : ~WakeupQ(st, lv[T].mk, q).changed /\ WkRmwQ(T, q)
                \/ pc[T] = "d_unlock" /\ ~DrainTryUnlock(st, lv[T].owned, TRUE).ok /\ DUnlock(T)
                \/ pc[T] = "a_rmw" /\ Activate(st).kind = "noop" /\ ActRmw(T)
                \/ pc[T] = "a_inherit" /\ AInherit(T)                     \* the role is already right
                \/ pc[T] = "idle" /\ T \in Drainers /\ tq > 0 /\ UNCHANGED vars     \* drain_try_lock: override retry, no decision
TGiveUp == Ev("GiveUp") /\ Consume /\ NoChange
\* a successful compare-exchange: the action's RMW
TStRmw == /\ Ev("St") /\ Rec.op = "cmpxchg" /\ Rec.ok = 1 /\ Consume /\ EqW(StOld, st)
          /\ \/ pc[T] = "wk_rmw" /\ \E q \in 0..QW : WakeupQ(st, lv[T].mk, q).changed /\ WkRmwQ(T, q)
             \/ pc[T] = "idle" /\ DLock(T)
             \/ pc[T] = "d_unlock" /\ DrainTryUnlock(st, lv[T].owned, TRUE).ok /\ DUnlock(T)
             \/ pc[T] = "d_finish" /\ DFinish(T)
             \/ pc[T] = "s_rmw" /\ SuspRmw(T)
             \/ pc[T] = "r_rmw" /\ ResRmw(T)
             \/ pc[T] = "a_rmw" /\ Activate(st).kind # "noop" /\ ActRmw(T)
             \/ pc[T] = "a_inherit" /\ AInherit(T)                         \* role bits only
          /\ EqW(st', StNew)
TStXor == Ev("St") /\ Rec.op = "xor" /\ Consume /\ EqW(StOld, st) /\ DXor(T) /\ EqW(st', StNew) /\ MoChk("acquire")

(* ------------------------------- du_state ------------------------------- *)
\* _dispatch_source_install: ds->ds_is_installed = true (plain, silent) and then the store of du_state
TDu == /\ Ev("Du") /\ Rec.armed /\ Consume /\ T \in needDu /\ needDu' = needDu \ {T} /\ NoChange

(* ------------------------------- silent steps ------------------------------- *)
TSilent == /\ l <= Len(Tr) /\ UNCHANGED l
           /\ \E t \in Threads \ needDu :
                \/ (WkInst(t) \/ AInstall(t, FALSE)) /\ UNCHANGED needDu
                \/ (AInstall(t, TRUE) \/ I2Install(t)) /\ needDu' = needDu \cup {t}

\* a thread that owes its du_state store logs nothing else before it
TLogged == /\ l <= Len(Tr) /\ ("t" \in DOMAIN Rec => T \notin needDu) /\ UNCHANGED needDu
           /\ (TReset \/ TCallMerge \/ TRetMerge \/ THStart \/ THEnd \/ TSuspCall \/ TResCall \/ TActCall \/ TRet \/ TRest \/ TFl
               \/ TPdUpd \/ TPdXchg \/ TPdLoad \/ TStObs \/ TStGiveUp \/ TGiveUp \/ TStRmw \/ TStXor)
TNext == TLogged \/ TDu \/ TSilent
TSpec == TInit /\ [][TNext]_tvars

\* longest matched prefix, reported on rejection
MaxL == IF TLCGet(1) < l THEN TLCSet(1, l) ELSE TRUE
Accepted == l > Len(Tr)
StopWhenAccepted == Accepted => (PrintT("TRACE_ACCEPTED") /\ TLCSet("exit", TRUE))
Post == PrintT(<<"MAXL", TLCGet(1), Len(Tr)>>)
=============================================================================
