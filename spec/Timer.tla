------------------------------- MODULE Timer -------------------------------
(* Timer sources and dispatch_after of libdispatch on Linux (epoll + timerfd backend).

   Who does what in the code (all on ANON wlh = the manager thread owns the heaps):
     client threads   dispatch_source_set_timer  src/source.c:1288   xchg dt_pending_config (release)
                      dispatch_suspend/resume/cancel, dispatch_activate, dispatch_after (source.c:1319)
     manager thread   _dispatch_mgr_invoke loop  src/queue.c:5405:
                        drain manager queue  -> _dispatch_source_invoke2 on the manager (install,
                                                 _dispatch_timer_unote_configure event.c:866,
                                                 _dispatch_unote_resume -> _dispatch_timer_unote_resume
                                                 event.c:898 -> arm/disarm, unregister on cancel)
                        _dispatch_event_loop_drain_timers event.c:1210:
                              _dispatch_timers_run      event.c:1042  (fire target <= now, per clock)
                              dth_dirty_bits = 0
                              _dispatch_timers_program  event.c:1183  (per clock with dth_needs_program)
                              while dirty
                        epoll_wait; timerfd event -> _dispatch_event_merge_timer event_epoll.c:360
     target queue     _dispatch_source_invoke2 -> _dispatch_source_latch_and_call source.c:529
                        (xchg ds_pending_data; _dispatch_source_timer_data when DISARMED marker)
   The heap is abstracted to the SET of armed timers per clock (spec/TimerHeap.tla + its replay
   justify: dth_min = a timer with the minimum target, dth_needs_program set whenever the
   minimum changes).  Deadlines/leeway do not influence anything on this backend
   (DISPATCH_HAVE_TIMER_COALESCING = 0, _dispatch_timeout_program ignores leeway): omitted.

   OWNERSHIP.  The heap of a clock (dth_min, the segments, dth_needs_program / dth_dirty_bits) and its timerfd belong to
   the manager thread: nothing wakes the manager when another thread sets dth_dirty_bits, so a heap change made off the
   manager is never followed by _dispatch_timers_program and the timerfd keeps the old expiry.  Consequently
     - every action that changes the armed set or the target of an armed timer is a Manager action (action property
       HeapMutatedOnlyByOwner; the timerfd state kt/ken/kreg likewise: KernelTimerProgrammedOnlyByOwner);
     - a target-queue thread (tail of _dispatch_source_latch_and_call) may apply a pending configuration itself only when
       the timer is NOT in the heap, which it knows from the data it latched: prev & DISPATCH_TIMER_DISARMED_MARKER
       (the manager took the timer out of the heap before it published the marker; only an invoke on the manager queue,
       excluded by the drain lock the thread holds, can put it back): OffManagerMayConfigure / invariant
       DisarmedMarkerMeansOutOfHeap.  Otherwise the configuration stays pending and the source goes to the manager
       (Wants = "mgr"), which configures, re-sifts and reprograms;
     - ProgrammedCoversHeap: whenever the manager blocks (mpc = "w"), every non-empty heap has its timerfd enabled at or
       before the minimum target.  It is an invariant over ALL states, so it is evaluated right after steps of other
       threads too: a non-manager step that lowers a heap minimum while the manager sleeps breaks it.
   Mutant "worker_configures_armed" (= seeded change C11-4: the `prev & DISARMED_MARKER` guard dropped) is refuted by each
   of these and, invariants aside, by the liveness property Fires: with no unrelated wake-up the timer never fires at its
   new settings.

   Time: one abstract counter per clock, advancing nondeterministically, never backwards.

   Property C11 as invariants over ghost observations of every handler invocation:
     NeverEarly, CountBound, OnlyNewConfig, AfterAtMostOnce, ArmedImpliesProgrammed, ProgrammedCoversHeap,
   and as liveness: Fires (every armed unsuspended uncancelled timer's handler runs again), ConfigApplied (a published
   configuration is eventually in force). *)
EXTENDS Integers, FiniteSets, TLC, TimerLaws    \* TimerLaws: INF, Mut, Heap, MinTarget, MinTimers, ComputeMissed, Boundaries

CONSTANTS NTimers,      \* timer objects 1..NTimers
          AfterSet,     \* subset of 1..NTimers that are dispatch_after blocks, the others are timer sources
          NClocks,      \* clocks 1..NClocks
          Horizon,      \* time stops advancing at Horizon (model bound)
          PastDelta,    \* set_timer / dispatch_after: start = now + d, d in -PastDelta..MaxDelta
          MaxDelta,     \*   (a start in the past, now, or ahead)
          Intervals,    \* intervals for set_timer; INF (constant of TimerLaws) = one-shot
          MaxCalls,     \* bound on client control calls (set_timer, suspend, resume, cancel)
          MaxFire       \* cap of the per-timer invocation counter used by the liveness property

StartDeltas == (0 - PastDelta)..MaxDelta
Timers == 1..NTimers
Clocks == 1..NClocks
NoCfg == [clk |-> 1, target |-> INF, iv |-> INF, gen |-> 0]      \* dt_pending_config == NULL (gen: 0 none, 1 some)

VARIABLES now,     \* [clock -> time]
          tm,      \* [timer -> record], see InitTimer
          mpc,     \* manager thread: "q" manager queue, "run", "prog" (drain_timers), "w" epoll_wait
          mi,      \* manager: clock index inside run / prog loops
          mdis,    \* manager: timer whose `ds_pending_data != 0` was just observed by _dispatch_timers_run (0 none)
          cnow,    \* dispatch_clock_now_cache_s of the current drain_timers call: [clock -> time or -1]
          dirty,   \* _dispatch_timers_heap[0].dth_dirty_bits != 0
          np,      \* [clock -> dth_needs_program]
          darm,    \* [clock -> dth_armed]
          kt,      \* [clock -> absolute expiry programmed into the timerfd (INF: never programmed)]
          ken,     \* [clock -> det_armed: the timerfd is enabled in the epoll set (EPOLLONESHOT)]
          kreg,    \* [clock -> det_registered]
          calls,   \* number of client control calls so far
          viol     \* ghost: "" or the name of the first property law a handler invocation broke
vars == <<now, tm, mpc, mi, mdis, cnow, dirty, np, darm, kt, ken, kreg, calls, viol>>

InitTimer(t) == [
    after |-> t \in AfterSet,
    active |-> FALSE,     \* activated (dispatch_activate / dispatch_resume of a new source); installed with it
    susp |-> FALSE,       \* DISPATCH_QUEUE_IS_SUSPENDED
    canc |-> FALSE,       \* DSF_CANCELED
    del |-> FALSE,        \* DSF_DELETED
    unreg |-> FALSE,      \* du_state == DU_STATE_UNREGISTERED after having been registered (ident CANCELED)
    armed |-> FALSE,      \* DU_STATE_ARMED: in the heap of clock clk
    clk |-> 1,            \* clock of du_ident (the heap it is/was in)
    fclk |-> 1,           \* clock in du_timer_flags
    tgt |-> INF, iv |-> INF,                 \* dt_timer.target / interval
    pend |-> NoCfg,                          \* dt_pending_config
    taken |-> NoCfg,                         \* (deviation "pinned_configure_window" only) configuration taken by
                                             \*   _dispatch_timers_run's configure, ds_pending_data not cleared yet
    pcnt |-> 0, pmark |-> FALSE,             \* ds_pending_data = pcnt << 1 | DISPATCH_TIMER_DISARMED_MARKER
    tpc |-> "idle",       \* target-queue invoke of this source: "idle", "latch", "post"
    prevmark |-> FALSE,   \* latch_and_call: prev & DISARMED_MARKER
    \* ---- ghosts ----
    astart |-> INF,                          \* start time of the configuration now in dt_timer
    pstale |-> FALSE,                        \* the pending data was produced by a configuration that has since been replaced
    psusp |-> FALSE,                         \* the pending data was produced by a fire that found the source suspended
    rep |-> 0,                               \* cumulative count reported by the handler since the configuration was applied
    fired |-> FALSE,                         \* (dispatch_after) the block has been invoked
    nfire |-> 0 ]                            \* handler invocations (capped at MaxFire; liveness only)

Init == /\ now = [c \in Clocks |-> 0]
        /\ tm = [t \in Timers |-> InitTimer(t)]
        /\ mpc = "w" /\ mi = 1 /\ mdis = 0
        /\ cnow = [c \in Clocks |-> -1]
        /\ dirty = FALSE
        /\ np = [c \in Clocks |-> FALSE] /\ darm = [c \in Clocks |-> FALSE]
        /\ kt = [c \in Clocks |-> INF] /\ ken = [c \in Clocks |-> FALSE] /\ kreg = [c \in Clocks |-> FALSE]
        /\ calls = 0 /\ viol = ""

(* ------------------------------- the heap, abstractly ------------------------------- *)
\* Heap(m, c), MinTarget(m, c), MinTimers(m, c): see TimerLaws

\* effect of _dispatch_timer_heap_insert/remove/update + _dispatch_timers_heap_dirty on the flags:
\* dth_needs_program is set when the minimum changes (TimerHeap.tla: NeedsProgramOnMinChange)
HeapTouched(m1) ==
    /\ dirty' = TRUE
    /\ np' = [c \in Clocks |->
                IF Mut = "noreprog" /\ MinTarget(m1, c) < MinTarget(tm, c) THEN np[c]    \* mutant: a new, earlier minimum
                ELSE IF Mut = "noreprog_removed" /\ MinTarget(m1, c) > MinTarget(tm, c) THEN np[c]  \* (benign, see below)
                ELSE np[c] \/ MinTarget(tm, c) # MinTarget(m1, c)]
HeapUntouched == UNCHANGED <<dirty, np>>
TouchIf(b, m1) == IF b THEN HeapTouched(m1) ELSE HeapUntouched

(* ------------------------------- pieces of event.c ------------------------------- *)
\* _dispatch_timer_unote_needs_rearm(dr): not suspended, ident not CANCELED, target < INT64_MAX
NeedsRearmUnote(r) == ~r.susp /\ ~r.unreg /\ r.tgt < INF

\* _dispatch_timer_unote_resume(dt)
UnoteResume(r) ==
    LET will_arm == NeedsRearmUnote(r)
        r1 == IF r.armed /\ (~will_arm \/ r.clk # r.fclk) THEN [r EXCEPT !.armed = FALSE] ELSE r     \* disarm
    IN IF will_arm THEN [r1 EXCEPT !.armed = TRUE, !.clk = r.fclk] ELSE r1                            \* arm / update

\* _dispatch_timer_unote_configure(dt):
\*     dtc = xchg(dt_pending_config, NULL); flags/dt_timer = dtc's; free(dtc);
\*     os_atomic_store2o(dt, ds_pending_data, 0)     -- UNCONDITIONAL: "clear any pending data that might have
\*                                                      accumulated on older timer params"
\*     if (_dispatch_unote_armed(dt)) _dispatch_timer_unote_resume(dt);
\* The store matters most when the timer is NOT armed: _dispatch_timers_run takes a timer out of the heap
\* exactly when it has an undelivered fire (source suspended at fire time: MRun's ~NeedsRearmUnote branch;
\* handler not keeping up: MRunDisarm; one-shot), and it then carries count << 1 | DISARMED_MARKER.
\* Mutants: "honour_old" never clears; "configure_keeps_pending_when_disarmed" clears only when the timer is
\* still armed; "configure_keeps_pending_suspended_fire" the same, restricted to pending data that was produced
\* while the source was suspended (ghost psusp: shows that the bounds reach fire-while-suspended, set_timer, resume).
KeepsPending(r) == \/ Mut = "honour_old"
                   \/ Mut = "configure_keeps_pending_when_disarmed" /\ ~r.armed
                   \/ Mut = "configure_keeps_pending_suspended_fire" /\ ~r.armed /\ r.psusp
\*
\* Atomicity.  Configure is ONE step here: for every observer the configuration disappears from dt_pending_config and
\* the pending data of the older parameters disappears from ds_pending_data together.  Three of the four callers hold
\* the source's drain lock (or run before activation), so nobody can look in between.  _dispatch_timers_run does NOT:
\* an invoke on the target queue can run concurrently, see dt_pending_config == NULL and latch ds_pending_data.  The
\* pinned code takes first and clears afterwards (free() in between): deviation Mut = "pinned_configure_window" models
\* exactly that (MRun takes, MRunConfigure2 clears and resifts) and TLC shows OnlyNewConfig violated; clearing before
\* taking (patches/C11-fix-configure-clear-before-take.diff) makes the pair atomic for observers: while the word is
\* cleared but the configuration still pending, an invoke still sees the configuration and goes to the manager.
ApplyCfg(r, cfg) ==
    LET keep == KeepsPending(r)
        r1 == [r EXCEPT !.fclk = cfg.clk, !.tgt = cfg.target, !.iv = cfg.iv,
                        !.astart = cfg.target, !.rep = 0,
                        !.pcnt = IF keep THEN @ ELSE 0,          \* "clear any pending data"
                        !.pmark = IF keep THEN @ ELSE FALSE,
                        !.pstale = IF keep THEN @ ELSE FALSE,
                        !.psusp = IF keep THEN @ ELSE FALSE]
    IN IF r.armed THEN UnoteResume(r1) ELSE r1
Configure(r) == ApplyCfg([r EXCEPT !.pend = NoCfg], r.pend)

\* _dispatch_timer_unote_compute_missed: ComputeMissed(r, now, prev) of TimerLaws

HasPending(r) == r.pcnt # 0 \/ r.pmark                               \* ds_pending_data != 0

(* what _dispatch_source_wakeup / the return value of _dispatch_source_invoke2 ask for *)
RefsNeedRearm(r) == r.pend.gen # 0 \/ (~r.unreg /\ ~r.armed /\ r.tgt < INF)
Wants(r) ==
    IF ~r.active THEN "none"
    ELSE IF ~r.canc /\ r.pend.gen # 0 THEN "mgr"
    ELSE IF ~r.canc /\ HasPending(r) THEN "tq"
    ELSE IF r.canc /\ ~r.del THEN (IF r.armed THEN "mgr" ELSE "tq")
    ELSE IF ~r.canc /\ RefsNeedRearm(r) THEN "mgr"
    ELSE "none"
Runnable(r) == r.active /\ ~r.susp /\ r.tpc = "idle"

(* ------------------------------- client calls ------------------------------- *)
Call == calls < MaxCalls /\ calls' = calls + 1
MgrSame == UNCHANGED <<mpc, mi, mdis, cnow, darm, kt, ken, kreg, viol>>

\* dispatch_source_set_timer(ds, start, interval, leeway); the clock comes with `start`
SetTimer(t, c, d, i) ==
    /\ Call /\ ~tm[t].after /\ ~tm[t].canc
    /\ now[c] + d >= 0
    /\ tm' = [tm EXCEPT ![t].pend = [clk |-> c, target |-> now[c] + d, iv |-> i, gen |-> 1],
                        ![t].pstale = HasPending(tm[t])]
    /\ UNCHANGED <<now, dirty, np>> /\ MgrSame
SetTimerForever(t) ==                                     \* start == DISPATCH_TIME_FOREVER: keeps the clock
    /\ Call /\ ~tm[t].after /\ ~tm[t].canc
    /\ tm' = [tm EXCEPT ![t].pend = [clk |-> tm[t].fclk, target |-> INF, iv |-> INF, gen |-> 1],
                        ![t].pstale = HasPending(tm[t])]
    /\ UNCHANGED <<now, dirty, np>> /\ MgrSame

\* dispatch_activate: _dispatch_source_activate installs the timer unote on the calling thread
\* (_dispatch_timer_unote_register configures a pending configuration; nothing is armed yet)
Activate(t) ==
    /\ ~tm[t].active /\ ~tm[t].after /\ ~tm[t].canc
    /\ tm' = [tm EXCEPT ![t] = LET r == [@ EXCEPT !.active = TRUE] IN IF r.pend.gen # 0 THEN Configure(r) ELSE r]
    /\ UNCHANGED <<now, dirty, np, calls>> /\ MgrSame

Suspend(t) == /\ Call /\ tm[t].active /\ ~tm[t].susp /\ ~tm[t].after /\ ~tm[t].canc
              /\ tm' = [tm EXCEPT ![t].susp = TRUE]
              /\ UNCHANGED <<now, dirty, np>> /\ MgrSame
Resume(t) == /\ Call /\ tm[t].susp
             /\ tm' = [tm EXCEPT ![t].susp = FALSE]
             /\ UNCHANGED <<now, dirty, np>> /\ MgrSame
Cancel(t) == /\ Call /\ tm[t].active /\ ~tm[t].canc /\ ~tm[t].after
             /\ tm' = [tm EXCEPT ![t].canc = TRUE]
             /\ UNCHANGED <<now, dirty, np>> /\ MgrSame

\* dispatch_after(when = now + d on clock c): d > 0 builds a one-shot timer source (d = 0 is a plain dispatch_async)
After(t, c, d) ==
    /\ tm[t].after /\ ~tm[t].active /\ d > 0
    /\ tm' = [tm EXCEPT ![t] = [@ EXCEPT !.active = TRUE, !.fclk = c, !.clk = c, !.tgt = now[c] + d, !.iv = INF,
                                         !.astart = now[c] + d]]
    /\ UNCHANGED <<now, dirty, np, calls>> /\ MgrSame

Tick(c) == /\ now[c] < Horizon /\ now' = [now EXCEPT ![c] = @ + 1]
           /\ UNCHANGED <<tm, mpc, mi, mdis, cnow, dirty, np, darm, kt, ken, kreg, calls, viol>>

(* ------------------------------- manager thread ------------------------------- *)
MgrEligible(t) == Runnable(tm[t]) /\ Wants(tm[t]) = "mgr"

\* _dispatch_source_invoke2 of source t on the manager queue
MInvoke(t) ==
    /\ mpc = "q" /\ MgrEligible(t)
    /\ LET r == tm[t]
           r1 == IF r.pend.gen # 0 /\ ~r.canc THEN Configure(r) ELSE r              \* needs_configuration
           r2 == IF HasPending(r1) /\ ~r1.canc THEN r1                               \* "return ds->do_targetq"
                 ELSE IF r1.canc /\ ~r1.del                                          \* _dispatch_source_refs_unregister
                        THEN [r1 EXCEPT !.armed = FALSE, !.unreg = TRUE, !.del = TRUE]
                 ELSE IF ~r1.canc /\ RefsNeedRearm(r1) THEN UnoteResume(r1)          \* _dispatch_unote_resume
                 ELSE r1
           m1 == [tm EXCEPT ![t] = r2]
       IN /\ tm' = m1
          /\ TouchIf(r.armed \/ r2.armed, m1)      \* (an invoke on the manager of an armed timer always re-sifts or removes it)
    /\ UNCHANGED <<now, mpc, mi, mdis, cnow, darm, kt, ken, kreg, calls, viol>>

\* manager queue empty: _dispatch_event_loop_drain_anon_timers if dirty, then epoll_wait
MQueueDone ==
    /\ mpc = "q" /\ ~\E t \in Timers : MgrEligible(t)
    /\ IF dirty THEN mpc' = "run" /\ mi' = 1 /\ cnow' = [c \in Clocks |-> -1]      \* nows = { }
                ELSE mpc' = "w" /\ UNCHANGED <<mi, cnow>>
    /\ UNCHANGED <<now, tm, mdis, dirty, np, darm, kt, ken, kreg, calls, viol>>

CachedNow(c) == IF cnow[c] >= 0 THEN cnow[c] ELSE now[c]              \* _dispatch_time_now_cached
CacheRead(c) == cnow' = [cnow EXCEPT ![c] = CachedNow(c)]
Due(r, n) == IF Mut = "early" THEN r.tgt <= n + 1 ELSE r.tgt <= n

\* one iteration of the while loop of _dispatch_timers_run(dth, tidx = mi, nows)
MRun ==
    /\ mpc = "run" /\ mdis = 0 /\ \A u \in Timers : tm[u].taken.gen = 0
    /\ IF Heap(tm, mi) = {}
         THEN /\ (IF mi < NClocks THEN mi' = mi + 1 /\ mpc' = "run" /\ UNCHANGED dirty
                                  ELSE mi' = 1 /\ mpc' = "prog" /\ dirty' = FALSE)          \* dth[0].dth_dirty_bits = 0
              /\ UNCHANGED <<tm, cnow, np, mdis>>
         ELSE /\ CacheRead(mi)
              /\ \E t \in MinTimers(tm, mi) :
                   LET r == tm[t]  n == CachedNow(mi) IN
                   IF ~Due(r, n)
                     THEN /\ (IF mi < NClocks THEN mi' = mi + 1 /\ mpc' = "run" /\ UNCHANGED dirty
                                              ELSE mi' = 1 /\ mpc' = "prog" /\ dirty' = FALSE)
                          /\ UNCHANGED <<tm, np, mdis>>
                   ELSE IF r.after                     \* one-shot: disarm, unregister, pending = 2, merge_evt
                     THEN LET m1 == [tm EXCEPT ![t] = [r EXCEPT !.armed = FALSE, !.unreg = TRUE, !.pcnt = 1, !.pmark = FALSE]]
                          IN tm' = m1 /\ HeapTouched(m1) /\ UNCHANGED <<mpc, mi, mdis>>
                   ELSE IF r.pend.gen # 0 /\ Mut = "pinned_configure_window"    \* dtc = xchg(dt_pending_config, NULL) ...
                     THEN tm' = [tm EXCEPT ![t].taken = r.pend, ![t].pend = NoCfg] /\ UNCHANGED <<dirty, np, mpc, mi, mdis>>
                   ELSE IF r.pend.gen # 0             \* a new configuration: apply it instead of firing
                     THEN LET m1 == [tm EXCEPT ![t] = Configure(r)]
                          IN tm' = m1 /\ HeapTouched(m1) /\ UNCHANGED <<mpc, mi, mdis>>
                   ELSE IF HasPending(r)              \* handler not keeping up: disarm, then or in the marker (MRunDisarm)
                     THEN mdis' = t /\ UNCHANGED <<tm, dirty, np, mpc, mi>>
                   ELSE LET cm == ComputeMissed(r, n, 0)
                            r1 == cm[1]
                            r2 == IF NeedsRearmUnote(r1)
                                    THEN [r1 EXCEPT !.pcnt = cm[2], !.pmark = FALSE]                       \* stays armed (heap update)
                                    ELSE [r1 EXCEPT !.armed = FALSE, !.pcnt = cm[2], !.pmark = TRUE,     \* disarmed + marker
                                                    !.psusp = r1.susp]                                    \* (suspended, or a one-shot)
                            m1 == [tm EXCEPT ![t] = r2]
                        IN tm' = m1 /\ HeapTouched(m1) /\ UNCHANGED <<mpc, mi, mdis>>
    /\ UNCHANGED <<now, darm, kt, ken, kreg, calls, viol>>

\* (deviation "pinned_configure_window") ... dt_timer = dtc's; free(dtc); store(ds_pending_data, 0); resume
MRunConfigure2 ==
    /\ mpc = "run" /\ mdis = 0
    /\ \E t \in Timers :
         /\ tm[t].taken.gen # 0
         /\ LET m1 == [tm EXCEPT ![t] = ApplyCfg([tm[t] EXCEPT !.taken = NoCfg], tm[t].taken)]
            IN tm' = m1 /\ HeapTouched(m1)
    /\ UNCHANGED <<now, mpc, mi, mdis, cnow, darm, kt, ken, kreg, calls, viol>>

\* ... _dispatch_timer_unote_disarm(dr); os_atomic_or_orig2o(dr, ds_pending_data, DISARMED_MARKER); merge_evt
MRunDisarm ==
    /\ mpc = "run" /\ mdis # 0
    /\ LET m1 == [tm EXCEPT ![mdis].armed = FALSE, ![mdis].pmark = TRUE]
       IN tm' = m1 /\ HeapTouched(m1)
    /\ mdis' = 0
    /\ UNCHANGED <<now, mpc, mi, cnow, darm, kt, ken, kreg, calls, viol>>

\* _dispatch_timers_program(dth, tidx = mi, nows) for the clocks with dth_needs_program, then the `while (dirty)` test
MProg ==
    /\ mpc = "prog"
    /\ LET c == mi
           target == MinTarget(tm, c)
           n == CachedNow(c)
           delay == IF target >= INF THEN INF ELSE IF target <= n THEN 0 ELSE target - n     \* _dispatch_timers_get_delay
       IN IF ~np[c] THEN UNCHANGED <<cnow, dirty, np, darm, kt, ken, kreg>>
          ELSE /\ (IF target < INF THEN CacheRead(c) ELSE UNCHANGED cnow)
               /\ np' = [np EXCEPT ![c] = FALSE]
               /\ IF delay = 0 \/ delay >= INF
                    THEN /\ dirty' = (dirty \/ delay = 0)
                         /\ darm' = [darm EXCEPT ![c] = FALSE]
                         /\ IF darm[c] /\ kreg[c]                                 \* _dispatch_event_loop_timer_delete: EPOLL_CTL_DEL
                              THEN ken' = [ken EXCEPT ![c] = FALSE] /\ kreg' = [kreg EXCEPT ![c] = FALSE]
                              ELSE UNCHANGED <<ken, kreg>>
                         /\ UNCHANGED kt
                    ELSE /\ kt' = [kt EXCEPT ![c] = n + delay]                    \* timerfd_settime(TFD_TIMER_ABSTIME)
                         /\ ken' = [ken EXCEPT ![c] = TRUE]                       \* EPOLL_CTL_ADD / MOD (or already armed)
                         /\ kreg' = [kreg EXCEPT ![c] = TRUE]
                         /\ darm' = [darm EXCEPT ![c] = TRUE]
                         /\ UNCHANGED dirty
    /\ IF mi < NClocks THEN mi' = mi + 1 /\ mpc' = "prog"
       ELSE mi' = 1 /\ mpc' = (IF dirty' THEN "run" ELSE "w")
    /\ UNCHANGED <<now, tm, mdis, calls, viol>>

\* epoll_wait returns because something was pushed on the manager queue (eventfd poke)
MWake == /\ mpc = "w" /\ \E t \in Timers : MgrEligible(t)
         /\ mpc' = "q"
         /\ UNCHANGED <<now, tm, mi, mdis, cnow, dirty, np, darm, kt, ken, kreg, calls, viol>>
\* the kernel delivers the timerfd expiry (only at/after the programmed time): _dispatch_event_merge_timer
KernelFire(c) ==
    /\ mpc = "w" /\ ken[c] /\ kt[c] <= now[c]
    /\ ken' = [ken EXCEPT ![c] = FALSE] /\ darm' = [darm EXCEPT ![c] = FALSE]
    /\ dirty' = TRUE /\ np' = [np EXCEPT ![c] = TRUE]
    /\ mpc' = "q"
    /\ UNCHANGED <<now, tm, mi, mdis, cnow, kt, kreg, calls, viol>>

(* ------------------------------- target queue ------------------------------- *)
\* _dispatch_source_invoke2 on the target queue, up to the decision to deliver
TInvoke(t) ==
    /\ Runnable(tm[t]) /\ Wants(tm[t]) = "tq"
    /\ LET r == tm[t] IN
       IF r.canc THEN tm' = [tm EXCEPT ![t] = [r EXCEPT !.unreg = TRUE, !.del = TRUE]]    \* unarmed timers "cheat": unregister here
       ELSE tm' = [tm EXCEPT ![t] = [r EXCEPT !.tpc = "latch"]]                             \* dt_pending_config was NULL
    \* every configuration published so far has been applied: what is pending must not stem from a replaced one
    /\ viol' = IF viol = "" /\ ~tm[t].canc /\ tm[t].pstale THEN "OnlyNewConfig" ELSE viol
    /\ UNCHANGED <<now, dirty, np, calls, mpc, mi, mdis, cnow, darm, kt, ken, kreg>>

\* _dispatch_source_latch_and_call: xchg ds_pending_data, _dispatch_source_timer_data, callout.
\* The handler reads its clock (n) and dispatch_source_get_data (data): the property's laws are evaluated here.
TLatch(t) ==
    /\ tm[t].tpc = "latch"
    /\ LET r == tm[t]
           n == now[r.clk]
           viaMarker == r.pmark /\ r.tgt < INF /\ n >= r.tgt
           cm == IF viaMarker THEN ComputeMissed(r, n, r.pcnt) ELSE <<r, r.pcnt>>
           data == cm[2]
           r1 == [cm[1] EXCEPT !.pcnt = 0, !.pmark = FALSE, !.pstale = FALSE, !.psusp = FALSE, !.prevmark = r.pmark, !.tpc = "post"]
           newrep == r.rep + data
           law == IF n < r.astart THEN "NeverEarly"                               \* before the start time, on its own clock
                  ELSE IF newrep > Boundaries(r.astart, r.iv, n) THEN "CountBound" \* more fires reported than boundaries passed
                  ELSE IF r.after /\ r.fired THEN "AfterAtMostOnce"
                  ELSE ""
       IN IF ~HasPending(r) THEN tm' = [tm EXCEPT ![t] = r1] /\ UNCHANGED viol      \* prev == 0: no callout
          ELSE /\ tm' = [tm EXCEPT ![t] = [r1 EXCEPT !.rep = newrep, !.fired = r.after,
                                                     !.nfire = IF @ < MaxFire THEN @ + 1 ELSE @]]
               /\ viol' = IF viol = "" THEN law ELSE viol
    /\ UNCHANGED <<now, dirty, np, calls, mpc, mi, mdis, cnow, darm, kt, ken, kreg>>

\* after the callout: a DISARMED timer with a pending configuration is configured in place.
\*     if ((prev & DISPATCH_TIMER_DISARMED_MARKER) && _dispatch_source_refs_needs_configuration(dr))
\*         _dispatch_timer_unote_configure(ds->ds_timer_refs);
\* This is the only configure that runs on a thread that does not own the heaps (activation apart: nothing is armed
\* then).  The latched marker is the thread's proof that the timer is out of the heap, so Configure does not reach
\* _dispatch_timer_unote_resume and touches neither heap nor dirty bits.  An ARMED timer that was re-set (from its own
\* handler, or by any thread while the handler ran) keeps its configuration pending: Wants = "mgr".
\* Mutant "worker_configures_armed": the guard is dropped; Configure of an armed timer re-sifts the heap and sets
\* dth_dirty_bits / dth_needs_program on this thread (HeapTouched) - which nobody is going to look at.
OffManagerMayConfigure(r) == r.prevmark \/ Mut = "worker_configures_armed"
TPost(t) ==
    /\ tm[t].tpc = "post"
    /\ LET r == tm[t]
           here == OffManagerMayConfigure(r) /\ r.pend.gen # 0 /\ ~r.after
           r1 == IF here THEN Configure(r) ELSE r
           m1 == [tm EXCEPT ![t] = [r1 EXCEPT !.tpc = "idle", !.prevmark = FALSE]]
       IN /\ tm' = m1
          /\ TouchIf(here /\ r.armed, m1)         \* _dispatch_timer_unote_configure: if (armed) resume -> arm/disarm -> heap_dirty
    /\ UNCHANGED <<now, calls>> /\ MgrSame

(* ------------------------------- next-state relation ------------------------------- *)
Client == \E t \in Timers :
            \/ \E c \in Clocks, d \in StartDeltas, i \in Intervals : SetTimer(t, c, d, i)
            \/ SetTimerForever(t) \/ Activate(t) \/ Suspend(t) \/ Resume(t) \/ Cancel(t)
            \/ \E c \in Clocks, d \in StartDeltas : After(t, c, d)
Manager == (\E t \in Timers : MInvoke(t)) \/ MQueueDone \/ MRun \/ MRunConfigure2 \/ MRunDisarm \/ MProg \/ MWake
           \/ \E c \in Clocks : KernelFire(c)
TargetQ == \E t \in Timers : TInvoke(t) \/ TLatch(t) \/ TPost(t)
Next == Client \/ Manager \/ TargetQ \/ \E c \in Clocks : Tick(c)
Spec == Init /\ [][Next]_vars
FairSpec == Spec /\ WF_vars(Manager) /\ \A t \in Timers : WF_vars(TInvoke(t) \/ TLatch(t) \/ TPost(t))
                 /\ \A c \in Clocks : WF_vars(Tick(c))

(* ------------------------------- the property ------------------------------- *)
\* no handler / after-block before its start time on its own clock
NeverEarly == viol # "NeverEarly"
\* cumulative count reported for a configuration <= boundaries of that configuration that have passed
CountBound == viol # "CountBound"
\* a replaced configuration is never honoured: when the invoke finds no unapplied configuration and decides to
\* deliver, the pending data was not produced by a configuration that has been replaced since
OnlyNewConfig == viol # "OnlyNewConfig"
AfterAtMostOnce == viol # "AfterAtMostOnce"

Programmed(c) == ken[c] /\ kt[c] <= MinTarget(tm, c)
DueCached(c) == MinTarget(tm, c) <= CachedNow(c)
\* the safety core of "always fires": a non-empty heap has its kernel timer programmed at or before the
\* minimum target, or the manager is committed to fire / (re)program it before it blocks again.
\* (Forgetting to reprogram when the minimum is REMOVED is harmless here: the kernel timer then expires
\*  early, _dispatch_event_merge_timer forces dth_needs_program; mutant "noreprog_removed" is NOT refuted.)
ArmedImpliesProgrammed ==
    \A c \in Clocks : Heap(tm, c) # {} =>
        \/ Programmed(c)
        \/ mpc = "q" /\ np[c] /\ dirty
        \/ mpc = "run" /\ (np[c] \/ (mi <= c /\ DueCached(c)))
        \/ mpc = "prog" /\ ((np[c] /\ mi <= c) \/ (dirty /\ DueCached(c)))
NothingLeftDirty == mpc = "w" => ~dirty
\* ArmedImpliesProgrammed at the point where nothing else is going to happen: the manager is blocked (or about to block:
\* MQueueDone/MProg go to "w" only with dirty = FALSE) and the only wake-ups are the timerfds and manager-queue pushes.
ProgrammedCoversHeap == mpc = "w" => \A c \in Clocks : Heap(tm, c) # {} => Programmed(c)

(* ---- ownership ---- *)
\* what the heap of its clock holds about timer t
HeapEntry(m, t) == IF m[t].armed THEN <<m[t].clk, m[t].tgt>> ELSE <<>>
\* a step of the manager thread: no client call, no activation, no target-queue program counter moves, time stands still
ManagerStep == /\ calls' = calls /\ now' = now
               /\ \A t \in Timers : tm'[t].tpc = tm[t].tpc /\ tm'[t].active = tm[t].active
\* heap insert / remove / re-sift (a changed target of an armed timer) only in steps of the manager, which is then
\* draining its queue (source invoke) or inside _dispatch_timers_run
HeapMutatedOnlyByOwner ==
    [][(\E t \in Timers : HeapEntry(tm', t) # HeapEntry(tm, t)) => (ManagerStep /\ mpc \in {"q", "run"})]_vars
\* timerfd_settime / EPOLL_CTL_*: only the manager inside _dispatch_timers_program; expiry delivery: only while it waits
KernelTimerProgrammedOnlyByOwner ==
    [][(kt' # kt \/ ken' # ken \/ kreg' # kreg \/ darm' # darm) => (ManagerStep /\ mpc \in {"prog", "w"})]_vars
\* the DISARMED marker (in ds_pending_data, or latched by the invoke in progress) is proof that the timer is out of the heap
DisarmedMarkerMeansOutOfHeap == \A t \in Timers : (tm[t].pmark \/ tm[t].prevmark) => ~tm[t].armed

TypeOK == /\ \A c \in Clocks : now[c] \in 0..Horizon /\ kt[c] \in 0..INF
          /\ mpc \in {"q", "run", "prog", "w"} /\ mi \in Clocks /\ mdis \in 0..NTimers
          /\ \A t \in Timers : tm[t].tpc \in {"idle", "latch", "post"} /\ tm[t].pcnt \in 0..(2 * Horizon + 4)

\* liveness: every armed, unsuspended, uncancelled timer (due inside the horizon) has its handler invoked again
Obliged(t) == tm[t].armed /\ ~tm[t].susp /\ ~tm[t].canc /\ tm[t].tgt <= Horizon /\ tm[t].pend.gen = 0
Fires == \A t \in Timers : \A k \in 0..(MaxFire - 1) :
            (Obliged(t) /\ tm[t].nfire = k) ~> (tm[t].nfire > k \/ tm[t].susp \/ tm[t].canc \/ tm[t].pend.gen # 0)
AfterFires == \A t \in AfterSet : (tm[t].active /\ tm[t].tgt <= Horizon) ~> tm[t].fired
\* a published configuration does not stay pending: it is applied (by the manager, or by the target queue when the timer
\* is disarmed) unless the source is suspended or cancelled; then Fires takes over for the new settings
ConfigApplied == \A t \in Timers : (tm[t].pend.gen # 0 /\ tm[t].active /\ ~tm[t].susp /\ ~tm[t].canc)
                                      ~> (tm[t].pend.gen = 0 \/ tm[t].susp \/ tm[t].canc)
=============================================================================
