-------------------------------- MODULE Time --------------------------------
(* dispatch_time_t arithmetic (property C12), parametric in the word width W.

   PART 1 transcribes the C code, branch by branch, with two's-complement wrap-around
   made explicit (all words are naturals in 0..2^W-1, U(x) = (uintW_t)x, S(x) = (intW_t)x):
     src/shims/time.h:257  _dispatch_time_to_clock_and_value   -> Decode
     src/shims/time.h:285  _dispatch_clock_and_value_to_time   -> Encode
     src/time.c:92         dispatch_time                       -> DispatchTimeF
     src/time.c:149        dispatch_walltime                   -> DispatchWalltimeF
     src/time.c:166        _dispatch_timeout                   -> TimeoutM
     src/time.c:217        _dispatch_time_nanoseconds_since_epoch -> NanosSinceEpochF
                           (the absolute CLOCK_REALTIME deadline a timed dispatch_semaphore_wait
                           hands to sem_timedwait: src/shims/lock.c _dispatch_sema4_timedwait,
                           USE_POSIX_SEM)
   On the pinned configuration (x86-64 Linux) _dispatch_time_nano2mach/mach2nano are the
   identity and the three `now`s are clock_gettime(MONOTONIC | BOOTTIME | REALTIME)
   converted with _dispatch_timespec_to_nano; `now` is a parameter here.
   Constants that are powers of two in the C headers scale with W: 2^62 -> 2^(W-2),
   2^63 -> 2^(W-1); NSEC_PER_SEC is the constant NPS.  The text is the same for W=8
   (TLC, exhaustive) and W=64 (Apalache, cfg/Time_apa_*.cfg).

   Where the pinned code deviates from the property, the code's behaviour is kept as the
   default and the repaired behaviour is selected by the name of the repair being in the
   set F (CONSTANT Fixed at top level; {"none"} = the pinned code, the cfg files cannot
   type an empty set for Apalache):
     "encode_boundary"  Encode rejects value >= 2^(W-2)-1 although Decode accepts it
     "wall_underflow"   dispatch_time, wall clock, delta<0: a sum of exactly 1 is encoded
                        as -1 == DISPATCH_TIME_FOREVER
     "walltime_range"   dispatch_walltime does tv_sec*NPS + tv_nsec + delta unchecked
     "epoch_clock"      _dispatch_time_nanoseconds_since_epoch takes every word with the top
                        bit set for negated wall-clock nanoseconds, monotonic-clock words
                        (top bits 10) included
   (the repairs are /verif/patches/C12-fix-*.diff; the Fixed branches transcribe them).
   Mut selects a deliberately wrong variant (non-vacuity of the laws).

   PART 2 is the REFERENCE: what property C12 says, written without reusing part 1.
   TimeMC.tla states the laws and the state space in which TLC (W=8, exhaustive) and
   Apalache (W=64, symbolic) compare part 1 against part 2; TimeEmit.tla emits the test
   vectors that are replayed on the real functions (harness/drv_time.c). *)
EXTENDS Integers

CONSTANTS
  \* @type: Int;
  W,       \* word width in bits (8 for TLC, 64 for Apalache)
  \* @type: Int;
  NPS,     \* NSEC_PER_SEC (10^9 at W=64; a small number at small W)
  \* @type: Set(Str);
  Fixed,   \* names of the repaired defects (see above)
  \* @type: Str;
  Mut      \* "none" or the name of a spec mutation (non-vacuity runs)

\* @typeAlias: now = { up: Int, mono: Int, wall: Int };
\* @typeAlias: ref = { kind: Str, clock: Str, t: Int };
M == 2^W              \* number of words
H == 2^(W-1)          \* DISPATCH_UP_OR_MONOTONIC_TIME_MASK  (1 << 63)
Q == 2^(W-2)          \* DISPATCH_WALLTIME_MASK              (1 << 62)
MAXV == Q - 1         \* DISPATCH_TIME_MAX_VALUE
FOREVER == M - 1      \* DISPATCH_TIME_FOREVER   ~0
WALLNOW == M - 2      \* DISPATCH_WALLTIME_NOW   ~1
NOW == 0              \* DISPATCH_TIME_NOW
MONONOW == H          \* DISPATCH_MONOTONICTIME_NOW
SMIN == 0 - H         \* INT64_MIN
SMAX == H - 1         \* INT64_MAX

AllFixes == {"encode_boundary", "wall_underflow", "walltime_range", "epoch_clock"}

\* (uint64_t)x: x mod 2^W.  Written with the single-wrap cases first (same value, see
\* HelpersExact) because that is all the additions need and SMT solvers prefer it.
U(x) == IF x >= 0 /\ x < M THEN x
        ELSE IF x >= M /\ x < 2 * M THEN x - M
        ELSE IF x < 0 /\ x >= 0 - M THEN x + M
        ELSE x % M
S(x) == LET u == U(x) IN IF u >= H THEN u - M ELSE u      \* (int64_t)x
\* word & DISPATCH_WALLTIME_MASK (bit W-2) of a word
BitQ(t) == IF t >= H THEN t - H >= Q ELSE t >= Q

(***************************************************************************)
(* PART 1 -- the code                                                      *)
(***************************************************************************)

\* _dispatch_time_to_clock_and_value; value = FOREVER means "out of range for this clock"
\* @type: (Int, $now) => {clock: Str, value: Int};
Decode(t, now) ==
  LET actual ==
        IF S(t) < 0
        THEN IF BitQ(t)                                  \* time & DISPATCH_WALLTIME_MASK
             THEN IF t = WALLNOW THEN now.wall ELSE U(0 - t)
             ELSE t - H                                  \* time & ~(1 << 63)
        ELSE t
      clk == IF S(t) < 0 THEN (IF BitQ(t) THEN "wall" ELSE "mono") ELSE "up"
  IN [clock |-> clk, value |-> IF actual > MAXV THEN FOREVER ELSE actual]

\* _dispatch_clock_and_value_to_time
EncodeF(F, clock, value) ==
  IF Mut # "no_range_check" /\ (IF "encode_boundary" \in F THEN value > MAXV ELSE value >= MAXV)
  THEN FOREVER
  ELSE IF clock = "wall" THEN (IF Mut = "wall_as_mono" THEN value + H ELSE U(0 - value))
       ELSE IF clock = "up" THEN value
       ELSE value + H                                    \* value | (1 << 63), value < 2^62

\* dispatch_time(inval, delta)
\* @type: (Set(Str), Int, Int, $now) => Int;
DispatchTimeF(F, inval, delta, now) ==
  IF inval = FOREVER THEN FOREVER
  ELSE
    LET d == Decode(inval, now) IN
    IF d.value = FOREVER THEN FOREVER                     \* out of range for this clock
    ELSE IF d.clock = "wall"
    THEN LET v1 == U(d.value + U(delta)) IN               \* value += offset
         IF delta >= 0
         THEN IF S(v1) <= 0 THEN FOREVER                  \* overflow
              ELSE EncodeF(F, "wall", v1)
         ELSE IF (IF "wall_underflow" \in F THEN S(v1) <= 1 ELSE S(v1) < 1)
              THEN EncodeF(F, "wall", 2)                  \* underflow: -2
              ELSE EncodeF(F, "wall", v1)
    ELSE LET value == IF d.value = NOW
                      THEN (IF d.clock = "up" THEN now.up ELSE now.mono)
                      ELSE d.value IN
         IF delta >= 0
         THEN LET v1 == U(value + U(delta)) IN
              IF S(v1) <= 0 THEN FOREVER                  \* overflow
              ELSE EncodeF(F, d.clock, v1)
         ELSE LET v1 == U(value - U(0 - delta)) IN        \* offset = (uint64_t)-delta
              IF S(v1) < 1
              THEN (IF Mut = "underflow_forever" THEN FOREVER ELSE EncodeF(F, d.clock, 1))
              ELSE EncodeF(F, d.clock, v1)

\* _dispatch_timespec_to_nano: (uint64_t)tv_sec * NSEC_PER_SEC + (uint64_t)tv_nsec, i.e.
\* U(U(sec) * NPS + U(nsec)); reduction mod 2^W commutes with + and *, so the casts of the
\* operands can be dropped (TLC checks the equality in HelpersExact; one reduction instead
\* of three is what the SMT solver can cope with)
TimespecToNanoC(sec, nsec) == U(U(sec) * NPS + U(nsec))
TimespecToNano(sec, nsec) == U(sec * NPS + nsec)

\* C division and remainder of a signed value by the positive constant NPS (truncation)
CDiv(a) == IF a >= 0 THEN a \div NPS ELSE 0 - ((0 - a) \div NPS)
CRem(a) == a - NPS * CDiv(a)

\* dispatch_walltime(inval, delta); hasTs = (inval != NULL), sec/nsec = *inval
\* @type: (Set(Str), Bool, Int, Int, Int, $now) => Int;
DispatchWalltimeF(F, hasTs, sec, nsec, delta, now) ==
  IF "walltime_range" \notin F
  THEN \* pinned: wrapping conversion, wrapping add, guess of the direction from sign(delta)
       LET n0 == S(IF hasTs THEN TimespecToNano(sec, nsec) ELSE now.wall)
           n1 == S(n0 + delta) IN
       IF n1 <= 1 THEN (IF delta >= 0 THEN FOREVER ELSE WALLNOW)
       ELSE U(0 - n1)                                     \* not range-checked
  ELSE \* patches/C12-fix-walltime-range.diff
       IF hasTs
       THEN LET adj  == CDiv(nsec) + CDiv(delta)          \* whole seconds, cannot overflow
                raw  == sec + adj
                secs == IF raw > SMAX \/ raw < SMIN       \* os_add_overflow
                        THEN (IF sec < 0 THEN SMIN ELSE SMAX) ELSE raw
            IN IF secs < 0 - 2 THEN WALLNOW
               ELSE IF secs > (MAXV \div NPS) + 2 THEN FOREVER
               ELSE LET n == secs * NPS + CRem(nsec) + CRem(delta) IN
                    IF n <= 1 THEN WALLNOW
                    ELSE IF n > MAXV THEN FOREVER ELSE U(0 - n)
       ELSE LET raw == now.wall + delta IN
            IF raw > SMAX \/ raw < SMIN THEN (IF delta < 0 THEN WALLNOW ELSE FOREVER)
            ELSE IF raw <= 1 THEN WALLNOW
            ELSE IF raw > MAXV THEN FOREVER ELSE U(0 - raw)

\* _dispatch_timeout(when)
\* @type: (Int, $now) => Int;
TimeoutM(when, now) ==
  IF when = FOREVER THEN FOREVER
  ELSE IF when = NOW THEN 0
  ELSE LET d == Decode(when, now)
           n == IF d.clock = "wall" THEN now.wall
                ELSE IF d.clock = "up" THEN now.up ELSE now.mono
       IN IF Mut = "timeout_noclamp" THEN U(d.value - n)
          ELSE IF n >= d.value THEN 0 ELSE d.value - n

\* _dispatch_time_nanoseconds_since_epoch(when): the time `when` as nanoseconds since the POSIX
\* epoch (absolute CLOCK_REALTIME deadline).  Pinned: `if ((int64_t)when < 0) return
\* (uint64_t)-(int64_t)when;` -- every word with bit W-1 set, the monotonic-clock words (bit W-2
\* clear) included; repaired (patches/C12-fix-epoch-monotonic.diff): the wall bit is tested too,
\* so that uptime AND monotonic times take the `now.wall + _dispatch_timeout(when)` path.
\* @type: (Set(Str), Int, $now) => Int;
NanosSinceEpochF(F, when, now) ==
  IF when = FOREVER THEN FOREVER
  ELSE IF (IF "epoch_clock" \in F THEN S(when) < 0 /\ BitQ(when) ELSE S(when) < 0)
  THEN U(0 - S(when))                                     \* (uint64_t)-(int64_t)when
  ELSE IF Mut = "epoch_relative" THEN TimeoutM(when, now)
       ELSE U(now.wall + TimeoutM(when, now))             \* _dispatch_get_nanoseconds() + _dispatch_timeout(when)

\* @type: (Int, Int, $now) => Int;
DispatchTime(inval, delta, now) == DispatchTimeF(Fixed, inval, delta, now)
\* @type: (Bool, Int, Int, Int, $now) => Int;
DispatchWalltime(hasTs, sec, nsec, delta, now) == DispatchWalltimeF(Fixed, hasTs, sec, nsec, delta, now)
\* @type: (Int, $now) => Int;
NanosSinceEpoch(when, now) == NanosSinceEpochF(Fixed, when, now)

(***************************************************************************)
(* PART 2 -- the reference meaning (property C12)                          *)
(***************************************************************************)
\* Which clock an encoding belongs to (FOREVER belongs to every clock).
RefClock(t) == IF t < H THEN "up" ELSE IF t < H + Q THEN "mono" ELSE "wall"

\* Encodings that denote no finite time: the uptime words 01xx.. and the wall word 1100..0
RefOutOfRange(t) == (t < H /\ t > MAXV) \/ t = H + Q

\* @type: (Str, $now) => Int;
NowOf(c, now) == IF c = "up" THEN now.up ELSE IF c = "mono" THEN now.mono ELSE now.wall

\* The time (ns on its clock) a finite, in-range encoding denotes
\* @type: (Int, $now) => Int;
RefAbs(t, now) ==
  IF t < H THEN (IF t = NOW THEN now.up ELSE t)
  ELSE IF t < H + Q THEN (IF t = MONONOW THEN now.mono ELSE t - H)
  ELSE IF t = WALLNOW THEN now.wall ELSE M - t

\* Smallest absolute value with its own encoding: wall values 1 and 2 are FOREVER and
\* WALLTIME_NOW, value 0 is NOW on the other two clocks.
MinRep(c) == IF c = "wall" THEN 3 ELSE 1

RefEnc(c, v) == IF c = "up" THEN v ELSE IF c = "mono" THEN H + v ELSE M - v

\* "already elapsed": a finite in-range time that is not after now (the NOW forms are)
\* @type: (Int, $now) => Bool;
RefElapsed(t, now) ==
  /\ t # FOREVER
  /\ ~RefOutOfRange(t)
  /\ RefAbs(t, now) <= NowOf(RefClock(t), now)

\* base value v on clock c shifted by delta: exact | forever | any elapsed time on c
\* @type: (Str, Int, Int) => $ref;
RefShift(c, v, delta) ==
  LET s == v + delta IN
  IF s > MAXV THEN [kind |-> "forever", clock |-> c, t |-> FOREVER]
  ELSE IF s < MinRep(c) THEN [kind |-> "elapsed", clock |-> c, t |-> 0]
  ELSE [kind |-> "exact", clock |-> c, t |-> RefEnc(c, s)]

\* @type: (Int, Int, $now) => $ref;
RefTime(base, delta, now) ==
  IF base = FOREVER \/ RefOutOfRange(base)
  THEN [kind |-> "forever", clock |-> RefClock(base), t |-> FOREVER]   \* FOREVER is absorbing
  ELSE RefShift(RefClock(base), RefAbs(base, now), delta)

\* @type: (Bool, Int, Int, Int, $now) => $ref;
RefWalltime(hasTs, sec, nsec, delta, now) ==
  RefShift("wall", IF hasTs THEN sec * NPS + nsec ELSE now.wall, delta)

\* does result r meet the reference?
\* @type: ($ref, Int, $now) => Bool;
RefOK(ref, r, now) ==
  IF ref.kind = "elapsed"
  THEN RefClock(r) = ref.clock /\ RefElapsed(r, now)
  ELSE r = ref.t

\* how long a wait until r lasts (M stands for "for ever"); total preorder of results
\* @type: (Int, $now) => Int;
RefWait(r, now) ==
  IF r = FOREVER \/ RefOutOfRange(r) THEN M
  ELSE LET a == RefAbs(r, now)  n == NowOf(RefClock(r), now) IN IF a <= n THEN 0 ELSE a - n

\* Is r a correct absolute wall-clock deadline (ns since the epoch, what sem_timedwait is given)
\* for a wait until t?  A time that has elapsed ON ITS OWN CLOCK must not block: the deadline is
\* not after the wall clock's now.  Otherwise the deadline is as far from the wall clock's now as
\* t is from its own clock's now (mach <-> nanoseconds is the identity on this platform).
\* FOREVER stays FOREVER.  Words that denote no finite time (RefOutOfRange; dispatch_time never
\* returns them) are not judged.
\* @type: (Int, Int, $now) => Bool;
RefDeadlineOK(t, r, now) ==
  IF t = FOREVER THEN r = FOREVER
  ELSE IF RefOutOfRange(t) THEN TRUE
  ELSE IF RefElapsed(t, now) THEN r <= now.wall
  ELSE r - now.wall = RefWait(t, now)

(***************************************************************************)
(* Input classes on which the PINNED code is known to deviate (the precise *)
(* signatures of the known findings).  "" = no known deviation.            *)
(***************************************************************************)
\* @type: (Int, Int, $now) => Str;
ClassTime(base, delta, now) ==
  IF base = FOREVER \/ RefOutOfRange(base) THEN ""
  ELSE LET s == RefAbs(base, now) + delta IN
       IF s = MAXV THEN "dt_sum_eq_max"
       ELSE IF RefClock(base) = "wall" /\ s = 1 THEN "dt_wall_sum_eq_1"
       ELSE ""

\* @type: (Bool, Int, Int, Int, $now) => Str;
ClassWalltime(hasTs, sec, nsec, delta, now) ==
  LET b == IF hasTs THEN sec * NPS + nsec ELSE now.wall
      s == b + delta IN
  IF b > SMAX \/ b < SMIN \/ s > SMAX \/ s < SMIN THEN "wt_int64_overflow"
  ELSE IF s >= Q THEN "wt_unsaturated"
  ELSE IF s <= 1 /\ delta >= 0 THEN "wt_past_nonneg_delta"
  ELSE ""

\* _dispatch_time_nanoseconds_since_epoch: every monotonic-clock word (top bits 10)
\* @type: (Int) => Str;
ClassEpoch(t) == IF t >= H /\ t < H + Q THEN "epoch_mono" ELSE ""

(***************************************************************************)
(* Environment and the finite input sets TLC enumerates                    *)
(***************************************************************************)
\* Environment assumption: each clock reads a representable, non-degenerate time.
\* @type: ($now) => Bool;
NowOK(n) == /\ n.up >= 1 /\ n.up <= MAXV /\ n.mono >= 1 /\ n.mono <= MAXV
            /\ n.wall >= 3 /\ n.wall <= MAXV

\* `now` values explored by TLC (Apalache takes all that satisfy NowOK)
NowSet == { [up |-> 1, mono |-> 1, wall |-> 3],
            [up |-> Q \div 2 + 3, mono |-> Q \div 4 + 1, wall |-> Q \div 2 - 5],
            [up |-> 5, mono |-> Q - 3, wall |-> 7],
            [up |-> MAXV, mono |-> MAXV - 1, wall |-> MAXV] }
OneNow == {[up |-> 1, mono |-> 1, wall |-> 3]}   \* the strictest: hardly anything has elapsed

\* tv_nsec values explored by TLC: every normalised one and denormalised landmarks
NsecSet == (0 .. NPS - 1) \cup {0 - 1, 0 - NPS, NPS, NPS + 1, SMAX, SMIN, Q - 1, Q, Q + 1}
NsecSetQuick == {0, NPS - 1, 0 - 1, NPS, SMIN}
=============================================================================
