-------------------------------- MODULE Root --------------------------------
(* A global (root) queue served by libdispatch's own pthread pool on Linux
   (DISPATCH_USE_INTERNAL_WORKQUEUE): src/queue.c _dispatch_root_queue_push_inline,
   _dispatch_root_queue_poke(_slow), _dispatch_root_queue_drain_one (the MEDIATOR
   protocol on dq_items_head), __DISPATCH_ROOT_QUEUE_CONTENDED_WAIT__,
   _dispatch_worker_thread (park on the mediator semaphore, 5 s timeout, exit re-poke),
   and the once-per-second pool monitor of src/event/workqueue.c
   (_dispatch_workq_monitor_pools: "work but no runnable worker => poke with a negative floor").
   One action per shared-memory access.  Lane.tla uses an abstract bag for this queue;
   this module shows the real mechanism delivers what the bag assumes: every pushed object
   is popped exactly once, eventually - even when every pool thread is blocked inside an
   item that waits for a later item of the same queue (C01's last clause). *)
EXTENDS Integers, Sequences, FiniteSets, TLC

CONSTANTS Clients, Workers,   \* Workers = thread identities the pool may ever create
          Items, Prog,        \* Prog[c] = sequence of items client c pushes
          WaitsFor,           \* WaitsFor[i] = item whose completion i's body blocks on, or NULL
          PoolSize,           \* initial dgq_thread_pool_size (thread budget)
          MaxTids,            \* WORKQ_MAX_TRACKED_TIDS - target_runnable: how far below 0 the monitor may push the budget
          MaxMon,             \* bound on the number of monitor ticks explored; 0 = unbounded (the real timer fires at 1 Hz forever)
          Overcommit,         \* TRUE: an overcommit root queue (what default serial queues target): pending is added to, never
                              \* refused, and the pool monitor does not watch the queue
          SemCap,             \* the mediator semaphore's value saturates here (sound: surplus permits only cause empty drain passes)
          Mut
NULL == "null"
MED == "MEDIATOR"
MON == "monitor"
Threads == Clients \cup Workers \cup {MON}

VARIABLES head, tail, nxt,     \* dq_items_head / dq_items_tail / do_next
          pending, pool,       \* dgq_pending, dgq_thread_pool_size
          sem,                 \* dpq_thread_mediator: permits (>= 0); parked workers wait for one
          ws,                  \* per worker: "none" | "live" | "parked" | "exited"
          pc, lv, ip,
          popped, done, running, monFires
vars == <<head, tail, nxt, pending, pool, sem, ws, pc, lv, ip, popped, done, running, monFires>>

L0 == [item |-> NULL, prev |-> NULL, hd |-> NULL, n |-> NULL, rem |-> 0, floor |-> 0, t |-> 0, ret |-> "idle", why |-> "none"]
Init == /\ head = NULL /\ tail = NULL /\ nxt = [i \in Items |-> NULL]
        /\ pending = 0 /\ pool = PoolSize /\ sem = 0
        /\ ws = [w \in Workers |-> "none"]
        /\ pc = [t \in Threads |-> "idle"] /\ lv = [t \in Threads |-> L0]
        /\ ip = [c \in Clients |-> 1]
        /\ popped = [i \in Items |-> 0] /\ done = {} /\ running = {} /\ monFires = 0
Go(t, l) == pc' = [pc EXCEPT ![t] = l]
SetL(t, f, v) == lv' = [lv EXCEPT ![t][f] = v]
MP == <<head, tail, nxt>>
PL == <<pending, pool, sem, ws>>
GH == <<popped, done, running, monFires>>

(* ---------------- _dispatch_root_queue_push_inline: os_mpsc_push_list ---------------- *)
Start(c) == /\ c \in Clients /\ pc[c] = "idle" /\ ip[c] <= Len(Prog[c])
            /\ lv' = [lv EXCEPT ![c] = [L0 EXCEPT !.item = Prog[c][ip[c]], !.ret = "ret"]] /\ Go(c, "push_tail")
            /\ UNCHANGED <<MP, PL, ip, GH>>
Return(c) == /\ pc[c] = "ret" /\ Go(c, "idle") /\ ip' = [ip EXCEPT ![c] = @ + 1] /\ UNCHANGED <<MP, PL, lv, GH>>
PushTail(t) == /\ pc[t] = "push_tail" /\ tail' = lv[t].item /\ SetL(t, "prev", tail) /\ Go(t, "push_prev")
               /\ UNCHANGED <<head, nxt, PL, ip, GH>>
PushPrev(t) == /\ pc[t] = "push_prev"
               /\ IF lv[t].prev = NULL THEN head' = lv[t].item /\ nxt' = nxt
                  ELSE nxt' = [nxt EXCEPT ![lv[t].prev] = lv[t].item] /\ head' = head
               /\ IF lv[t].prev = NULL /\ Mut # "push_no_poke"
                    THEN lv' = [lv EXCEPT ![t].rem = 1, ![t].floor = 0] /\ Go(t, "poke_probe")
                    ELSE lv' = lv /\ Go(t, lv[t].ret)
               /\ UNCHANGED <<tail, PL, ip, GH>>

(* ---------------- _dispatch_root_queue_poke / _poke_slow (lv.rem = n, lv.floor) ---------------- *)
\* if (!_dispatch_queue_class_probe(dq)) return;   (ordered load of dq_items_tail)
PokeProbe(t) == /\ pc[t] = "poke_probe" /\ Go(t, IF tail # NULL THEN "poke_sem" ELSE lv[t].ret)
                /\ UNCHANGED <<MP, PL, lv, ip, GH>>
\* while (dispatch_semaphore_signal(&mediator)) { if (!--remaining) return; }
PokeSem(t) ==
    /\ pc[t] = "poke_sem"
    /\ IF \E w \in Workers : ws[w] = "parked" /\ pc[w] = "parked"
         THEN \E w \in {x \in Workers : ws[x] = "parked" /\ pc[x] = "parked"} :   \* a sleeping worker takes the permit
                 /\ ws' = [ws EXCEPT ![w] = "live"] /\ pc' = [pc EXCEPT ![w] = "drain_start", ![t] = IF lv[t].rem = 1 THEN lv[t].ret ELSE "poke_sem"]
                 /\ lv' = [lv EXCEPT ![t].rem = @ - 1] /\ sem' = sem
         ELSE /\ sem' = (IF sem < SemCap THEN sem + 1 ELSE sem) /\ Go(t, "poke_pending") /\ UNCHANGED <<ws, lv>>    \* nobody waiting: the signal leaves a permit, returns 0
    /\ UNCHANGED <<MP, pending, pool, ip, GH>>
\* non-overcommit: if (!cmpxchg(dgq_pending, 0, remaining)) return;
PokePending(t) == /\ pc[t] = "poke_pending"
                  /\ IF Overcommit THEN pending' = pending + lv[t].rem /\ Go(t, "poke_load")        \* os_atomic_add2o(dgq_pending)
                     ELSE IF pending = 0 THEN pending' = lv[t].rem /\ Go(t, "poke_load") ELSE pending' = pending /\ Go(t, lv[t].ret)
                  /\ UNCHANGED <<MP, pool, sem, ws, lv, ip, GH>>
\* t_count = load(dgq_thread_pool_size, ordered)
PokeLoad(t) == /\ pc[t] = "poke_load" /\ SetL(t, "t", pool) /\ Go(t, "poke_clamp")
               /\ UNCHANGED <<MP, PL, ip, GH>>
\* can_request = t_count < floor ? 0 : t_count - floor; if (remaining > can_request) { pending -= remaining - can_request; remaining = can_request } if (!remaining) return
PokeClamp(t) ==
    /\ pc[t] = "poke_clamp"
    /\ LET can == IF lv[t].t < lv[t].floor THEN 0 ELSE lv[t].t - lv[t].floor
           rem == IF lv[t].rem > can THEN can ELSE lv[t].rem IN
       \* Mut "poke_full_keeps_pending" (seed C01-4): "pool is full" returns before the reservation is given back
       /\ pending' = IF Mut = "poke_full_keeps_pending" /\ can = 0 THEN pending ELSE pending - (lv[t].rem - rem)
       /\ lv' = [lv EXCEPT ![t].rem = rem]
       /\ Go(t, IF rem = 0 THEN lv[t].ret ELSE "poke_cas")
    /\ UNCHANGED <<MP, pool, sem, ws, ip, GH>>
\* cmpxchgvw(dgq_thread_pool_size, t_count, t_count - remaining, &t_count)
PokeCas(t) ==
    /\ pc[t] = "poke_cas"
    /\ IF pool = lv[t].t THEN pool' = pool - lv[t].rem /\ lv' = lv /\ Go(t, "poke_create")
       ELSE pool' = pool /\ SetL(t, "t", pool) /\ Go(t, "poke_clamp")
    /\ UNCHANGED <<MP, pending, sem, ws, ip, GH>>
\* pthread_create(_dispatch_worker_thread) x remaining
PokeCreate(t) ==
    /\ pc[t] = "poke_create"
    /\ \E w \in Workers : /\ ws[w] = "none"
                          /\ ws' = [ws EXCEPT ![w] = "live"]
                          /\ pc' = [pc EXCEPT ![w] = "w_start", ![t] = IF lv[t].rem = 1 THEN lv[t].ret ELSE "poke_create"]
    /\ lv' = [lv EXCEPT ![t].rem = @ - 1]
    /\ UNCHANGED <<MP, pending, pool, sem, ip, GH>>

(* ---------------- _dispatch_worker_thread ---------------- *)
WStart(w) == /\ pc[w] = "w_start" /\ pending' = pending - 1 /\ Go(w, "drain_start")
             /\ lv' = [lv EXCEPT ![w] = [L0 EXCEPT !.ret = "drain_start"]]
             /\ UNCHANGED <<MP, pool, sem, ws, ip, GH>>
(* _dispatch_root_queue_drain_one *)
\* head = xchg(dq_items_head, MEDIATOR)
DrainXchg(w) ==
    /\ pc[w] = "drain_start"
    /\ head' = MED /\ SetL(w, "hd", head)
    /\ Go(w, IF head = NULL THEN "d_empty_cas" ELSE IF head = MED THEN "d_lost" ELSE "d_next")
    /\ UNCHANGED <<tail, nxt, PL, ip, GH>>
\* if (!cmpxchg(head, MEDIATOR, NULL)) goto start;
DEmptyCas(w) == /\ pc[w] = "d_empty_cas"
                /\ IF head = MED THEN head' = NULL /\ Go(w, "d_empty_tail") ELSE head' = head /\ Go(w, "drain_start")
                /\ UNCHANGED <<tail, nxt, PL, lv, ip, GH>>
\* if (dq->dq_items_tail) contended wait(head_tail_quiesced) else return NULL
DEmptyTail(w) == /\ pc[w] = "d_empty_tail" /\ Go(w, IF tail # NULL THEN "d_quiesce" ELSE "park")
                 /\ UNCHANGED <<MP, PL, lv, ip, GH>>
\* predicate: head and tail both empty (ABORT) or both non-empty (READY); otherwise keep waiting; after the
\* back-off budget the thread gives up: poke(dq, 1, 0) and returns NULL
DQuiesce(w) ==
    /\ pc[w] = "d_quiesce"
    /\ \/ /\ (head = NULL) = (tail = NULL)
          /\ Go(w, IF tail = NULL THEN "park" ELSE "drain_start") /\ lv' = lv
       \/ /\ (head = NULL) # (tail = NULL)     \* time-out of the contended wait
          /\ lv' = [lv EXCEPT ![w].rem = 1, ![w].floor = 0, ![w].ret = "park"] /\ Go(w, "poke_probe")
    /\ UNCHANGED <<MP, PL, ip, GH>>
\* lost the race for the head: wait until the mediator is gone
DLost(w) ==
    /\ pc[w] = "d_lost"
    /\ \/ /\ head # MED /\ Go(w, "drain_start") /\ lv' = lv
       \/ /\ head = MED /\ lv' = [lv EXCEPT ![w].rem = 1, ![w].floor = 0, ![w].ret = "park"] /\ Go(w, "poke_probe")
    /\ UNCHANGED <<MP, PL, ip, GH>>
\* next = head->do_next (plain read)
DNext(w) == /\ pc[w] = "d_next" /\ SetL(w, "n", nxt[lv[w].hd])
            /\ Go(w, IF nxt[lv[w].hd] = NULL THEN "d_last_store" ELSE "d_store_next")
            /\ UNCHANGED <<MP, PL, ip, GH>>
\* store(head, NULL); if (cmpxchg(tail, head, NULL)) goto out; next = wait(head->do_next)
DLastStore(w) == /\ pc[w] = "d_last_store" /\ head' = NULL /\ Go(w, "d_last_cas")
                 /\ UNCHANGED <<tail, nxt, PL, lv, ip, GH>>
DLastCas(w) == /\ pc[w] = "d_last_cas"
               /\ IF tail = lv[w].hd THEN tail' = NULL /\ Go(w, "invoke") ELSE tail' = tail /\ Go(w, "d_wait_next")
               /\ UNCHANGED <<head, nxt, PL, lv, ip, GH>>
DWaitNext(w) == /\ pc[w] = "d_wait_next" /\ nxt[lv[w].hd] # NULL /\ SetL(w, "n", nxt[lv[w].hd])
                /\ Go(w, IF Mut = "drain_race_no_poke" THEN "d_store_next_nopoke" ELSE "d_store_next")
                /\ UNCHANGED <<MP, PL, ip, GH>>
\* store(head, next); _dispatch_root_queue_poke(dq, 1, 0)
DStoreNext(w) == /\ pc[w] = "d_store_next" /\ head' = lv[w].n
                 /\ IF Mut = "drain_no_poke" THEN lv' = lv /\ Go(w, "invoke")
                    ELSE lv' = [lv EXCEPT ![w].rem = 1, ![w].floor = 0, ![w].ret = "invoke"] /\ Go(w, "poke_probe")
                 /\ UNCHANGED <<tail, nxt, PL, ip, GH>>
\* (mutant) the raced path publishes the next item but leaves the thread request to "its enqueuer"
DStoreNextNoPoke(w) == /\ pc[w] = "d_store_next_nopoke" /\ head' = lv[w].n /\ Go(w, "invoke")
                       /\ UNCHANGED <<tail, nxt, PL, lv, ip, GH>>
\* the popped item runs on this worker; its body may block until another item has finished
Invoke(w) == /\ pc[w] = "invoke"
             /\ popped' = [popped EXCEPT ![lv[w].hd] = @ + 1] /\ running' = running \cup {lv[w].hd} /\ done' = done /\ monFires' = monFires
             /\ Go(w, "in_item")
             /\ UNCHANGED <<MP, PL, lv, ip>>
ItemEnd(w) == /\ pc[w] = "in_item"
              /\ (WaitsFor[lv[w].hd] = NULL \/ WaitsFor[lv[w].hd] \in done)
              /\ running' = running \ {lv[w].hd} /\ done' = done \cup {lv[w].hd} /\ popped' = popped /\ monFires' = monFires
              /\ Go(w, "drain_start") /\ lv' = [lv EXCEPT ![w].ret = "drain_start"]
              /\ UNCHANGED <<MP, PL, ip>>
\* dispatch_semaphore_wait(&mediator, 5 s): a left-over permit is taken at once, else park
Park(w) == /\ pc[w] = "park"
           /\ IF sem > 0 THEN sem' = sem - 1 /\ ws' = ws /\ Go(w, "drain_start")
              ELSE sem' = sem /\ ws' = [ws EXCEPT ![w] = "parked"] /\ Go(w, "parked")
           /\ UNCHANGED <<MP, pending, pool, lv, ip, GH>>
\* the 5 s timeout: os_atomic_inc(dgq_thread_pool_size); _dispatch_root_queue_poke(dq, 1, 0); exit
ParkTimeout(w) == /\ pc[w] = "parked" /\ ws[w] = "parked"
                  /\ ws' = [ws EXCEPT ![w] = "live"] /\ pool' = pool + 1
                  /\ lv' = [lv EXCEPT ![w].rem = 1, ![w].floor = 0, ![w].ret = "exit"] /\ Go(w, "poke_probe")
                  /\ UNCHANGED <<MP, pending, sem, ip, GH>>
Exit(w) == /\ pc[w] = "exit" /\ ws' = [ws EXCEPT ![w] = "none"] /\ Go(w, "idle")   \* the identity can be reused
           /\ UNCHANGED <<MP, pending, pool, sem, lv, ip, GH>>

(* ---------------- _dispatch_workq_monitor_pools (manager queue timer, 1 Hz) ---------------- *)
\* runnable = registered workers in scheduler state R: here, live workers that are not blocked inside an item
Runnable(w) == ws[w] = "live" /\ ~(pc[w] = "in_item" /\ WaitsFor[lv[w].hd] # NULL /\ WaitsFor[lv[w].hd] \notin done)
MonitorCond == /\ tail # NULL                                      \* _dispatch_queue_class_probe
               /\ ~\E w \in Workers : Runnable(w)                  \* num_runnable == 0
Monitor == /\ pc[MON] = "idle" /\ Mut # "no_monitor" /\ ~Overcommit /\ (MaxMon = 0 \/ monFires < MaxMon)
           /\ MonitorCond
           /\ lv' = [lv EXCEPT ![MON] = [L0 EXCEPT !.rem = 1, !.floor = -MaxTids, !.ret = "idle"]]
           /\ Go(MON, "poke_probe") /\ monFires' = (IF MaxMon = 0 THEN 0 ELSE monFires + 1)
           /\ UNCHANGED <<MP, PL, ip, popped, done, running>>

Poke(t) == PokeProbe(t) \/ PokeSem(t) \/ PokePending(t) \/ PokeLoad(t) \/ PokeClamp(t) \/ PokeCas(t) \/ PokeCreate(t)
ClientStep(c) == Start(c) \/ Return(c) \/ PushTail(c) \/ PushPrev(c) \/ Poke(c)
WorkerStep(w) == WStart(w) \/ DrainXchg(w) \/ DEmptyCas(w) \/ DEmptyTail(w) \/ DQuiesce(w) \/ DLost(w) \/ DNext(w)
                 \/ DLastStore(w) \/ DLastCas(w) \/ DWaitNext(w) \/ DStoreNext(w) \/ DStoreNextNoPoke(w) \/ Invoke(w) \/ ItemEnd(w)
                 \/ Park(w) \/ Exit(w) \/ Poke(w)
Next == (\E c \in Clients : ClientStep(c)) \/ (\E w \in Workers : WorkerStep(w) \/ ParkTimeout(w)) \/ Monitor \/ Poke(MON)
Spec == Init /\ [][Next]_vars
\* fairness: every thread that can step does (the 5 s park timeout is not required to happen), the monitor timer fires
FairSpec == Spec /\ (\A c \in Clients : WF_vars(ClientStep(c))) /\ (\A w \in Workers : WF_vars(WorkerStep(w)))
                 /\ WF_vars(Monitor \/ Poke(MON))

(* ---------------- properties ---------------- *)
PoppedAtMostOnce == \A i \in Items : popped[i] <= 1
PendingOK == pending >= 0                       \* "Pending thread request underflow" crash
PoolOK == pool >= -MaxTids /\ pool <= PoolSize
ThreadsOK == Cardinality({w \in Workers : ws[w] # "none"}) <= PoolSize + MaxTids
AllPushed == \A c \in Clients : ip[c] > Len(Prog[c])
\* nothing is left behind: when nothing can move except timeouts and the monitor has nothing to do, the list is empty
Settled == /\ \A c \in Clients : pc[c] = "idle"
           /\ \A w \in Workers : pc[w] \in {"idle", "parked"} \/ (pc[w] = "in_item" /\ ~Runnable(w))
           /\ pc[MON] = "idle"
NoStrand == (Settled /\ AllPushed /\ (~MonitorCond \/ Mut = "no_monitor" \/ Overcommit)) => tail = NULL
\* C01, last clause: every pushed item runs, however the pool threads block on later items
Live == <>(done = Items)
=============================================================================
