------------------------- MODULE WorkloopWordTrace -------------------------
(* Word-level trace validation (code -> spec) of the WORKLOOP at the bottom of a target-queue hierarchy (property C03),
   in the style of ChainWordTrace.tla: every recorded atomic access to the workloop's dq_state must be explained by the
   operator that transcribes the C function it was issued from (DQState.tla for the generic inline functions,
   WorkloopState.tla for the _dispatch_workloop_* RMW loops - the SAME operators spec/Workloop.tla is built from), applied
   to the recorded old value with some legal arguments; give-ups must be decisions the operator also takes; a thread that
   releases, lowers or hands over the drain lock must own it; values chain; the word is EXACTLY its initial value at
   quiescence (_dispatch_workloop_dispose crashes otherwise).  Accesses from functions unknown to the spec that some
   operator explains count as DRIFT.  Memory-order tokens are not consulted.

   The records of the per-bucket MPSC lists dwl_heads[b] / dwl_tails[b] ("Bk": exchanges of a tail by the pushers, the
   head stores and tail compare-and-swaps of os_mpsc_pop_head) are validated together with the word:
   (B1) a bucket is popped only by the thread that owns the drain lock (_dispatch_workloop_invoke2 and
        _dispatch_workloop_drain_barrier_waiter run under it);
   (B2) obligation of a first pusher: the thread whose exchange made bucket b non-empty owes the workloop, as its NEXT
        state-changing access to the word, the rmw of _dispatch_workloop_wakeup with MAKE_DIRTY (new word DIRTY and
        ENQUEUED - merging a non-zero qos always sets ENQUEUED - and max_qos >= b + 1; it never gives up), or, for a
        sync waiter, the rmw of _dispatch_workloop_push_waiter (DIRTY, or the lock taken for itself); no API-level event
        of that thread may come first (_dispatch_workloop_push calls the wakeup unconditionally - unlike
        _dispatch_lane_wakeup there is no legitimate skip);
   (B3) no sleeping work: whenever an access leaves the word unlocked and not ENQUEUED, every non-empty bucket has a first
        pusher that still owes (B2).  This is the invariant behind NoStrand of Workloop.tla evaluated on the recorded
        linearisation: the drainer's unlock (_dispatch_queue_drain_try_unlock after _dispatch_workloop_invoke2 found every
        bucket empty) and the unlock of _dispatch_workloop_barrier_complete without a target must not leave an item
        behind whose pusher has already done its wakeup (they fail on DIRTY and look again).
   Bucket emptiness is tracked from the recorded exchanges: the log order is the linearisation order. *)
EXTENDS WorkloopState, Sequences, FiniteSets, Json, IOUtils, TLCExt

Tr == ndJsonDeserialize(IOEnv.TRACE)
NT == Tr[1].nt
Thr == {ToString(i) : i \in 0..(NT - 1)}
MaxQ == 6

VARIABLES l, st, known, drift,
          ne,     \* buckets whose tail is not NULL
          owe     \* pending first-pusher obligations: records [t, b, w] (w: pushed a waiter)
tvars == <<l, st, known, drift, ne, owe>>

Rec == Tr[l]
BOOL == {TRUE, FALSE}
Strip(x) == [sc |-> x.sc, side |-> x.side, inact |-> x.inact, na |-> x.na, ib |-> x.ib, pb |-> x.pb, used |-> x.used,
             dirty |-> x.dirty, enq |-> x.enq, ro |-> x.ro, qos |-> x.qos, owner |-> x.owner]
OwnsLock(s, t) == s.owner = t
\* owned at the exit of _dispatch_workloop_invoke2: (owned & ENQUEUED) + IN_BARRIER + WIDTH_INTERVAL
WlOwned(e) == [ib |-> TRUE, w |-> 1, enq |-> e, res |-> FALSE]

PushFuncs == {"_dispatch_workloop_push", "_dispatch_workloop_push_waiter"}
PopFuncs == {"_dispatch_workloop_invoke2", "_dispatch_workloop_invoke", "_dispatch_workloop_drain_barrier_waiter"}

\* ---- which new words can function f produce from old, called by thread t ----
Allowed(f, op, old, t) ==
  CASE f = "_dispatch_queue_drain_try_lock" -> {DrainTryLock(old, t).s}
    [] f = "_dispatch_queue_drain_try_unlock" ->
         IF op = "xor" THEN (IF old.dirty THEN {[old EXCEPT !.dirty = FALSE]} ELSE {})
         ELSE IF ~OwnsLock(old, t) THEN {}
         ELSE {DrainTryUnlock(old, WlOwned(e), TRUE).s : e \in {x \in BOOL : SubOk(old, WlOwned(x)) /\ old.used >= 1 /\ DrainTryUnlock(old, WlOwned(x), TRUE).ok}}
    [] f = "_dispatch_queue_try_acquire_barrier_sync_and_suspend" ->
         IF TryAcquireBarrierSync(old, t, 0).ok THEN {TryAcquireBarrierSync(old, t, 0).s} ELSE {}
    [] f = "_dispatch_workloop_wakeup" -> {WlWakeup(old, p[1], p[2]).s : p \in {x \in (0..MaxQ) \X BOOL : WlWakeup(old, x[1], x[2]).changed}}
    [] f = "_dispatch_workloop_push_waiter" -> {WlPushWaiter(old, t, q, FALSE).s : q \in 1..MaxQ}
    [] f = "_dispatch_workloop_barrier_complete" ->
         IF op = "xor" THEN (IF old.dirty /\ OwnsLock(old, t) THEN {[old EXCEPT !.dirty = FALSE]} ELSE {})
         ELSE IF ~OwnsLock(old, t) \/ ~old.ib \/ old.used < 1 THEN {}
         ELSE {WlBarrierComplete(old, p[1], p[2]).s : p \in {x \in (0..MaxQ) \X BOOL : WlBarrierComplete(old, x[1], x[2]).ok}}
    [] f = "_dispatch_workloop_drain_barrier_waiter" ->
         IF ~OwnsLock(old, t) THEN {} ELSE {DrainBarrierWaiter(old, n, e) : n \in Thr, e \in {x \in BOOL : x => old.enq}}
    [] f = "_dispatch_workloop_try_lower_max_qos" ->
         IF ~OwnsLock(old, t) THEN {}
         ELSE IF op = "xor" THEN (IF old.dirty THEN {[old EXCEPT !.dirty = FALSE]} ELSE {})
         ELSE {WlTryLower(old, q).s : q \in {x \in 1..MaxQ : WlTryLower(old, x).kind = "set"}}
    [] f = "_dispatch_workloop_activate" ->
         IF op = "and" THEN {[old EXCEPT !.inact = FALSE]} \cup (IF ~old.inact THEN {[old EXCEPT !.na = FALSE]} ELSE {}) ELSE {}
    [] f = "_dispatch_queue_invoke_finish" -> {}    \* a workloop leaves its invoke early only with a barrier waiter (no rmw there)
    [] OTHER -> {}
\* ---- may function f give up (leave the word unchanged) on old ----
GiveUpOk(f, old, t) ==
  CASE f = "_dispatch_queue_drain_try_lock" -> TRUE
    [] f = "_dispatch_queue_drain_try_unlock" -> old.dirty /\ ~Suspended(old)
    [] f = "_dispatch_queue_try_acquire_barrier_sync_and_suspend" -> ~CompletelyIdle(old)
    [] f = "_dispatch_workloop_wakeup" -> \E q \in 0..MaxQ : ~WlWakeup(old, q, FALSE).changed
    [] f = "_dispatch_workloop_barrier_complete" -> old.dirty
    [] f = "_dispatch_workloop_try_lower_max_qos" -> OwnsLock(old, t)       \* max_qos <= qos for some qos, or DIRTY
    [] f = "_dispatch_workloop_push_waiter" -> FALSE
    [] f = "_dispatch_workloop_drain_barrier_waiter" -> FALSE     \* only under ROLE_BASE_WLH
    [] f = "_dispatch_wait_prepare" -> TRUE                        \* not ROLE_BASE_WLH: always gives up
    [] OTHER -> TRUE
KnownFuncs == {"_dispatch_queue_drain_try_lock", "_dispatch_queue_drain_try_unlock", "_dispatch_queue_try_acquire_barrier_sync_and_suspend",
  "_dispatch_workloop_wakeup", "_dispatch_workloop_push_waiter", "_dispatch_workloop_barrier_complete",
  "_dispatch_workloop_drain_barrier_waiter", "_dispatch_workloop_try_lower_max_qos", "_dispatch_workloop_activate",
  "_dispatch_queue_invoke_finish"}
AllAllowed(op, old, t) == UNION {Allowed(f, op, old, t) : f \in KnownFuncs}

OweOf(t) == {o \in owe : o.t = t}
\* (B3)
NoSleepingWork(s, ow) == (s.owner = NULL /\ ~s.enq /\ ~Suspended(s)) => \A b \in ne : \E o \in ow : o.b = b

TInit == l = 2 /\ st = Idle0 /\ known = TRUE /\ drift = 0 /\ ne = {} /\ owe = {} /\ TLCSet(1, 0)
Consume == l' = l + 1
IsSt == l <= Len(Tr) /\ Rec.e = "St"

TReset == /\ l <= Len(Tr) /\ Rec.e = "Reset" /\ Consume
          /\ st' = IF Rec.inactive THEN InactiveInit ELSE Idle0
          /\ known' = TRUE /\ drift' = drift /\ ne' = {} /\ owe' = {}
\* after the flush: word exactly idle, every bucket empty, nothing owed
TQuiesce == /\ l <= Len(Tr) /\ Rec.e = "Quiesce" /\ Consume
            /\ (known => st = Idle0) /\ ne = {} /\ owe = {}
            /\ UNCHANGED <<st, known, drift, ne, owe>>
\* an API-level event of a thread: a first pusher cannot get there before its wakeup (B2)
TOther == /\ l <= Len(Tr) /\ Rec.e \notin {"St", "Reset", "Quiesce", "Bk"} /\ Consume
          /\ ("t" \in DOMAIN Rec => OweOf(Rec.t) = {})
          /\ UNCHANGED <<st, known, drift, ne, owe>>
\* accesses to the bucket lists
TBk == /\ l <= Len(Tr) /\ Rec.e = "Bk" /\ Consume
       /\ LET t == Rec.t  b == Rec.b  pusher == Rec.f \in PushFuncs \/ (Rec.f \notin PopFuncs /\ Rec.op = "xchg") IN
          CASE Rec.fld = "tail" /\ Rec.op = "xchg" ->
                 /\ ~Rec.newnull /\ (Rec.oldnull <=> b \notin ne)           \* the recorded order is the linearisation
                 /\ ne' = ne \cup {b}
                 /\ OweOf(t) = {}
                 /\ owe' = IF Rec.oldnull THEN owe \cup {[t |-> t, b |-> b, w |-> (Rec.f = "_dispatch_workloop_push_waiter")]} ELSE owe
                 /\ drift' = IF Rec.f \in PushFuncs THEN drift ELSE drift + 1
            [] Rec.fld = "tail" /\ Rec.op = "cmpxchg" ->
                 /\ (Rec.ok = 1 /\ Rec.newnull) => ((known => st.owner = ToString(t)) /\ b \in ne)      \* (B1)
                 /\ ne' = IF Rec.ok = 1 /\ Rec.newnull THEN ne \ {b} ELSE ne
                 /\ owe' = owe /\ drift' = IF Rec.f \in PopFuncs THEN drift ELSE drift + 1
            [] Rec.fld = "head" ->
                 \* publication by the first pusher, or the store of os_mpsc_pop_head under the lock (B1)
                 /\ (Rec.f \in PopFuncs /\ known) => st.owner = ToString(t)
                 /\ (Rec.f \notin PopFuncs /\ Rec.f \notin PushFuncs /\ known) => (st.owner = ToString(t) \/ OweOf(t) # {})
                 /\ UNCHANGED <<ne, owe>> /\ drift' = IF Rec.f \in PopFuncs \cup PushFuncs THEN drift ELSE drift + 1
            [] OTHER -> UNCHANGED <<ne, owe, drift>>
       /\ UNCHANGED <<st, known>>

Opaque == Rec.op = "half" \/ "odd_old" \in DOMAIN Rec \/ "odd_new" \in DOMAIN Rec
TStOpaque == /\ IsSt /\ Opaque /\ Consume /\ known' = FALSE /\ owe' = owe \ OweOf(Rec.t) /\ UNCHANGED <<st, drift, ne>>

\* does this successful state change pay thread t's obligation o
Pays(o, f, new, t) ==
    IF o.w THEN f = "_dispatch_workloop_push_waiter" /\ (new.dirty \/ new.owner = t) /\ (new.owner = t \/ new.qos >= o.b + 1)
    ELSE f = "_dispatch_workloop_wakeup" /\ new.dirty /\ new.enq /\ new.qos >= o.b + 1
\* moved / renamed code: judged by its effect only
PaysByEffect(o, new, t) == (new.dirty \/ new.owner = t) /\ (new.enq \/ new.owner # NULL)

TSt == /\ IsSt /\ ~Opaque /\ Consume
       /\ LET old == Strip(Rec.old) new == Strip(Rec.new) t == ToString(Rec.t) mine == OweOf(Rec.t) IN
          IF Rec.op = "giveup"
          THEN /\ GiveUpOk(Rec.f, old, t) /\ UNCHANGED <<st, known, drift, ne, owe>>
               /\ ~(mine # {} /\ Rec.f \in {"_dispatch_workloop_wakeup", "_dispatch_workloop_push_waiter"})   \* (B2): never gives up
          ELSE
          /\ (known => old = st)
          /\ st' = new /\ known' = TRUE /\ ne' = ne
          /\ CASE Rec.op = "load" -> new = old /\ drift' = drift /\ owe' = owe
               [] Rec.op = "cmpxchg" /\ Rec.ok = 0 -> new = old /\ drift' = drift /\ owe' = owe
               [] OTHER ->
                    /\ IF Rec.f \in KnownFuncs
                       THEN (\E x \in Allowed(Rec.f, Rec.op, old, t) : x = new) /\ drift' = drift
                       ELSE (\E x \in AllAllowed(Rec.op, old, t) : x = new) /\ drift' = drift + 1
                    \* (B2): the first state change of an owing thread is its wakeup
                    /\ IF mine = {} THEN owe' = owe
                       ELSE /\ \A o \in mine : IF Rec.f \in KnownFuncs THEN Pays(o, Rec.f, new, t) ELSE PaysByEffect(o, new, t)
                            /\ owe' = owe \ mine
          /\ NoSleepingWork(new, owe')                                                              \* (B3)
TNext == TReset \/ TQuiesce \/ TOther \/ TBk \/ TStOpaque \/ TSt
TSpec == TInit /\ [][TNext]_tvars

WordOK == st.used >= 0 /\ st.used <= 1 /\ ~st.pb /\ st.sc = 0 /\ st.qos >= 0 /\ st.qos <= MaxQ
MaxL == IF TLCGet(1) < l THEN TLCSet(1, l) ELSE TRUE
Accepted == l > Len(Tr)
StopWhenAccepted == Accepted => (PrintT("TRACE_ACCEPTED") /\ PrintT(<<"DRIFT", drift>>) /\ TLCSet("exit", TRUE))
Post == PrintT(<<"MAXL", TLCGet(1), Len(Tr)>>)
=============================================================================
