------------------------------- MODULE TimeMC -------------------------------
(* Property C12 as laws over Time.tla.  One state (ph = 1) per input tuple, holding the
   inputs and the value returned by the call; the laws are invariants of those states.
   There is no behaviour to speak of.  TLC enumerates the tuples at W = 8 (InitTLC / Next),
   Apalache takes the full domain at W = 64 symbolically (InitFull*, --length=0). *)
EXTENDS Time

CONSTANT
  \* @type: Bool;
  Thorough \* TLC only: larger tv_nsec / now sets for dispatch_walltime

VARIABLES
  \* @type: Int;
  ph,      \* 0: inputs half chosen (TLC only, lets the workers share the enumeration); 1: chosen
  \* @type: Str;
  fn,      \* "time" | "walltime" | "walltime_null" | "timeout" | "epoch"
  \* @type: Int;
  base,    \* dispatch_time_t argument
  \* @type: Int;
  delta,
  \* @type: Int;
  sec,     \* tv_sec
  \* @type: Int;
  nsec,    \* tv_nsec
  \* @type: $now;
  now,
  \* @type: Int;
  res,     \* the value returned by the call (fn = "timeout": _dispatch_timeout(base),
           \* fn = "epoch": _dispatch_time_nanoseconds_since_epoch(base))
  \* @type: Int;
  res1,    \* the value returned by the same call with delta + 1 (0 if not applicable)
  \* @type: Str;
  cls      \* the known-deviation input class of the call ("" = none)

vars == <<ph, fn, base, delta, sec, nsec, now, res, res1, cls>>

\* the call
\* @type: (Str, Int, Int, Int, Int, $now) => Int;
Call(f, b, d, s, n, nw) ==
  IF f = "time" THEN DispatchTime(b, d, nw)
  ELSE IF f = "timeout" THEN TimeoutM(b, nw)
  ELSE IF f = "epoch" THEN NanosSinceEpoch(b, nw)
  ELSE DispatchWalltime(f = "walltime", s, n, d, nw)
\* @type: (Str, Int, Int, Int, Int, $now) => Int;
Call1(f, b, d, s, n, nw) == IF f = "timeout" \/ f = "epoch" \/ d = SMAX THEN 0 ELSE Call(f, b, d + 1, s, n, nw)

\* @type: (Str, Int, Int, Int, Int, $now) => Str;
ClassOf(f, b, d, s, n, nw) ==
  IF f = "time" THEN ClassTime(b, d, nw)
  ELSE IF f = "timeout" THEN ""
  ELSE IF f = "epoch" THEN ClassEpoch(b)
  ELSE ClassWalltime(f = "walltime", s, n, d, nw)

\* TLC: the first half of each input tuple is chosen by Init, the second half by the single
\* step Choose, so that the enumeration is spread over the workers.
InitTLC ==
  /\ ph = 0 /\ delta = 0 /\ nsec = 0 /\ res = 0 /\ res1 = 0 /\ cls = ""
  /\ \/ fn = "time" /\ base \in 0 .. M - 1 /\ sec = 0 /\ now \in NowSet
     \/ fn = "timeout" /\ base \in 0 .. M - 1 /\ sec = 0 /\ now \in NowSet
     \/ fn = "epoch" /\ base \in 0 .. M - 1 /\ sec = 0 /\ now \in NowSet
     \/ fn = "walltime_null" /\ base = 0 /\ sec = 0 /\ now \in NowSet
     \/ fn = "walltime" /\ base = 0 /\ sec \in SMIN .. SMAX /\ now \in (IF Thorough THEN NowSet ELSE OneNow)

\* only the _dispatch_time_nanoseconds_since_epoch tuples (the refutation runs of that law)
InitTLCEpoch ==
  /\ ph = 0 /\ delta = 0 /\ nsec = 0 /\ res = 0 /\ res1 = 0 /\ cls = ""
  /\ fn = "epoch" /\ base \in 0 .. M - 1 /\ sec = 0 /\ now \in NowSet

Choose ==
  /\ ph = 0 /\ ph' = 1
  /\ UNCHANGED <<fn, base, sec, now>>
  /\ delta' \in (IF fn = "timeout" \/ fn = "epoch" THEN {0} ELSE SMIN .. SMAX)
  /\ nsec' \in (IF fn = "walltime" THEN (IF Thorough THEN NsecSet ELSE NsecSetQuick) ELSE {0})
  /\ res' = Call(fn, base, delta', sec, nsec', now)
  /\ res1' = Call1(fn, base, delta', sec, nsec', now)
  /\ cls' = ClassOf(fn, base, delta', sec, nsec', now)

Next == Choose

\* TLC CONSTRAINT: the ph = 1 states have no successors, so they need not be stored or queued;
\* TLC still evaluates the invariants on them (once each: Choose generates every tuple once).
Prefix == ph = 0

\* Apalache: the full domain -- every word, every delta, every timespec, every admissible
\* now -- one function at a time (keeps the SMT problems small)
InitFullFn(f) ==
  /\ ph = 1 /\ fn = f
  /\ base \in 0 .. M - 1
  /\ delta \in SMIN .. SMAX
  /\ sec \in SMIN .. SMAX
  /\ nsec \in SMIN .. SMAX
  /\ now \in [up : 1 .. MAXV, mono : 1 .. MAXV, wall : 3 .. MAXV]
  /\ res = Call(f, base, delta, sec, nsec, now)
  /\ res1 = Call1(f, base, delta, sec, nsec, now)
  /\ cls = ClassOf(f, base, delta, sec, nsec, now)
InitFullTime == InitFullFn("time")
InitFullTimeout == InitFullFn("timeout")
InitFullEpoch == InitFullFn("epoch")
InitFullWall == InitFullFn("walltime") \/ InitFullFn("walltime_null")
InitFullCalls == InitFullTime \/ InitFullWall
\* ... the part of it outside the class wt_int64_overflow.  (Inside that class the *OrKnown
\* invariants hold by definition, so this is all there is to prove about the pinned code.)
InitFullWallNoOverflow ==
  /\ InitFullWall
  /\ LET b == IF fn = "walltime" THEN sec * NPS + nsec ELSE now.wall IN
     /\ b >= SMIN /\ b <= SMAX /\ b + delta >= SMIN /\ b + delta <= SMAX

\* reference and known-deviation class for the current state
Ref == IF fn = "time" THEN RefTime(base, delta, now)
       ELSE RefWalltime(fn = "walltime", sec, nsec, delta, now)
Class == cls
Class1 == IF fn = "time" THEN ClassTime(base, delta + 1, now)
          ELSE ClassWalltime(fn = "walltime", sec, nsec, delta + 1, now)
IsCall == ph = 1 /\ fn # "timeout" /\ fn # "epoch"     \* a dispatch_time / dispatch_walltime call
IsEpoch == ph = 1 /\ fn = "epoch"       \* a _dispatch_time_nanoseconds_since_epoch call

TypeOK == /\ ph \in {0, 1}
          /\ fn \in {"time", "timeout", "walltime_null", "walltime", "epoch"}
          /\ base \in 0 .. M - 1 /\ delta \in SMIN .. SMAX
          /\ sec \in SMIN .. SMAX /\ nsec \in SMIN .. SMAX /\ NowOK(now)
          /\ res \in 0 .. M - 1 /\ res1 \in 0 .. M - 1
          /\ cls \in {"", "dt_sum_eq_max", "dt_wall_sum_eq_1", "wt_int64_overflow", "wt_unsaturated",
                      "wt_past_nonneg_delta", "epoch_mono"}

\* the SMT-friendly helpers mean what the C operators mean
HelpersExact ==
  /\ BitQ(base) = ((base \div Q) % 2 = 1)
  /\ \A x \in {base, delta, 0 - base, base + delta, base - delta + M, sec * NPS + nsec, 3 * base} :
        U(x) = x % M
  /\ TimespecToNano(sec, nsec) = TimespecToNanoC(sec, nsec)

\* (L1) same clock, exact shift, or saturation -- the property's first sentence
Conforms == IsCall => RefOK(Ref, res, now)

\* (L1') what holds of the pinned code: every deviation lies in a named input class
ConformsOrKnown == IsCall => (RefOK(Ref, res, now) \/ Class # "")

\* (L2) a larger delta never yields an earlier time (adjacent deltas suffice: the order
\*      is a total preorder), and never another clock
LaterOrEqual == /\ RefWait(res, now) <= RefWait(res1, now)
                /\ (res # FOREVER /\ res1 # FOREVER) => RefClock(res) = RefClock(res1)
Monotone == (IsCall /\ delta < SMAX) => LaterOrEqual
MonotoneOrKnown == (IsCall /\ delta < SMAX) => (Class # "" \/ Class1 # "" \/ LaterOrEqual)

\* (L3) FOREVER is absorbing
Absorbing == (ph = 1 /\ fn = "time" /\ base = FOREVER) => res = FOREVER

\* (L4) waiting until a time that is already past does not block
PastNoBlock == (ph = 1 /\ fn = "timeout" /\ RefElapsed(base, now)) => res = 0

\* (L4') ... in particular the result of an underflowing shift
UnderflowNoBlock ==
  (IsCall /\ Ref.kind = "elapsed" /\ res # FOREVER) => TimeoutM(res, now) = 0
UnderflowNoBlockOrKnown ==
  (IsCall /\ Ref.kind = "elapsed" /\ res # FOREVER /\ Class = "") => TimeoutM(res, now) = 0

\* (L4'') ... also where the wait is converted to an absolute wall-clock deadline (timed
\* dispatch_semaphore_wait on POSIX semaphores): a time that has elapsed on ITS OWN clock yields a
\* deadline that is not after the wall clock's now
PastNoBlockEpoch == (IsEpoch /\ RefElapsed(base, now)) => res <= now.wall
\* the whole law of that conversion: elapsed => not after now.wall; pending => exactly as far
\* from now.wall as the time is from its own clock's now; FOREVER => FOREVER
EpochDeadline == IsEpoch => RefDeadlineOK(base, res, now)
\* what holds of the pinned code: every deviation lies in the named input class
EpochDeadlineOrKnown == IsEpoch => (RefDeadlineOK(base, res, now) \/ Class # "")
PastNoBlockEpochOrKnown == (IsEpoch /\ RefElapsed(base, now) /\ Class = "") => res <= now.wall

\* model sanity: the transcribed _dispatch_timeout is the reference wait for finite times
TimeoutExact ==
  (ph = 1 /\ fn = "timeout" /\ base # FOREVER /\ ~RefOutOfRange(base)) => res = RefWait(base, now)

\* Each known class really contains a deviation of the pinned code (checked as an
\* invariant that must be VIOLATED when Fixed = {}):  NoDev_<class>
Dev == IF fn = "epoch" THEN ph = 1 /\ ~RefDeadlineOK(base, res, now)
       ELSE IsCall /\ ~RefOK(Ref, res, now)
NoDevIn(c) == ~(Class = c /\ Dev)
\* Apalache: one counterexample per class in one run (--view=ClassView --max-error=n)
NoDevAny == ~(Class # "" /\ Dev)
\* @type: Str;
ClassView == Class
NoDev_dt_sum_eq_max == NoDevIn("dt_sum_eq_max")
NoDev_dt_wall_sum_eq_1 == NoDevIn("dt_wall_sum_eq_1")
NoDev_wt_int64_overflow == NoDevIn("wt_int64_overflow")
NoDev_wt_unsaturated == NoDevIn("wt_unsaturated")
NoDev_wt_past_nonneg_delta == NoDevIn("wt_past_nonneg_delta")
NoDev_epoch_mono == NoDevIn("epoch_mono")
=============================================================================
