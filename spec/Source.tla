------------------------------- MODULE Source -------------------------------
(* Custom data sources (DISPATCH_SOURCE_TYPE_DATA_ADD / DATA_OR / DATA_REPLACE), transcribed
   from src/source.c, src/event/event.c, src/queue.c and src/inline_internal.h with ONE ACTION
   PER SHARED-MEMORY ACCESS of the data path:

     dispatch_source_merge_data   : os_atomic_add2o / or2o / store2o (ds_pending_data, relaxed),
                                    then dx_wakeup(ds, 0, DISPATCH_WAKEUP_MAKE_DIRTY)
     _dispatch_source_wakeup      : plain read of ds_is_installed, load of ds_pending_data
                                    (target = the source's target queue when not installed or when
                                    data is pending, none otherwise; a data source is "direct": the
                                    manager queue is never involved) -> _dispatch_queue_wakeup
     _dispatch_queue_wakeup       : the dq_state RMW loop (DQState!WakeupQ); a loop that changes
                                    nothing gives up; ENQUEUED newly set => push on the target queue
     _dispatch_queue_class_invoke : _dispatch_queue_drain_try_lock, invoke2, then
                                    _dispatch_queue_drain_try_unlock (DIRTY => give up, xor DIRTY,
                                    retry in place on a root queue / re-enqueue through
                                    _dispatch_queue_invoke_finish on any other queue)
     _dispatch_source_invoke2     : install if needed, load dq_state (suspended => leave through
                                    invoke_finish), load ds_pending_data, latch_and_call, load
                                    ds_pending_data again (starvation avoidance: non-zero => re-enqueue)
     _dispatch_source_latch_and_call : prev = os_atomic_xchg2o(ds_pending_data, 0); zero => no
                                    callout; ds_data = prev; handler callout
     dispatch_suspend / dispatch_resume / dispatch_activate on the source: the lane RMW loops
                                    (DQState!Suspend / Resume(isSource) / Activate), activation
                                    runs _dispatch_source_activate (installs the unote when the
                                    target hierarchy is already settled) and resumes.

   The source's dq_state word follows the DQState operators with W = 1 (a source is drained like
   a serial lane).  The target queue is abstract: `tq` counts the entries of the source sitting
   in it; a serial target lets one thread at a time work on what it popped, a concurrent target
   (whose items are redirected to a root queue) and a global queue let any number.  On a global
   (root) target a failed unlock retries in place, otherwise it re-enqueues.

   Memory orders the code uses (compared informationally by SourceTrace.tla): every access to
   ds_pending_data is relaxed; dq_state: queue_wakeup release, drain_try_lock acquire, drain_try_unlock
   release (its DIRTY xor: acquire), invoke_finish release, suspend relaxed, resume release, the
   activating RMW and the role update relaxed; loop-entry loads and DISPATCH_QUEUE_IS_SUSPENDED relaxed.

   Not modelled (other properties): cancellation (C16: the DSF_CANCELED / DQF_RELEASED tests of
   merge_data, wakeup and invoke2 read flags that never change here), the +2 reference ledger
   (C17), QoS overrides (the max-qos bits follow DQState!MergeQos only).

   Property C15 is stated on the ghost record `g`, which summarises the values merged (in the
   order their atomic update took effect) and the values dispatch_source_get_data returned (in
   handler order): only what the laws of the source's kind need is kept (sums for ADD, unions
   for OR, the set / the last value for REPLACE), so that histories the property cannot tell
   apart are one state. *)
EXTENDS DQState, Sequences, FiniteSets

CONSTANTS Threads,        \* all threads (strings; a drain-lock owner is a thread)
          Mergers,        \* threads that call merge_data / suspend / resume / activate from outside
          Drainers,       \* threads that serve the target queue
          Kinds,          \* subset of {"add", "or", "replace"} explored
          Targets,        \* subset of {"serial", "concurrent", "global"} explored
          Vals, ValsR,    \* values merged into add/or sources, into replace sources (may contain 0)
          MaxMerges,      \* bound on merge_data calls
          MaxSusp,        \* bound on dispatch_suspend calls
          HandlerMerges,  \* TRUE: the event handler may call merge_data on its own source
          InitActive,     \* TRUE: start from an activated, installed source
          Mut             \* "none", or the name of a variant of the transcription (see Variants below)

VARIABLES cfg,            \* [kind, target] of this execution (never changes)
          st,             \* dq_state of the source (DQState record)
          pending,        \* ds_pending_data
          dsdata,         \* ds_data
          installed,      \* ds_is_installed
          tq,             \* entries of the source in its target queue
          holder,         \* serial target: the thread working on what it popped from it, or NULL
          pc, lv,         \* per thread: control point, locals
          g,              \* ghost: summary of the values merged and delivered (see Ghost0)
          inH,            \* ghost: threads inside the event handler
          nmerge, nsusp,  \* ghost: merge_data / dispatch_suspend calls started
          held,           \* ghost: suspends returned minus resumes started
          actCalled       \* ghost: dispatch_activate has been called

vars == <<cfg, st, pending, dsdata, installed, tq, holder, pc, lv, g, inH, nmerge, nsusp, held, actCalled>>

\* m* : merged, d* : delivered.  Sum (add), Or (or), Set / Last / N (replace); zero: a handler saw 0;
\* unmerged: a REPLACE handler saw a value nobody had merged
Ghost0 == [mSum |-> 0, dSum |-> 0, mOr |-> 0, dOr |-> 0, mSet |-> {}, mN |-> 0, mLast |-> 0, dN |-> 0, dLast |-> 0,
           zero |-> FALSE, unmerged |-> FALSE]
(* Variants (constant Mut).  Each is a point-wise change of the transcription that a realistic edit of
   the C code produces.  The harmful ones are the non-vacuity mutants TLC must refute; all of them are
   deviations a recorded execution can be re-validated against when it does not follow the
   transcription: whether the code's observed behaviour endangers the property is then decided by
   model checking the variant, not by the mismatch itself.
     "latch_load_store"  latch = load then store of 0 (not an exchange)        -> lost merge
     "merge_load_store"  merge_data = load then store (not an atomic add / or)    -> lost merge
     "wakeup_nodirty"    merge_data wakes up without DISPATCH_WAKEUP_MAKE_DIRTY    -> merge stranded
     "no_drain_lock"     the source is invoked although drain_try_lock failed      -> handler re-entered
     "deliver_zero"      latch_and_call calls out whatever it latched              -> handler reports 0
     "no_recheck"        invoke2 does not look at ds_pending_data after the callout (no starvation avoidance)
     "always_wake"       source_wakeup targets the queue without looking at ds_pending_data
     "always_latch"      invoke2 latches without looking at ds_pending_data first *)
L0 == [ret |-> "idle", v |-> 0, old |-> 0, mk |-> FALSE, wkret |-> "idle", prev |-> 0, owned |-> Owned0]

RECURSIVE BitOr(_, _)
BitOr(a, b) == IF a = 0 THEN b ELSE IF b = 0 THEN a
               ELSE (IF a % 2 = 1 \/ b % 2 = 1 THEN 1 ELSE 0) + 2 * BitOr(a \div 2, b \div 2)
\* ghost updates: a merge of v took effect / a handler invocation read v
GMerge(v) == CASE cfg.kind = "add" -> [g EXCEPT !.mSum = @ + v]
               [] cfg.kind = "or" -> [g EXCEPT !.mOr = BitOr(@, v)]
               [] OTHER -> [g EXCEPT !.mSet = @ \cup {v}, !.mLast = v, !.mN = 1]
GDeliver(v) == LET z == [g EXCEPT !.zero = (@ \/ v = 0)] IN
               CASE cfg.kind = "add" -> [z EXCEPT !.dSum = @ + v]
                 [] cfg.kind = "or" -> [z EXCEPT !.dOr = BitOr(@, v)]
                 [] OTHER -> [z EXCEPT !.dLast = v, !.dN = 1, !.unmerged = (@ \/ v \notin g.mSet)]
Apply(k, p, v) == CASE k = "add" -> p + v [] k = "or" -> BitOr(p, v) [] k = "replace" -> v
ValsOf(k) == IF k = "replace" THEN ValsR ELSE Vals

Init == /\ cfg \in [kind : Kinds, target : Targets]
        /\ st = IF InitActive THEN Idle0 ELSE InactiveInit
        /\ pending = 0 /\ dsdata = 0 /\ installed = InitActive /\ tq = 0 /\ holder = NULL
        /\ pc = [t \in Threads |-> "idle"] /\ lv = [t \in Threads |-> L0]
        /\ g = Ghost0 /\ inH = {} /\ nmerge = 0 /\ nsusp = 0 /\ held = 0
        /\ actCalled = InitActive

Go(t, l) == pc' = [pc EXCEPT ![t] = l]
Root == cfg.target = "global"
\* entry of _dispatch_source_wakeup.  ds_is_installed only ever changes from false to true: once it is
\* true its (plain) read is determined and is not a step of its own
WkInstalled == IF Mut = "always_wake" THEN "wk_rmw" ELSE "wk_pend"
WkEntry == IF installed THEN WkInstalled ELSE "wk_inst"
AfterCall == IF Mut = "no_recheck" THEN "d_unlock" ELSE "i2_after"
GHOST == <<g, inH, nmerge, nsusp, held, actCalled>>
DATA == <<pending, dsdata>>

(* ========================= dispatch_source_merge_data ========================= *)
\* entry: the flags test (never cancelled here); callable from outside and from the handler
CallMerge(t, v) ==
    /\ pc[t] \in {"idle", "h_body"}
    /\ (pc[t] = "idle" => t \in Mergers) /\ (pc[t] = "h_body" => HandlerMerges)
    /\ nmerge < MaxMerges /\ v \in ValsOf(cfg.kind)
    /\ lv' = [lv EXCEPT ![t].ret = pc[t], ![t].v = v]
    /\ Go(t, IF Mut = "merge_load_store" /\ cfg.kind # "replace" THEN "m_ld" ELSE "m_upd") /\ nmerge' = nmerge + 1
    /\ UNCHANGED <<cfg, st, DATA, installed, tq, holder, g, inH, nsusp, held, actCalled>>
\* os_atomic_add2o / os_atomic_or2o / os_atomic_store2o(dr, ds_pending_data, val, relaxed)
\* (variant merge_load_store: the value read by MLoad is combined and stored back)
MLoad(t) == /\ pc[t] = "m_ld" /\ lv' = [lv EXCEPT ![t].old = pending] /\ Go(t, "m_upd")
            /\ UNCHANGED <<cfg, st, DATA, installed, tq, holder, GHOST>>
MUpdate(t) ==
    /\ pc[t] = "m_upd"
    /\ pending' = Apply(cfg.kind, IF Mut = "merge_load_store" THEN lv[t].old ELSE pending, lv[t].v) /\ g' = GMerge(lv[t].v)
    /\ lv' = [lv EXCEPT ![t].mk = (Mut # "wakeup_nodirty"), ![t].wkret = lv[t].ret]  \* dx_wakeup(ds, 0, MAKE_DIRTY), then return
    /\ Go(t, WkEntry)
    /\ UNCHANGED <<cfg, st, dsdata, installed, tq, holder, inH, nmerge, nsusp, held, actCalled>>

(* ============================ _dispatch_source_wakeup ============================ *)
\* if (!ds->ds_is_installed) tq = dkq (= TARGET, the source is direct)      (plain read)
WkInst(t) == /\ pc[t] = "wk_inst" /\ Go(t, IF installed THEN WkInstalled ELSE "wk_rmw")
             /\ UNCHANGED <<cfg, st, DATA, installed, tq, holder, lv, GHOST>>
\* else if (os_atomic_load2o(dr, ds_pending_data, relaxed)) tq = TARGET; otherwise NONE: nothing happens
WkPend(t) == /\ pc[t] = "wk_pend" /\ Go(t, IF pending # 0 THEN "wk_rmw" ELSE lv[t].wkret)
             /\ UNCHANGED <<cfg, st, DATA, installed, tq, holder, lv, GHOST>>
\* _dispatch_queue_wakeup(ds, qos, flags, TARGET): the RMW loop; q = _dispatch_queue_wakeup_qos(ds, qos)
WkRmwQ(t, q) ==
    /\ pc[t] = "wk_rmw"
    /\ LET r == WakeupQ(st, lv[t].mk, q) IN
       IF r.changed THEN st' = r.s /\ tq' = (IF r.push THEN tq + 1 ELSE tq)
                    ELSE st' = st /\ tq' = tq                  \* os_atomic_rmw_loop_give_up
    /\ Go(t, lv[t].wkret)
    /\ UNCHANGED <<cfg, DATA, installed, holder, lv, GHOST>>
WkRmw(t) == \E q \in 0..QW : WkRmwQ(t, q)

(* ======================= dispatch_suspend / resume / activate ======================= *)
CallSuspend(t) == /\ pc[t] = "idle" /\ t \in Mergers /\ nsusp < MaxSusp /\ nsusp' = nsusp + 1 /\ Go(t, "s_rmw")
                  /\ lv' = [lv EXCEPT ![t].ret = "idle"]
                  /\ UNCHANGED <<cfg, st, DATA, installed, tq, holder, g, inH, nmerge, held, actCalled>>
SuspRmw(t) == /\ pc[t] = "s_rmw"
              /\ LET r == Suspend(st) IN
                 IF r.ok THEN st' = r.s /\ held' = held + 1 /\ Go(t, "idle")
                         ELSE st' = st /\ held' = held /\ Go(t, "crash")     \* side-count path: not reachable below SCMAX
              /\ UNCHANGED <<cfg, DATA, installed, tq, holder, lv, g, inH, nmerge, nsusp, actCalled>>
CallResume(t) == /\ pc[t] = "idle" /\ t \in Mergers /\ held > 0 /\ held' = held - 1
                 /\ lv' = [lv EXCEPT ![t].wkret = "idle", ![t].ret = "idle"] /\ Go(t, "r_rmw")
                 /\ UNCHANGED <<cfg, st, DATA, installed, tq, holder, g, inH, nmerge, nsusp, actCalled>>
\* _dispatch_lane_resume(ds, false): is_source = true
ResRmw(t) ==
    /\ pc[t] = "r_rmw"
    /\ LET r == Resume(st, t, TRUE) IN
       /\ st' = r.s
       /\ CASE r.kind = "activate" -> Go(t, "a_inherit") /\ lv' = lv              \* _dispatch_lane_resume_activate
            [] r.kind \in {"still", "nowidth"} -> Go(t, lv[t].wkret) /\ lv' = lv
            [] r.kind \in {"locked", "wakeup"} -> Go(t, WkEntry) /\ lv' = [lv EXCEPT ![t].mk = FALSE]   \* dx_wakeup(ds, qos, CONSUME_2)
            [] OTHER -> Go(t, "crash") /\ lv' = lv                               \* over-resume
    /\ UNCHANGED <<cfg, DATA, installed, tq, holder, GHOST>>
CallActivate(t) == /\ pc[t] = "idle" /\ t \in Mergers /\ ~actCalled /\ actCalled' = TRUE
                   /\ lv' = [lv EXCEPT ![t].wkret = "idle", ![t].ret = "idle"] /\ Go(t, "a_rmw")
                   /\ UNCHANGED <<cfg, st, DATA, installed, tq, holder, g, inH, nmerge, nsusp, held>>
\* _dispatch_lane_resume(ds, true)
ActRmw(t) ==
    /\ pc[t] = "a_rmw"
    /\ LET r == Activate(st) IN
       /\ st' = r.s /\ Go(t, IF r.kind = "finalize" THEN "a_inherit" ELSE lv[t].wkret)
    /\ UNCHANGED <<cfg, DATA, installed, tq, holder, lv, GHOST>>
\* _dispatch_source_activate -> _dispatch_lane_activate -> _dispatch_lane_inherit_wlh_from_target: role bits only
AInherit(t) == /\ pc[t] = "a_inherit" /\ Go(t, "a_install")
               /\ UNCHANGED <<cfg, st, DATA, installed, tq, holder, lv, GHOST>>
\* if (!ds_is_installed && (pri = compute_priority_and_wlh())) _dispatch_source_install   (b: the hierarchy is settled)
AInstall(t, b) == /\ pc[t] = "a_install" /\ installed' = (installed \/ b)
                  /\ lv' = [lv EXCEPT ![t].wkret = "idle"] /\ Go(t, "r_rmw")      \* step 3: consume the suspend count
                  /\ UNCHANGED <<cfg, st, DATA, tq, holder, GHOST>>

(* ================= _dispatch_queue_class_invoke / _dispatch_source_invoke2 ================= *)
DrainPcs == {"i2_install", "i2_susp", "i2_pend", "latch", "latch_ld", "latch_st", "h_start", "h_body", "i2_after",
             "d_unlock", "d_xor", "d_finish"}
Leave(w) == /\ Go(w, "idle") /\ holder' = (IF holder = w THEN NULL ELSE holder)
\* a thread of the target queue pops the source and calls _dispatch_queue_drain_try_lock
DLock(w) ==
    /\ pc[w] = "idle" /\ w \in Drainers /\ tq > 0 /\ (cfg.target = "serial" => holder = NULL)
    /\ tq' = tq - 1
    /\ LET r == DrainTryLock(st, w) IN
       /\ st' = r.s
       /\ IF r.ok \/ Mut = "no_drain_lock"
            THEN /\ lv' = [lv EXCEPT ![w].owned = r.owned]
                 /\ Go(w, IF installed THEN "i2_susp" ELSE "i2_install")
                 /\ holder' = (IF cfg.target = "serial" THEN w ELSE holder)
            ELSE lv' = lv /\ Leave(w)
    /\ UNCHANGED <<cfg, DATA, installed, GHOST>>
\* if (!ds->ds_is_installed) _dispatch_source_install   (we are on the target queue = dkq)
I2Install(w) == /\ pc[w] = "i2_install" /\ installed' = TRUE /\ Go(w, "i2_susp")
                /\ UNCHANGED <<cfg, st, DATA, tq, holder, lv, GHOST>>
\* if (DISPATCH_QUEUE_IS_SUSPENDED(ds)) return ds->do_targetq
LatchPc == IF Mut = "latch_load_store" THEN "latch_ld" ELSE "latch"
I2Susp(w) == /\ pc[w] = "i2_susp" /\ Go(w, IF Suspended(st) THEN "d_finish" ELSE IF Mut = "always_latch" THEN LatchPc ELSE "i2_pend")
             /\ UNCHANGED <<cfg, st, DATA, installed, tq, holder, lv, GHOST>>
\* if (os_atomic_load2o(dr, ds_pending_data, relaxed)) latch_and_call
I2Pend(w) == /\ pc[w] = "i2_pend" /\ Go(w, IF pending # 0 THEN LatchPc ELSE "d_unlock")
             /\ UNCHANGED <<cfg, st, DATA, installed, tq, holder, lv, GHOST>>
\* after the latch: REPLACE with a zero payload is skipped, dispatch_assume(prev != 0) skips any zero
AfterLatch(w, prev) ==
    IF prev = 0 /\ Mut # "deliver_zero"
    THEN dsdata' = (IF cfg.kind = "replace" THEN dsdata ELSE prev) /\ Go(w, AfterCall)
    ELSE dsdata' = prev /\ Go(w, "h_start")
\* uint64_t prev = os_atomic_xchg2o(dr, ds_pending_data, 0, relaxed); dr->ds_data = prev
Latch(w) == /\ pc[w] = "latch"
            /\ lv' = [lv EXCEPT ![w].prev = pending] /\ pending' = 0 /\ AfterLatch(w, pending)
            /\ UNCHANGED <<cfg, st, installed, tq, holder, GHOST>>
\* mutant: the exchange split into a load and a store of zero
LatchLd(w) == /\ pc[w] = "latch_ld" /\ lv' = [lv EXCEPT ![w].prev = pending] /\ Go(w, "latch_st")
              /\ UNCHANGED <<cfg, st, DATA, installed, tq, holder, GHOST>>
LatchSt(w) == /\ pc[w] = "latch_st" /\ pending' = 0 /\ AfterLatch(w, lv[w].prev)
              /\ UNCHANGED <<cfg, st, installed, tq, holder, lv, GHOST>>
\* the callout: the handler reads dispatch_source_get_data
HStart(w) == /\ pc[w] = "h_start" /\ g' = GDeliver(dsdata) /\ inH' = inH \cup {w} /\ Go(w, "h_body")
             /\ UNCHANGED <<cfg, st, DATA, installed, tq, holder, lv, nmerge, nsusp, held, actCalled>>
HEnd(w) == /\ pc[w] = "h_body" /\ inH' = inH \ {w} /\ Go(w, AfterCall)
           /\ UNCHANGED <<cfg, st, DATA, installed, tq, holder, lv, g, nmerge, nsusp, held, actCalled>>
\* if (avoid_starvation && os_atomic_load2o(dr, ds_pending_data, relaxed)) retq = ds->do_targetq
I2After(w) == /\ pc[w] = "i2_after" /\ Go(w, IF pending # 0 THEN "d_finish" ELSE "d_unlock")
              /\ UNCHANGED <<cfg, st, DATA, installed, tq, holder, lv, GHOST>>
\* _dispatch_queue_drain_try_unlock(ds, owned, true): the decision of the RMW loop on the word it observes
DUnlock(w) ==
    /\ pc[w] = "d_unlock"
    /\ LET r == DrainTryUnlock(st, lv[w].owned, TRUE) IN
       IF r.ok THEN st' = r.s /\ Leave(w)
               ELSE st' = st /\ Go(w, "d_xor") /\ holder' = holder           \* give up: DIRTY observed
    /\ UNCHANGED <<cfg, DATA, installed, tq, lv, GHOST>>
\* os_atomic_xor2o(dq, dq_state, DISPATCH_QUEUE_DIRTY, acquire); return false:
\* a root queue retries invoke2 in place, any other queue re-enqueues through invoke_finish
DXor(w) == /\ pc[w] = "d_xor" /\ st' = [st EXCEPT !.dirty = ~@] /\ Go(w, IF Root THEN "i2_susp" ELSE "d_finish")
           /\ UNCHANGED <<cfg, DATA, installed, tq, holder, lv, GHOST>>
\* _dispatch_queue_invoke_finish(ds, dic, tq, owned)
DFinish(w) ==
    /\ pc[w] = "d_finish"
    /\ LET r == InvokeFinish(st, lv[w].owned) IN
       /\ st' = r.s /\ tq' = (IF r.push THEN tq + 1 ELSE tq)
    /\ Leave(w)
    /\ UNCHANGED <<cfg, DATA, installed, lv, GHOST>>

(* ================================ next-state ================================ *)
Call(t) == (\E v \in ValsOf(cfg.kind) : CallMerge(t, v)) \/ CallSuspend(t) \/ CallResume(t) \/ CallActivate(t)
Lib(t) == \/ MLoad(t) \/ MUpdate(t) \/ WkInst(t) \/ WkPend(t) \/ WkRmw(t)
          \/ SuspRmw(t) \/ ResRmw(t) \/ ActRmw(t) \/ AInherit(t) \/ (\E b \in BOOLEAN : AInstall(t, b))
          \/ DLock(t) \/ I2Install(t) \/ I2Susp(t) \/ I2Pend(t) \/ Latch(t) \/ LatchLd(t) \/ LatchSt(t)
          \/ HStart(t) \/ HEnd(t) \/ I2After(t) \/ DUnlock(t) \/ DXor(t) \/ DFinish(t)
Step(t) == Call(t) \/ Lib(t)
Next == \E t \in Threads : Step(t)
Spec == Init /\ [][Next]_vars
\* fairness: library steps and handler bodies proceed; whoever suspended eventually resumes; an
\* inactive source is eventually activated.  Clients need not merge.
FairSpec == /\ Spec /\ \A t \in Threads : WF_vars(Lib(t))
            /\ WF_vars(\E t \in Mergers : CallResume(t)) /\ WF_vars(\E t \in Mergers : CallActivate(t))

(* ================================ properties (C15) ================================ *)
SubMask(a, b) == BitOr(a, b) = b

TypeOK == /\ pending \in Nat /\ dsdata \in Nat /\ tq \in Nat /\ installed \in BOOLEAN
          /\ pc \in [Threads -> {"idle", "m_ld", "m_upd", "wk_inst", "wk_pend", "wk_rmw", "s_rmw", "r_rmw", "a_rmw",
                                 "a_inherit", "a_install", "crash"} \cup DrainPcs]
Quiescent == (\A t \in Threads : pc[t] = "idle") /\ tq = 0 /\ ~Suspended(st)

\* ADD: at every moment the delivered values sum to at most what was merged; equal at quiescence
AddNoExcess == cfg.kind = "add" => g.dSum <= g.mSum
AddConserved == (cfg.kind = "add" /\ Quiescent) => g.dSum = g.mSum
\* OR: the union delivered is a subset of the union merged; equal at quiescence
OrSubset == cfg.kind = "or" => SubMask(g.dOr, g.mOr)
OrConserved == (cfg.kind = "or" /\ Quiescent) => g.dOr = g.mOr
\* REPLACE: every delivered value was merged; a final non-zero merge is the last value delivered
ReplMerged == cfg.kind = "replace" => ~g.unmerged
ReplLast == (cfg.kind = "replace" /\ Quiescent /\ g.mN > 0 /\ g.mLast # 0) => (g.dN > 0 /\ g.dLast = g.mLast)
\* a handler invocation never reports zero
NeverZero == ~g.zero
\* the event handler is never running on two threads at once
NoReentry == Cardinality(inH) <= 1
\* nothing is stranded: at rest (resumed, activated) no data is pending and the word is idle
NoStrand == Quiescent => (pending = 0 /\ [st EXCEPT !.dirty = FALSE, !.qos = 0, !.ro = FALSE] = Idle0)
\* structure: the source sits at most once in its target queue, only while ENQUEUED and not being drained;
\* whoever is inside invoke2 owns the drain lock; width accounting never borrows
InDrain(w) == pc[w] \in DrainPcs \/ (pc[w] \in {"m_ld", "m_upd", "wk_inst", "wk_pend", "wk_rmw"} /\ lv[w].ret = "h_body")
TqBound == tq <= 1 /\ (tq = 1 => st.enq)
LockHeld == \A w \in Threads : InDrain(w) => (st.owner = w /\ st.ib /\ st.used = 1)
OwnedOK == \A w \in Threads : pc[w] \in {"d_unlock", "d_finish"} => SubOk(st, lv[w].owned)
NoCrash == \A t \in Threads : pc[t] # "crash"
\* exact accounting of ADD (stronger than the property: where every merged unit is at each moment)
AddExact == cfg.kind = "add" =>
    g.mSum = g.dSum + pending + (IF \E w \in Threads : pc[w] = "h_start" THEN dsdata ELSE 0)

\* liveness: merges made while suspended / inactive / while the handler runs are delivered afterwards
Conserved == /\ pending = 0
             /\ cfg.kind = "add" => g.dSum = g.mSum
             /\ cfg.kind = "or" => g.dOr = g.mOr
             /\ (cfg.kind = "replace" /\ g.mN > 0 /\ g.mLast # 0) => (g.dN > 0 /\ g.dLast = g.mLast)
Live == <>[]Conserved
=============================================================================
