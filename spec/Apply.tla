------------------------------- MODULE Apply -------------------------------
(* dispatch_apply (src/apply.c), one action per shared-memory access.

   dispatch_apply_f        DoCall (thread-local: thr_cnt / da_nested computation, allocation of the
                           shared record `da`, choice of the path) ; dispatch_sync_f on a serial / custom
                           queue = SyncAcq .. SyncRel (one RMW on dq_state per level of the target chain)
   _dispatch_apply_serial  SerStart / SerEnd      (in-order loop, frees da at the end)
   _dispatch_apply_redirect RedirResv (try_reserve_apply_width, one RMW per level), RedirRelq (relinquish
                           the excess on the levels above), FinalRelq (relinquish the whole at the end)
   _dispatch_apply_f       PushConts (thr_cnt-1 continuations to the root queue), then the caller runs
   _dispatch_apply_invoke2 Claim0 (inc_orig da_index, acquire) CallStart CallEnd Claim (inc_orig, relaxed)
                           SubTodo (sub da_todo, release) Signal (+Wake) WaitDec WaitSlow ThrDec (dec
                           da_thr_cnt, release; the last one frees da)
   A helper is a continuation in the (abstract) root queue: Pickup starts it on an idle pool thread, at
   any time - possibly after the caller has claimed every index, or after dispatch_apply returned.

   The root queue is abstract (a bag; C01 is established on Lane/Root).  The dq_state word of a custom
   queue is the DQState record; the sync acquisition by dispatch_sync_f is abstracted to its fast path
   RMW, blocking while it would fail (the slow path hands the same reservation over).

   Property C10 is stated on ghost fields (multi, oob, running, fin, returned) and the ledgers below. *)
EXTENDS Integers, Sequences, FiniteSets, TLC

CONSTANTS Threads,      \* all threads
          Workers,      \* threads of the pool (may pick up helper continuations)
          Das,          \* identities of dispatch_apply calls (>= 1)
          P,            \* _dispatch_qos_max_parallelism(qos, ACTIVE): helpers + 1
          Words,        \* dq_state words of the custom queues
          Mut,          \* "none" or a spec mutant
          SkipSync,     \* TRUE in trace validation: dq_state is driven by the recorded accesses
          Chain(_),     \* queue -> sequence of words from the queue itself down to (excluding) the root
          Width(_),     \* word -> dq_width
          NestId(_, _)  \* model checking only: (da, index) -> the nested apply that invocation must make (0: none)

DQ(w) == INSTANCE DQState WITH W <- w, QW <- 0, SCMAX <- 3, SCHALF <- 2, BASE <- TRUE
Idle0 == DQ(1)!Idle0
NoThread == "null"

VARIABLES stk,    \* per thread: stack of apply frames (nesting)
          da,     \* per apply call: the shared record + ghosts
          conts,  \* per apply call: helper continuations sitting in the root queue
          qs,     \* per word: abstract dq_state
          uaf,    \* ghost: a freed / dead object was touched
          env     \* model checking only: a contender on word EnvWord (barrier_sync / sync)
vars == <<stk, da, conts, qs, uaf, env>>

Da0 == [alive |-> "none", called |-> FALSE, iter |-> 0, index |-> 0, todo |-> 0, thr |-> 0, ev |-> 0,
        nested |-> 0, q |-> "auto", fn |-> "none", dcLive |-> FALSE, pushed |-> FALSE, a |-> -1,
        multi |-> {}, oob |-> {}, running |-> {}, fin |-> {}, returned |-> FALSE, sub |-> 0, planned |-> 0]
Frame0 == [d |-> 0, role |-> "caller", pc |-> "ret", idx |-> 0, done |-> 0, w |-> 0, ex |-> 0, lvl |-> 1,
           k |-> 1, nest |-> 0, sync |-> FALSE]

Init == /\ stk = [t \in Threads |-> <<>>]
        /\ da = [d \in Das |-> Da0]
        /\ conts = [d \in Das |-> 0]
        /\ qs = [w \in Words |-> Idle0]
        /\ uaf = FALSE
        /\ env = [pc |-> "idle", ops |-> 0]

Top(t) == stk[t][Len(stk[t])]
SetTop(t, f) == stk' = [stk EXCEPT ![t] = [@ EXCEPT ![Len(@)] = f]]
PushF(t, f) == stk' = [stk EXCEPT ![t] = Append(@, f)]
Min(a, b) == IF a < b THEN a ELSE b
\* DISPATCH_APPLY_AUTO: _dispatch_apply_root_queue walks from the current queue to its root, a global
\* (concurrent) root queue, or takes the default one: always a root queue, i.e. an empty chain
EffChain(q) == IF q = "auto" THEN <<>> ELSE Chain(q)
Touch(d) == da[d].alive # "live"      \* the access is a use-after-free

(* ------------------------------ dispatch_apply_f ------------------------------ *)
\* dtc_apply_nesting of the innermost _dispatch_apply_invoke2 frame of this thread (apply_serial pushes none)
NestingOf(t) ==
    LET S == {i \in 1..Len(stk[t]) : stk[t][i].pc = "in_call"} IN
    IF S = {} THEN 0 ELSE da[stk[t][CHOOSE i \in S : \A j \in S : j <= i].d].nested
CurQ(t) == IF stk[t] = <<>> THEN "none" ELSE da[Top(t).d].q
ThrCnt(n, nin) == LET b == IF nin = 0 THEN P ELSE IF nin < P THEN P \div nin ELSE 1 IN Min(n, b)

DoCall(t, d, n, q) ==
    /\ ~da[d].called
    /\ IF stk[t] = <<>> THEN TRUE ELSE Top(t).pc \in {"in_call", "ser_in"}
    /\ LET nin == NestingOf(t)
           thr == ThrCnt(n, nin)
           ch == EffChain(q)
           fn == IF n = 0 THEN "none"
                 ELSE IF (ch # <<>> /\ Width(ch[1]) = 1) \/ thr <= 1 THEN "serial"
                 ELSE IF ch # <<>> THEN (IF q = CurQ(t) THEN "serial" ELSE "redirect")
                 ELSE "invoke"
           sync == fn \in {"serial", "redirect"} /\ ch # <<>> /\ ~SkipSync
           pc0 == CASE fn = "none" -> "ret" [] sync -> "sync_acq" [] fn = "serial" -> "ser_call"
                    [] fn = "redirect" -> "redir_resv" [] OTHER -> "push" IN
       /\ da' = [da EXCEPT ![d] = [Da0 EXCEPT !.called = TRUE, !.alive = IF n = 0 THEN "none" ELSE "live",
                     !.iter = n, !.todo = n, !.thr = thr, !.planned = thr, !.nested = IF nin = 0 THEN n ELSE nin * n,
                     !.q = q, !.fn = fn, !.dcLive = TRUE]]
       /\ PushF(t, [Frame0 EXCEPT !.d = d, !.pc = pc0, !.sync = sync, !.w = thr - 1,
                                  !.idx = IF Mut = "serial_from1" /\ n > 1 THEN 1 ELSE 0])
    /\ UNCHANGED <<conts, qs, uaf, env>>

\* dispatch_sync_f: one RMW per level (try_acquire_barrier_sync on width 1, try_reserve_sync_width otherwise)
SyncAcq(t) ==
    /\ stk[t] # <<>> /\ Top(t).pc = "sync_acq"
    /\ LET f == Top(t) ch == EffChain(da[f.d].q) w == ch[f.lvl]
           r == IF Width(w) = 1 THEN DQ(1)!TryAcquireBarrierSync(qs[w], t, 0) ELSE DQ(Width(w))!TryReserveSyncWidth(qs[w]) IN
       /\ r.ok
       /\ qs' = [qs EXCEPT ![w] = r.s]
       /\ SetTop(t, IF f.lvl < Len(ch) THEN [f EXCEPT !.lvl = @ + 1]
                    ELSE [f EXCEPT !.lvl = 1, !.pc = IF da[f.d].fn = "serial" THEN "ser_call" ELSE "redir_resv"])
    /\ UNCHANGED <<da, conts, uaf, env>>
\* _dispatch_sync_complete_recurse / _dispatch_lane_barrier_sync_invoke_and_complete: the net effect on an
\* otherwise idle queue (non_barrier_complete gives one unit back; the barrier unlock clears the word)
SyncRel(t) ==
    /\ stk[t] # <<>> /\ Top(t).pc = "sync_rel"
    /\ LET f == Top(t) ch == EffChain(da[f.d].q) w == ch[f.lvl] IN
       /\ qs' = [qs EXCEPT ![w] = IF Width(w) = 1 THEN [@ EXCEPT !.ib = FALSE, !.used = 0, !.owner = NoThread]
                                  ELSE [@ EXCEPT !.used = @ - 1]]
       /\ SetTop(t, IF f.lvl < Len(ch) THEN [f EXCEPT !.lvl = @ + 1] ELSE [f EXCEPT !.pc = "ret"])
    /\ UNCHANGED <<da, conts, uaf, env>>

\* the function returned to dispatch_apply_f: pop; the continuation `dc` on the caller's stack dies
Ret(t) ==
    /\ stk[t] # <<>> /\ Top(t).pc = "ret"
    /\ LET d == Top(t).d n == Len(stk[t]) IN
       /\ da' = [da EXCEPT ![d].returned = TRUE, ![d].dcLive = FALSE]
       /\ stk' = [stk EXCEPT ![t] = IF n = 1 THEN <<>> ELSE [SubSeq(@, 1, n - 1) EXCEPT ![n - 1].nest = 0]]
    /\ UNCHANGED <<conts, qs, uaf, env>>

(* ------------------------------ ghost: the client's work function ------------------------------ *)
StartG(d, i) == [da[d] EXCEPT !.multi = IF i \in da[d].running \cup da[d].fin THEN @ \cup {i} ELSE @,
                              !.oob = IF i < 0 \/ i >= da[d].iter THEN @ \cup {i} ELSE @,
                              !.running = @ \cup {i}]
EndG(r, i) == [r EXCEPT !.running = @ \ {i}, !.fin = @ \cup {i}]

(* ------------------------------ _dispatch_apply_serial ------------------------------ *)
SerStart(t) ==
    /\ stk[t] # <<>> /\ Top(t).pc = "ser_call"
    /\ LET f == Top(t) d == f.d IN
       /\ uaf' = (uaf \/ Touch(d) \/ ~da[d].dcLive)
       /\ da' = [da EXCEPT ![d] = StartG(d, f.idx)]
       /\ SetTop(t, [f EXCEPT !.pc = "ser_in", !.nest = NestId(d, f.idx)])
    /\ UNCHANGED <<conts, qs, env>>
SerEnd(t) ==
    /\ stk[t] # <<>> /\ Top(t).pc = "ser_in" /\ Top(t).nest = 0
    /\ LET f == Top(t) d == f.d more == f.idx + 1 < da[d].iter IN
       /\ da' = [da EXCEPT ![d] = IF more THEN EndG(@, f.idx) ELSE [EndG(@, f.idx) EXCEPT !.alive = "freed"]]
       /\ uaf' = (uaf \/ Touch(d))
       /\ SetTop(t, IF more THEN [f EXCEPT !.pc = "ser_call", !.idx = @ + 1]
                    ELSE [f EXCEPT !.pc = IF f.sync THEN "sync_rel" ELSE "ret", !.lvl = 1])
    /\ UNCHANGED <<conts, qs, env>>

(* ------------------------------ _dispatch_apply_redirect ------------------------------ *)
\* _dq_state_available_width: FULL - width bits unless the full bit is set
AvailableWidth(s, w) == IF s.used < w THEN w - s.used ELSE 0
\* _dispatch_queue_try_reserve_apply_width(dq, da_width) -> [width, s]; width 1 queues are not touched
TryReserveApplyWidth(s, w, daw) ==
    IF w = 1 THEN [width |-> 0, s |-> s, rmw |-> FALSE]
    ELSE LET av == AvailableWidth(s, w) g == Min(av, daw) IN
         IF av = 0 THEN [width |-> 0, s |-> s, rmw |-> FALSE]       \* give up
         ELSE [width |-> g, s |-> [s EXCEPT !.used = @ + g], rmw |-> TRUE]
\* one step of _dispatch_queue_relinquish_width: os_atomic_sub2o(dq, dq_state, delta, relaxed)
RelinquishWidth(s, k) == [s EXCEPT !.used = @ - k]

\* after a level's reservation (and the relinquish of the excess above it)
AfterLevel(f, d, ch) ==
    IF f.w = 0 THEN [f EXCEPT !.pc = "ser_call", !.idx = 0]                    \* return _dispatch_apply_serial(da)
    ELSE IF f.lvl < Len(ch) THEN [f EXCEPT !.pc = "redir_resv", !.lvl = @ + 1]
    ELSE [f EXCEPT !.pc = "push"]
\* obs: the value of the word the RMW loop decided on (the word itself, except for a give-up in a trace)
RedirResvOn(t, obs) ==
    /\ stk[t] # <<>> /\ Top(t).pc = "redir_resv"
    /\ LET f == Top(t) d == f.d ch == EffChain(da[d].q) w == ch[f.lvl]
           r == IF Mut = "no_reserve" THEN [width |-> f.w, s |-> obs, rmw |-> FALSE] ELSE TryReserveApplyWidth(obs, Width(w), f.w)
           excess == f.w - r.width
           g == [f EXCEPT !.w = r.width, !.ex = excess] IN
       /\ qs' = IF r.rmw THEN [qs EXCEPT ![w] = r.s] ELSE qs
       /\ uaf' = (uaf \/ Touch(d))
       /\ IF excess > 0 /\ f.lvl > 1
          THEN SetTop(t, [g EXCEPT !.pc = "redir_relq", !.k = 1]) /\ da' = da
          ELSE /\ SetTop(t, AfterLevel(g, d, ch))
               /\ da' = IF excess > 0 /\ r.width > 0 THEN [da EXCEPT ![d].thr = @ - excess, ![d].planned = @ - excess] ELSE da
    /\ UNCHANGED <<conts, env>>
RedirResv(t) == /\ stk[t] # <<>> /\ Top(t).pc = "redir_resv"
                /\ RedirResvOn(t, qs[EffChain(da[Top(t).d].q)[Top(t).lvl]])
RedirRelq(t) ==
    /\ stk[t] # <<>> /\ Top(t).pc = "redir_relq"
    /\ LET f == Top(t) d == f.d ch == EffChain(da[d].q) w == ch[f.k] last == f.k + 1 >= f.lvl IN
       /\ qs' = [qs EXCEPT ![w] = RelinquishWidth(@, f.ex)]
       /\ SetTop(t, IF last THEN AfterLevel(f, d, ch) ELSE [f EXCEPT !.k = @ + 1])
       /\ da' = IF last /\ f.w > 0 THEN [da EXCEPT ![d].thr = @ - f.ex, ![d].planned = @ - f.ex] ELSE da
    /\ UNCHANGED <<conts, uaf, env>>
FinalRelq(t) ==
    /\ stk[t] # <<>> /\ Top(t).pc = "final_relq"
    /\ LET f == Top(t) d == f.d ch == EffChain(da[d].q) w == ch[f.k] IN
       /\ qs' = [qs EXCEPT ![w] = RelinquishWidth(@, IF Mut = "relq_short" THEN f.w - 1 ELSE f.w)]
       /\ SetTop(t, IF f.k < Len(ch) THEN [f EXCEPT !.k = @ + 1]
                    ELSE [f EXCEPT !.pc = IF f.sync THEN "sync_rel" ELSE "ret", !.lvl = 1])
    /\ UNCHANGED <<da, conts, uaf, env>>

(* ------------------------------ _dispatch_apply_f ------------------------------ *)
\* thr_cnt - 1 continuations pushed to the root queue with one exchange of its tail
PushConts(t) ==
    /\ stk[t] # <<>> /\ Top(t).pc = "push"
    /\ LET f == Top(t) d == f.d IN
       /\ conts' = [conts EXCEPT ![d] = da[d].thr - 1]
       /\ da' = [da EXCEPT ![d].ev = 0, ![d].pushed = TRUE]
       /\ uaf' = (uaf \/ Touch(d))
       /\ SetTop(t, [f EXCEPT !.pc = "claim0"])
    /\ UNCHANGED <<qs, env>>
\* a pool thread pops a helper continuation (_dispatch_apply_invoke / _dispatch_apply_redirect_invoke)
\* (`a`: trace validation only - the address/incarnation of the record, bound at the first access)
PickupA(t, d, a) ==
    /\ t \in Workers /\ stk[t] = <<>> /\ conts[d] > 0
    /\ conts' = [conts EXCEPT ![d] = @ - 1]
    /\ da' = [da EXCEPT ![d].a = a]
    /\ PushF(t, [Frame0 EXCEPT !.d = d, !.role = "helper", !.pc = "claim0"])
    /\ UNCHANGED <<qs, uaf, env>>
Pickup(t, d) == PickupA(t, d, da[d].a)

(* ------------------------------ _dispatch_apply_invoke2 ------------------------------ *)
InRange(idx, iter) == IF Mut = "idx_le" THEN idx <= iter ELSE idx < iter
\* out: the caller (DISPATCH_APPLY_INVOKE_WAIT) waits for the event, helpers go on (thread-local branch)
OutPc(f) == IF f.role = "caller" /\ Mut # "no_wait" THEN "wait_dec" ELSE "thr_dec"
\* idx = os_atomic_inc_orig2o(da, da_index, acquire); if (idx >= iter) goto out;
Claim0A(t, a) ==
    /\ stk[t] # <<>> /\ Top(t).pc = "claim0" /\ Mut # "nonatomic_claim"
    /\ LET f == Top(t) d == f.d idx == da[d].index IN
       /\ da' = [da EXCEPT ![d].index = idx + 1, ![d].a = a]
       \* in range: da->da_dc (the caller's stack) is dereferenced next
       /\ uaf' = (uaf \/ Touch(d) \/ (InRange(idx, da[d].iter) /\ ~da[d].dcLive))
       /\ SetTop(t, [f EXCEPT !.idx = idx, !.pc = IF InRange(idx, da[d].iter) THEN "call" ELSE OutPc(f)])
    /\ UNCHANGED <<conts, qs, env>>
Claim0(t) == stk[t] # <<>> /\ Claim0A(t, da[Top(t).d].a)
\* spec mutant: the claim as a read followed by a write
ClaimRd(t) ==
    /\ stk[t] # <<>> /\ Top(t).pc \in {"claim0", "claim"} /\ Mut = "nonatomic_claim"
    /\ SetTop(t, [Top(t) EXCEPT !.idx = da[Top(t).d].index, !.pc = IF @ = "claim0" THEN "claim0_wr" ELSE "claim_wr"])
    /\ UNCHANGED <<da, conts, qs, uaf, env>>
ClaimWr(t) ==
    /\ stk[t] # <<>> /\ Top(t).pc \in {"claim0_wr", "claim_wr"}
    /\ LET f == Top(t) d == f.d IN
       /\ da' = [da EXCEPT ![d].index = f.idx + 1]
       /\ SetTop(t, [f EXCEPT !.pc = IF InRange(f.idx, da[d].iter) THEN "call" ELSE IF f.pc = "claim0_wr" THEN OutPc(f) ELSE "sub"])
    /\ UNCHANGED <<conts, qs, uaf, env>>
\* _dispatch_client_callout2(da_ctxt, idx, func)
CallStart(t) ==
    /\ stk[t] # <<>> /\ Top(t).pc = "call"
    /\ LET f == Top(t) d == f.d IN
       /\ da' = [da EXCEPT ![d] = StartG(d, f.idx)]
       /\ SetTop(t, [f EXCEPT !.pc = "in_call", !.nest = NestId(d, f.idx)])
    /\ UNCHANGED <<conts, qs, uaf, env>>
CallEnd(t) ==
    /\ stk[t] # <<>> /\ Top(t).pc = "in_call" /\ Top(t).nest = 0
    /\ LET f == Top(t) d == f.d IN
       /\ da' = [da EXCEPT ![d] = EndG(@, f.idx)]
       /\ SetTop(t, [f EXCEPT !.pc = "claim", !.done = @ + 1])
    /\ UNCHANGED <<conts, qs, uaf, env>>
\* idx = os_atomic_inc_orig2o(da, da_index, relaxed); } while (idx < iter)
Claim(t) ==
    /\ stk[t] # <<>> /\ Top(t).pc = "claim" /\ Mut # "nonatomic_claim"
    /\ LET f == Top(t) d == f.d idx == da[d].index IN
       /\ da' = [da EXCEPT ![d].index = idx + 1]
       /\ uaf' = (uaf \/ Touch(d))
       /\ SetTop(t, [f EXCEPT !.idx = idx, !.pc = IF InRange(idx, da[d].iter) THEN "call" ELSE "sub"])
    /\ UNCHANGED <<conts, qs, env>>
\* if (!os_atomic_sub2o(da, da_todo, done, release)) _dispatch_thread_event_signal(&da->da_event)
IsLast(todo) == IF Mut = "last_le1" THEN todo <= 1 ELSE IF Mut = "no_signal" THEN FALSE ELSE todo = 0
SubTodo(t) ==
    /\ stk[t] # <<>> /\ Top(t).pc = "sub"
    /\ LET f == Top(t) d == f.d nt == da[d].todo - f.done IN
       /\ da' = [da EXCEPT ![d].todo = nt, ![d].sub = @ + f.done]
       /\ uaf' = (uaf \/ Touch(d))
       /\ SetTop(t, [f EXCEPT !.pc = IF IsLast(nt) THEN "signal" ELSE OutPc(f)])
    /\ UNCHANGED <<conts, qs, env>>
\* _dispatch_thread_event_signal: os_atomic_inc_orig(&dte->dte_value, release); 0 -> 1 needs no wake
Signal(t) ==
    /\ stk[t] # <<>> /\ Top(t).pc = "signal"
    /\ LET f == Top(t) d == f.d IN
       /\ da' = [da EXCEPT ![d].ev = @ + 1]
       /\ uaf' = (uaf \/ Touch(d))
       /\ SetTop(t, [f EXCEPT !.pc = IF da[d].ev = 0 THEN OutPc(f) ELSE "wake"])
    /\ UNCHANGED <<conts, qs, env>>
\* _dispatch_thread_event_signal_slow: futex wake on the event word
Wake(t) ==
    /\ stk[t] # <<>> /\ Top(t).pc = "wake"
    /\ uaf' = (uaf \/ Touch(Top(t).d))
    /\ SetTop(t, [Top(t) EXCEPT !.pc = OutPc(Top(t))])
    /\ UNCHANGED <<da, conts, qs, env>>
\* _dispatch_thread_event_wait: os_atomic_dec(&dte->dte_value, acquire) == 0 -> done, else the slow path
WaitDec(t) ==
    /\ stk[t] # <<>> /\ Top(t).pc = "wait_dec"
    /\ LET f == Top(t) d == f.d IN
       /\ da' = [da EXCEPT ![d].ev = @ - 1]
       /\ uaf' = (uaf \/ Touch(d))
       /\ SetTop(t, [f EXCEPT !.pc = IF da[d].ev - 1 = 0 THEN "thr_dec" ELSE "wait_slow"])
    /\ UNCHANGED <<conts, qs, env>>
\* _dispatch_thread_event_wait_slow: load (acquire) until 0 (futex wait in between)
WaitSlow(t) ==
    /\ stk[t] # <<>> /\ Top(t).pc = "wait_slow" /\ da[Top(t).d].ev = 0
    /\ uaf' = (uaf \/ Touch(Top(t).d))
    /\ SetTop(t, [Top(t) EXCEPT !.pc = "thr_dec"])
    /\ UNCHANGED <<da, conts, qs, env>>
\* if (os_atomic_dec2o(da, da_thr_cnt, release) == 0) _dispatch_continuation_free(da)
FreeTest(n) == IF Mut = "free_early" THEN n <= 1 ELSE n = 0
ThrDec(t) ==
    /\ stk[t] # <<>> /\ Top(t).pc = "thr_dec"
    /\ LET f == Top(t) d == f.d nt == da[d].thr - 1 n == Len(stk[t]) IN
       /\ da' = [da EXCEPT ![d].thr = nt, ![d].alive = IF FreeTest(nt) THEN "freed" ELSE @]
       /\ uaf' = (uaf \/ Touch(d))      \* includes the double free
       /\ IF f.role = "helper"
          THEN stk' = [stk EXCEPT ![t] = SubSeq(@, 1, n - 1)]
          ELSE SetTop(t, [f EXCEPT !.pc = IF da[d].fn = "redirect" THEN "final_relq" ELSE "ret", !.k = 1])
    /\ UNCHANGED <<conts, qs, env>>

Lib(t) == \/ SyncAcq(t) \/ SyncRel(t) \/ Ret(t) \/ SerStart(t) \/ SerEnd(t)
          \/ RedirResv(t) \/ RedirRelq(t) \/ FinalRelq(t) \/ PushConts(t)
          \/ \E d \in Das : Pickup(t, d)
          \/ Claim0(t) \/ ClaimRd(t) \/ ClaimWr(t) \/ CallStart(t) \/ CallEnd(t) \/ Claim(t)
          \/ SubTodo(t) \/ Signal(t) \/ Wake(t) \/ WaitDec(t) \/ WaitSlow(t) \/ ThrDec(t)

(* ------------------------------ model checking: program and environment ------------------------------ *)
CONSTANTS Clients,     \* threads that call the top-level applies
          TopDas,      \* the top-level apply calls
          N0s, N1s,    \* iteration counts explored for top-level / nested applies
          Q0s,         \* queues explored for the top-level applies
          EnvWord,     \* word the contender works on ("none": no contender)
          EnvOps       \* operations of the contender
MCCall(t) ==
    \/ /\ t \in Clients /\ stk[t] = <<>>
       /\ \E d \in TopDas, n \in N0s, q \in Q0s : DoCall(t, d, n, q)
    \/ /\ stk[t] # <<>> /\ Top(t).nest # 0 /\ ~da[Top(t).nest].called
       /\ \E n \in N1s : DoCall(t, Top(t).nest, n, "auto")

\* another client of the custom queue: dispatch_barrier_sync (writer) or dispatch_sync (reader)
EnvStep ==
    /\ EnvWord \in Words
    /\ LET w == EnvWord W == Width(w) IN
       \/ /\ env.pc = "idle" /\ env.ops < EnvOps /\ DQ(W)!TryAcquireBarrierSync(qs[w], "env", 0).ok
          /\ qs' = [qs EXCEPT ![w] = DQ(W)!TryAcquireBarrierSync(qs[w], "env", 0).s]
          /\ env' = [pc |-> "bar_in", ops |-> env.ops + 1]
       \/ /\ env.pc = "bar_in"
          /\ qs' = [qs EXCEPT ![w] = [@ EXCEPT !.ib = FALSE, !.used = 0, !.owner = NoThread]]
          /\ env' = [env EXCEPT !.pc = "idle"]
       \/ /\ env.pc = "idle" /\ env.ops < EnvOps /\ W > 1 /\ DQ(W)!TryReserveSyncWidth(qs[w]).ok
          /\ qs' = [qs EXCEPT ![w] = DQ(W)!TryReserveSyncWidth(qs[w]).s]
          /\ env' = [pc |-> "rd_in", ops |-> env.ops + 1]
       \/ /\ env.pc = "rd_in"
          /\ qs' = [qs EXCEPT ![w].used = @ - 1]
          /\ env' = [env EXCEPT !.pc = "idle"]
    /\ UNCHANGED <<stk, da, conts, uaf>>
EnvLib == EnvStep /\ env.pc # "idle"

Next == (\E t \in Threads : Lib(t) \/ MCCall(t)) \/ EnvStep
Spec == Init /\ [][Next]_vars
\* fairness on library steps and on the client's obligation to make its calls; the contender must finish
\* an operation it started but need not start one
FairSpec == Spec /\ (\A t \in Threads : WF_vars(Lib(t)) /\ WF_vars(MCCall(t))) /\ WF_vars(EnvLib)

(* ------------------------------ properties (C10) ------------------------------ *)
Called == {d \in Das : da[d].called}
Range(d) == 0..(da[d].iter - 1)
\* each index in 0..n-1 exactly once and nothing else
ExactlyOnce == \A d \in Called : da[d].multi = {} /\ da[d].oob = {}
\* dispatch_apply returns only after all n invocations have finished
ReturnAfterAll == \A d \in Called : da[d].returned => (da[d].fin = Range(d) /\ da[d].running = {})
\* on a serial queue, or a queue that targets one: sequential, in index order
HasSerial(q) == \E i \in 1..Len(EffChain(q)) : Width(EffChain(q)[i]) = 1
SerialOrder == \A d \in Called : HasSerial(da[d].q) =>
    LET k == Cardinality(da[d].fin) IN da[d].fin = 0..(k - 1) /\ da[d].running \subseteq {k}
\* the shared record (and the continuation on the caller's stack) is never touched after its release
NoUseAfterFree == ~uaf
\* thr_cnt ledger: the count equals the holders that can still touch the record
Holders(d) == Cardinality({t \in Threads : \E i \in 1..Len(stk[t]) :
                  stk[t][i].d = d /\ stk[t][i].pc \notin {"final_relq", "sync_rel", "ret"}})
ThrLedger == \A d \in Called : (da[d].alive = "live" /\ da[d].pushed) => da[d].thr = conts[d] + Holders(d)
FreedOnlyWhenUnused == \A d \in Called : da[d].alive = "freed" => (conts[d] = 0 /\
    \A t \in Threads : \A i \in 1..Len(stk[t]) : stk[t][i].d = d => stk[t][i].pc \in {"final_relq", "sync_rel", "ret"})
\* todo ledger: todo + subtracted = iterations, todo = 0 exactly when everything finished
TodoLedger == \A d \in Called : da[d].alive = "live" => (da[d].todo + da[d].sub = da[d].iter /\ da[d].todo >= 0)
\* concurrent custom queue: running invocations hold (non-barrier) width of every level of the chain
OnWord(w) == {d \in Called : \E i \in 1..Len(EffChain(da[d].q)) : EffChain(da[d].q)[i] = w}
RunningOn(w) == UNION {{<<d, i>> : i \in da[d].running} : d \in OnWord(w)}
WidthHeld == \A w \in Words :
    LET n == Cardinality(RunningOn(w)) + (IF w = EnvWord /\ env.pc = "rd_in" THEN 1 ELSE 0) IN
    /\ n <= qs[w].used
    /\ qs[w].used >= 0
    /\ (n > 0 /\ Width(w) > 1 /\ \E d \in OnWord(w) : da[d].running # {} /\ da[d].fn = "redirect") => ~qs[w].ib
\* ... so they never overlap a barrier item of that queue (writer lock, C04)
BarrierExcl == (EnvWord \in Words /\ env.pc = "bar_in") => RunningOn(EnvWord) = {}
\* reserved width is given back exactly: once every call returned the words are idle again
NoCallers == \A t \in Threads : \A i \in 1..Len(stk[t]) : stk[t][i].role # "caller"
WordsIdle == (NoCallers /\ env.pc = "idle") => \A w \in Words : qs[w] = Idle0
\* nested applies satisfy the same contract (the invariants above quantify over every call) and are
\* finished when the enclosing invocation ends
NestedInside == \A t \in Threads : \A i \in 1..Len(stk[t]) :
    (i < Len(stk[t])) => stk[t][i].pc \in {"in_call", "ser_in"}
TypeOK == /\ \A d \in Das : da[d].alive \in {"none", "live", "freed"} /\ da[d].ev \in {-1, 0, 1}
          /\ \A d \in Das : conts[d] >= 0

\* liveness under fairness: every call made returns, and all helpers drain
Finished == /\ \A t \in Threads : stk[t] = <<>>
            /\ \A d \in Das : conts[d] = 0
            /\ \A d \in TopDas : da[d].returned
Live == <>[]Finished
EveryCallReturns == \A d \in Das : da[d].called ~> da[d].returned

(* ------------------------------ model-checking constants ------------------------------ *)
MCNest == 100      \* nested apply made by invocation i of top-level call d: 100 * d + i
Nesting == N1s # {}
MCNestId(d, i) == IF Nesting /\ d \in TopDas THEN MCNest * d + i ELSE 0
MCDas == TopDas \cup (IF Nesting THEN {MCNest * d + i : d \in TopDas, i \in 0..4} ELSE {})
MCWords == {"wc", "ws", "wc3"}
MCChain(q) == CASE q = "global" -> <<>> [] q = "serial" -> <<"ws">> [] q = "conc" -> <<"wc">>
                [] q = "chain" -> <<"wc", "ws">> [] q = "cc" -> <<"wc3", "wc">> [] OTHER -> <<>>
MCWidth(w) == CASE w = "ws" -> 1 [] w = "wc" -> 2 [] w = "wc3" -> 3 [] OTHER -> 1
NoNest(d, i) == 0
WorkerSym == Permutations(Workers)
=============================================================================
