-------------------------------- MODULE Refs --------------------------------
(* Property C17: "objects live while referenced or busy and are finalised exactly once".

   The reference-counting discipline of dispatch objects, as a layer over the single-lane
   machine of Lane.tla (this module is a COPY of Lane.tla - serial lane when W = 1, concurrent
   of width W otherwise, one action per shared-memory access, dq_state through DQState.tla -
   extended with the two C reference counters and the life cycle that hangs off them):

     xref  os_obj_xref_cnt  external count, biased by -1   dispatch_retain / dispatch_release
     rc    os_obj_ref_cnt   internal count, biased by -1   _dispatch_retain[_2] / _dispatch_release[_2][_tailcall]
   src/object.c           _os_object_retain / _os_object_release -> _dispatch_xref_dispose ->
                          _dispatch_queue_xref_dispose, then _dispatch_release_tailcall;
                          _dispatch_dispose at rc = -1: reads do_targetq, finalizer, do_ctxt; dx_dispose;
                          dealloc; dispatch_async_f(tq, ctxt, finalizer); release of the target
   src/queue.c            _dispatch_lane_class_dispose (crashes unless dq_state is the initial value modulo
                          MAX_QOS / DIRTY and the list is empty), _dispatch_queue_dispose ->
                          _dispatch_queue_specific_head_dispose (destructors async'd on a root queue);
                          the +2 conventions: _dispatch_lane_push takes +2 between the tail exchange and the
                          head / prev store (rdar://6932776) when it will wake the lane up; _dispatch_queue_wakeup
                          hands it to the ENQUEUED bit or releases it at `done:`; the drainer releases it after the
                          unlock; _dispatch_async_redirect_wrap +2 per redirected item, released by
                          _dispatch_lane_non_barrier_complete(CONSUME_2); _dispatch_lane_suspend +2 on the first
                          suspension, consumed by the wakeup of the last resume (rdar://8181908); +2 at creation of
                          an inactive queue; _dispatch_lane_create_with_target retains the TARGET (+1), released at
                          the end of the child's _dispatch_dispose.

   Client API calls (Prog entries are records), in addition to Lane.tla's async / basync / sync / bsync /
   suspend / resume / activate:
     [op |-> "retain"] / [op |-> "release"]   dispatch_retain / dispatch_release of a reference the client holds
     [op |-> "setctx", v |-> n]               dispatch_set_context
     [op |-> "relchild"]                      release of the last reference of a child queue whose target is the lane
     [op |-> "retarget", i |-> b]             dispatch_set_target_queue(lane, TQ) on the ACTIVE lane (legacy retarget):
                                              _dispatch_lane_set_target_queue retains TQ (the +1 a lane owes its target), then
                                              _dispatch_barrier_trysync_or_async_f(dq, tq, _dispatch_lane_legacy_set_target_queue,
                                              DISPATCH_BARRIER_TRYSYNC_SUSPEND): either the barrier runs inline under the drain lock
                                              with one suspend count, or it is pushed as the detached barrier item b; the callback
                                              stores do_targetq and releases the old target (a global root queue here)
     [op |-> "reltq"]                         the application releases its (only) reference on TQ
   TQ is a second, abstract dispatch queue (counter trc, ghost tdisposed): between the retarget call and the callback it is the
   lane's PENDING target and must already be owned by the lane.
   Every client starts with ONE external reference.  Item bodies may suspend the lane (Body[i] = "suspend") or
   release the submitter's reference (Body[i] = "release": the block owns the reference, the case of rdar://6932776).
   The lane has a finalizer; it has a context when ctx # 0; it has one queue-specific key with a destructor.

   Ghosts: `disposed` (memory released), `uaf` (some step touched the object after that), `hand` / `parked`
   (the reference ledger, see RefsWord.tla), finRuns / specRuns (finalizer and destructor invocations).

   Other object types, not modelled as machines here (their discipline is bound by trace validation, RefsTrace.tla,
   with the generic counter arithmetic and dispose condition): groups hold +1 on themselves while non-empty
   (semaphore.c _dispatch_group_* : retain in enter from 0, release in wake); timers and armed unotes hold +2 on
   their source (event.c _dispatch_timer_unote_arm / disarm, _dispatch_unote_register), released on disarm /
   DSF_DELETED; I/O channels retain themselves per operation and their fd_entry / queues (io.c) - abstract.
   "Semaphore object deallocated while in use" / "Release of a suspended object" / "Release of an inactive
   object" are documented client misuses (DISPATCH_CLIENT_CRASH), not violations: legal programs avoid them.
   Data destructors: decided by C13 (Data.tla, DataLife invariants). *)
EXTENDS DQState, RefsWord, Sequences, FiniteSets

CONSTANTS Clients, Workers, Items, Kind, Body, Prog,
          InitInactive,     \* lane created with dispatch_queue_attr_make_initially_inactive
          TailCheckFix,     \* TRUE: barrier-sync fast path checks dq_items_tail first (repair of F1)
          HasChild,         \* TRUE: a child queue targets the lane from the start (it holds +1)
          Ctx0,             \* initial context (0 = none: no finalizer call)
          Mut               \* "none" or the name of a spec mutation (non-vacuity)

LANE == "lane"
Threads == Clients \cup Workers

VARIABLES st,              \* dq_state (DQState record)
          sideCnt, sideLock,  \* dq_side_suspend_cnt and its unfair lock (holder or NULL)
          head, tail, nxt,  \* dq_items_head / dq_items_tail / do_next of items
          root,             \* abstract root queue: sequence of LANE / redirected items (popped in any order)
          pc, lv, ip,       \* per thread: control point, locals ; per client: program index
          ev,               \* per sync item: thread event signalled
          running, runCount, done,
          rc,               \* os_obj_ref_cnt of the lane (C value: references - 1)
          pred,             \* ghost: items whose submission had returned when this item's submission began
          susp,             \* ghost: suspend calls returned minus resume calls started (own + foreign)
          ownSusp,          \* ghost: suspensions made from the lane's own context (item body), not yet resumed
          lateStarts,       \* ghost: items started since `susp` last became positive through a foreign suspend
          activated,        \* ghost: dispatch_activate has been called
          bad,              \* ghost: "" or the name of a C06 violation observed at an item start
          xref,             \* os_obj_xref_cnt of the lane (C value)
          held,             \* per client: external references it holds
          ctx,              \* do_ctxt (0 = NULL)
          childAlive,       \* the child queue targeting the lane has not been deallocated
          disposed,         \* ghost: the lane's memory has been released
          finRuns,          \* ghost: contexts the finalizer was invoked with, in order
          specRuns,         \* ghost: invocations of the queue-specific destructor
          hand, parked,     \* ghost: reference ledger (RefsWord.tla)
          uaf,              \* ghost: "" or the pc of the first step that touched the lane after its memory was released
          trc,              \* os_obj_ref_cnt of TQ (C value): the application's reference + the lane's once it is (to be) its target
          tdisposed,        \* ghost: TQ's memory has been released
          tgtq,             \* the lane's do_targetq is TQ (callback of the legacy retarget ran)
          rtPending,        \* ghost: dispatch_set_target_queue(lane, TQ) was called and its callback has not run yet
          tgtReleased,      \* ghost: the lane's _dispatch_dispose released its target
          tuaf              \* ghost: "" or the pc of the first step that touched TQ after its memory was released
RF == <<xref, held, ctx, childAlive, disposed, finRuns, specRuns>>
TQV == <<trc, tdisposed, tgtq, rtPending, tgtReleased, tuaf>>
vars == <<st, sideCnt, sideLock, head, tail, nxt, root, pc, lv, ip, ev, running, runCount, done, rc, pred,
          susp, ownSusp, lateStarts, activated, bad, RF, hand, parked, uaf, TQV>>

IsBarrier(i) == Kind[i] \in {"ba", "bs"} \/ W = 1      \* everything is a barrier on a serial lane
IsWaiter(i) == Kind[i] \in {"rs", "bs"}
L0 == [dc |-> NULL, n |-> NULL, prev |-> NULL, item |-> NULL, owned |-> Owned0, cons2 |-> FALSE, mkdirty |-> FALSE,
       mode |-> "none", ow |-> 0, ret |-> "none", old |-> Idle0, new |-> Idle0, fl2 |-> FALSE, qos |-> 0, act |-> FALSE,
       xret |-> "none", xc |-> NULL, dret |-> "none", cctx |-> 0]

Init == /\ st = IF InitInactive THEN InactiveInit ELSE Idle0
        /\ sideCnt = 0 /\ sideLock = NULL
        /\ head = NULL /\ tail = NULL /\ nxt = [i \in Items |-> NULL]
        /\ root = <<>> /\ pc = [t \in Threads |-> "idle"] /\ lv = [t \in Threads |-> L0]
        /\ ip = [c \in Clients |-> 1] /\ ev = [i \in Items |-> 0]
        /\ running = {} /\ runCount = [i \in Items |-> 0] /\ done = {}
        /\ rc = (IF InitInactive THEN 2 ELSE 0) + (IF HasChild THEN 1 ELSE 0)    \* calloc: 0 = one reference (the external count's)
        /\ xref = Cardinality(Clients) - 1 /\ held = [c \in Clients |-> 1]
        /\ ctx = Ctx0 /\ childAlive = HasChild /\ disposed = FALSE /\ finRuns = <<>> /\ specRuns = 0
        /\ hand = [t \in Threads |-> 0] /\ parked = 0 /\ uaf = ""
        /\ trc = 0 /\ tdisposed = FALSE /\ tgtq = FALSE /\ rtPending = FALSE /\ tgtReleased = FALSE /\ tuaf = ""
        /\ pred = [i \in Items |-> {}]
        /\ susp = 0 /\ ownSusp = 0 /\ lateStarts = 0 /\ activated = ~InitInactive /\ bad = ""

Go(t, l) == pc' = [pc EXCEPT ![t] = l]
SetL(t, f, v) == lv' = [lv EXCEPT ![t][f] = v]
Returned == UNION {{Prog[c][k].i : k \in {j \in 1..(ip[c] - 1) : "i" \in DOMAIN Prog[c][j]}} : c \in Clients}
Self(t) == t
GH == <<susp, ownSusp, lateStarts, activated, bad>>     \* suspension ghosts
ClientOf(i) == CHOOSE c \in Clients : \E k \in 1..Len(Prog[c]) : "i" \in DOMAIN Prog[c][k] /\ Prog[c][k].i = i
Q == <<head, tail, nxt>>
RUN == <<running, runCount, done>>
SIDE == <<sideCnt, sideLock>>
LaneOps == {"async", "basync", "sync", "bsync", "suspend", "resume", "activate"}
\* _os_object_release_internal_n_inline: release n internal references held by t, whose locals become lvn;
\* at -1 the thread runs _dispatch_dispose and then continues at `cont`
Rel(t, n, cont, lvn) ==
    LET r == ReleaseN(rc, n) IN
    /\ rc' = r.rc
    /\ IF r.kind = "dispose" THEN Go(t, "disp_read") /\ lv' = [lv EXCEPT ![t] = [lvn EXCEPT !.dret = cont]]
       ELSE Go(t, IF r.kind = "live" THEN cont ELSE "crash") /\ lv' = [lv EXCEPT ![t] = lvn]

(* ======================= client API entry / exit ======================= *)
Start(c) ==
    /\ pc[c] = "idle" /\ ip[c] <= Len(Prog[c]) /\ Prog[c][ip[c]].op \in LaneOps
    /\ LET o == Prog[c][ip[c]] IN
       CASE o.op \in {"async", "basync", "sync", "bsync"} ->
              /\ lv' = [lv EXCEPT ![c] = [L0 EXCEPT !.item = o.i, !.ret = "ret"]]
              /\ pred' = [pred EXCEPT ![o.i] = Returned]
              /\ Go(c, CASE Kind[o.i] = "ra" -> IF W = 1 THEN "push_tail" ELSE "cpush_tail"
                         [] Kind[o.i] = "ba" -> "push_tail"
                         [] Kind[o.i] = "rs" -> IF W = 1 THEN (IF TailCheckFix THEN "bs_tail" ELSE "bs_fast") ELSE "rs_tail"
                         [] Kind[o.i] = "bs" -> IF TailCheckFix THEN "bs_tail" ELSE "bs_fast")
              /\ UNCHANGED <<GH>>
         [] o.op = "suspend" -> /\ lv' = [lv EXCEPT ![c] = [L0 EXCEPT !.ret = "ret"]] /\ Go(c, "susp_rmw") /\ UNCHANGED <<pred, GH>>
         [] o.op = "resume"  -> /\ ("after" \in DOMAIN o => o.after \in running \cup done)   \* client waits for the suspending item
                                /\ lv' = [lv EXCEPT ![c] = [L0 EXCEPT !.ret = "ret"]] /\ Go(c, "res_rmw") /\ pred' = pred
                                /\ susp' = susp - 1 /\ ownSusp' = IF ownSusp > 0 /\ susp = ownSusp THEN ownSusp - 1 ELSE ownSusp
                                /\ lateStarts' = (IF susp = 1 THEN 0 ELSE lateStarts) /\ activated' = activated /\ bad' = bad
         [] o.op = "activate" -> /\ lv' = [lv EXCEPT ![c] = [L0 EXCEPT !.ret = "ret"]] /\ Go(c, "act_rmw") /\ pred' = pred
                                 /\ activated' = TRUE /\ UNCHANGED <<susp, ownSusp, lateStarts, bad>>
    /\ UNCHANGED <<st, SIDE, Q, root, ip, ev, RUN, rc>>
Return(c) == /\ pc[c] = "ret" /\ Go(c, "idle") /\ ip' = [ip EXCEPT ![c] = @ + 1]
             /\ UNCHANGED <<st, SIDE, Q, root, lv, ev, RUN, rc, pred, GH>>

(* ============ _dispatch_lane_concurrent_push: fast path for async readers ============ *)
CPushTail(c) == /\ pc[c] = "cpush_tail" /\ Go(c, IF tail = NULL THEN "cpush_acq" ELSE "push_tail")
                /\ UNCHANGED <<st, SIDE, Q, root, lv, ip, ev, RUN, rc, pred, GH>>
CPushAcq(c) == /\ pc[c] = "cpush_acq"
               /\ LET r == TryAcquireAsync(st) IN
                  IF r.ok THEN /\ st' = r.s /\ root' = Append(root, lv[c].item) /\ rc' = rc + 2 /\ Go(c, "ret")
                          ELSE /\ st' = st /\ root' = root /\ rc' = rc /\ Go(c, "push_tail")
               /\ UNCHANGED <<SIDE, Q, lv, ip, ev, RUN, pred, GH>>

(* ============================ _dispatch_lane_push ============================ *)
PushTail(t) ==
    /\ pc[t] = "push_tail"
    /\ LET i == lv[t].item  w == IsWaiter(i) IN
       /\ tail' = i
       /\ lv' = [lv EXCEPT ![t].prev = tail, ![t].cons2 = (tail = NULL /\ ~w), ![t].mkdirty = (tail = NULL /\ ~w)]
       \* _dispatch_retain_2_unsafe(dq) BEFORE os_mpsc_push_update_prev: the item cannot be dequeued yet (rdar://6932776)
       /\ rc' = IF tail = NULL /\ ~w /\ Mut # "push_late_retain" THEN rc + 2 ELSE rc
       /\ Go(t, IF tail # NULL /\ ~w THEN "push_ovr" ELSE "push_prev")
    /\ UNCHANGED <<st, SIDE, head, nxt, root, ip, ev, RUN, pred, GH>>
\* _dispatch_queue_need_override: plain read of the max_qos bits (push qos is 0 on this build)
PushOvr(t) == /\ pc[t] = "push_ovr"
              /\ IF st.qos = 0 THEN lv' = [lv EXCEPT ![t].cons2 = TRUE] /\ rc' = rc + 2 ELSE lv' = lv /\ rc' = rc
              /\ Go(t, "push_prev")
              /\ UNCHANGED <<st, SIDE, Q, root, ip, ev, RUN, pred, GH>>
PushPrev(t) ==
    /\ pc[t] = "push_prev"
    /\ LET i == lv[t].item p == lv[t].prev IN
       /\ IF p = NULL THEN head' = i /\ nxt' = nxt ELSE nxt' = [nxt EXCEPT ![p] = i] /\ head' = head
       /\ Go(t, IF ~IsWaiter(i) THEN (IF lv[t].cons2 THEN (IF Mut = "push_late_retain" /\ p = NULL THEN "push_retain" ELSE "wk_probe")
                                       ELSE lv[t].ret)
                ELSE IF p # NULL THEN "wait_event" ELSE "pw_rmw")
    /\ UNCHANGED <<st, SIDE, tail, root, lv, ip, ev, RUN, rc, pred, GH>>
\* spec mutant only: the +2 of the first pusher taken after the item became dequeuable
PushRetainLate(t) == /\ pc[t] = "push_retain" /\ rc' = rc + 2 /\ Go(t, "wk_probe")
                     /\ UNCHANGED <<st, SIDE, Q, root, lv, ip, ev, RUN, pred, GH>>

(* ================= _dispatch_lane_wakeup / _dispatch_queue_wakeup ================= *)
\* lv.fl2 = CONSUME_2 held by this wakeup, lv.mkdirty = MAKE_DIRTY, lv.ret = continuation
WkProbe(t) == /\ pc[t] = "wk_probe" /\ Go(t, IF tail # NULL THEN "wk_rmw" ELSE "wk_release")
              /\ UNCHANGED <<st, SIDE, Q, root, lv, ip, ev, RUN, rc, pred, GH>>
WkRmw(t) ==
    /\ pc[t] = "wk_rmw"
    /\ LET r == Wakeup(st, lv[t].mkdirty) IN
       /\ st' = IF r.changed THEN r.s ELSE st
       /\ root' = IF r.changed /\ r.push THEN Append(root, LANE) ELSE root
       /\ Go(t, IF r.changed /\ r.push THEN lv[t].ret ELSE "wk_release")
    /\ UNCHANGED <<SIDE, Q, lv, ip, ev, RUN, rc, pred, GH>>
\* done: if (flags & DISPATCH_WAKEUP_CONSUME_2) return _dispatch_release_2_tailcall(dq);
WkRelease(t) == /\ pc[t] = "wk_release"
                /\ IF Mut = "wakeup_forgets_release" THEN rc' = rc /\ lv' = lv /\ Go(t, lv[t].ret)
                   ELSE Rel(t, 2, lv[t].ret, lv[t])
                /\ UNCHANGED <<st, SIDE, Q, root, ip, ev, RUN, pred, GH>>

(* ===================== worker: root queue pop (any element) ===================== *)
\* root entries: LANE, a redirected item, "spec" (queue-specific destructor), "fin1" / "fin2" (finalizer with its context)
FinEntry(c) == IF c = 1 THEN "fin1" ELSE "fin2"
FinCtxOf(e) == IF e = "fin1" THEN 1 ELSE 2
RootPop(w) ==
    /\ pc[w] = "idle" /\ w \in Workers /\ Len(root) > 0
    /\ \E k \in 1..Len(root) :
         /\ root' = [j \in 1..(Len(root) - 1) |-> IF j < k THEN root[j] ELSE root[j + 1]]
         /\ IF root[k] = LANE THEN lv' = [lv EXCEPT ![w] = [L0 EXCEPT !.ret = "idle"]] /\ Go(w, "try_lock")
            ELSE IF root[k] \in Items THEN lv' = [lv EXCEPT ![w] = [L0 EXCEPT !.dc = root[k], !.ret = "idle"]] /\ Go(w, "rd_call")
            ELSE IF root[k] = "spec" THEN lv' = [lv EXCEPT ![w] = L0] /\ Go(w, "spec_call")
            ELSE lv' = [lv EXCEPT ![w] = [L0 EXCEPT !.cctx = FinCtxOf(root[k])]] /\ Go(w, "fin_call")
    /\ UNCHANGED <<st, SIDE, Q, ip, ev, RUN, rc, pred, GH>>

(* ============================ running an item ============================ *)
\* the client callout; a body may call dispatch_suspend(lane) (inline RMW, sc never overflows in bodies)
CallStart(t, here, cont, it) ==
    /\ pc[t] = here
    /\ running' = running \cup {it} /\ runCount' = [runCount EXCEPT ![it] = @ + 1] /\ done' = done
    /\ lateStarts' = IF susp > 0 /\ ownSusp = 0 THEN lateStarts + 1 ELSE lateStarts
    /\ bad' = IF ownSusp > 0 THEN "start-while-suspended-from-own-context"
              ELSE IF ~activated THEN "start-before-activate" ELSE bad
    /\ IF Body[it] = "suspend"
         THEN /\ st' = [st EXCEPT !.sc = @ + 1] /\ rc' = IF Suspended(st) THEN rc ELSE rc + 2
              /\ susp' = susp + 1 /\ ownSusp' = ownSusp + 1
         ELSE UNCHANGED <<st, rc, susp, ownSusp>>
    \* a body that releases the submitter's reference: dispatch_release(q) inside the block
    /\ IF Body[it] = "release" THEN Go(t, "xrel") /\ lv' = [lv EXCEPT ![t].xret = cont, ![t].xc = ClientOf(it)]
                               ELSE Go(t, cont) /\ lv' = lv
    /\ UNCHANGED <<SIDE, Q, root, ip, ev, pred, activated>>
CallEnd(t, here, cont, it) ==
    /\ pc[t] = here /\ running' = running \ {it} /\ done' = done \cup {it} /\ runCount' = runCount /\ Go(t, cont)
    /\ UNCHANGED <<st, SIDE, Q, root, lv, ip, ev, rc, pred, GH>>

(* ================= _dispatch_lane_non_barrier_complete (+ _finish) ================= *)
NbcRmw(t) ==
    /\ pc[t] = "nbc_rmw"
    /\ LET n == NonBarrierComplete(st, Self(t)) IN
       /\ st' = n /\ lv' = [lv EXCEPT ![t].old = st, ![t].new = n] /\ Go(t, "nbc_fin")
    /\ UNCHANGED <<SIDE, Q, root, ip, ev, RUN, rc, pred, GH>>
NbcFin(t) ==
    /\ pc[t] = "nbc_fin"
    /\ LET o == lv[t].old n == lv[t].new IN
       IF o.ib # n.ib THEN /\ Go(t, "bc_tail") /\ root' = root /\ rc' = rc /\ lv' = [lv EXCEPT ![t].qos = 0]
       ELSE IF o.enq # n.enq THEN /\ root' = Append(root, LANE) /\ rc' = (IF lv[t].fl2 THEN rc ELSE rc + 2)
                                  /\ Go(t, lv[t].ret) /\ lv' = lv
       ELSE /\ root' = root
            /\ IF lv[t].fl2 THEN Rel(t, 2, lv[t].ret, lv[t]) ELSE rc' = rc /\ Go(t, lv[t].ret) /\ lv' = lv
    /\ UNCHANGED <<st, SIDE, Q, ip, ev, RUN, pred, GH>>
RdDone(w) == /\ pc[w] = "rd_done" /\ lv' = [lv EXCEPT ![w].fl2 = TRUE, ![w].ret = "idle"] /\ Go(w, "nbc_rmw")
             /\ UNCHANGED <<st, SIDE, Q, root, ip, ev, RUN, rc, pred, GH>>

(* ============ _dispatch_queue_class_invoke / _dispatch_lane_drain ============ *)
TryLock(w) ==
    /\ pc[w] = "try_lock"
    /\ LET r == DrainTryLock(st, Self(w)) IN
       /\ st' = r.s
       /\ IF r.ok THEN /\ lv' = [lv EXCEPT ![w].owned = r.owned, ![w].mode = IF (W = 1 \/ r.owned.ib) THEN "IB" ELSE "W",
                                          ![w].ow = IF (W = 1 \/ r.owned.ib) THEN 0 ELSE r.owned.w]
                       /\ Go(w, "dr_tail0")
                  ELSE lv' = lv /\ Go(w, "w_release")
    /\ UNCHANGED <<SIDE, Q, root, ip, ev, RUN, rc, pred, GH>>
\* _dispatch_queue_class_invoke / _dispatch_queue_invoke_finish: return _dispatch_release_2_tailcall(dq);
WRelease(w) == /\ pc[w] = "w_release" /\ Rel(w, 2, "idle", lv[w])
               /\ UNCHANGED <<st, SIDE, Q, root, ip, ev, RUN, pred, GH>>
\* if (!dq->dq_items_tail) return NULL   (plain read)
DrTail0(w) == /\ pc[w] = "dr_tail0"
              /\ IF tail = NULL THEN lv' = [lv EXCEPT ![w].dc = NULL] /\ Go(w, "unlock") ELSE lv' = lv /\ Go(w, "dr_head")
              /\ UNCHANGED <<st, SIDE, Q, root, ip, ev, RUN, rc, pred, GH>>
\* _dispatch_queue_get_head (spins in _dispatch_wait_for_enqueuer until the head is published)
DrHead(w) == /\ pc[w] = "dr_head" /\ head # NULL /\ SetL(w, "dc", head) /\ Go(w, "dr_susp")
             /\ UNCHANGED <<st, SIDE, Q, root, ip, ev, RUN, rc, pred, GH>>
\* first_iteration: dq_state = load(dq_state); if suspended break
DrSusp(w) == /\ pc[w] = "dr_susp"
             /\ Go(w, IF Suspended(st) /\ Mut # "drain_ignores_suspend" THEN "dr_out_dc" ELSE "dr_item")
             /\ UNCHANGED <<st, SIDE, Q, root, lv, ip, ev, RUN, rc, pred, GH>>
DrItem(w) ==
    /\ pc[w] = "dr_item"
    /\ LET dc == lv[w].dc IN
       IF IsBarrier(dc)
         THEN Go(w, IF lv[w].mode = "IB" THEN (IF IsWaiter(dc) THEN "fin_bw" ELSE "pop1") ELSE "upgrade")
         ELSE Go(w, IF lv[w].mode = "IB" THEN "drop_ib" ELSE IF lv[w].ow = 0 THEN "acq_w" ELSE "pop1")
    /\ UNCHANGED <<st, SIDE, Q, root, lv, ip, ev, RUN, rc, pred, GH>>
Upgrade(w) ==
    /\ pc[w] = "upgrade"
    /\ LET r == IF Mut = "upgrade_ignores_readers"
                THEN [ok |-> TRUE, s |-> [st EXCEPT !.ib = TRUE, !.pb = FALSE, !.dirty = FALSE, !.used = @ - lv[w].ow + W]]
                ELSE TryUpgradeFullWidth(st, lv[w].ow) IN
       /\ st' = r.s
       /\ IF r.ok THEN lv' = [lv EXCEPT ![w].mode = "IB", ![w].ow = 0] /\ Go(w, "dr_item")
                  ELSE lv' = [lv EXCEPT ![w].ow = 0] /\ Go(w, "unlock_wait")     \* out_with_no_width
    /\ UNCHANGED <<SIDE, Q, root, ip, ev, RUN, rc, pred, GH>>
\* os_atomic_xor2o(dq, dq_state, IN_BARRIER, release); owned = width * INTERVAL
DropIb(w) == /\ pc[w] = "drop_ib" /\ st' = [st EXCEPT !.ib = FALSE]
             /\ lv' = [lv EXCEPT ![w].mode = "W", ![w].ow = W] /\ Go(w, "pop1")
             /\ UNCHANGED <<SIDE, Q, root, ip, ev, RUN, rc, pred, GH>>
AcqW(w) ==
    /\ pc[w] = "acq_w"
    /\ IF IsWaiter(lv[w].dc) THEN st' = ReserveSyncWidth(st) /\ SetL(w, "ow", 1) /\ Go(w, "pop1")
       ELSE LET r == TryAcquireAsync(st) IN
            IF r.ok THEN st' = r.s /\ SetL(w, "ow", 1) /\ Go(w, "pop1")
                    ELSE st' = st /\ lv' = lv /\ Go(w, "unlock_wait")
    /\ UNCHANGED <<SIDE, Q, root, ip, ev, RUN, rc, pred, GH>>
\* os_mpsc_pop_head: n = load(next); store(head, n); if (!n && !cas(tail, dc, NULL)) { n = wait(next); store(head, n) }
Pop1(t, here, cont) == /\ pc[t] = here /\ LET n == nxt[lv[t].dc] IN head' = n /\ SetL(t, "n", n)
                       /\ Go(t, cont)
                       /\ UNCHANGED <<st, SIDE, tail, nxt, root, ip, ev, RUN, rc, pred, GH>>
Pop2(t, here, ok, retry) == /\ pc[t] = here
                            /\ IF lv[t].n # NULL THEN tail' = tail /\ Go(t, ok)
                               ELSE IF tail = lv[t].dc THEN tail' = NULL /\ Go(t, ok)
                               ELSE tail' = tail /\ Go(t, retry)
                            /\ UNCHANGED <<st, SIDE, head, nxt, root, lv, ip, ev, RUN, rc, pred, GH>>
Pop3(t, here, ok) == /\ pc[t] = here /\ nxt[lv[t].dc] # NULL
                     /\ head' = nxt[lv[t].dc] /\ SetL(t, "n", nxt[lv[t].dc]) /\ Go(t, ok)
                     /\ UNCHANGED <<st, SIDE, tail, nxt, root, ip, ev, RUN, rc, pred, GH>>
\* after the pop: barrier items run inline; reader waiters are woken; reader items are redirected to the root queue
Popped(w) ==
    /\ pc[w] = "popped"
    /\ LET dc == lv[w].dc IN
       IF IsBarrier(dc) THEN Go(w, "call") /\ UNCHANGED <<ev, root, lv, rc>>
       ELSE IF IsWaiter(dc) THEN ev' = [ev EXCEPT ![dc] = 1] /\ SetL(w, "ow", lv[w].ow - 1) /\ Go(w, "dr_next") /\ UNCHANGED <<root, rc>>
       ELSE root' = Append(root, dc) /\ rc' = rc + 2 /\ SetL(w, "ow", lv[w].ow - 1) /\ Go(w, "dr_next") /\ ev' = ev
    /\ UNCHANGED <<st, SIDE, Q, ip, RUN, pred, GH>>
\* loop head: dc = next_dc; if (!dc) { if (!dq_items_tail) break; dc = get_head }
DrNext(w) ==
    /\ pc[w] = "dr_next"
    /\ IF lv[w].n # NULL THEN SetL(w, "dc", lv[w].n) /\ Go(w, "dr_susp")
       ELSE IF tail = NULL THEN SetL(w, "dc", NULL) /\ Go(w, "unlock")
       ELSE lv' = lv /\ Go(w, "dr_head")
    /\ UNCHANGED <<st, SIDE, Q, root, ip, ev, RUN, rc, pred, GH>>
OwnedAtExit(w) == [ib |-> (lv[w].mode = "IB"), w |-> IF lv[w].mode = "IB" THEN W ELSE lv[w].ow,
                   enq |-> lv[w].owned.enq,
                   res |-> (lv[w].dc # NULL /\ W > 1 /\ IsBarrier(lv[w].dc))]
\* _dispatch_queue_drain_try_unlock(dq, owned, done = TRUE)
Unlock(w) ==
    /\ pc[w] = "unlock"
    /\ LET r == DrainTryUnlock(st, OwnedAtExit(w), TRUE)
           ok == r.ok \/ Mut = "unlock_ignores_dirty"
           ns == IF Mut = "unlock_ignores_dirty" /\ ~r.ok THEN [ClearUnlock(Sub(st, OwnedAtExit(w))) EXCEPT !.qos = 0] ELSE r.s IN
       /\ st' = ns
       /\ IF ok THEN Go(w, "w_release") ELSE Go(w, "dr_tail0")     \* root worker: attempt_running_slow_head
    /\ UNCHANGED <<SIDE, Q, root, lv, ip, ev, RUN, rc, pred, GH>>
\* out_with_no_width: tq = WAIT_FOR_EVENT, owned = ENQUEUED bit only; try_unlock(done = FALSE)
UnlockWait(w) ==
    /\ pc[w] = "unlock_wait"
    /\ LET o == [ib |-> FALSE, w |-> 0, enq |-> lv[w].owned.enq, res |-> FALSE]
           r == DrainTryUnlock(st, o, FALSE) IN
       /\ st' = r.s
       /\ IF r.ok THEN lv' = lv /\ Go(w, "w_release")
                  ELSE lv' = [lv EXCEPT ![w].mode = "W", ![w].ow = 0] /\ Go(w, "dr_tail0")
    /\ UNCHANGED <<SIDE, Q, root, ip, ev, RUN, rc, pred, GH>>
\* drain left with dc != NULL (suspension): _dispatch_queue_invoke_finish re-enqueues or not
DrOutDc(w) ==
    /\ pc[w] = "dr_out_dc"
    /\ LET r == InvokeFinish(st, OwnedAtExit(w)) IN
       /\ st' = r.s
       /\ IF r.push THEN root' = Append(root, LANE) /\ Go(w, "idle") ELSE root' = root /\ Go(w, "w_release")
    /\ UNCHANGED <<SIDE, Q, lv, ip, ev, RUN, rc, pred, GH>>
\* out_with_barrier_waiter -> _dispatch_queue_invoke_finish -> _dispatch_lane_drain_barrier_waiter(CONSUME_2, owned & ENQ)
FinBw(w) == /\ pc[w] = "fin_bw" /\ lv' = [lv EXCEPT ![w].fl2 = TRUE, ![w].ret = "idle", ![w].act = TRUE] /\ Go(w, "bw_pop1")
            /\ UNCHANGED <<st, SIDE, Q, root, ip, ev, RUN, rc, pred, GH>>

(* ========== _dispatch_lane_drain_barrier_waiter: pop, transfer the lock, wake ========== *)
\* lv.act = called from the drainer (enqueued_bits = owned & ENQUEUED), else from barrier_complete (0)
BwRmw(t) ==
    /\ pc[t] = "bw_rmw"
    /\ st' = DrainBarrierWaiter(st, ClientOf(lv[t].dc),
                                lv[t].act /\ lv[t].owned.enq)
    /\ Go(t, "bw_wake")
    /\ UNCHANGED <<SIDE, Q, root, lv, ip, ev, RUN, rc, pred, GH>>
BwWake(t) == /\ pc[t] = "bw_wake" /\ ev' = [ev EXCEPT ![lv[t].dc] = 1]
             /\ rc' = IF lv[t].fl2 THEN rc - 2 ELSE rc
             /\ Go(t, lv[t].ret)
             /\ UNCHANGED <<st, SIDE, Q, root, lv, ip, RUN, pred, GH>>

(* ============================== dispatch_sync (reader) ============================== *)
RsTail(c) == /\ pc[c] = "rs_tail" /\ Go(c, IF tail # NULL THEN "push_tail" ELSE "rs_fast")
             /\ UNCHANGED <<st, SIDE, Q, root, lv, ip, ev, RUN, rc, pred, GH>>
RsFast(c) == /\ pc[c] = "rs_fast"
             /\ LET r == IF Mut = "reader_ignores_pending_barrier" /\ SyncRunnable(st) /\ ~st.dirty
                         THEN [ok |-> TRUE, s |-> [st EXCEPT !.used = @ + 1]] ELSE TryReserveSyncWidth(st) IN
                IF r.ok THEN st' = r.s /\ Go(c, "sync_call") ELSE st' = st /\ Go(c, "push_tail")
             /\ UNCHANGED <<SIDE, Q, root, lv, ip, ev, RUN, rc, pred, GH>>
(* ============================ dispatch_barrier_sync ============================ *)
BsTail(c) == /\ pc[c] = "bs_tail" /\ Go(c, IF tail # NULL THEN "push_tail" ELSE "bs_fast")
             /\ UNCHANGED <<st, SIDE, Q, root, lv, ip, ev, RUN, rc, pred, GH>>
BsFast(c) == /\ pc[c] = "bs_fast"
             /\ LET r == TryAcquireBarrierSync(st, Self(c), 0) IN
                IF r.ok THEN st' = r.s /\ Go(c, "sync_call") ELSE st' = st /\ Go(c, "push_tail")
             /\ UNCHANGED <<SIDE, Q, root, lv, ip, ev, RUN, rc, pred, GH>>
\* _dispatch_lane_push_waiter rmw (the waiter made the list non-empty)
PwRmw(c) ==
    /\ pc[c] = "pw_rmw"
    /\ LET r == PushWaiter(st, Self(c)) IN
       /\ st' = r.s
       /\ IF r.took THEN lv' = [lv EXCEPT ![c].ret = "wait_event", ![c].fl2 = FALSE, ![c].qos = 0] /\ Go(c, "bc_tail")
                    ELSE lv' = lv /\ Go(c, "wait_event")
    /\ UNCHANGED <<SIDE, Q, root, ip, ev, RUN, rc, pred, GH>>
\* _dispatch_thread_event_wait
WaitEvent(c) == /\ pc[c] = "wait_event" /\ (ev[lv[c].item] = 1 \/ Mut = "sync_does_not_wait") /\ Go(c, "sync_call")
                /\ UNCHANGED <<st, SIDE, Q, root, lv, ip, ev, RUN, rc, pred, GH>>
\* after the callout: readers give their width back; barriers complete
SyncDone(c) ==
    /\ pc[c] = "sync_done"
    /\ lv' = [lv EXCEPT ![c].ret = "ret", ![c].fl2 = FALSE, ![c].qos = 0]
    /\ Go(c, IF ~IsBarrier(lv[c].item) THEN "nbc_rmw"
             ELSE IF W = 1 THEN "bsu_tail" ELSE "bc_tail")
    /\ UNCHANGED <<st, SIDE, Q, root, ip, ev, RUN, rc, pred, GH>>
\* _dispatch_lane_barrier_sync_invoke_and_complete: if (dq_items_tail || width > 1) barrier_complete else cheap unlock
BsuTail(c) == /\ pc[c] = "bsu_tail" /\ Go(c, IF tail # NULL THEN "bc_tail" ELSE "bsu_rmw")
              /\ UNCHANGED <<st, SIDE, Q, root, lv, ip, ev, RUN, rc, pred, GH>>
BsuRmw(c) == /\ pc[c] = "bsu_rmw"
             /\ LET r == BarrierSyncUnlock(st) IN
                IF r.ok THEN st' = r.s /\ Go(c, "ret") ELSE st' = st /\ Go(c, "bc_tail")
             /\ UNCHANGED <<SIDE, Q, root, lv, ip, ev, RUN, rc, pred, GH>>

(* ========================= _dispatch_lane_barrier_complete ========================= *)
\* lv.fl2 = CONSUME_2 ; lv.qos = qos argument ; lv.ret = continuation
\* if (dq->dq_items_tail && !DISPATCH_QUEUE_IS_SUSPENDED(dq))   (two loads)
BcTail(t) == /\ pc[t] = "bc_tail" /\ Go(t, IF tail # NULL THEN "bc_susp" ELSE "bc_rmw_none")
             /\ UNCHANGED <<st, SIDE, Q, root, lv, ip, ev, RUN, rc, pred, GH>>
BcSusp(t) == /\ pc[t] = "bc_susp" /\ Go(t, IF Suspended(st) THEN "bc_rmw_none" ELSE "bc_head")
             /\ UNCHANGED <<st, SIDE, Q, root, lv, ip, ev, RUN, rc, pred, GH>>
BcHead(t) ==
    /\ pc[t] = "bc_head" /\ head # NULL
    /\ IF IsBarrier(head)
         THEN IF IsWaiter(head) THEN lv' = [lv EXCEPT ![t].dc = head, ![t].act = FALSE] /\ Go(t, "bw_pop1") /\ rc' = rc
              ELSE lv' = [lv EXCEPT ![t].dc = head, ![t].fl2 = TRUE] /\ Go(t, "bc_rmw_tq") /\ rc' = IF lv[t].fl2 THEN rc ELSE rc + 2
         ELSE lv' = [lv EXCEPT ![t].dc = head, ![t].ow = W] /\ Go(t, "dnb_dropib") /\ rc' = rc
    /\ UNCHANGED <<st, SIDE, Q, root, ip, ev, RUN, pred, GH>>
FullOwned == [ib |-> TRUE, w |-> W, enq |-> FALSE, res |-> FALSE]
\* _dispatch_lane_class_barrier_complete with target = TARGET
BcRmwTq(t) ==
    /\ pc[t] = "bc_rmw_tq"
    /\ LET r == BarrierComplete(st, FullOwned, TRUE, lv[t].qos) IN
       /\ st' = r.s
       /\ IF r.s.enq /\ ~st.enq THEN root' = Append(root, LANE) /\ rc' = rc /\ Go(t, lv[t].ret) /\ lv' = lv
          ELSE root' = root /\ Rel(t, 2, lv[t].ret, lv[t])
    /\ UNCHANGED <<SIDE, Q, ip, ev, RUN, pred, GH>>
\* ... and with target = NONE: DIRTY forces a retry through dx_wakeup(BARRIER_COMPLETE)
BcRmwNone(t) ==
    /\ pc[t] = "bc_rmw_none"
    /\ LET r == BarrierComplete(st, FullOwned, FALSE, lv[t].qos) IN
       /\ st' = r.s
       /\ IF r.ok /\ lv[t].fl2 THEN Rel(t, 2, lv[t].ret, lv[t])
          ELSE rc' = rc /\ lv' = lv /\ Go(t, IF r.ok THEN lv[t].ret ELSE "bc_tail")
    /\ UNCHANGED <<SIDE, Q, root, ip, ev, RUN, pred, GH>>

(* ========================= _dispatch_lane_drain_non_barriers ========================= *)
DnbDropIb(t) == /\ pc[t] = "dnb_dropib" /\ st' = [st EXCEPT !.ib = FALSE] /\ Go(t, "dnb_item")
                /\ UNCHANGED <<SIDE, Q, root, lv, ip, ev, RUN, rc, pred, GH>>
DnbItem(t) ==
    /\ pc[t] = "dnb_item"
    /\ LET dc == lv[t].dc IN
       IF lv[t].ow > 0 THEN st' = st /\ SetL(t, "ow", lv[t].ow - 1) /\ Go(t, "dnb_pop1")
       ELSE IF IsWaiter(dc) THEN st' = ReserveSyncWidth(st) /\ lv' = lv /\ Go(t, "dnb_pop1")
       ELSE LET r == TryAcquireAsync(st) IN
            IF r.ok THEN st' = r.s /\ lv' = lv /\ Go(t, "dnb_pop1")
                    ELSE st' = st /\ lv' = lv /\ Go(t, "dnb_rmw")      \* break: no width left, dc stays non-null
    /\ UNCHANGED <<SIDE, Q, root, ip, ev, RUN, rc, pred, GH>>
DnbPopped(t) ==
    /\ pc[t] = "dnb_popped"
    /\ LET dc == lv[t].dc IN
       /\ IF IsWaiter(dc) THEN ev' = [ev EXCEPT ![dc] = 1] /\ root' = root /\ rc' = rc
          ELSE root' = Append(root, dc) /\ rc' = rc + 2 /\ ev' = ev
       /\ lv' = [lv EXCEPT ![t].dc = lv[t].n]
       /\ Go(t, IF lv[t].n # NULL /\ ~IsBarrier(lv[t].n) THEN "dnb_item" ELSE "dnb_rmw")
    /\ UNCHANGED <<st, SIDE, Q, ip, RUN, pred, GH>>
DnbRmw(t) ==
    /\ pc[t] = "dnb_rmw"
    /\ LET dc == lv[t].dc
           r == DrainNonBarriersExit(st, lv[t].ow, dc # NULL, dc # NULL /\ IsBarrier(dc), Self(t)) IN
       /\ st' = r.s
       /\ IF r.ok THEN lv' = [lv EXCEPT ![t].old = r.old, ![t].new = r.s] /\ Go(t, "nbc_fin")
                  ELSE lv' = lv /\ Go(t, "dnb_again")
    /\ UNCHANGED <<SIDE, Q, root, ip, ev, RUN, rc, pred, GH>>
\* next_dc = load(dq_items_head); goto drain_again
DnbAgain(t) == /\ pc[t] = "dnb_again"
               /\ lv' = [lv EXCEPT ![t].dc = head]
               /\ Go(t, IF head # NULL /\ ~IsBarrier(head) THEN "dnb_item" ELSE "dnb_rmw")
               /\ UNCHANGED <<st, SIDE, Q, root, ip, ev, RUN, rc, pred, GH>>

(* ============================ dispatch_suspend ============================ *)
SuspRmw(c) ==
    /\ pc[c] = "susp_rmw"
    /\ LET r == Suspend(st) IN
       IF r.ok THEN /\ st' = r.s /\ rc' = IF Suspended(st) THEN rc ELSE rc + 2
                    /\ susp' = susp + 1 /\ Go(c, "ret") /\ UNCHANGED <<ownSusp, lateStarts, activated, bad>>
               ELSE /\ st' = st /\ rc' = rc /\ Go(c, "susp_lock") /\ UNCHANGED GH
    /\ UNCHANGED <<SIDE, Q, root, lv, ip, ev, RUN, pred>>
SuspLock(c) == /\ pc[c] = "susp_lock" /\ sideLock = NULL /\ sideLock' = c /\ Go(c, "susp_slow")
               /\ UNCHANGED <<st, sideCnt, Q, root, lv, ip, ev, RUN, rc, pred, GH>>
SuspSlow(c) ==
    /\ pc[c] = "susp_slow"
    /\ LET r == SuspendSlow(st, sideCnt = 0) IN
       IF r.ok THEN /\ st' = r.s /\ sideCnt' = sideCnt + SCHALF /\ sideLock' = NULL /\ susp' = susp + 1 /\ Go(c, "ret")
                    /\ UNCHANGED <<ownSusp, lateStarts, activated, bad>>
               ELSE /\ st' = st /\ sideCnt' = sideCnt /\ sideLock' = NULL /\ Go(c, "susp_rmw") /\ UNCHANGED GH
    /\ UNCHANGED <<Q, root, lv, ip, ev, RUN, rc, pred>>

(* ============================ dispatch_resume ============================ *)
ResRmw(c) ==
    /\ pc[c] = "res_rmw"
    /\ LET r == Resume(st, Self(c), FALSE) IN
       /\ st' = r.s
       /\ CASE r.kind = "activate" -> Go(c, "res_rmw") /\ lv' = lv /\ rc' = rc     \* dq_activate is a no-op for lanes; consume the count
            [] r.kind = "slow" -> Go(c, "res_lock") /\ lv' = lv /\ rc' = rc
            [] r.kind = "over_resume" -> Go(c, "crash") /\ lv' = lv /\ rc' = rc
            [] r.kind = "still" -> Go(c, lv[c].ret) /\ lv' = lv /\ rc' = rc
            [] r.kind = "nowidth" -> Rel(c, 2, lv[c].ret, lv[c])
            [] r.kind = "barrier" -> Go(c, "bc_tail") /\ lv' = [lv EXCEPT ![c].fl2 = TRUE, ![c].qos = st.qos] /\ rc' = rc
            [] r.kind \in {"locked", "wakeup"} -> Go(c, "wk_probe") /\ lv' = [lv EXCEPT ![c].mkdirty = FALSE, ![c].fl2 = TRUE] /\ rc' = rc
    /\ UNCHANGED <<SIDE, Q, root, ip, ev, RUN, pred, GH>>
ResLock(c) == /\ pc[c] = "res_lock" /\ sideLock = NULL /\ sideLock' = c /\ Go(c, "res_slow")
              /\ UNCHANGED <<st, sideCnt, Q, root, lv, ip, ev, RUN, rc, pred, GH>>
ResSlow(c) ==
    /\ pc[c] = "res_slow"
    /\ LET r == ResumeSlow(st, sideCnt) IN
       IF r.ok THEN /\ st' = r.s /\ sideCnt' = sideCnt - SCHALF /\ sideLock' = NULL /\ Go(c, lv[c].ret)
               ELSE /\ st' = st /\ sideCnt' = sideCnt /\ sideLock' = NULL /\ Go(c, "res_rmw")
    /\ UNCHANGED <<Q, root, lv, ip, ev, RUN, rc, pred, GH>>

(* ============================ dispatch_activate ============================ *)
ActRmw(c) ==
    /\ pc[c] = "act_rmw"
    /\ LET r == Activate(st) IN
       /\ st' = r.s
       /\ Go(c, IF r.kind = "finalize" THEN "res_rmw" ELSE lv[c].ret)
    /\ UNCHANGED <<SIDE, Q, root, lv, ip, ev, RUN, rc, pred, GH>>


(* =================== C17: retain / release / dispose (src/object.c) =================== *)
OLD == <<st, SIDE, Q, root, ip, ev, RUN, pred, GH>>       \* everything of Lane.tla except pc, lv, rc
\* client API entry for the reference operations (the client must hold a reference to call any API)
StartRef(c) ==
    /\ pc[c] = "idle" /\ ip[c] <= Len(Prog[c]) /\ Prog[c][ip[c]].op \notin LaneOps
    /\ LET o == Prog[c][ip[c]] IN
       CASE o.op = "retain"   -> Go(c, "xret") /\ lv' = [lv EXCEPT ![c] = [L0 EXCEPT !.xret = "ret", !.xc = c]]
         [] o.op = "release"  -> Go(c, "xrel") /\ lv' = [lv EXCEPT ![c] = [L0 EXCEPT !.xret = "ret", !.xc = c]]
         [] o.op = "setctx"   -> Go(c, "setctx") /\ lv' = [lv EXCEPT ![c] = [L0 EXCEPT !.cctx = o.v]]
         [] o.op = "relchild" -> Go(c, "ch_free") /\ lv' = [lv EXCEPT ![c] = L0]
         [] o.op = "retarget" -> Go(c, "rt_retain") /\ lv' = [lv EXCEPT ![c] = [L0 EXCEPT !.item = o.i, !.ret = "ret"]]
         [] o.op = "reltq"    -> Go(c, "tq_rel") /\ lv' = [lv EXCEPT ![c] = L0]
    /\ UNCHANGED <<OLD, rc, RF>>
(* ---- dispatch_set_target_queue on the active lane: _dispatch_lane_set_target_queue (legacy retarget) ---- *)
\* _dispatch_retain(tq) (effect on TQ in TqStep), then _dispatch_barrier_trysync_or_async_f
RtRetain(c) == /\ pc[c] = "rt_retain" /\ Go(c, "rt_try") /\ UNCHANGED <<OLD, rc, lv, RF>>
\* _dispatch_queue_try_acquire_barrier_sync_and_suspend(dq, tid, 1); success: _dispatch_retain_2(dq) (see _dispatch_lane_suspend);
\* failure: _dispatch_barrier_async_detached_f(dq, tq, func) = an ordinary push of the barrier item
RtTry(c) == /\ pc[c] = "rt_try"
            /\ LET r == TryAcquireBarrierSync(st, Self(c), 1) IN
               IF r.ok THEN st' = r.s /\ rc' = rc + 2 /\ Go(c, "rt_cb") ELSE st' = st /\ rc' = rc /\ Go(c, "push_tail")
            /\ UNCHANGED <<SIDE, Q, root, lv, ip, ev, RUN, pred, GH, RF>>
\* _dispatch_barrier_trysync_or_async_f_complete: the callback runs inline (effect on TQ in TqStep)
RtCb(c) == /\ pc[c] = "rt_cb" /\ Go(c, "rt_unsusp")
           /\ runCount' = [runCount EXCEPT ![lv[c].item] = @ + 1] /\ done' = done \cup {lv[c].item} /\ running' = running
           /\ UNCHANGED <<st, SIDE, Q, root, lv, ip, ev, pred, GH, rc, RF>>
\* dq_state -= SUSPEND_INTERVAL; not suspended any more: CONSUME_2; dx_wakeup(dq, 0, BARRIER_COMPLETE [| CONSUME_2])
RtUnsusp(c) == /\ pc[c] = "rt_unsusp"
               /\ st' = [st EXCEPT !.sc = @ - 1]
               /\ lv' = [lv EXCEPT ![c].fl2 = ~Suspended([st EXCEPT !.sc = @ - 1]), ![c].qos = 0, ![c].ret = "ret"]
               /\ Go(c, "bc_tail")
               /\ UNCHANGED <<SIDE, Q, root, ip, ev, RUN, pred, GH, rc, RF>>
\* dispatch_release(TQ) by the application (effect on TQ in TqStep)
TqRel(c) == /\ pc[c] = "tq_rel" /\ Go(c, "ret") /\ UNCHANGED <<OLD, rc, lv, RF>>
\* what a step does to TQ: retain before the hand-off (or, spec mutant, only in the callback), the callback
\* _dispatch_lane_legacy_set_target_queue (inline or as the barrier item), the application's release, and the release of
\* the lane's target at the end of the lane's _dispatch_dispose
TqTouch(t) == tuaf' = IF tuaf = "" /\ tdisposed THEN pc[t] ELSE tuaf
TqCallback(t) == /\ tgtq' = TRUE /\ rtPending' = FALSE /\ tgtReleased' = tgtReleased /\ tdisposed' = tdisposed
                 /\ trc' = IF Mut = "retarget_retains_late" THEN trc + 1 ELSE trc
                 /\ TqTouch(t)            \* priority / wlh inheritance reads the new target
TqDrop(t) == /\ trc' = trc - 1 /\ tdisposed' = (tdisposed \/ trc - 1 = -1) /\ TqTouch(t)
TqStep(t) ==
    CASE pc[t] = "rt_retain" -> /\ trc' = IF Mut = "retarget_retains_late" THEN trc ELSE trc + 1
                                /\ rtPending' = TRUE /\ (IF Mut = "retarget_retains_late" THEN tuaf' = tuaf ELSE TqTouch(t))
                                /\ UNCHANGED <<tdisposed, tgtq, tgtReleased>>
      [] pc[t] = "rt_cb" -> TqCallback(t)
      [] pc[t] = "call" /\ Body[lv[t].dc] = "retarget" -> TqCallback(t)
      [] pc[t] = "tq_rel" -> TqDrop(t) /\ UNCHANGED <<tgtq, rtPending, tgtReleased>>
      [] pc[t] = "disp_free" /\ tgtq -> TqDrop(t) /\ tgtReleased' = TRUE /\ UNCHANGED <<tgtq, rtPending>>
      [] OTHER -> UNCHANGED TQV
\* dispatch_set_context: plain store to do_ctxt
SetCtx(c) == /\ pc[c] = "setctx" /\ ctx' = lv[c].cctx /\ Go(c, "ret")
             /\ UNCHANGED <<OLD, rc, lv, xref, held, childAlive, disposed, finRuns, specRuns>>
\* dispatch_retain -> _os_object_retain: xref_cnt = inc_orig; < 0: "Resurrection of an object"
XRet(t) == /\ pc[t] = "xret"
           /\ LET r == XRetain(xref) IN
              /\ xref' = r.x /\ held' = [held EXCEPT ![lv[t].xc] = @ + 1]
              /\ Go(t, IF r.ok THEN lv[t].xret ELSE "crash")
           /\ UNCHANGED <<OLD, rc, lv, ctx, childAlive, disposed, finRuns, specRuns>>
\* dispatch_release -> _os_object_release: xref_cnt = dec; >= 0: return; < -1: "Over-release"; else _os_object_xref_dispose
XRel(t) == /\ pc[t] = "xrel"
           /\ LET r == XRelease(xref) IN
              /\ xref' = r.x /\ held' = [held EXCEPT ![lv[t].xc] = @ - 1]
              /\ Go(t, CASE r.kind = "live" -> lv[t].xret [] r.kind = "xdispose" -> "xd_state" [] OTHER -> "crash")
           /\ UNCHANGED <<OLD, rc, lv, ctx, childAlive, disposed, finRuns, specRuns>>
\* _dispatch_xref_dispose -> _dispatch_queue_xref_dispose: load dq_state; suspended / inactive: DISPATCH_CLIENT_CRASH
\* (documented misuse: "Release of a suspended object"); else DQF_RELEASED
XdState(t) == /\ pc[t] = "xd_state"
              /\ Go(t, IF Suspended(st) THEN "client_crash" ELSE "xd_rel")
              \* spec mutant: the finalizer is submitted whenever the external count drops to -1
              /\ root' = IF Mut = "fin_on_xref_drop" /\ ctx # 0 THEN Append(root, FinEntry(ctx)) ELSE root
              /\ UNCHANGED <<st, SIDE, Q, ip, ev, RUN, pred, GH, rc, lv, RF>>
\* ... return _dispatch_release_tailcall(dou._os_obj): the external count's internal reference
XdRel(t) == /\ pc[t] = "xd_rel"
            /\ IF Mut = "xref_dispose_frees"       \* spec mutant: dispose without waiting for the internal references
                 THEN rc' = rc /\ Go(t, "disp_read") /\ lv' = [lv EXCEPT ![t].dret = lv[t].xret]
                 ELSE Rel(t, 1, lv[t].xret, lv[t])
            /\ UNCHANGED <<OLD, RF>>
\* _dispatch_dispose: tq = do_targetq; func = finalizer; ctxt = do_ctxt  (the context current at THAT time)
DispRead(t) == /\ pc[t] = "disp_read" /\ lv' = [lv EXCEPT ![t].cctx = ctx] /\ Go(t, "disp_state")
               /\ UNCHANGED <<OLD, rc, RF>>
\* dx_dispose -> _dispatch_lane_class_dispose: dq_state must be the initial value modulo MAX_QOS | DIRTY | role:
\* "Release of a locked queue" / "Release of a queue with corrupt state"
DispState(t) == /\ pc[t] = "disp_state"
                /\ Go(t, IF [st EXCEPT !.qos = 0, !.dirty = FALSE] = Idle0 THEN "disp_tail" ELSE "crash")
                /\ UNCHANGED <<OLD, rc, lv, RF>>
\* "Release of a queue while items are enqueued"
DispTail(t) == /\ pc[t] = "disp_tail" /\ Go(t, IF tail = NULL THEN "disp_spec" ELSE "crash")
               /\ UNCHANGED <<OLD, rc, lv, RF>>
\* _dispatch_queue_dispose: dqsh = xchg(dq_specific_head, 0x200); _dispatch_queue_specific_head_dispose:
\* every destructor is dispatch_async_f'd on a root queue
DispSpec(t) == /\ pc[t] = "disp_spec" /\ root' = Append(root, "spec") /\ Go(t, "disp_free")
               /\ UNCHANGED <<st, SIDE, Q, ip, ev, RUN, pred, GH, rc, lv, RF>>
\* _dispatch_object_dealloc; if (func && ctxt) dispatch_async_f(tq, ctxt, func); _dispatch_release_tailcall(tq) (a root queue: global)
DispFree(t) == /\ pc[t] = "disp_free" /\ disposed' = TRUE
               /\ root' = IF lv[t].cctx # 0 /\ Mut # "fin_on_xref_drop" THEN Append(root, FinEntry(lv[t].cctx)) ELSE root
               /\ Go(t, lv[t].dret)
               /\ UNCHANGED <<st, SIDE, Q, ip, ev, RUN, pred, GH, rc, lv, xref, held, ctx, childAlive, finRuns, specRuns>>
\* the child queue's own _dispatch_dispose (it is idle and unreferenced): dealloc, then release of ITS target = the lane
ChFree(c) == /\ pc[c] = "ch_free" /\ childAlive /\ childAlive' = FALSE /\ Go(c, "ch_reltq")
             /\ UNCHANGED <<OLD, rc, lv, xref, held, ctx, disposed, finRuns, specRuns>>
ChRelTq(c) == /\ pc[c] = "ch_reltq" /\ Rel(c, 1, "ret", lv[c]) /\ UNCHANGED <<OLD, RF>>
\* the finalizer and the queue-specific destructor, on a worker of the (root) target queue
FinCall(w) == /\ pc[w] = "fin_call" /\ finRuns' = Append(finRuns, lv[w].cctx) /\ Go(w, "idle")
              /\ UNCHANGED <<OLD, rc, lv, xref, held, ctx, childAlive, disposed, specRuns>>
SpecCall(w) == /\ pc[w] = "spec_call" /\ specRuns' = specRuns + 1 /\ Go(w, "idle")
               /\ UNCHANGED <<OLD, rc, lv, xref, held, ctx, childAlive, disposed, finRuns>>
RefStep(t) == \/ (t \in Clients /\ (StartRef(t) \/ SetCtx(t) \/ ChFree(t) \/ ChRelTq(t) \/ RtRetain(t) \/ RtTry(t) \/ RtCb(t) \/ RtUnsusp(t) \/ TqRel(t)))
              \/ (t \in Workers /\ (FinCall(t) \/ SpecCall(t)))
              \/ XRet(t) \/ XRel(t) \/ XdState(t) \/ XdRel(t) \/ DispRead(t) \/ DispState(t) \/ DispTail(t) \/ DispSpec(t) \/ DispFree(t)

(* ================================ next-state ================================ *)
ClientStep(t) ==
    \/ Start(t) \/ Return(t) \/ CPushTail(t) \/ CPushAcq(t) \/ RsTail(t) \/ RsFast(t) \/ BsTail(t) \/ BsFast(t)
    \/ PwRmw(t) \/ WaitEvent(t) \/ SyncDone(t) \/ BsuTail(t) \/ BsuRmw(t)
    \/ SuspRmw(t) \/ SuspLock(t) \/ SuspSlow(t) \/ ResRmw(t) \/ ResLock(t) \/ ResSlow(t) \/ ActRmw(t)
    \/ CallStart(t, "sync_call", "sync_call_end", lv[t].item) \/ CallEnd(t, "sync_call_end", "sync_done", lv[t].item)
WorkerStep(t) ==
    \/ RootPop(t) \/ TryLock(t) \/ WRelease(t) \/ DrTail0(t) \/ DrHead(t) \/ DrSusp(t) \/ DrItem(t) \/ Upgrade(t) \/ DropIb(t) \/ AcqW(t)
    \/ Popped(t) \/ DrNext(t) \/ Unlock(t) \/ UnlockWait(t) \/ DrOutDc(t) \/ FinBw(t) \/ RdDone(t)
    \/ Pop1(t, "pop1", "pop2") \/ Pop2(t, "pop2", "popped", "pop3") \/ Pop3(t, "pop3", "popped")
    \/ CallStart(t, "call", "call_end", lv[t].dc) \/ CallEnd(t, "call_end", "dr_next", lv[t].dc)
    \/ CallStart(t, "rd_call", "rd_call_end", lv[t].dc) \/ CallEnd(t, "rd_call_end", "rd_done", lv[t].dc)
SharedStep(t) ==
    \/ PushTail(t) \/ PushOvr(t) \/ PushPrev(t) \/ PushRetainLate(t) \/ WkProbe(t) \/ WkRmw(t) \/ WkRelease(t)
    \/ NbcRmw(t) \/ NbcFin(t) \/ BwRmw(t) \/ BwWake(t) \/ BcTail(t) \/ BcSusp(t) \/ BcHead(t) \/ BcRmwTq(t) \/ BcRmwNone(t)
    \/ DnbDropIb(t) \/ DnbItem(t) \/ DnbPopped(t) \/ DnbRmw(t) \/ DnbAgain(t)
    \/ Pop1(t, "bw_pop1", "bw_pop2") \/ Pop2(t, "bw_pop2", "bw_rmw", "bw_pop3") \/ Pop3(t, "bw_pop3", "bw_rmw")
    \/ Pop1(t, "dnb_pop1", "dnb_pop2") \/ Pop2(t, "dnb_pop2", "dnb_popped", "dnb_pop3") \/ Pop3(t, "dnb_pop3", "dnb_popped")
LaneStep(t) == (t \in Clients /\ ClientStep(t)) \/ (t \in Workers /\ WorkerStep(t)) \/ SharedStep(t)
\* control points whose next step does not touch the lane's memory
SafePcs == {"idle", "ret", "call_end", "rd_call_end", "sync_call_end", "fin_call", "spec_call", "crash", "client_crash",
            "ch_free", "wait_event", "rt_retain", "tq_rel"}
Touches(t) == /\ pc[t] \notin SafePcs
              /\ ~(pc[t] \in {"call", "rd_call"} /\ Body[lv[t].dc] = "none")
              /\ ~(pc[t] = "sync_call" /\ Body[lv[t].item] = "none")
\* rest points: the thread is outside the library (API return, inside / between client callouts)
RestPcs == {"idle", "ret", "call", "call_end", "rd_call", "rd_call_end", "sync_call", "sync_call_end", "fin_call", "spec_call",
            "crash", "client_crash"}
Redirected(rt) == Cardinality({k \in 1..Len(rt) : rt[k] \in Items})
\* references owned by roles rather than by a thread's hand
Roles(x, ch, s) == XRole(x) + (IF ch THEN 1 ELSE 0) + RoleRefs(s)
Step(t) ==
    /\ (LaneStep(t) /\ UNCHANGED RF) \/ RefStep(t)
    /\ TqStep(t)
    /\ uaf' = IF uaf = "" /\ disposed /\ Touches(t) THEN pc[t] ELSE uaf
    \* the ledger: what t retained / released, took over from or handed to a role bit, the external count, a targeter
    \* a redirected item handed to the root queue carries the +2 of _dispatch_async_redirect_wrap with it
    /\ LET wrapped == IF Redirected(root') > Redirected(root) THEN 2 * (Redirected(root') - Redirected(root)) ELSE 0
           raw == hand[t] + (rc' - rc) + (Roles(xref, childAlive, st) - Roles(xref', childAlive', st')) - wrapped
           s == Settle(raw, parked + wrapped, pc'[t] \in RestPcs) IN
       /\ hand' = [hand EXCEPT ![t] = s.hand] /\ parked' = s.parked
Next == \E t \in Threads : Step(t)
Spec == Init /\ [][Next]_vars
FairSpec == Spec /\ \A t \in Threads : WF_vars(Step(t))

(* ================================ properties ================================ *)
(* the lane invariants of Lane.tla (C01 - C06) are kept: the extension must not disturb the lane machine;
   the C17 properties follow below *)
AllSubmitted == \A c \in Clients : ip[c] > Len(Prog[c])
Quiescent == (\A t \in Threads : pc[t] = "idle") /\ root = <<>>
IdleModQos(s) == [s EXCEPT !.qos = 0, !.dirty = FALSE] = Idle0

\* C01: exactly once
AtMostOnce == \A i \in Items : runCount[i] <= 1
\* C01: nothing stranded: when everything is quiet, every accepted item has run, the word is idle, lists empty
NoStrand == (Quiescent /\ AllSubmitted /\ ~Suspended(st) /\ ~disposed) =>
               (done = Items /\ IdleModQos(st) /\ tail = NULL /\ head = NULL /\ rc + 1 = Roles(xref, childAlive, st))
\* C01: the asynchronous forms never wait for another thread: inside an async submission some step is always enabled
AsyncPcs == {"cpush_tail", "cpush_acq", "push_tail", "push_ovr", "push_prev", "wk_probe", "wk_rmw", "wk_release"}
AsyncNeverBlocks == \A c \in Clients : (pc[c] \in AsyncPcs /\ ~IsWaiter(lv[c].item)) => ENABLED Step(c)
\* C02 / C04: barrier items (all items of a serial lane) overlap nothing
BarrierExcl == \A i \in running : IsBarrier(i) => running = {i}
\* C02 FIFO / C04 ordering: if a's submission returned before b's began and one of them is a barrier, a is done when b starts
Order == \A b \in running \cup done : \A a \in pred[b] : (IsBarrier(a) \/ IsBarrier(b)) => a \in done
\* C05(a): a synchronous submission returns only after its item finished
SyncAfterEnd == \A c \in Clients : \A k \in 1..(ip[c] - 1) :
                   ("i" \in DOMAIN Prog[c][k] /\ IsWaiter(Prog[c][k].i)) => Prog[c][k].i \in done
\* width accounting never borrows / overflows (the same conditions _dispatch_lane_class_dispose crashes on)
WidthOK == st.used >= 0 /\ st.used <= 2 * W + Cardinality({i \in Items : IsWaiter(i)})   \* sync readers do not observe the limit
\* C06: nothing starts while suspended from the lane's own context, before activation;
\*      a suspend from another thread lets at most one more (serial) item start
SuspendedRunsNothing == bad = ""
StartWhileSusp == (W = 1) => lateStarts <= 1
NoCrash == \A t \in Threads : pc[t] # "crash"
\* C06: N suspends need N resumes: the counters always add up
SuspCount == (\A t \in Threads : pc[t] \notin {"susp_rmw", "susp_lock", "susp_slow", "res_rmw", "res_lock", "res_slow", "act_rmw"})
                => st.sc + sideCnt = susp
\* liveness (C01, C06): everything submitted eventually runs when the queue ends up resumed and active
Live == <>(done = Items)

(* ------------------------------------ C17 ------------------------------------ *)
Submitted == UNION {{Prog[c][k].i : k \in {j \in 1..Len(Prog[c]) : "i" \in DOMAIN Prog[c][j]
                                              /\ (j < ip[c] \/ (j = ip[c] /\ pc[c] # "idle"))}} : c \in Clients}
HeldTotal == LET S[C \in SUBSET Clients] == IF C = {} THEN 0 ELSE LET c == CHOOSE x \in C : TRUE IN held[c] + S[C \ {c}]
             IN S[Clients]
DispPcs == {"disp_read", "disp_state", "disp_tail", "disp_spec", "disp_free"}
Disposing == disposed \/ \E t \in Threads : pc[t] \in DispPcs
\* never deallocated while the application holds a reference, while items submitted to it are pending or running,
\* or while another object targets it
NoDisposeWhileBusy == Disposing => (HeldTotal = 0 /\ xref = -1 /\ Submitted \subseteq done /\ running = {} /\ ~childAlive)
\* ... so using it through a held reference is always memory-safe: no step touches released memory
NoUseAfterDispose == uaf = ""
\* dispose only at ref = -1 (and then exactly once)
DisposeOnlyAtMinusOne == (Disposing => rc = -1) /\ Cardinality({t \in Threads : pc[t] \in DispPcs}) <= 1
                         /\ ~(disposed /\ \E t \in Threads : pc[t] \in DispPcs)
\* the C counter never goes below what the live roles own (no role without its reference)
HandOf == LET S[T \in SUBSET Threads] == IF T = {} THEN 0 ELSE LET t == CHOOSE x \in T : TRUE IN hand[t] + S[T \ {t}]
          IN S[Threads]
Conservation == rc + 1 = Roles(xref, childAlive, st) + parked + HandOf          \* by construction of the ledger
\* inside the library a thread may owe at most the +2 it is about to take (retain after the state change:
\* _dispatch_lane_non_barrier_complete_finish, _dispatch_lane_suspend); at rest it owes and holds nothing
LedgerRest == \A t \in Threads : (pc[t] \in RestPcs => hand[t] = 0) /\ hand[t] >= -2
\* the item is not dequeuable before the first pusher holds the +2 it will hand to the wakeup
PushHoldsRef == \A t \in Threads : (pc[t] = "push_prev" /\ lv[t].cons2 /\ lv[t].prev = NULL) => hand[t] >= 2
\* references parked with redirected items: none on a serial lane, 2 per outstanding redirected reader otherwise
ParkedOK == parked >= 0 /\ (W = 1 => parked = 0)
            /\ parked <= 2 * Cardinality({i \in Items : Kind[i] = "ra" /\ i \in Submitted /\ i \notin done})
                          + 2 * Cardinality({w \in Workers : pc[w] # "idle"})
\* finalizer: at most once, after the last reference was dropped AND the pending work finished, with the context of that time
AllReleased == HeldTotal = 0 /\ ~childAlive
FinalizerOK == /\ Len(finRuns) <= 1 /\ specRuns <= 1
               /\ (finRuns # <<>> \/ specRuns > 0) => (Disposing /\ AllReleased /\ Submitted \subseteq done /\ running = {})
               /\ finRuns # <<>> => disposed         \* the destructors are submitted just before, the finalizer just after the dealloc
               /\ finRuns # <<>> => finRuns[1] = ctx
\* ... exactly once, and the memory is released: checked when everything is quiet (no leak)
NoLeak == (Quiescent /\ AllSubmitted /\ AllReleased) =>
             (disposed /\ done = Items /\ specRuns = 1 /\ finRuns = (IF ctx = 0 THEN <<>> ELSE <<ctx>>)
              /\ parked = 0 /\ \A t \in Threads : hand[t] = 0)
\* another object (the lane) targets TQ, or is about to: TQ is not deallocated meanwhile, and nothing touches it afterwards
TqNeeded == ~disposed /\ (rtPending \/ (tgtq /\ ~tgtReleased))
NoDisposeWhileTargeted == ~(tdisposed /\ (TqNeeded \/ (tgtq /\ ~tgtReleased))) /\ tuaf = "" /\ trc >= -1
\* ... and it is released once nothing needs it (no leak of the target)
TqNoLeak == (Quiescent /\ AllSubmitted /\ disposed /\ \E c \in Clients : \E k \in 1..Len(Prog[c]) : Prog[c][k].op = "reltq") => tdisposed
\* legal client programs never reach the documented misuse crashes
NoClientCrash == \A t \in Threads : pc[t] # "client_crash"
\* liveness: after the last release and the end of the pending work the object is eventually disposed and finalised
EventuallyDisposed == <>(disposed /\ done = Items /\ specRuns = 1 /\ finRuns = (IF ctx = 0 THEN <<>> ELSE <<ctx>>))
=============================================================================
