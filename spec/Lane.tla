-------------------------------- MODULE Lane --------------------------------
(* One dispatch lane (serial when W = 1, concurrent of width W otherwise) targeting an
   abstract root queue, transcribed from src/queue.c and src/inline_internal.h with ONE
   ACTION PER SHARED-MEMORY ACCESS (dq_state RMW loops through DQState.tla, the MPSC item
   list in its separate steps, plain reads of dq_items_tail as their own steps).
   Clients run programs of API calls; Workers are the root queue's pool threads.

   API calls (Prog entries are records):
     [op |-> "async",  i]   dispatch_async                 (non-barrier item)
     [op |-> "basync", i]   dispatch_barrier_async
     [op |-> "sync",   i]   dispatch_sync
     [op |-> "bsync",  i]   dispatch_barrier_sync
     [op |-> "aaw",    i]   dispatch_async_and_wait / dispatch_barrier_async_and_wait (Kind "rw" / "bw"): on a lane
                            anchored at a default root queue it takes the synchronous paths on the calling thread
                            (_dispatch_async_and_wait_recurse), but always completes through _dispatch_sync_complete_recurse
                            (barrier_complete / non_barrier_complete), never through the cheap serial unlock
     [op |-> "suspend"] / [op |-> "resume"] / [op |-> "activate"]
   Item bodies may call dispatch_suspend on the lane (Body[i] = "suspend").

   Decides (within the configured bounds): C01 exactly-once / no strand / async never
   blocks / sync returns; C02 serial exclusion + FIFO; C04 barrier exclusion + order;
   C05(a) sync returns after the item ended; C06 suspend / resume / activate; C17 the +2
   reference ledger of the lane. *)
EXTENDS DQState, Sequences, FiniteSets

CONSTANTS Clients, Workers, Items, Kind, Body, Prog,
          InitInactive,     \* lane created with dispatch_queue_attr_make_initially_inactive
          TailCheckFix,     \* TRUE: barrier-sync fast path checks dq_items_tail first (repair of F1)
          Mut               \* "none" or the name of a spec mutation (non-vacuity)

LANE == "lane"
Threads == Clients \cup Workers

VARIABLES st,              \* dq_state (DQState record)
          sideCnt, sideLock,  \* dq_side_suspend_cnt and its unfair lock (holder or NULL)
          head, tail, nxt,  \* dq_items_head / dq_items_tail / do_next of items
          root,             \* abstract root queue: sequence of LANE / redirected items (popped in any order)
          pc, lv, ip,       \* per thread: control point, locals ; per client: program index
          ev,               \* per sync item: thread event signalled
          running, runCount, done,
          ref,              \* ghost: internal (+2) references held on the lane
          pred,             \* ghost: items whose submission had returned when this item's submission began
          susp,             \* ghost: suspend calls returned minus resume calls started (own + foreign)
          ownSusp,          \* ghost: suspensions made from the lane's own context (item body), not yet resumed
          lateStarts,       \* ghost: items started since `susp` last became positive through a foreign suspend
          activated,        \* ghost: dispatch_activate has been called
          bad               \* ghost: "" or the name of a C06 violation observed at an item start
vars == <<st, sideCnt, sideLock, head, tail, nxt, root, pc, lv, ip, ev, running, runCount, done, ref, pred,
          susp, ownSusp, lateStarts, activated, bad>>

IsBarrier(i) == Kind[i] \in {"ba", "bs", "bw"} \/ W = 1      \* everything is a barrier on a serial lane
IsWaiter(i) == Kind[i] \in {"rs", "bs", "rw", "bw"}
L0 == [dc |-> NULL, n |-> NULL, prev |-> NULL, item |-> NULL, owned |-> Owned0, cons2 |-> FALSE, mkdirty |-> FALSE,
       mode |-> "none", ow |-> 0, ret |-> "none", old |-> Idle0, new |-> Idle0, fl2 |-> FALSE, qos |-> 0, act |-> FALSE]

Init == /\ st = IF InitInactive THEN InactiveInit ELSE Idle0
        /\ sideCnt = 0 /\ sideLock = NULL
        /\ head = NULL /\ tail = NULL /\ nxt = [i \in Items |-> NULL]
        /\ root = <<>> /\ pc = [t \in Threads |-> "idle"] /\ lv = [t \in Threads |-> L0]
        /\ ip = [c \in Clients |-> 1] /\ ev = [i \in Items |-> 0]
        /\ running = {} /\ runCount = [i \in Items |-> 0] /\ done = {}
        /\ ref = IF InitInactive THEN 2 ELSE 0
        /\ pred = [i \in Items |-> {}]
        /\ susp = 0 /\ ownSusp = 0 /\ lateStarts = 0 /\ activated = ~InitInactive /\ bad = ""

Go(t, l) == pc' = [pc EXCEPT ![t] = l]
SetL(t, f, v) == lv' = [lv EXCEPT ![t][f] = v]
Returned == UNION {{Prog[c][k].i : k \in {j \in 1..(ip[c] - 1) : "i" \in DOMAIN Prog[c][j]}} : c \in Clients}
Self(t) == t
GH == <<susp, ownSusp, lateStarts, activated, bad>>     \* suspension ghosts
ClientOf(i) == CHOOSE c \in Clients : \E k \in 1..Len(Prog[c]) : "i" \in DOMAIN Prog[c][k] /\ Prog[c][k].i = i
Q == <<head, tail, nxt>>
RUN == <<running, runCount, done>>
SIDE == <<sideCnt, sideLock>>

(* ======================= client API entry / exit ======================= *)
Start(c) ==
    /\ pc[c] = "idle" /\ ip[c] <= Len(Prog[c])
    /\ LET o == Prog[c][ip[c]] IN
       CASE o.op \in {"async", "basync", "sync", "bsync", "aaw"} ->
              /\ lv' = [lv EXCEPT ![c] = [L0 EXCEPT !.item = o.i, !.ret = "ret"]]
              /\ pred' = [pred EXCEPT ![o.i] = Returned]
              /\ Go(c, CASE Kind[o.i] = "ra" -> IF W = 1 THEN "push_tail" ELSE "cpush_tail"
                         [] Kind[o.i] = "ba" -> "push_tail"
                         [] Kind[o.i] \in {"rs", "rw"} -> IF W = 1 THEN (IF TailCheckFix THEN "bs_tail" ELSE "bs_fast") ELSE "rs_tail"
                         [] Kind[o.i] \in {"bs", "bw"} -> IF TailCheckFix THEN "bs_tail" ELSE "bs_fast")
              /\ UNCHANGED <<GH>>
         [] o.op = "suspend" -> /\ lv' = [lv EXCEPT ![c] = [L0 EXCEPT !.ret = "ret"]] /\ Go(c, "susp_rmw") /\ UNCHANGED <<pred, GH>>
         [] o.op = "resume"  -> /\ ("after" \in DOMAIN o => o.after \in running \cup done)   \* client waits for the suspending item
                                /\ lv' = [lv EXCEPT ![c] = [L0 EXCEPT !.ret = "ret"]] /\ Go(c, "res_rmw") /\ pred' = pred
                                /\ susp' = susp - 1 /\ ownSusp' = IF ownSusp > 0 /\ susp = ownSusp THEN ownSusp - 1 ELSE ownSusp
                                /\ lateStarts' = (IF susp = 1 THEN 0 ELSE lateStarts) /\ activated' = activated /\ bad' = bad
         [] o.op = "activate" -> /\ lv' = [lv EXCEPT ![c] = [L0 EXCEPT !.ret = "ret"]] /\ Go(c, "act_rmw") /\ pred' = pred
                                 /\ activated' = TRUE /\ UNCHANGED <<susp, ownSusp, lateStarts, bad>>
    /\ UNCHANGED <<st, SIDE, Q, root, ip, ev, RUN, ref>>
Return(c) == /\ pc[c] = "ret" /\ Go(c, "idle") /\ ip' = [ip EXCEPT ![c] = @ + 1]
             /\ UNCHANGED <<st, SIDE, Q, root, lv, ev, RUN, ref, pred, GH>>

(* ============ _dispatch_lane_concurrent_push: fast path for async readers ============ *)
CPushTail(c) == /\ pc[c] = "cpush_tail" /\ Go(c, IF tail = NULL THEN "cpush_acq" ELSE "push_tail")
                /\ UNCHANGED <<st, SIDE, Q, root, lv, ip, ev, RUN, ref, pred, GH>>
CPushAcq(c) == /\ pc[c] = "cpush_acq"
               /\ LET r == TryAcquireAsync(st) IN
                  IF r.ok THEN /\ st' = r.s /\ root' = Append(root, lv[c].item) /\ ref' = ref + 2 /\ Go(c, "ret")
                          ELSE /\ st' = st /\ root' = root /\ ref' = ref /\ Go(c, "push_tail")
               /\ UNCHANGED <<SIDE, Q, lv, ip, ev, RUN, pred, GH>>

(* ============================ _dispatch_lane_push ============================ *)
PushTail(t) ==
    /\ pc[t] = "push_tail"
    /\ LET i == lv[t].item  w == IsWaiter(i) IN
       /\ tail' = i
       /\ lv' = [lv EXCEPT ![t].prev = tail, ![t].cons2 = (tail = NULL /\ ~w), ![t].mkdirty = (tail = NULL /\ ~w)]
       /\ ref' = IF tail = NULL /\ ~w THEN ref + 2 ELSE ref
       /\ Go(t, IF tail # NULL /\ ~w THEN "push_ovr" ELSE "push_prev")
    /\ UNCHANGED <<st, SIDE, head, nxt, root, ip, ev, RUN, pred, GH>>
\* _dispatch_queue_need_override: plain read of the max_qos bits (push qos is 0 on this build)
PushOvr(t) == /\ pc[t] = "push_ovr"
              /\ IF st.qos = 0 THEN lv' = [lv EXCEPT ![t].cons2 = TRUE] /\ ref' = ref + 2 ELSE lv' = lv /\ ref' = ref
              /\ Go(t, "push_prev")
              /\ UNCHANGED <<st, SIDE, Q, root, ip, ev, RUN, pred, GH>>
PushPrev(t) ==
    /\ pc[t] = "push_prev"
    /\ LET i == lv[t].item p == lv[t].prev IN
       /\ IF p = NULL THEN head' = i /\ nxt' = nxt ELSE nxt' = [nxt EXCEPT ![p] = i] /\ head' = head
       /\ Go(t, IF ~IsWaiter(i) THEN (IF lv[t].cons2 THEN "wk_probe" ELSE "ret")
                ELSE IF p # NULL THEN "wait_event" ELSE "pw_rmw")
    /\ UNCHANGED <<st, SIDE, tail, root, lv, ip, ev, RUN, ref, pred, GH>>

(* ================= _dispatch_lane_wakeup / _dispatch_queue_wakeup ================= *)
\* lv.fl2 = CONSUME_2 held by this wakeup, lv.mkdirty = MAKE_DIRTY, lv.ret = continuation
WkProbe(t) == /\ pc[t] = "wk_probe" /\ Go(t, IF tail # NULL THEN "wk_rmw" ELSE "wk_release")
              /\ UNCHANGED <<st, SIDE, Q, root, lv, ip, ev, RUN, ref, pred, GH>>
WkRmw(t) ==
    /\ pc[t] = "wk_rmw"
    /\ LET r == Wakeup(st, lv[t].mkdirty) IN
       /\ st' = IF r.changed THEN r.s ELSE st
       /\ root' = IF r.changed /\ r.push THEN Append(root, LANE) ELSE root
       /\ Go(t, IF r.changed /\ r.push THEN lv[t].ret ELSE "wk_release")
    /\ UNCHANGED <<SIDE, Q, lv, ip, ev, RUN, ref, pred, GH>>
WkRelease(t) == /\ pc[t] = "wk_release" /\ ref' = ref - 2 /\ Go(t, lv[t].ret)
                /\ UNCHANGED <<st, SIDE, Q, root, lv, ip, ev, RUN, pred, GH>>

(* ===================== worker: root queue pop (any element) ===================== *)
RootPop(w) ==
    /\ pc[w] = "idle" /\ w \in Workers /\ Len(root) > 0
    /\ \E k \in 1..Len(root) :
         /\ root' = [j \in 1..(Len(root) - 1) |-> IF j < k THEN root[j] ELSE root[j + 1]]
         /\ IF root[k] = LANE THEN lv' = [lv EXCEPT ![w] = [L0 EXCEPT !.ret = "idle"]] /\ Go(w, "try_lock")
            ELSE lv' = [lv EXCEPT ![w] = [L0 EXCEPT !.dc = root[k], !.ret = "idle"]] /\ Go(w, "rd_call")
    /\ UNCHANGED <<st, SIDE, Q, ip, ev, RUN, ref, pred, GH>>

(* ============================ running an item ============================ *)
\* the client callout; a body may call dispatch_suspend(lane) (inline RMW, sc never overflows in bodies)
CallStart(t, here, cont, it) ==
    /\ pc[t] = here
    /\ running' = running \cup {it} /\ runCount' = [runCount EXCEPT ![it] = @ + 1] /\ done' = done
    /\ lateStarts' = IF susp > 0 /\ ownSusp = 0 THEN lateStarts + 1 ELSE lateStarts
    /\ bad' = IF ownSusp > 0 THEN "start-while-suspended-from-own-context"
              ELSE IF ~activated THEN "start-before-activate" ELSE bad
    /\ IF Body[it] = "suspend"
         THEN /\ st' = [st EXCEPT !.sc = @ + 1] /\ ref' = IF Suspended(st) THEN ref ELSE ref + 2
              /\ susp' = susp + 1 /\ ownSusp' = ownSusp + 1
         ELSE UNCHANGED <<st, ref, susp, ownSusp>>
    /\ Go(t, cont)
    /\ UNCHANGED <<SIDE, Q, root, lv, ip, ev, pred, activated>>
CallEnd(t, here, cont, it) ==
    /\ pc[t] = here /\ running' = running \ {it} /\ done' = done \cup {it} /\ runCount' = runCount /\ Go(t, cont)
    /\ UNCHANGED <<st, SIDE, Q, root, lv, ip, ev, ref, pred, GH>>

(* ================= _dispatch_lane_non_barrier_complete (+ _finish) ================= *)
NbcRmw(t) ==
    /\ pc[t] = "nbc_rmw"
    /\ LET n == NonBarrierComplete(st, Self(t)) IN
       /\ st' = n /\ lv' = [lv EXCEPT ![t].old = st, ![t].new = n] /\ Go(t, "nbc_fin")
    /\ UNCHANGED <<SIDE, Q, root, ip, ev, RUN, ref, pred, GH>>
NbcFin(t) ==
    /\ pc[t] = "nbc_fin"
    /\ LET o == lv[t].old n == lv[t].new IN
       IF o.ib # n.ib THEN /\ Go(t, "bc_tail") /\ root' = root /\ ref' = ref /\ lv' = [lv EXCEPT ![t].qos = 0]
       ELSE IF o.enq # n.enq THEN /\ root' = Append(root, LANE) /\ ref' = (IF lv[t].fl2 THEN ref ELSE ref + 2)
                                  /\ Go(t, lv[t].ret) /\ lv' = lv
       ELSE /\ root' = root /\ ref' = (IF lv[t].fl2 THEN ref - 2 ELSE ref) /\ Go(t, lv[t].ret) /\ lv' = lv
    /\ UNCHANGED <<st, SIDE, Q, ip, ev, RUN, pred, GH>>
RdDone(w) == /\ pc[w] = "rd_done" /\ lv' = [lv EXCEPT ![w].fl2 = TRUE, ![w].ret = "idle"] /\ Go(w, "nbc_rmw")
             /\ UNCHANGED <<st, SIDE, Q, root, ip, ev, RUN, ref, pred, GH>>

(* ============ _dispatch_queue_class_invoke / _dispatch_lane_drain ============ *)
TryLock(w) ==
    /\ pc[w] = "try_lock"
    /\ LET r == DrainTryLock(st, Self(w)) IN
       /\ st' = r.s
       /\ IF r.ok THEN /\ lv' = [lv EXCEPT ![w].owned = r.owned, ![w].mode = IF (W = 1 \/ r.owned.ib) THEN "IB" ELSE "W",
                                          ![w].ow = IF (W = 1 \/ r.owned.ib) THEN 0 ELSE r.owned.w]
                       /\ Go(w, "dr_tail0")
                  ELSE lv' = lv /\ Go(w, "w_release")
    /\ UNCHANGED <<SIDE, Q, root, ip, ev, RUN, ref, pred, GH>>
WRelease(w) == /\ pc[w] = "w_release" /\ ref' = ref - 2 /\ Go(w, "idle")
               /\ UNCHANGED <<st, SIDE, Q, root, lv, ip, ev, RUN, pred, GH>>
\* if (!dq->dq_items_tail) return NULL   (plain read)
DrTail0(w) == /\ pc[w] = "dr_tail0"
              /\ IF tail = NULL THEN lv' = [lv EXCEPT ![w].dc = NULL] /\ Go(w, "unlock") ELSE lv' = lv /\ Go(w, "dr_head")
              /\ UNCHANGED <<st, SIDE, Q, root, ip, ev, RUN, ref, pred, GH>>
\* _dispatch_queue_get_head (spins in _dispatch_wait_for_enqueuer until the head is published)
DrHead(w) == /\ pc[w] = "dr_head" /\ head # NULL /\ SetL(w, "dc", head) /\ Go(w, "dr_susp")
             /\ UNCHANGED <<st, SIDE, Q, root, ip, ev, RUN, ref, pred, GH>>
\* first_iteration: dq_state = load(dq_state); if suspended break
DrSusp(w) == /\ pc[w] = "dr_susp"
             /\ Go(w, IF Suspended(st) /\ Mut # "drain_ignores_suspend" THEN "dr_out_dc" ELSE "dr_item")
             /\ UNCHANGED <<st, SIDE, Q, root, lv, ip, ev, RUN, ref, pred, GH>>
DrItem(w) ==
    /\ pc[w] = "dr_item"
    /\ LET dc == lv[w].dc IN
       IF IsBarrier(dc)
         THEN Go(w, IF lv[w].mode = "IB" THEN (IF IsWaiter(dc) THEN "fin_bw" ELSE "pop1") ELSE "upgrade")
         ELSE Go(w, IF lv[w].mode = "IB" THEN "drop_ib" ELSE IF lv[w].ow = 0 THEN "acq_w" ELSE "pop1")
    /\ UNCHANGED <<st, SIDE, Q, root, lv, ip, ev, RUN, ref, pred, GH>>
Upgrade(w) ==
    /\ pc[w] = "upgrade"
    /\ LET r == IF Mut = "upgrade_ignores_readers"
                THEN [ok |-> TRUE, s |-> [st EXCEPT !.ib = TRUE, !.pb = FALSE, !.dirty = FALSE, !.used = @ - lv[w].ow + W]]
                ELSE TryUpgradeFullWidth(st, lv[w].ow) IN
       /\ st' = r.s
       /\ IF r.ok THEN lv' = [lv EXCEPT ![w].mode = "IB", ![w].ow = 0] /\ Go(w, "dr_item")
                  ELSE lv' = [lv EXCEPT ![w].ow = 0] /\ Go(w, "unlock_wait")     \* out_with_no_width
    /\ UNCHANGED <<SIDE, Q, root, ip, ev, RUN, ref, pred, GH>>
\* os_atomic_xor2o(dq, dq_state, IN_BARRIER, release); owned = width * INTERVAL
DropIb(w) == /\ pc[w] = "drop_ib" /\ st' = [st EXCEPT !.ib = FALSE]
             /\ lv' = [lv EXCEPT ![w].mode = "W", ![w].ow = W] /\ Go(w, "pop1")
             /\ UNCHANGED <<SIDE, Q, root, ip, ev, RUN, ref, pred, GH>>
AcqW(w) ==
    /\ pc[w] = "acq_w"
    /\ IF IsWaiter(lv[w].dc) THEN st' = ReserveSyncWidth(st) /\ SetL(w, "ow", 1) /\ Go(w, "pop1")
       ELSE LET r == TryAcquireAsync(st) IN
            IF r.ok THEN st' = r.s /\ SetL(w, "ow", 1) /\ Go(w, "pop1")
                    ELSE st' = st /\ lv' = lv /\ Go(w, "unlock_wait")
    /\ UNCHANGED <<SIDE, Q, root, ip, ev, RUN, ref, pred, GH>>
\* os_mpsc_pop_head: n = load(next); store(head, n); if (!n && !cas(tail, dc, NULL)) { n = wait(next); store(head, n) }
Pop1(t, here, cont) == /\ pc[t] = here /\ LET n == nxt[lv[t].dc] IN head' = n /\ SetL(t, "n", n)
                       /\ Go(t, cont)
                       /\ UNCHANGED <<st, SIDE, tail, nxt, root, ip, ev, RUN, ref, pred, GH>>
Pop2(t, here, ok, retry) == /\ pc[t] = here
                            /\ IF lv[t].n # NULL THEN tail' = tail /\ Go(t, ok)
                               ELSE IF tail = lv[t].dc THEN tail' = NULL /\ Go(t, ok)
                               ELSE tail' = tail /\ Go(t, retry)
                            /\ UNCHANGED <<st, SIDE, head, nxt, root, lv, ip, ev, RUN, ref, pred, GH>>
Pop3(t, here, ok) == /\ pc[t] = here /\ nxt[lv[t].dc] # NULL
                     /\ head' = nxt[lv[t].dc] /\ SetL(t, "n", nxt[lv[t].dc]) /\ Go(t, ok)
                     /\ UNCHANGED <<st, SIDE, tail, nxt, root, ip, ev, RUN, ref, pred, GH>>
\* after the pop: barrier items run inline; reader waiters are woken; reader items are redirected to the root queue
Popped(w) ==
    /\ pc[w] = "popped"
    /\ LET dc == lv[w].dc IN
       IF IsBarrier(dc) THEN Go(w, "call") /\ UNCHANGED <<ev, root, lv, ref>>
       ELSE IF IsWaiter(dc) THEN ev' = [ev EXCEPT ![dc] = 1] /\ SetL(w, "ow", lv[w].ow - 1) /\ Go(w, "dr_next") /\ UNCHANGED <<root, ref>>
       ELSE root' = Append(root, dc) /\ ref' = ref + 2 /\ SetL(w, "ow", lv[w].ow - 1) /\ Go(w, "dr_next") /\ ev' = ev
    /\ UNCHANGED <<st, SIDE, Q, ip, RUN, pred, GH>>
\* loop head: dc = next_dc; if (!dc) { if (!dq_items_tail) break; dc = get_head }
DrNext(w) ==
    /\ pc[w] = "dr_next"
    /\ IF lv[w].n # NULL THEN SetL(w, "dc", lv[w].n) /\ Go(w, "dr_susp")
       ELSE IF tail = NULL THEN SetL(w, "dc", NULL) /\ Go(w, "unlock")
       ELSE lv' = lv /\ Go(w, "dr_head")
    /\ UNCHANGED <<st, SIDE, Q, root, ip, ev, RUN, ref, pred, GH>>
OwnedAtExit(w) == [ib |-> (lv[w].mode = "IB"), w |-> IF lv[w].mode = "IB" THEN W ELSE lv[w].ow,
                   enq |-> lv[w].owned.enq,
                   \* _dispatch_queue_adjust_owned: reserve the pending barrier unless this drainer already did in
                   \* try_upgrade_full_width (finding F3: the pinned code reserved twice after a failed unlock)
                   res |-> (lv[w].dc # NULL /\ W > 1 /\ IsBarrier(lv[w].dc)
                            /\ (~st.pb \/ Mut = "double_pending_barrier_reservation"))]
\* _dispatch_queue_drain_try_unlock(dq, owned, done = TRUE)
Unlock(w) ==
    /\ pc[w] = "unlock"
    /\ LET r == DrainTryUnlock(st, OwnedAtExit(w), TRUE)
           ok == r.ok \/ Mut = "unlock_ignores_dirty"
           ns == IF Mut = "unlock_ignores_dirty" /\ ~r.ok THEN [ClearUnlock(Sub(st, OwnedAtExit(w))) EXCEPT !.qos = 0] ELSE r.s IN
       /\ st' = ns
       /\ IF ok THEN Go(w, "w_release") ELSE Go(w, "dr_tail0")     \* root worker: attempt_running_slow_head
    /\ UNCHANGED <<SIDE, Q, root, lv, ip, ev, RUN, ref, pred, GH>>
\* out_with_no_width: tq = WAIT_FOR_EVENT, owned = ENQUEUED bit only; try_unlock(done = FALSE)
UnlockWait(w) ==
    /\ pc[w] = "unlock_wait"
    /\ LET o == [ib |-> FALSE, w |-> 0, enq |-> lv[w].owned.enq, res |-> FALSE]
           r == DrainTryUnlock(st, o, FALSE) IN
       /\ st' = r.s
       /\ IF r.ok THEN lv' = lv /\ Go(w, "w_release")
                  ELSE lv' = [lv EXCEPT ![w].mode = "W", ![w].ow = 0] /\ Go(w, "dr_tail0")
    /\ UNCHANGED <<SIDE, Q, root, ip, ev, RUN, ref, pred, GH>>
\* drain left with dc != NULL (suspension): _dispatch_queue_invoke_finish re-enqueues or not
DrOutDc(w) ==
    /\ pc[w] = "dr_out_dc"
    /\ LET r == InvokeFinish(st, OwnedAtExit(w)) IN
       /\ st' = r.s
       /\ IF r.push THEN root' = Append(root, LANE) /\ Go(w, "idle") ELSE root' = root /\ Go(w, "w_release")
    /\ UNCHANGED <<SIDE, Q, lv, ip, ev, RUN, ref, pred, GH>>
\* out_with_barrier_waiter -> _dispatch_queue_invoke_finish -> _dispatch_lane_drain_barrier_waiter(CONSUME_2, owned & ENQ)
FinBw(w) == /\ pc[w] = "fin_bw" /\ lv' = [lv EXCEPT ![w].fl2 = TRUE, ![w].ret = "idle", ![w].act = TRUE] /\ Go(w, "bw_pop1")
            /\ UNCHANGED <<st, SIDE, Q, root, ip, ev, RUN, ref, pred, GH>>

(* ========== _dispatch_lane_drain_barrier_waiter: pop, transfer the lock, wake ========== *)
\* lv.act = called from the drainer (enqueued_bits = owned & ENQUEUED), else from barrier_complete (0)
BwRmw(t) ==
    /\ pc[t] = "bw_rmw"
    /\ st' = DrainBarrierWaiter(st, ClientOf(lv[t].dc),
                                lv[t].act /\ lv[t].owned.enq)
    /\ Go(t, "bw_wake")
    /\ UNCHANGED <<SIDE, Q, root, lv, ip, ev, RUN, ref, pred, GH>>
BwWake(t) == /\ pc[t] = "bw_wake" /\ ev' = [ev EXCEPT ![lv[t].dc] = 1]
             /\ ref' = IF lv[t].fl2 THEN ref - 2 ELSE ref
             /\ Go(t, lv[t].ret)
             /\ UNCHANGED <<st, SIDE, Q, root, lv, ip, RUN, pred, GH>>

(* ============================== dispatch_sync (reader) ============================== *)
RsTail(c) == /\ pc[c] = "rs_tail" /\ Go(c, IF tail # NULL THEN "push_tail" ELSE "rs_fast")
             /\ UNCHANGED <<st, SIDE, Q, root, lv, ip, ev, RUN, ref, pred, GH>>
RsFast(c) == /\ pc[c] = "rs_fast"
             /\ LET r == IF Mut = "reader_ignores_pending_barrier" /\ SyncRunnable(st) /\ ~st.dirty
                         THEN [ok |-> TRUE, s |-> [st EXCEPT !.used = @ + 1]] ELSE TryReserveSyncWidth(st) IN
                IF r.ok THEN st' = r.s /\ Go(c, "sync_call") ELSE st' = st /\ Go(c, "push_tail")
             /\ UNCHANGED <<SIDE, Q, root, lv, ip, ev, RUN, ref, pred, GH>>
(* ============================ dispatch_barrier_sync ============================ *)
BsTail(c) == /\ pc[c] = "bs_tail" /\ Go(c, IF tail # NULL THEN "push_tail" ELSE "bs_fast")
             /\ UNCHANGED <<st, SIDE, Q, root, lv, ip, ev, RUN, ref, pred, GH>>
BsFast(c) == /\ pc[c] = "bs_fast"
             /\ LET r == TryAcquireBarrierSync(st, Self(c), 0) IN
                IF r.ok THEN st' = r.s /\ Go(c, "sync_call") ELSE st' = st /\ Go(c, "push_tail")
             /\ UNCHANGED <<SIDE, Q, root, lv, ip, ev, RUN, ref, pred, GH>>
\* _dispatch_lane_push_waiter rmw (the waiter made the list non-empty)
PwRmw(c) ==
    /\ pc[c] = "pw_rmw"
    /\ LET r == PushWaiter(st, Self(c)) IN
       /\ st' = r.s
       /\ IF r.took THEN lv' = [lv EXCEPT ![c].ret = "wait_event", ![c].fl2 = FALSE, ![c].qos = 0] /\ Go(c, "bc_tail")
                    ELSE lv' = lv /\ Go(c, "wait_event")
    /\ UNCHANGED <<SIDE, Q, root, ip, ev, RUN, ref, pred, GH>>
\* _dispatch_thread_event_wait
WaitEvent(c) == /\ pc[c] = "wait_event" /\ (ev[lv[c].item] = 1 \/ Mut = "sync_does_not_wait") /\ Go(c, "sync_call")
                /\ UNCHANGED <<st, SIDE, Q, root, lv, ip, ev, RUN, ref, pred, GH>>
\* after the callout: readers give their width back; barriers complete
SyncDone(c) ==
    /\ pc[c] = "sync_done"
    /\ lv' = [lv EXCEPT ![c].ret = "ret", ![c].fl2 = FALSE, ![c].qos = 0]
    /\ Go(c, IF ~IsBarrier(lv[c].item) THEN "nbc_rmw"
             ELSE IF W = 1 /\ Kind[lv[c].item] \notin {"rw", "bw"} THEN "bsu_tail" ELSE "bc_tail")
    /\ UNCHANGED <<st, SIDE, Q, root, ip, ev, RUN, ref, pred, GH>>
\* _dispatch_lane_barrier_sync_invoke_and_complete: if (dq_items_tail || width > 1) barrier_complete else cheap unlock
BsuTail(c) == /\ pc[c] = "bsu_tail" /\ Go(c, IF tail # NULL THEN "bc_tail" ELSE "bsu_rmw")
              /\ UNCHANGED <<st, SIDE, Q, root, lv, ip, ev, RUN, ref, pred, GH>>
BsuRmw(c) == /\ pc[c] = "bsu_rmw"
             /\ LET r == BarrierSyncUnlock(st) IN
                IF r.ok THEN st' = r.s /\ Go(c, "ret") ELSE st' = st /\ Go(c, "bc_tail")
             /\ UNCHANGED <<SIDE, Q, root, lv, ip, ev, RUN, ref, pred, GH>>

(* ========================= _dispatch_lane_barrier_complete ========================= *)
\* lv.fl2 = CONSUME_2 ; lv.qos = qos argument ; lv.ret = continuation
\* if (dq->dq_items_tail && !DISPATCH_QUEUE_IS_SUSPENDED(dq))   (two loads)
BcTail(t) == /\ pc[t] = "bc_tail" /\ Go(t, IF tail # NULL THEN "bc_susp" ELSE "bc_rmw_none")
             /\ UNCHANGED <<st, SIDE, Q, root, lv, ip, ev, RUN, ref, pred, GH>>
BcSusp(t) == /\ pc[t] = "bc_susp" /\ Go(t, IF Suspended(st) THEN "bc_rmw_none" ELSE "bc_head")
             /\ UNCHANGED <<st, SIDE, Q, root, lv, ip, ev, RUN, ref, pred, GH>>
BcHead(t) ==
    /\ pc[t] = "bc_head" /\ head # NULL
    /\ IF IsBarrier(head)
         THEN IF IsWaiter(head) THEN lv' = [lv EXCEPT ![t].dc = head, ![t].act = FALSE] /\ Go(t, "bw_pop1") /\ ref' = ref
              ELSE lv' = [lv EXCEPT ![t].dc = head, ![t].fl2 = TRUE] /\ Go(t, "bc_rmw_tq") /\ ref' = IF lv[t].fl2 THEN ref ELSE ref + 2
         ELSE lv' = [lv EXCEPT ![t].dc = head, ![t].ow = W] /\ Go(t, "dnb_dropib") /\ ref' = ref
    /\ UNCHANGED <<st, SIDE, Q, root, ip, ev, RUN, pred, GH>>
FullOwned == [ib |-> TRUE, w |-> W, enq |-> FALSE, res |-> FALSE]
\* _dispatch_lane_class_barrier_complete with target = TARGET
BcRmwTq(t) ==
    /\ pc[t] = "bc_rmw_tq"
    /\ LET r == BarrierComplete(st, FullOwned, TRUE, lv[t].qos) IN
       /\ st' = r.s
       /\ IF r.s.enq /\ ~st.enq THEN root' = Append(root, LANE) /\ ref' = ref ELSE root' = root /\ ref' = ref - 2
       /\ Go(t, lv[t].ret)
    /\ UNCHANGED <<SIDE, Q, lv, ip, ev, RUN, pred, GH>>
\* ... and with target = NONE: DIRTY forces a retry through dx_wakeup(BARRIER_COMPLETE)
BcRmwNone(t) ==
    /\ pc[t] = "bc_rmw_none"
    /\ LET r == BarrierComplete(st, FullOwned, FALSE, lv[t].qos) IN
       /\ st' = r.s
       /\ IF r.ok THEN ref' = (IF lv[t].fl2 THEN ref - 2 ELSE ref) /\ Go(t, lv[t].ret)
                  ELSE ref' = ref /\ Go(t, "bc_tail")
    /\ UNCHANGED <<SIDE, Q, root, lv, ip, ev, RUN, pred, GH>>

(* ========================= _dispatch_lane_drain_non_barriers ========================= *)
DnbDropIb(t) == /\ pc[t] = "dnb_dropib" /\ st' = [st EXCEPT !.ib = FALSE] /\ Go(t, "dnb_item")
                /\ UNCHANGED <<SIDE, Q, root, lv, ip, ev, RUN, ref, pred, GH>>
DnbItem(t) ==
    /\ pc[t] = "dnb_item"
    /\ LET dc == lv[t].dc IN
       IF lv[t].ow > 0 THEN st' = st /\ SetL(t, "ow", lv[t].ow - 1) /\ Go(t, "dnb_pop1")
       ELSE IF IsWaiter(dc) THEN st' = ReserveSyncWidth(st) /\ lv' = lv /\ Go(t, "dnb_pop1")
       ELSE LET r == TryAcquireAsync(st) IN
            IF r.ok THEN st' = r.s /\ lv' = lv /\ Go(t, "dnb_pop1")
                    ELSE st' = st /\ lv' = lv /\ Go(t, "dnb_rmw")      \* break: no width left, dc stays non-null
    /\ UNCHANGED <<SIDE, Q, root, ip, ev, RUN, ref, pred, GH>>
DnbPopped(t) ==
    /\ pc[t] = "dnb_popped"
    /\ LET dc == lv[t].dc IN
       /\ IF IsWaiter(dc) THEN ev' = [ev EXCEPT ![dc] = 1] /\ root' = root /\ ref' = ref
          ELSE root' = Append(root, dc) /\ ref' = ref + 2 /\ ev' = ev
       /\ lv' = [lv EXCEPT ![t].dc = lv[t].n]
       /\ Go(t, IF lv[t].n # NULL /\ ~IsBarrier(lv[t].n) THEN "dnb_item" ELSE "dnb_rmw")
    /\ UNCHANGED <<st, SIDE, Q, ip, RUN, pred, GH>>
DnbRmw(t) ==
    /\ pc[t] = "dnb_rmw"
    /\ LET dc == lv[t].dc
           r == DrainNonBarriersExit(st, lv[t].ow, dc # NULL, dc # NULL /\ IsBarrier(dc), Self(t)) IN
       /\ st' = r.s
       /\ IF r.ok THEN lv' = [lv EXCEPT ![t].old = r.old, ![t].new = r.s] /\ Go(t, "nbc_fin")
                  ELSE lv' = lv /\ Go(t, "dnb_again")
    /\ UNCHANGED <<SIDE, Q, root, ip, ev, RUN, ref, pred, GH>>
\* next_dc = load(dq_items_head); goto drain_again
DnbAgain(t) == /\ pc[t] = "dnb_again"
               /\ lv' = [lv EXCEPT ![t].dc = head]
               /\ Go(t, IF head # NULL /\ ~IsBarrier(head) THEN "dnb_item" ELSE "dnb_rmw")
               /\ UNCHANGED <<st, SIDE, Q, root, ip, ev, RUN, ref, pred, GH>>

(* ============================ dispatch_suspend ============================ *)
SuspRmw(c) ==
    /\ pc[c] = "susp_rmw"
    /\ LET r == Suspend(st) IN
       IF r.ok THEN /\ st' = r.s /\ ref' = IF Suspended(st) THEN ref ELSE ref + 2
                    /\ susp' = susp + 1 /\ Go(c, "ret") /\ UNCHANGED <<ownSusp, lateStarts, activated, bad>>
               ELSE /\ st' = st /\ ref' = ref /\ Go(c, "susp_lock") /\ UNCHANGED GH
    /\ UNCHANGED <<SIDE, Q, root, lv, ip, ev, RUN, pred>>
SuspLock(c) == /\ pc[c] = "susp_lock" /\ sideLock = NULL /\ sideLock' = c /\ Go(c, "susp_slow")
               /\ UNCHANGED <<st, sideCnt, Q, root, lv, ip, ev, RUN, ref, pred, GH>>
SuspSlow(c) ==
    /\ pc[c] = "susp_slow"
    /\ LET r == SuspendSlow(st, sideCnt = 0) IN
       IF r.ok THEN /\ st' = r.s /\ sideCnt' = sideCnt + SCHALF /\ sideLock' = NULL /\ susp' = susp + 1 /\ Go(c, "ret")
                    /\ UNCHANGED <<ownSusp, lateStarts, activated, bad>>
               ELSE /\ st' = st /\ sideCnt' = sideCnt /\ sideLock' = NULL /\ Go(c, "susp_rmw") /\ UNCHANGED GH
    /\ UNCHANGED <<Q, root, lv, ip, ev, RUN, ref, pred>>

(* ============================ dispatch_resume ============================ *)
ResRmw(c) ==
    /\ pc[c] = "res_rmw"
    /\ LET r == Resume(st, Self(c), FALSE) IN
       /\ st' = r.s
       /\ CASE r.kind = "activate" -> Go(c, "res_rmw") /\ lv' = lv /\ ref' = ref     \* dq_activate is a no-op for lanes; consume the count
            [] r.kind = "slow" -> Go(c, "res_lock") /\ lv' = lv /\ ref' = ref
            [] r.kind = "over_resume" -> Go(c, "crash") /\ lv' = lv /\ ref' = ref
            [] r.kind = "still" -> Go(c, lv[c].ret) /\ lv' = lv /\ ref' = ref
            [] r.kind = "nowidth" -> Go(c, lv[c].ret) /\ lv' = lv /\ ref' = ref - 2
            [] r.kind = "barrier" -> Go(c, "bc_tail") /\ lv' = [lv EXCEPT ![c].fl2 = TRUE, ![c].qos = st.qos] /\ ref' = ref
            [] r.kind \in {"locked", "wakeup"} -> Go(c, "wk_probe") /\ lv' = [lv EXCEPT ![c].mkdirty = FALSE, ![c].fl2 = TRUE] /\ ref' = ref
    /\ UNCHANGED <<SIDE, Q, root, ip, ev, RUN, pred, GH>>
ResLock(c) == /\ pc[c] = "res_lock" /\ sideLock = NULL /\ sideLock' = c /\ Go(c, "res_slow")
              /\ UNCHANGED <<st, sideCnt, Q, root, lv, ip, ev, RUN, ref, pred, GH>>
ResSlow(c) ==
    /\ pc[c] = "res_slow"
    /\ LET r == ResumeSlow(st, sideCnt) IN
       IF r.ok THEN /\ st' = r.s /\ sideCnt' = sideCnt - SCHALF /\ sideLock' = NULL /\ Go(c, lv[c].ret)
               ELSE /\ st' = st /\ sideCnt' = sideCnt /\ sideLock' = NULL /\ Go(c, "res_rmw")
    /\ UNCHANGED <<Q, root, lv, ip, ev, RUN, ref, pred, GH>>

(* ============================ dispatch_activate ============================ *)
ActRmw(c) ==
    /\ pc[c] = "act_rmw"
    /\ LET r == Activate(st) IN
       /\ st' = r.s
       /\ Go(c, IF r.kind = "finalize" THEN "res_rmw" ELSE lv[c].ret)
    /\ UNCHANGED <<SIDE, Q, root, lv, ip, ev, RUN, ref, pred, GH>>

(* ================================ next-state ================================ *)
ClientStep(t) ==
    \/ Start(t) \/ Return(t) \/ CPushTail(t) \/ CPushAcq(t) \/ RsTail(t) \/ RsFast(t) \/ BsTail(t) \/ BsFast(t)
    \/ PwRmw(t) \/ WaitEvent(t) \/ SyncDone(t) \/ BsuTail(t) \/ BsuRmw(t)
    \/ SuspRmw(t) \/ SuspLock(t) \/ SuspSlow(t) \/ ResRmw(t) \/ ResLock(t) \/ ResSlow(t) \/ ActRmw(t)
    \/ CallStart(t, "sync_call", "sync_call_end", lv[t].item) \/ CallEnd(t, "sync_call_end", "sync_done", lv[t].item)
WorkerStep(t) ==
    \/ RootPop(t) \/ TryLock(t) \/ WRelease(t) \/ DrTail0(t) \/ DrHead(t) \/ DrSusp(t) \/ DrItem(t) \/ Upgrade(t) \/ DropIb(t) \/ AcqW(t)
    \/ Popped(t) \/ DrNext(t) \/ Unlock(t) \/ UnlockWait(t) \/ DrOutDc(t) \/ FinBw(t) \/ RdDone(t)
    \/ Pop1(t, "pop1", "pop2") \/ Pop2(t, "pop2", "popped", "pop3") \/ Pop3(t, "pop3", "popped")
    \/ CallStart(t, "call", "call_end", lv[t].dc) \/ CallEnd(t, "call_end", "dr_next", lv[t].dc)
    \/ CallStart(t, "rd_call", "rd_call_end", lv[t].dc) \/ CallEnd(t, "rd_call_end", "rd_done", lv[t].dc)
SharedStep(t) ==
    \/ PushTail(t) \/ PushOvr(t) \/ PushPrev(t) \/ WkProbe(t) \/ WkRmw(t) \/ WkRelease(t)
    \/ NbcRmw(t) \/ NbcFin(t) \/ BwRmw(t) \/ BwWake(t) \/ BcTail(t) \/ BcSusp(t) \/ BcHead(t) \/ BcRmwTq(t) \/ BcRmwNone(t)
    \/ DnbDropIb(t) \/ DnbItem(t) \/ DnbPopped(t) \/ DnbRmw(t) \/ DnbAgain(t)
    \/ Pop1(t, "bw_pop1", "bw_pop2") \/ Pop2(t, "bw_pop2", "bw_rmw", "bw_pop3") \/ Pop3(t, "bw_pop3", "bw_rmw")
    \/ Pop1(t, "dnb_pop1", "dnb_pop2") \/ Pop2(t, "dnb_pop2", "dnb_popped", "dnb_pop3") \/ Pop3(t, "dnb_pop3", "dnb_popped")
Step(t) == (t \in Clients /\ ClientStep(t)) \/ (t \in Workers /\ WorkerStep(t)) \/ SharedStep(t)
Next == \E t \in Threads : Step(t)
Spec == Init /\ [][Next]_vars
FairSpec == Spec /\ \A t \in Threads : WF_vars(Step(t))

(* ================================ properties ================================ *)
AllSubmitted == \A c \in Clients : ip[c] > Len(Prog[c])
Quiescent == (\A t \in Threads : pc[t] = "idle") /\ root = <<>>
IdleModQos(s) == [s EXCEPT !.qos = 0, !.dirty = FALSE] = Idle0

\* C01: exactly once
AtMostOnce == \A i \in Items : runCount[i] <= 1
\* C01: nothing stranded: when everything is quiet, every accepted item has run, the word is idle, lists empty
NoStrand == (Quiescent /\ AllSubmitted /\ ~Suspended(st)) =>
               (done = Items /\ IdleModQos(st) /\ tail = NULL /\ head = NULL /\ ref = 0)
\* C01: the asynchronous forms never wait for another thread: inside an async submission some step is always enabled
AsyncPcs == {"cpush_tail", "cpush_acq", "push_tail", "push_ovr", "push_prev", "wk_probe", "wk_rmw", "wk_release"}
AsyncNeverBlocks == \A c \in Clients : (pc[c] \in AsyncPcs /\ lv[c].item # NULL /\ ~IsWaiter(lv[c].item)) => ENABLED Step(c)
\* C02 / C04: barrier items (all items of a serial lane) overlap nothing
BarrierExcl == \A i \in running : IsBarrier(i) => running = {i}
\* C02 FIFO / C04 ordering: if a's submission returned before b's began and one of them is a barrier, a is done when b starts
Order == \A b \in running \cup done : \A a \in pred[b] : (IsBarrier(a) \/ IsBarrier(b)) => a \in done
\* C05(a): a synchronous submission returns only after its item finished
SyncAfterEnd == \A c \in Clients : \A k \in 1..(ip[c] - 1) :
                   ("i" \in DOMAIN Prog[c][k] /\ IsWaiter(Prog[c][k].i)) => Prog[c][k].i \in done
\* width accounting never borrows / overflows (the same conditions _dispatch_lane_class_dispose crashes on)
WidthOK == st.used >= 0 /\ st.used <= 2 * W + Cardinality({i \in Items : IsWaiter(i)})   \* sync readers do not observe the limit
\* C06: nothing starts while suspended from the lane's own context, before activation;
\*      a suspend from another thread lets at most one more (serial) item start
SuspendedRunsNothing == bad = ""
StartWhileSusp == (W = 1) => lateStarts <= 1
NoCrash == \A t \in Threads : pc[t] # "crash"
\* C06: N suspends need N resumes: the counters always add up
SuspCount == (\A t \in Threads : pc[t] \notin {"susp_rmw", "susp_lock", "susp_slow", "res_rmw", "res_lock", "res_slow", "act_rmw"})
                => st.sc + sideCnt = susp
\* liveness (C01, C06): everything submitted eventually runs when the queue ends up resumed and active
Live == <>(done = Items)
=============================================================================
