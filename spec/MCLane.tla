------------------------------- MODULE MCLane -------------------------------
(* Model-checking instances of Lane.tla: client programs and item kinds per configuration. *)
EXTENDS Lane

A(i)  == [op |-> "async", i |-> i]
BA(i) == [op |-> "basync", i |-> i]
S(i)  == [op |-> "sync", i |-> i]
BS(i) == [op |-> "bsync", i |-> i]
AW(i) == [op |-> "aaw", i |-> i]
SUSP == [op |-> "suspend"]
RES  == [op |-> "resume"]
ACT  == [op |-> "activate"]
RESA(i) == [op |-> "resume", after |-> i]
NoBody(I) == [i \in I |-> "none"]

\* ---- Q1: serial lane; c1 = async a; sync b   c2 = async x ----
ItemsQ1 == {"a", "b", "x"}
KindQ1 == ("a" :> "ra" @@ "b" :> "rs" @@ "x" :> "ra")
ProgQ1 == ("c1" :> <<A("a"), S("b")>> @@ "c2" :> <<A("x")>>)

\* ---- Q1w: as Q1 with dispatch_async_and_wait instead of dispatch_sync ----
ItemsQ1w == {"a", "b", "x"}
KindQ1w == ("a" :> "ra" @@ "b" :> "rw" @@ "x" :> "ra")
ProgQ1w == ("c1" :> <<A("a"), AW("b")>> @@ "c2" :> <<A("x")>>)
BodyQ1w == NoBody(ItemsQ1w)
\* ---- Q2w: concurrent lane: barrier_async_and_wait against a reader and a sync reader ----
ItemsQ2w == {"r1", "b1", "s1"}
KindQ2w == ("r1" :> "ra" @@ "b1" :> "bw" @@ "s1" :> "rw")
ProgQ2w == ("c1" :> <<A("r1"), AW("b1")>> @@ "c2" :> <<AW("s1")>>)
BodyQ2w == NoBody(ItemsQ2w)

\* ---- Q1p: the F1 program: c1 = async a; sync b   c2 = async i0; async x ----
ItemsQ1p == {"a", "b", "i0", "x"}
KindQ1p == ("a" :> "ra" @@ "b" :> "rs" @@ "i0" :> "ra" @@ "x" :> "ra")
ProgQ1p == ("c1" :> <<A("a"), S("b")>> @@ "c2" :> <<A("i0"), A("x")>>)

\* ---- Q2: concurrent lane width 2: c1 = async r1; barrier_async b1; async r2   c2 = sync s1 ----
ItemsQ2 == {"r1", "b1", "r2", "s1"}
KindQ2 == ("r1" :> "ra" @@ "b1" :> "ba" @@ "r2" :> "ra" @@ "s1" :> "rs")
ProgQ2 == ("c1" :> <<A("r1"), BA("b1"), A("r2")>> @@ "c2" :> <<S("s1")>>)
\* quick variant, 3 items
ItemsQ2q == {"r1", "b1", "s1"}
KindQ2q == ("r1" :> "ra" @@ "b1" :> "ba" @@ "s1" :> "rs")
ProgQ2q == ("c1" :> <<A("r1"), BA("b1")>> @@ "c2" :> <<S("s1")>>)
\* barrier_sync vs readers
ItemsQ2b == {"r1", "b1", "s1"}
KindQ2b == ("r1" :> "ra" @@ "b1" :> "bs" @@ "s1" :> "rs")
ProgQ2b == ("c1" :> <<A("r1"), BS("b1")>> @@ "c2" :> <<S("s1")>>)

\* a reader submitted after a barrier's submission returned, while an earlier reader is in flight
ItemsQ2m == {"r1", "b1", "s1"}
KindQ2m == ("r1" :> "ra" @@ "b1" :> "ba" @@ "s1" :> "rs")
ProgQ2m == ("c1" :> <<BA("b1"), S("s1")>> @@ "c2" :> <<A("r1")>>)
BodyQ2m == NoBody(ItemsQ2m)

\* ---- Q6: suspension on a serial lane: c1 = async a; async b   c2 = suspend; resume ----
ItemsQ6 == {"a", "b"}
KindQ6 == ("a" :> "ra" @@ "b" :> "ra")
ProgQ6 == ("c1" :> <<A("a"), A("b")>> @@ "c2" :> <<SUSP, RES>>)
\* suspend from the item's own context, resume from a client, plus a sync caller
ItemsQ6b == {"a", "b", "s"}
KindQ6b == ("a" :> "ra" @@ "b" :> "ra" @@ "s" :> "rs")
BodyQ6b == ("a" :> "suspend" @@ "b" :> "none" @@ "s" :> "none")
ProgQ6b == ("c1" :> <<A("a"), A("b"), RESA("a")>> @@ "c2" :> <<S("s")>>)
\* concurrent lane: pending barrier + failed unlock + suspension (finding F3: double pending-barrier reservation)
ItemsQ6e == {"r1", "b1", "r2"}
KindQ6e == ("r1" :> "ra" @@ "b1" :> "ba" @@ "r2" :> "ra")
ProgQ6e == ("c1" :> <<A("r1"), BA("b1"), A("r2")>> @@ "c2" :> <<SUSP, RES>>)
BodyQ6e == NoBody(ItemsQ6e)
\* nesting across the inline-counter overflow (SCMAX = 3, SCHALF = 2)
ItemsQ6c == {"a"}
KindQ6c == ("a" :> "ra")
ProgQ6c == ("c1" :> <<SUSP, SUSP, SUSP, SUSP, A("a"), RES, RES, RES, RES>> @@ "c2" :> <<SUSP, SUSP, RES, RES>>)
\* initially inactive lane: items pushed before activation
ItemsQ6d == {"a", "s"}
KindQ6d == ("a" :> "ra" @@ "s" :> "rs")
ProgQ6d == ("c1" :> <<A("a"), ACT>> @@ "c2" :> <<S("s")>>)
BodyQ1 == NoBody(ItemsQ1)
BodyQ1p == NoBody(ItemsQ1p)
BodyQ2 == NoBody(ItemsQ2)
BodyQ2q == NoBody(ItemsQ2q)
BodyQ2b == NoBody(ItemsQ2b)
BodyQ6 == NoBody(ItemsQ6)
BodyQ6c == NoBody(ItemsQ6c)
BodyQ6d == NoBody(ItemsQ6d)
=============================================================================
