--------------------------- MODULE WorkloopState ---------------------------
(* Pure transition functions of the dq_state word of a dispatch WORKLOOP on this build (role BASE_ANON:
   DISPATCH_USE_KEVENT_WORKLOOP = 0, so the `_dq_state_is_base_wlh` branches are never taken): the RMW loops of
   src/queue.c that are specific to workloops, in the style of DQState.tla (which it extends: the workloop also goes
   through the generic inline functions _dispatch_queue_drain_try_lock / _try_unlock /
   _dispatch_queue_try_acquire_barrier_sync_and_suspend, and _dispatch_workloop_drain_barrier_waiter performs exactly
   the rmw of _dispatch_lane_drain_barrier_waiter: DQState!DrainBarrierWaiter).  `qos` is the NUMBER in the max_qos
   bits here (0..6): _dispatch_workloop_try_lower_max_qos and the drain loop compare it with bucket numbers.
   Used by spec/Workloop.tla (model) and spec/WorkloopWordTrace.tla (validation of recorded executions): same text. *)
EXTENDS DQState

\* _dispatch_workloop_wakeup(dwl, qos, flags) without BARRIER_COMPLETE:
\*   new = _dq_state_merge_qos(old, qos); if (_dq_state_max_qos(new)) new |= ENQUEUED;
\*   if (flags & MAKE_DIRTY) new |= DIRTY; else if (new == old) give up (release the +2)
\* (ENQUEUED is set whatever the drain lock says: a locked workloop that is pushed on its root queue is popped by a worker
\*  whose _dispatch_queue_drain_try_lock fails and drops the bit again)
WlWakeup(s, q, mk) ==
    LET a == MergeQos(s, q)
        b == IF a.qos # 0 THEN [a EXCEPT !.enq = TRUE] ELSE a
        n == IF mk THEN [b EXCEPT !.dirty = TRUE] ELSE b IN
    [changed |-> (mk \/ n # s), s |-> n, push |-> (n.enq /\ ~s.enq)]

\* _dispatch_workloop_push_waiter, the rmw after the waiter made its bucket non-empty:
\*   new = merge_qos(old, qos) | DIRTY; drain locked: nothing more; ENQUEUED: "let the event thread redrive";
\*   else new = (new & PRESERVED_BITS) | self | WIDTH_FULL_BIT | IN_BARRIER.   took = (old ^ new) & IN_BARRIER
\* ignoreLock: spec mutant (the `_dq_state_drain_locked(old_state)` test dropped and the lock considered taken)
WlPushWaiter(s, self, q, ignoreLock) ==
    LET a == [MergeQos(s, q) EXCEPT !.dirty = TRUE] IN
    IF Locked(s) /\ ~ignoreLock THEN [s |-> a, took |-> FALSE]
    ELSE IF s.enq THEN [s |-> a, took |-> FALSE]
    ELSE [s |-> [Preserved(a) EXCEPT !.owner = self, !.used = 1, !.ib = TRUE], took |-> (~s.ib \/ ignoreLock)]

\* _dispatch_workloop_barrier_complete rmw: new = merge_qos(old, qos) - IN_BARRIER - WIDTH_INTERVAL, & ~DRAIN_UNLOCK_MASK;
\*   target: new |= ENQUEUED ; else DIRTY: give up, xor DIRTY (acquire), scan the buckets again ; else clear MAX_QOS
WlBarrierComplete(s, q, target) ==
    LET n == ClearUnlock([MergeQos(s, q) EXCEPT !.ib = FALSE, !.used = @ - 1]) IN
    IF target THEN [ok |-> TRUE, s |-> [n EXCEPT !.enq = TRUE]]
    ELSE IF s.dirty THEN [ok |-> FALSE, s |-> [s EXCEPT !.dirty = FALSE]]
    ELSE [ok |-> TRUE, s |-> [n EXCEPT !.qos = 0]]

\* _dispatch_workloop_try_lower_max_qos(dwl, qos): max_qos <= qos: give up, return true ; DIRTY: give up, xor DIRTY
\* (acquire), return false (the caller scans the buckets again) ; else max_qos = qos, return true
WlTryLower(s, q) ==
    IF s.qos <= q THEN [kind |-> "keep", s |-> s]
    ELSE IF s.dirty THEN [kind |-> "dirty", s |-> [s EXCEPT !.dirty = FALSE]]
    ELSE [kind |-> "set", s |-> [s EXCEPT !.qos = q]]
=============================================================================
