------------------------------ MODULE GroupMC ------------------------------
(* Client programs of the model-checking runs of Group.tla (threads are 1..3; Prog[t] is a
   sequence of SETS of operations: at each position the client chooses any member). *)
EXTENDS Group

T3 == {1, 2, 3}
T2W == {1, 2, 3}          \* with thread 3 as the worker completing dispatch_group_async blocks

\* Appendix C of DESIGN.md: the program on which F2 was found
ProgF2 == << <<{"enter"}, {"leave"}>>,
             <<{"enter"}, {"notify"}, {"leave"}, {"wait"}>>,
             <<{"notify"}, {"enter"}, {"leave"}, {"waitT"}>> >>

\* liveness runs (TLC's liveness checking is far more expensive than safety)
ProgLive1 == << <<{"enter"}, {"leave"}, {"enter"}, {"leave"}>>,
                <<{"wait", "waitT"}, {"notify"}>>,
                <<{"notify"}, {"waitT", "waitN"}>> >>
ProgLive2 == << <<{"enter"}, {"notify"}, {"leave"}>>,
                <<{"enter"}, {"wait", "waitT"}, {"leave"}>>,
                <<{"wait"}, {"notify"}>> >>

\* two generations, a notifier per generation, untimed + timed + polling waiters
ProgGen == << <<{"enter"}, {"leave"}, {"enter"}, {"notify", "skip"}, {"leave"}>>,
              <<{"wait", "waitT", "waitN"}, {"notify", "enter"}, {"leave", "wait"}>>,
              <<{"enter", "skip"}, {"waitT", "wait"}, {"leave", "skip"}>> >>

\* free choice: every thread picks any operation, three calls each
AnyOp == {"enter", "leave", "notify", "wait", "waitT", "waitN"}
ProgAny2 == << <<AnyOp, AnyOp>>, <<AnyOp, AnyOp>>, <<AnyOp, AnyOp>> >>
ProgAny3 == << <<AnyOp, AnyOp, AnyOp>>, <<AnyOp, AnyOp, AnyOp>>, <<AnyOp, AnyOp, AnyOp>> >>
ProgAny4 == << <<AnyOp, AnyOp, AnyOp, AnyOp>>, <<AnyOp, AnyOp, AnyOp, AnyOp>>, <<AnyOp, AnyOp, AnyOp>> >>

\* dispatch_group_async: thread 3 is the worker
AnyA == {"enter", "leave", "async", "notify", "wait", "waitT"}
ProgAsync == << <<AnyA, AnyA, AnyA>>, <<AnyA, AnyA, AnyA>>, <<>> >>
=============================================================================
