------------------------------ MODULE GroupMC ------------------------------
(* Client programs of the model-checking runs of Group.tla (threads are 1..3; Prog[t] is a
   sequence of SETS of operations <<kind, group, body>>: at each position the client chooses any member).
   The one-group programs are written with the kind only and lifted to group 1. *)
EXTENDS Group

T3 == {1, 2, 3}
T2W == {1, 2, 3}          \* with thread 3 as the worker running dispatch_group_async blocks
G1 == {1}
G2 == {1, 2}

Lift(p) == [t \in DOMAIN p |-> [i \in DOMAIN p[t] |-> {<<k, 1, 0>> : k \in p[t][i]}]]

\* Appendix C of DESIGN.md: the program on which F2 was found
ProgF2 == Lift(<< <<{"enter"}, {"leave"}>>,
                  <<{"enter"}, {"notify"}, {"leave"}, {"wait"}>>,
                  <<{"notify"}, {"enter"}, {"leave"}, {"waitT"}>> >>)

\* liveness runs (TLC's liveness checking is far more expensive than safety)
ProgLive1 == Lift(<< <<{"enter"}, {"leave"}>>,
                     <<{"wait", "waitT"}>>,
                     <<{"notify"}>> >>)
ProgLive2 == Lift(<< <<{"enter"}, {"notify"}, {"leave"}>>,
                     <<{"enter"}, {"waitT"}, {"leave"}>>,
                     <<{"wait"}>> >>)

\* two generations, a notifier per generation, untimed + timed + polling waiters
ProgGen == Lift(<< <<{"enter"}, {"leave"}, {"enter"}, {"notify", "skip"}, {"leave"}>>,
                   <<{"wait", "waitT", "waitN"}, {"notify", "enter"}, {"leave", "wait"}>>,
                   <<{"enter", "skip"}, {"waitT", "wait"}, {"leave", "skip"}>> >>)

\* free choice: every thread picks any operation
AnyOp == {"enter", "leave", "notify", "wait", "waitT", "waitN"}
ProgAny == Lift(<< <<AnyOp, AnyOp>>, <<AnyOp, AnyOp>>, <<{"enter", "notify", "waitT"}, {"leave", "notify", "wait"}>> >>)

\* dispatch_group_async: thread 3 is the worker that runs the blocks and then leaves
ProgAsync == Lift(<< <<{"async"}, {"notify", "waitN"}, {"wait", "waitT"}, {"async", "skip"}>>,
                     <<{"async", "enter"}, {"notify", "wait", "waitT"}, {"leave", "skip"}>>,
                     <<>> >>)

\* the observation NoMissedZero (not judged, see tools/props/C07.py)
ProgMiss == Lift(<< <<{"enter"}, {"leave"}, {"enter"}>>, <<{"notify"}>>, <<{"notify"}>> >>)

(* ---- two groups: A = 1, B = 2; the block of an item of A works on B from inside its body ---- *)
\* client 1: dispatch_group_async(A, ^{ dispatch_group_async(B, ^{}) | enter(B); leave(B) | dispatch_group_notify(B) })
\* then waits for / is notified of A;
\* client 2 observes B (notify, untimed / timed wait) and has work of its own in B
Prog2G == << <<{<<"async", 1, 1>>, <<"async", 1, 2>>, <<"async", 1, 3>>}, {<<"wait", 1, 0>>, <<"notify", 1, 0>>}>>,
             <<{<<"notify", 2, 0>>, <<"wait", 2, 0>>, <<"waitT", 2, 0>>}, {<<"enter", 2, 0>>, <<"skip", 2, 0>>},
               {<<"leave", 2, 0>>, <<"skip", 2, 0>>}>>,
             <<>> >>
\* thorough: every body (async / enter+leave / notify on the other group, same group first), either group first
AnyBody == {<<"async", 1, 1>>, <<"async", 1, 2>>, <<"async", 1, 3>>, <<"async", 1, 4>>, <<"async", 1, 5>>}
Prog2GT == << <<AnyBody, {<<"wait", 1, 0>>, <<"notify", 1, 0>>, <<"waitT", 2, 0>>}>>,
              <<{<<"notify", 2, 0>>, <<"wait", 2, 0>>, <<"async", 2, 1>>, <<"enter", 2, 0>>},
                {<<"wait", 2, 0>>, <<"waitT", 1, 0>>, <<"leave", 2, 0>>, <<"skip", 2, 0>>}>>,
              <<>> >>
=============================================================================
