------------------------------ MODULE GroupMC ------------------------------
(* Client programs of the model-checking runs of Group.tla (threads are 1..3; Prog[t] is a
   sequence of SETS of operations: at each position the client chooses any member). *)
EXTENDS Group

T3 == {1, 2, 3}
T2W == {1, 2, 3}          \* with thread 3 as the worker completing dispatch_group_async blocks

\* Appendix C of DESIGN.md: the program on which F2 was found
ProgF2 == << <<{"enter"}, {"leave"}>>,
             <<{"enter"}, {"notify"}, {"leave"}, {"wait"}>>,
             <<{"notify"}, {"enter"}, {"leave"}, {"waitT"}>> >>

\* liveness runs (TLC's liveness checking is far more expensive than safety)
ProgLive1 == << <<{"enter"}, {"leave"}>>,
                <<{"wait", "waitT"}>>,
                <<{"notify"}>> >>
ProgLive2 == << <<{"enter"}, {"notify"}, {"leave"}>>,
                <<{"enter"}, {"waitT"}, {"leave"}>>,
                <<{"wait"}>> >>

\* two generations, a notifier per generation, untimed + timed + polling waiters
ProgGen == << <<{"enter"}, {"leave"}, {"enter"}, {"notify", "skip"}, {"leave"}>>,
              <<{"wait", "waitT", "waitN"}, {"notify", "enter"}, {"leave", "wait"}>>,
              <<{"enter", "skip"}, {"waitT", "wait"}, {"leave", "skip"}>> >>

\* free choice: every thread picks any operation
AnyOp == {"enter", "leave", "notify", "wait", "waitT", "waitN"}
ProgAny == << <<AnyOp, AnyOp>>, <<AnyOp, AnyOp>>, <<{"enter", "notify", "waitT"}, {"leave", "notify", "wait"}>> >>

\* dispatch_group_async: thread 3 is the worker that runs the blocks and then leaves
ProgAsync == << <<{"async"}, {"notify", "waitN"}, {"wait", "waitT"}, {"async", "skip"}>>,
                <<{"async", "enter"}, {"notify", "wait", "waitT"}, {"leave", "skip"}>>,
                <<>> >>

\* the observation NoMissedZero (not judged, see tools/props/C07.py)
ProgMiss == << <<{"enter"}, {"leave"}, {"enter"}>>, <<{"notify"}>>, <<{"notify"}>> >>
=============================================================================
