-------------------------------- MODULE Attr --------------------------------
(* C18 (b): dispatch queue attributes.

   Transcribed from the pinned tree (one operator per C function, same branches):
     src/init.c           _dispatch_queue_attr_to_info        -> ToInfo
                          _dispatch_queue_attr_from_info      -> FromInfo
                          dispatch_queue_attr_make_with_qos_class / _initially_inactive /
                          _with_overcommit / _with_autorelease_frequency -> MkQos, MkInactive,
                          MkOvercommit, MkAutorelease   (each: to_info, overwrite, from_info)
     src/shims/priority.h _dispatch_qos_class_valid, _dispatch_qos_from_qos_class,
                          _dispatch_qos_to_qos_class, _dispatch_priority_make,
                          _dispatch_priority_relpri, _dispatch_priority_qos
     src/queue.c          _dispatch_lane_create_with_target (step 1 normalisation, step 2
                          initialisation), _dispatch_queue_priority_inherit_from_target,
                          dispatch_queue_get_qos_class, dispatch_queue_get_label

   The attribute table is a mixed-radix encoding; the six radices are CONSTANTS that the
   check fills in from the build under test (DISPATCH_QUEUE_ATTR_*_COUNT), so the spec
   states the laws for the table of *this* build.

   Reference meaning (what the property says), kept apart from the transcription:
     an attribute denotes a record of fields; every constructor is last-writer-wins on
     its own field(s) and leaves the others alone (hence any two orders of applications
     to different fields commute); a queue created from the attribute reports label,
     QoS class clamped to the supported classes, relative priority, concurrency and
     initial activity of that record.  The ghost variable g carries that record. *)
EXTENDS Integers, Sequences, FiniteSets, TLC, Json, IOUtils

CONSTANTS OC_COUNT, AF_COUNT, QOS_COUNT, PRIO_COUNT, CONC_COUNT, INACT_COUNT,
          QosSupport,   \* HAVE_PTHREAD_WORKQUEUE_QOS of the build (FALSE here)
          Mut           \* "none" or the name of a spec mutation (non-vacuity runs)

N == OC_COUNT * AF_COUNT * QOS_COUNT * PRIO_COUNT * CONC_COUNT * INACT_COUNT

(* ------------------------- QoS numbering (shims/priority.h) ------------------------- *)
QOS_UNSPECIFIED == 0   QOS_MAINTENANCE == 1   QOS_BACKGROUND == 2   QOS_UTILITY == 3
QOS_DEFAULT == 4       QOS_USER_INITIATED == 5   QOS_USER_INTERACTIVE == 6
QOS_MIN == 1  QOS_MAX == 6

CLS_USER_INTERACTIVE == 33  CLS_USER_INITIATED == 25  CLS_DEFAULT == 21  CLS_UTILITY == 17
CLS_BACKGROUND == 9  CLS_MAINTENANCE == 5  CLS_UNSPECIFIED == 0
ValidClasses == {CLS_USER_INTERACTIVE, CLS_USER_INITIATED, CLS_DEFAULT, CLS_UTILITY,
                 CLS_BACKGROUND, CLS_MAINTENANCE, CLS_UNSPECIFIED}
MIN_RELPRI == 1 - PRIO_COUNT     \* QOS_MIN_RELATIVE_PRIORITY

\* _dispatch_qos_class_valid
QosClassValid(cls, relpri) == cls \in ValidClasses /\ MIN_RELPRI <= relpri /\ relpri <= 0

\* _dispatch_qos_from_qos_class
QosFromClass(cls) ==
    CASE cls = CLS_USER_INTERACTIVE -> QOS_USER_INTERACTIVE
      [] cls = CLS_USER_INITIATED   -> QOS_USER_INITIATED
      [] cls = CLS_DEFAULT          -> QOS_DEFAULT
      [] cls = CLS_UTILITY          -> QOS_UTILITY
      [] cls = CLS_BACKGROUND       -> QOS_BACKGROUND
      [] cls = CLS_MAINTENANCE      -> QOS_MAINTENANCE
      [] OTHER                      -> QOS_UNSPECIFIED

\* _dispatch_qos_to_qos_class
QosToClass(qos) ==
    CASE qos = QOS_USER_INTERACTIVE -> CLS_USER_INTERACTIVE
      [] qos = QOS_USER_INITIATED   -> CLS_USER_INITIATED
      [] qos = QOS_DEFAULT          -> CLS_DEFAULT
      [] qos = QOS_UTILITY          -> CLS_UTILITY
      [] qos = QOS_BACKGROUND       -> CLS_BACKGROUND
      [] qos = QOS_MAINTENANCE      -> CLS_MAINTENANCE
      [] OTHER                      -> CLS_UNSPECIFIED

(* --------------------- index <-> fields (src/init.c:431, :480) --------------------- *)
OC_UNSPEC == 0  OC_ENABLED == 1  OC_DISABLED == 2

\* _dispatch_queue_attr_to_info: successive % and / from the least significant digit
ToInfo(idx) ==
    LET inactive   == idx % INACT_COUNT
        i1         == idx \div INACT_COUNT
        concurrent == IF Mut = "conc_not_negated"
                        THEN i1 % CONC_COUNT
                        ELSE (IF i1 % CONC_COUNT = 0 THEN 1 ELSE 0)
        i2         == i1 \div CONC_COUNT
        relpri     == -(i2 % PRIO_COUNT)
        i3         == i2 \div PRIO_COUNT
        qos        == i3 % QOS_COUNT
        i4         == i3 \div QOS_COUNT
        af         == i4 % AF_COUNT
        i5         == i4 \div AF_COUNT
        oc         == i5 % OC_COUNT
    IN [qos |-> qos, relpri |-> relpri, oc |-> oc, af |-> af,
        concurrent |-> concurrent, inactive |-> inactive]

\* NULL attribute (DISPATCH_QUEUE_SERIAL): `dqai = {}`
ZeroInfo == [qos |-> 0, relpri |-> 0, oc |-> 0, af |-> 0, concurrent |-> 0, inactive |-> 0]
NULLATTR == -1
InfoOf(a) == IF a = NULLATTR THEN ZeroInfo ELSE ToInfo(a)

\* _dispatch_queue_attr_from_info: Horner from the most significant digit
FromInfo(f) ==
    LET a0 == f.oc
        a1 == a0 * AF_COUNT + f.af
        a2 == IF Mut = "swap_radix" THEN a1 * PRIO_COUNT + f.qos ELSE a1 * QOS_COUNT + f.qos
        a3 == IF Mut = "swap_radix" THEN a2 * QOS_COUNT + (-f.relpri) ELSE a2 * PRIO_COUNT + (-f.relpri)
        a4 == a3 * CONC_COUNT + (IF f.concurrent = 0 THEN 1 ELSE 0)
        a5 == a4 * INACT_COUNT + f.inactive
    IN a5

InfoDomain == [qos : 0..(QOS_COUNT - 1), relpri : MIN_RELPRI..0, oc : 0..(OC_COUNT - 1),
               af : 0..(AF_COUNT - 1), concurrent : {0, 1}, inactive : {0, 1}]

\* the table is a bijection between 0..N-1 and the field records
BijIdx  == \A i \in 0..(N - 1) : ToInfo(i) \in InfoDomain /\ FromInfo(ToInfo(i)) = i
BijInfo == \A f \in InfoDomain : FromInfo(f) \in 0..(N - 1) /\ ToInfo(FromInfo(f)) = f
Bijection == BijIdx /\ BijInfo /\ Cardinality(InfoDomain) = N

(* ---------------------------- constructors (src/init.c:505-553) ---------------------------- *)
MkQos(a, cls, relpri) ==
    IF ~QosClassValid(cls, relpri) THEN a
    ELSE LET f == InfoOf(a) IN
         FromInfo([f EXCEPT !.qos = QosFromClass(cls),
                            !.relpri = IF Mut = "qos_drops_relpri" THEN 0 ELSE relpri])
MkInactive(a) == FromInfo([InfoOf(a) EXCEPT !.inactive = 1])
MkOvercommit(a, b) == FromInfo([InfoOf(a) EXCEPT !.oc = IF b THEN OC_ENABLED ELSE OC_DISABLED])
MkAutorelease(a, fr) == FromInfo([InfoOf(a) EXCEPT !.af = fr])

\* every constructor application explored (the invalid ones must leave the attribute alone)
ClsSeq == <<CLS_USER_INTERACTIVE, CLS_USER_INITIATED, CLS_DEFAULT, CLS_UTILITY, CLS_BACKGROUND,
            CLS_MAINTENANCE, CLS_UNSPECIFIED, 1, 34, 255>>
RelSeq == [i \in 1..(PRIO_COUNT + 2) |-> MIN_RELPRI - 2 + i]      \* MIN_RELPRI-1 .. 1
QosApps == [k \in 1..(Len(ClsSeq) * Len(RelSeq)) |->
              [c |-> "qos", x |-> ClsSeq[((k - 1) \div Len(RelSeq)) + 1],
                            y |-> RelSeq[((k - 1) % Len(RelSeq)) + 1]]]
AppSeq == QosApps \o <<[c |-> "inactive", x |-> 0, y |-> 0],
                       [c |-> "overcommit", x |-> 0, y |-> 0], [c |-> "overcommit", x |-> 1, y |-> 0]>>
                  \o [i \in 1..AF_COUNT |-> [c |-> "autorelease", x |-> i - 1, y |-> 0]]
Apps == {AppSeq[i] : i \in DOMAIN AppSeq}
Apply(a, p) ==
    CASE p.c = "qos"         -> MkQos(a, p.x, p.y)
      [] p.c = "inactive"    -> MkInactive(a)
      [] p.c = "overcommit"  -> MkOvercommit(a, p.x = 1)
      [] p.c = "autorelease" -> MkAutorelease(a, p.x)

(* reference meaning of an application on the denoted record *)
RefApply(f, p) ==
    CASE p.c = "qos" -> IF p.x \in ValidClasses /\ p.y \in MIN_RELPRI..0
                          THEN [f EXCEPT !.qos = QosFromClass(p.x), !.relpri = p.y] ELSE f
      [] p.c = "inactive"    -> [f EXCEPT !.inactive = 1]
      [] p.c = "overcommit"  -> [f EXCEPT !.oc = IF p.x = 1 THEN OC_ENABLED ELSE OC_DISABLED]
      [] p.c = "autorelease" -> [f EXCEPT !.af = p.x]

(* ------------------- queue creation (src/queue.c:2660 _dispatch_lane_create_with_target) ------------------- *)
\* dispatch_priority_t, only the fields that matter: requested qos, 8-bit relpri field, flags
PriMake(qos, relpri) ==    \* _dispatch_priority_make: relpri stored as (relpri - 1) & 0xff
    IF qos = 0 THEN [qos |-> 0, rp8 |-> 0] ELSE [qos |-> qos, rp8 |-> (relpri - 1) % 256]
PriRelpri(p) ==            \* _dispatch_priority_relpri: (int8_t)field + 1 when a qos is set
    IF p.qos # 0 THEN (IF p.rp8 >= 128 THEN p.rp8 - 256 ELSE p.rp8) + 1 ELSE 0

\* root queue priority (_DISPATCH_ROOT_QUEUE_ENTRY): the DEFAULT pair has only a fallback qos
RootPri(rq) == IF rq.qos = QOS_DEFAULT THEN [qos |-> 0, rp8 |-> 0] ELSE PriMake(rq.qos, 0)
\* _dispatch_get_root_queue(qos, overcommit): index 2 * (qos - 1) + overcommit
RootIdx(qos, oc) == 2 * (qos - 1) + (IF oc THEN 1 ELSE 0)

\* tgt = [kind |-> "default"] (dispatch_queue_create) or [kind |-> "global", qos, oc]
LaneCreate(a, tgt) ==
    LET dqai0 == InfoOf(a)
        \* Step 1: #if !HAVE_PTHREAD_WORKQUEUE_QOS clamp
        cq == IF QosSupport \/ Mut = "no_clamp" THEN dqai0.qos
              ELSE IF dqai0.qos = QOS_USER_INTERACTIVE THEN QOS_USER_INITIATED
              ELSE IF dqai0.qos = QOS_MAINTENANCE THEN QOS_BACKGROUND ELSE dqai0.qos
        dqai == [dqai0 EXCEPT !.qos = cq]
        isglobal == tgt.kind = "global"
        \* attributes win over a global target; serial queues default to overcommit
        oc == IF dqai.oc # OC_UNSPEC THEN dqai.oc
              ELSE IF isglobal THEN (IF tgt.oc THEN OC_ENABLED ELSE OC_DISABLED)
              ELSE IF dqai.concurrent = 1 THEN OC_DISABLED ELSE OC_ENABLED
        qos == IF cq = QOS_UNSPECIFIED /\ isglobal THEN tgt.qos ELSE cq
        tq == [qos |-> IF qos = QOS_UNSPECIFIED THEN QOS_DEFAULT ELSE qos, oc |-> oc = OC_ENABLED]
        \* Step 2
        pri0 == PriMake(dqai.qos, dqai.relpri)
        \* _dispatch_queue_priority_inherit_from_target (active queues only): a requested
        \* qos is "manually selected" and kept; otherwise the root queue's priority is inherited
        pri == IF dqai.inactive = 1 \/ pri0.qos # 0 THEN pri0 ELSE RootPri(tq)
    IN [label |-> tgt.label,
        qos_class |-> QosToClass(pri.qos),          \* dispatch_queue_get_qos_class
        relpri |-> PriRelpri(pri),
        concurrent |-> dqai.concurrent,             \* dq_width = concurrent ? WIDTH_MAX : 1
        inactive |-> dqai.inactive,                 \* DISPATCH_QUEUE_INACTIVE bit
        root |-> RootIdx(tq.qos, tq.oc)]

(* reference: what the attribute denotes, clamped to the classes the platform supports *)
Supported(qos) == IF QosSupport THEN qos
                  ELSE IF qos = QOS_USER_INTERACTIVE THEN QOS_USER_INITIATED
                  ELSE IF qos = QOS_MAINTENANCE THEN QOS_BACKGROUND ELSE qos
RefReport(f, tgt) ==
    [label |-> tgt.label,
     qos_class |-> QosToClass(Supported(f.qos)),
     relpri |-> IF f.qos = QOS_UNSPECIFIED THEN 0 ELSE f.relpri,   \* an offset inside a class
     concurrent |-> f.concurrent, inactive |-> f.inactive]
Public(r) == [label |-> r.label, qos_class |-> r.qos_class, relpri |-> r.relpri,
              concurrent |-> r.concurrent, inactive |-> r.inactive]
\* documented target choice (informational on the real side: not reported by any getter)
RefRoot(f, tgt) ==
    LET q == IF Supported(f.qos) # 0 THEN Supported(f.qos) ELSE QOS_DEFAULT
        oc == IF f.oc # OC_UNSPEC THEN f.oc = OC_ENABLED
              ELSE IF tgt.kind = "global" THEN tgt.oc ELSE f.concurrent = 0
    IN RootIdx(q, oc)

TgtSeq == <<[kind |-> "default", label |-> "", qos |-> 0, oc |-> FALSE],
            [kind |-> "default", label |-> "c18.label", qos |-> 0, oc |-> FALSE],
            [kind |-> "global", label |-> "c18.g", qos |-> QOS_UTILITY, oc |-> FALSE],
            [kind |-> "global", label |-> "c18.h", qos |-> QOS_USER_INITIATED, oc |-> TRUE]>>
Targets == {TgtSeq[i] : i \in DOMAIN TgtSeq}   \* label "" also stands for a NULL label (reported as "")
\* with a global target and no class in the attribute the queue inherits the target's class:
\* outside what the property states, not generated
CreateOK(a, tgt) == tgt.kind = "default" \/ InfoOf(a).qos # QOS_UNSPECIFIED

(* ------------------------------ state machine ------------------------------ *)
VARIABLES attr,   \* the dispatch_queue_attr_t built so far: NULLATTR or an index into the table
          g,      \* ghost: the record the attribute denotes (last writer wins per field)
          q       \* [made, tgt, rep] : a queue has been created from attr (made = TRUE)
vars == <<attr, g, q>>
NoQ == [made |-> FALSE, tgt |-> TgtSeq[1], rep |-> LaneCreate(NULLATTR, TgtSeq[1])]

Init == /\ \/ attr = NULLATTR /\ g = ZeroInfo                            \* DISPATCH_QUEUE_SERIAL
           \/ attr = 0 /\ g = [ZeroInfo EXCEPT !.concurrent = 1]         \* DISPATCH_QUEUE_CONCURRENT
        /\ q = NoQ

Construct(p) == /\ ~q.made
                /\ attr' = Apply(attr, p)
                /\ g' = RefApply(g, p)
                /\ UNCHANGED q
Create(tgt) == /\ ~q.made /\ CreateOK(attr, tgt)
               /\ q' = [made |-> TRUE, tgt |-> tgt, rep |-> LaneCreate(attr, tgt)]
               /\ UNCHANGED <<attr, g>>
Next == (\E p \in Apps : Construct(p)) \/ (\E t \in Targets : Create(t))
Spec == Init /\ [][Next]_vars

(* ------------------------------- invariants ------------------------------- *)
TypeOK == attr \in {NULLATTR} \cup 0..(N - 1) /\ g \in InfoDomain
\* whatever the order of the applications so far, the attribute denotes the ghost record
AttrDenotes == InfoOf(attr) = g
\* the created queue reports what the attribute denotes
CreateFaithful == q.made => /\ Public(q.rep) = RefReport(g, q.tgt)
                                /\ q.rep.root = RefRoot(g, q.tgt)
\* evaluated once (in the two initial states)
\* and DISPATCH_QUEUE_CONCURRENT, aliased to table entry 0, decodes to "concurrent"
TableBijective == (~q.made /\ attr \in {NULLATTR, 0} /\ g.qos = 0 /\ g.oc = 0 /\ g.af = 0
                   /\ g.inactive = 0 /\ g.relpri = 0)
                  => (Bijection /\ ToInfo(0) = [ZeroInfo EXCEPT !.concurrent = 1])

(* ---------------- test vectors for the replay on the real functions ----------------
   One row per attribute (NULL and every table index): the fields it denotes, the
   attribute every constructor application leads to (the complete transition relation of
   the state machine above, so every order of applications is a path over these rows),
   and the report of a queue created from it for every target.  The invariants above are
   what makes these rows the property's expectations: TLC has checked on all of them
   that the transcription and the reference meaning coincide. *)
Row(a) == [i |-> a, f |-> InfoOf(a),
           next |-> [k \in DOMAIN AppSeq |-> Apply(a, AppSeq[k])],
           create |-> [t \in DOMAIN TgtSeq |->
                         IF CreateOK(a, TgtSeq[t]) THEN LaneCreate(a, TgtSeq[t])
                         ELSE [skip |-> TRUE]]]
\* every order of one application of each of the four constructors must end here
PermCase(s, cls, rp, oc, fr) ==
    LET g0 == IF s = 0 THEN [ZeroInfo EXCEPT !.concurrent = 1] ELSE ZeroInfo
        gf == [g0 EXCEPT !.qos = QosFromClass(cls), !.relpri = rp, !.inactive = 1,
                         !.oc = IF oc = 1 THEN OC_ENABLED ELSE OC_DISABLED, !.af = fr]
    IN [start |-> s, cls |-> cls, rp |-> rp, oc |-> oc, af |-> fr, final |-> FromInfo(gf), f |-> gf]
PermCases(u) ==
    [k \in 1..(2 * 7 * PRIO_COUNT * 2 * AF_COUNT) |->
        LET k0 == k - 1
            fr == k0 % AF_COUNT                  k1 == k0 \div AF_COUNT
            oc == k1 % 2                         k2 == k1 \div 2
            rp == -(k2 % PRIO_COUNT)             k3 == k2 \div PRIO_COUNT
            ci == (k3 % 7) + 1                   k4 == k3 \div 7
        IN PermCase(IF k4 = 0 THEN NULLATTR ELSE 0, ClsSeq[ci], rp, oc, fr)]
Vectors(u) == [radices |-> [oc |-> OC_COUNT, af |-> AF_COUNT, qos |-> QOS_COUNT, prio |-> PRIO_COUNT,
                         conc |-> CONC_COUNT, inact |-> INACT_COUNT, n |-> N],
            apps |-> AppSeq, targets |-> TgtSeq,
            rows |-> [k \in 1..(N + 1) |-> Row(k - 2)],
            perms |-> PermCases(u)]
\* POSTCONDITION (arity > 0 and TLCGet keep TLC from evaluating the table at start-up)
Emit == IF "C18_OUT" \in DOMAIN IOEnv
          THEN JsonSerialize(IOEnv.C18_OUT, Vectors(TLCGet("distinct"))) /\ PrintT(<<"EMITTED", N + 1>>)
          ELSE TRUE
=============================================================================
