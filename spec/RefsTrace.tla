----------------------------- MODULE RefsTrace -----------------------------
(* Word-level trace validation (code -> spec) for property C17, in the style of LaneWordTrace.tla.

   A recorded execution of the real library (hooked build, harness/drv_refs.c) is replayed record by record.
   Every atomic access to os_obj_ref_cnt / os_obj_xref_cnt / dq_sref_cnt of a registered object must be the
   counter arithmetic of RefsWord.tla applied to the value the previous access left (values chain), by a thread
   that may perform it under the reference LEDGER that Refs.tla model-checks:
     * hand[o][t]: references on o that thread t retained or took over from a role and has not yet released or
       handed over.  A retain adds, a release subtracts; a dq_state transition old -> new moves
       HandDelta(old, new) between the role bits (ENQUEUED: +2, suspended / inactive: +2) and the hand; the
       drop of the external count to -1 hands its +1 to the releasing thread; the start of a child's dispose hands
       the child's +1 on its target to the disposing thread; becoming somebody's target takes +1 from the hand.
     * dispatch_set_target_queue on an ACTIVE queue ("Retarget" event, logged before the call): from that moment the
       new target is the queue's PENDING target - a targeter role that the calling thread must pay for with its own +1
       (_dispatch_retain(tq) in _dispatch_lane_set_target_queue) before it leaves the library, whether the retarget
       barrier ran inline or was deferred; the old target keeps its role until the thread that runs the callback
       (_dispatch_lane_legacy_set_target_queue) releases it - exactly once: that release is recognised as a -1 by a
       thread that holds nothing on the old target while a retarget away from it is pending.
     * at a rest point (API return, start / end of a client callout) the hand is settled (RefsWord!Settle); a
       serial queue without internal targeters ("strict") never has parked references.
     * the first pusher of an empty list holds the +2 it will hand to the wakeup before it publishes the head
       (rdar://6932776: once the item can be dequeued the pusher may rely on no other reference - the item itself
       may release the last one).  A push of a sync waiter takes no +2 at all (it borrows the blocked caller's
       reference); what is rejected is a +2 taken as the pusher's NEXT access to the object after it published
       the head without one - recognised by the order of the accesses, not by function names.
     * the decrement to -1 (dispose point) must satisfy RefsWord!DisposeOK: external count -1, no reference held
       by the application, no item pending or running, no live targeter, idle dq_state, empty list, no reference
       in flight.  After it, nobody but the disposing thread touches the object (no use after dispose), the
       finalizer and the queue-specific destructors run at most once and only after it.
   Object kinds other than lanes (sources, groups, semaphores, data) are validated with the generic arithmetic,
   the ledger totals and the dispose condition.  `err` names the first rule a record breaks. *)
EXTENDS RefsWord, Sequences, FiniteSets, Json, IOUtils, TLC, TLCExt

Tr == ndJsonDeserialize(IOEnv.TRACE)
NT == Tr[1].nt
NO == Tr[1].no
Thr == 0..(NT - 1)
Objs == 0..(NO - 1)

VARIABLES l, S, err
tvars == <<l, S, err>>

NoPush == -1000      \* fp[o][t]: the hand of t when it exchanged the tail of the empty list of o, NoPush otherwise
Late == -2000        \*   ... or Late: the last access of t to o published the head without a +2 taken since the exchange
StIdle == [sc |-> 0, side |-> FALSE, inact |-> FALSE, na |-> FALSE, ib |-> FALSE, pb |-> FALSE, used |-> 0, dirty |-> FALSE,
           enq |-> FALSE, enqm |-> FALSE, locked |-> FALSE]
RoleRefsT(s) == RoleRefs(s) + (IF s.enqm THEN 2 ELSE 0)
IsIdle(s) == [s EXCEPT !.dirty = FALSE] = StIdle

S0 == [alive |-> [o \in Objs |-> "none"], kind |-> [o \in Objs |-> "none"], strict |-> [o \in Objs |-> FALSE],
       ref |-> [o \in Objs |-> 0], xref |-> [o \in Objs |-> 0], st |-> [o \in Objs |-> StIdle], tnn |-> [o \in Objs |-> FALSE],
       held |-> [o \in Objs |-> 0], busy |-> [o \in Objs |-> 0], targ |-> [o \in Objs |-> 0],
       hand |-> [o \in Objs |-> [t \in Thr |-> 0]], parked |-> [o \in Objs |-> 0], fp |-> [o \in Objs |-> [t \in Thr |-> NoPush]],
       tgt |-> [o \in Objs |-> -1], pend |-> [o \in Objs |-> -1], fins |-> [o \in Objs |-> 0], dtors |-> [o \in Objs |-> 0], dthr |-> [o \in Objs |-> -1]]

TInit == l = 2 /\ S = S0 /\ err = "" /\ TLCSet(1, 0)

Rec == Tr[l]
SumHand(h) == LET F[T \in SUBSET Thr] == IF T = {} THEN 0 ELSE LET t == CHOOSE x \in T : TRUE IN h[t] + F[T \ {t}] IN F[Thr]
IsLaneLike(k) == k \in {"lane", "source"}
\* first failing check of a list <<cond, message>>: "" when all hold
FirstErr(cs) == LET bad == {i \in 1..Len(cs) : ~cs[i][1]} IN IF bad = {} THEN "" ELSE cs[CHOOSE i \in bad : \A j \in bad : i <= j][2]
Out(s, e) == [S |-> s, err |-> e]
AddHand(s, o, t, n) == [s EXCEPT !.hand[o][t] = @ + n]

(* ------------------------------ handlers: state x record -> state x error ------------------------------ *)
HCreate(s, r) ==
    LET o == r.o
        st0 == IF r.inactive THEN [StIdle EXCEPT !.inact = TRUE, !.na = TRUE] ELSE StIdle IN
    Out([s EXCEPT !.alive[o] = "live", !.kind[o] = r.kind, !.strict[o] = r.strict, !.ref[o] = 0, !.xref[o] = 0, !.st[o] = st0,
                  !.tnn[o] = FALSE, !.held[o] = 1, !.busy[o] = 0, !.targ[o] = 0, !.hand[o] = [t \in Thr |-> 0], !.parked[o] = 0,
                  !.fp[o] = [t \in Thr |-> NoPush], !.tgt[o] = -1, !.pend[o] = -1, !.fins[o] = 0, !.dtors[o] = 0, !.dthr[o] = -1], "")
\* counters as the creator left them: one reference of the external count, +2 of an inactive queue, for a source
\* the +1 that lives until DSF_DELETED (parked)
HInit(s, r) ==
    LET o == r.o  extra == r.a + 1 - 1 - RoleRefsT(s.st[o]) IN
    Out([s EXCEPT !.ref[o] = r.a, !.xref[o] = r.b, !.parked[o] = extra],
        FirstErr(<< <<r.b = 0, "created with an external count other than one reference">>,
                    <<extra >= 0, "created with fewer internal references than its roles own">>,
                    <<s.kind[o] # "lane" \/ extra = 0, "queue created with an internal reference nobody owns">> >>))
HTarg(s, r) ==
    LET t == r.t
        a == IF r.a >= 0 THEN [AddHand(s, r.a, t, -1) EXCEPT !.targ[r.a] = @ + 1] ELSE s
        b == IF r.b >= 0 THEN [AddHand(a, r.b, t, 1) EXCEPT !.targ[r.b] = @ - 1] ELSE a IN
    Out([b EXCEPT !.tgt[r.o] = r.a], "")
\* legacy retarget of q = r.o to r.a (old target r.b, -1 = a global root queue whose counts are inert)
HRetarget(s, r) ==
    LET t == r.t q == r.o
        s1 == [AddHand(s, r.a, t, -1) EXCEPT !.targ[r.a] = @ + 1] IN
    IF s.alive[r.a] # "live" THEN Out(s, "retarget to a disposed queue")
    ELSE IF r.b < 0 THEN Out([s1 EXCEPT !.tgt[q] = r.a], "")
    ELSE Out([s1 EXCEPT !.pend[q] = r.a], IF s.tgt[q] = r.b THEN "" ELSE "driver: old target mismatch")
\* the callback's release of the old target o by thread t: some live queue targets o and has a pending retarget
PendingFrom(s, o) == {q \in Objs : s.alive[q] = "live" /\ s.tgt[q] = o /\ s.pend[q] >= 0}
Switch(s, o, t, n) ==
    IF n = 1 /\ s.hand[o][t] <= 0 /\ PendingFrom(s, o) # {}
    THEN LET q == CHOOSE x \in PendingFrom(s, o) : TRUE IN
         [AddHand(s, o, t, 1) EXCEPT !.targ[o] = @ - 1, !.tgt[q] = s.pend[q], !.pend[q] = -1]
    ELSE s
HRetain(s, r) == Out([s EXCEPT !.held[r.o] = @ + 1], IF s.alive[r.o] = "live" THEN "" ELSE "client retains an object that was disposed")
HRelease(s, r) == Out([s EXCEPT !.held[r.o] = @ - 1], IF s.alive[r.o] = "live" THEN "" ELSE "client releases an object that was disposed")

\* memory orders are informational only (x86-64 TSO: AGENT_GUIDE "Memory-order tokens"): never part of acceptance
MoNote(r) == LET want == IF r.op = "add" THEN "relaxed" ELSE IF r.op = "sub" THEN "release" ELSE r.mo IN
             IF r.mo = want THEN TRUE ELSE PrintT(<<"MO_DRIFT", want, r.mo>>)
Touch(s, r) == \* no use after dispose: once the count reached -1 only the disposing thread looks at the object
    IF s.alive[r.o] = "live" THEN ""
    ELSE IF s.alive[r.o] = "disposing" /\ r.t = s.dthr[r.o] /\ r.op = "load" THEN ""
    ELSE "use after dispose: the object was accessed after its internal count reached -1"

HX(s, r) ==
    LET o == r.o t == r.t IN
    IF Touch(s, r) # "" THEN Out(s, Touch(s, r))
    ELSE IF r.op = "load" \/ r.ok = 0 THEN Out(s, "")
    ELSE IF r.op = "add" THEN
         Out([s EXCEPT !.xref[o] = r.new],
             FirstErr(<< <<r.old = s.xref[o], "external count does not chain">>,
                         <<XRetain(r.old).ok /\ r.new = XRetain(r.old).x, "external retain: resurrection or wrong arithmetic">> >>))
    ELSE IF r.op = "sub" THEN
         LET x == XRelease(r.old)
             s1 == [s EXCEPT !.xref[o] = r.new]
             s2 == IF x.kind = "xdispose" THEN AddHand(s1, o, t, 1) ELSE s1 IN
         Out(s2, FirstErr(<< <<r.old = s.xref[o], "external count does not chain">>,
                             <<r.new = x.x /\ x.kind # "overrelease", "external release: over-release or wrong arithmetic">>,
                             <<r.new + 1 >= s.held[o], "external count dropped below the references the application holds">> >>))
    ELSE Out([s EXCEPT !.xref[o] = r.new], IF r.old = s.xref[o] THEN "" ELSE "external count does not chain")

DisposeErr(s, o, t) ==
    FirstErr(<< <<s.xref[o] = -1, "disposed while the external count is not -1">>,
                <<s.held[o] = 0, "disposed while the application holds a reference">>,
                <<s.busy[o] = 0, "disposed while items submitted to it are pending or running">>,
                <<s.targ[o] = 0, "disposed while another object has it as its current or pending target">>,
                <<s.pend[o] < 0, "disposed while its own retarget barrier has not run">>,
                <<~IsLaneLike(s.kind[o]) \/ IsIdle(s.st[o]), "disposed with a dq_state that is not idle">>,
                <<~s.tnn[o], "disposed while its item list is not empty">>,
                <<s.parked[o] + SumHand(s.hand[o]) = 0, "disposed while references are still in flight (ledger does not balance)">>,
                <<DisposeOK(s.xref[o], s.held[o], s.busy[o], s.targ[o], ~IsLaneLike(s.kind[o]) \/ IsIdle(s.st[o]), ~s.tnn[o],
                            s.parked[o] + SumHand(s.hand[o])), "dispose condition">> >>)

HR(s, r) ==
    LET o == r.o t == r.t IN
    IF Touch(s, r) # "" THEN Out(s, Touch(s, r))
    ELSE IF r.op = "load" \/ r.ok = 0 THEN Out(s, "")
    ELSE IF ~MoNote(r) THEN Out(s, "")       \* never taken: MoNote is TRUE, it only prints
    ELSE IF r.op = "add" THEN
         LET n == r.new - r.old IN
         Out(AddHand([s EXCEPT !.ref[o] = r.new], o, t, n),
             FirstErr(<< <<~(s.fp[o][t] = Late /\ n = 2), "first pusher took its +2 only after publishing the head: the item can be dequeued, run and release the last reference before the wakeup (rdar://6932776)">>,
                         <<r.old = s.ref[o], "internal count does not chain">>,
                         <<n \in {1, 2}, "internal retain of an amount no function takes">>,
                         <<RetainN(r.old, n).ok, "internal retain of an object whose count already reached -1 (resurrection)">> >>))
    ELSE IF r.op = "sub" THEN
         LET n == r.old - r.new
             k == ReleaseN(r.old, n)
             sw == Switch(s, o, t, n)
             s1 == AddHand([sw EXCEPT !.ref[o] = r.new], o, t, -n)
             tq == s.tgt[o]
             \* the dispose that starts here ends with the release of the target: that +1 is now in t's hand
             s2 == IF k.kind = "dispose"
                   THEN LET d == [s1 EXCEPT !.alive[o] = "disposing", !.dthr[o] = t] IN
                        IF tq >= 0 THEN [AddHand(d, tq, t, 1) EXCEPT !.targ[tq] = @ - 1] ELSE d
                   ELSE s1 IN
         Out(s2, FirstErr(<< <<r.old = s.ref[o], "internal count does not chain">>,
                             <<n \in {1, 2}, "internal release of an amount no function releases">>,
                             <<k.kind # "overrelease", "over-release of the internal count">>,
                             <<~s.strict[o] \/ s1.hand[o][t] >= -4, "thread released references it neither took nor was handed">>,
                             <<k.kind # "dispose" \/ DisposeErr(s1, o, t) = "", IF k.kind = "dispose" THEN DisposeErr(s1, o, t) ELSE "">> >>))
    ELSE \* plain atomic store (dispatch_group_create_with_count): takes the value
         Out([s EXCEPT !.ref[o] = r.new, !.parked[o] = @ + (r.new - s.ref[o])], "")

HSR(s, r) == IF Touch(s, r) # "" THEN Out(s, Touch(s, r))
             ELSE Out(s, IF r.op = "load" \/ r.new - r.old \in {1, -1} THEN "" ELSE "storage count arithmetic")

HSt(s, r) ==
    LET o == r.o t == r.t IN
    IF s.alive[o] # "live" THEN Out(s, "use after dispose: dq_state modified after the internal count reached -1")
    ELSE Out(AddHand([s EXCEPT !.st[o] = r.new], o, t, RoleRefsT(r.old) - RoleRefsT(r.new)),
             IF r.old = s.st[o] THEN "" ELSE "dq_state does not chain")
HTail(s, r) ==
    LET o == r.o IN
    IF s.alive[o] # "live" THEN Out(s, "use after dispose: item list modified after the internal count reached -1")
    ELSE IF s.kind[o] # "lane" THEN Out(s, "")
    ELSE Out([s EXCEPT !.tnn[o] = r.nn,
                       !.fp[o][r.t] = IF r.first THEN s.hand[o][r.t] ELSE @], "")
HHead(s, r) ==
    LET o == r.o t == r.t IN
    IF s.alive[o] # "live" THEN Out(s, "use after dispose: item list modified after the internal count reached -1")
    ELSE IF s.kind[o] # "lane" \/ s.fp[o][t] \in {NoPush, Late} \/ ~r.nn THEN Out(s, "")
    ELSE Out([s EXCEPT !.fp[o][t] = IF s.hand[o][t] - s.fp[o][t] >= 2 THEN NoPush ELSE Late], "")

\* rest point of thread t: settle its hand on every live object
RestOf(s, t) ==
    LET Surplus(o) == LET F[T \in SUBSET Thr] == IF T = {} THEN 0 ELSE LET u == CHOOSE x \in T : TRUE IN
                                        (IF u # t /\ s.hand[o][u] > 0 THEN s.hand[o][u] ELSE 0) + F[T \ {u}] IN F[Thr]
        \* a non-strict object (redirected items, internal targeters) may see a parked reference consumed before the
        \* thread that parks it reached its rest point (the drainer that wrapped a redirected item keeps draining):
        \* the deficit is then covered by what other threads currently hold
        res == [o \in Objs |-> IF s.strict[o] THEN Settle(s.hand[o][t], s.parked[o], TRUE)
                               ELSE [hand |-> IF s.parked[o] + s.hand[o][t] + Surplus(o) >= 0 THEN 0 ELSE s.hand[o][t],
                                     parked |-> s.parked[o] + s.hand[o][t]]]
        bad1 == {o \in Objs : s.alive[o] = "live" /\ res[o].hand # 0}
        bad2 == {o \in Objs : s.alive[o] = "live" /\ s.strict[o] /\ res[o].parked # 0} IN
    Out([s EXCEPT !.hand = [o \in Objs |-> [s.hand[o] EXCEPT ![t] = res[o].hand]],
                  !.parked = [o \in Objs |-> res[o].parked],
                  !.fp = [o \in Objs |-> [s.fp[o] EXCEPT ![t] = NoPush]]],
        IF bad1 # {} THEN "a thread left the library owing a reference: a role was established without its +2, or a reference was released twice"
        ELSE IF bad2 # {} THEN "a thread left the library still holding a reference of a serial queue: a +2 was never released (leak)"
        ELSE "")
HSub(s, r) == LET x == RestOf(s, r.t) IN
              Out([x.S EXCEPT !.busy[r.o] = @ + r.c], IF x.err # "" THEN x.err ELSE
                  IF s.alive[r.o] = "live" THEN "" ELSE "submission to a disposed object")
HEnd(s, r) == LET x == RestOf(s, r.t) IN Out([x.S EXCEPT !.busy[r.o] = @ - 1], x.err)
HBusy(s, r) == LET x == RestOf(s, r.t) IN Out([x.S EXCEPT !.busy[r.o] = @ + r.a], x.err)
HFin(s, r) == LET x == RestOf(s, r.t) o == r.o IN
              Out([x.S EXCEPT !.fins[o] = @ + 1],
                  IF x.err # "" THEN x.err
                  ELSE IF s.alive[o] # "disposing" THEN "finalizer ran before the object's internal count reached -1"
                  ELSE IF s.fins[o] >= 1 THEN "finalizer ran twice" ELSE "")
HDtor(s, r) == LET x == RestOf(s, r.t) o == r.o IN
               Out([x.S EXCEPT !.dtors[o] = @ + 1],
                   IF x.err # "" THEN x.err
                   ELSE IF s.alive[o] # "disposing" THEN "queue-specific destructor ran before the object's internal count reached -1" ELSE "")
HProbe(s, r) == Out(s, IF s.alive[r.o] = "disposing" /\ s.dthr[r.o] = r.t THEN "" ELSE "_dispatch_dispose entered without the internal count having reached -1")
HIdle(s, r) == LET leaked == {o \in Objs : s.alive[o] = "live"} IN
               Out(s, IF leaked = {} THEN "" ELSE "object never disposed although every reference was dropped and all work finished (leak)")

Handle(s, r) ==
    CASE r.e = "Create" -> HCreate(s, r) [] r.e = "Init" -> HInit(s, r) [] r.e = "Targ" -> HTarg(s, r)
      [] r.e = "Retarget" -> HRetarget(s, r)
      [] r.e = "Retain" -> HRetain(s, r) [] r.e = "Release" -> HRelease(s, r)
      [] r.e = "X" -> HX(s, r) [] r.e = "R" -> HR(s, r) [] r.e = "SR" -> HSR(s, r)
      [] r.e = "St" -> HSt(s, r) [] r.e = "Tail" -> HTail(s, r) [] r.e = "Head" -> HHead(s, r)
      [] r.e = "Sub" -> HSub(s, r) [] r.e = "End" -> HEnd(s, r) [] r.e = "Busy" -> HBusy(s, r)
      [] r.e = "Fin" -> HFin(s, r) [] r.e = "Dtor" -> HDtor(s, r) [] r.e = "DisposeProbe" -> HProbe(s, r)
      [] r.e = "Idle" -> HIdle(s, r)
      [] r.e \in {"Rest", "Start", "DataDtor"} -> RestOf(s, r.t)
      [] r.e = "Reset" -> Out(S0, "")
      [] OTHER -> Out(s, "")

\* `Late` lives for exactly one access of the thread to the object
Expire(before, after, r) ==
    IF r.e \in {"R", "X", "SR", "St", "Tail", "Head"} /\ before.fp[r.o][r.t] = Late /\ after.fp[r.o][r.t] = Late
    THEN [after EXCEPT !.fp[r.o][r.t] = NoPush] ELSE after
TNext == /\ l <= Len(Tr) /\ err = ""
         /\ LET x == Handle(S, Rec) IN S' = Expire(S, x.S, Rec) /\ err' = x.err
         /\ l' = l + 1
TSpec == TInit /\ [][TNext]_tvars

NoErr == err = ""
MaxL == IF TLCGet(1) < l THEN TLCSet(1, l) ELSE TRUE
Accepted == l > Len(Tr) /\ err = ""
StopWhenAccepted == Accepted => (PrintT("TRACE_ACCEPTED") /\ TLCSet("exit", TRUE))
Post == PrintT(<<"MAXL", TLCGet(1), Len(Tr)>>)
=============================================================================
