------------------------------- MODULE Data -------------------------------
(* dispatch_data (src/data.c, src/data_internal.h), property C13: every dispatch_data object
   denotes a fixed byte string.

   The module is IMPLEMENTATION-SHAPED: one operator per C function, same case analysis:
     MapDirect      _dispatch_data_map_direct            data_internal.h:124
     ConcatAlg      dispatch_data_create_concat          data.c:318
     SubrangeAlg    dispatch_data_create_subrange        data.c:364  (+ FindFirst / FindLast = its two loops)
     ApplyRec/Loop  _dispatch_data_apply                 data.c:564
     CRRec/CRLoop   _dispatch_data_copy_region           data.c:607
     MapAlg         dispatch_data_create_map + _dispatch_data_flatten   data.c:461-517
     FlattenAlg     dispatch_data_get_flattened_bytes_4libxpc (SPI)     data.c:520
     LeafAlg        dispatch_data_create                 data.c:182
     Release/Dispose  dispatch_release -> _dispatch_data_dispose -> _dispatch_data_destroy_buffer  data.c:128,258
   and, separately, the REFERENCE MEANING  Bytes(o)  (what the property talks about).  TLC compares
   the two in every reachable state of a state machine whose actions are the API calls a client can
   make (one action per call: this is sequential code): create leaf, concat, subrange, map,
   copy_region, retain, release.

   Objects live in `heap` (ids = allocation order, never reused; id 1 is the singleton
   dispatch_data_empty); buffers (client memory handed over with a destructor, the private copy made
   for DISPATCH_DATA_DESTRUCTOR_DEFAULT, the flatten buffers) live in `bufs`, each with a ghost count
   of destructor runs; `rc` is the reference ledger as the C code maintains it (every
   _dispatch_data_retain / _dispatch_data_release is transcribed), `client` the references the
   client holds (ghost).

   The behaviour generator (DataGen.tla) serialises every complete behaviour, with the expected
   projection after every step, for replay on the real library (harness/drv_data.c). *)
EXTENDS Naturals, Sequences, FiniteSets, TLC

CONSTANTS
    LeafLens,      \* sequence of sets: LeafLens[i] = lengths allowed for the i-th created leaf (Len = max #leaves)
    LeafKinds,     \* sequence of sets: destructor kinds allowed for the i-th leaf, subset of
                   \*   {"default","custom","free","customnq"}
    Alphabet,      \* {} : leaf bytes pairwise distinct (most general instance: no operation inspects byte
                   \*      values); otherwise the set of byte values leaf contents are drawn from
    MaxOps,        \* bound on derived operations (concat/subrange/map/copy_region/flatten)
    MaxDepth,      \* bound on the depth of the operation tree of an object
    OpSet,         \* subset of {"concat","subrange","map","region","flatten"}
    Lifetimes,     \* TRUE: retain/release are actions, interleaved freely with the operations (all orders);
                   \* FALSE: the tree is built first; the release of all client references, in an order
                   \*   derived from `salt`, is the "release tail" of every complete build (ReleaseTail)
    MaxRetains,    \* bound on explicit dispatch_retain calls (Lifetimes only)
    ReleaseAfter,  \* Lifetimes: the client starts releasing after this many operations (0: any time;
                   \*   > 0 only to bias -simulate towards deeper trees)
    Connected,     \* TRUE: prune op sequences that cannot end as ONE operation tree (every result used later)
    EmptyOperand,  \* TRUE: dispatch_data_empty may be passed as an operand
    KeepHist,      \* "codes": carry the serialised behaviour (steps + expected projections) in `hist`;
                   \* "ops": carry only the operations (cheap successors: -simulate), serialise at the end;
                   \* "none": no history (model checking only)
    Huge,          \* {} or {HUGE}: extra offset/length/location standing for SIZE_MAX (the replay passes
                   \*   SIZE_MAX): the model computes with unbounded naturals, the C code must not wrap
    Sample,        \* TRUE (-simulate only): offsets/lengths/locations/second operands are drawn with
                   \*   RandomElement instead of being enumerated
    Mut            \* "none" or the name of a spec mutation (non-vacuity)

VARIABLES heap, bufs, rc, err, client, nleaves, nops, nret, unused, salt, lastop, hist
vars == <<heap, bufs, rc, err, client, nleaves, nops, nret, unused, salt, lastop, hist>>

E      == 1      \* dispatch_data_empty
HUGE   == 99999  \* stands for SIZE_MAX in offsets / lengths / locations
UNINIT == 254    \* a byte malloc() returned and nobody wrote
OOB    == 255    \* a byte read outside a buffer

Max(a, b) == IF a > b THEN a ELSE b
Leaf(o) == o.nrec = 0                                   \* _dispatch_data_leaf
NumRecords(o) == IF o.nrec = 0 THEN 1 ELSE o.nrec       \* _dispatch_data_num_records
Slice(s, from, len) == [i \in 1..len |-> IF from + i <= Len(s) THEN s[from + i] ELSE OOB]

EmptyObj == [nrec |-> 0, recs |-> <<>>, size |-> 0, buf |-> 0, dk |-> "none", live |-> TRUE, depth |-> 0]
M == [heap |-> heap, bufs |-> bufs, rc |-> rc, err |-> err]

(* ------------------------------ reference meaning ------------------------------ *)
RECURSIVE Bytes(_, _), RecBytes(_, _, _)
RecBytes(m, recs, i) ==
    IF i > Len(recs) THEN <<>>
    ELSE Slice(Bytes(m, recs[i].obj), recs[i].from, recs[i].len) \o RecBytes(m, recs, i + 1)
Bytes(m, d) ==
    LET o == m.heap[d] IN
    IF Leaf(o) THEN (IF o.buf = 0 THEN <<>> ELSE m.bufs[o.buf].content)
    ELSE RecBytes(m, o.recs, 1)

\* what the API documents for a subrange: the slice clamped to the object
ClampSlice(s, off, len) ==
    IF off >= Len(s) THEN <<>>
    ELSE Slice(s, off, IF len > Len(s) - off THEN Len(s) - off ELSE len)

(* ------------------------------ reference ledger ------------------------------ *)
Fail(m, what) == [m EXCEPT !.err = @ \cup {what}]
Alloc(m, o) == [m EXCEPT !.heap = Append(@, o), !.rc = Append(@, 1)]
NewBuf(m, content, dk) == [m EXCEPT !.bufs = Append(@, [content |-> content, dk |-> dk, dtor |-> 0])]
\* _dispatch_data_retain: dispatch_retain (a no-op on the global empty object)
Retain(m, d) ==
    IF d = E THEN m
    ELSE IF ~m.heap[d].live THEN Fail(m, "retain of a disposed object")
    ELSE [m EXCEPT !.rc[d] = @ + 1]
RECURSIVE RetainAll(_, _, _)
RetainAll(m, recs, i) == IF i > Len(recs) THEN m ELSE RetainAll(Retain(m, recs[i].obj), recs, i + 1)

\* _dispatch_data_destroy_buffer: the destructor runs (free / client block on the queue)
DestroyBuffer(m, b) == IF b = 0 THEN m ELSE [m EXCEPT !.bufs[b].dtor = @ + 1]

RECURSIVE Release(_, _), Dispose(_, _), ReleaseAll(_, _, _)
\* dispatch_release; at zero: _dispatch_dispose -> _dispatch_data_dispose
Release(m, d) ==
    IF d = E THEN m
    ELSE IF m.rc[d] = 0 THEN Fail(m, "over-release")
    ELSE LET m1 == [m EXCEPT !.rc[d] = @ - 1] IN
         IF m1.rc[d] = 0 THEN Dispose(m1, d)
         ELSE IF Mut = "dtor_early" /\ Leaf(m.heap[d]) THEN DestroyBuffer(m1, m.heap[d].buf)
         ELSE m1
ReleaseAll(m, recs, i) == IF i > Len(recs) THEN m ELSE ReleaseAll(Release(m, recs[i].obj), recs, i + 1)
Dispose(m, d) ==
    LET o  == m.heap[d]
        m1 == [m EXCEPT !.heap[d].live = FALSE] IN
    IF Leaf(o) THEN DestroyBuffer(m1, o.buf)
    ELSE DestroyBuffer(ReleaseAll(m1, o.recs, 1), o.buf)      \* records released, then free(dd->buf)

(* ------------------------------ _dispatch_data_map_direct ------------------------------ *)
\* sees through a trivial subrange; buf = 0 stands for a NULL result
MapDirect(m, d, offset) ==
    LET o       == m.heap[d]
        through == ~Leaf(o) /\ NumRecords(o) = 1
        d2      == IF through THEN o.recs[1].obj ELSE d
        off2    == IF through THEN offset + o.recs[1].from ELSE offset
    IN [dd |-> d2, from |-> off2, buf |-> m.heap[d2].buf]

(* ------------------------------ dispatch_data_create ------------------------------ *)
\* returns [m, res, buf]; empty request: the singleton, destructor called immediately
LeafAlg(m, content, kind) ==
    IF Len(content) = 0 THEN
        IF kind = "default" THEN [m |-> m, res |-> E, buf |-> 0]
        ELSE LET m1 == NewBuf(m, content, kind) IN
             [m |-> DestroyBuffer(m1, Len(m1.bufs)), res |-> E, buf |-> Len(m1.bufs)]
    ELSE LET m1 == NewBuf(m, content, kind)     \* "default": the private copy, destructor FREE
             b  == Len(m1.bufs)
             m2 == Alloc(m1, [nrec |-> 0, recs |-> <<>>, size |-> Len(content), buf |-> b, dk |-> kind,
                              live |-> TRUE, depth |-> 0])
         IN [m |-> m2, res |-> Len(m2.heap), buf |-> b]

(* ------------------------------ dispatch_data_create_concat ------------------------------ *)
RecsOf(m, d) ==
    LET o == m.heap[d] IN
    IF Leaf(o) THEN <<[obj |-> d, from |-> 0, len |-> o.size]>> ELSE o.recs
ConcatAlg(m, a, b) ==
    LET oa == m.heap[a]
        ob == m.heap[b] IN
    IF oa.size = 0 THEN [m |-> Retain(m, b), res |-> b]
    ELSE IF ob.size = 0 THEN [m |-> Retain(m, a), res |-> a]
    ELSE LET ra   == RecsOf(m, a)
             rb   == RecsOf(m, b)
             recs == IF Mut = "concat_swap" THEN rb \o ra ELSE ra \o rb
             m1   == Alloc(m, [nrec |-> Len(recs), recs |-> recs, size |-> oa.size + ob.size, buf |-> 0,
                               dk |-> "none", live |-> TRUE, depth |-> 1 + Max(oa.depth, ob.depth)])
         IN [m |-> RetainAll(m1, recs, 1), res |-> Len(m1.heap)]

(* ------------------------------ dispatch_data_create_subrange ------------------------------ *)
\* while (i < n && offset >= records[i].length) offset -= records[i++].length;   (i is 0-based)
RECURSIVE FindFirst(_, _, _)
FindFirst(recs, i, offset) ==
    IF i < Len(recs) /\ offset >= recs[i + 1].len THEN FindFirst(recs, i + 1, offset - recs[i + 1].len)
    ELSE [i |-> i, off |-> offset]
\* the loop locating the record that contains the end of the range
RECURSIVE FindLast(_, _, _, _)
FindLast(recs, i, count, last) ==
    IF i + count < Len(recs) THEN
        LET rl == recs[i + count + 1].len
            c2 == count + 1 IN
        IF last <= rl THEN [count |-> c2, last |-> last, crash |-> FALSE]
        ELSE IF i + c2 >= Len(recs) THEN [count |-> c2, last |-> last - rl, crash |-> TRUE]
        ELSE FindLast(recs, i, c2, last - rl)
    ELSE [count |-> count, last |-> last, crash |-> FALSE]

RECURSIVE SubrangeAlg(_, _, _, _)
SubrangeAlg(m, d, offset, length) ==
    LET o == m.heap[d] IN
    IF offset >= o.size \/ length = 0 THEN [m |-> m, res |-> E]
    ELSE
    LET clamp == length > o.size - offset
        len   == IF clamp THEN o.size - offset ELSE length IN
    IF ~clamp /\ length = o.size THEN [m |-> Retain(m, d), res |-> d]
    ELSE IF Leaf(o) THEN
        LET m1 == Alloc(m, [nrec |-> 1, recs |-> <<[obj |-> d, from |-> offset, len |-> len]>>, size |-> len,
                            buf |-> 0, dk |-> "none", live |-> TRUE, depth |-> o.depth + 1])
        IN [m |-> IF Mut = "no_retain" THEN m1 ELSE Retain(m1, d), res |-> Len(m1.heap)]
    ELSE
    LET n     == NumRecords(o)
        toEnd == (offset + len = o.size)
        ff    == FindFirst(o.recs, 0, offset) IN
    IF ff.i >= n THEN [m |-> Fail(m, "crash: dispatch_data_create_subrange out of bounds"), res |-> E]
    ELSE
    LET ri == o.recs[ff.i + 1] IN
    \* everything from a single record: avoid boxing it
    IF ff.off + len <= ri.len THEN SubrangeAlg(m, ri.obj, ri.from + ff.off, len)
    ELSE
    LET fl == IF toEnd THEN [count |-> n - ff.i, last |-> 0, crash |-> FALSE]
              ELSE FindLast(o.recs, ff.i, 1, len - (ri.len - ff.off)) IN
    IF fl.crash THEN [m |-> Fail(m, "crash: dispatch_data_create_subrange out of bounds (end)"), res |-> E]
    ELSE
    LET cp0 == SubSeq(o.recs, ff.i + 1, ff.i + fl.count)
        cp1 == IF ff.off # 0
               THEN [cp0 EXCEPT ![1].from = IF Mut = "sub_from" THEN @ ELSE @ + ff.off, ![1].len = @ - ff.off]
               ELSE cp0
        cp2 == IF ~toEnd THEN [cp1 EXCEPT ![fl.count].len = fl.last] ELSE cp1
        m1  == Alloc(m, [nrec |-> fl.count, recs |-> cp2, size |-> len, buf |-> 0, dk |-> "none",
                         live |-> TRUE, depth |-> o.depth + 1])
    IN [m |-> RetainAll(m1, cp2, 1), res |-> Len(m1.heap)]

(* ------------------------------ dispatch_data_apply ------------------------------ *)
\* A tile = one applier callback: region object, logical offset, memory [start, start+len) of the
\* buffer owned by object `owner`.  The applier returns false at its stopAt-th call (0: never).
RECURSIVE ApplyRec(_, _, _, _, _, _, _), ApplyLoop(_, _, _, _, _, _)
ApplyRec(m, d, offset, from, size, acc, stopAt) ==
    LET md == MapDirect(m, d, 0) IN
    IF md.buf # 0 THEN
        LET t == [region |-> d, off |-> offset, owner |-> md.dd, buf |-> md.buf,
                  start |-> md.from + from, len |-> size]
            acc2 == Append(acc, t)
        IN [tiles |-> acc2, ok |-> Len(acc2) # stopAt]
    ELSE ApplyLoop(m, m.heap[d].recs, 1, offset, acc, stopAt)
ApplyLoop(m, recs, i, offset, acc, stopAt) ==
    IF i > Len(recs) THEN [tiles |-> acc, ok |-> TRUE]
    ELSE LET r == ApplyRec(m, recs[i].obj, offset, recs[i].from, recs[i].len, acc, stopAt) IN
         IF ~r.ok THEN r
         ELSE ApplyLoop(m, recs, i + 1, IF Mut = "apply_off" THEN offset ELSE offset + recs[i].len,
                        r.tiles, stopAt)
ApplyAlg(m, d, stopAt) ==
    IF m.heap[d].size = 0 THEN [tiles |-> <<>>, ok |-> TRUE]
    ELSE ApplyRec(m, d, 0, 0, m.heap[d].size, <<>>, stopAt)
TileBytes(m, t) == Slice(m.bufs[t.buf].content, t.start, t.len)

(* ------------------------------ dispatch_data_copy_region ------------------------------ *)
RECURSIVE CRRec(_, _, _, _, _, _), CRLoop(_, _, _, _, _, _, _)
CRRec(m, d, from, size, location, offp) ==
    LET o        == m.heap[d]
        reusable == IF from = 0 /\ size = o.size THEN d ELSE 0
        md       == MapDirect(m, d, from) IN
    IF md.buf # 0 THEN
        IF reusable # 0 THEN [m |-> Retain(m, reusable), res |-> reusable, off |-> offp]
        ELSE LET m1 == Retain(m, md.dd) IN
             IF md.from = 0 /\ size = m.heap[md.dd].size THEN [m |-> m1, res |-> md.dd, off |-> offp]
             ELSE LET m2 == Alloc(m1, [nrec |-> 1, recs |-> <<[obj |-> md.dd, from |-> md.from, len |-> size]>>,
                                       size |-> size, buf |-> 0, dk |-> "none", live |-> TRUE,
                                       depth |-> m.heap[md.dd].depth + 1])
                  IN [m |-> m2, res |-> Len(m2.heap), off |-> offp]
    ELSE CRLoop(m, d, 1, from, 0, location, offp)
CRLoop(m, d, i, from, offset, location, offp) ==
    LET recs == m.heap[d].recs IN
    IF i > NumRecords(m.heap[d]) \/ i > Len(recs)
    THEN [m |-> Fail(m, "crash: dispatch_data_copy_region out of bounds"), res |-> E, off |-> offp + offset]
    ELSE LET length == recs[i].len IN
         IF from >= length THEN CRLoop(m, d, i + 1, from - length, offset, location, offp)
         ELSE LET l2 == length - from IN
              IF location >= offset + l2 THEN CRLoop(m, d, i + 1, 0, offset + l2, location, offp)
              ELSE CRRec(m, recs[i].obj, from + recs[i].from, l2, location - offset,
                         IF Mut = "cr_off" THEN offp ELSE offp + offset)
CopyRegionAlg(m, d, location) ==
    IF location >= m.heap[d].size THEN [m |-> m, res |-> E, off |-> m.heap[d].size]
    ELSE CRRec(m, d, 0, m.heap[d].size, location, 0)

(* ------------------------------ dispatch_data_create_map ------------------------------ *)
\* _dispatch_data_flatten: malloc(size); apply { memcpy(buffer + off, buf, len) }
FlattenContent(m, size, tiles) ==
    [p \in 1..size |->
        LET cover == {k \in 1..Len(tiles) : tiles[k].off < p /\ p <= tiles[k].off + tiles[k].len} IN
        IF cover = {} THEN UNINIT
        ELSE LET k == CHOOSE k \in cover : \A j \in cover : j <= k      \* the last memcpy wins
                 q == tiles[k].start + (p - tiles[k].off)
                 c == m.bufs[tiles[k].buf].content
             IN IF q <= Len(c) THEN c[q] ELSE OOB]
FlattenOverflow(size, tiles) == \E k \in 1..Len(tiles) : tiles[k].off + tiles[k].len > size

\* returns [m, res, owner, start, size]: owner = 0 stands for buffer_ptr = NULL
MapAlg(m, d) ==
    LET o == m.heap[d] IN
    IF o.size = 0 THEN [m |-> m, res |-> E, owner |-> 0, start |-> 0, size |-> 0]
    ELSE LET md == MapDirect(m, d, 0) IN
    IF md.buf # 0 THEN [m |-> Retain(m, d), res |-> d, owner |-> md.dd, start |-> md.from, size |-> o.size]
    ELSE LET ap == ApplyAlg(m, d, 0)
             m0 == IF FlattenOverflow(o.size, ap.tiles) THEN Fail(m, "flatten writes past its buffer") ELSE m
             m1 == NewBuf(m0, FlattenContent(m, o.size, ap.tiles), "free")
             m2 == Alloc(m1, [nrec |-> 0, recs |-> <<>>, size |-> o.size, buf |-> Len(m1.bufs), dk |-> "free",
                              live |-> TRUE, depth |-> o.depth + 1])
         IN [m |-> m2, res |-> Len(m2.heap), owner |-> Len(m2.heap), start |-> 0, size |-> o.size]

(* -------------------- dispatch_data_get_flattened_bytes_4libxpc (SPI) -------------------- *)
\* returns [m, owner, start]; installs the flat buffer in the (seen-through) composite object
FlattenAlg(m, d) ==
    LET o == m.heap[d] IN
    IF o.size = 0 THEN [m |-> m, owner |-> 0, start |-> 0]
    ELSE LET md == MapDirect(m, d, 0) IN
    IF md.buf # 0 THEN [m |-> m, owner |-> md.dd, start |-> md.from]
    ELSE LET dd == md.dd
             ap == ApplyAlg(m, dd, 0)
             m0 == IF FlattenOverflow(m.heap[dd].size, ap.tiles) THEN Fail(m, "flatten writes past its buffer") ELSE m
             m1 == NewBuf(m0, FlattenContent(m, m.heap[dd].size, ap.tiles), "flat")
         IN [m |-> [m1 EXCEPT !.heap[dd].buf = Len(m1.bufs)], owner |-> dd, start |-> md.from]

(* ====================================================================================== *)
(* The client: one action per API call                                                    *)
(* ====================================================================================== *)
MaxLeaves == Len(LeafLens)
Pad(s, n) == s \o [i \in 1..(n - Len(s)) |-> 0]
HeldIn(cl) == {d \in 2..Len(cl) : cl[d] > 0}
Held == HeldIn(client)
Operands == Held \cup (IF EmptyOperand THEN {E} ELSE {})
NothingReleased == \A d \in 2..Len(heap) : client[d] > 0
\* (IF, not \/: TLC would generate the successor once per true disjunct)
Building == nleaves >= 1 /\ nops < MaxOps /\ (IF Held # {} THEN TRUE ELSE NothingReleased)
Draw(S) == IF Sample /\ S # {} THEN {RandomElement(S)} ELSE S

Init ==
    /\ heap = <<EmptyObj>> /\ bufs = <<>> /\ rc = <<0>> /\ err = {}
    /\ client = <<0>> /\ nleaves = 0 /\ nops = 0 /\ nret = 0 /\ unused = {}
    /\ salt = 0 /\ lastop = [op |-> "init", n0 |-> 0] /\ hist = <<>>

(* ---- serialisation of a step and of the expected projection, as a flat sequence of naturals ----
   (read by harness/drv_data.c, layout documented there)                                         *)
RECURSIVE Cat(_, _, _)
Cat(f, i, n) == IF i > n THEN <<>> ELSE f[i] \o Cat(f, i + 1, n)
OpCode(o) == CASE o = "leaf" -> 1 [] o = "concat" -> 2 [] o = "subrange" -> 3 [] o = "map" -> 4
               [] o = "region" -> 5 [] o = "retain" -> 6 [] o = "release" -> 7 [] o = "flatten" -> 8
KindCode(k) == CASE k = "default" -> 0 [] k = "custom" -> 1 [] k = "free" -> 2 [] k = "customnq" -> 3
                 [] k = "flat" -> 8 [] OTHER -> 9
\* projection of object d in machine state m: size, record list, bytes, apply tiling, map view,
\* copy_region result for every location 0..size+1
Desc(m, d) ==
    LET o   == m.heap[d]
        by  == Bytes(m, d)
        T   == ApplyAlg(m, d, 0).tiles
        mp  == MapAlg(m, d)
        reg == [l \in 1..(o.size + 2) |->
                  LET r == CopyRegionAlg(m, d, l - 1) IN
                  IF r.res = E THEN <<0, r.off, 0, 0, 0>>
                  ELSE IF r.res <= Len(m.heap) THEN <<1, r.off, r.res, 0, 0>>
                  ELSE LET q == r.m.heap[r.res].recs[1] IN <<2, r.off, q.obj, q.from, q.len>>]
    IN <<d, o.size, o.nrec>>
       \o Cat([i \in 1..o.nrec |-> <<o.recs[i].obj, o.recs[i].from, o.recs[i].len>>], 1, o.nrec)
       \o <<IF o.buf # 0 THEN 1 ELSE 0>>
       \o by
       \o <<Len(T)>>
       \o Cat([k \in 1..Len(T) |-> <<T[k].region, T[k].off, T[k].len, T[k].owner, T[k].start>>], 1, Len(T))
       \o (IF mp.res = E THEN <<0, 0, 0>> ELSE IF mp.res = d THEN <<1, mp.owner, mp.start>> ELSE <<2, 0, 0>>)
       \o <<o.size + 2>> \o Cat(reg, 1, o.size + 2)

\* the step `op` led from machine state m0 to machine state m / client references cl
StepCode(m0, m, cl, op) ==
    LET n0   == Len(m0.heap)
        n1   == Len(m.heap)
        fresh == {d \in 1..n1 : d > n0}
        chg  == IF op.op = "flatten"
                THEN {d \in 2..n0 : m.heap[d].live /\ Desc(m, d) # Desc(m0, d)} ELSE {}
        ds   == fresh \cup chg
        x    == IF op.op \in {"map", "flatten"} THEN op.owner ELSE 0
        y    == IF op.op \in {"map", "flatten"} THEN op.start ELSE 0
    IN <<OpCode(op.op), op.a, op.b, op.c, op.res, n1 - n0, op.aux,
         IF op.op = "leaf" THEN KindCode(op.kind) ELSE 0, x, y>>
       \o <<n1>> \o [d \in 1..(n1 - 1) |-> m.rc[d + 1]]
       \o [d \in 1..(n1 - 1) |-> cl[d + 1]]
       \o <<Len(m.bufs)>> \o [b \in 1..Len(m.bufs) |-> m.bufs[b].dtor]
       \o [b \in 1..Len(m.bufs) |-> KindCode(m.bufs[b].dk)]
       \o <<Cardinality(ds)>>
       \o Cat([d \in 1..n1 |-> IF d \in ds THEN Desc(m, d) ELSE <<>>], 1, n1)

\* the client's references after the step: the result is one more reference; release gives one up
NextClient(cl, m, op) ==
    LET cl0 == Pad(cl, Len(m.heap))
        cl1 == IF op.res = E \/ op.op = "release" THEN cl0 ELSE [cl0 EXCEPT ![op.res] = @ + 1]
    IN IF op.op = "release" THEN [cl1 EXCEPT ![op.a] = @ - 1] ELSE cl1

Commit(m, res, op0) ==
    LET op  == [op0 EXCEPT !.n0 = Len(heap)]
        cl2 == NextClient(client, m, op) IN
    /\ heap' = m.heap /\ bufs' = m.bufs /\ rc' = m.rc /\ err' = m.err
    /\ client' = cl2
    /\ lastop' = op
    /\ hist' = CASE KeepHist = "codes" -> hist \o StepCode(M, m, cl2, op)
                 [] KeepHist = "ops"   -> Append(hist, op)
                 [] OTHER              -> hist
    \* a new object's operation tree must not be deeper than MaxDepth
    /\ Len(m.heap) > Len(heap) => m.heap[Len(m.heap)].depth <= MaxDepth

DerivedOp(m, res, op, operands) ==
    LET un == (unused \ operands) \cup (IF res = E THEN {} ELSE {res}) IN
    /\ Commit(m, res, op)
    /\ nops' = nops + 1
    /\ unused' = un
    /\ Connected => Cardinality(un) <= (MaxOps - (nops + 1)) + 1
    /\ salt' = (salt * 7 + op.a + 3 * op.b + 5 * op.c + res) % 5040
    /\ UNCHANGED <<nleaves, nret>>

LeafContent(n, b) == [j \in 1..n |-> (16 * b + j) % 250]

CreateLeaf ==
    /\ nleaves < MaxLeaves
    \* exhaustive exploration: leaves first (fewer permutations of the same tree); -simulate: any time
    /\ IF Sample THEN TRUE ELSE (nops = 0 /\ nret = 0 /\ NothingReleased)
    /\ \E n \in LeafLens[nleaves + 1], k \in Draw(LeafKinds[nleaves + 1]) :
       \E content \in (IF Alphabet = {} THEN {LeafContent(n, Len(bufs) + 1)} ELSE [1..n -> Alphabet]) :
          LET r == LeafAlg(M, content, k) IN
          /\ Commit(r.m, r.res, [op |-> "leaf", a |-> n, b |-> r.buf, c |-> 0, kind |-> k, res |-> r.res,
                                 aux |-> 0, n0 |-> 0, content |-> content])
          /\ nleaves' = nleaves + 1
          /\ UNCHANGED <<nops, nret, unused, salt>>

Concat ==
    /\ Building /\ "concat" \in OpSet
    /\ \E a \in Operands, b \in Draw(Operands) :
          LET r == ConcatAlg(M, a, b) IN
          DerivedOp(r.m, r.res, [op |-> "concat", a |-> a, b |-> b, c |-> 0, res |-> r.res, aux |-> 0, n0 |-> 0],
                    {a, b})

Subrange ==
    /\ Building /\ "subrange" \in OpSet
    /\ \E a \in Operands :
       \E off \in Draw(0..(heap[a].size + 1) \cup Huge), len \in Draw(0..(heap[a].size + 1) \cup Huge) :
          LET r == SubrangeAlg(M, a, off, len) IN
          DerivedOp(r.m, r.res, [op |-> "subrange", a |-> a, b |-> off, c |-> len, res |-> r.res, aux |-> 0,
                                 n0 |-> 0], {a})

Map ==
    /\ Building /\ "map" \in OpSet
    /\ \E a \in Operands :
          LET r == MapAlg(M, a) IN
          DerivedOp(r.m, r.res, [op |-> "map", a |-> a, b |-> 0, c |-> 0, res |-> r.res, aux |-> r.size, n0 |-> 0,
                                 owner |-> r.owner, start |-> r.start, size |-> r.size], {a})

Region ==
    /\ Building /\ "region" \in OpSet
    /\ \E a \in Operands :
       \E loc \in Draw(0..(heap[a].size + 1) \cup Huge) :
          LET r == CopyRegionAlg(M, a, loc) IN
          DerivedOp(r.m, r.res, [op |-> "region", a |-> a, b |-> loc, c |-> 0, res |-> r.res, aux |-> r.off,
                                 n0 |-> 0], {a})

\* SPI: flattens in place; yields no object (res = E: the client gets no reference)
Flatten ==
    /\ Building /\ "flatten" \in OpSet
    /\ \E a \in Held :
          /\ heap[a].nrec > 1 /\ heap[a].buf = 0
          /\ LET r == FlattenAlg(M, a) IN
             /\ Commit(r.m, E, [op |-> "flatten", a |-> a, b |-> 0, c |-> 0, res |-> E, aux |-> 0, n0 |-> 0,
                                owner |-> r.owner, start |-> r.start])
             /\ nops' = nops + 1
             /\ UNCHANGED <<nleaves, nret, unused, salt>>

\* dispatch_retain / dispatch_release by the client, any held reference, any time (Lifetimes)
ClientRetain ==
    /\ Lifetimes /\ nret < MaxRetains
    /\ \E a \in Held :
          /\ Commit(Retain(M, a), a, [op |-> "retain", a |-> a, b |-> 0, c |-> 0, res |-> a, aux |-> 0, n0 |-> 0])
          /\ nret' = nret + 1
          /\ UNCHANGED <<nleaves, nops, unused, salt>>
ReleaseOp(a) == [op |-> "release", a |-> a, b |-> 0, c |-> 0, res |-> E, aux |-> 0, n0 |-> 0]
ClientRelease ==
    /\ Lifetimes /\ nleaves >= 1 /\ nops >= ReleaseAfter
    /\ \E a \in Held :
          /\ Commit(Release(M, a), E, ReleaseOp(a))
          /\ UNCHANGED <<nleaves, nops, nret, unused, salt>>

Next == CreateLeaf \/ Concat \/ Subrange \/ Map \/ Region \/ Flatten \/ ClientRetain \/ ClientRelease
Spec == Init /\ [][Next]_vars

\* a complete behaviour (Lifetimes): every client reference has been dropped
Terminal == Lifetimes /\ nleaves >= 1 /\ Held = {}
\* a complete build (~Lifetimes): followed by its release tail
BuildComplete == ~Lifetimes /\ nleaves >= 1 /\ (nops = MaxOps \/ (Held = {} /\ nleaves = MaxLeaves))

\* the release tail: drop every client reference, in the order encoded by `salt`
RECURSIVE Nth(_, _)
Nth(S, k) == LET x == CHOOSE x \in S : \A y \in S : x <= y IN IF k = 0 THEN x ELSE Nth(S \ {x}, k - 1)
RECURSIVE RelTail(_, _, _)
RelTail(m, cl, s) ==
    LET H == HeldIn(cl) IN
    IF H = {} THEN <<>>
    ELSE LET k   == Cardinality(H)
             a   == Nth(H, s % k)
             m2  == Release(m, a)
             cl2 == [cl EXCEPT ![a] = @ - 1]
         IN <<[m0 |-> m, m |-> m2, cl |-> cl2, a |-> a]>> \o RelTail(m2, cl2, s \div k)
TailCodes ==
    LET T == RelTail(M, client, salt) IN
    Cat([i \in 1..Len(T) |-> StepCode(T[i].m0, T[i].m, T[i].cl, ReleaseOp(T[i].a))], 1, Len(T))

\* KeepHist = "ops": re-execute the recorded operations from the initial machine and serialise them
Exec(m, op) ==
    CASE op.op = "leaf"     -> LeafAlg(m, op.content, op.kind).m
      [] op.op = "concat"   -> ConcatAlg(m, op.a, op.b).m
      [] op.op = "subrange" -> SubrangeAlg(m, op.a, op.b, op.c).m
      [] op.op = "map"      -> MapAlg(m, op.a).m
      [] op.op = "region"   -> CopyRegionAlg(m, op.a, op.b).m
      [] op.op = "flatten"  -> FlattenAlg(m, op.a).m
      [] op.op = "retain"   -> Retain(m, op.a)
      [] op.op = "release"  -> Release(m, op.a)
RECURSIVE CodesOf(_, _, _, _)
CodesOf(ops, i, m, cl) ==
    IF i > Len(ops) THEN <<>>
    ELSE LET m2  == Exec(m, ops[i])
             cl2 == NextClient(cl, m2, ops[i])
         IN StepCode(m, m2, cl2, ops[i]) \o CodesOf(ops, i + 1, m2, cl2)
InitM == [heap |-> <<EmptyObj>>, bufs |-> <<>>, rc |-> <<0>>, err |-> {}]
HistCodes == CASE KeepHist = "codes" -> hist
               [] KeepHist = "ops"   -> CodesOf(hist, 1, InitM, <<0>>)
               [] OTHER              -> <<>>

(* ====================================================================================== *)
(* Invariants: the transcribed algorithms against the reference meaning                   *)
(* ====================================================================================== *)
LiveIn(m) == {d \in 1..Len(m.heap) : m.heap[d].live}
Live == LiveIn(M)
\* objects created (or, flatten: possibly changed) by the last step; all others are immutable
FreshLive == IF lastop.op = "flatten" THEN Live ELSE {d \in Live : d > lastop.n0}

TypeOK ==
    /\ Len(rc) = Len(heap) /\ Len(client) = Len(heap)
    /\ \A d \in 1..Len(heap) : heap[d].nrec = Len(heap[d].recs)

\* no internal crash, no retain of a dead object, no over-release, no flatten overflow
NoErr == err = {}

\* "never reads outside the represented bytes", bookkeeping half: every record of a live object
\* lies inside the object it references, is not empty ("it is forbidden to ... ignore entire
\* records"), and references a live object
RecordsInRangeAt(m) ==
    \A d \in LiveIn(m) : \A i \in 1..Len(m.heap[d].recs) :
        LET r == m.heap[d].recs[i] IN
        /\ r.obj # E /\ r.obj < d /\ m.heap[r.obj].live
        /\ r.len > 0 /\ r.from + r.len <= m.heap[r.obj].size
RecordsInRange == RecordsInRangeAt(M)

\* depth is never more than one (records reference leaves), unless the SPI flattened a composite;
\* composites made by concat/subrange have at least two records
DepthOne ==
    \A d \in Live : \A i \in 1..Len(heap[d].recs) :
        LET t == heap[heap[d].recs[i].obj] IN Leaf(t) \/ ("flatten" \in OpSet /\ t.buf # 0)

\* dispatch_data_get_size = length of the denoted string; leaves own a buffer of exactly that size
SizeIsLength ==
    \A d \in FreshLive :
        /\ heap[d].size = Len(Bytes(M, d))
        /\ (d # E /\ Leaf(heap[d])) => heap[d].buf # 0 /\ Len(bufs[heap[d].buf].content) = heap[d].size
        /\ d # E => heap[d].size > 0                     \* the only empty object is the singleton
        /\ (~Leaf(heap[d]) /\ heap[d].buf # 0) => bufs[heap[d].buf].content = Bytes(M, d)   \* flat buffer

\* the law of the operation that was just performed, stated on the denoted strings
OpLaw ==
    CASE lastop.op = "concat"   -> Bytes(M, lastop.res) = Bytes(M, lastop.a) \o Bytes(M, lastop.b)
      [] lastop.op = "subrange" -> Bytes(M, lastop.res) = ClampSlice(Bytes(M, lastop.a), lastop.b, lastop.c)
      [] lastop.op = "map"      ->
            /\ Bytes(M, lastop.res) = Bytes(M, lastop.a)
            \* the returned pointer/size: a contiguous view of exactly those bytes, inside its buffer
            /\ lastop.size = Len(Bytes(M, lastop.a))
            /\ IF lastop.owner = 0 THEN lastop.size = 0
               ELSE LET c == bufs[heap[lastop.owner].buf].content IN
                    /\ lastop.start + lastop.size <= Len(c)
                    /\ Slice(c, lastop.start, lastop.size) = Bytes(M, lastop.a)
            \* "a contiguous copy or view": a leaf, a trivial subrange of one, or a flattened object
            /\ heap[lastop.res].nrec <= 1 \/ heap[lastop.res].buf # 0
      [] lastop.op = "region"   ->
            LET s == Bytes(M, lastop.a)
                g == Bytes(M, lastop.res)
                T == ApplyAlg(M, lastop.a, 0).tiles IN
            IF lastop.b >= Len(s) THEN lastop.res = E /\ lastop.aux = Len(s)
            ELSE /\ lastop.aux <= lastop.b /\ lastop.b < lastop.aux + Len(g)      \* contains the location
                 /\ g = Slice(s, lastop.aux, Len(g)) /\ lastop.aux + Len(g) <= Len(s)
                 /\ heap[lastop.res].nrec <= 1 \/ heap[lastop.res].buf # 0    \* one contiguous region
                 \* it is exactly the region dispatch_data_apply reports there
                 /\ \E k \in 1..Len(T) : T[k].off = lastop.aux /\ T[k].len = Len(g)
      [] lastop.op = "flatten"  ->
            lastop.owner # 0 /\
            LET c == bufs[heap[lastop.owner].buf].content IN
            Slice(c, lastop.start, heap[lastop.a].size) = Bytes(M, lastop.a)
      [] OTHER -> TRUE

\* dispatch_data_apply: consecutive regions tiling the string in order, each inside a live buffer;
\* an applier returning false stops the traversal after exactly that callback
RECURSIVE TilesFrom(_, _, _)
TilesFrom(m, tiles, k) == IF k > Len(tiles) THEN <<>> ELSE TileBytes(m, tiles[k]) \o TilesFrom(m, tiles, k + 1)
Tiling ==
    \A d \in FreshLive :
        LET ap == ApplyAlg(M, d, 0)
            T  == ap.tiles IN
        /\ ap.ok
        /\ \A k \in 1..Len(T) :
              /\ T[k].len > 0
              /\ T[k].off = (IF k = 1 THEN 0 ELSE T[k - 1].off + T[k - 1].len)
              /\ T[k].start + T[k].len <= Len(bufs[T[k].buf].content)       \* never reads outside
              /\ bufs[T[k].buf].dtor = 0                                     \* ... nor freed memory
              /\ heap[T[k].region].live
        /\ TilesFrom(M, T, 1) = Bytes(M, d)
        /\ \A s \in 1..Len(T) :
              LET aps == ApplyAlg(M, d, s) IN ~aps.ok /\ aps.tiles = SubSeq(T, 1, s)

\* the ledger: refcount = client references + records of live objects
LedgerAt(m, cl) ==
    LET L == LiveIn(m)
        refs(d) == Cardinality(UNION {{<<x, i>> : i \in {j \in 1..Len(m.heap[x].recs) : m.heap[x].recs[j].obj = d}}
                                      : x \in L})
    IN \A d \in 2..Len(m.heap) :
            IF m.heap[d].live THEN m.rc[d] > 0 /\ m.rc[d] = cl[d] + refs(d)
            ELSE m.rc[d] = 0 /\ cl[d] = 0
Ledger == LedgerAt(M, client)

\* a buffer's destructor runs at most once, and only when its object is disposed, which (Ledger,
\* RecordsInRange) is only after every object derived from it has been released; no buffer leaks
DestructorsAt(m) ==
    \A b \in 1..Len(m.bufs) :
        LET own == {d \in 1..Len(m.heap) : m.heap[d].buf = b} IN
        /\ m.bufs[b].dtor <= 1
        /\ m.bufs[b].dtor = 1 => \A d \in own : ~m.heap[d].live
        /\ m.bufs[b].dtor = 0 => \E d \in own : m.heap[d].live
Destructors == DestructorsAt(M)

\* stated directly on the property's words: whatever the client still holds only reaches memory
\* whose destructor has not run
RECURSIVE Footprint(_, _)
Footprint(m, d) ==
    LET o == m.heap[d] IN
    (IF o.buf # 0 THEN {o.buf} ELSE {}) \cup UNION {Footprint(m, o.recs[i].obj) : i \in 1..Len(o.recs)}
NoUseAfterDestructorAt(m, cl) == \A d \in HeldIn(cl) : \A b \in Footprint(m, d) : m.bufs[b].dtor = 0
NoUseAfterDestructor == NoUseAfterDestructorAt(M, client)

\* once the client has dropped everything, everything is gone: every destructor has run exactly once
AllGoneAt(m, cl) == HeldIn(cl) = {} => (LiveIn(m) = {E} /\ \A b \in 1..Len(m.bufs) : m.bufs[b].dtor = 1)
AllGone == AllGoneAt(M, client)

\* ~Lifetimes: the same ledger / destructor invariants in every state of the release tail
ReleaseTail ==
    BuildComplete =>
        LET T == RelTail(M, client, salt) IN
        /\ \A i \in 1..Len(T) :
              /\ T[i].m.err = {}
              /\ RecordsInRangeAt(T[i].m) /\ LedgerAt(T[i].m, T[i].cl) /\ DestructorsAt(T[i].m)
              /\ NoUseAfterDestructorAt(T[i].m, T[i].cl) /\ AllGoneAt(T[i].m, T[i].cl)
        /\ Len(T) > 0 => HeldIn(T[Len(T)].cl) = {}

=============================================================================
