----------------------------- MODULE TimerLaws -----------------------------
(* The pure (state-free) part of the timer algorithm of src/event/event.c, shared by
   Timer.tla (model checking) and TimerTrace.tla (validation of recorded executions):
   the heap abstracted to the set of armed timers, and _dispatch_timer_unote_compute_missed.
   A timer record needs the fields armed, clk, tgt, iv. *)
EXTENDS Integers, FiniteSets

CONSTANTS INF,     \* a time >= INT64_MAX in the code: never reached ("forever", one-shot interval)
          Mut      \* "none" or a spec mutation (non-vacuity runs of Timer.tla)

MinOf(S) == CHOOSE x \in S : \A y \in S : x <= y
Heap(m, c) == {t \in DOMAIN m : m[t].armed /\ m[t].clk = c}
MinTarget(m, c) == IF Heap(m, c) = {} THEN INF ELSE MinOf({m[t].tgt : t \in Heap(m, c)})
MinTimers(m, c) == {t \in Heap(m, c) : m[t].tgt = MinTarget(m, c)}       \* dth_min[DTH_TARGET_ID] is one of them

\* _dispatch_timer_unote_compute_missed(dt, now, prev): <<new record, prev + missed>>
\*   missed = (now - target) / interval; ++missed; target += missed * interval (or UINT64_MAX for one-shots)
Missed(r, n) == IF n < r.tgt THEN 1                                   \* (unsigned wrap in C; only mutants get here)
                ELSE IF r.iv >= INF THEN 1
                ELSE (n - r.tgt) \div r.iv + (IF Mut = "missed_off" THEN 2 ELSE 1)
ComputeMissed(r, n, prev) ==
    LET missed == Missed(r, n)
    IN <<IF r.iv < INF THEN [r EXCEPT !.tgt = @ + missed * r.iv] ELSE [r EXCEPT !.tgt = INF], prev + missed>>

\* number of interval boundaries start, start+iv, ... that have passed at time n
Boundaries(start, iv, n) == IF n < start THEN 0 ELSE IF iv >= INF THEN 1 ELSE (n - start) \div iv + 1
=============================================================================
