------------------------------- MODULE IoTrace -------------------------------
(* Trace validation for C14: the API-level history recorded by harness/drv_io.c on the real
   library must be a behaviour of Io.tla.

   Logged (each record is bound to one spec action, all logged fields compared):
     client calls SetLow/SetHigh/Read/Write/Barrier/Close/StopCall..StopRet/Release,
     every handler invocation H (operation, done, size, NULL?, error class, stream position),
     BarStart (with the bytes consumed from / written to the descriptor at that moment) / BarEnd,
     Cleanup, and the peer's PeerWrite / PeerUnwrite / PeerClose / PeerRead / PeerHup.
   Silent (placed by TLC anywhere between the neighbouring records): the channel-queue,
   barrier-queue and stream-queue blocks, the system calls with their kernel chunking, EAGAIN,
   source wake-ups, deliveries being posted, the close queue, the moment DIO_STOPPED becomes
   visible between StopCall and StopRet.

   Granularity reduction for the silent-step search (what the task allows, stated here): the
   byte count of a silent read(2)/write(2) is not enumerated over 1..m; it is the largest count
   that does not overshoot the size of the operation's next recorded delivery (TraceK).  This
   loses no behaviour: system calls that are followed by no delivery are not observable and
   merge with their successor (see the argument in tools/props/C14.py), while their placement
   in time stays free.  Kernel buffer space is unknown to the log, so EAGAIN on write is folded
   into the placement of the write step (TraceMode in Io.tla).

   Log points: PeerWrite/PeerClose/PeerHup are logged BEFORE the system call, PeerRead after it,
   StopCall/StopRet bracket the only client call with a synchronous effect. *)
EXTENDS Io, IOUtils, TLCExt

Tr == ndJsonDeserialize(IOEnv.TRACE)
\* record 1: {"e":"Header","maxops":N,"maxbars":B,"chunk":C}
TraceMaxOps == Tr[1].maxops
TraceMaxBars == Tr[1].maxbars
TraceChunk == Tr[1].chunk

VARIABLES l,        \* next record
          cxi,      \* index of the Reset record of the running execution (kind, per-operation deliveries)
          stopping  \* between StopCall and StopRet
tvars == <<vars, l, cxi, stopping>>
cx == Tr[cxi]

Rcd == Tr[l]
Ev(e) == l <= Len(Tr) /\ Rcd.e = e
Consume == l' = l + 1 /\ UNCHANGED <<cxi, stopping>>
Silent == l <= Len(Tr) /\ UNCHANGED <<l, cxi, stopping>>

TInit == Init /\ l = 2 /\ cxi = 2 /\ stopping = FALSE /\ TLCSet(1, 0)

ErrClass(e) == IF e = 0 THEN 0 ELSE IF e = ECANCELED THEN 2 ELSE 1

(* ------------------------------ chunk look-ahead ------------------------------ *)
PendingInv(q) == Len(q) + Cardinality({i \in 1 .. Len(q) : Len(q[i].inv) = 2})
\* deliveries of operation o posted so far (run or waiting on op_q)
Posted(o) == ninv[o] + PendingInv(opq[o])
TraceK(o, m) ==
  LET hs == cx.ops[o]
      i == IF op[o].conv THEN 1 ELSE Posted(o) + 1 IN    \* convenience: the one CH record
  IF i > Len(hs) THEN {}
  ELSE LET need == IF op[o].dir = "R"
                   THEN IF op[o].conv THEN hs[i].n - op[o].total
                        ELSE hs[i].n - (Size(op[o].data) + op[o].buflen)
                   ELSE (op[o].len - hs[i].n) - op[o].total
       IN IF need >= 1 /\ m >= 1 THEN {Min(need, m)} ELSE {}

(* ------------------------------ search guidance ------------------------------ *)
\* Two reductions keep the depth-first search (nearly) linear; both only cut branches that
\* cannot be completed to an accepting behaviour, or that are permutations of kept ones.
\*  (1) A decision of the library that fixes how an operation will end is checked against the
\*      operation's recorded end at once instead of hundreds of records later: once DIO_STOPPED is
\*      visible every operation that is not yet disposed ends with an error (strict reading of
\*      STOP only); once DIO_CLOSED is set every operation still before the barrier queue ends
\*      with ECANCELED.
\*  (2) A handler invocation whose block is at the head of its op_q, a handler return and the end
\*      marker commute with every silent step (they disable nothing): they are consumed first.
\* the delivery just posted for o is the next recorded one
NextMatches(o) ==
  LET blk == opq'[o][Len(opq'[o])]
      h == cx.ops[o][Posted(o) + 1] IN
  /\ Size(blk.inv[1].data) = h.n /\ (h.done = 1) = blk.inv[1].done /\ ErrClass(blk.inv[1].err) = h.err
\*  (0) Every delivery the library posts must be the operation's next recorded one (op_q is
\*      FIFO): a wrong guess dies where it is made, not when its handler record comes up.
FinalErr(o) == LET hs == cx.ops[o] IN IF hs = <<>> THEN 0 ELSE hs[Len(hs)].err
RECURSIVE FlatInv(_)
FlatInv(q) == IF q = <<>> THEN <<>> ELSE q[1].inv \o FlatInv(Tail(q))
PostsOk ==
  \A o \in Ops : (op[o].st # "none" /\ ~op[o].conv) =>
     LET f == FlatInv(opq[o])
         hs == cx.ops[o] IN
     /\ ninv[o] + Len(f) <= Len(hs)
     /\ \A j \in 1 .. Len(f) :
          LET h == hs[ninv[o] + j] IN
          /\ Size(f[j].data) = h.n /\ f[j].done = (h.done = 1) /\ f[j].null = (h.null = 1)
          /\ ErrClass(f[j].err) = h.err
\*      Under the strict reading of STOP an operation that is cancelled moves no byte after the
\*      flag is visible (a system call already in flight excepted): at that moment it has moved
\*      exactly what its recorded history adds up to.
StopPrune2 == Liberal # "no" \/
  \A o \in Ops : (op[o].st \in {"chq", "created", "sq", "listed"} /\ FinalErr(o) = 2) =>
     \/ op[o].total = cx.tot[o]
     \/ /\ pend[op[o].dir].o = o /\ pend[op[o].dir].res = "perform"      \* the call in flight adds its chunk
        /\ (cx.tot[o] - op[o].total) \in TraceK(o, INF)
StopPrune == Liberal # "no" \/
             \A o \in Ops : op[o].st \in {"chq", "created", "sq", "listed"} => FinalErr(o) # 0
\* without a STOP in the execution an operation that ends with ECANCELED was turned away at the
\* barrier queue at the latest
EnqPrune == (Head(bq).k = "enq" /\ flags = {}) => ~(FinalErr(Head(bq).o) = 2 /\ cx.hasstop = 0)
ClosePrune == \A o \in Ops : op[o].st \in {"chq", "created"} => FinalErr(o) = 2
\*      (also: a system call that ends with a kernel error / with EOF / a convenience read that
\*      completes on EAGAIN must fit the operation's recorded end)
SyscallPrune(d) ==
  LET o == pend[d].o IN
  /\ (op'[o].err = EKERN) => FinalErr(o) = 1
  /\ (pend'[d].res = "DAC") => FinalErr(o) # 1
  /\ (pend'[d].res = "CRESUME") => op'[o].total = cx.ops[o][1].n
HReady == /\ Ev("H") /\ opq[Rcd.o] # <<>>
          /\ LET inv == Head(opq[Rcd.o]).inv[1] IN
             /\ inv.done = (Rcd.done = 1) /\ inv.null = (Rcd.null = 1)
             /\ ErrClass(inv.err) = Rcd.err /\ Size(inv.data) = Rcd.n
Forced == HReady \/ Ev("HEnd") \/ Ev("ExecEnd")

(* ------------------------------ executions ------------------------------ *)
KinOf(r) == IF r.kind = "filein" THEN [wpos |-> r.insize, rpos |-> 0, closed |-> TRUE]
            ELSE [wpos |-> 0, rpos |-> 0, closed |-> FALSE]
TReset ==
  /\ Ev("Reset") /\ l' = l + 1 /\ cxi' = l /\ stopping' = FALSE
  /\ l = 2 \/ (Quiescent /\ ~stopping /\ IF mode = "chan" THEN clq = "ran" ELSE \A o \in Ops : cuser[o] \in {"none", "ran"})
  /\ mode' = (IF Rcd.kind \in {"convin", "convout", "convsock"} THEN "conv" ELSE "chan")
  /\ cacc' = [o \in Ops |-> <<>>] /\ cerr' = [o \in Ops |-> 0]
  /\ cuser' = [o \in Ops |-> "none"] /\ cres' = [o \in Ops |-> NoRes]
  /\ cstate' = "run" /\ nops' = 0 /\ nbars' = 0 /\ nsetl' = 0 /\ nseth' = 0
  /\ closeCall' = FALSE /\ stopCall' = FALSE /\ released' = FALSE /\ wsub' = 0
  /\ flags' = {} /\ clow' = Chunk /\ chigh' = INF /\ cint' = "off"
  /\ chFd' = (Rcd.kind \notin {"convin", "convout", "convsock"})
  /\ chq' = <<>> /\ bq' = <<>> /\ bqSusp' = 0
  /\ sq' = [d \in Dirs |-> <<>>] /\ pend' = [d \in Dirs |-> NoPend]
  /\ sops' = [d \in Dirs |-> <<>>] /\ cur' = [d \in Dirs |-> 0] /\ srcRun' = [d \in Dirs |-> FALSE]
  /\ op' = [o \in Ops |-> NoneOp] /\ opq' = [o \in Ops |-> <<>>]
  /\ grp' = 0 /\ fdref' = (IF Rcd.kind \in {"convin", "convout", "convsock"} THEN 0 ELSE 1)
  /\ dord' = [d \in Dirs |-> <<>>]
  /\ bars' = [b \in Bars |-> [st |-> "none", before |-> 0]]
  /\ clq' = "held" /\ cleanupRuns' = 0
  /\ kin' = KinOf(Rcd)
  /\ kout' = [content |-> <<>>, pread |-> 0, hup |-> FALSE]
  /\ hist' = [o \in Ops |-> <<>>] /\ dcat' = [o \in Ops |-> <<>>]
  /\ ninv' = [o \in Ops |-> 0] /\ last' = [o \in Ops |-> NoInv] /\ doneCnt' = [o \in Ops |-> 0]
  /\ consumed' = [o \in Ops |-> <<>>] /\ written' = [o \in Ops |-> <<>>]
  /\ sched' = <<>>

(* ------------------------------ client records ------------------------------ *)
RECURSIVE Regs(_, _)
Regs(off, frag) == IF frag = <<>> THEN <<>> ELSE << <<off, frag[1]>> >> \o Regs(off + frag[1], Tail(frag))

TSetLow == Ev("SetLow") /\ Consume /\ CSetLow(Rcd.v)
TSetHigh == Ev("SetHigh") /\ Consume /\ CSetHigh(Rcd.v)
TSetInterval == Ev("SetInterval") /\ Consume /\ CSetInterval(IF Rcd.strict = 1 THEN "strict" ELSE "lax")
TRead == Ev("Read") /\ Consume /\ CSubmit(Rcd.o, "R", Rcd.len, <<>>)
TWrite == Ev("Write") /\ Consume /\ Rcd.off = wsub /\ CSubmit(Rcd.o, "W", Rcd.len, Regs(Rcd.off, Rcd.frag))
TCRead == Ev("CRead") /\ Consume /\ CConv(Rcd.o, "R", Rcd.len, <<>>)
TCWrite == Ev("CWrite") /\ Consume /\ Rcd.off = wsub /\ CConv(Rcd.o, "W", Rcd.len, Regs(Rcd.off, Rcd.frag))
\* the handler of dispatch_read / dispatch_write
TCH ==
  /\ Ev("CH") /\ Consume /\ ConvRun(Rcd.o)
  /\ ErrClass(cerr[Rcd.o]) = Rcd.err
  /\ Size(cacc[Rcd.o]) = Rcd.n
  /\ Rcd.n > 0 => SameBytes(cacc[Rcd.o], << <<Rcd.off, Rcd.n>> >>)
  /\ op[Rcd.o].dir = "W" => ((Rcd.null = 1) = (cacc[Rcd.o] = <<>>))
TBarrier == Ev("Barrier") /\ Consume /\ CBarrier(Rcd.b)
TClose == Ev("Close") /\ Consume /\ CClose
TRelease == Ev("Release") /\ Consume /\ CRelease
TStopCall == /\ Ev("StopCall") /\ l' = l + 1 /\ stopping' = TRUE /\ UNCHANGED <<cxi, vars>>
\* _dispatch_io_stop sets DIO_STOPPED and enqueues its block somewhere inside the call
TStopEffect == /\ stopping /\ ~stopCall /\ Silent /\ StopPrune /\ StopPrune2 /\ CStop /\ UNCHANGED cstate
TStopRet == /\ Ev("StopRet") /\ stopCall /\ l' = l + 1 /\ stopping' = FALSE /\ UNCHANGED <<cxi, vars>>

(* ------------------------------ library records ------------------------------ *)
TH ==
  /\ Ev("H") /\ Consume
  /\ LET o == Rcd.o IN
     /\ opq[o] # <<>>
     /\ LET inv == Head(opq[o]).inv[1] IN
        /\ inv.done = (Rcd.done = 1)
        /\ inv.null = (Rcd.null = 1)
        /\ ErrClass(inv.err) = Rcd.err
        /\ Size(inv.data) = Rcd.n
        /\ Rcd.n > 0 => SameBytes(inv.data, << <<Rcd.off, Rcd.n>> >>)
     /\ HandlerRun(o)
THEnd == Ev("HEnd") /\ Consume /\ UNCHANGED vars
TBarStart ==
  /\ Ev("BarStart") /\ Consume /\ BarrierStart(Rcd.b)
  /\ (Rcd.cin >= 0 /\ cx.kind \in {"pipein", "sock", "filein"}) => kin.rpos = Rcd.cin
  /\ (Rcd.wout >= 0 /\ cx.kind \in {"pipeout", "sock", "fileout"}) => Size(kout.content) = Rcd.wout
TBarEnd == Ev("BarEnd") /\ Consume /\ BarrierEnd(Rcd.b)
TCleanup == Ev("Cleanup") /\ Consume /\ CleanupRun
\* the cleanup handler of a first channel that handed the descriptor over with
\* dispatch_io_create_with_io and was closed at once: same fd_entry, same close queue
TCleanup2 == Ev("Cleanup2") /\ Consume /\ clq \in {"posted", "ran"} /\ UNCHANGED vars
\* end of an execution: every byte the handlers saw was counted by the harness
TExecEnd == /\ Ev("ExecEnd") /\ Consume /\ UNCHANGED vars
            /\ cx.kind \in {"pipein", "sock", "filein"} => kin.rpos = Rcd.cin

(* ------------------------------ peer records ------------------------------ *)
TPeerWrite == Ev("PeerWrite") /\ Consume /\ PeerWrite(Rcd.k)
TPeerUnwrite ==   \* the (atomic) write of that piece did not take place
  /\ Ev("PeerUnwrite") /\ Consume
  /\ kin.wpos - Rcd.k >= kin.rpos
  /\ kin' = [kin EXCEPT !.wpos = @ - Rcd.k]
  /\ UNCHANGED <<cvars, chvars, chq, bq, bqSusp, stvars, libvars, bars, clvars, kout, hvars, gvars, convvars, sched>>
TPeerClose == Ev("PeerClose") /\ Consume /\ PeerClose
TPeerRead == Ev("PeerRead") /\ Consume /\ PeerRead(Rcd.k)
TPeerHup == Ev("PeerHup") /\ Consume /\ PeerHup

(* ------------------------------ silent library steps ------------------------------ *)
TSilent ==
  /\ Silent
  /\ \/ ChqStep
     \/ BqStep /\ (Head(bq).k = "close" /\ flags = {} => ClosePrune) /\ EnqPrune
     \/ \E d \in Dirs : SqSenq(d) \/ SqCleanup(d) \/ SqPick(d) \/ (SqSyscall(d, TraceK) /\ SyscallPrune(d)) \/ SqFinish(d) \/ SourceFire(d)
     \/ CloseQRun \/ ChannelDispose
     \* an interval timer fires: only worth it if it produces the next recorded delivery
     \/ \E o \in Ops : TimerPost(o) /\ Posted(o) < Len(cx.ops[o]) /\ cx.ops[o][Posted(o) + 1].done = 0
     \/ \E d \in Dirs, o \in Ops :
           /\ SqHead(d, "timer") /\ o = Head(sq[d]).o
           /\ SqTimer(d)
           /\ op[o].st = "listed" => (Len(opq'[o]) = Len(opq[o]) + 1 /\ NextMatches(o))
     \/ \E o \in Ops : op[o].conv /\ HandlerRun(o)      \* the internal handler of a convenience call

\* depth-first search explores the LAST disjunct's successors first: consuming a record is
\* preferred to running the library ahead
TNext == \/ ~Forced /\ TSilent
         \/ TReset
         \/ TSetLow \/ TSetHigh \/ TSetInterval \/ TRead \/ TWrite \/ TCRead \/ TCWrite \/ TCH \/ TBarrier \/ TClose \/ TRelease
         \/ TStopCall \/ (~Forced /\ TStopEffect) \/ TStopRet
         \/ TH \/ THEnd \/ TBarStart \/ TBarEnd \/ TCleanup \/ TCleanup2 \/ TExecEnd
         \/ TPeerWrite \/ TPeerUnwrite \/ TPeerClose \/ TPeerRead \/ TPeerHup

TSpec == TInit /\ [][TNext]_tvars

MaxL == IF TLCGet(1) < l THEN TLCSet(1, l) ELSE TRUE
Accepted == l > Len(Tr)
StopWhenAccepted == Accepted => (PrintT("TRACE_ACCEPTED") /\ TLCSet("exit", TRUE))
Post == PrintT(<<"MAXL", TLCGet(1), Len(Tr)>>)
=============================================================================
