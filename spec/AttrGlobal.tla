----------------------------- MODULE AttrGlobal -----------------------------
(* C18 (c): dispatch_get_global_queue(identifier, flags).

   Transcribed from src/init.c:376 dispatch_get_global_queue,
   src/shims/priority.h:173 _dispatch_qos_from_queue_priority / _dispatch_qos_from_qos_class,
   src/inline_internal.h:1890 _dispatch_get_root_queue (table index 2*(qos-1)+overcommit).

   Reference meaning (dispatch/queue.h:563-598 and the property): every documented
   priority and QoS identifier denotes a class; the result is the global queue of that
   class (for a class the platform does not support: of that class or of the supported
   class it is clamped to), the overcommit sibling iff DISPATCH_QUEUE_OVERCOMMIT is
   passed, equal classes give the same queue, different supported classes different
   queues, undefined identifiers or flags give NULL.

   KNOWN DEVIATIONS of the pinned tree, switchable.  D1: with FixedCmp = FALSE the
   `#if !HAVE_PTHREAD_WORKQUEUE_QOS` block is transcribed as written -- it compares the
   dispatch_qos_t (1..6) with the qos_class_t constants QOS_CLASS_MAINTENANCE (0x05) and
   QOS_CLASS_USER_INTERACTIVE (0x21) -- so DISPATCH_QOS_USER_INITIATED (5) is "clamped" to
   BACKGROUND.  With FixedCmp = TRUE it compares with DISPATCH_QOS_MAINTENANCE /
   DISPATCH_QOS_USER_INTERACTIVE (patches/C18-fix-global-queue-qos-compare.diff).
   D2: with FixedWide = FALSE an identifier that differs from a QoS class value only above
   bit 31 is accepted, because the default branch of _dispatch_qos_from_queue_priority
   casts the intptr_t to qos_class_t (patches/C18-fix-global-queue-wide-identifier.diff). *)
EXTENDS Attr

CONSTANTS FixedCmp,     \* TRUE: repaired clamp comparison; FALSE: the pinned tree (deviation D1)
          FixedWide,    \* TRUE: identifiers that do not fit qos_class_t are undefined; FALSE: the
                        \* pinned tree truncates them with the (qos_class_t) cast (deviation D2)
          IdLo, IdHi,   \* identifiers explored exhaustively (as plain integers)
          WideIds,      \* a few identifiers outside 32 bits: <<hi, lo>> stands for hi * 2^32 + lo
          FlagSet       \* flags explored

(* An identifier is an intptr_t.  TLC integers have 32 bits, so an identifier is the pair
   <<hi, lo>> = hi * 2^32 + lo with lo a (small) integer; <<0, lo>> is the plain value lo. *)
PRI_HIGH == 2  PRI_DEFAULT == 0  PRI_LOW == -2  PRI_BACKGROUND == -32768
PRI_NON_INTERACTIVE == -128      \* private/queue_private.h
QUEUE_OVERCOMMIT == 2

\* _dispatch_qos_from_queue_priority: a switch on the full intptr_t, whose default branch
\* casts to qos_class_t (an unsigned int: the upper half is dropped, a negative value
\* becomes >= 2^31 and names no class)
QosFromQueuePriority(id) ==
    LET hi == id[1]  p == id[2] IN
    CASE hi = 0 /\ p = PRI_BACKGROUND      -> QOS_BACKGROUND
      [] hi = 0 /\ p = PRI_NON_INTERACTIVE -> QOS_UTILITY
      [] hi = 0 /\ p = PRI_LOW             -> QOS_UTILITY
      [] hi = 0 /\ p = PRI_DEFAULT         -> QOS_DEFAULT
      [] hi = 0 /\ p = PRI_HIGH            -> QOS_USER_INITIATED
      [] OTHER -> IF FixedWide /\ hi # 0 THEN QOS_UNSPECIFIED
                  ELSE IF p < 0 THEN QOS_UNSPECIFIED ELSE QosFromClass(p)

\* flags & ~DISPATCH_QUEUE_OVERCOMMIT, flags & DISPATCH_QUEUE_OVERCOMMIT on small naturals
HasBit2(fl) == (fl \div 2) % 2 = 1
OtherBits(fl) == fl - (IF HasBit2(fl) THEN 2 ELSE 0) # 0

NoQueue == -1
\* dispatch_get_global_queue: result = index into _dispatch_root_queues, or NoQueue (NULL)
GetGlobalQueue(id, fl) ==
    IF OtherBits(fl) THEN NoQueue
    ELSE LET qos0 == QosFromQueuePriority(id)
             qos  == IF QosSupport THEN qos0
                     ELSE IF FixedCmp
                       THEN (IF qos0 = QOS_MAINTENANCE THEN QOS_BACKGROUND
                             ELSE IF qos0 = QOS_USER_INTERACTIVE THEN QOS_USER_INITIATED ELSE qos0)
                       \* as written: a dispatch_qos_t compared with qos_class_t constants
                       ELSE (IF qos0 = CLS_MAINTENANCE THEN QOS_BACKGROUND
                             ELSE IF qos0 = CLS_USER_INTERACTIVE THEN QOS_USER_INITIATED ELSE qos0)
         IN IF qos = QOS_UNSPECIFIED THEN NoQueue
            ELSE IF Mut = "oc_sibling" THEN RootIdx(qos, ~HasBit2(fl))
            ELSE IF Mut = "no_flag_check" THEN RootIdx(qos, HasBit2(fl))
            ELSE RootIdx(qos, HasBit2(fl))
GetGlobalQueueM(id, fl) ==
    IF Mut = "no_flag_check" /\ OtherBits(fl) THEN GetGlobalQueue(id, IF HasBit2(fl) THEN 2 ELSE 0)
    ELSE GetGlobalQueue(id, fl)

(* -------- reference: documented identifier -> class -------- *)
DocClass(id) ==
    IF id[1] # 0 THEN -1                   \* not an identifier any header defines
    ELSE LET p == id[2] IN
    CASE p = PRI_HIGH -> CLS_USER_INITIATED
      [] p = PRI_DEFAULT -> CLS_DEFAULT
      [] p = PRI_LOW -> CLS_UTILITY
      [] p = PRI_NON_INTERACTIVE -> CLS_UTILITY
      [] p = PRI_BACKGROUND -> CLS_BACKGROUND
      [] p \in ValidClasses \ {CLS_UNSPECIFIED} -> p
      [] OTHER -> -1                       \* undefined identifier
\* the global queues allowed as the result (NoQueue = NULL)
Allowed(id, fl) ==
    IF fl \notin {0, QUEUE_OVERCOMMIT} \/ DocClass(id) = -1 THEN {NoQueue}
    ELSE LET dq == QosFromClass(DocClass(id)) IN
         {RootIdx(dq, fl = QUEUE_OVERCOMMIT), RootIdx(Supported(dq), fl = QUEUE_OVERCOMMIT)}

\* 65536, INT32_MAX, -INT32_MAX, 2^32 + {0x19, 0, 2, 0x21}, -2^32 + 2, 0x7fffffff00000015, 5 * 2^32 + 9
IdLoSmall == -300         \* mutant / deviation runs (the interesting identifiers are all above)
IdLoFull == -32768       \* (negative literals cannot be written in a TLC configuration file)
WideIdsDef == {<<0, 65536>>, <<0, 2147483647>>, <<0, -2147483647>>, <<1, 25>>, <<1, 0>>, <<1, 2>>,
               <<-1, 2>>, <<2147483647, 21>>, <<1, 33>>, <<5, 9>>}
Ids == {<<0, p>> : p \in IdLo..IdHi} \cup WideIds
VARIABLES id, fl, res
gvars == <<id, fl, res, attr, g, q>>
GInit == /\ id \in Ids /\ fl \in FlagSet /\ res = GetGlobalQueueM(id, fl)
         /\ attr = NULLATTR /\ g = ZeroInfo /\ q = NoQ      \* (unused variables of Attr)
GNext == UNCHANGED gvars
GSpec == GInit /\ [][GNext]_gvars

\* the result is the (or, for an unsupported class, a) documented queue, NULL exactly when undefined
GlobalDocumented == res \in Allowed(id, fl)
\* equal classes same queue; different supported classes different queues; the overcommit
\* sibling is a different queue (a law of the function on the documented set, evaluated once)
DocIds == {i \in Ids : DocClass(i) # -1}
GlobalClasses ==
    \A a, b \in DocIds : \A f \in {0, QUEUE_OVERCOMMIT} :
        LET ca == Supported(QosFromClass(DocClass(a)))  cb == Supported(QosFromClass(DocClass(b))) IN
        /\ (DocClass(a) = DocClass(b)) => GetGlobalQueueM(a, f) = GetGlobalQueueM(b, f)
        /\ (ca # cb) => GetGlobalQueueM(a, f) # GetGlobalQueueM(b, f)
        /\ GetGlobalQueueM(a, 0) # GetGlobalQueueM(a, QUEUE_OVERCOMMIT)
GlobalClassesOnce == (id = <<0, IdLo>> /\ fl = 0) => GlobalClasses

(* test vectors: every (identifier, flags) whose allowed set is not {NULL}; everything
   else in the explored domain must give NULL *)
RootLabel(idx) ==
    LET names == <<"maintenance", "background", "utility", "default", "user-initiated", "user-interactive">>
    IN "com.apple.root." \o names[(idx \div 2) + 1] \o "-qos" \o (IF idx % 2 = 1 THEN ".overcommit" ELSE "")
GRows(u) == LET S == {r \in Ids \X FlagSet : Allowed(r[1], r[2]) # {NoQueue}} IN
    {[hi |-> r[1][1], lo |-> r[1][2], fl |-> r[2],
      allowed |-> {RootLabel(x) : x \in Allowed(r[1], r[2])},
      class |-> DocClass(r[1])] : r \in S}
GVectors(u) == [lo |-> IdLo, hi |-> IdHi, wide |-> WideIds, flags |-> FlagSet, rows |-> GRows(u),
                other |-> "NULL"]
GEmit == IF "C18_OUT" \in DOMAIN IOEnv
           THEN JsonSerialize(IOEnv.C18_OUT, GVectors(TLCGet("distinct"))) /\ PrintT(<<"EMITTED", Cardinality(GRows(0))>>)
           ELSE TRUE
=============================================================================
