------------------------------- MODULE Block -------------------------------
(* Dispatch block objects (dispatch_block_create / _perform / _cancel / _testcancel / _wait /
   _notify and the three invoke paths), src/queue.c:291-703, src/block.cpp, src/queue_internal.h
   (struct dispatch_block_private_data_s).  One action per shared-memory access of that code:

     _dispatch_block_create          : private data copy-constructed inside the heap block:
                                       dbpd_atomic_flags = 0, dbpd_performed = 0, dbpd_queue = NULL,
                                       dbpd_thread = 0, dbpd_group = _dispatch_group_create_and_enter()  (Init)
     dispatch_block_perform          : stack private data with dbpd_atomic_flags = DBF_PERFORM, then
                                       _dispatch_block_invoke_direct: no group, no dbpd_performed
     dispatch_block_cancel           : os_atomic_or2o(dbpd_atomic_flags, DBF_CANCELED, relaxed)
     dispatch_block_testcancel       : PLAIN read of dbpd_atomic_flags
     dispatch_block_wait             : os_atomic_or_orig2o(dbpd_atomic_flags, DBF_WAITING) [crash if WAITED|WAITING],
                                       os_atomic_xchg2o(dbpd_queue, NULL) [boost: dx_wakeup(.., CONSUME_2)],
                                       PLAIN read of dbpd_thread, os_atomic_load2o(dbpd_performed)
                                       [crash if > 1 or (thread && queue)], dispatch_group_wait(dbpd_group, timeout),
                                       timed out: os_atomic_and2o(dbpd_atomic_flags, ~DBF_WAITING)
                                       else     : os_atomic_or2o(dbpd_atomic_flags, DBF_WAITED)
     dispatch_block_notify           : os_atomic_load2o(dbpd_performed) [crash if > 1],
                                       dispatch_group_notify(dbpd_group, queue, block)
     _dispatch_continuation_init_slow (dispatch_async / dispatch_group_async of a block object) and
     _dispatch_sync_block_with_privdata (dispatch_sync): os_atomic_cmpxchg2o(dbpd_queue, NULL, dq)
                                       [+ _dispatch_retain_2(dq)]; DISPATCH_BLOCK_BARRIER -> DC_FLAG_BARRIER
     _dispatch_block_invoke_direct   (b())        : PLAIN read of dbpd_atomic_flags [crash if WAITED],
                                       CANCELED => skip, else PLAIN write dbpd_thread, body;
                                       unless PERFORM: os_atomic_inc2o(dbpd_performed) == 1 => dispatch_group_leave
     _dispatch_block_sync_invoke     (dispatch_sync): same, then os_atomic_xchg2o(dbpd_queue, NULL) [release_2]
     _dispatch_block_async_invoke2   (async/group_async): same as sync_invoke, then Block_release when the
                                       continuation consumes the block; dispatch_group_async's own group is
                                       left afterwards by _dispatch_continuation_with_group_invoke.
       two entry points: _dispatch_block_async_invoke_and_release (continuations with DC_FLAG_CONSUME:
       dispatch_async / dispatch_group_async: the invoke gives back the copy made at submission) and the
       NON-CONSUMING _dispatch_block_async_invoke (continuations without DC_FLAG_CONSUME: dispatch_after with
       a deadline in the future, "after", and a block object installed as the event handler of a (one-shot
       timer) source, "handler": the source owns the copy; it is given back by _dispatch_source_handler_free
       after the callout resp. when the cancelled source disposes of its handlers, never by the invoke).
       Both take the same skip-if-cancelled decision.  The item is handed to the queue when the timer fires
       (I_Fire); dispatch_after with a deadline that is not in the future is dispatch_async ("async").

   ASSUME / GUARANTEE SPLIT.  The private dispatch_group (dbpd_group) is modelled abstractly: a count
   (1 at creation), a generation that advances when the count reaches zero, waiters that are released by a
   generation change, and notifications that are submitted exactly once when the count is or becomes zero.
   That dispatch_group really behaves like this is property C07 (spec/Group.tla); here it is ASSUMED, and
   what is decided is that the block-object code drives the group correctly (entered once at creation, left
   exactly once, at the first completion and not before).  Queues are abstract executors (a serial queue, or
   a barrier item on a concurrent queue, starts after everything submitted before it has finished and runs
   alone; decided by C01/C02/C04): the `gate` item stands for work submitted before the block object.
   Real time is not modelled: a timed wait may time out at any moment; "non-zero only after the full timeout"
   is the ghost `tmo` here and a wall-clock oracle in the driver.

   Property C19 is stated on ghost variables (completed, cancelled, cbs/ran per invocation, nsub, ...). *)
EXTENDS Integers, FiniteSets, Sequences, TLC

CONSTANTS Threads,      \* client threads
          Workers,      \* threads that run asynchronously submitted work
          NoThr,        \* "no thread" (dbpd_thread = 0, unbound invocation)
          NIds,         \* notification block identities
          Modes,        \* subset of {"obs", "multi"}: "obs" = executed once, may be waited on / observed;
                        \*   "multi" = executed several times, never waited on nor observed (dispatch/block.h)
          Apis,         \* subset of {"async", "gasync", "sync", "direct", "after", "handler"}
          QSerials,     \* subset of BOOLEAN: the target queue is serial
          Barriers,     \* subset of BOOLEAN: DISPATCH_BLOCK_BARRIER
          Gates,        \* subset of BOOLEAN: an earlier item is on the queue when the execution starts
          MaxSubMulti,  \* submissions in "multi" mode
          MaxCancel, MaxTest, MaxWait, MaxPerform,   \* bounds on API calls (model checking only; -1 = unbounded)
          Fine,         \* TRUE: pure control steps (returns, end of the group wake) are separate steps, as
                        \*   trace validation needs them; FALSE: merged into the preceding access (model checking)
          Dev,          \* observed deviations of the code (DESIGN 6, V3): point-wise overrides [act, old, new] of the
                        \*   word function of an action on dbpd_atomic_flags; {} = the code as transcribed
          Mut           \* "none" or the name of a spec mutation (non-vacuity runs) / of a named deviation

CANCELED == 1  WAITING == 2  WAITED == 4  PERFORM == 8
Has(w, b) == (w \div b) % 2 = 1
Or(w, b)  == IF Has(w, b) THEN w ELSE w + b
Clr(w, b) == IF Has(w, b) THEN w - b ELSE w

\* new value of dbpd_atomic_flags written by action `act`: as transcribed unless a deviation overrides it
AFNew(act, w, dflt) == IF \E d \in Dev : d.act = act /\ d.old = w
                         THEN (CHOOSE d \in Dev : d.act = act /\ d.old = w).new ELSE dflt

QApis == {"async", "gasync", "sync", "after", "handler"}   \* submissions that go through the queue
ConsumeApis == {"async", "gasync"}         \* DC_FLAG_CONSUME: _dispatch_block_async_invoke_and_release
TimerApis == {"after", "handler"}          \* no DC_FLAG_CONSUME: _dispatch_block_async_invoke, started by a timer
CopyApis == ConsumeApis \cup TimerApis     \* _dispatch_continuation_init: the continuation holds a Block_copy
Kinds == {"now", "timed", "forever"}
MaxInv == IF MaxSubMulti > 1 THEN MaxSubMulti ELSE 1
Bounded(n, max) == max < 0 \/ n < max

VARIABLES cfg,        \* [mode, qserial, barrier, gate]: fixed per execution
          af,         \* dbpd_atomic_flags
          performed,  \* dbpd_performed
          dq,         \* dbpd_queue (0 = NULL, 1 = the target queue)
          dthr,       \* dbpd_thread
          qref,       \* ghost: queue references held through dbpd_queue (+2 at the CAS, -2 by whoever swaps it out)
          gcnt, ggen, \* private group: outstanding count, generation
          nst, nsub,  \* per notification: "none"|"calling"|"registered"|"fired"|"ran"; times submitted
          gate,       \* earlier item on the queue: "none"|"queued"|"running"|"done"
          ug,         \* count of the user's group (dispatch_group_async)
          bref,       \* ghost: copies (references) of the block object held by continuations
          pc, lv,     \* per client thread: control point, locals
          inv,        \* per submission: [api, pc, afl, thr, cbs, ran, skip]
          nsubm, ncancel, ntest, nwait, nperf,    \* API calls made
          \* ----- ghosts -----
          completed,  \* the first execution (or skipped execution) of the block object has completed
          cancelled,  \* a dispatch_block_cancel has taken effect (its atomic or is done)
          bodyStarts, bodyEnds,
          testBad,    \* a testcancel that began after a cancel took effect returned 0
          testFalse,  \* a testcancel returned non-zero although nobody cancelled
          waitedOK,   \* a wait returned 0 (client contract: no further wait)
          lastTest,   \* per thread: result of the last testcancel (-1 none)
          wres,       \* [rc, tmo] of the current / last wait (one wait at a time): rc -1 undecided, 0, 1 = timed out;
                      \*   tmo = its timeout step has been taken
          crashed     \* "none" or the DISPATCH_CLIENT_CRASH reached

blkv  == <<af, performed, dq, dthr, qref>>
grpv  == <<gcnt, ggen, nst, nsub>>
envv  == <<gate, ug, bref>>
cntv  == <<nsubm, ncancel, ntest, nwait, nperf>>
ghov  == <<completed, cancelled, bodyStarts, bodyEnds, testBad, testFalse, waitedOK, lastTest, wres, crashed>>
vars  == <<cfg, blkv, grpv, envv, pc, lv, inv, cntv, ghov>>

L0 == [kind |-> "now", bq |-> 0, bth |-> NoThr, perf |-> 0, gen |-> 0,
       n |-> 0, k |-> 0, must |-> FALSE]
I0 == [api |-> "none", pc |-> "none", afl |-> 0, thr |-> NoThr, cbs |-> FALSE, ran |-> FALSE, skip |-> FALSE]

InitWith(c) ==
    /\ cfg = c
    /\ af = 0 /\ performed = 0 /\ dq = 0 /\ dthr = NoThr /\ qref = 0
    /\ gcnt = 1 /\ ggen = 0                         \* _dispatch_group_create_and_enter()
    /\ nst = [n \in NIds |-> "none"] /\ nsub = [n \in NIds |-> 0]
    /\ gate = IF c.gate THEN "queued" ELSE "none"
    /\ ug = 0 /\ bref = 0
    /\ pc = [t \in Threads |-> "idle"] /\ lv = [t \in Threads |-> L0]
    /\ inv = [k \in 1..MaxInv |-> I0]
    /\ nsubm = 0 /\ ncancel = 0 /\ ntest = 0 /\ nwait = 0 /\ nperf = 0
    /\ completed = FALSE /\ cancelled = FALSE /\ bodyStarts = 0 /\ bodyEnds = 0
    /\ testBad = FALSE /\ testFalse = FALSE /\ waitedOK = FALSE
    /\ lastTest = [t \in Threads |-> -1]
    /\ wres = [rc |-> -1, tmo |-> FALSE]
    /\ crashed = "none"

\* an earlier item on the queue only matters when the queue orders the block object after it
Init == \E c \in [mode : Modes, qserial : QSerials, barrier : Barriers, gate : Gates] :
            (c.gate => (c.qserial \/ c.barrier)) /\ InitWith(c)

Go(t, l) == pc' = [pc EXCEPT ![t] = l]
Set(t, r) == lv' = [lv EXCEPT ![t] = r]
\* on return the locals are dead
Ret(t) == Go(t, "idle") /\ Set(t, L0)
SetInv(k, r) == inv' = [inv EXCEPT ![k] = r]
Crash(what) == crashed' = IF crashed = "none" THEN what ELSE crashed

\* the queue starts the item only after everything submitted before it has finished
Ordered == cfg.qserial \/ cfg.barrier
MaxSub == IF cfg.mode = "obs" THEN 1 ELSE MaxSubMulti
InWait(t) == pc[t] \in {"w_or", "w_xchg", "w_thr", "w_load", "w_gcheck", "w_sleep", "w_fin"}

(* ------------------------------- API entry (client contract) ------------------------------- *)
\* dispatch_async / dispatch_group_async / dispatch_sync of the block object, or b()
CallSubmit(t, api) ==
    /\ pc[t] = "idle" /\ api \in Apis /\ nsubm < MaxSub
    /\ nsubm' = nsubm + 1
    /\ Set(t, [lv[t] EXCEPT !.k = nsubm + 1])
    /\ IF api = "direct"
         THEN /\ Go(t, "in_inv")
              /\ SetInv(nsubm + 1, [I0 EXCEPT !.api = api, !.pc = "ready", !.thr = t])
         ELSE /\ Go(t, "s_cas")
              /\ SetInv(nsubm + 1, [I0 EXCEPT !.api = api])
    /\ UNCHANGED <<cfg, blkv, grpv, envv, ncancel, ntest, nwait, nperf, ghov>>

CallPerform(t) ==
    /\ pc[t] = "idle" /\ Bounded(nperf, MaxPerform)
    /\ nperf' = nperf + 1 /\ Go(t, "p_read")
    /\ UNCHANGED <<cfg, blkv, grpv, envv, lv, inv, nsubm, ncancel, ntest, nwait, ghov>>

CallCancel(t) ==
    /\ pc[t] = "idle" /\ Bounded(ncancel, MaxCancel)
    /\ ncancel' = ncancel + 1 /\ Go(t, "c_or")
    /\ UNCHANGED <<cfg, blkv, grpv, envv, lv, inv, nsubm, ntest, nwait, nperf, ghov>>

\* `must`: a cancel had already taken effect when the call began: the result has to be non-zero
CallTest(t) ==
    /\ pc[t] = "idle" /\ Bounded(ntest, MaxTest)
    /\ ntest' = ntest + 1 /\ Go(t, "t_read")
    /\ Set(t, [lv[t] EXCEPT !.must = cancelled])
    /\ lastTest' = [lastTest EXCEPT ![t] = -1]
    /\ UNCHANGED <<cfg, blkv, grpv, envv, inv, nsubm, ncancel, nwait, nperf,
                   completed, cancelled, bodyStarts, bodyEnds, testBad, testFalse, waitedOK, wres, crashed>>

\* dispatch/block.h: waited on at most once (a timed-out wait does not count), never from two threads
\* at once, only a block object that is executed once.  An untimed wait is only issued once completion
\* is guaranteed (the block object has been submitted).
CallWait(t, k) ==
    /\ pc[t] = "idle" /\ cfg.mode = "obs" /\ ~waitedOK /\ Bounded(nwait, MaxWait)
    /\ \A u \in Threads : ~InWait(u)
    /\ k = "forever" => nsubm >= 1
    /\ nwait' = nwait + 1 /\ Go(t, "w_or")
    /\ Set(t, [lv[t] EXCEPT !.kind = k])
    /\ wres' = [rc |-> -1, tmo |-> FALSE]
    /\ UNCHANGED <<cfg, blkv, grpv, envv, inv, nsubm, ncancel, ntest, nperf,
                   completed, cancelled, bodyStarts, bodyEnds, testBad, testFalse, waitedOK, lastTest, crashed>>

CallNotify(t, n) ==
    /\ pc[t] = "idle" /\ cfg.mode = "obs" /\ nst[n] = "none"
    /\ nst' = [nst EXCEPT ![n] = "calling"]
    /\ Go(t, "n_load") /\ Set(t, [lv[t] EXCEPT !.n = n])
    /\ UNCHANGED <<cfg, blkv, gcnt, ggen, nsub, envv, inv, cntv, ghov>>

(* --------------------------------- dispatch_block_cancel --------------------------------- *)
\* (void)os_atomic_or2o(dbpd, dbpd_atomic_flags, DBF_CANCELED, relaxed);
C_Or(t) ==
    /\ pc[t] = "c_or" /\ Mut # "cancel_nonatomic"
    /\ af' = AFNew("c_or", af, IF Mut = "cancel_wrong_bit" THEN Or(af, WAITED) ELSE Or(af, CANCELED))
    /\ cancelled' = TRUE
    /\ Ret(t)
    /\ UNCHANGED <<cfg, performed, dq, dthr, qref, grpv, envv, inv, cntv,
                   completed, bodyStarts, bodyEnds, testBad, testFalse, waitedOK, lastTest, wres, crashed>>
\* named deviation "cancel_nonatomic": dbpd->dbpd_atomic_flags |= DBF_CANCELED as a plain read and a plain write
C_PlainRead(t) ==
    /\ pc[t] = "c_or" /\ Mut = "cancel_nonatomic"
    /\ Set(t, [lv[t] EXCEPT !.perf = af]) /\ Go(t, "c_wr")
    /\ UNCHANGED <<cfg, blkv, grpv, envv, inv, cntv, ghov>>
C_PlainWrite(t) ==
    /\ pc[t] = "c_wr"
    /\ af' = Or(lv[t].perf, CANCELED)
    /\ cancelled' = TRUE
    /\ Ret(t)
    /\ UNCHANGED <<cfg, performed, dq, dthr, qref, grpv, envv, inv, cntv,
                   completed, bodyStarts, bodyEnds, testBad, testFalse, waitedOK, lastTest, wres, crashed>>

(* ------------------------------- dispatch_block_testcancel ------------------------------- *)
\* return (bool)(dbpd->dbpd_atomic_flags & DBF_CANCELED);   (plain read)
T_Read(t) ==
    /\ pc[t] = "t_read"
    /\ LET r == IF Has(af, CANCELED) THEN 1 ELSE 0 IN
       /\ lastTest' = [lastTest EXCEPT ![t] = r]
       /\ testBad' = (testBad \/ (lv[t].must /\ r = 0))
       /\ testFalse' = (testFalse \/ (r = 1 /\ ~cancelled))
    /\ Ret(t)
    /\ UNCHANGED <<cfg, blkv, grpv, envv, inv, cntv, completed, cancelled, bodyStarts, bodyEnds, waitedOK, wres, crashed>>

(* ----------------------------------- dispatch_block_wait ----------------------------------- *)
\* flags = os_atomic_or_orig2o(dbpd, dbpd_atomic_flags, DBF_WAITING, relaxed);
\* if (flags & (DBF_WAITED | DBF_WAITING)) DISPATCH_CLIENT_CRASH("... waited for more than once")
W_Or(t) ==
    /\ pc[t] = "w_or"
    /\ af' = AFNew("w_or", af, Or(af, WAITING))
    /\ IF Has(af, WAITED) \/ Has(af, WAITING) THEN Crash("waited_more_than_once") ELSE crashed' = crashed
    /\ Go(t, "w_xchg")
    /\ UNCHANGED <<cfg, performed, dq, dthr, qref, grpv, envv, lv, inv, cntv,
                   completed, cancelled, bodyStarts, bodyEnds, testBad, testFalse, waitedOK, lastTest, wres>>

\* boost_dq = os_atomic_xchg2o(dbpd, dbpd_queue, NULL, relaxed); if (boost_dq) dx_wakeup(.., CONSUME_2)
W_Xchg(t) ==
    /\ pc[t] = "w_xchg"
    /\ dq' = 0 /\ qref' = IF dq # 0 THEN qref - 2 ELSE qref
    /\ Set(t, [lv[t] EXCEPT !.bq = dq]) /\ Go(t, "w_thr")
    /\ UNCHANGED <<cfg, af, performed, dthr, grpv, envv, inv, cntv, ghov>>

\* mach_port_t boost_th = dbpd->dbpd_thread;   (plain read)
W_ReadThr(t) ==
    /\ pc[t] = "w_thr"
    /\ Set(t, [lv[t] EXCEPT !.bth = dthr]) /\ Go(t, "w_load")
    /\ UNCHANGED <<cfg, blkv, grpv, envv, inv, cntv, ghov>>

\* int performed = os_atomic_load2o(dbpd, dbpd_performed, relaxed);
\* if (performed > 1 || (boost_th && boost_dq)) DISPATCH_CLIENT_CRASH("... run more than once and waited for")
W_LoadPerf(t) ==
    /\ pc[t] = "w_load"
    /\ IF performed > 1 \/ (lv[t].bth # NoThr /\ lv[t].bq # 0)
         THEN Crash("run_more_than_once_and_waited") ELSE crashed' = crashed
    /\ Set(t, [lv[t] EXCEPT !.perf = performed]) /\ Go(t, "w_gcheck")
    /\ UNCHANGED <<cfg, blkv, grpv, envv, inv, cntv,
                   completed, cancelled, bodyStarts, bodyEnds, testBad, testFalse, waitedOK, lastTest, wres>>

\* dispatch_group_wait(dbpd->dbpd_group, timeout), abstract (C07): count zero => 0 at once;
\* timeout NOW => timed out at once; otherwise sleep until the generation changes or the timeout fires
W_GCheck(t) ==
    /\ pc[t] = "w_gcheck"
    /\ IF gcnt = 0 \/ Mut = "wait_no_group"
         THEN wres' = [wres EXCEPT !.rc = 0] /\ lv' = lv /\ Go(t, "w_fin")
         ELSE IF lv[t].kind = "now"
           THEN wres' = [rc |-> 1, tmo |-> TRUE] /\ lv' = lv /\ Go(t, "w_fin")
           ELSE Set(t, [lv[t] EXCEPT !.gen = ggen]) /\ wres' = wres /\ Go(t, "w_sleep")
    /\ UNCHANGED <<cfg, blkv, grpv, envv, inv, cntv,
                   completed, cancelled, bodyStarts, bodyEnds, testBad, testFalse, waitedOK, lastTest, crashed>>
W_Wake(t) ==
    /\ pc[t] = "w_sleep" /\ ggen # lv[t].gen
    /\ wres' = [wres EXCEPT !.rc = 0] /\ Go(t, "w_fin")
    /\ UNCHANGED <<cfg, blkv, grpv, envv, lv, inv, cntv,
                   completed, cancelled, bodyStarts, bodyEnds, testBad, testFalse, waitedOK, lastTest, crashed>>
\* the full timeout elapsed (ETIMEDOUT); the group re-reads the generation before giving up
W_Timeout(t) ==
    /\ pc[t] = "w_sleep" /\ lv[t].kind = "timed"
    /\ wres' = [rc |-> IF ggen # lv[t].gen THEN 0 ELSE 1, tmo |-> TRUE] /\ Go(t, "w_fin")
    /\ UNCHANGED <<cfg, blkv, grpv, envv, lv, inv, cntv,
                   completed, cancelled, bodyStarts, bodyEnds, testBad, testFalse, waitedOK, lastTest, crashed>>

\* if (ret) os_atomic_and2o(dbpd, dbpd_atomic_flags, ~DBF_WAITING, relaxed);
\* else     os_atomic_or2o(dbpd, dbpd_atomic_flags, DBF_WAITED, relaxed);
W_Fin(t) ==
    /\ pc[t] = "w_fin"
    /\ af' = IF wres.rc # 0
               THEN AFNew("w_fin_to", af, IF Mut = "timeout_clobber" THEN 0 ELSE Clr(af, WAITING))
               ELSE AFNew("w_fin_ok", af, Or(af, WAITED))
    /\ waitedOK' = (waitedOK \/ wres.rc = 0)
    /\ Ret(t)
    /\ UNCHANGED <<cfg, performed, dq, dthr, qref, grpv, envv, inv, cntv,
                   completed, cancelled, bodyStarts, bodyEnds, testBad, testFalse, lastTest, wres, crashed>>

(* ---------------------------------- dispatch_block_notify ---------------------------------- *)
\* int performed = os_atomic_load2o(dbpd, dbpd_performed, relaxed); if (performed > 1) CRASH
N_Load(t) ==
    /\ pc[t] = "n_load"
    /\ IF performed > 1 THEN Crash("run_more_than_once_and_observed") ELSE crashed' = crashed
    /\ Set(t, [lv[t] EXCEPT !.perf = performed]) /\ Go(t, "n_reg")
    /\ UNCHANGED <<cfg, blkv, grpv, envv, inv, cntv,
                   completed, cancelled, bodyStarts, bodyEnds, testBad, testFalse, waitedOK, lastTest, wres>>
\* dispatch_group_notify(dbpd->dbpd_group, queue, notification_block), abstract (C07):
\* submitted at once if the count is zero, else when it becomes zero
N_Reg(t) ==
    /\ pc[t] = "n_reg"
    /\ LET n == lv[t].n IN
       IF gcnt = 0
         THEN nst' = [nst EXCEPT ![n] = "fired"] /\ nsub' = [nsub EXCEPT ![n] = @ + 1]
         ELSE nst' = [nst EXCEPT ![n] = "registered"] /\ nsub' = nsub
    /\ IF Fine THEN Go(t, "n_ret") /\ lv' = lv ELSE Ret(t)
    /\ UNCHANGED <<cfg, blkv, gcnt, ggen, envv, inv, cntv, ghov>>
N_Ret(t) ==
    /\ pc[t] = "n_ret" /\ Ret(t)
    /\ UNCHANGED <<cfg, blkv, grpv, envv, inv, cntv, ghov>>
\* the notification block runs on its queue
NotifyRun(n) ==
    /\ nst[n] = "fired" /\ nst' = [nst EXCEPT ![n] = "ran"]
    /\ UNCHANGED <<cfg, blkv, gcnt, ggen, nsub, envv, pc, lv, inv, cntv, ghov>>

(* ------------------------------------ submission paths ------------------------------------ *)
\* _dispatch_continuation_init_slow / _dispatch_sync_block_with_privdata:
\* if (os_atomic_cmpxchg2o(dbpd, dbpd_queue, NULL, dq, relaxed)) _dispatch_retain_2(dq);
\* (dq = the target queue; for "handler" the source itself).  Every path but dispatch_sync has copied the block
\* object into its continuation just before (_dispatch_continuation_init: _dispatch_Block_copy).
S_Cas(t) ==
    /\ pc[t] = "s_cas"
    /\ IF dq = 0 THEN dq' = 1 /\ qref' = qref + 2 ELSE dq' = dq /\ qref' = qref
    /\ LET k == lv[t].k IN
       /\ bref' = IF inv[k].api \in CopyApis THEN bref + 1 ELSE bref
       /\ IF inv[k].api = "sync"
            THEN Go(t, "in_inv") /\ SetInv(k, [inv[k] EXCEPT !.pc = "ready", !.thr = t])
            ELSE Go(t, "s_push") /\ inv' = inv
    /\ UNCHANGED <<cfg, af, performed, dthr, grpv, gate, ug, lv, cntv, ghov>>
\* dispatch_group_async: dispatch_group_enter(dg) ; then the continuation is pushed (dx_push);
\* "after" / "handler": the continuation becomes the event handler of a timer source, which is activated
\* (armed): the queue gets the item when the timer fires
S_Push(t) ==
    /\ pc[t] = "s_push"
    /\ LET k == lv[t].k IN
       /\ SetInv(k, [inv[k] EXCEPT !.pc = IF inv[k].api \in TimerApis THEN "armed" ELSE "ready"])
       /\ ug' = IF inv[k].api = "gasync" THEN ug + 1 ELSE ug
    /\ IF Fine THEN Go(t, "s_ret") /\ lv' = lv ELSE Ret(t)
    /\ UNCHANGED <<cfg, blkv, grpv, gate, bref, cntv, ghov>>
\* the submission call returns: at once for async, after the invocation for sync and b()
SubmitRet(t) ==
    /\ \/ pc[t] = "s_ret"
       \/ pc[t] = "in_inv" /\ inv[lv[t].k].pc = "done"
    /\ Ret(t)
    /\ UNCHANGED <<cfg, blkv, grpv, envv, inv, cntv, ghov>>

(* ---------------------- the invoke paths (direct / sync_invoke / async_invoke2) ---------------------- *)
Exec(k, u) == IF inv[k].thr = NoThr THEN u \in Workers ELSE u = inv[k].thr
Running(k) == inv[k].api \in QApis /\ inv[k].pc \notin {"none", "armed", "ready", "done", "i_srel"}

\* the timer fires (not before its deadline: C11): the source, and with it its handler, is pushed on the queue
I_Fire(k) ==
    /\ inv[k].pc = "armed"
    /\ SetInv(k, [inv[k] EXCEPT !.pc = "ready"])
    /\ UNCHANGED <<cfg, blkv, grpv, envv, pc, lv, cntv, ghov>>

\* the queue hands the item to a thread (b(): the call itself).  cbs = "cancelled before it starts".
I_Start(k) ==
    /\ inv[k].pc = "ready"
    /\ (inv[k].api \in QApis /\ Ordered) =>
          (gate \in {"none", "done"} /\ \A k2 \in 1..MaxInv : k2 # k => ~Running(k2))
    /\ SetInv(k, [inv[k] EXCEPT !.pc = "i_read", !.cbs = cancelled])
    /\ UNCHANGED <<cfg, blkv, grpv, envv, pc, lv, cntv, ghov>>

PreBody(i) == IF i.api = "direct" THEN "i_setthr" ELSE "i_body"
PostPc(i) == IF i.api = "direct" THEN "done" ELSE "i_xchg"
AfterRead(i, canc) ==
    IF canc THEN (IF Mut = "skip_leave_cancelled" THEN PostPc(i) ELSE "i_inc")
    ELSE IF Mut = "leave_before_body" THEN "i_inc" ELSE PreBody(i)
AfterBody(i) == IF Mut = "leave_before_body" THEN PostPc(i) ELSE "i_inc"
AfterLeave(i) == IF Mut = "leave_before_body" /\ ~i.skip /\ ~i.ran THEN PreBody(i) ELSE PostPc(i)

\* unsigned int atomic_flags = dbpd->dbpd_atomic_flags;  (plain read)
\* if (atomic_flags & DBF_WAITED) CRASH ; if (atomic_flags & DBF_CANCELED) goto out;
I_Read(k) ==
    /\ inv[k].pc = "i_read"
    /\ LET canc == /\ Has(af, CANCELED) /\ Mut # "cancel_after_body"
                   \* mutant: only the consuming variant of _dispatch_block_async_invoke2 tests DBF_CANCELED
                   /\ ~(Mut = "nonconsuming_invoke_ignores_cancel" /\ inv[k].api \in TimerApis)
           i == [inv[k] EXCEPT !.afl = af, !.skip = canc]
       IN /\ SetInv(k, [i EXCEPT !.pc = AfterRead(i, canc)])
          /\ completed' = (completed \/ canc)       \* a skipped execution is complete at once
    /\ IF Has(af, WAITED) THEN Crash("run_more_than_once_and_waited") ELSE crashed' = crashed
    /\ UNCHANGED <<cfg, blkv, grpv, envv, pc, lv, cntv,
                   cancelled, bodyStarts, bodyEnds, testBad, testFalse, waitedOK, lastTest, wres>>

\* dbpd->dbpd_thread = _dispatch_tid_self();  (plain write, _dispatch_block_invoke_direct only)
I_SetThr(k) ==
    /\ inv[k].pc = "i_setthr"
    /\ dthr' = inv[k].thr
    /\ SetInv(k, [inv[k] EXCEPT !.pc = "i_body"])
    /\ UNCHANGED <<cfg, af, performed, dq, qref, grpv, envv, pc, lv, cntv, ghov>>

\* dbpd->dbpd_block()
I_BodyStart(k, u) ==
    /\ inv[k].pc = "i_body" /\ Exec(k, u)
    /\ SetInv(k, [inv[k] EXCEPT !.pc = "i_bodyrun", !.ran = TRUE, !.thr = u])
    /\ bodyStarts' = bodyStarts + 1
    /\ UNCHANGED <<cfg, blkv, grpv, envv, pc, lv, cntv,
                   completed, cancelled, bodyEnds, testBad, testFalse, waitedOK, lastTest, wres, crashed>>
I_BodyEnd(k, u) ==
    /\ inv[k].pc = "i_bodyrun" /\ Exec(k, u)
    /\ SetInv(k, [inv[k] EXCEPT !.pc = AfterBody(inv[k])])
    /\ bodyEnds' = bodyEnds + 1
    /\ completed' = TRUE
    /\ UNCHANGED <<cfg, blkv, grpv, envv, pc, lv, cntv,
                   cancelled, bodyStarts, testBad, testFalse, waitedOK, lastTest, wres, crashed>>

\* if ((atomic_flags & DBF_PERFORM) == 0) if (os_atomic_inc2o(dbpd, dbpd_performed, relaxed) == 1) ...
I_Inc(k, u) ==
    /\ inv[k].pc = "i_inc" /\ Exec(k, u) /\ ~Has(inv[k].afl, PERFORM)
    /\ performed' = performed + 1
    /\ LET i == [inv[k] EXCEPT !.thr = u] IN
       SetInv(k, [i EXCEPT !.pc = IF performed + 1 = 1 \/ Mut = "leave_every" THEN "i_leave" ELSE AfterLeave(i)])
    /\ UNCHANGED <<cfg, af, dq, dthr, qref, grpv, envv, pc, lv, cntv, ghov>>

\* dispatch_group_leave(dbpd->dbpd_group), abstract (C07): the count drops; at zero the generation
\* advances, every registered notification is submitted once, waiters are released
I_Leave(k, u) ==
    /\ inv[k].pc = "i_leave" /\ Exec(k, u)
    /\ IF gcnt = 0
         THEN Crash("unbalanced_group_leave") /\ UNCHANGED grpv
         ELSE /\ gcnt' = gcnt - 1 /\ crashed' = crashed
              /\ IF gcnt = 1
                   THEN /\ ggen' = ggen + 1
                        /\ nst' = [n \in NIds |-> IF nst[n] = "registered" THEN "fired" ELSE nst[n]]
                        /\ nsub' = [n \in NIds |-> IF nst[n] = "registered" THEN nsub[n] + 1 ELSE nsub[n]]
                   ELSE UNCHANGED <<ggen, nst, nsub>>
    /\ SetInv(k, [inv[k] EXCEPT !.pc = IF Fine THEN "i_wake" ELSE AfterLeave(inv[k])])
    /\ UNCHANGED <<cfg, blkv, envv, pc, lv, cntv,
                   completed, cancelled, bodyStarts, bodyEnds, testBad, testFalse, waitedOK, lastTest, wres>>
\* _dispatch_group_wake finished (notifications pushed, futex wake done)
I_WakeDone(k) ==
    /\ inv[k].pc = "i_wake"
    /\ SetInv(k, [inv[k] EXCEPT !.pc = AfterLeave(inv[k])])
    /\ UNCHANGED <<cfg, blkv, grpv, envv, pc, lv, cntv, ghov>>

\* boost_dq = os_atomic_xchg2o(dbpd, dbpd_queue, NULL, relaxed); if (boost_dq) _dispatch_release_2(boost_dq);
\* if (invoke_flags & DISPATCH_BLOCK_ASYNC_INVOKE_RELEASE) Block_release(b);   (consuming variant only; the copy of
\* the non-consuming variant stays with the source: I_SrcRel)
I_Xchg(k, u) ==
    /\ inv[k].pc = "i_xchg" /\ Exec(k, u)
    /\ dq' = 0 /\ qref' = IF dq # 0 THEN qref - 2 ELSE qref
    /\ LET api == inv[k].api
           rel == api \in ConsumeApis \/ (Mut = "nonconsuming_invoke_releases" /\ api \in TimerApis) IN
       /\ bref' = IF rel THEN bref - 1 ELSE bref
       /\ SetInv(k, [inv[k] EXCEPT !.pc = IF api = "gasync" THEN "i_ugleave"
                                         ELSE IF api \in TimerApis THEN "i_srel" ELSE "done", !.thr = u])
    /\ UNCHANGED <<cfg, af, performed, dthr, grpv, gate, ug, pc, lv, cntv, ghov>>
\* "after": _dispatch_source_handler_free(dr, DS_EVENT_HANDLER) right after the callout (one-shot source);
\* "handler": the client cancels the source, which disposes of its handlers -> Block_release(dc_ctxt)
I_SrcRel(k) ==
    /\ inv[k].pc = "i_srel"
    /\ bref' = bref - 1
    /\ SetInv(k, [inv[k] EXCEPT !.pc = "done"])
    /\ UNCHANGED <<cfg, blkv, grpv, gate, ug, pc, lv, cntv, ghov>>
\* _dispatch_continuation_with_group_invoke: dispatch_group_leave(dc_data) after the callout
I_UgLeave(k) ==
    /\ inv[k].pc = "i_ugleave"
    /\ ug' = ug - 1
    /\ SetInv(k, [inv[k] EXCEPT !.pc = "done"])
    /\ UNCHANGED <<cfg, blkv, grpv, gate, bref, pc, lv, cntv, ghov>>

(* ---------------------------------- dispatch_block_perform ---------------------------------- *)
\* stack private data: dbpd_atomic_flags = DBF_PERFORM, no group; _dispatch_block_invoke_direct(&dbpds)
PerformFlags == PERFORM
P_Read(t) ==
    /\ pc[t] = "p_read"
    /\ Go(t, IF Has(PerformFlags, CANCELED) THEN "p_out" ELSE "p_body")
    /\ UNCHANGED <<cfg, blkv, grpv, envv, lv, inv, cntv, ghov>>
P_BodyStart(t) ==
    /\ pc[t] = "p_body" /\ Go(t, "p_bodyrun")
    /\ UNCHANGED <<cfg, blkv, grpv, envv, lv, inv, cntv, ghov>>
P_BodyEnd(t) ==
    /\ pc[t] = "p_bodyrun" /\ Go(t, "p_out")
    /\ UNCHANGED <<cfg, blkv, grpv, envv, lv, inv, cntv, ghov>>
\* out: if ((atomic_flags & DBF_PERFORM) == 0) {...}   -- never for perform ; return
P_Out(t) ==
    /\ pc[t] = "p_out" /\ Has(PerformFlags, PERFORM) /\ Ret(t)
    /\ UNCHANGED <<cfg, blkv, grpv, envv, inv, cntv, ghov>>

(* ------------------------------------- environment ------------------------------------- *)
GateStart == /\ gate = "queued" /\ gate' = "running"
             /\ UNCHANGED <<cfg, blkv, grpv, ug, bref, pc, lv, inv, cntv, ghov>>
GateEnd   == /\ gate = "running" /\ gate' = "done"
             /\ UNCHANGED <<cfg, blkv, grpv, ug, bref, pc, lv, inv, cntv, ghov>>

(* --------------------------------------- next --------------------------------------- *)
Call(t) == \/ \E a \in Apis : CallSubmit(t, a)
           \/ CallPerform(t) \/ CallCancel(t) \/ CallTest(t)
           \/ \E k \in Kinds : CallWait(t, k)
           \/ \E n \in NIds : CallNotify(t, n)

Lib(t) == \/ C_Or(t) \/ C_PlainRead(t) \/ C_PlainWrite(t) \/ T_Read(t)
          \/ W_Or(t) \/ W_Xchg(t) \/ W_ReadThr(t) \/ W_LoadPerf(t) \/ W_GCheck(t) \/ W_Wake(t) \/ W_Timeout(t) \/ W_Fin(t)
          \/ N_Load(t) \/ N_Reg(t) \/ N_Ret(t)
          \/ S_Cas(t) \/ S_Push(t) \/ SubmitRet(t)
          \/ P_Read(t) \/ P_BodyStart(t) \/ P_BodyEnd(t) \/ P_Out(t)

InvStep(k) == \/ I_Fire(k) \/ I_Start(k) \/ I_Read(k) \/ I_SetThr(k) \/ I_WakeDone(k) \/ I_UgLeave(k) \/ I_SrcRel(k)
              \/ \E u \in Threads \cup Workers :
                    I_BodyStart(k, u) \/ I_BodyEnd(k, u) \/ I_Inc(k, u) \/ I_Leave(k, u) \/ I_Xchg(k, u)

Env == GateStart \/ GateEnd \/ \E n \in NIds : NotifyRun(n)

Next == \/ \E t \in Threads : Call(t) \/ Lib(t)
        \/ \E k \in 1..MaxInv : InvStep(k)
        \/ Env
Spec == Init /\ [][Next]_vars
\* fairness on library, executor and environment steps (clients need not call anything)
FairSpec == /\ Spec
            /\ \A t \in Threads : WF_vars(Lib(t))
            /\ \A k \in 1..MaxInv : WF_vars(InvStep(k))
            /\ WF_vars(Env)

(* ----------------------------------- properties (C19) ----------------------------------- *)
PcSet == {"idle", "s_cas", "s_push", "s_ret", "in_inv", "c_or", "c_wr", "t_read",
          "w_or", "w_xchg", "w_thr", "w_load", "w_gcheck", "w_sleep", "w_fin",
          "n_load", "n_reg", "n_ret", "p_read", "p_body", "p_bodyrun", "p_out"}
IPcSet == {"none", "armed", "ready", "i_read", "i_setthr", "i_body", "i_bodyrun", "i_inc", "i_leave", "i_wake",
           "i_xchg", "i_ugleave", "i_srel", "done"}
TypeOK == /\ af \in 0..15 /\ performed \in Nat /\ dq \in {0, 1}
          /\ gcnt \in Nat /\ ggen \in Nat /\ bref \in Int
          /\ \A t \in Threads : pc[t] \in PcSet
          /\ \A k \in 1..MaxInv : inv[k].pc \in IPcSet
          /\ \A n \in NIds : nst[n] \in {"none", "calling", "registered", "fired", "ran"}
          /\ gate \in {"none", "queued", "running", "done"}

\* a legal client never reaches a DISPATCH_CLIENT_CRASH (double wait, unbalanced leave of the private group, ...)
NoCrash == crashed = "none"

\* dispatch_block_wait returns zero only after the first (or skipped) execution has completed
WaitZeroOnlyAfterCompletion == wres.rc = 0 => completed
\* ... and non-zero only after the full timeout step
TimeoutOnlyAfterTimeout == wres.rc = 1 => wres.tmo
\* each notification is submitted exactly once, not before that completion
NotifyNotEarly == \A n \in NIds : nst[n] \in {"fired", "ran"} => completed
NotifyOnce == \A n \in NIds : nsub[n] <= 1 /\ (nst[n] \in {"fired", "ran"} <=> nsub[n] = 1)
\* cancelled before it starts: the body never runs
CancelledNeverRuns == \A k \in 1..MaxInv : inv[k].cbs => ~inv[k].ran
\* cancelled while running: not interrupted (every started body ends; see also BodyFinishes)
Quiescent == /\ \A t \in Threads : pc[t] = "idle"
             /\ \A k \in 1..MaxInv : inv[k].pc \in {"none", "done"}
NotInterrupted == /\ bodyEnds <= bodyStarts
                  /\ bodyStarts - bodyEnds = Cardinality({k \in 1..MaxInv : inv[k].pc = "i_bodyrun"})
\* testcancel reports the cancellation from the cancel on, and only then
TestCancelSticky == ~testBad /\ ~testFalse
\* ... yet still completes for waiters and notifiers: once everything submitted has run, the private
\* group is empty and nothing is left registered (safety form; WaiterReleased / Notified are the liveness forms)
CompletesForObservers ==
    (Quiescent /\ nsubm >= 1) => (gcnt = 0 /\ performed = nsubm /\ \A n \in NIds : nst[n] # "registered")
\* the private group is entered once and left once, at the first completion
GroupDiscipline == /\ gcnt \in {0, 1}
                   /\ gcnt = 0 => (performed >= 1 /\ completed)
\* dbpd_queue reference: taken at most once at a time, given back by exactly one of wait / invoke
QueueRefBalanced == /\ qref \in {0, 2} /\ (dq = 1 <=> qref = 2)
                    /\ Quiescent => qref = 0
\* the continuation's copy of the block object: alive as long as an invocation may still use it (the consuming
\* invoke gives it back itself, last thing; the non-consuming one leaves it to the source), given back exactly once
UsesBlock(k) == inv[k].api \in CopyApis /\ inv[k].pc \notin {"none", "done", "i_ugleave"}
BlockRefBalanced == /\ bref >= Cardinality({k \in 1..MaxInv : UsesBlock(k)})
                    /\ Quiescent => bref = 0
\* dispatch_group_async: the user's group is held until the invocation is over
UserGroupHeld == \A k \in 1..MaxInv :
                    (inv[k].api = "gasync" /\ inv[k].pc \notin {"none", "done"}) => ug >= 1
\* dispatch_sync / b() return only after the invocation (structural: SubmitRet), and the body runs at
\* most once per submission
BodyAtMostOncePerSubmission == bodyStarts <= nsubm

\* model checking: client threads are interchangeable.  (TLC evaluates constant definitions eagerly, also when they are
\* not used: under trace validation Threads is the set of all recorded threads -- 11 threads = 40 million permutations)
Symm == Permutations(IF Cardinality(Threads) <= 4 THEN Threads ELSE {})

\* liveness
WaiterReleased == \A t \in Threads : (pc[t] = "w_sleep") ~> (pc[t] # "w_sleep")
Notified == \A n \in NIds : (nst[n] = "registered" /\ nsubm >= 1) ~> (nst[n] = "ran")
BodyFinishes == \A k \in 1..MaxInv : (inv[k].pc = "i_bodyrun") ~> (inv[k].pc # "i_bodyrun")
=============================================================================
