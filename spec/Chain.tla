-------------------------------- MODULE Chain --------------------------------
(* A static TARGET-QUEUE HIERARCHY of dispatch lanes (Lane.tla generalised from one lane
   to many): every queue q has its own dq_state word st[q] (transition functions: the
   operators of DQState.tla, instantiated per queue with that queue's width / role /
   wakeup qos -- the SAME module text that DQStateConf binds to the real inline functions),
   its own MPSC list head[q]/tail[q], and do_targetq tgt[q] \in Queues \cup {ROOT}.
   The objects linked on a queue's list are client items AND child queues (a queue that
   wakes up with a non-root target is pushed on its target by _dispatch_queue_push_queue ->
   dx_push(tq, dq)), re-pushed sync waiters (_dispatch_*_waiter_redirect_or_wake) and
   redirect wrappers (_dispatch_continuation_redirect_push).

   ONE ACTION PER SHARED-MEMORY ACCESS of src/queue.c / src/inline_internal.h, as in
   Lane.tla (whose action text is kept wherever the code is the same); thread-local
   computation and reads of immutable fields (dq_width, do_targetq after activation,
   role bits) are folded into the neighbouring access.

   Threads carry a FRAME STACK fr[t]: one frame per NON-TAIL call.  Most of the C code is
   tail calls walking down the hierarchy (push -> wakeup -> push_queue -> dx_push(tq, dq)
   -> ...), which re-use the frame and change its `q`.  Non-tail calls push a frame:
     * the drain loop invoking what it popped: a client item, a child queue
       (_dispatch_continuation_pop_inline -> dx_invoke -> _dispatch_lane_invoke ->
       _dispatch_queue_class_invoke -> _dispatch_lane_invoke2, nested), a redirect wrapper
       (_dispatch_async_redirect_invoke), a non-barrier waiter (redirect_or_wake) or a
       redirect push;
     * _dispatch_sync_complete_recurse unlocking one level after the other;
     * __DISPATCH_WAIT_FOR_QUEUE__ pushing the sync context and then waiting;
     * _dispatch_async_redirect_invoke giving back the width of every level it crossed.

   Transcribed in addition to Lane.tla:  _dispatch_lane_invoke2 (cq != otq), the nested
   exits of _dispatch_queue_class_invoke (a failed try_unlock in a nested drain goes to
   _dispatch_queue_invoke_finish(dq, tq = current queue)), _dispatch_lane_serial_drain
   clearing REDIRECTING_DRAIN for itself and everything it invokes, the non-redirecting
   concurrent drain (non-barrier items run inline on the drainer), _dispatch_sync_recurse,
   _dispatch_sync_f_slow on an arbitrary level, _dispatch_sync_complete_recurse,
   the inner-queue branches of _dispatch_barrier_waiter_redirect_or_wake and
   _dispatch_non_barrier_waiter_redirect_or_wake, _dispatch_continuation_redirect_push /
   _dispatch_async_redirect_invoke through several levels, dispatch_set_target_queue on an
   inactive queue (_dispatch_lane_set_target_queue: try_inactive_suspend, swap, resume) and
   dispatch_activate.

   NOT modelled (covered on the real library only, harness/drv_chain.c): dispatch_async_and_wait
   (item run by the drainer through _dispatch_async_and_wait_invoke, dsc_func == NULL return of
   _dispatch_sync_f_slow), dispatch_suspend/resume of hierarchy members (Lane.tla
   models them for one lane), legacy retargeting of an active queue, width changes, QoS
   overrides beyond the one-bit max_qos abstraction of DQState.

   A WORKLOOP at the bottom is modelled by spec/Workloop.tla (this module with the bottom lane replaced by the
   workloop's per-bucket lists and its own RMW loops, spec/WorkloopState.tla).

   Decides C03 within the configured bounds: HierarchyExclusion, per-serial-queue FIFO (Order),
   and the inherited AtMostOnce / NoStrand / SyncAfterEnd / WidthOK / reference ledger, and
   liveness <>(done = Items) under weak fairness of every thread. *)
EXTENDS Integers, Sequences, FiniteSets, TLC

CONSTANTS Queues,        \* the lanes of the hierarchy
          Target,        \* Target[q] \in Queues \cup {ROOT}: do_targetq once the queue is active
          Target0,       \* do_targetq at creation (differs from Target only for queues the program retargets)
          Width,         \* dq_width (1 = serial)
          Inactive,      \* queues created with dispatch_queue_attr_make_initially_inactive
          Clients, Workers, Items,
          Kind,          \* "ra" dispatch_async, "ba" dispatch_barrier_async, "rs" dispatch_sync, "bs" dispatch_barrier_sync
          On,            \* On[i]: the queue item i is submitted to
          Prog,
          SCMAX, SCHALF,
          Mut            \* "none" or the name of a spec mutation (non-vacuity)

ROOT == "root"
\* role BASE_ANON iff the queue targets a root queue; inner queues have no priority of their own: wakeup qos 0
DQ(q) == INSTANCE DQState WITH W <- Width[q], BASE <- (Target[q] = ROOT), QW <- (IF Target[q] = ROOT THEN 1 ELSE 0)
D0 == INSTANCE DQState WITH W <- 1, BASE <- TRUE, QW <- 0       \* width-independent definitions
NULL == D0!NULL
Idle0 == D0!Idle0
Owned0 == D0!Owned0
Suspended(s) == D0!Suspended(s)

Threads == Clients \cup Workers
Objs == Items \cup Queues          \* what can be linked on a list

VARIABLES st,               \* st[q]: dq_state (DQState record)
          tgt,              \* tgt[q]: do_targetq
          head, tail, nxt,  \* dq_items_head[q] / dq_items_tail[q] / do_next[o]
          root,             \* abstract root queue: bag of queues / redirect wrappers (popped in any order)
          pc, fr, ip,       \* per thread: control point, frame stack ; per client: program index
          ev,               \* per sync item: thread event signalled
          bar,              \* per item: DC_FLAG_BARRIER of its continuation / sync context (rewritten on re-push)
          wrap,             \* per object: NULL or dc_data of the redirect continuation wrapping it
          running, runCount, done,
          ref,              \* ghost: internal (+2) references held on each queue
          pred,             \* ghost: items whose submission had returned when this item's submission began
          activated         \* ghost: queues on which dispatch_activate has been called (or created active)
vars == <<st, tgt, head, tail, nxt, root, pc, fr, ip, ev, bar, wrap, running, runCount, done, ref, pred, activated>>

IsWaiter(o) == o \in Items /\ Kind[o] \in {"rs", "bs"}
\* _dispatch_object_is_barrier: continuations by DC_FLAG_BARRIER; queues by DQF_BARRIER_BIT (never set); wrappers never.
\* On a serial queue the drain treats everything as a barrier.
BarFlag(o) == o \in Items /\ wrap[o] = NULL /\ bar[o]
IsBarrierOn(o, q) == Width[q] = 1 \/ BarFlag(o)
Inner(q) == Target[q] # ROOT           \* _dq_state_is_inner_queue (role bits, fixed by the activation)
TopBar(i) == Width[On[i]] = 1 \/ Kind[i] \in {"ba", "bs"}     \* dc_flags & DC_FLAG_BARRIER of the submission

F0 == [q |-> NULL, cq |-> NULL, redir |-> FALSE, dc |-> NULL, n |-> NULL, prev |-> NULL, item |-> NULL, owned |-> Owned0,
       cons2 |-> FALSE, mkdirty |-> FALSE, mode |-> "none", ow |-> 0, ret |-> "none", old |-> Idle0, new |-> Idle0,
       fl2 |-> FALSE, qos |-> 0, act |-> FALSE, lvl |-> NULL, cbar |-> FALSE, fast |-> FALSE, fo |-> Owned0, ftq |-> NULL,
       odq |-> NULL]

Init == /\ st = [q \in Queues |-> IF q \in Inactive THEN D0!InactiveInit ELSE Idle0]
        /\ tgt = Target0
        /\ head = [q \in Queues |-> NULL] /\ tail = [q \in Queues |-> NULL] /\ nxt = [o \in Objs |-> NULL]
        /\ root = <<>> /\ pc = [t \in Threads |-> "idle"] /\ fr = [t \in Threads |-> <<F0>>]
        /\ ip = [c \in Clients |-> 1] /\ ev = [i \in Items |-> 0]
        /\ bar = [i \in Items |-> TopBar(i)] /\ wrap = [o \in Objs |-> NULL]
        /\ running = {} /\ runCount = [i \in Items |-> 0] /\ done = {}
        /\ ref = [q \in Queues |-> IF q \in Inactive THEN 2 ELSE 0]
        /\ pred = [i \in Items |-> {}]
        /\ activated = Queues \ Inactive

(* ------------------------------ frames and calls ------------------------------ *)
T(t) == fr[t][Len(fr[t])]                      \* the running frame
Below(t) == SubSeq(fr[t], 1, Len(fr[t]) - 1)
Go(t, l) == pc' = [pc EXCEPT ![t] = l]
SetF(t, f) == fr' = [fr EXCEPT ![t] = Append(Below(t), f)]
SetL(t, fld, v) == fr' = [fr EXCEPT ![t][Len(fr[t])][fld] = v]
\* non-tail call: the running frame becomes cf, the callee frame nf is pushed, control enters at `entry`
Call(t, cf, nf, entry) == fr' = [fr EXCEPT ![t] = Append(Append(Below(t), cf), nf)] /\ Go(t, entry)
\* return from the running frame to the continuation it was called with
Ret(t) == fr' = [fr EXCEPT ![t] = Below(t)] /\ Go(t, T(t).ret)
Self(t) == t
\* dq_push vtable slot: _dispatch_lane_push (serial) / _dispatch_lane_concurrent_push; root queues are abstract
PushEntry(tq) == IF Width[tq] > 1 THEN "cpush_tail" ELSE "push_tail"
\* dx_push(tq, o) as the LAST thing the running frame (given as f, possibly updated) does
TailPush(t, f, tq, o) ==
    IF tq = ROOT THEN /\ root' = Append(root, o) /\ fr' = [fr EXCEPT ![t] = Below(t)] /\ Go(t, f.ret)
    ELSE /\ root' = root /\ SetF(t, [f EXCEPT !.q = tq, !.item = o]) /\ Go(t, PushEntry(tq))
\* dx_push(tq, o) as a non-tail call; the caller (frame cf) continues at `cont`
CallPush(t, cf, tq, o, cont) ==
    IF tq = ROOT THEN /\ root' = Append(root, o) /\ SetF(t, cf) /\ Go(t, cont)
    ELSE /\ root' = root /\ Call(t, cf, [F0 EXCEPT !.q = tq, !.item = o, !.ret = cont], PushEntry(tq))

Returned == UNION {{Prog[c][k].i : k \in {j \in 1..(ip[c] - 1) : "i" \in DOMAIN Prog[c][j]}} : c \in Clients}
ClientOf(i) == CHOOSE c \in Clients : \E k \in 1..Len(Prog[c]) : "i" \in DOMAIN Prog[c][k] /\ Prog[c][k].i = i
QV == <<head, tail, nxt>>
RUN == <<running, runCount, done>>
FL == <<bar, wrap>>

(* ======================= client API entry / exit ======================= *)
Start(c) ==
    /\ pc[c] = "idle" /\ ip[c] <= Len(Prog[c])
    /\ LET o == Prog[c][ip[c]] IN
       CASE o.op = "async" ->
              /\ Call(c, T(c), [F0 EXCEPT !.q = On[o.i], !.item = o.i, !.ret = "ret"], PushEntry(On[o.i]))
              /\ pred' = [pred EXCEPT ![o.i] = Returned] /\ activated' = activated
         [] o.op = "sync" ->
              /\ Call(c, T(c), [F0 EXCEPT !.q = On[o.i], !.lvl = On[o.i], !.item = o.i, !.ret = "ret"],
                      IF TopBar(o.i) THEN "bs_tail" ELSE "rs_tail")
              /\ pred' = [pred EXCEPT ![o.i] = Returned] /\ activated' = activated
         [] o.op = "settarget" ->
              /\ Call(c, T(c), [F0 EXCEPT !.q = o.q, !.lvl = o.tq, !.ret = "ret"], "st_susp")
              /\ UNCHANGED <<pred, activated>>
         [] o.op = "activate" ->
              /\ Call(c, T(c), [F0 EXCEPT !.q = o.q, !.ret = "ret"], "act_rmw")
              /\ pred' = pred /\ activated' = activated \cup {o.q}
    /\ UNCHANGED <<st, tgt, QV, root, ip, ev, FL, RUN, ref>>
Return(c) == /\ pc[c] = "ret" /\ Go(c, "idle") /\ ip' = [ip EXCEPT ![c] = @ + 1]
             /\ UNCHANGED <<st, tgt, QV, root, fr, ev, FL, RUN, ref, pred, activated>>

(* ============ _dispatch_lane_concurrent_push: fast path for non-barrier non-waiters ============ *)
\* if (dq->dq_items_tail == NULL && !waiter && !barrier && try_acquire_async) redirect_push else _dispatch_lane_push
CPushTail(t) ==
    /\ pc[t] = "cpush_tail"
    /\ LET f == T(t) IN Go(t, IF tail[f.q] = NULL /\ ~IsWaiter(f.item) /\ ~BarFlag(f.item) THEN "cpush_acq" ELSE "push_tail")
    /\ UNCHANGED <<st, tgt, QV, root, fr, ip, ev, FL, RUN, ref, pred, activated>>
\* _dispatch_continuation_redirect_push(dl, dou): wrap unless already a redirection (retain_2(dl)); dx_push(dl->do_targetq, dou)
CPushAcq(t) ==
    /\ pc[t] = "cpush_acq"
    /\ LET f == T(t)  q == f.q  o == f.item  r == DQ(q)!TryAcquireAsync(st[q]) IN
       IF r.ok THEN /\ st' = [st EXCEPT ![q] = r.s]
                    /\ wrap' = [wrap EXCEPT ![o] = IF @ = NULL THEN q ELSE @]
                    /\ ref' = [ref EXCEPT ![q] = IF wrap[o] = NULL THEN @ + 2 ELSE @]
                    /\ TailPush(t, f, tgt[q], o)
               ELSE /\ Go(t, "push_tail") /\ UNCHANGED <<st, wrap, ref, root, fr>>
    /\ UNCHANGED <<tgt, QV, ip, ev, bar, RUN, pred, activated>>

(* ============================ _dispatch_lane_push ============================ *)
PushTail(t) ==
    /\ pc[t] = "push_tail"
    /\ LET f == T(t)  q == f.q  i == f.item  w == IsWaiter(i) IN
       /\ tail' = [tail EXCEPT ![q] = i] /\ nxt' = [nxt EXCEPT ![i] = NULL]      \* os_mpsc_push_update_tail
       /\ SetF(t, [f EXCEPT !.prev = tail[q], !.cons2 = (tail[q] = NULL /\ ~w), !.mkdirty = (tail[q] = NULL /\ ~w)])
       /\ ref' = [ref EXCEPT ![q] = IF tail[q] = NULL /\ ~w THEN @ + 2 ELSE @]
       /\ Go(t, IF tail[q] # NULL /\ ~w THEN "push_ovr" ELSE "push_prev")
    /\ UNCHANGED <<st, tgt, head, root, ip, ev, FL, RUN, pred, activated>>
\* _dispatch_queue_need_override: plain read of the max_qos bits (push qos is 0 on this build)
PushOvr(t) ==
    /\ pc[t] = "push_ovr"
    /\ LET q == T(t).q IN
       IF st[q].qos = 0 THEN SetL(t, "cons2", TRUE) /\ ref' = [ref EXCEPT ![q] = @ + 2] ELSE fr' = fr /\ ref' = ref
    /\ Go(t, "push_prev")
    /\ UNCHANGED <<st, tgt, QV, root, ip, ev, FL, RUN, pred, activated>>
PushPrev(t) ==
    /\ pc[t] = "push_prev"
    /\ LET f == T(t)  q == f.q  i == f.item  p == f.prev IN
       /\ IF p = NULL THEN head' = [head EXCEPT ![q] = i] /\ nxt' = nxt ELSE nxt' = [nxt EXCEPT ![p] = i] /\ head' = head
       /\ IF ~IsWaiter(i) THEN (IF f.cons2 THEN Go(t, "wk_probe") /\ fr' = fr ELSE Ret(t))
          ELSE IF p # NULL THEN Ret(t) ELSE Go(t, "pw_rmw") /\ fr' = fr
    /\ UNCHANGED <<st, tgt, tail, root, ip, ev, FL, RUN, ref, pred, activated>>

(* ================= _dispatch_lane_wakeup / _dispatch_queue_wakeup ================= *)
\* frame: fl2 = CONSUME_2 held by this wakeup, mkdirty = MAKE_DIRTY
WkProbe(t) == /\ pc[t] = "wk_probe" /\ Go(t, IF tail[T(t).q] # NULL THEN "wk_rmw" ELSE "wk_release")
              /\ UNCHANGED <<st, tgt, QV, root, fr, ip, ev, FL, RUN, ref, pred, activated>>
\* the rmw; when it set ENQUEUED: tq = load(do_targetq); _dispatch_queue_push_queue(tq, dq) -> dx_push(tq, dq)
WkRmw(t) ==
    /\ pc[t] = "wk_rmw"
    /\ LET f == T(t)  q == f.q  r == DQ(q)!Wakeup(st[q], f.mkdirty)
           tq == IF Mut \in {"stale_enqueue", "stale_enqueue_nocheck"} THEN Target0[q] ELSE tgt[q] IN
       /\ st' = [st EXCEPT ![q] = IF r.changed THEN r.s ELSE @]
       /\ IF r.changed /\ r.push THEN TailPush(t, f, tq, q)
          ELSE Go(t, "wk_release") /\ UNCHANGED <<root, fr>>
    /\ UNCHANGED <<tgt, QV, ip, ev, FL, RUN, ref, pred, activated>>
WkRelease(t) == /\ pc[t] = "wk_release" /\ ref' = [ref EXCEPT ![T(t).q] = @ - 2] /\ Ret(t)
                /\ UNCHANGED <<st, tgt, QV, root, ip, ev, FL, RUN, pred, activated>>

(* ===================== worker: root queue pop (any element) ===================== *)
\* _dispatch_root_queue_drain passes DISPATCH_INVOKE_REDIRECTING_DRAIN; the current queue is the root queue
RootPop(w) ==
    /\ pc[w] = "idle" /\ w \in Workers /\ Len(root) > 0
    /\ \E k \in 1..Len(root) :
         /\ root' = [j \in 1..(Len(root) - 1) |-> IF j < k THEN root[j] ELSE root[j + 1]]
         /\ LET o == root[k] IN
            IF wrap[o] # NULL
            THEN Call(w, T(w), [F0 EXCEPT !.q = wrap[o], !.dc = o, !.odq = ROOT, !.redir = TRUE, !.lvl = tgt[wrap[o]], !.ret = "idle"], "rd_call")
            ELSE Call(w, T(w), [F0 EXCEPT !.q = o, !.cq = ROOT, !.redir = TRUE, !.ret = "idle"], "try_lock")
    /\ UNCHANGED <<st, tgt, QV, ip, ev, FL, RUN, ref, pred, activated>>

(* ============================ running a client item ============================ *)
CallStart(t, here, cont, it) ==
    /\ pc[t] = here /\ it \in Items
    /\ running' = running \cup {it} /\ runCount' = [runCount EXCEPT ![it] = @ + 1] /\ done' = done
    /\ Go(t, cont)
    /\ UNCHANGED <<st, tgt, QV, root, fr, ip, ev, FL, ref, pred, activated>>
CallEnd(t, here, cont, it) ==
    /\ pc[t] = here /\ running' = running \ {it} /\ done' = done \cup {it} /\ runCount' = runCount /\ Go(t, cont)
    /\ UNCHANGED <<st, tgt, QV, root, fr, ip, ev, FL, ref, pred, activated>>

(* ================= _dispatch_lane_non_barrier_complete (+ _finish) ================= *)
\* frame: q, fl2 = DISPATCH_WAKEUP_CONSUME_2
NbcRmw(t) ==
    /\ pc[t] = "nbc_rmw"
    /\ LET f == T(t)  q == f.q  n == DQ(q)!NonBarrierComplete(st[q], Self(t)) IN
       /\ st' = [st EXCEPT ![q] = n] /\ SetF(t, [f EXCEPT !.old = st[q], !.new = n]) /\ Go(t, "nbc_fin")
    /\ UNCHANGED <<tgt, QV, root, ip, ev, FL, RUN, ref, pred, activated>>
NbcFin(t) ==
    /\ pc[t] = "nbc_fin"
    /\ LET f == T(t)  q == f.q  o == f.old  n == f.new IN
       IF o.ib # n.ib THEN /\ Go(t, "bc_tail") /\ root' = root /\ ref' = ref /\ SetL(t, "qos", 0)
       ELSE IF o.enq # n.enq THEN /\ ref' = [ref EXCEPT ![q] = IF f.fl2 THEN @ ELSE @ + 2]
                                  /\ TailPush(t, f, tgt[q], q)             \* dx_push(dq->do_targetq, dq)
       ELSE /\ root' = root /\ ref' = [ref EXCEPT ![q] = IF f.fl2 THEN @ - 2 ELSE @] /\ Ret(t)
    /\ UNCHANGED <<st, tgt, QV, ip, ev, FL, RUN, pred, activated>>

(* ============ _dispatch_queue_class_invoke / _dispatch_lane_invoke2 / _dispatch_lane_drain ============ *)
\* frame: q = the queue invoked, cq = _dispatch_queue_get_current() of the invoker, redir = DISPATCH_INVOKE_REDIRECTING_DRAIN
\* _dispatch_queue_drain_try_lock; then _dispatch_lane_invoke2: if (cq != otq) return otq (-> invoke_finish re-enqueues on otq);
\* _dispatch_lane_serial_drain clears REDIRECTING_DRAIN for this drain and everything it invokes
TryLock(w) ==
    /\ pc[w] = "try_lock"
    /\ LET f == T(w)  q == f.q  r == DQ(q)!DrainTryLock(st[q], Self(w))  W == Width[q] IN
       /\ st' = [st EXCEPT ![q] = r.s]
       /\ IF ~r.ok THEN fr' = fr /\ Go(w, "w_release")
          ELSE IF f.cq # tgt[q] /\ Mut \notin {"invoke2_nocheck", "stale_enqueue_nocheck"}
          THEN SetF(w, [f EXCEPT !.owned = r.owned, !.fo = r.owned, !.ftq = tgt[q]]) /\ Go(w, "fin_rmw")
          ELSE /\ SetF(w, [f EXCEPT !.owned = r.owned, !.mode = IF (W = 1 \/ r.owned.ib) THEN "IB" ELSE "W",
                                    !.ow = IF (W = 1 \/ r.owned.ib) THEN 0 ELSE r.owned.w,
                                    !.redir = (f.redir /\ W > 1)])
               /\ Go(w, "dr_tail0")
    /\ UNCHANGED <<tgt, QV, root, ip, ev, FL, RUN, ref, pred, activated>>
WRelease(w) == /\ pc[w] = "w_release" /\ ref' = [ref EXCEPT ![T(w).q] = @ - 2] /\ Ret(w)
               /\ UNCHANGED <<st, tgt, QV, root, ip, ev, FL, RUN, pred, activated>>
\* if (!dq->dq_items_tail) return NULL   (plain read)
DrTail0(w) == /\ pc[w] = "dr_tail0"
              /\ IF tail[T(w).q] = NULL THEN SetL(w, "dc", NULL) /\ Go(w, "unlock") ELSE fr' = fr /\ Go(w, "dr_head")
              /\ UNCHANGED <<st, tgt, QV, root, ip, ev, FL, RUN, ref, pred, activated>>
\* _dispatch_queue_get_head (spins in _dispatch_wait_for_enqueuer until the head is published)
DrHead(w) == /\ pc[w] = "dr_head" /\ head[T(w).q] # NULL /\ SetL(w, "dc", head[T(w).q]) /\ Go(w, "dr_susp")
             /\ UNCHANGED <<st, tgt, QV, root, ip, ev, FL, RUN, ref, pred, activated>>
OwnedAtExit(f) == [ib |-> (f.mode = "IB"), w |-> IF f.mode = "IB" THEN Width[f.q] ELSE f.ow,
                   enq |-> f.owned.enq,
                   res |-> (f.dc # NULL /\ Width[f.q] > 1 /\ IsBarrierOn(f.dc, f.q))]
\* first_iteration: dq_state = load(dq_state); if suspended break  (dc != NULL: return dq->do_targetq -> invoke_finish)
DrSusp(w) == /\ pc[w] = "dr_susp"
             /\ LET f == T(w) IN
                IF Suspended(st[f.q]) THEN SetF(w, [f EXCEPT !.fo = OwnedAtExit(f), !.ftq = tgt[f.q]]) /\ Go(w, "fin_rmw")
                ELSE fr' = fr /\ Go(w, "dr_item")
             /\ UNCHANGED <<st, tgt, QV, root, ip, ev, FL, RUN, ref, pred, activated>>
DrItem(w) ==
    /\ pc[w] = "dr_item"
    /\ LET f == T(w)  dc == f.dc IN
       IF IsBarrierOn(dc, f.q)
         THEN Go(w, IF f.mode = "IB" THEN (IF IsWaiter(dc) THEN "fin_bw" ELSE "pop1") ELSE "upgrade")
         ELSE Go(w, IF f.mode = "IB" THEN "drop_ib" ELSE IF f.ow = 0 THEN "acq_w" ELSE "pop1")
    /\ UNCHANGED <<st, tgt, QV, root, fr, ip, ev, FL, RUN, ref, pred, activated>>
Upgrade(w) ==
    /\ pc[w] = "upgrade"
    /\ LET f == T(w)  q == f.q  r == DQ(q)!TryUpgradeFullWidth(st[q], f.ow) IN
       /\ st' = [st EXCEPT ![q] = r.s]
       /\ IF r.ok THEN SetF(w, [f EXCEPT !.mode = "IB", !.ow = 0]) /\ Go(w, "dr_item")
                  ELSE SetF(w, [f EXCEPT !.ow = 0]) /\ Go(w, "unlock_wait")     \* out_with_no_width
    /\ UNCHANGED <<tgt, QV, root, ip, ev, FL, RUN, ref, pred, activated>>
\* os_atomic_xor2o(dq, dq_state, IN_BARRIER, release); owned = width * INTERVAL
DropIb(w) == /\ pc[w] = "drop_ib"
             /\ LET f == T(w) IN /\ st' = [st EXCEPT ![f.q].ib = FALSE]
                                 /\ SetF(w, [f EXCEPT !.mode = "W", !.ow = Width[f.q]]) /\ Go(w, "pop1")
             /\ UNCHANGED <<tgt, QV, root, ip, ev, FL, RUN, ref, pred, activated>>
AcqW(w) ==
    /\ pc[w] = "acq_w"
    /\ LET f == T(w)  q == f.q IN
       IF IsWaiter(f.dc) THEN st' = [st EXCEPT ![q] = DQ(q)!ReserveSyncWidth(@)] /\ SetL(w, "ow", 1) /\ Go(w, "pop1")
       ELSE LET r == DQ(q)!TryAcquireAsync(st[q]) IN
            IF r.ok THEN st' = [st EXCEPT ![q] = r.s] /\ SetL(w, "ow", 1) /\ Go(w, "pop1")
                    ELSE st' = st /\ fr' = fr /\ Go(w, "unlock_wait")
    /\ UNCHANGED <<tgt, QV, root, ip, ev, FL, RUN, ref, pred, activated>>
\* os_mpsc_pop_head: n = load(next); store(head, n); if (!n && !cas(tail, dc, NULL)) { n = wait(next); store(head, n) }
Pop1(t, here, cont) == /\ pc[t] = here
                       /\ LET f == T(t)  n == nxt[f.dc] IN head' = [head EXCEPT ![f.q] = n] /\ SetL(t, "n", n)
                       /\ Go(t, cont)
                       /\ UNCHANGED <<st, tgt, tail, nxt, root, ip, ev, FL, RUN, ref, pred, activated>>
Pop2(t, here, ok, retry) == /\ pc[t] = here
                            /\ LET f == T(t) IN
                               IF f.n # NULL THEN tail' = tail /\ Go(t, ok)
                               ELSE IF tail[f.q] = f.dc THEN tail' = [tail EXCEPT ![f.q] = NULL] /\ Go(t, ok)
                               ELSE tail' = tail /\ Go(t, retry)
                            /\ UNCHANGED <<st, tgt, head, nxt, root, fr, ip, ev, FL, RUN, ref, pred, activated>>
Pop3(t, here, ok) == /\ pc[t] = here
                     /\ LET f == T(t) IN /\ nxt[f.dc] # NULL
                                         /\ head' = [head EXCEPT ![f.q] = nxt[f.dc]] /\ SetL(t, "n", nxt[f.dc])
                     /\ Go(t, ok)
                     /\ UNCHANGED <<st, tgt, tail, nxt, root, ip, ev, FL, RUN, ref, pred, activated>>
\* after the pop.  Barrier mode: _dispatch_continuation_pop_inline.  Non-barrier mode: waiters go through
\* _dispatch_non_barrier_waiter_redirect_or_wake, other items are redirected downward ONLY when the drain is
\* redirecting (no serial queue below), else they run inline on this thread keeping the width they hold.
Popped(w) ==
    /\ pc[w] = "popped"
    /\ LET f == T(w)  q == f.q  dc == f.dc IN
       IF IsBarrierOn(dc, q) THEN Go(w, "call") /\ UNCHANGED <<root, fr, ref, wrap>>
       ELSE IF IsWaiter(dc)
       THEN /\ Call(w, [f EXCEPT !.ow = f.ow - 1], [F0 EXCEPT !.q = q, !.dc = dc, !.ret = "dr_next"], "nbw")
            /\ UNCHANGED <<root, ref, wrap>>
       ELSE IF f.redir
       THEN /\ wrap' = [wrap EXCEPT ![dc] = IF @ = NULL THEN q ELSE @]
            /\ ref' = [ref EXCEPT ![q] = IF wrap[dc] = NULL THEN @ + 2 ELSE @]
            /\ CallPush(w, [f EXCEPT !.ow = f.ow - 1], tgt[q], dc, "dr_next")
       ELSE Go(w, "call") /\ UNCHANGED <<root, fr, ref, wrap>>
    /\ UNCHANGED <<st, tgt, QV, ip, ev, bar, RUN, pred, activated>>
\* _dispatch_continuation_pop_inline of a plain continuation: the client callout
CallItem(w) == /\ pc[w] = "call" /\ T(w).dc \in Items /\ wrap[T(w).dc] = NULL /\ CallStart(w, "call", "call_end", T(w).dc)
\* _dispatch_continuation_pop_inline of a CHILD QUEUE: dx_invoke(child, dic, flags & PROPAGATE_MASK); the current
\* queue is this drain's queue (thread frame pushed by _dispatch_lane_drain)
CallQueue(w) ==
    /\ pc[w] = "call" /\ T(w).dc \in Queues /\ wrap[T(w).dc] = NULL
    /\ LET f == T(w) IN Call(w, f, [F0 EXCEPT !.q = f.dc, !.cq = f.q, !.redir = f.redir, !.ret = "dr_next"], "try_lock")
    /\ UNCHANGED <<st, tgt, QV, root, ip, ev, FL, RUN, ref, pred, activated>>
\* ... of a redirect wrapper: _dispatch_async_redirect_invoke(dc): old_dq = current queue, dq = dc_data
CallRd(w) ==
    /\ pc[w] = "call" /\ wrap[T(w).dc] # NULL
    /\ LET f == T(w)  wq == wrap[f.dc] IN
       Call(w, f, [F0 EXCEPT !.q = wq, !.dc = f.dc, !.odq = f.q, !.redir = f.redir, !.lvl = tgt[wq], !.ret = "dr_next"], "rd_call")
    /\ UNCHANGED <<st, tgt, QV, root, ip, ev, FL, RUN, ref, pred, activated>>
\* loop head: dc = next_dc; if (!dc) { if (!dq_items_tail) break; dc = get_head }
DrNext(w) ==
    /\ pc[w] = "dr_next"
    /\ LET f == T(w) IN
       IF f.n # NULL THEN SetL(w, "dc", f.n) /\ Go(w, "dr_susp")
       ELSE IF tail[f.q] = NULL THEN SetL(w, "dc", NULL) /\ Go(w, "unlock")
       ELSE fr' = fr /\ Go(w, "dr_head")
    /\ UNCHANGED <<st, tgt, QV, root, ip, ev, FL, RUN, ref, pred, activated>>
\* _dispatch_queue_drain_try_unlock(dq, owned, done = TRUE).  On failure (DIRTY): a root worker re-runs the drain
\* (attempt_running_slow_head); a NESTED invoke sets tq = current queue and leaves through _dispatch_queue_invoke_finish
Unlock(w) ==
    /\ pc[w] = "unlock"
    /\ LET f == T(w)  q == f.q  r == DQ(q)!DrainTryUnlock(st[q], OwnedAtExit(f), TRUE) IN
       /\ st' = [st EXCEPT ![q] = r.s]
       /\ IF r.ok THEN fr' = fr /\ Go(w, "w_release")
          ELSE IF f.cq = ROOT THEN fr' = fr /\ Go(w, "dr_tail0")
          ELSE SetF(w, [f EXCEPT !.fo = OwnedAtExit(f), !.ftq = f.cq]) /\ Go(w, "fin_rmw")
    /\ UNCHANGED <<tgt, QV, root, ip, ev, FL, RUN, ref, pred, activated>>
\* out_with_no_width: tq = WAIT_FOR_EVENT, owned = ENQUEUED bit only; try_unlock(done = FALSE)
UnlockWait(w) ==
    /\ pc[w] = "unlock_wait"
    /\ LET f == T(w)  q == f.q  o == [ib |-> FALSE, w |-> 0, enq |-> f.owned.enq, res |-> FALSE]
           r == DQ(q)!DrainTryUnlock(st[q], o, FALSE) IN
       /\ st' = [st EXCEPT ![q] = r.s]
       /\ IF r.ok THEN fr' = fr /\ Go(w, "w_release")
          ELSE IF f.cq = ROOT THEN SetF(w, [f EXCEPT !.mode = "W", !.ow = 0]) /\ Go(w, "dr_tail0")
          ELSE SetF(w, [f EXCEPT !.fo = o, !.ftq = f.cq]) /\ Go(w, "fin_rmw")
    /\ UNCHANGED <<tgt, QV, root, ip, ev, FL, RUN, ref, pred, activated>>
\* _dispatch_queue_invoke_finish(dq, dic, tq, owned) without barrier waiter: unlock, set DIRTY, re-enqueue on tq if runnable
FinRmw(w) ==
    /\ pc[w] = "fin_rmw"
    /\ LET f == T(w)  q == f.q  r == DQ(q)!InvokeFinish(st[q], f.fo) IN
       /\ st' = [st EXCEPT ![q] = r.s]
       /\ IF r.push THEN TailPush(w, f, f.ftq, q)           \* _dispatch_queue_push_queue(tq, dq): keeps the +2
          ELSE Go(w, "w_release") /\ UNCHANGED <<root, fr>>
    /\ UNCHANGED <<tgt, QV, ip, ev, FL, RUN, ref, pred, activated>>
\* out_with_barrier_waiter -> _dispatch_queue_invoke_finish -> _dispatch_lane_drain_barrier_waiter(CONSUME_2, owned & ENQ)
FinBw(w) == /\ pc[w] = "fin_bw" /\ SetF(w, [T(w) EXCEPT !.fl2 = TRUE, !.act = TRUE]) /\ Go(w, "bw_pop1")
            /\ UNCHANGED <<st, tgt, QV, root, ip, ev, FL, RUN, ref, pred, activated>>

(* ========== _dispatch_lane_drain_barrier_waiter: pop, transfer the lock, redirect or wake ========== *)
\* frame: act = called from the drainer (enqueued_bits = owned & ENQUEUED), else from barrier_complete (0)
BwRmw(t) ==
    /\ pc[t] = "bw_rmw"
    /\ LET f == T(t)  q == f.q IN
       st' = [st EXCEPT ![q] = DQ(q)!DrainBarrierWaiter(@, ClientOf(f.dc), f.act /\ f.owned.enq)]
    /\ Go(t, "bw_redir")
    /\ UNCHANGED <<tgt, QV, root, fr, ip, ev, FL, RUN, ref, pred, activated>>
\* _dispatch_barrier_waiter_redirect_or_wake: release the +2; base queue: wake the waiter (it now owns the lock);
\* INNER queue: tq = dq->do_targetq; serial tq: dc_flags |= BARRIER, dx_push(tq, dsc); concurrent tq: dc_flags &= ~BARRIER,
\* try_reserve_sync_width(tq) ? _dispatch_non_barrier_waiter_redirect_or_wake(tq, dsc) : dx_push(tq, dsc)
BwRedir(t) ==
    /\ pc[t] = "bw_redir"
    /\ LET f == T(t)  q == f.q  dc == f.dc  tq == tgt[q] IN
       /\ ref' = [ref EXCEPT ![q] = IF f.fl2 THEN @ - 2 ELSE @]
       /\ IF ~Inner(q) \/ Mut = "inner_waiter_woken"
          THEN ev' = [ev EXCEPT ![dc] = 1] /\ Ret(t) /\ UNCHANGED <<bar, root>>
          ELSE IF Width[tq] = 1
          THEN /\ bar' = [bar EXCEPT ![dc] = (Mut # "repush_without_barrier_flag")] /\ ev' = ev /\ TailPush(t, f, tq, dc)
          ELSE /\ bar' = [bar EXCEPT ![dc] = FALSE] /\ ev' = ev /\ root' = root
               /\ SetF(t, [f EXCEPT !.q = tq]) /\ Go(t, "rsv_tail")
    /\ UNCHANGED <<st, tgt, QV, ip, wrap, RUN, pred, activated>>
\* _dispatch_queue_try_reserve_sync_width(tq) on behalf of the waiter f.dc: tail check, then the rmw
RsvTail(t) == /\ pc[t] = "rsv_tail"
              /\ LET f == T(t) IN
                 IF tail[f.q] # NULL THEN TailPush(t, f, f.q, f.dc) ELSE Go(t, "rsv_rmw") /\ UNCHANGED <<root, fr>>
              /\ UNCHANGED <<st, tgt, QV, ip, ev, FL, RUN, ref, pred, activated>>
RsvRmw(t) == /\ pc[t] = "rsv_rmw"
             /\ LET f == T(t)  q == f.q  r == DQ(q)!TryReserveSyncWidth(st[q]) IN
                IF r.ok THEN st' = [st EXCEPT ![q] = r.s] /\ Go(t, "nbw") /\ UNCHANGED <<root, fr>>
                        ELSE st' = st /\ TailPush(t, f, q, f.dc)
             /\ UNCHANGED <<tgt, QV, ip, ev, FL, RUN, ref, pred, activated>>
\* _dispatch_non_barrier_waiter_redirect_or_wake(dq, dsc): the waiter holds one width unit of dq
Nbw(t) ==
    /\ pc[t] = "nbw"
    /\ LET f == T(t)  q == f.q  dc == f.dc  tq == tgt[q] IN
       IF ~Inner(q) \/ Mut = "inner_waiter_woken"
       THEN ev' = [ev EXCEPT ![dc] = 1] /\ Ret(t) /\ UNCHANGED <<bar, root>>
       ELSE IF Width[tq] = 1
       THEN /\ bar' = [bar EXCEPT ![dc] = (Mut # "repush_without_barrier_flag")] /\ ev' = ev /\ TailPush(t, f, tq, dc)
       ELSE /\ bar' = [bar EXCEPT ![dc] = FALSE] /\ ev' = ev /\ root' = root
            /\ SetF(t, [f EXCEPT !.q = tq]) /\ Go(t, "rsv_tail")
    /\ UNCHANGED <<st, tgt, QV, ip, wrap, RUN, ref, pred, activated>>

(* ===================== _dispatch_async_redirect_invoke ===================== *)
\* frame: q = dc_data (the queue whose width the wrapper holds), dc = the wrapped object, odq = old_dq, lvl = rq.
\* _dispatch_continuation_pop(other_dc, dic, flags, dq): a client item runs; a child queue is invoked with dq current
RdCallItem(w) == /\ pc[w] = "rd_call" /\ T(w).dc \in Items
                 /\ CallStart(w, "rd_call", "rd_call_end", T(w).dc)
RdCallQueue(w) ==
    /\ pc[w] = "rd_call" /\ T(w).dc \in Queues
    /\ LET f == T(w) IN Call(w, f, [F0 EXCEPT !.q = f.dc, !.cq = f.q, !.redir = f.redir, !.ret = "rd_loop"], "try_lock")
    /\ wrap' = [wrap EXCEPT ![T(w).dc] = NULL]
    /\ UNCHANGED <<st, tgt, QV, root, ip, ev, bar, RUN, ref, pred, activated>>
RdCallEnd(w) ==
    /\ pc[w] = "rd_call_end"
    /\ LET it == T(w).dc IN
       /\ running' = running \ {it} /\ done' = done \cup {it} /\ runCount' = runCount
       /\ wrap' = [wrap EXCEPT ![it] = NULL]
    /\ Go(w, "rd_loop")
    /\ UNCHANGED <<st, tgt, QV, root, fr, ip, ev, bar, ref, pred, activated>>
\* rq = dq->do_targetq; while (rq->do_targetq && rq != old_dq) { non_barrier_complete(rq, 0); rq = rq->do_targetq; }
\* then _dispatch_lane_non_barrier_complete(dq, CONSUME_2)  (pairs with the wrap's retain_2)
RdLoop(w) ==
    /\ pc[w] = "rd_loop"
    /\ LET f == T(w)  rq == f.lvl IN
       IF rq # ROOT /\ rq # f.odq
       THEN Call(w, [f EXCEPT !.lvl = tgt[rq]], [F0 EXCEPT !.q = rq, !.fl2 = FALSE, !.ret = "rd_loop"], "nbc_rmw")
       ELSE SetF(w, [F0 EXCEPT !.q = f.q, !.fl2 = TRUE, !.ret = f.ret]) /\ Go(w, "nbc_rmw")
    /\ UNCHANGED <<st, tgt, QV, root, ip, ev, FL, RUN, ref, pred, activated>>

(* ================== dispatch_sync / dispatch_barrier_sync through every level ================== *)
\* frame: q = top queue, lvl = the level being acquired, item.
\* _dispatch_sync_f_inline / _dispatch_barrier_sync_f_inline acquire the top queue; _dispatch_sync_recurse then walks
\* tq = tq->do_targetq while tq is not a root queue: serial levels by _dispatch_queue_try_acquire_barrier_sync
\* (dq_items_tail check, then the rmw), concurrent ones by _dispatch_queue_try_reserve_sync_width (same shape).
\* Failure on level lvl: _dispatch_sync_f_slow(top_dq, ..., lvl, flags) pushes the sync context on THAT level.
NextLevel(f) == LET nl == tgt[f.lvl] IN
                IF nl = ROOT \/ (Mut = "recurse_skips_bottom" /\ Target[nl] = ROOT) THEN NULL ELSE nl
Acquired(c, f) ==
    LET nl == NextLevel(f) IN
    IF nl = NULL THEN SetF(c, [f EXCEPT !.fast = (f.lvl = f.q /\ tgt[f.q] = ROOT)]) /\ Go(c, "sync_call")
    ELSE SetF(c, [f EXCEPT !.lvl = nl]) /\ Go(c, IF Width[nl] = 1 THEN "bs_tail" ELSE "rs_tail")
BsTail(c) == /\ pc[c] = "bs_tail" /\ Go(c, IF tail[T(c).lvl] # NULL THEN "sync_slow" ELSE "bs_fast")
             /\ UNCHANGED <<st, tgt, QV, root, fr, ip, ev, FL, RUN, ref, pred, activated>>
BsFast(c) == /\ pc[c] = "bs_fast"
             /\ LET f == T(c)  l == f.lvl  r == DQ(l)!TryAcquireBarrierSync(st[l], Self(c), 0) IN
                IF r.ok THEN st' = [st EXCEPT ![l] = r.s] /\ Acquired(c, f) ELSE st' = st /\ fr' = fr /\ Go(c, "sync_slow")
             /\ UNCHANGED <<tgt, QV, root, ip, ev, FL, RUN, ref, pred, activated>>
RsTail(c) == /\ pc[c] = "rs_tail" /\ Go(c, IF tail[T(c).lvl] # NULL THEN "sync_slow" ELSE "rs_fast")
             /\ UNCHANGED <<st, tgt, QV, root, fr, ip, ev, FL, RUN, ref, pred, activated>>
RsFast(c) == /\ pc[c] = "rs_fast"
             /\ LET f == T(c)  l == f.lvl  r == DQ(l)!TryReserveSyncWidth(st[l]) IN
                IF r.ok THEN st' = [st EXCEPT ![l] = r.s] /\ Acquired(c, f) ELSE st' = st /\ fr' = fr /\ Go(c, "sync_slow")
             /\ UNCHANGED <<tgt, QV, root, ip, ev, FL, RUN, ref, pred, activated>>
\* _dispatch_sync_f_slow: dsc.dc_flags = SYNC_WAITER | (BARRIER iff the level is taken as a barrier);
\* __DISPATCH_WAIT_FOR_QUEUE__: dx_push(lvl, dsc) then _dispatch_thread_event_wait
SyncSlow(c) ==
    /\ pc[c] = "sync_slow"
    /\ LET f == T(c)  l == f.lvl  i == f.item IN
       /\ bar' = [bar EXCEPT ![i] = IF l = f.q THEN TopBar(i) ELSE Width[l] = 1]
       /\ CallPush(c, f, l, i, "wait_event")
    /\ UNCHANGED <<st, tgt, QV, ip, ev, wrap, RUN, ref, pred, activated>>
\* _dispatch_thread_event_wait; the waiter then owns every level from the one it waited on down to the bottom
WaitEvent(c) == /\ pc[c] = "wait_event" /\ ev[T(c).item] = 1 /\ Go(c, "sync_call")
                /\ UNCHANGED <<st, tgt, QV, root, fr, ip, ev, FL, RUN, ref, pred, activated>>
\* after the callout.  Fast path on a queue that targets a root queue: _dispatch_lane_barrier_sync_invoke_and_complete /
\* _dispatch_sync_invoke_and_complete.  Otherwise _dispatch_sync_complete_recurse(top_dq, NULL, top_dc_flags)
SyncDone(c) ==
    /\ pc[c] = "sync_done"
    /\ LET f == T(c)  i == f.item IN
       IF f.fast
       THEN /\ SetF(c, [f EXCEPT !.fl2 = FALSE, !.qos = 0])
            /\ Go(c, IF ~TopBar(i) THEN "nbc_rmw" ELSE IF Width[f.q] = 1 THEN "bsu_tail" ELSE "bc_tail")
       ELSE SetF(c, [f EXCEPT !.lvl = f.q, !.cbar = TopBar(i)]) /\ Go(c, "cr_level")
    /\ UNCHANGED <<st, tgt, QV, root, ip, ev, FL, RUN, ref, pred, activated>>
\* do { if (barrier) dx_wakeup(dq, 0, BARRIER_COMPLETE) else non_barrier_complete(dq, 0);
\*      dq = dq->do_targetq; barrier = (dq->dq_width == 1); } while (dq->do_targetq);
CrLevel(c) ==
    /\ pc[c] = "cr_level"
    /\ LET f == T(c)  l == f.lvl  nl == tgt[l]
           last == (nl = ROOT) \/ (Mut = "complete_forgets_level" /\ Target[nl] = ROOT)
           sub == [F0 EXCEPT !.q = l, !.fl2 = FALSE, !.qos = 0, !.ret = IF last THEN f.ret ELSE "cr_level"]
           entry == IF f.cbar THEN "bc_tail" ELSE "nbc_rmw" IN
       IF last THEN SetF(c, sub) /\ Go(c, entry)
       ELSE Call(c, [f EXCEPT !.lvl = nl, !.cbar = (Width[nl] = 1)], sub, entry)
    /\ UNCHANGED <<st, tgt, QV, root, ip, ev, FL, RUN, ref, pred, activated>>
\* _dispatch_lane_barrier_sync_invoke_and_complete: if (dq_items_tail || width > 1) barrier_complete else cheap unlock
BsuTail(c) == /\ pc[c] = "bsu_tail" /\ Go(c, IF tail[T(c).q] # NULL THEN "bc_tail" ELSE "bsu_rmw")
              /\ UNCHANGED <<st, tgt, QV, root, fr, ip, ev, FL, RUN, ref, pred, activated>>
BsuRmw(c) == /\ pc[c] = "bsu_rmw"
             /\ LET q == T(c).q  r == DQ(q)!BarrierSyncUnlock(st[q]) IN
                IF r.ok THEN st' = [st EXCEPT ![q] = r.s] /\ Ret(c) ELSE st' = st /\ fr' = fr /\ Go(c, "bc_tail")
             /\ UNCHANGED <<tgt, QV, root, ip, ev, FL, RUN, ref, pred, activated>>
\* _dispatch_lane_push_waiter rmw (the waiter made the list non-empty); the pusher may be a drainer re-pushing the waiter
PwRmw(t) ==
    /\ pc[t] = "pw_rmw"
    /\ LET f == T(t)  q == f.q  r == DQ(q)!PushWaiter(st[q], Self(t)) IN
       /\ st' = [st EXCEPT ![q] = r.s]
       /\ IF r.took THEN SetF(t, [f EXCEPT !.fl2 = FALSE, !.qos = 0]) /\ Go(t, "bc_tail")
                    ELSE Ret(t)
    /\ UNCHANGED <<tgt, QV, root, ip, ev, FL, RUN, ref, pred, activated>>

(* ========================= _dispatch_lane_barrier_complete ========================= *)
\* frame: q, fl2 = CONSUME_2, qos
\* if (dq->dq_items_tail && !DISPATCH_QUEUE_IS_SUSPENDED(dq))   (two loads)
BcTail(t) == /\ pc[t] = "bc_tail" /\ Go(t, IF tail[T(t).q] # NULL THEN "bc_susp" ELSE "bc_rmw_none")
             /\ UNCHANGED <<st, tgt, QV, root, fr, ip, ev, FL, RUN, ref, pred, activated>>
BcSusp(t) == /\ pc[t] = "bc_susp" /\ Go(t, IF Suspended(st[T(t).q]) THEN "bc_rmw_none" ELSE "bc_head")
             /\ UNCHANGED <<st, tgt, QV, root, fr, ip, ev, FL, RUN, ref, pred, activated>>
BcHead(t) ==
    /\ pc[t] = "bc_head"
    /\ LET f == T(t)  q == f.q  h == head[q] IN
       /\ h # NULL
       /\ IF IsBarrierOn(h, q)
            THEN IF IsWaiter(h) THEN SetF(t, [f EXCEPT !.dc = h, !.act = FALSE]) /\ Go(t, "bw_pop1") /\ ref' = ref
                 ELSE /\ SetF(t, [f EXCEPT !.dc = h, !.fl2 = TRUE]) /\ Go(t, "bc_rmw_tq")
                      /\ ref' = [ref EXCEPT ![q] = IF f.fl2 THEN @ ELSE @ + 2]
            ELSE SetF(t, [f EXCEPT !.dc = h, !.ow = Width[q]]) /\ Go(t, "dnb_dropib") /\ ref' = ref
    /\ UNCHANGED <<st, tgt, QV, root, ip, ev, FL, RUN, pred, activated>>
FullOwned(q) == [ib |-> TRUE, w |-> Width[q], enq |-> FALSE, res |-> FALSE]
\* _dispatch_lane_class_barrier_complete with target = TARGET: unlock and _dispatch_queue_push_queue(do_targetq, dq)
BcRmwTq(t) ==
    /\ pc[t] = "bc_rmw_tq"
    /\ LET f == T(t)  q == f.q  r == DQ(q)!BarrierComplete(st[q], FullOwned(q), TRUE, f.qos) IN
       /\ st' = [st EXCEPT ![q] = r.s]
       /\ IF r.s.enq /\ ~st[q].enq THEN ref' = ref /\ TailPush(t, f, tgt[q], q)
          ELSE root' = root /\ ref' = [ref EXCEPT ![q] = @ - 2] /\ Ret(t)
    /\ UNCHANGED <<tgt, QV, ip, ev, FL, RUN, pred, activated>>
\* ... and with target = NONE: DIRTY forces a retry through dx_wakeup(BARRIER_COMPLETE)
BcRmwNone(t) ==
    /\ pc[t] = "bc_rmw_none"
    /\ LET f == T(t)  q == f.q  r == DQ(q)!BarrierComplete(st[q], FullOwned(q), FALSE, f.qos) IN
       /\ st' = [st EXCEPT ![q] = r.s]
       /\ IF r.ok THEN ref' = [ref EXCEPT ![q] = IF f.fl2 THEN @ - 2 ELSE @] /\ Ret(t)
                  ELSE ref' = ref /\ fr' = fr /\ Go(t, "bc_tail")
    /\ UNCHANGED <<tgt, QV, root, ip, ev, FL, RUN, pred, activated>>

(* ========================= _dispatch_lane_drain_non_barriers ========================= *)
\* runs on the thread completing a barrier; ALWAYS redirects non-waiters (_dispatch_continuation_redirect_push to do_targetq)
DnbDropIb(t) == /\ pc[t] = "dnb_dropib" /\ st' = [st EXCEPT ![T(t).q].ib = FALSE] /\ Go(t, "dnb_item")
                /\ UNCHANGED <<tgt, QV, root, fr, ip, ev, FL, RUN, ref, pred, activated>>
DnbItem(t) ==
    /\ pc[t] = "dnb_item"
    /\ LET f == T(t)  q == f.q  dc == f.dc IN
       IF f.ow > 0 THEN st' = st /\ SetL(t, "ow", f.ow - 1) /\ Go(t, "dnb_pop1")
       ELSE IF IsWaiter(dc) THEN st' = [st EXCEPT ![q] = DQ(q)!ReserveSyncWidth(@)] /\ fr' = fr /\ Go(t, "dnb_pop1")
       ELSE LET r == DQ(q)!TryAcquireAsync(st[q]) IN
            IF r.ok THEN st' = [st EXCEPT ![q] = r.s] /\ fr' = fr /\ Go(t, "dnb_pop1")
                    ELSE st' = st /\ fr' = fr /\ Go(t, "dnb_rmw")      \* break: no width left, dc stays non-null
    /\ UNCHANGED <<tgt, QV, root, ip, ev, FL, RUN, ref, pred, activated>>
DnbPopped(t) ==
    /\ pc[t] = "dnb_popped"
    /\ LET f == T(t)  q == f.q  dc == f.dc
           cont == IF f.n # NULL /\ ~IsBarrierOn(f.n, q) THEN "dnb_item" ELSE "dnb_rmw"
           cf == [f EXCEPT !.dc = f.n] IN
       IF IsWaiter(dc)
       THEN Call(t, cf, [F0 EXCEPT !.q = q, !.dc = dc, !.ret = cont], "nbw") /\ UNCHANGED <<root, ref, wrap>>
       ELSE /\ wrap' = [wrap EXCEPT ![dc] = IF @ = NULL THEN q ELSE @]
            /\ ref' = [ref EXCEPT ![q] = IF wrap[dc] = NULL THEN @ + 2 ELSE @]
            /\ CallPush(t, cf, tgt[q], dc, cont)
    /\ UNCHANGED <<st, tgt, QV, ip, ev, bar, RUN, pred, activated>>
DnbRmw(t) ==
    /\ pc[t] = "dnb_rmw"
    /\ LET f == T(t)  q == f.q  dc == f.dc
           r == DQ(q)!DrainNonBarriersExit(st[q], f.ow, dc # NULL, dc # NULL /\ IsBarrierOn(dc, q), Self(t)) IN
       /\ st' = [st EXCEPT ![q] = r.s]
       /\ IF r.ok THEN SetF(t, [f EXCEPT !.old = r.old, !.new = r.s]) /\ Go(t, "nbc_fin")
                  ELSE fr' = fr /\ Go(t, "dnb_again")
    /\ UNCHANGED <<tgt, QV, root, ip, ev, FL, RUN, ref, pred, activated>>
\* next_dc = load(dq_items_head); goto drain_again
DnbAgain(t) == /\ pc[t] = "dnb_again"
               /\ LET f == T(t)  h == head[f.q] IN
                  /\ SetL(t, "dc", h)
                  /\ Go(t, IF h # NULL /\ ~IsBarrierOn(h, f.q) THEN "dnb_item" ELSE "dnb_rmw")
               /\ UNCHANGED <<st, tgt, QV, root, ip, ev, FL, RUN, ref, pred, activated>>

(* ============ dispatch_set_target_queue on an inactive queue ; dispatch_activate ============ *)
\* _dispatch_lane_set_target_queue: if (_dispatch_lane_try_inactive_suspend(dq)) { dq->do_targetq = tq; _dispatch_lane_resume(dq, false); }
StSusp(c) == /\ pc[c] = "st_susp"
             /\ LET q == T(c).q  r == DQ(q)!TryInactiveSuspend(st[q]) IN
                IF r.ok THEN st' = [st EXCEPT ![q] = r.s] /\ Go(c, "st_swap") ELSE st' = st /\ Go(c, "crash")
             /\ UNCHANGED <<tgt, QV, root, fr, ip, ev, FL, RUN, ref, pred, activated>>
StSwap(c) == /\ pc[c] = "st_swap" /\ tgt' = [tgt EXCEPT ![T(c).q] = T(c).lvl] /\ Go(c, "res_rmw")
             /\ UNCHANGED <<st, QV, root, fr, ip, ev, FL, RUN, ref, pred, activated>>
\* the non-activating resume rmw (_dispatch_lane_resume(dq, false)); "activate": _dispatch_lane_resume_activate -> dx_activate
\* (_dispatch_lane_activate: priority and role from the CURRENT do_targetq) and the count is consumed by a second pass
ResRmw(c) ==
    /\ pc[c] = "res_rmw"
    /\ LET f == T(c)  q == f.q  r == DQ(q)!Resume(st[q], Self(c), FALSE) IN
       /\ st' = [st EXCEPT ![q] = r.s]
       /\ CASE r.kind = "activate" -> Go(c, "res_rmw") /\ fr' = fr /\ ref' = ref
            [] r.kind \in {"slow", "over_resume"} -> Go(c, "crash") /\ fr' = fr /\ ref' = ref
            [] r.kind = "still" -> Ret(c) /\ ref' = ref
            [] r.kind = "nowidth" -> Ret(c) /\ ref' = [ref EXCEPT ![q] = @ - 2]
            [] r.kind = "barrier" -> Go(c, "bc_tail") /\ SetF(c, [f EXCEPT !.fl2 = TRUE, !.qos = st[q].qos]) /\ ref' = ref
            [] r.kind \in {"locked", "wakeup"} -> Go(c, "wk_probe") /\ SetF(c, [f EXCEPT !.mkdirty = FALSE, !.fl2 = TRUE]) /\ ref' = ref
    /\ UNCHANGED <<tgt, QV, root, ip, ev, FL, RUN, pred, activated>>
\* dispatch_activate: the activating rmw of _dispatch_lane_resume(dq, true)
ActRmw(c) ==
    /\ pc[c] = "act_rmw"
    /\ LET q == T(c).q  r == DQ(q)!Activate(st[q]) IN
       /\ st' = [st EXCEPT ![q] = r.s]
       /\ IF r.kind = "finalize" THEN Go(c, "res_rmw") /\ fr' = fr ELSE Ret(c)
    /\ UNCHANGED <<tgt, QV, root, ip, ev, FL, RUN, ref, pred, activated>>

(* ================================ next-state ================================ *)
ClientStep(t) ==
    \/ Start(t) \/ Return(t) \/ RsTail(t) \/ RsFast(t) \/ BsTail(t) \/ BsFast(t) \/ SyncSlow(t)
    \/ WaitEvent(t) \/ SyncDone(t) \/ CrLevel(t) \/ BsuTail(t) \/ BsuRmw(t)
    \/ StSusp(t) \/ StSwap(t) \/ ResRmw(t) \/ ActRmw(t)
    \/ CallStart(t, "sync_call", "sync_call_end", T(t).item) \/ CallEnd(t, "sync_call_end", "sync_done", T(t).item)
WorkerStep(t) ==
    \/ RootPop(t) \/ TryLock(t) \/ WRelease(t) \/ DrTail0(t) \/ DrHead(t) \/ DrSusp(t) \/ DrItem(t) \/ Upgrade(t) \/ DropIb(t) \/ AcqW(t)
    \/ Popped(t) \/ CallQueue(t) \/ CallRd(t) \/ DrNext(t) \/ Unlock(t) \/ UnlockWait(t) \/ FinRmw(t) \/ FinBw(t)
    \/ RdCallItem(t) \/ RdCallQueue(t) \/ RdCallEnd(t) \/ RdLoop(t)
    \/ Pop1(t, "pop1", "pop2") \/ Pop2(t, "pop2", "popped", "pop3") \/ Pop3(t, "pop3", "popped")
    \/ CallItem(t) \/ CallEnd(t, "call_end", "dr_next", T(t).dc)
SharedStep(t) ==
    \/ CPushTail(t) \/ CPushAcq(t) \/ PushTail(t) \/ PushOvr(t) \/ PushPrev(t) \/ WkProbe(t) \/ WkRmw(t) \/ WkRelease(t) \/ PwRmw(t)
    \/ NbcRmw(t) \/ NbcFin(t) \/ BwRmw(t) \/ BwRedir(t) \/ RsvTail(t) \/ RsvRmw(t) \/ Nbw(t)
    \/ BcTail(t) \/ BcSusp(t) \/ BcHead(t) \/ BcRmwTq(t) \/ BcRmwNone(t)
    \/ DnbDropIb(t) \/ DnbItem(t) \/ DnbPopped(t) \/ DnbRmw(t) \/ DnbAgain(t)
    \/ Pop1(t, "bw_pop1", "bw_pop2") \/ Pop2(t, "bw_pop2", "bw_rmw", "bw_pop3") \/ Pop3(t, "bw_pop3", "bw_rmw")
    \/ Pop1(t, "dnb_pop1", "dnb_pop2") \/ Pop2(t, "dnb_pop2", "dnb_popped", "dnb_pop3") \/ Pop3(t, "dnb_pop3", "dnb_popped")
Step(t) == (t \in Clients /\ ClientStep(t)) \/ (t \in Workers /\ WorkerStep(t)) \/ SharedStep(t)
Next == \E t \in Threads : Step(t)
Spec == Init /\ [][Next]_vars
FairSpec == Spec /\ \A t \in Threads : WF_vars(Step(t))

(* ================================ properties ================================ *)
AllSubmitted == \A c \in Clients : ip[c] > Len(Prog[c])
Quiescent == (\A t \in Threads : pc[t] = "idle") /\ root = <<>>
IdleModQos(s) == [s EXCEPT !.qos = 0, !.dirty = FALSE] = Idle0

\* the target chain of q (q included), and the queues whose chain reaches b
RECURSIVE ChainOf(_)
ChainOf(q) == IF q = ROOT THEN {} ELSE {q} \cup ChainOf(Target[q])
UpSet(b) == {q \in Queues : b \in ChainOf(q)}
\* C03: for every SERIAL queue b of the hierarchy, at most one client item submitted to any queue of b's up-set
\* executes at any time -- asynchronous items, redirected items and dispatch_sync callers alike
HierarchyExclusion == \A b \in Queues : Width[b] = 1 => Cardinality({i \in running : On[i] \in UpSet(b)}) <= 1
\* C03: each serial queue still delivers its own items in submission order
Order == \A b \in running \cup done : \A a \in pred[b] : (On[a] = On[b] /\ Width[On[a]] = 1) => a \in done
\* concurrent members keep their barrier semantics (C04, inherited)
BarrierExcl == \A i \in running : TopBar(i) => \A j \in running : (On[j] = On[i]) => j = i
AtMostOnce == \A i \in Items : runCount[i] <= 1
\* nothing stranded: when everything is quiet and every queue is active, every item has run, every word is idle,
\* every list is empty, every internal reference has been given back
NoStrand == (Quiescent /\ AllSubmitted /\ \A q \in Queues : ~Suspended(st[q])) =>
               /\ done = Items
               /\ \A q \in Queues : IdleModQos(st[q]) /\ tail[q] = NULL /\ head[q] = NULL /\ ref[q] = 0
               /\ \A t \in Threads : Len(fr[t]) = 1
SyncAfterEnd == \A c \in Clients : \A k \in 1..(ip[c] - 1) :
                   ("i" \in DOMAIN Prog[c][k] /\ IsWaiter(Prog[c][k].i)) => Prog[c][k].i \in done
WidthOK == \A q \in Queues : st[q].used >= 0 /\ st[q].used <= 2 * Width[q] + Cardinality({i \in Items : IsWaiter(i)})
\* nothing runs on a queue before dispatch_activate was called on it, nor below an inactive queue's target change
NoEarlyStart == \A i \in running \cup done : On[i] \in activated
NoCrash == \A t \in Threads : pc[t] # "crash"
RefOK == \A q \in Queues : ref[q] >= 0
\* The inductive reason of HierarchyExclusion, and what spec/ChainLockTrace.tla checks on recorded executions of the real library:
\* (L1) an item executes on a thread that owns the drain lock of EVERY serial queue on the target chain of its queue
\*      (nested drains, _dispatch_sync_recurse, or the lock transfers of the waiter hand-off);
RunningOn(t) == IF pc[t] \in {"call_end", "rd_call_end"} THEN T(t).dc ELSE IF pc[t] = "sync_call_end" THEN T(t).item ELSE NULL
LockChain == \A t \in Threads : RunningOn(t) # NULL =>
                \A b \in ChainOf(On[RunningOn(t)]) : Width[b] = 1 => st[b].owner = t
\* (L2) a queue whose target is a serial queue is drained only by the thread that owns the target's drain lock
DrainPcs == {"dr_tail0", "dr_head", "dr_susp", "dr_item", "upgrade", "drop_ib", "acq_w", "pop1", "pop2", "pop3", "popped", "call",
             "call_end", "dr_next", "unlock", "unlock_wait", "fin_bw"}
DrainFromTarget == \A t \in Threads : (pc[t] \in DrainPcs /\ Inner(T(t).q) /\ Width[Target[T(t).q]] = 1) =>
                      st[Target[T(t).q]].owner = t
\* liveness: everything submitted eventually runs
Live == <>(done = Items)
=============================================================================
