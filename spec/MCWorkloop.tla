----------------------------- MODULE MCWorkloop -----------------------------
(* Model-checking instances of Workloop.tla: hierarchy shapes over a workloop and client programs per configuration
   (tools/props/C03.py generates the .cfg files).  Qos numbers: 3 = UTILITY, 4 = DEFAULT. *)
EXTENDS Workloop

A(i)  == [op |-> "async", i |-> i]
S(i)  == [op |-> "sync", i |-> i]
AW(i) == [op |-> "aaw", i |-> i]
WLACT == [op |-> "wlact"]

\* ---- W1: serial L -> workloop ----
QueuesW1 == {"L", "WL"}
TargetW1 == ("L" :> "WL" @@ "WL" :> ROOT)
WidthW1 == ("L" :> 1 @@ "WL" :> 1)
QosW1 == ("L" :> 0 @@ "WL" :> 0)
\* async + sync on the leaf
ItemsW1 == {"a", "s"}
KindW1 == ("a" :> "ra" @@ "s" :> "rs")
OnW1 == ("a" :> "L" @@ "s" :> "L")
ProgW1 == ("c1" :> <<A("a")>> @@ "c2" :> <<S("s")>>)
\* two syncs racing an async submitted directly to the workloop
ItemsW1x == {"x", "s", "s2"}
KindW1x == ("x" :> "ra" @@ "s" :> "rs" @@ "s2" :> "rs")
OnW1x == ("x" :> "WL" @@ "s" :> "L" @@ "s2" :> "L")
ProgW1x == ("c1" :> <<A("x"), S("s2")>> @@ "c2" :> <<S("s")>>)
\* a workloop created inactive: both clients call dispatch_activate, then submit
ProgW1i == ("c1" :> <<WLACT, A("a")>> @@ "c2" :> <<WLACT, S("s")>>)

\* ---- W2: fan-in over two buckets: serial L3 (QOS_CLASS_UTILITY) and serial L -> workloop ----
QueuesW2 == {"L3", "L", "WL"}
TargetW2 == ("L3" :> "WL" @@ "L" :> "WL" @@ "WL" :> ROOT)
WidthW2 == ("L3" :> 1 @@ "L" :> 1 @@ "WL" :> 1)
QosW2 == ("L3" :> 3 @@ "L" :> 0 @@ "WL" :> 0)
ItemsW2 == {"a", "b"}
KindW2 == ("a" :> "ra" @@ "b" :> "ra")
OnW2 == ("a" :> "L3" @@ "b" :> "L")
ProgW2 == ("c1" :> <<A("a")>> @@ "c2" :> <<A("b")>>)
\* async on the utility leaf racing a sync through the default leaf
ItemsW2s == {"a", "s"}
KindW2s == ("a" :> "ra" @@ "s" :> "rs")
OnW2s == ("a" :> "L3" @@ "s" :> "L")
ProgW2s == ("c1" :> <<A("a")>> @@ "c2" :> <<S("s")>>)
\* sync through the utility leaf (its waiter is re-pushed in the utility bucket) racing an async on the default leaf
OnW2t == ("a" :> "L" @@ "s" :> "L3")
\* three items over both buckets
ItemsW2x == {"a", "b", "s"}
KindW2x == ("a" :> "ra" @@ "b" :> "ra" @@ "s" :> "rs")
OnW2x == ("a" :> "L3" @@ "b" :> "L" @@ "s" :> "L3")
ProgW2x == ("c1" :> <<A("a"), A("b")>> @@ "c2" :> <<S("s")>>)

\* ---- W3: concurrent L (width 2) -> workloop ----
WidthW3 == ("L" :> 2 @@ "WL" :> 1)
ItemsW3 == {"r1", "s"}
KindW3 == ("r1" :> "ra" @@ "s" :> "rs")
OnW3 == ("r1" :> "L" @@ "s" :> "L")
ProgW3 == ("c1" :> <<A("r1")>> @@ "c2" :> <<S("s")>>)
ItemsW3b == {"r1", "b1", "s"}
KindW3b == ("r1" :> "ra" @@ "b1" :> "ba" @@ "s" :> "rs")
OnW3b == ("r1" :> "L" @@ "b1" :> "L" @@ "s" :> "L")
ProgW3b == ("c1" :> <<A("r1"), A("b1")>> @@ "c2" :> <<S("s")>>)

\* ---- W4: dispatch_async / dispatch_async_and_wait directly on the workloop, sync through a leaf ----
ItemsW4 == {"x", "y"}
KindW4 == ("x" :> "ra" @@ "y" :> "aw")
OnW4 == ("x" :> "WL" @@ "y" :> "WL")
ProgW4 == ("c1" :> <<A("x")>> @@ "c2" :> <<AW("y")>>)
ItemsW4s == {"s", "y"}
KindW4s == ("s" :> "rs" @@ "y" :> "aw")
OnW4s == ("s" :> "L" @@ "y" :> "WL")
ProgW4s == ("c1" :> <<S("s")>> @@ "c2" :> <<AW("y")>>)
ItemsW4x == {"x", "s", "y"}
KindW4x == ("x" :> "ra" @@ "s" :> "rs" @@ "y" :> "aw")
OnW4x == ("x" :> "WL" @@ "s" :> "L" @@ "y" :> "WL")
ProgW4x == ("c1" :> <<A("x"), S("s")>> @@ "c2" :> <<AW("y")>>)

\* ---- W5: a USER_INITIATED (5) leaf above direct items of the workloop (default bucket 4 is the LOWER one) ----
QueuesW5 == {"L5", "L", "WL"}
TargetW5 == ("L5" :> "WL" @@ "L" :> "WL" @@ "WL" :> ROOT)
WidthW5 == ("L5" :> 1 @@ "L" :> 1 @@ "WL" :> 1)
QosW5 == ("L5" :> 5 @@ "L" :> 0 @@ "WL" :> 0)
\* two direct items in the default bucket, the leaf arrives in the higher bucket while they are drained (yield)
ItemsW5y == {"x1", "x2", "a"}
KindW5y == ("x1" :> "ra" @@ "x2" :> "ra" @@ "a" :> "ra")
OnW5y == ("x1" :> "WL" @@ "x2" :> "WL" @@ "a" :> "L5")
ProgW5y == ("c1" :> <<A("x1"), A("x2")>> @@ "c2" :> <<A("a")>>)
\* a sync waiter in the default bucket below a non-empty higher bucket
ItemsW5x == {"x", "a", "s"}
KindW5x == ("x" :> "ra" @@ "a" :> "ra" @@ "s" :> "rs")
OnW5x == ("x" :> "WL" @@ "a" :> "L5" @@ "s" :> "L")
ProgW5x == ("c1" :> <<A("x"), A("a")>> @@ "c2" :> <<S("s")>>)

\* ---- W6: three levels: serial L -> serial M -> workloop ----
QueuesW6 == {"L", "M", "WL"}
TargetW6 == ("L" :> "M" @@ "M" :> "WL" @@ "WL" :> ROOT)
WidthW6 == ("L" :> 1 @@ "M" :> 1 @@ "WL" :> 1)
QosW6 == ("L" :> 0 @@ "M" :> 0 @@ "WL" :> 0)
\* concurrent leaf over a serial middle over the workloop
WidthW7 == ("L" :> 2 @@ "M" :> 1 @@ "WL" :> 1)
\* serial leaf over a concurrent middle over the workloop (the leaf's waiter reserves width on / is re-pushed on the middle)
WidthW8 == ("L" :> 1 @@ "M" :> 2 @@ "WL" :> 1)

\* ---- reachability witnesses (each must be VIOLATED somewhere: the branch is explored) ----
\* _dispatch_workloop_try_lower_max_qos meets DIRTY while max_qos is above the bucket it is about to drain
ReachLowerDirty == \A t \in Threads : pc[t] = "wli_lower" => ~(st[WL].qos > T(t).b /\ st[WL].dirty)
\* ... and lowers max_qos
ReachLowerSet == \A t \in Threads : pc[t] = "wli_lower" => ~(st[WL].qos > T(t).b /\ ~st[WL].dirty)
\* the inner loop of _dispatch_workloop_invoke2 is left because max_qos rose above the bucket being drained
ReachYield == \A t \in Threads : pc[t] = "wli_next" => ~(T(t).n # NULL /\ st[WL].qos > drained)
\* _dispatch_workloop_barrier_complete hands the lock to a waiter of a LOWER bucket although a higher bucket has work
ReachLowWaiter == \A t \in Threads : pc[t] = "wldbw_pop1" => ~(T(t).tf /\ ~T(t).act)
\* the barrier_complete rmw gives up on DIRTY and scans again
ReachBcDirty == \A t \in Threads : pc[t] = "wlbc_rmw" => ~(~T(t).tf /\ st[WL].dirty)
\* a root worker pops the workloop while a waiter owns it (drain_try_lock fails, ENQUEUED is dropped)
ReachLockFail == \A t \in Threads : (pc[t] = "try_lock" /\ T(t).q = WL) => st[WL].owner = NULL
=============================================================================
