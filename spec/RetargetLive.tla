--------------------------- MODULE RetargetLive ---------------------------
(* C03 - dispatch_set_target_queue(L, S) on an ACTIVE, busy lane L (legacy queue on a root queue) whose new
   target S is a busy serial queue.  src/queue.c:
     _dispatch_lane_set_target_queue      active queue: the change is deferred through a barrier item of L
     _dispatch_lane_legacy_set_target_queue (the barrier)   dq->do_targetq = S
     _dispatch_lane_drain                 orig_tq captured at drain start; BEFORE EVERY ITEM
                                          `if (orig_tq != dq->do_targetq) break;`  -> Check / Break
     _dispatch_queue_invoke_finish        the drain that broke out re-enqueues L on its (new) target -> enq' = tq
   so that everything of L behind the barrier runs from S's drain, i.e. serialised with S's own items.
   L's list is the fixed sequence 1..NItems, item BarrierAt is the deferred retarget.  S's own work is an
   unbounded stream of items (SItemStart / SItemEnd).  Mut = "check_only_when_empty": the target check is made
   only when the drain runs out of linked items (seed C03-5): the backlog behind the barrier keeps running on the
   root worker, concurrently with S. *)
EXTENDS Naturals, FiniteSets, TLC
CONSTANTS NItems, BarrierAt, Mut
VARIABLES head, tq, drainer, orig, sHolder, enq, running, ranOutside
vars == <<head, tq, drainer, orig, sHolder, enq, running, ranOutside>>

Init == /\ head = 1 /\ tq = "root" /\ drainer = "none" /\ orig = "root" /\ sHolder = "none"
        /\ enq = "root" /\ running = 0 /\ ranOutside = {}

RootPickL == /\ enq = "root" /\ drainer = "none"
             /\ drainer' = "root" /\ orig' = tq /\ enq' = "none"
             /\ UNCHANGED <<head, tq, sHolder, running, ranOutside>>
SPickL ==    /\ enq = "S" /\ drainer = "none" /\ sHolder = "none"
             /\ drainer' = "S" /\ sHolder' = "L" /\ orig' = tq /\ enq' = "none"
             /\ UNCHANGED <<head, tq, running, ranOutside>>
SItemStart == sHolder = "none" /\ sHolder' = "Sitem" /\ UNCHANGED <<head, tq, drainer, orig, enq, running, ranOutside>>
SItemEnd ==   sHolder = "Sitem" /\ sHolder' = "none" /\ UNCHANGED <<head, tq, drainer, orig, enq, running, ranOutside>>

Release == IF drainer = "S" THEN sHolder' = "none" ELSE sHolder' = sHolder

\* the per-item check passes (or is not made, in the mutant) and the item starts
RunStart == /\ drainer # "none" /\ running = 0 /\ head <= NItems
            /\ (Mut = "none" => orig = tq)
            /\ running' = head
            /\ tq' = IF head = BarrierAt THEN "S" ELSE tq
            /\ ranOutside' = IF head > BarrierAt /\ drainer # "S" THEN ranOutside \cup {head} ELSE ranOutside
            /\ UNCHANGED <<head, drainer, orig, sHolder, enq>>
RunEnd ==   /\ running # 0 /\ running' = 0 /\ head' = head + 1
            /\ UNCHANGED <<tq, drainer, orig, sHolder, enq, ranOutside>>
\* the check fails: leave the drain; _dispatch_queue_invoke_finish re-enqueues L on its current target
Break ==    /\ drainer # "none" /\ running = 0 /\ head <= NItems /\ orig # tq /\ Mut = "none"
            /\ enq' = tq /\ drainer' = "none" /\ Release
            /\ UNCHANGED <<head, tq, orig, running, ranOutside>>
Done ==     /\ drainer # "none" /\ running = 0 /\ head > NItems
            /\ drainer' = "none" /\ Release
            /\ UNCHANGED <<head, tq, orig, enq, running, ranOutside>>

Next == RootPickL \/ SPickL \/ SItemStart \/ SItemEnd \/ RunStart \/ RunEnd \/ Break \/ Done
Spec == Init /\ [][Next]_vars

TypeOK == head \in 1..NItems + 1 /\ tq \in {"root", "S"} /\ drainer \in {"none", "root", "S"} /\ running \in 0..NItems
(* C03 on a live retarget: every item of L behind the retarget barrier runs from S's drain ... *)
BehindBarrierUnderS == ranOutside = {}
(* ... hence never together with an item of S *)
Exclusion == running > BarrierAt => sHolder = "L"
(* the lane is never lost: while items remain, it is enqueued somewhere or being drained *)
NotStranded == head <= NItems => (enq # "none" \/ drainer # "none")
=============================================================================
