------------------------------- MODULE MCRoot -------------------------------
EXTENDS Root
\* R1: two clients push three plain items; budget 2
ItemsR1 == {"a", "b", "c"}
ProgR1 == ("c1" :> <<"a", "b">> @@ "c2" :> <<"c">>)
WaitsR1 == [i \in ItemsR1 |-> NULL]
\* R2: pool exhaustion: a and b block until c (pushed last) has run; budget 2 -> only the monitor can help
ItemsR2 == {"a", "b", "c"}
ProgR2 == ("c1" :> <<"a", "b", "c">>)
WaitsR2 == ("a" :> "c" @@ "b" :> "c" @@ "c" :> NULL)
=============================================================================
