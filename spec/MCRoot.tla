------------------------------- MODULE MCRoot -------------------------------
EXTENDS Root
\* R1: two clients push three plain items; budget 2
ItemsR1 == {"a", "b", "c"}
ProgR1 == ("c1" :> <<"a", "b">> @@ "c2" :> <<"c">>)
WaitsR1 == [i \in ItemsR1 |-> NULL]
\* R2: pool exhaustion: a and b block until c (pushed last) has run; budget 2 -> only the monitor can help
ItemsR2 == {"a", "b", "c"}
ProgR2 == ("c1" :> <<"a", "b", "c">>)
WaitsR2 == ("a" :> "c" @@ "b" :> "c" @@ "c" :> NULL)
\* R3 (small): one client, two items, the first blocks on the second; budget 1
ItemsR3 == {"a", "c"}
ProgR3 == ("c1" :> <<"a", "c">>)
WaitsR3 == ("a" :> "c" @@ "c" :> NULL)
\* R4 (small): two clients, one item each
ItemsR4 == {"a", "b"}
ProgR4 == ("c1" :> <<"a">> @@ "c2" :> <<"b">>)
WaitsR4 == [i \in ItemsR4 |-> NULL]
=============================================================================
