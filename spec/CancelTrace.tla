---------------------------- MODULE CancelTrace ----------------------------
(* Trace validation (code -> spec) for the source life cycle: a recorded execution of the real
   library (hooked build, harness/drv_cancel.c) is replayed against the FLAG-WORD LEVEL of
   Cancel.tla plus the life-cycle ORDER the spec's actions impose.  Precisely:

   * every recorded atomic access to the source's dq_atomic_flags must observe the value the
     previous one left (values chain) and every modification must be the result of one of the
     word operators Cancel.tla's actions are built from (FCancelOr: dispatch_source_cancel;
     FCawNew / FCawGiveUp / FAddWaiter: dispatch_source_cancel_and_wait; FFinalize:
     _dispatch_source_refs_finalize_unregistration; FDefer: deferred unregistration), chosen by
     the C function it was issued from (unknown functions: any operator, counted as drift),
     applied to the recorded old value, and ENABLED in the abstract state in the way the spec's
     action is: FFinalize only on an unregistered unote and never twice (UFinal), FAddWaiter /
     FCawNew only inside a cancel_and_wait call, give-ups only where the operator gives up;
   * every store to du_state must be one of the unote transitions of Cancel.tla (register, arm,
     disarm, hang-up -> NEEDS_DELETE, unregister), loads chain;
   * the drain-lock owner of the source's dq_state is tracked (successful RMWs only);
   * API-level events are bound to the spec's ghost updates with the guards of the spec's actions:
       HStart(t)   IPend/LXchg/HStart: t owns the drain lock, the flags t last loaded had no CANCELED,
                   no other invocation running, not after a cancel from the handler / the serial target
                   queue, at most one after a foreign cancel returned, never after the cancel handler,
                   on the target queue;
       RStart(t)   IRegh/RTake/RStart: the registration handler runs once, under the drain lock, on the target
                   queue, after installation and before the first event handler start; a cancel issued from it is
                   an own-context cancel (so is the flags value the thread then holds: the next HStart by that
                   thread needs a LATER load without CANCELED);
       ChStart(t)  CcTake/ChStart: {CANCELED, DELETED} set, unote unregistered, kernel registration
                   gone (the harness asks the kernel: /proc/self/fdinfo of the epoll descriptor; with
                   the optional C16 probes also: after the epoll_ctl(DEL) probe), no handler running,
                   first and only time, t owns the drain lock, on the target queue;
       CawRet      CawRet: {CANCELED, DELETED} set and unote unregistered;
       Quiesce     ConvergedAtQuiescence: a cancelled, activated source is in the final state.
   * dispatch_source_set_cancel_handler[_f] after activation (SchCall / SchRet carry the GENERATION the call installs, nul =
     NULL) and every atomic access to the cancel-handler slot ds_handler[DS_CANCEL_HANDLER] (HN records: continuation
     addresses as small ids) are bound to the handler part of Cancel.tla (SetCall / STry / SRepl / SPush / IDrain / IPop /
     IDrepl / CcTake / ChStart): slot values chain; an exchange issued from _dispatch_source_handler_replace is the
     effect of exactly one call whose effect has not been seen yet (the caller's own call when it is inside one: the
     try-sync path; otherwise - a drained barrier item - one that no returned-earlier call still precedes: FIFO), under
     the drain lock, and takes the previous generation out for good (gh.repl); an exchange issued from
     _dispatch_source_handler_take needs {CANCELED, DELETED} and hands the generation it found to the calling thread;
     ChStart(t, g) needs exactly that generation in t's hand, never a replaced one, never a second time; at Quiesce every
     call's effect has been seen, the slot is empty and every generation that was put in the slot has run exactly once
     unless a replacement took it out (Final of Cancel.tla).
   All other records (dq_state loads, ds_pending_data) are consumed without constraint.
   Not validated here: the dq_state word itself (bound by DQStateConf / LaneWordTrace for C01-C06),
   the spec's pc-level control flow between the logged accesses. *)
EXTENDS Cancel, Json, IOUtils, TLCExt

Tr == ndJsonDeserialize(IOEnv.TRACE)
NT == Tr[1].nt
TIDs == 0..(NT - 1)

VARIABLES l,        \* next record
          xk,       \* [kind, serial, ch] of the current execution (Reset record)
          ld,       \* per thread: the dq_atomic_flags value it last observed ("?" = none yet)
          owner,    \* drain-lock owner of the source's dq_state (-1 none, -2 unknown)
          knownF, knownDU,
          inCaw,    \* threads inside dispatch_source_cancel_and_wait
          act,      \* dispatch_activate / dispatch_resume / cancel_and_wait has been called
          kreg,     \* kernel registration according to the optional probes ("?" unknown, "yes", "no")
          foreignRet, peerClosed, drift,
          hs        \* the cancel-handler slot and the calls that change it:
                    \* [slot: [p, g] (address id, -1 = not seen yet; generation, 0 = NULL), pend: calls whose exchange has not
                    \*  been seen ([g, nul, bef]), inSch: [thread -> generation of the call it is inside, 0], retd: generations
                    \*  whose call returned, taken: [thread -> generation it took from the slot and has not started yet, 0]]
tvars == <<vars, l, xk, ld, owner, knownF, knownDU, inCaw, act, kreg, foreignRet, peerClosed, drift, hs>>

Rec == Tr[l]
Ev(e) == l <= Len(Tr) /\ Rec.e = e
Consume == l' = l + 1
FSet(x) == {x[i] : i \in 1..Len(x)}
XTimer == xk.kind = "timer"
XDirect == xk.kind = "data"
KEEP0 == <<lane, exe, kern, pc, lv, cli>>      \* Cancel.tla variables the projection does not carry
KEEP == <<KEEP0, hs>>

GH0(ch) == [hRunning |-> 0, hStarts |-> 0, ownCancel |-> FALSE, foreignOr |-> FALSE, lateStarts |-> 0,
            chStarts |-> 0, chEnds |-> 0, cawRet |-> FALSE, startsAfterCaw |-> 0, runningAtCawRet |-> FALSE,
            regStarts |-> 0, regRunning |-> 0, bad |-> "",
            chS |-> [g \in Gens |-> 0], chE |-> [g \in Gens |-> 0], req |-> {}, inst |-> (IF ch THEN {1} ELSE {}), repl |-> {}]
HS0(ch) == [slot |-> IF ch THEN [p |-> -1, g |-> 1] ELSE [p |-> 0, g |-> 0], pend |-> {},
            inSch |-> [t \in TIDs |-> 0], retd |-> {}, taken |-> [t \in TIDs |-> 0]]
SRC0(ch) == [dqf |-> {}, du |-> DU0, installed |-> FALSE, pending |-> 0,
             hnd |-> [ev |-> TRUE, cancel |-> IF ch THEN 1 ELSE 0, reg |-> FALSE], items |-> <<>>]

TInit == /\ Init /\ l = 2 /\ xk = [kind |-> "data", serial |-> TRUE, ch |-> TRUE]
         /\ ld = [t \in TIDs |-> {"?"}] /\ owner = -2 /\ knownF = FALSE /\ knownDU = FALSE
         /\ inCaw = {} /\ act = FALSE /\ kreg = "?" /\ foreignRet = FALSE /\ peerClosed = FALSE /\ drift = 0
         /\ hs = HS0(TRUE)
         /\ TLCSet(1, 0)

TReset == /\ Ev("Reset") /\ Consume
          /\ xk' = [kind |-> Rec.kind, serial |-> Rec.serial, ch |-> Rec.ch]
          /\ src' = SRC0(Rec.ch) /\ gh' = GH0(Rec.ch) /\ hs' = HS0(Rec.ch)
          /\ ld' = [t \in TIDs |-> {"?"}] /\ owner' = -2 /\ knownF' = TRUE /\ knownDU' = TRUE
          /\ inCaw' = {} /\ act' = FALSE /\ kreg' = "?" /\ foreignRet' = FALSE /\ peerClosed' = FALSE
          /\ UNCHANGED <<KEEP0, drift>>

Same == UNCHANGED <<xk, ld, owner, knownF, knownDU, inCaw, act, kreg, foreignRet, peerClosed, drift, KEEP>>

(* ------------------------------ dq_atomic_flags ------------------------------ *)
FFuncs == {"_dispatch_queue_atomic_flags_set_orig", "_dispatch_queue_atomic_flags_set_and_clear_orig",
           "dispatch_source_cancel_and_wait", "_dispatch_source_refs_unregister"}
\* which new words may function f produce from old, in the current abstract state, on thread t
FAllowed(f, old, t) ==
  CASE f = "_dispatch_queue_atomic_flags_set_orig" -> {FCancelOr(old)}
    [] f = "_dispatch_queue_atomic_flags_set_and_clear_orig" ->
         IF "DELETED" \notin old /\ ~src.du.reg THEN {FFinalize(old)} ELSE {}
    [] f = "dispatch_source_cancel_and_wait" ->
         IF t \notin inCaw THEN {}
         ELSE (IF FCawGiveUp(old) THEN {} ELSE {FCawNew(old, XTimer \/ ~XDirect)})
              \cup (IF "DELETED" \notin old /\ "CANCELED" \in old THEN {FAddWaiter(old)} ELSE {})
    [] f = "_dispatch_source_refs_unregister" ->
         IF "NEEDS_EVENT" \notin old /\ "DELETED" \notin old THEN {FDefer(old)} ELSE {}
    [] OTHER -> {}
FGiveUpOk(f, old, t) ==
  CASE f = "_dispatch_queue_atomic_flags_set_and_clear_orig" -> FFinalize(old) = old    \* (then the library crashes: finalized twice)
    [] f = "dispatch_source_cancel_and_wait" -> FCawGiveUp(old) /\ t \in inCaw
    [] f = "_dispatch_source_refs_unregister" -> "NEEDS_EVENT" \in old \/ "DELETED" \in old
    [] OTHER -> TRUE
TF == /\ Ev("F") /\ Consume
      /\ LET old == FSet(Rec.old)  new == FSet(Rec.new)  t == Rec.t IN
         /\ (knownF => old = src.dqf)                    \* values chain
         /\ knownF' = TRUE
         /\ ld' = [ld EXCEPT ![t] = IF Rec.op = "giveup" THEN @ ELSE new]
         /\ CASE Rec.op = "load" -> new = old /\ src' = [src EXCEPT !.dqf = new] /\ UNCHANGED <<gh, drift>>
              [] Rec.op = "giveup" ->
                   /\ FGiveUpOk(Rec.f, old, t) /\ src' = src /\ drift' = drift
                   /\ gh' = IF Rec.f = "_dispatch_queue_atomic_flags_set_and_clear_orig"
                            THEN [gh EXCEPT !.bad = "source_finalized_twice"] ELSE gh
              [] Rec.op = "cmpxchg" /\ Rec.ok = 0 -> new = old /\ src' = [src EXCEPT !.dqf = new] /\ UNCHANGED <<gh, drift>>
              [] OTHER ->
                   /\ src' = [src EXCEPT !.dqf = new] /\ gh' = gh
                   /\ IF Rec.f \in FFuncs
                      THEN new \in FAllowed(Rec.f, old, t) /\ drift' = drift
                      ELSE new \in UNION {FAllowed(f, old, t) : f \in FFuncs} /\ drift' = drift + 1   \* moved / renamed code
      /\ UNCHANGED <<xk, owner, knownDU, inCaw, act, kreg, foreignRet, peerClosed, KEEP>>

(* ------------------------------ du_state ------------------------------ *)
DuRec(x) == [reg |-> x.reg, armed |-> x.armed, ndel |-> x.ndel]
DuWellFormed(d) == (d.armed => d.reg /\ ~d.ndel) /\ (d.ndel => d.reg)
\* transitions of Cancel.tla: Register (IInstall / ActInst), timer arm (IResume), disarm (MFdDu / MTmr),
\* hang-up (MHupDu), unregister (UUnreg / UDu)
DuStep(o, n) == \/ (~o.reg /\ n.reg /\ ~n.ndel)                               \* register (armed or, for timers, not)
                \/ (o.reg /\ ~o.ndel /\ n.reg /\ ~n.ndel)                     \* arm / disarm / re-store
                \/ (o.reg /\ n = [reg |-> TRUE, armed |-> FALSE, ndel |-> TRUE])  \* hang-up
                \/ n = DU0                                                    \* unregister
TDU == /\ Ev("DU") /\ Consume
       /\ LET new == DuRec(Rec.new) IN
          IF Rec.op = "load"
          THEN /\ (knownDU => new = src.du) /\ src' = [src EXCEPT !.du = new] /\ knownDU' = TRUE
          ELSE /\ DuWellFormed(new) /\ (knownDU => DuStep(src.du, new))
               /\ (new.reg /\ ~src.du.reg => "DELETED" \notin src.dqf \/ XDirect)    \* no registration of a deleted source
               /\ src' = [src EXCEPT !.du = new] /\ knownDU' = TRUE
       /\ UNCHANGED <<gh, xk, ld, owner, knownF, inCaw, act, kreg, foreignRet, peerClosed, drift, KEEP>>

(* ------------------------------ dq_state: drain-lock owner only ------------------------------ *)
TST == /\ Ev("ST") /\ Consume
       /\ owner' = IF Rec.op \in {"load", "giveup"} \/ Rec.ok = 0 THEN owner ELSE Rec.new.owner
       /\ UNCHANGED <<src, gh, xk, ld, knownF, knownDU, inCaw, act, kreg, foreignRet, peerClosed, drift, KEEP>>
TPD == /\ Ev("PD") /\ Consume /\ UNCHANGED <<src, gh>> /\ Same

(* ------------------------------ optional probes ------------------------------ *)
TP == /\ Ev("P") /\ Consume
      /\ kreg' = CASE Rec.p = "epoll_add" -> "yes"
                   [] Rec.p = "epoll_del" -> "no"
                   [] OTHER -> kreg
      /\ (Rec.p = "epoll_add" => "DELETED" \notin src.dqf)
      /\ UNCHANGED <<src, gh, xk, ld, owner, knownF, knownDU, inCaw, act, foreignRet, peerClosed, drift, KEEP>>

(* ------------------------------ API events ------------------------------ *)
OwnerOK(t) == owner = t \/ owner = -2
THStart ==
    /\ Ev("HStart") /\ Consume
    /\ LET t == Rec.t IN
       /\ Rec.on /\ OwnerOK(t)
       /\ "CANCELED" \notin ld[t]                      \* IPend: committed on flags without CANCELED
       /\ gh.hRunning = 0 /\ gh.chStarts = 0 /\ gh.regRunning = 0
       /\ ~gh.ownCancel
       /\ (foreignRet => gh.lateStarts = 0)
       /\ gh' = [gh EXCEPT !.hRunning = 1, !.hStarts = @ + 1, !.lateStarts = IF foreignRet THEN @ + 1 ELSE @,
                           !.startsAfterCaw = IF gh.cawRet THEN @ + 1 ELSE @]
    /\ UNCHANGED src /\ Same
THEnd == /\ Ev("HEnd") /\ Consume /\ gh.hRunning = 1 /\ gh' = [gh EXCEPT !.hRunning = 0] /\ UNCHANGED src /\ Same
TCancelCall ==
    /\ Ev("CancelCall") /\ Consume
    /\ (Rec.ctx = "handler" => gh.hRunning = 1)
    /\ (Rec.ctx = "reghandler" => gh.regRunning = 1)
    /\ (Rec.own <=> (Rec.ctx \in {"handler", "reghandler"} \/ (Rec.ctx = "tqitem" /\ xk.serial)))
    /\ gh' = [gh EXCEPT !.ownCancel = @ \/ Rec.own]
    /\ UNCHANGED src /\ Same
TCancelRet ==
    /\ Ev("CancelRet") /\ Consume
    /\ "CANCELED" \in src.dqf
    /\ foreignRet' = (foreignRet \/ ~Rec.own)
    /\ UNCHANGED <<src, gh, xk, ld, owner, knownF, knownDU, inCaw, act, kreg, peerClosed, drift, KEEP>>
TCawCall == /\ Ev("CawCall") /\ Consume /\ ~xk.ch /\ inCaw' = inCaw \cup {Rec.t} /\ act' = TRUE
            /\ UNCHANGED <<src, gh, xk, ld, owner, knownF, knownDU, kreg, foreignRet, peerClosed, drift, KEEP>>
TCawRet ==
    /\ Ev("CawRet") /\ Consume
    /\ {"CANCELED", "DELETED"} \subseteq src.dqf
    /\ (~XDirect => ~src.du.reg)
    /\ kreg # "yes"
    /\ inCaw' = inCaw \ {Rec.t} /\ foreignRet' = TRUE
    /\ gh' = [gh EXCEPT !.cawRet = TRUE, !.runningAtCawRet = @ \/ gh.hRunning > 0]
    /\ UNCHANGED <<src, xk, ld, owner, knownF, knownDU, act, kreg, peerClosed, drift, KEEP>>
TChStart ==
    /\ Ev("ChStart") /\ Consume
    /\ LET t == Rec.t IN
       /\ Rec.on /\ OwnerOK(t)
       /\ Rec.k = 0                                     \* the kernel no longer monitors the descriptor
       /\ kreg # "yes"
       /\ Rec.g \in Gens /\ hs.taken[t] = Rec.g        \* CcTake: the generation this thread took out of the slot
       /\ Rec.g \notin gh.repl /\ gh.chS[Rec.g] = 0     \* never a replaced one, never a second time
       /\ gh.hRunning = 0
       /\ {"CANCELED", "DELETED"} \subseteq src.dqf
       /\ (~XDirect => ~src.du.reg)
       /\ gh' = [gh EXCEPT !.chStarts = IF @ < 2 THEN @ + 1 ELSE @, !.chS = [@ EXCEPT ![Rec.g] = 1]]
       /\ hs' = [hs EXCEPT !.taken = [@ EXCEPT ![t] = 0]]
    /\ UNCHANGED <<src, xk, ld, owner, knownF, knownDU, inCaw, act, kreg, foreignRet, peerClosed, drift, KEEP0>>
\* IRegh / RTake / RStart: once, on the target queue under the drain lock, before the first event delivery, never on a
\* source the calling thread has seen cancelled, never after the cancel handler
TRStart ==
    /\ Ev("RStart") /\ Consume
    /\ LET t == Rec.t IN
       /\ Rec.on /\ OwnerOK(t)
       /\ gh.regStarts = 0 /\ gh.hStarts = 0 /\ gh.hRunning = 0 /\ gh.chStarts = 0
       /\ src.du.reg \/ ~knownDU                       \* after installation
    /\ gh' = [gh EXCEPT !.regStarts = 1, !.regRunning = 1]
    /\ UNCHANGED src /\ Same
TREnd == /\ Ev("REnd") /\ Consume /\ gh.regRunning = 1 /\ gh' = [gh EXCEPT !.regRunning = 0] /\ UNCHANGED src /\ Same
TChEnd == /\ Ev("ChEnd") /\ Consume /\ Rec.g \in Gens /\ gh.chS[Rec.g] = 1 /\ gh.chE[Rec.g] = 0
          /\ gh' = [gh EXCEPT !.chEnds = IF @ < 2 THEN @ + 1 ELSE @, !.chE = [@ EXCEPT ![Rec.g] = 1]]
          /\ UNCHANGED src /\ Same
TAct == /\ Ev("ActCall") /\ Consume /\ act' = TRUE
        /\ UNCHANGED <<src, gh, xk, ld, owner, knownF, knownDU, inCaw, kreg, foreignRet, peerClosed, drift, KEEP>>
TPeerClose == /\ Ev("PeerClose") /\ Consume /\ peerClosed' = TRUE
              /\ UNCHANGED <<src, gh, xk, ld, owner, knownF, knownDU, inCaw, act, kreg, foreignRet, drift, KEEP>>
\* ConvergedAtQuiescence of Cancel.tla on the projection
TQuiesce ==
    /\ Ev("Quiesce") /\ Consume
    /\ gh.hRunning = 0
    /\ ("CANCELED" \in src.dqf /\ act) =>
          /\ "DELETED" \in src.dqf /\ "CANCEL_WAITER" \notin src.dqf /\ "NEEDS_EVENT" \notin src.dqf
          /\ (~XDirect => ~src.du.reg)
          \* Final of Cancel.tla, handler part: every call's exchange has been seen, the slot is empty, nothing is in a
          \* thread's hand, every generation that was put in the slot ran once unless a replacement took it out
          /\ hs.pend = {} /\ hs.slot.g = 0 /\ hs.slot.p \in {0, -1} /\ (\A t \in TIDs : hs.taken[t] = 0 /\ hs.inSch[t] = 0)
          /\ gh.req \subseteq gh.inst
          /\ (\A g \in gh.inst \ gh.repl : gh.chE[g] = 1)
          /\ (\A g \in Gens : gh.chE[g] = gh.chS[g])
    /\ UNCHANGED <<src, gh>> /\ Same
TOther == /\ l <= Len(Tr) /\ Rec.e \in {"ActRet", "SuspCall", "SuspRet", "ResCall", "ResRet"} /\ Consume
          /\ UNCHANGED <<src, gh>> /\ Same

(* ------------------ dispatch_source_set_cancel_handler[_f] after activation; the cancel-handler slot ------------------ *)
PendGens == {q.g : q \in hs.pend}
TSchCall ==
    /\ Ev("SchCall") /\ Consume
    /\ LET t == Rec.t  g == Rec.g IN
       /\ g \in Gens /\ g \notin PendGens \cup hs.retd \cup gh.inst /\ hs.inSch[t] = 0
       /\ act                                          \* SetCall: on an activated source
       /\ hs' = [hs EXCEPT !.pend = @ \cup {[g |-> g, nul |-> Rec.nul, bef |-> PendGens \cap hs.retd]},
                           !.inSch = [@ EXCEPT ![t] = g]]
       /\ gh' = [gh EXCEPT !.req = IF Rec.nul THEN @ ELSE @ \cup {g}]
    /\ UNCHANGED <<src, xk, ld, owner, knownF, knownDU, inCaw, act, kreg, foreignRet, peerClosed, drift, KEEP0>>
TSchRet ==
    /\ Ev("SchRet") /\ Consume
    /\ hs.inSch[Rec.t] = Rec.g
    /\ hs' = [hs EXCEPT !.inSch = [@ EXCEPT ![Rec.t] = 0], !.retd = @ \cup {Rec.g}]
    /\ UNCHANGED <<src, gh, xk, ld, owner, knownF, knownDU, inCaw, act, kreg, foreignRet, peerClosed, drift, KEEP0>>
HChain(old) == hs.slot.p = -1 \/ old = hs.slot.p
\* CcTake (ICallout / CawL2 before it): the slot is emptied into the calling thread's hand
HTake(t, old, new) ==
    /\ new = 0 /\ HChain(old)
    /\ {"CANCELED", "DELETED"} \subseteq src.dqf
    /\ OwnerOK(t) \/ t \in inCaw
    /\ (old # 0 => hs.taken[t] = 0 /\ hs.slot.g # 0)
    /\ hs' = [hs EXCEPT !.slot = [p |-> 0, g |-> 0], !.taken = [@ EXCEPT ![t] = IF old # 0 THEN hs.slot.g ELSE @]]
    /\ gh' = gh
\* SRepl / IDrepl: the effect of one call, under the source's barrier
HReplace(t, old, new) ==
    /\ HChain(old) /\ OwnerOK(t)
    /\ \E q \in hs.pend :
          /\ q.nul = (new = 0)
          /\ IF hs.inSch[t] # 0 THEN q.g = hs.inSch[t] ELSE q.bef \cap PendGens = {}
          /\ hs' = [hs EXCEPT !.slot = [p |-> new, g |-> IF q.nul THEN 0 ELSE q.g], !.pend = @ \ {q}]
          /\ gh' = [gh EXCEPT !.inst = IF q.nul THEN @ ELSE @ \cup {q.g},
                              !.repl = IF hs.slot.g # 0 THEN @ \cup {hs.slot.g} ELSE @]
THN ==
    /\ Ev("HN") /\ Consume
    /\ LET t == Rec.t  old == Rec.old  new == Rec.new IN
       CASE Rec.op = "load" -> /\ HChain(old) /\ hs' = [hs EXCEPT !.slot = [@ EXCEPT !.p = old]] /\ UNCHANGED <<gh, drift>>
         [] Rec.op = "xchg" /\ Rec.f = "_dispatch_source_handler_take" -> HTake(t, old, new) /\ drift' = drift
         [] Rec.op = "xchg" /\ Rec.f = "_dispatch_source_handler_replace" -> HReplace(t, old, new) /\ drift' = drift
         [] OTHER -> /\ Rec.op = "xchg" /\ (HTake(t, old, new) \/ HReplace(t, old, new)) /\ drift' = drift + 1   \* moved / renamed code
    /\ UNCHANGED <<src, xk, ld, owner, knownF, knownDU, inCaw, act, kreg, foreignRet, peerClosed, KEEP0>>

TNext == TSchCall \/ TSchRet \/ THN \/ TReset \/ TF \/ TDU \/ TST \/ TPD \/ TP \/ THStart \/ THEnd \/ TCancelCall \/ TCancelRet \/ TCawCall \/ TCawRet
         \/ TChStart \/ TChEnd \/ TRStart \/ TREnd \/ TAct \/ TPeerClose \/ TQuiesce \/ TOther
TSpec == TInit /\ [][TNext]_tvars

MaxL == IF TLCGet(1) < l THEN TLCSet(1, l) ELSE TRUE
Accepted == l > Len(Tr)
StopWhenAccepted == Accepted => (PrintT("TRACE_ACCEPTED") /\ PrintT(<<"DRIFT", drift>>) /\ TLCSet("exit", TRUE))
Post == PrintT(<<"MAXL", TLCGet(1), Len(Tr)>>)
=============================================================================
