--------------------------------- MODULE Io ---------------------------------
(* Dispatch I/O, stream-channel engine of src/io.c (+ io_internal.h), property C14.

   One channel on one descriptor.  What is transcribed (one operator / action per C function,
   same branches):

     dispatch_io_set_low_water / set_high_water   SetLowP / SetHighP (the clamping rules)
     dispatch_io_set_interval (+ STRICT_INTERVAL)  CSetInterval, TimerPost / SqTimer
     dispatch_io_read / dispatch_io_write          CSubmit  -> block on the channel queue
     _dispatch_operation_create                    ChqStep "op"   (get_error, length 0, snapshot
                                                   of the channel's water marks)
     _dispatch_operation_enqueue                   BqStep "enq"   (on the barrier queue; ECANCELED
                                                   if closed; fd_entry retain, group enter)
     _dispatch_operation_should_enqueue /
     _dispatch_stream_enqueue_operation            SqSenq
     _dispatch_stream_handler                      SqPick (pick + get_error) ; SqSyscall (perform's
                                                   system call) ; SqFinish (switch on the outcome)
     _dispatch_stream_pick_next_operation          PickOne / PickFrom
     _dispatch_operation_perform                   ReadAlloc / WriteAlloc (buffer sizing), the
                                                   outcome classes COMPLETE / DELIVER /
                                                   DELIVER_AND_COMPLETE ("DAC") / RESUME / (ERR)
     _dispatch_operation_deliver_data              DeliverData (low/high water, undelivered,
                                                   buf_len, NO_EMPTY, DELIVER / DONE, the "remaining
                                                   data" of a write, the two invocations of a read
                                                   that ends with an error)
     _dispatch_stream_complete_operation /
     _dispatch_operation_dispose                   CompleteIn / DisposeIn (final delivery, group
                                                   leave, fd_entry release)
     _dispatch_stream_cleanup_operations           SqCleanup
     _dispatch_stream_source / source handler      srcRun, SourceFire
     dispatch_io_close(0) / DISPATCH_IO_STOP       CClose / CStop, BqStep "close" / "stopc"
     dispatch_io_barrier                           CBarrier, BqStep "barrier", BarrierStart/End
     cleanup handler (close queue)                 fdref, CloseQRun, CleanupRun
     _dispatch_io_dispose                          ChannelDispose

   The kernel object (pipe / socketpair / regular file) is a byte sequence.  Bytes are
   identified by their position in the stream, a data object is a sequence of regions
   <<start, length>>.  Inbound: kin = [wpos, rpos, closed]; the peer appends (PeerWrite(k)),
   closes (PeerClose = EOF / hangup); read(2) returns any 1..min(buffer, available) bytes
   (short reads), EAGAIN when empty, 0 at EOF.  Outbound: kout = [content, pread, hup] with
   capacity Cap; write(2) accepts any 1..min(buffer, space) bytes (short writes), EAGAIN when
   full, an error after the peer hung up.  A regular file is InFile = TRUE (all bytes there,
   EOF behind them).

   ABSTRACT (assume / guarantee): dispatch queues and groups are not modelled at word level.
   A serial queue is a FIFO executor that runs one block at a time and nothing while
   suspended (properties C02, C06); a group's notify block is submitted when the count is
   zero (C07).  The channel queue chq, the barrier queue bq (+ suspend count), the two stream
   queues sq[d], one op_q per operation (opq[o]) and the close queue (suspend count fdref)
   are such executors.  Consequently "the handler is never re-entered" holds in the model by
   the serial-queue assumption on op_q; on the real library it is checked by the harness oracle.
   Not modelled: DISPATCH_IO_RANDOM channels, the disk engine's read-ahead (a stream channel
   on a regular file runs its operations through fd_entry->stream_ops in the same FIFO
   discipline), several channels that are used at the same time on one descriptor.

   Model-checking reduction: every client call except close(DISPATCH_IO_STOP) only appends a
   block to the channel queue, so it commutes with all library and kernel steps; the client
   therefore issues its calls in bursts (cstate = "burst"), and only the placement of STOP
   (which sets DIO_STOPPED synchronously) relative to library steps is explored. *)
EXTENDS Integers, Sequences, FiniteSets, TLC, Json

CONSTANTS MaxOps,    \* operations the client may submit
          MaxBars,   \* barriers the client may submit
          Lens,      \* lengths of reads / writes (INF = SIZE_MAX, reads only)
          Marks,     \* arguments of set_low_water / set_high_water
          MaxIn,     \* bytes the peer may write
          Cap,       \* capacity of the outbound kernel buffer
          Chunk,     \* dispatch_io_defaults.chunk_size
          UseDirs,   \* directions used by the client, subset of {"R","W"}
          Feat,      \* subset of {"low","high","close","stop","release","eof","hup","frag","kerr"}
          InFile,    \* TRUE: the inbound object is a regular file of MaxIn bytes
          Dev,       \* named deviations of the pinned code from the property: {} = as the property
                     \* demands; "imm_noref", "zero_noerr" = as /repo does (see ImmRef, ImmErr)
          Mut,       \* "none" or a spec mutant
          TraceMode, \* TRUE in IoTrace (kernel buffer sizes unknown, log points precede effects)
          Liberal,   \* "no" | "stop" | "all": aspects the property does not state that are left open:
                     \* "stop" = how promptly STOP interrupts in-flight work, "all" = also the
                     \* low-water delivery points (trace validation only)
          Rec        \* TRUE: record the fault schedule (simulation runs that emit schedules)

INF == 1000000000
ECANCELED == 125
EKERN == 1                \* any other errno (EPIPE, ECONNRESET, ...)
Dirs == {"R", "W"}
Ops == 1 .. MaxOps
Bars == 1 .. MaxBars

Min(a, b) == IF a < b THEN a ELSE b

(* ------------------------------ data objects ------------------------------ *)
RECURSIVE Size(_)
Size(d) == IF d = <<>> THEN 0 ELSE d[1][2] + Size(Tail(d))
\* dispatch_data_create_subrange(d, off, n): clamps to the end
RECURSIVE Sub(_, _, _)
Sub(d, off, n) ==
  IF d = <<>> \/ n <= 0 THEN <<>>
  ELSE LET h == d[1] IN
       IF off >= h[2] THEN Sub(Tail(d), off - h[2], n)
       ELSE LET take == Min(h[2] - off, n) IN
            << <<h[1] + off, take>> >> \o Sub(Tail(d), 0, n - take)
\* the byte string a data object represents, region boundaries forgotten
RECURSIVE Norm(_)
Norm(d) == IF Len(d) <= 1 THEN d
           ELSE IF d[1][1] + d[1][2] = d[2][1]
                THEN Norm(<< <<d[1][1], d[1][2] + d[2][2]>> >> \o SubSeq(d, 3, Len(d)))
                ELSE <<d[1]>> \o Norm(Tail(d))
SameBytes(a, b) == Norm(a) = Norm(b)
IsPrefix(a, b) == Size(a) <= Size(b) /\ SameBytes(a, Sub(b, 0, Size(a)))

VARIABLES
  \* client
  cstate, mode, nops, nbars, nsetl, nseth, closeCall, stopCall, released, wsub,
  \* channel
  flags, clow, chigh, cint, chFd,
  \* queues and stream state
  chq, bq, bqSusp, sq, pend, sops, cur, srcRun,
  \* operations, their op_q, group, fd_entry references (close queue suspensions)
  op, opq, grp, fdref, dord,
  bars, clq, cleanupRuns,
  \* kernel
  kin, kout,
  \* ghosts
  hist, ninv, last, doneCnt, dcat, consumed, written, sched,
  \* convenience API (dispatch_read / dispatch_write)
  cacc, cerr, cuser, cres

cvars == <<cstate, mode, nops, nbars, nsetl, nseth, closeCall, stopCall, released, wsub>>
chvars == <<flags, clow, chigh, cint, chFd>>
stvars == <<sq, pend, sops, cur, srcRun>>
libvars == <<op, opq, grp, fdref, dord>>
clvars == <<clq, cleanupRuns>>
kvars == <<kin, kout>>
gvars == <<consumed, written>>
convvars == <<cacc, cerr, cuser, cres>>
hvars == <<hist, ninv, last, doneCnt, dcat>>
vars == <<cvars, chvars, chq, bq, bqSusp, stvars, libvars, bars, clvars, kvars, hvars, gvars, sched, convvars>>

Blk(k, o, v) == [k |-> k, o |-> o, v |-> v]
NoPend == [o |-> 0, res |-> "none"]

NoneOp == [st |-> "none", dir |-> "R", len |-> 0, wdata |-> <<>>, low |-> 0, high |-> 0,
           data |-> <<>>, hasbuf |-> FALSE, bufsiz |-> 0, buflen |-> 0, buf |-> <<>>,
           undel |-> 0, total |-> 0, err |-> 0, ac |-> FALSE, conv |-> FALSE, ival |-> "off", tf |-> 0]

RECURSIVE SumInv(_)
SumInv(S) == IF S = {} THEN 0 ELSE LET o == CHOOSE x \in S : TRUE IN ninv[o] + SumInv(S \ {o})
NH == SumInv(Ops)
NoInv == [done |-> FALSE, data |-> <<>>, null |-> TRUE, err |-> 0]
Log(a, v, w) == sched' = IF Rec THEN Append(sched, [a |-> a, v |-> v, w |-> w, nh |-> NH]) ELSE sched

ConvMode == "conv" \in Feat
NoRes == [data |-> <<>>, null |-> TRUE, err |-> 0]
Init ==
  /\ mode = (IF ConvMode THEN "conv" ELSE "chan")
  /\ cacc = [o \in Ops |-> <<>>] /\ cerr = [o \in Ops |-> 0]
  /\ cuser = [o \in Ops |-> "none"] /\ cres = [o \in Ops |-> NoRes]
  /\ cstate = "burst" /\ nops = 0 /\ nbars = 0 /\ nsetl = 0 /\ nseth = 0
  /\ closeCall = FALSE /\ stopCall = FALSE /\ released = FALSE /\ wsub = 0
  /\ flags = {} /\ clow = Chunk /\ chigh = INF /\ cint = "off" /\ chFd = ~ConvMode
  /\ chq = <<>> /\ bq = <<>> /\ bqSusp = 0
  /\ sq = [d \in Dirs |-> <<>>] /\ pend = [d \in Dirs |-> NoPend]
  /\ sops = [d \in Dirs |-> <<>>] /\ cur = [d \in Dirs |-> 0] /\ srcRun = [d \in Dirs |-> FALSE]
  /\ op = [o \in Ops |-> NoneOp] /\ opq = [o \in Ops |-> <<>>]
  /\ grp = 0 /\ fdref = (IF ConvMode THEN 0 ELSE 1) /\ dord = [d \in Dirs |-> <<>>]
  /\ bars = [b \in Bars |-> [st |-> "none", before |-> 0]]
  /\ clq = "held" /\ cleanupRuns = 0
  /\ kin = [wpos |-> IF InFile THEN MaxIn ELSE 0, rpos |-> 0, closed |-> InFile]
  /\ kout = [content |-> <<>>, pread |-> 0, hup |-> FALSE]
  /\ hist = [o \in Ops |-> <<>>] /\ dcat = [o \in Ops |-> <<>>]
  /\ ninv = [o \in Ops |-> 0] /\ last = [o \in Ops |-> NoInv] /\ doneCnt = [o \in Ops |-> 0]
  /\ consumed = [o \in Ops |-> <<>>] /\ written = [o \in Ops |-> <<>>]
  /\ sched = <<>>

(* ------------------------------ channel policies ------------------------------ *)
\* dispatch_io_set_high_water: if (low > high_water) low = high_water; high = high_water ?: 1
SetHighP(l, h, v) == [low |-> IF l > v THEN v ELSE l, high |-> IF v = 0 THEN 1 ELSE v]
\* dispatch_io_set_low_water: if (high < low_water) high = low_water ?: 1; low = low_water
SetLowP(l, h, v) == [low |-> v, high |-> IF h < v THEN (IF v = 0 THEN 1 ELSE v) ELSE h]

(* ------------------------------ client (public API) ------------------------------ *)
CSetLow(v) ==
  /\ ~released
  /\ chq' = Append(chq, Blk("setlow", 0, v))
  /\ nsetl' = nsetl + 1 /\ Log("low", v, 0)
  /\ UNCHANGED <<cstate, mode, nops, nbars, nseth, closeCall, stopCall, released, wsub, chvars, bq,
                 bqSusp, stvars, libvars, bars, clvars, kvars, hvars, gvars, convvars>>
CSetHigh(v) ==
  /\ ~released
  /\ chq' = Append(chq, Blk("sethigh", 0, v))
  /\ nseth' = nseth + 1 /\ Log("high", v, 0)
  /\ UNCHANGED <<cstate, mode, nops, nbars, nsetl, closeCall, stopCall, released, wsub, chvars, bq,
                 bqSusp, stvars, libvars, bars, clvars, kvars, hvars, gvars, convvars>>

\* dispatch_io_set_interval(channel, ns > 0, flags): v = "strict" (DISPATCH_IO_STRICT_INTERVAL) | "lax"
CSetInterval(v) ==
  /\ ~released
  /\ chq' = Append(chq, Blk("setival", 0, v))
  /\ Log("interval", IF v = "strict" THEN 1 ELSE 0, 0)
  /\ UNCHANGED <<cstate, mode, nops, nbars, nsetl, nseth, closeCall, stopCall, released, wsub, chvars, bq,
                 bqSusp, stvars, libvars, bars, clvars, kvars, hvars, gvars, convvars>>

\* dispatch_io_read(channel, 0, n, q, handler) / dispatch_io_write(channel, 0, data, q, handler);
\* regs = the regions of the data object of a write (consecutive bytes of the outbound source)
CSubmit(o, d, n, regs) ==
  /\ ~released /\ o = nops + 1 /\ o \in Ops
  /\ op' = [op EXCEPT ![o] = [NoneOp EXCEPT !.st = "chq", !.dir = d, !.len = n, !.wdata = regs,
                                             !.ac = closeCall \/ stopCall]]
  /\ nops' = o /\ wsub' = wsub + Size(regs)
  /\ chq' = Append(chq, Blk("op", o, 0))
  /\ Log(IF d = "R" THEN "read" ELSE "write", n, IF Len(regs) = 2 THEN regs[1][2] ELSE 0)
  /\ UNCHANGED <<cstate, mode, nbars, nsetl, nseth, closeCall, stopCall, released, chvars, bq, bqSusp,
                 stvars, opq, grp, fdref, dord, bars, clvars, kvars, hvars, gvars, convvars>>

\* dispatch_read(fd, n, q, handler) / dispatch_write(fd, data, q, handler): _dispatch_fd_entry_init_async
\* looks the fd_entry up (or creates it) retained, and runs the rest on the barrier queue.  A new
\* fd_entry generation starts when the previous one has been closed.
CConv(o, d, n, regs) ==
  /\ mode = "conv" /\ o = nops + 1 /\ o \in Ops
  /\ op' = [op EXCEPT ![o] = [NoneOp EXCEPT !.st = "chq", !.dir = d, !.len = n, !.wdata = regs, !.conv = TRUE]]
  /\ nops' = o /\ wsub' = wsub + Size(regs)
  /\ fdref' = fdref + 1
  /\ clq' = "held"
  /\ bq' = Append(bq, Blk("cenq", o, 0))
  /\ Log(IF d = "R" THEN "cread" ELSE "cwrite", n, IF Len(regs) = 2 THEN regs[1][2] ELSE 0)
  /\ UNCHANGED <<cstate, mode, nbars, nsetl, nseth, closeCall, stopCall, released, chvars, chq, bqSusp,
                 stvars, opq, grp, dord, bars, cleanupRuns, kvars, hvars, gvars, convvars>>

CBarrier(b) ==
  /\ ~released /\ b = nbars + 1 /\ b \in Bars
  /\ bars' = [bars EXCEPT ![b] = [st |-> "chq", before |-> nops]]
  /\ nbars' = b
  /\ chq' = Append(chq, Blk("barrier", b, 0)) /\ Log("barrier", b, 0)
  /\ UNCHANGED <<cstate, mode, nops, nsetl, nseth, closeCall, stopCall, released, wsub, chvars, bq,
                 bqSusp, stvars, libvars, clvars, kvars, hvars, gvars, convvars>>

\* dispatch_io_close(channel, 0): "Don't close an already closed or stopped channel"
CClose ==
  /\ ~released
  /\ closeCall' = TRUE
  /\ chq' = IF flags = {} THEN Append(chq, Blk("close", 0, 0)) ELSE chq
  /\ Log("close", 0, 0)
  /\ UNCHANGED <<cstate, mode, nops, nbars, nsetl, nseth, stopCall, released, wsub, chvars, bq, bqSusp,
                 stvars, libvars, bars, clvars, kvars, hvars, gvars, convvars>>

\* dispatch_io_close(channel, DISPATCH_IO_STOP) -> _dispatch_io_stop: the flag is set by the caller
CStop ==
  /\ ~released
  /\ stopCall' = TRUE
  /\ IF "stopped" \in flags THEN UNCHANGED <<flags, chq>>
     ELSE /\ flags' = flags \cup {"stopped"}
          /\ chq' = Append(chq, Blk("stopc", 0, 0))
  /\ Log("stop", 0, 0)
  /\ UNCHANGED <<mode, nops, nbars, nsetl, nseth, closeCall, released, wsub, clow, chigh, cint, chFd, bq,
                 bqSusp, stvars, libvars, bars, clvars, kvars, hvars, gvars, convvars>>

\* dispatch_release(channel): the client's reference
CRelease ==
  /\ ~released /\ released' = TRUE /\ Log("release", 0, 0)
  /\ UNCHANGED <<cstate, mode, nops, nbars, nsetl, nseth, closeCall, stopCall, wsub, chvars, chq, bq,
                 bqSusp, stvars, libvars, bars, clvars, kvars, hvars, gvars, convvars>>

(* ------------------------------ channel queue ------------------------------ *)
ChqStep ==
  /\ chq # <<>>
  /\ chq' = Tail(chq)
  /\ LET b == Head(chq) IN
     CASE b.k = "setlow" ->
            LET p == SetLowP(clow, chigh, b.v) IN
            /\ clow' = p.low /\ chigh' = p.high
            /\ UNCHANGED <<flags, cint, chFd, bq, op, bars>>
       [] b.k = "sethigh" ->
            LET p == SetHighP(clow, chigh, b.v) IN
            /\ clow' = p.low /\ chigh' = p.high
            /\ UNCHANGED <<flags, cint, chFd, bq, op, bars>>
       [] b.k = "setival" ->
            /\ cint' = b.v
            /\ UNCHANGED <<flags, clow, chigh, chFd, bq, op, bars>>
       [] b.k = "op" ->   \* _dispatch_operation_create, on the channel queue
            LET o == b.o
                err == IF flags # {} THEN ECANCELED ELSE 0 IN
            /\ IF err # 0 \/ op[o].len = 0
               THEN /\ op' = [op EXCEPT ![o].st = "imm"]
                    /\ bq' = Append(bq, Blk("imm", o, err))
               ELSE /\ op' = [op EXCEPT ![o].st = "created", ![o].low = clow, ![o].high = chigh, ![o].ival = cint]
                    /\ bq' = Append(bq, Blk("enq", o, 0))
            /\ UNCHANGED <<chvars, bars>>
       [] b.k \in {"close", "stopc"} ->
            /\ bq' = Append(bq, b) /\ UNCHANGED <<chvars, op, bars>>
       [] b.k = "barrier" ->
            /\ bq' = Append(bq, b) /\ bars' = [bars EXCEPT ![b.o].st = "bq"]
            /\ UNCHANGED <<chvars, op>>
  /\ UNCHANGED <<cvars, bqSusp, stvars, opq, grp, fdref, dord, clvars, kvars, hvars, gvars, convvars, sched>>

(* ------------------------------ deliveries ------------------------------ *)
Inv(done, data, null, err) == [done |-> done, data |-> IF null THEN <<>> ELSE data, null |-> null, err |-> err]

\* the block _dispatch_operation_deliver_data posts on op->op_q
DeliveryBlock(dir, done, data, err) ==
  IF done /\ dir = "R" /\ err # 0
  THEN (IF Size(data) > 0 THEN <<Inv(FALSE, data, FALSE, 0)>> ELSE <<>>) \o <<Inv(TRUE, <<>>, TRUE, err)>>
  ELSE IF done /\ dir = "W" /\ err = 0 THEN <<Inv(TRUE, <<>>, TRUE, 0)>>
  ELSE <<Inv(done, data, FALSE, err)>>

\* _dispatch_operation_deliver_data(op, flags).  force: "strict" = the code's low-water rule;
\* "yes" / "no" only in Liberal mode (the property is silent on partial-result policy).
DeliverData(r, fl, stopped, force) ==
  LET undelivered == r.undel + r.buflen
      d0 == ("deliver" \in fl) \/ ("done" \in fl)
      lowhit == CASE force = "yes" -> undelivered > 0
                  [] force = "no" -> FALSE
                  [] OTHER -> undelivered >= r.low
      deliver == d0 \/ lowhit
      early == ~deliver /\ r.buflen < r.bufsiz
      err == IF d0 THEN (IF r.err # 0 THEN r.err ELSE IF stopped THEN ECANCELED ELSE 0) ELSE 0
      r1 == IF d0 THEN [r EXCEPT !.err = err] ELSE r
  IN
  IF early THEN [r |-> r, post |-> <<>>]
  ELSE IF r.dir = "R" THEN
    LET data == IF r.buflen > 0 THEN Norm(r.data \o r.buf) ELSE r.data
        keep == IF Mut = "dup_deliver" THEN data ELSE IF deliver THEN <<>> ELSE data
        r2 == IF r.buflen > 0
              THEN [r1 EXCEPT !.buf = <<>>, !.buflen = 0, !.hasbuf = FALSE, !.bufsiz = 0, !.data = keep]
              ELSE [r1 EXCEPT !.data = keep]
    IN IF ~deliver \/ ("noempty" \in fl /\ Size(data) = 0)
       THEN [r |-> [r2 EXCEPT !.undel = undelivered], post |-> <<>>]
       ELSE [r |-> [r2 EXCEPT !.undel = 0], post |-> DeliveryBlock("R", "done" \in fl, data, err)]
  ELSE
    LET data == IF deliver THEN Sub(r.data, r.buflen, r.len) ELSE <<>>
        used == r.hasbuf /\ r.buflen = r.bufsiz
        r2 == IF used
              THEN [r1 EXCEPT !.hasbuf = FALSE, !.buflen = 0, !.bufsiz = 0,
                              !.data = IF deliver THEN data ELSE Sub(r.data, r.bufsiz, r.len)]
              ELSE r1
    IN IF ~deliver \/ ("noempty" \in fl /\ Size(data) = 0)
       THEN [r |-> [r2 EXCEPT !.undel = undelivered], post |-> <<>>]
       ELSE [r |-> [r2 EXCEPT !.undel = 0], post |-> DeliveryBlock("W", "done" \in fl, data, err)]

LibS == [op |-> op, opq |-> opq, grp |-> grp, fdref |-> fdref, dord |-> dord]
SetLib(S) == op' = S.op /\ opq' = S.opq /\ grp' = S.grp /\ fdref' = S.fdref /\ dord' = S.dord

\* dispatch_async(op->op_q, block); a block posted by deliver_data holds an fd_entry reference
PostBlock(S, o, invs, ref) ==
  [S EXCEPT !.opq[o] = Append(@, [inv |-> invs, ref |-> ref, sp |-> "stopped" \in flags]),
            !.fdref = IF ref THEN @ + 1 ELSE @]

DeliverIn(S, o, fl, stopped, force) ==
  LET res == DeliverData(S.op[o], fl, stopped, force)
      S1 == [S EXCEPT !.op[o] = res.r]
  IN IF res.post = <<>> THEN S1 ELSE PostBlock(S1, o, res.post, TRUE)

\* _dispatch_operation_dispose of an operation that has an fd_entry
DisposeIn(S, o, stopped) ==
  LET S1 == DeliverIn(S, o, {"done"}, stopped, "strict") IN
  [S1 EXCEPT !.op[o].st = "disposed", !.grp = @ - 1, !.fdref = @ - 1]

\* _dispatch_stream_complete_operation (the caller removes o from the list)
CompleteIn(S, d, o, stopped) ==
  LET S1 == DisposeIn(S, o, stopped) IN [S1 EXCEPT !.dord[d] = Append(@, o)]

RECURSIVE CompleteAllIn(_, _, _, _, _)
CompleteAllIn(S, d, list, stopped, seterr) ==
  IF list = <<>> THEN S
  ELSE LET o == list[1]
           S0 == IF seterr THEN [S EXCEPT !.op[o].err = ECANCELED] ELSE S
       IN CompleteAllIn(CompleteIn(S0, d, o, stopped), d, Tail(list), stopped, seterr)

\* what the library sees of DIO_STOPPED; STOP is "best effort" in the documentation, so the
\* Liberal mode lets in-flight work miss it
StopViews == IF "stopped" \in flags THEN (IF Liberal # "no" THEN {TRUE, FALSE} ELSE {TRUE}) ELSE {FALSE}
Forces == IF Liberal = "all" THEN {"strict", "yes", "no"} ELSE {"strict"}

(* ------------------------------ barrier queue ------------------------------ *)
\* The handler of an operation that is rejected without ever reaching a stream (ECANCELED at
\* creation / enqueue, or zero length) is posted WITHOUT an fd_entry reference in /repo
\* (_dispatch_operation_create, _dispatch_operation_enqueue): nothing orders it before the
\* cleanup handler.  The property wants it ordered; the repaired model takes the reference on the
\* barrier queue when the channel still has its fd_entry.
ImmRef == IF "imm_noref" \in Dev THEN FALSE ELSE chFd
\* A zero-length operation takes the same immediate path with the error computed on the CHANNEL
\* queue: after dispatch_io_close(0) - whose flag is only set later, on the barrier queue - it
\* completes with error 0 although the channel is closed.  Repaired model: the error is
\* (re)computed on the barrier queue, behind the close block.
ImmErr(e) == IF e # 0 \/ "zero_noerr" \in Dev THEN e ELSE IF flags # {} THEN ECANCELED ELSE 0
BqStep ==
  /\ bqSusp = 0 /\ bq # <<>>
  /\ ~(Head(bq).k = "cenq" /\ op[Head(bq).o].len = 0) => bq' = Tail(bq)
  /\ cuser' = IF Head(bq).k = "cenq" THEN [cuser EXCEPT ![Head(bq).o] = "pending"] ELSE cuser
  /\ LET b == Head(bq) IN
     CASE b.k = "imm" ->
            \* the error / zero-length path of _dispatch_operation_create: handler(true, d, err)
            \* straight onto the client's queue
            LET o == b.o
                r == op[o]
                err == ImmErr(b.v)
                null == (r.dir = "R" /\ err # 0) \/ (r.dir = "W" /\ err = 0)
                S1 == PostBlock(LibS, o, <<Inv(TRUE, r.wdata, null, err)>>, ImmRef)
            IN /\ SetLib([S1 EXCEPT !.op[o].st = "rejected"])
               /\ UNCHANGED <<chvars, bqSusp, sq, bars>>
       [] b.k = "enq" ->   \* _dispatch_operation_enqueue
            LET o == b.o
                r == op[o] IN
            IF flags # {}
            THEN LET null == (r.dir = "R")
                     S1 == PostBlock(LibS, o, <<Inv(TRUE, r.wdata, null, ECANCELED)>>, ImmRef)
                 IN /\ SetLib([S1 EXCEPT !.op[o].st = "rejected"])
                    /\ UNCHANGED <<chvars, bqSusp, sq, bars>>
            ELSE /\ SetLib([LibS EXCEPT !.op[o].st = "sq", !.grp = @ + 1, !.fdref = @ + 1])
                 /\ sq' = [sq EXCEPT ![r.dir] = Append(@, Blk("senq", o, 0))]
                 /\ UNCHANGED <<chvars, bqSusp, bars>>
       [] b.k = "cenq" ->
            \* the init callback of dispatch_read / dispatch_write, on the barrier queue: the user's
            \* handler goes onto the (suspended) close queue, the operation is created on the
            \* convenience channel and enqueued at once; then the callback's reference is dropped
            LET o == b.o
                r == op[o] IN
            IF r.len = 0
            THEN /\ op' = [op EXCEPT ![o].st = "imm"]
                 /\ bq' = Append(Tail(bq), Blk("imm", o, 0))
                 /\ fdref' = fdref - 1
                 /\ UNCHANGED <<chvars, bqSusp, sq, bars, opq, grp, dord>>
            ELSE /\ SetLib([LibS EXCEPT !.op[o].st = "sq", !.op[o].low = Chunk, !.op[o].high = INF,
                                         !.grp = @ + 1])
                 /\ sq' = [sq EXCEPT ![r.dir] = Append(@, Blk("senq", o, 0))]
                 /\ UNCHANGED <<chvars, bqSusp, bars>>
       [] b.k = "close" ->
            IF flags = {} /\ Mut # "close_nocancel"
            THEN /\ flags' = {"closed"}
                 /\ chFd' = FALSE
                 /\ fdref' = IF chFd THEN fdref - 1 ELSE fdref
                 /\ UNCHANGED <<clow, chigh, cint, bqSusp, sq, bars, op, opq, grp, dord>>
            ELSE UNCHANGED <<chvars, bqSusp, sq, bars, libvars>>
       [] b.k = "stopc" ->   \* the barrier-queue block of _dispatch_io_stop
            IF chFd
            THEN /\ sq' = [d \in Dirs |-> Append(sq[d], Blk("cleanup", 0, 0))]
                 /\ chFd' = IF "closed" \in flags THEN chFd ELSE FALSE
                 /\ fdref' = fdref + 2 - (IF "closed" \in flags THEN 0 ELSE 1)
                 /\ UNCHANGED <<flags, clow, chigh, cint, bqSusp, bars, op, opq, grp, dord>>
            ELSE IF clq = "held"   \* stop after close: the fd_entry is still in the table
            THEN /\ sq' = [d \in Dirs |-> Append(sq[d], Blk("cleanup", 0, 0))]
                 /\ fdref' = fdref + 2
                 /\ UNCHANGED <<chvars, bqSusp, bars, op, opq, grp, dord>>
            ELSE UNCHANGED <<chvars, bqSusp, sq, bars, libvars>>
       [] b.k = "barrier" ->   \* dispatch_suspend(barrier_queue); dispatch_group_notify(...)
            /\ bqSusp' = bqSusp + 1
            /\ bars' = [bars EXCEPT ![b.o].st = "armed"]
            /\ UNCHANGED <<chvars, sq, libvars>>
  /\ UNCHANGED <<cvars, chq, pend, sops, cur, srcRun, clvars, kvars, hvars, gvars, cacc, cerr, cres, sched>>

\* group count zero -> the notify block runs the client's barrier block
BarrierStart(b) ==
  /\ bars[b].st = "armed" /\ grp = 0
  /\ bars' = [bars EXCEPT ![b].st = "running"]
  /\ UNCHANGED <<cvars, chvars, chq, bq, bqSusp, stvars, libvars, clvars, kvars, hvars, gvars, convvars, sched>>
BarrierEnd(b) ==
  /\ bars[b].st = "running"
  /\ bars' = [bars EXCEPT ![b].st = "done"]
  /\ bqSusp' = bqSusp - 1
  /\ UNCHANGED <<cvars, chvars, chq, bq, stvars, libvars, clvars, kvars, hvars, gvars, convvars, sched>>

(* ------------------------------ stream queues ------------------------------ *)
SqHead(d, k) == pend[d].o = 0 /\ sq[d] # <<>> /\ Head(sq[d]).k = k
Requeue(q) == Append(q, Blk("handler", 0, 0))
RemoveOp(list, o) == SelectSeq(list, LAMBDA x : x # o)

\* _dispatch_stream_enqueue_operation / _dispatch_operation_should_enqueue
SqSenq(d) ==
  /\ SqHead(d, "senq")
  /\ LET o == Head(sq[d]).o
         r0 == [op[o] EXCEPT !.data = IF op[o].dir = "W" THEN op[o].wdata ELSE <<>>]
         S0 == [LibS EXCEPT !.op[o] = r0]
     IN \E stopped \in StopViews :
        IF stopped
        THEN /\ SetLib(DisposeIn([S0 EXCEPT !.op[o].err = ECANCELED], o, TRUE))
             /\ sq' = [sq EXCEPT ![d] = Tail(@)]
             /\ UNCHANGED sops
        ELSE /\ SetLib([S0 EXCEPT !.op[o].st = "listed"])
             /\ sops' = [sops EXCEPT ![d] = Append(@, o)]
             /\ sq' = [sq EXCEPT ![d] = IF sops[d] = <<>> THEN Requeue(Tail(@)) ELSE Tail(@)]
  /\ UNCHANGED <<cvars, chvars, chq, bq, bqSusp, pend, cur, srcRun, bars, clvars, kvars, hvars, gvars, convvars, sched>>

\* _dispatch_stream_cleanup_operations (posted by STOP), then the fd_entry release of the block
SqCleanup(d) ==
  /\ SqHead(d, "cleanup")
  /\ LET S1 == CompleteAllIn(LibS, d, sops[d], "stopped" \in flags, FALSE) IN
     SetLib([S1 EXCEPT !.fdref = @ - 1])
  /\ sops' = [sops EXCEPT ![d] = <<>>]
  /\ cur' = [cur EXCEPT ![d] = 0]
  /\ srcRun' = [srcRun EXCEPT ![d] = FALSE]
  /\ sq' = [sq EXCEPT ![d] = Tail(@)]
  /\ UNCHANGED <<cvars, chvars, chq, bq, bqSusp, pend, bars, clvars, kvars, hvars, gvars, convvars, sched>>

\* The interval timer of an operation (created and resumed in _dispatch_operation_should_enqueue,
\* cancelled when the operation completes) targets the stream queue.  Its handler delivers what
\* has accumulated: with DISPATCH_IO_STRICT_INTERVAL unconditionally (even an empty data object),
\* otherwise under the usual low-water rule.  (op->active is only ever set by the disk engine.)
\* TimerMax bounds the firings per operation in model checking.
TimerMax == IF TraceMode THEN INF ELSE 1
TimerQueued(d, o) == \E i \in 1 .. Len(sq[d]) : sq[d][i].k = "timer" /\ sq[d][i].o = o
TimerPost(o) ==
  /\ op[o].st = "listed" /\ op[o].ival # "off" /\ op[o].tf < TimerMax
  /\ ~TimerQueued(op[o].dir, o)
  /\ sq' = [sq EXCEPT ![op[o].dir] = Append(@, Blk("timer", o, 0))]
  /\ op' = [op EXCEPT ![o].tf = IF TraceMode THEN 0 ELSE @ + 1]
  /\ UNCHANGED <<cvars, chvars, chq, bq, bqSusp, pend, sops, cur, srcRun, opq, grp, fdref, dord, bars, clvars,
                 kvars, hvars, gvars, convvars, sched>>
SqTimer(d) ==
  /\ SqHead(d, "timer")
  /\ sq' = [sq EXCEPT ![d] = Tail(@)]
  /\ LET o == Head(sq[d]).o IN
     IF op[o].st # "listed" THEN UNCHANGED libvars        \* dispatch_source_testcancel(timer)
     ELSE \E stopped \in StopViews :
          SetLib(DeliverIn(LibS, o, IF op[o].ival = "strict" THEN {"deliver"} ELSE {}, stopped, "strict"))
  /\ UNCHANGED <<cvars, chvars, chq, bq, bqSusp, pend, sops, cur, srcRun, bars, clvars, kvars, hvars, gvars, convvars, sched>>

\* _dispatch_stream_pick_next_operation (stream-type operations only)
PickOne(c, list) == IF c # 0 THEN c
                    ELSE IF Mut = "pick_skip" /\ Len(list) >= 2 THEN list[2] ELSE list[1]
RECURSIVE PickFrom(_, _)
PickFrom(c, list) == IF list = <<>> THEN <<>>
                     ELSE LET o == PickOne(c, list) IN <<o>> \o PickFrom(0, RemoveOp(list, o))

\* buffer sizing at the start of _dispatch_operation_perform
ReadAlloc(r) ==
  IF r.hasbuf THEN r
  ELSE LET m0 == r.high - Size(r.data) + (IF Mut = "high_plus_one" THEN 1 ELSE 0)
           m1 == Min(m0, Chunk)
           bs == IF r.len < INF THEN Min(r.len - r.total, m1) ELSE m1
       IN [r EXCEPT !.hasbuf = TRUE, !.bufsiz = bs, !.buflen = 0, !.buf = <<>>]
\* the dispatch_data_apply loop: always the first region, further ones while they fit a chunk
RECURSIVE AccRegs(_, _, _)
AccRegs(regs, acc, ch) ==
  IF regs = <<>> THEN acc
  ELSE LET siz == acc + regs[1][2]
           acc2 == IF acc = 0 \/ siz <= ch THEN siz ELSE acc
       IN IF siz < ch THEN AccRegs(Tail(regs), acc2, ch) ELSE acc2
WriteAlloc(r) ==
  IF r.hasbuf THEN r
  ELSE LET ch == Min(Chunk, r.high)
           bs == Min(AccRegs(r.data, 0, ch), r.high)
       IN [r EXCEPT !.hasbuf = TRUE, !.bufsiz = bs, !.buflen = 0]

SetPend(d, o, res) == pend' = [pend EXCEPT ![d] = [o |-> o, res |-> res]]

\* read(2) on the descriptor; KS(o, m) = the byte counts the kernel may return, out of 1..m
PerformRead(d, o, KS(_, _)) ==
  LET r == ReadAlloc(op[o])
      avail == kin.wpos - kin.rpos
      space == r.bufsiz - r.buflen IN
  \/ /\ avail > 0
     /\ \E k \in KS(o, Min(space, avail)) :
          LET r2 == [r EXCEPT !.buf = Norm(Append(@, <<kin.rpos, k>>)), !.buflen = @ + k, !.total = @ + k] IN
          /\ op' = [op EXCEPT ![o] = r2]
          /\ kin' = [kin EXCEPT !.rpos = @ + k]
          /\ consumed' = [consumed EXCEPT ![o] = Norm(Append(@, <<kin.rpos, k>>))]
          /\ SetPend(d, o, IF r2.total = r2.len THEN "COMPLETE" ELSE "DELIVER")
     /\ UNCHANGED <<kout, written>>
  \/ /\ avail = 0 /\ kin.closed                 \* EOF
     /\ op' = [op EXCEPT ![o] = r] /\ SetPend(d, o, "DAC")
     /\ UNCHANGED <<kin, kout, consumed, written>>
  \/ /\ avail = 0 /\ kin.closed /\ "kerr" \in Feat   \* e.g. ECONNRESET on a socket
     /\ op' = [op EXCEPT ![o] = [r EXCEPT !.err = EKERN]] /\ SetPend(d, o, "COMPLETE")
     /\ UNCHANGED <<kin, kout, consumed, written>>
  \/ /\ (avail = 0 /\ ~kin.closed) \/ (TraceMode /\ r.conv /\ ~kin.closed)    \* EAGAIN
     \* "Convenience read with available data completes on EAGAIN" (the log point of a peer
     \* write precedes the write, so in TraceMode EAGAIN is possible while bytes are announced)
     /\ op' = [op EXCEPT ![o] = r]
     /\ SetPend(d, o, IF r.conv /\ r.total > 0 THEN "CRESUME" ELSE "RESUME")
     /\ UNCHANGED <<kin, kout, consumed, written>>

PerformWrite(d, o, KS(_, _)) ==
  LET r == WriteAlloc(op[o])
      used == Size(kout.content) - kout.pread
      space == IF TraceMode THEN INF ELSE Cap - used
      room == r.bufsiz - r.buflen IN
  \/ /\ (~kout.hup \/ TraceMode) /\ space > 0
     /\ \E k \in KS(o, Min(room, space)) :
          LET bytes == Sub(r.data, r.buflen, k)
              r2 == [r EXCEPT !.buflen = @ + k, !.total = @ + k] IN
          /\ op' = [op EXCEPT ![o] = r2]
          /\ kout' = [kout EXCEPT !.content = Norm(@ \o bytes)]
          /\ written' = [written EXCEPT ![o] = Norm(@ \o bytes)]
          /\ SetPend(d, o, IF r2.total = r2.len THEN "COMPLETE" ELSE "DELIVER")
     /\ UNCHANGED <<kin, consumed>>
  \/ /\ ~kout.hup /\ (space = 0 \/ (TraceMode /\ KS(o, Min(room, space)) = {}))     \* EAGAIN
     \* (TraceMode: the log does not show how full the kernel buffer is; EAGAIN is taken when
     \* the operation's next recorded delivery needs no further byte)
     /\ op' = [op EXCEPT ![o] = r] /\ SetPend(d, o, "RESUME")
     /\ UNCHANGED <<kin, kout, consumed, written>>
  \/ /\ kout.hup                                 \* EPIPE / ECONNRESET
     /\ op' = [op EXCEPT ![o] = [r EXCEPT !.err = EKERN]] /\ SetPend(d, o, "COMPLETE")
     /\ UNCHANGED <<kin, kout, consumed, written>>

\* _dispatch_stream_handler: pick the operation, look at the channel's flags (the handler's own
\* check and the one at the top of _dispatch_operation_perform)
SqPick(d) ==
  /\ SqHead(d, "handler")
  /\ sq' = [sq EXCEPT ![d] = Tail(@)]
  /\ IF sops[d] = <<>>
     THEN UNCHANGED <<pend, sops, cur, libvars>>          \* no operation found
     ELSE \E stopped \in StopViews :
          IF stopped
          THEN \* err = ECANCELED: op->err = err; complete; goto pick  (and perform's own check:
               \* DISPATCH_OP_ERR -> _dispatch_stream_cleanup_operations)  - every operation of
               \* the channel, in pick order
               /\ SetLib(CompleteAllIn(LibS, d, PickFrom(cur[d], sops[d]), TRUE, TRUE))
               /\ sops' = [sops EXCEPT ![d] = <<>>]
               /\ cur' = [cur EXCEPT ![d] = 0]
               /\ UNCHANGED pend
          ELSE LET o == PickOne(cur[d], sops[d]) IN
               /\ cur' = [cur EXCEPT ![d] = o]
               /\ fdref' = fdref + 1                    \* _dispatch_fd_entry_retain
               /\ SetPend(d, o, "perform")
               /\ UNCHANGED <<sops, op, opq, grp, dord>>
  /\ UNCHANGED <<cvars, chvars, chq, bq, bqSusp, srcRun, bars, clvars, kvars, hvars, gvars, sched, convvars>>

\* the rest of _dispatch_operation_perform: buffer set-up and the system call.  The flags are not
\* looked at again: a STOP (and a peer hangup) that arrive after the check are met by the call
SqSyscall(d, KS(_, _)) ==
  /\ pend[d].res = "perform"
  /\ IF d = "R" THEN PerformRead(d, pend[d].o, KS) ELSE PerformWrite(d, pend[d].o, KS)
  /\ UNCHANGED <<cvars, chvars, chq, bq, bqSusp, sq, sops, cur, srcRun, opq, grp, fdref, dord, bars, clvars,
                 hvars, sched, convvars>>

\* the switch on the result, deliveries, completion, re-arming
SqFinish(d) ==
  /\ pend[d].o # 0 /\ pend[d].res # "perform"
  /\ pend' = [pend EXCEPT ![d] = NoPend]
  /\ LET o == pend[d].o
         res == pend[d].res
         dacfl == IF Mut = "early_done" THEN {"deliver", "noempty", "done"} ELSE {"deliver", "noempty"}
     IN \E stopped \in StopViews, force \in Forces :
        CASE res = "DELIVER" ->
               /\ force = "no" => op[o].undel + op[o].buflen < op[o].high
               /\ SetLib([DeliverIn(LibS, o, {}, stopped, force) EXCEPT !.fdref = @ - 1])
               /\ sq' = [sq EXCEPT ![d] = Requeue(@)]
               /\ UNCHANGED <<sops, cur, srcRun>>
          [] res = "DAC" ->
               /\ force = "strict"
               /\ LET S1 == DeliverIn(LibS, o, dacfl, stopped, "strict")
                      S2 == CompleteIn(S1, d, o, stopped)
                  IN SetLib([S2 EXCEPT !.fdref = @ - 1])
               /\ sops' = [sops EXCEPT ![d] = RemoveOp(@, o)]
               /\ cur' = [cur EXCEPT ![d] = 0]
               /\ sq' = [sq EXCEPT ![d] = IF RemoveOp(sops[d], o) # <<>> THEN Requeue(@) ELSE @]
               /\ UNCHANGED srcRun
          [] res = "COMPLETE" ->
               /\ force = "strict"
               /\ SetLib([CompleteIn(LibS, d, o, stopped) EXCEPT !.fdref = @ - 1])
               /\ sops' = [sops EXCEPT ![d] = RemoveOp(@, o)]
               /\ cur' = [cur EXCEPT ![d] = 0]
               /\ sq' = [sq EXCEPT ![d] = IF RemoveOp(sops[d], o) # <<>> THEN Requeue(@) ELSE @]
               /\ UNCHANGED srcRun
          [] res = "CRESUME" ->    \* DISPATCH_OP_COMPLETE_RESUME
               /\ force = "strict"
               /\ SetLib([CompleteIn(LibS, d, o, stopped) EXCEPT !.fdref = @ - 1])
               /\ sops' = [sops EXCEPT ![d] = RemoveOp(@, o)]
               /\ cur' = [cur EXCEPT ![d] = 0]
               /\ srcRun' = [srcRun EXCEPT ![d] = RemoveOp(sops[d], o) # <<>>]
               /\ UNCHANGED sq
          [] res = "RESUME" ->
               /\ force = "strict" /\ stopped = ("stopped" \in flags)
               /\ srcRun' = [srcRun EXCEPT ![d] = TRUE]
               /\ fdref' = fdref - 1
               /\ UNCHANGED <<sq, sops, cur, op, opq, grp, dord>>
  /\ UNCHANGED <<cvars, chvars, chq, bq, bqSusp, bars, clvars, kvars, hvars, gvars, convvars, sched>>

\* the read / write source of the stream fires: _dispatch_stream_source_handler
Ready(d) == IF d = "R" THEN kin.wpos > kin.rpos \/ kin.closed
            ELSE TraceMode \/ kout.hup \/ Size(kout.content) - kout.pread < Cap
SourceFire(d) ==
  /\ srcRun[d] /\ Ready(d)
  /\ srcRun' = [srcRun EXCEPT ![d] = FALSE]
  /\ sq' = [sq EXCEPT ![d] = Requeue(@)]
  /\ UNCHANGED <<cvars, chvars, chq, bq, bqSusp, pend, sops, cur, libvars, bars, clvars, kvars, hvars, gvars, convvars, sched>>

(* ------------------------------ handlers, cleanup ------------------------------ *)
\* one invocation of the operation's handler (op_q is a serial queue: one at a time, FIFO);
\* the fd_entry reference of the block is dropped after its last invocation returned
HandlerRun(o) ==
  /\ opq[o] # <<>>
  /\ LET blk == Head(opq[o]) IN
     \* ghosts: hist (only kept when schedules are recorded), the last invocation, counters
     /\ hist' = IF Rec THEN [hist EXCEPT ![o] = Append(@, blk.inv[1])] ELSE hist
     /\ ninv' = [ninv EXCEPT ![o] = @ + 1]
     /\ last' = [last EXCEPT ![o] = blk.inv[1]]
     /\ doneCnt' = [doneCnt EXCEPT ![o] = IF blk.inv[1].done THEN @ + 1 ELSE @]
     /\ dcat' = [dcat EXCEPT ![o] = Norm(@ \o blk.inv[1].data)]
     \* the internal handler of dispatch_read concatenates, the one of dispatch_write keeps the
     \* data of the done invocation; both keep the error of the done invocation
     /\ LET inv == blk.inv[1] IN
        IF ~op[o].conv THEN UNCHANGED <<cacc, cerr>>
        ELSE /\ cacc' = [cacc EXCEPT ![o] = IF op[o].dir = "R" THEN (IF inv.null THEN @ ELSE Norm(@ \o inv.data))
                                            ELSE IF inv.done /\ ~inv.null THEN inv.data ELSE @]
             /\ cerr' = [cerr EXCEPT ![o] = IF inv.done THEN inv.err ELSE @]
     /\ IF Len(blk.inv) = 1
        THEN /\ opq' = [opq EXCEPT ![o] = Tail(@)]
             /\ fdref' = IF blk.ref THEN fdref - 1 ELSE fdref
        ELSE /\ opq' = [opq EXCEPT ![o] = <<[blk EXCEPT !.inv = Tail(@)]>> \o Tail(@)]
             /\ UNCHANGED fdref
  /\ UNCHANGED <<cvars, chvars, chq, bq, bqSusp, stvars, op, grp, dord, bars, clvars, kvars, gvars, cuser, cres, sched>>

\* every reference on the fd_entry is gone: the close queue runs and posts the cleanup handler
CloseQRun ==
  /\ fdref = 0 /\ clq = "held"
  /\ mode = "conv" => \E o \in Ops : cuser[o] = "pending"     \* (an fd_entry exists)
  /\ clq' = "posted"
  \* the handlers of the convenience calls were waiting on the close queue
  /\ cuser' = [o \in Ops |-> IF cuser[o] = "pending" THEN "posted" ELSE cuser[o]]
  /\ UNCHANGED <<cvars, chvars, chq, bq, bqSusp, stvars, libvars, bars, cleanupRuns, kvars, hvars, gvars, cacc, cerr, cres, sched>>
\* handler(deliver_data, err) of dispatch_read / dispatch_write
ConvRun(o) ==
  /\ cuser[o] = "posted"
  /\ cuser' = [cuser EXCEPT ![o] = "ran"]
  /\ cres' = [cres EXCEPT ![o] = [data |-> cacc[o], null |-> (op[o].dir = "W" /\ cacc[o] = <<>>), err |-> cerr[o]]]
  /\ UNCHANGED <<cvars, chvars, chq, bq, bqSusp, stvars, libvars, bars, clvars, kvars, hvars, gvars, cacc, cerr, sched>>
CleanupRun ==
  /\ mode = "chan"
  /\ clq = "posted"
  /\ clq' = "ran" /\ cleanupRuns' = cleanupRuns + 1
  /\ UNCHANGED <<cvars, chvars, chq, bq, bqSusp, stvars, libvars, bars, kvars, hvars, gvars, convvars, sched>>

\* _dispatch_io_dispose: last reference (the client's, every block's and operation's) gone
ChannelIdle == /\ chq = <<>> /\ bq = <<>>
               /\ \A o \in Ops : op[o].st \in {"none", "disposed", "rejected"} /\ opq[o] = <<>>
               /\ \A b \in Bars : bars[b].st \in {"none", "done"}
               /\ \A d \in Dirs : sq[d] = <<>> /\ pend[d].o = 0
ChannelDispose ==
  /\ released /\ chFd /\ flags = {} /\ ChannelIdle
  /\ chFd' = FALSE /\ fdref' = fdref - 1
  /\ UNCHANGED <<cvars, flags, clow, chigh, cint, chq, bq, bqSusp, stvars, op, opq, grp, dord, bars, clvars, kvars, hvars, gvars, convvars, sched>>

(* ------------------------------ the peer / kernel environment ------------------------------ *)
PeerWrite(k) ==
  /\ ~kin.closed
  /\ kin' = [kin EXCEPT !.wpos = @ + k] /\ UNCHANGED kout /\ Log("pw", k, 0)
  /\ UNCHANGED <<cvars, chvars, chq, bq, bqSusp, stvars, libvars, bars, clvars, hvars, gvars, convvars>>
PeerClose ==
  /\ ~kin.closed
  /\ kin' = [kin EXCEPT !.closed = TRUE] /\ UNCHANGED kout /\ Log("pc", 0, 0)
  /\ UNCHANGED <<cvars, chvars, chq, bq, bqSusp, stvars, libvars, bars, clvars, hvars, gvars, convvars>>
PeerRead(k) ==
  /\ k >= 1 /\ kout.pread + k <= Size(kout.content)
  /\ kout' = [kout EXCEPT !.pread = @ + k] /\ UNCHANGED kin /\ Log("pr", k, 0)
  /\ UNCHANGED <<cvars, chvars, chq, bq, bqSusp, stvars, libvars, bars, clvars, hvars, gvars, convvars>>
PeerHup ==
  /\ ~kout.hup
  /\ kout' = [kout EXCEPT !.hup = TRUE] /\ UNCHANGED kin /\ Log("ph", 0, 0)
  /\ UNCHANGED <<cvars, chvars, chq, bq, bqSusp, stvars, libvars, bars, clvars, hvars, gvars, convvars>>

(* ------------------------------ next-state relation (model checking) ------------------------------ *)
AllK(o, m) == 1 .. m

WriteRegs(n) == \* the fragmentations of a write of n bytes that are explored
  IF n = 0 THEN {<<>>} ELSE
  {<< <<wsub, n>> >>} \cup
  (IF "frag" \in Feat THEN {<< <<wsub, a>>, <<wsub + a, n - a>> >> : a \in 1 .. (n - 1)} ELSE {})

ClientBurst ==
  /\ cstate = "burst"
  /\ \/ /\ "low" \in Feat /\ nsetl = 0 /\ nops = 0 /\ \E v \in Marks : CSetLow(v)
     \/ /\ "high" \in Feat /\ nseth = 0 /\ nops = 0 /\ \E v \in Marks : CSetHigh(v)
     \/ /\ "ival" \in Feat /\ cint = "off" /\ chq = <<>> /\ nops = 0 /\ \E v \in {"strict", "lax"} : CSetInterval(v)
     \/ /\ mode = "chan" /\ "R" \in UseDirs /\ \E n \in Lens : CSubmit(nops + 1, "R", n, <<>>)
     \/ /\ mode = "chan" /\ "W" \in UseDirs /\ \E n \in Lens \ {0, INF} : \E regs \in WriteRegs(n) : CSubmit(nops + 1, "W", n, regs)
     \/ /\ mode = "chan" /\ "W" \in UseDirs /\ 0 \in Lens /\ CSubmit(nops + 1, "W", 0, <<>>)
     \/ /\ mode = "conv" /\ "R" \in UseDirs /\ \E n \in Lens : CConv(nops + 1, "R", n, <<>>)
     \/ /\ mode = "conv" /\ "W" \in UseDirs /\ \E n \in Lens \ {INF} : \E regs \in WriteRegs(n) : CConv(nops + 1, "W", n, regs)
     \/ /\ mode = "chan" /\ nops > 0 /\ CBarrier(nbars + 1)
     \/ /\ mode = "chan" /\ "close" \in Feat /\ ~closeCall /\ CClose
     \/ /\ mode = "chan" /\ "release" \in Feat /\ CRelease
     \/ /\ cstate' = "run"
        /\ UNCHANGED <<mode, nops, nbars, nsetl, nseth, closeCall, stopCall, released, wsub, chvars, chq, bq,
                       bqSusp, stvars, libvars, bars, clvars, kvars, hvars, gvars, convvars, sched>>
ClientStop == /\ cstate = "run" /\ mode = "chan" /\ "stop" \in Feat /\ ~stopCall /\ ~released
              /\ CStop /\ cstate' = "burst"

Lib == \/ ChqStep \/ BqStep
       \/ \E d \in Dirs : SqSenq(d) \/ SqCleanup(d) \/ SqPick(d) \/ SqSyscall(d, AllK) \/ SqFinish(d) \/ SourceFire(d) \/ SqTimer(d)
       \/ \E o \in Ops : HandlerRun(o) \/ ConvRun(o) \/ TimerPost(o)
       \/ \E b \in Bars : BarrierStart(b) \/ BarrierEnd(b)
       \/ CloseQRun \/ CleanupRun \/ ChannelDispose

EnvClose == "R" \in UseDirs /\ ~InFile /\ "eof" \in Feat /\ PeerClose
EnvRead == "W" \in UseDirs /\ \E k \in 1 .. Cap : PeerRead(k)
Env == \/ /\ "R" \in UseDirs /\ ~InFile /\ \E k \in 1 .. (MaxIn - kin.wpos) : PeerWrite(k)
       \/ EnvClose
       \/ EnvRead
       \/ /\ "W" \in UseDirs /\ "hup" \in Feat /\ PeerHup

Next == ClientBurst \/ ClientStop \/ (cstate = "run" /\ (Lib \/ Env))

Spec == Init /\ [][Next]_vars

(* fairness: every library executor eventually takes its enabled step; the peer eventually
   closes (EOF) and keeps draining (or hangs up) *)
Fair == /\ WF_vars(ChqStep) /\ WF_vars(BqStep)
        /\ \A d \in Dirs : /\ WF_vars(SqSenq(d)) /\ WF_vars(SqCleanup(d)) /\ WF_vars(SqPick(d)) /\ WF_vars(SqSyscall(d, AllK))
                           /\ WF_vars(SqFinish(d)) /\ WF_vars(SourceFire(d)) /\ WF_vars(SqTimer(d))
        /\ \A o \in Ops : WF_vars(HandlerRun(o)) /\ WF_vars(ConvRun(o))
        /\ \A b \in Bars : WF_vars(BarrierStart(b)) /\ WF_vars(BarrierEnd(b))
        /\ WF_vars(CloseQRun) /\ WF_vars(CleanupRun) /\ WF_vars(ChannelDispose)
        /\ WF_vars(cstate = "burst" /\ ClientBurst /\ cstate' = "run")
        /\ WF_vars(cstate = "run" /\ EnvClose)
        /\ WF_vars(cstate = "run" /\ EnvRead)
FairSpec == Spec /\ Fair

(* ------------------------------ the property (C14) ------------------------------ *)
\* dcat[o] = the data passed to o's handler so far, concatenated in invocation order
DoneSeen(o) == doneCnt[o] >= 1
Submitted == {o \in Ops : op[o].st # "none"}

TypeOK ==
  /\ fdref >= 0 /\ grp >= 0 /\ bqSusp \in 0 .. 1
  /\ \A o \in Ops : op[o].buflen <= op[o].bufsiz /\ op[o].total <= op[o].len

\* read: the data passed to the handler, concatenated in invocation order, are exactly the bytes
\* the operation consumed from the descriptor (a prefix of them while it runs), at most `len`
ReadConservation ==
  \A o \in Submitted : op[o].dir = "R" =>
     /\ IsPrefix(dcat[o], consumed[o])
     /\ Size(consumed[o]) <= op[o].len
     /\ DoneSeen(o) => SameBytes(dcat[o], consumed[o])
\* ... never larger per invocation than the high-water mark
HighWater ==
  \A o \in Submitted : op[o].dir = "R" /\ op[o].st \notin {"chq", "imm", "rejected"} =>
     Size(last[o].data) <= op[o].high
\* write: bytes that reached the descriptor followed by the data reported as unwritten are
\* the submitted data; every intermediate report is the tail of the submitted data that
\* had not been written when it was made
WriteConservation ==
  \A o \in Submitted : op[o].dir = "W" =>
     /\ IsPrefix(written[o], op[o].wdata)
     /\ ninv[o] > 0 =>
          LET inv == last[o] IN
          /\ inv.done => SameBytes(written[o] \o inv.data, op[o].wdata)
          /\ ~inv.done => /\ SameBytes(inv.data, Sub(op[o].wdata, op[o].len - Size(inv.data), INF))
                          /\ Size(written[o]) + Size(inv.data) >= op[o].len
\* done exactly once, on the last invocation
DoneOnceLast ==
  \A o \in Ops : /\ doneCnt[o] <= 1
                  /\ doneCnt[o] = 1 => (last[o].done /\ opq[o] = <<>>)
\* operations of one direction complete, and touch the descriptor, in submission order
RECURSIVE Increasing(_)
Increasing(s) == Len(s) <= 1 \/ (s[1] < s[2] /\ Increasing(Tail(s)))
First(d) == d[1][1]
End(d) == d[Len(d)][1] + d[Len(d)][2]
CompletionOrder ==
  /\ \A d \in Dirs : Increasing(dord[d])
  /\ \A o1, o2 \in Submitted : (o1 < o2 /\ op[o1].dir = op[o2].dir) =>
        /\ (consumed[o1] # <<>> /\ consumed[o2] # <<>>) => End(consumed[o1]) <= First(consumed[o2])
        /\ (written[o1] # <<>> /\ written[o2] # <<>>) => End(written[o1]) <= First(written[o2])
        \* o2 touches the descriptor only after o1 completed
        /\ (op[o2].total > 0 /\ op[o1].st \in {"sq", "listed"}) => FALSE
\* a barrier runs between the operations submitted before and after it
IoLive(o) == op[o].st \in {"sq", "listed"}
NotStarted(o) == op[o].st \in {"none", "chq", "created", "imm"} /\ ninv[o] = 0 /\ opq[o] = <<>> /\ op[o].total = 0
BarrierBetween ==
  \A b \in Bars : bars[b].st = "running" =>
     /\ \A o \in Ops : o <= bars[b].before => op[o].st \in {"disposed", "rejected"}
     /\ \A o \in Ops : o > bars[b].before => NotStarted(o)
\* operations scheduled on a closed channel complete with ECANCELED (and move no byte)
ClosedEcanceled ==
  \A o \in Submitted : op[o].ac =>
     /\ consumed[o] = <<>> /\ written[o] = <<>>
     /\ ninv[o] <= 1
     /\ ninv[o] = 1 => (last[o].done /\ last[o].err = ECANCELED /\ Size(last[o].data) = (IF op[o].dir = "W" THEN op[o].len ELSE 0))
     /\ op[o].st \in {"chq", "imm", "created", "rejected"}
\* the cleanup handler runs exactly once, after every handler of the operations submitted
\* before the channel was closed
CleanupOnceAfterAll ==
  /\ cleanupRuns <= 1
  /\ clq \in {"posted", "ran"} =>
        \A o \in Submitted : ~op[o].ac => (DoneSeen(o) /\ opq[o] = <<>>)
\* STOP: a final delivery made while the channel is stopped carries an error (engine level;
\* the property itself only speaks about operations scheduled after close)
StopFlagsFinal ==
  \A o \in Ops : \A i \in 1 .. Len(opq[o]) :
     LET blk == opq[o][i]
         lst == blk.inv[Len(blk.inv)] IN
     (blk.sp /\ lst.done) => lst.err # 0

\* convenience API: the handler runs exactly once (by construction of cuser), with exactly the
\* bytes the operation consumed (read, at most the requested length) / with the data that did
\* not reach the descriptor (write); only after the operation is complete
ConvOk ==
  \A o \in Submitted : (op[o].conv /\ cuser[o] = "ran") =>
     /\ op[o].st \in {"disposed", "rejected", "imm"}
     /\ op[o].len > 0 => (opq[o] = <<>> /\ DoneSeen(o))
     /\ op[o].dir = "R" => (SameBytes(cres[o].data, consumed[o]) /\ Size(cres[o].data) <= op[o].len)
     /\ op[o].dir = "W" => SameBytes(written[o] \o cres[o].data, op[o].wdata)
     /\ (op[o].dir = "W" /\ cres[o].err = 0) => cres[o].data = <<>>
ConvCompletes == \A o \in Ops : (op[o].conv /\ op[o].st # "none") ~> (cuser[o] = "ran")

Quiescent == /\ chq = <<>> /\ bq = <<>> /\ \A d \in Dirs : sq[d] = <<>> /\ pend[d].o = 0
             /\ \A o \in Ops : opq[o] = <<>>
Finished == /\ cstate = "run" /\ Quiescent /\ \A o \in Submitted : (IF op[o].conv THEN cuser[o] = "ran" ELSE DoneSeen(o))
            /\ \A b \in Bars : bars[b].st \in {"none", "done"}
\* every operation completes; the cleanup handler runs once the channel is closed / released
EveryOpCompletes == \A o \in Ops : (op[o].st # "none") ~> DoneSeen(o)
CleanupEventually == (closeCall \/ stopCall \/ released) ~> (cleanupRuns = 1)

\* schedule emission (simulation, Rec = TRUE)
EmitSched == (Finished /\ nops > 0) => PrintT(ToJson([s |-> sched, fin |-> [o \in Submitted |-> hist[o]]]))
=============================================================================
