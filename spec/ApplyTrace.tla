---------------------------- MODULE ApplyTrace ----------------------------
(* Trace validation (code -> spec) for dispatch_apply: a recorded execution of the real library
   (hooked build, harness/drv_apply.c) must be a behaviour of Apply.tla.

   Logged, each bound to exactly one Apply action of the recording thread with every field compared:
     Call / Ret of dispatch_apply_f, Start / End of every invocation of the work function,
     every atomic on da_index (Claim0 / Claim, told apart by the control point), da_todo (SubTodo), da_thr_cnt
     (ThrDec), the da_event word (Signal / WaitDec / WaitSlow), and on the dq_state of custom queues
     the accesses of _dispatch_queue_try_reserve_apply_width (RedirResv) and
     _dispatch_queue_relinquish_width (RedirRelq / FinalRelq), word-level (projected old and new word).
   All other dq_state accesses of the custom queues (dispatch_sync_f taking and giving back its width,
   barrier items of the writer thread, drains) drive the word: each must observe the word the previous
   access left (values chain) - their own transition functions are bound by the lane checks (LaneWordTrace).
   Silent (unlogged) steps, inferred by TLC: the push of the helper continuations to the root queue
   and a pool thread popping one (root-queue internals), the futex wake, and the reservation on a width-1
   level (a plain read of dq_width).
   dispatch_apply_t records are told apart by address + incarnation (`a`); which apply call a record
   belongs to is inferred: it is bound at the first access and must stay consistent.
   The runner (tools/props/C10.py: prepare) recycles the identity `d` of a call that is completely over
   and announces it with a `Free` record; TFree checks that the call really is over. *)
EXTENDS Apply, Json, IOUtils, TLCExt

Tr == ndJsonDeserialize(IOEnv.TRACE)
\* record 1 = header written by the runner: nt threads, nd apply calls, P, widths (per word), queues (name -> chain)
TraceThreads == 0..(Tr[1].nt - 1)
TraceDas == 1..Tr[1].nd
TraceWords == 1..Len(Tr[1].widths)
TraceP == Tr[1].P
TraceChain(q) == IF q \in DOMAIN Tr[1].queues THEN Tr[1].queues[q] ELSE <<>>
TraceWidth(w) == Tr[1].widths[w]

VARIABLES l,      \* next record
          kn,     \* per word: the abstract value is known (FALSE after an access the abstraction does not carry)
          barIn   \* per word: barrier items of the writer thread currently running
tvars == <<vars, l, kn, barIn>>

TInit == Init /\ l = 2 /\ kn = [w \in Words |-> TRUE] /\ barIn = [w \in Words |-> 0] /\ TLCSet(1, 0)

Rec == Tr[l]
Ev(e) == l <= Len(Tr) /\ Rec.e = e
Consume == l' = l + 1
NoW == UNCHANGED <<kn, barIn>>
HasTop(t) == stk[t] # <<>>
Strip(x) == [sc |-> x.sc, side |-> x.side, inact |-> x.inact, na |-> x.na, ib |-> x.ib, pb |-> x.pb, used |-> x.used,
             dirty |-> x.dirty, enq |-> x.enq, ro |-> x.ro, qos |-> x.qos, owner |-> x.owner]

\* memory orders: on this machine (x86-64, TSO) a different memory_order argument cannot change any behaviour the
\* property speaks about (DESIGN 5.6): a mismatch is reported as drift, it never decides acceptance
MoChk(m) == IF Rec.mo = m THEN TRUE ELSE PrintT(<<"MO_DRIFT", m, Rec.mo>>)

(* ---- API level ---- *)
TCall == /\ Ev("Call") /\ Consume /\ NoW /\ DoCall(Rec.t, Rec.d, Rec.n, Rec.q)
TRet == /\ Ev("Ret") /\ Consume /\ NoW /\ HasTop(Rec.t) /\ Top(Rec.t).d = Rec.d /\ Ret(Rec.t)
TStart == /\ Ev("Start") /\ Consume /\ NoW /\ HasTop(Rec.t)
          /\ Top(Rec.t).d = Rec.d /\ Top(Rec.t).idx = Rec.i
          /\ (SerStart(Rec.t) \/ CallStart(Rec.t))
TEnd == /\ Ev("End") /\ Consume /\ NoW /\ HasTop(Rec.t)
        /\ Top(Rec.t).d = Rec.d /\ Top(Rec.t).idx = Rec.i
        /\ (SerEnd(Rec.t) \/ CallEnd(Rec.t))

(* ---- the shared record ---- *)
\* the record must be the one of the frame's call; the first access binds it
Bound(t) == /\ HasTop(t)
            /\ IF da[Top(t).d].a = -1 THEN \A d \in Das : da[d].a # Rec.a ELSE da[Top(t).d].a = Rec.a
TIdx == /\ Ev("Idx") /\ Consume /\ NoW /\ Bound(Rec.t)
        /\ LET t == Rec.t d == Top(t).d IN
           /\ da[d].index = Rec.old /\ Rec.new = Rec.old + 1
           /\ \/ Top(t).pc = "claim0" /\ MoChk("acquire") /\ Claim0A(t, Rec.a)
              \/ Top(t).pc = "claim" /\ MoChk("relaxed") /\ da[d].a = Rec.a /\ Claim(t)
TTodo == /\ Ev("Todo") /\ Consume /\ NoW /\ Bound(Rec.t)
         /\ da[Top(Rec.t).d].a = Rec.a
         /\ da[Top(Rec.t).d].todo = Rec.old /\ Rec.old - Top(Rec.t).done = Rec.new /\ MoChk("release")
         /\ SubTodo(Rec.t)
TThr == /\ Ev("Thr") /\ Consume /\ NoW /\ Bound(Rec.t)
        /\ da[Top(Rec.t).d].thr = Rec.old /\ Rec.new = Rec.old - 1 /\ MoChk("release")
        /\ da[Top(Rec.t).d].a = Rec.a /\ ThrDec(Rec.t)
TEvInc == /\ Ev("EvInc") /\ Consume /\ NoW /\ Bound(Rec.t) /\ da[Top(Rec.t).d].a = Rec.a
          /\ da[Top(Rec.t).d].ev = Rec.old /\ Rec.new = Rec.old + 1 /\ MoChk("release")
          /\ Signal(Rec.t)
TEvDec == /\ Ev("EvDec") /\ Consume /\ NoW /\ Bound(Rec.t) /\ da[Top(Rec.t).d].a = Rec.a
          /\ da[Top(Rec.t).d].ev = Rec.old /\ Rec.new = Rec.old - 1 /\ MoChk("acquire")
          /\ WaitDec(Rec.t)
\* the slow path's load: 0 ends the wait, anything else (-1: still waiting) goes back to the futex
TEvLoad == /\ Ev("EvLoad") /\ Consume /\ NoW /\ Bound(Rec.t) /\ da[Top(Rec.t).d].a = Rec.a
           /\ Top(Rec.t).pc = "wait_slow" /\ da[Top(Rec.t).d].ev = Rec.old
           /\ IF Rec.old = 0 THEN WaitSlow(Rec.t) ELSE UNCHANGED vars

(* ---- dq_state of the custom queues ---- *)
IsSt == l <= Len(Tr) /\ Rec.e = "St"
Opaque == Rec.op = "half" \/ "odd_old" \in DOMAIN Rec \/ "odd_new" \in DOMAIN Rec
ApplyFuncs == {"_dispatch_queue_try_reserve_apply_width", "_dispatch_queue_relinquish_width"}
Chains(w, old) == kn[w] => qs[w] = old
TStOpaque == /\ IsSt /\ Opaque /\ Rec.f \notin ApplyFuncs /\ Consume
             /\ kn' = [kn EXCEPT ![Rec.w] = FALSE] /\ UNCHANGED <<vars, barIn>>
\* accesses that leave the word alone (loads, failed compare-exchanges, give-ups of other functions)
Passive == Rec.op \in {"load", "giveup"} \/ (Rec.op = "cmpxchg" /\ Rec.ok = 0)
TStPassive == /\ IsSt /\ ~Opaque /\ Passive /\ Consume
              /\ ~(Rec.f = "_dispatch_queue_try_reserve_apply_width" /\ Rec.op = "giveup")
              /\ (Rec.op # "giveup" => Chains(Rec.w, Strip(Rec.old)))
              /\ UNCHANGED <<vars, kn, barIn>>
TStOther == /\ IsSt /\ ~Opaque /\ ~Passive /\ Rec.f \notin ApplyFuncs /\ Consume
            /\ Chains(Rec.w, Strip(Rec.old))
            /\ qs' = [qs EXCEPT ![Rec.w] = Strip(Rec.new)] /\ kn' = [kn EXCEPT ![Rec.w] = TRUE]
            /\ UNCHANGED <<stk, da, conts, uaf, env, barIn>>
\* _dispatch_queue_try_reserve_apply_width: the successful compare-exchange, or the give-up (decided on
\* the value the loop had observed)
TResv == /\ IsSt /\ ~Opaque /\ Rec.f = "_dispatch_queue_try_reserve_apply_width" /\ Consume
         /\ HasTop(Rec.t) /\ Top(Rec.t).pc = "redir_resv"
         /\ EffChain(da[Top(Rec.t).d].q)[Top(Rec.t).lvl] = Rec.w
         /\ \/ /\ Rec.op = "cmpxchg" /\ Rec.ok = 1 /\ Chains(Rec.w, Strip(Rec.old))
               /\ RedirResvOn(Rec.t, Strip(Rec.old)) /\ qs'[Rec.w] = Strip(Rec.new)
               /\ kn' = [kn EXCEPT ![Rec.w] = TRUE]
            \/ /\ Rec.op = "giveup"
               /\ RedirResvOn(Rec.t, Strip(Rec.old)) /\ qs'[Rec.w] = qs[Rec.w]
               /\ kn' = kn
         /\ barIn' = barIn
TRelq == /\ IsSt /\ ~Opaque /\ Rec.f = "_dispatch_queue_relinquish_width" /\ Rec.op = "sub" /\ Consume
         /\ HasTop(Rec.t) /\ Chains(Rec.w, Strip(Rec.old))
         /\ \/ Top(Rec.t).pc = "redir_relq" /\ EffChain(da[Top(Rec.t).d].q)[Top(Rec.t).k] = Rec.w /\ RedirRelq(Rec.t)
            \/ Top(Rec.t).pc = "final_relq" /\ EffChain(da[Top(Rec.t).d].q)[Top(Rec.t).k] = Rec.w /\ FinalRelq(Rec.t)
         /\ qs'[Rec.w] = Strip(Rec.new)
         /\ kn' = [kn EXCEPT ![Rec.w] = TRUE] /\ barIn' = barIn

(* ---- the writer thread's barrier items, the end of an execution ---- *)
TBStart == /\ Ev("BStart") /\ Consume /\ barIn' = [barIn EXCEPT ![Rec.w] = @ + 1] /\ UNCHANGED <<vars, kn>>
TBEnd == /\ Ev("BEnd") /\ Consume /\ barIn' = [barIn EXCEPT ![Rec.w] = @ - 1] /\ UNCHANGED <<vars, kn>>
\* after the flushing barrier returned the word of the queue is idle again: the width was given back exactly
\* (a lower level may still carry the reservation of the thread that drained the queue for a moment)
TQuiesce == /\ Ev("Quiesce") /\ Consume
            /\ LET w == TraceChain(Rec.q)[1] IN
                 kn[w] => [qs[w] EXCEPT !.qos = 0, !.dirty = FALSE, !.ro = FALSE, !.enq = FALSE] = Idle0
            /\ UNCHANGED <<vars, kn, barIn>>
\* the runner recycles the identity of a call that is completely over (keeps the state small); that it IS over
\* (returned, record released, no helper left) is checked here
Over(d) == /\ da[d].returned /\ da[d].alive # "live" /\ conts[d] = 0
           /\ \A t \in Threads : \A i \in 1..Len(stk[t]) : stk[t][i].d # d
TFree == /\ Ev("Free") /\ Consume /\ Over(Rec.d)
         /\ da' = [da EXCEPT ![Rec.d] = Da0]
         /\ UNCHANGED <<stk, conts, qs, uaf, env, kn, barIn>>
TSkip == /\ l <= Len(Tr) /\ Rec.e \in {"Config", "Word", "Queue", "Reset"} /\ Consume /\ UNCHANGED <<vars, kn, barIn>>

(* ---- silent steps: each is forced by the record that follows ---- *)
\* a pool thread pops a helper continuation: its first access to the record follows
TPickup == /\ Ev("Idx") /\ UNCHANGED <<l, kn, barIn>> /\ ~HasTop(Rec.t)
           /\ \E d \in Das : /\ da[d].a = Rec.a \/ (da[d].a = -1 /\ \A e \in Das : da[e].a # Rec.a)
                             /\ PickupA(Rec.t, d, Rec.a)
\* the others change only the thread's own frame (and the count of continuations a Pickup needs): it is enough to
\* take them right before the record that needs them, which keeps a rejection cheap
NeedsPush(t) == \/ Rec.t = t
                \/ Rec.e = "Idx" /\ ~HasTop(Rec.t) /\ da[Top(t).d].a \in {-1, Rec.a}
TSilent == /\ l <= Len(Tr) /\ "t" \in DOMAIN Rec /\ UNCHANGED <<l, kn, barIn>>
           /\ \E t \in Threads :
                 \/ HasTop(t) /\ Top(t).pc = "push" /\ NeedsPush(t) /\ PushConts(t)
                 \/ Rec.t = t /\ Wake(t)
                 \/ (Rec.t = t /\ HasTop(t) /\ Top(t).pc = "redir_resv" /\ Width(EffChain(da[Top(t).d].q)[Top(t).lvl]) = 1 /\ RedirResv(t))

TNext == TCall \/ TRet \/ TStart \/ TEnd \/ TIdx \/ TTodo \/ TThr \/ TEvInc \/ TEvDec \/ TEvLoad
         \/ TStOpaque \/ TStPassive \/ TStOther \/ TResv \/ TRelq \/ TBStart \/ TBEnd \/ TQuiesce \/ TFree \/ TSkip
         \/ TPickup \/ TSilent
TSpec == TInit /\ [][TNext]_tvars

(* ---- invariants evaluated in every state of the accepted behaviour ---- *)
\* invocations on a custom queue hold width of its word, and never overlap a barrier item of that queue (C04)
TWidthHeld == \A w \in Words : kn[w] => Cardinality(RunningOn(w)) <= qs[w].used
TBarrierExcl == \A w \in Words : barIn[w] > 0 => RunningOn(w) = {}

MaxL == IF TLCGet(1) < l THEN TLCSet(1, l) ELSE TRUE
Accepted == l > Len(Tr)
StopWhenAccepted == Accepted => (PrintT("TRACE_ACCEPTED") /\ TLCSet("exit", TRUE))
Post == PrintT(<<"MAXL", TLCGet(1), Len(Tr)>>)
=============================================================================
