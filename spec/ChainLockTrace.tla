--------------------------- MODULE ChainLockTrace ---------------------------
(* Cross-level lock discipline of a target-queue hierarchy, validated on the recorded total order of a real
   execution (harness/drv_chain.c): the word-level reason WHY a serial bottom serialises the hierarchy (C03).

   In spec/Chain.tla an item of queue q only executes in a frame reached through
     - a drain of every SERIAL queue of q's target chain nested in one another on the same thread
       (_dispatch_lane_invoke2: a queue is drained only when the current queue is its target), or
     - dispatch_sync / async_and_wait having acquired every level (_dispatch_sync_recurse), or a waiter hand-off
       that transferred every level's drain lock to the waiter (_dispatch_lane_drain_barrier_waiter +
       _dispatch_barrier_waiter_redirect_or_wake re-pushing on the target),
   so in every reachable state of Chain.tla:   i \in running on thread t  =>  st[b].owner = t for every serial b
   of the chain of On[i]  (this is what makes HierarchyExclusion inductive: the bottom's drain lock has one owner).
   The real execution must show the same: this module replays the dq_state records of ALL queues of the hierarchy
   (projected drain-lock owner of each word) together with the item Start / End events and checks
     (L1) at every Start and End of an item submitted to q, executed by thread t: every serial lane b on the target
          chain of q has drain owner t -- or, for dispatch_async_and_wait items (NOT modelled in Chain.tla), the
          submitting thread: _dispatch_async_and_wait_recurse acquires the upper levels on the caller's thread, and
          when a lower level is busy the context is pushed there and run by THAT level's drainer through
          _dispatch_async_and_wait_invoke while the caller, still owning the upper levels, is blocked on its event;
     (L2) every successful _dispatch_queue_drain_try_lock of a lane whose target is a serial lane or a workloop is performed by
          the thread that owns the target's drain lock ("drained only from the context of its target").
   A WORKLOOP at the bottom is a serial level like any other (dq_width = 1; its Reset marker carries w = 1, lane = FALSE):
   its drain lock is taken by the root worker running _dispatch_workloop_invoke (the lanes above are drained nested in
   it), by _dispatch_sync_recurse / _dispatch_async_and_wait_recurse_one, or handed to a waiter by
   _dispatch_workloop_drain_barrier_waiter; an async_and_wait context pushed on the workloop is run by the workloop's
   drainer.  Concurrent levels (no owner while readers run) are skipped; a word touched through a
   32-bit half access or carrying bits outside the abstraction is "unknown" until its next full record.
   Hierarchy shape (target index, width, lane or not) comes from the Reset markers of each execution. *)
EXTENDS Integers, Sequences, FiniteSets, Json, IOUtils, TLC, TLCExt

Tr == ndJsonDeserialize(IOEnv.TRACE)
VARIABLES l,
          own,    \* queue index -> owner as a string: "null", "<thread>", "?" unknown
          shp,    \* queue index -> [tq, w, lane]
          who     \* item id -> thread whose API call submitted it (Call records)
tvars == <<l, own, shp, who>>
Rec == Tr[l]
Put(f, a, r) == [x \in DOMAIN f \cup {a} |-> IF x = a THEN r ELSE f[x]]
TInit == l = 2 /\ own = << >> /\ shp = << >> /\ who = << >> /\ TLCSet(1, 0)
Consume == l' = l + 1
Has(r, k) == k \in DOMAIN r

\* serial lanes on the target chain of q (q included)
RECURSIVE SerialChain(_, _)
SerialChain(q, fuel) ==
    IF q < 0 \/ q \notin DOMAIN shp \/ fuel = 0 THEN {}
    ELSE (IF shp[q].w = 1 THEN {q} ELSE {}) \cup SerialChain(shp[q].tq, fuel - 1)
Known(b) == b \in DOMAIN own /\ own[b] \notin {"?", "-1"}

TReset == /\ l <= Len(Tr) /\ Rec.e = "Reset" /\ Has(Rec, "q") /\ Consume
          /\ own' = Put(own, Rec.q, "null")
          /\ shp' = Put(shp, Rec.q, [tq |-> Rec.tq, w |-> Rec.w, lane |-> Rec.lane]) /\ who' = who
\* a dq_state record of queue q
IsSt == l <= Len(Tr) /\ Rec.e = "St" /\ Has(Rec, "q")
Opaque == Rec.op = "half" \/ Has(Rec, "odd_old") \/ Has(Rec, "odd_new")
TStOpaque == /\ IsSt /\ Opaque /\ Consume /\ own' = Put(own, Rec.q, "?") /\ UNCHANGED <<shp, who>>
TStGiveup == /\ IsSt /\ ~Opaque /\ Rec.op = "giveup" /\ Consume /\ UNCHANGED <<own, shp, who>>
TSt == /\ IsSt /\ ~Opaque /\ Rec.op # "giveup" /\ Consume
       /\ LET q == Rec.q  t == ToString(Rec.t)  b == IF q \in DOMAIN shp THEN shp[q].tq ELSE -1 IN
          \* (L2) the drain lock of an inner lane is taken from the context of its serial target
          (/\ Rec.f = "_dispatch_queue_drain_try_lock" /\ Rec.op = "cmpxchg" /\ Rec.ok = 1
           /\ Rec.new.owner = t /\ Rec.old.owner = "null"
           /\ b >= 0 /\ b \in DOMAIN shp /\ shp[b].w = 1 /\ Known(b))
          => own[b] = t
       /\ own' = Put(own, Rec.q, Rec.new.owner) /\ UNCHANGED <<shp, who>>
\* (L1) an item runs under the drain lock of every serial level below (and including) its queue
Holders(r) == {ToString(r.t)} \cup (IF r.k \in {"rw", "bw"} /\ r.i \in DOMAIN who THEN {ToString(who[r.i])} ELSE {})
TItem == /\ l <= Len(Tr) /\ Rec.e \in {"Start", "End"} /\ Has(Rec, "q") /\ Consume
         /\ \A b \in SerialChain(Rec.q, 8) : Known(b) => own[b] \in Holders(Rec)
         /\ UNCHANGED <<own, shp, who>>
TCall == /\ l <= Len(Tr) /\ Rec.e = "Call" /\ Has(Rec, "q") /\ Consume
         /\ who' = Put(who, Rec.i, Rec.t) /\ UNCHANGED <<own, shp>>
TOther == /\ l <= Len(Tr)
          /\ ~(Rec.e = "Reset" /\ Has(Rec, "q")) /\ ~(Rec.e = "St" /\ Has(Rec, "q")) /\ ~(Rec.e \in {"Start", "End", "Call"} /\ Has(Rec, "q"))
          /\ Consume /\ UNCHANGED <<own, shp, who>>
TNext == TReset \/ TStOpaque \/ TStGiveup \/ TSt \/ TItem \/ TCall \/ TOther
TSpec == TInit /\ [][TNext]_tvars

MaxL == IF TLCGet(1) < l THEN TLCSet(1, l) ELSE TRUE
StopWhenAccepted == (l > Len(Tr)) => (PrintT("TRACE_ACCEPTED") /\ TLCSet("exit", TRUE))
Post == PrintT(<<"MAXL", TLCGet(1), Len(Tr)>>)
=============================================================================
