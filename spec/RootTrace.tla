----------------------------- MODULE RootTrace -----------------------------
(* Word-level trace validation (code -> spec) for the root queue's pool accounting: every recorded
   atomic access to dgq_pending / dgq_thread_pool_size of the default global queue (hooked real
   library, harness/drv_root.c) must be the access Root.tla's action for that C function performs:
     _dispatch_root_queue_poke_slow : cmpxchg pending 0 -> n (n >= 1) ; load pool ;
                                      sub pending d (the clamp, d >= 1) ; cmpxchg pool t -> t - rem (rem >= 1, never below the floor)
     _dispatch_worker_thread        : sub pending 1 (never below 0) ; add pool 1 (park timeout)
     __DISPATCH_ROOT_QUEUE_CONTENDED_WAIT__ : add / sub pending 1
   Values must chain, pending >= 0 (the library crashes on underflow), pool within [ncpu - 255, ncpu]. *)
EXTENDS Integers, Sequences, Json, IOUtils, TLC, TLCExt

Tr == ndJsonDeserialize(IOEnv.TRACE)
VARIABLES l, pend, pool, ncpu,
          starts, exits,     \* pool threads that began _dispatch_worker_thread / gave their budget unit back at exit
          pk,                \* per thread: where it stands inside _dispatch_root_queue_poke_slow's request protocol (below)
          owe                \* <<thread, queue>> pairs: the thread published a next item as the queue's head in
                             \* _dispatch_root_queue_drain_one and has not yet requested a thread for it (Root.tla: DStoreNext -> poke)
tvars == <<l, pend, pool, ncpu, starts, exits, pk, owe>>
Rec == Tr[l]
PK0 == [st |-> "out", rem |-> 0]
PkOf(t) == IF t \in DOMAIN pk THEN pk[t] ELSE PK0      \* threads appear as the pool grows
TInit == l = 2 /\ pend = 0 /\ pool = 0 /\ ncpu = 0 /\ starts = 0 /\ exits = 0 /\ owe = {} /\ pk = <<>> /\ TLCSet(1, 0)
Consume == l' = l + 1
TReset == /\ l <= Len(Tr) /\ Rec.e = "Reset" /\ Consume /\ pend' = Rec.pending /\ pool' = Rec.pool /\ ncpu' = Rec.ncpu
          /\ pk' = <<>>
          /\ starts' = Rec.ncpu - Rec.pool /\ exits' = 0 /\ owe' = {}      \* threads alive when recording starts hold the missing budget
\* after every pool thread had time to hit its park timeout: all have exited and returned their unit
TIdle == /\ l <= Len(Tr) /\ Rec.e = "IdleQuiesce" /\ Consume
         /\ exits = starts /\ pool = ncpu /\ pend = 0
         /\ \A t \in DOMAIN pk : pk[t].st = "out"
         /\ UNCHANGED <<pend, pool, ncpu, starts, exits, pk, owe>>
\* an API event of a thread (item start / end) cannot come from inside poke_slow
TOther == /\ l <= Len(Tr) /\ Rec.e \notin {"Reset", "Rq", "Rl", "IdleQuiesce"} /\ Consume
          /\ ("t" \in DOMAIN Rec /\ Rec.e \in {"Start", "End"} => PkOf(Rec.t).st = "out")
          /\ UNCHANGED <<pend, pool, ncpu, starts, exits, pk, owe>>
\* item list of a root queue (q = which root queue): the part of the MEDIATOR protocol that keeps the queue served:
\* after popping an item while another one is (or just became) queued behind it, the worker stores that next item as
\* the head and MUST poke the queue (_dispatch_root_queue_poke starts with the ordered load of the tail in
\* _dispatch_queue_class_probe) before it goes off to run the popped item; otherwise nobody requests a thread for it
\* (its enqueuer saw a non-empty queue) and it is stranded while the only worker is blocked inside the popped item.
TRl == /\ l <= Len(Tr) /\ Rec.e = "Rl" /\ Consume
       /\ LET k == <<Rec.t, Rec.q>> IN
          CASE Rec.f = "_dispatch_root_queue_drain_one" /\ Rec.w = "head" /\ Rec.op = "store" /\ ~Rec.newnull ->
                 owe' = owe \cup {k}
            [] Rec.f = "_dispatch_queue_class_probe" -> owe' = owe \ {k}
            [] Rec.f = "_dispatch_root_queue_drain_one" /\ Rec.w = "head" /\ Rec.op = "xchg" ->
                 k \notin owe /\ owe' = owe        \* back for the next item: the request must have been made
            [] OTHER -> owe' = owe
       /\ PkOf(Rec.t).st = "out"          \* list operations are not part of poke_slow: it must have finished its protocol
       /\ UNCHANGED <<pend, pool, ncpu, starts, exits, pk>>
MAXTIDS == 255
(* The request protocol of _dispatch_root_queue_poke_slow (pthread pool), per calling thread:
     out --(pending: cmpxchg 0 -> n ok | add n)--> need_load(rem = n)
     need_load --(pool: load)--> decide(rem)
     decide(rem) --(pending: sub d, d <= rem)--> IF rem = d THEN out ("pool is full": the reservation went back) ELSE take(rem - d)
     decide(rem) / take(rem) --(pool: cmpxchg ok, old - new = rem)--> out (threads are created for rem)
     decide(rem) / take(rem) --(pool: cmpxchg failed)--> decide(rem)
   Leaving the function in any other state keeps units in dgq_pending that no thread will ever consume: every later
   request fails the 0 -> n gate and the queue is stranded once the parked workers are gone (seed C01-4). *)
PkStep(t) ==
  LET s == PkOf(t) f == Rec.f w == Rec.w op == Rec.op IN
  IF f # "_dispatch_root_queue_poke_slow" THEN (IF s.st = "out" THEN s ELSE [st |-> "BAD", rem |-> 0])
  ELSE CASE s.st = "out" /\ w = "pending" /\ op = "cmpxchg" -> IF Rec.ok = 1 THEN [st |-> "need_load", rem |-> Rec.new] ELSE s
         [] s.st = "out" /\ w = "pending" /\ op = "add" -> [st |-> "need_load", rem |-> Rec.new - Rec.old]
         [] s.st = "need_load" /\ w = "pool" /\ op = "load" -> [st |-> "decide", rem |-> s.rem]
         [] s.st = "decide" /\ w = "pending" /\ op = "sub" ->
              LET d == Rec.old - Rec.new IN
              IF d = s.rem THEN PK0 ELSE IF d < s.rem /\ d > 0 THEN [st |-> "take", rem |-> s.rem - d] ELSE [st |-> "BAD", rem |-> 0]
         [] s.st \in {"decide", "take"} /\ w = "pool" /\ op = "cmpxchg" ->
              IF Rec.ok = 1 THEN (IF Rec.old - Rec.new = s.rem THEN PK0 ELSE [st |-> "BAD", rem |-> 0]) ELSE [st |-> "decide", rem |-> s.rem]
         [] OTHER -> [st |-> "BAD", rem |-> 0]
Cur == IF Rec.w = "pending" THEN pend ELSE pool
Legal ==
  LET f == Rec.f op == Rec.op o == Rec.old n == Rec.new IN
  CASE op = "load" \/ (op = "cmpxchg" /\ Rec.ok = 0) -> n = o
    [] f = "_dispatch_root_queue_poke_slow" /\ Rec.w = "pending" /\ op = "cmpxchg" -> o = 0 /\ n >= 1
    [] f = "_dispatch_root_queue_poke_slow" /\ Rec.w = "pending" /\ op = "add" -> n > o        \* overcommit queues
    [] f = "_dispatch_root_queue_poke_slow" /\ Rec.w = "pending" /\ op = "sub" -> n < o /\ n >= 0
    [] f = "_dispatch_root_queue_poke_slow" /\ Rec.w = "pool" /\ op = "cmpxchg" -> n < o /\ n >= ncpu - MAXTIDS
    [] f = "_dispatch_root_queue_poke" /\ Rec.w = "pending" /\ op = "cmpxchg" -> o = 0 /\ n >= 1
    [] f = "_dispatch_worker_thread" /\ Rec.w = "pending" /\ op = "sub" -> n = o - 1 /\ n >= 0
    [] f = "_dispatch_worker_thread" /\ Rec.w = "pool" /\ op = "add" -> n = o + 1 /\ n <= ncpu
    [] f = "__DISPATCH_ROOT_QUEUE_CONTENDED_WAIT__" /\ Rec.w = "pending" -> (op = "add" /\ n = o + 1) \/ (op = "sub" /\ n = o - 1 /\ n >= 0)
    [] OTHER -> FALSE
TRq == /\ l <= Len(Tr) /\ Rec.e = "Rq" /\ Consume
       /\ Rec.old = Cur /\ Legal
       /\ IF Rec.w = "pending" THEN pend' = Rec.new /\ pool' = pool ELSE pool' = Rec.new /\ pend' = pend
       /\ ncpu' = ncpu
       /\ starts' = IF Rec.f = "_dispatch_worker_thread" /\ Rec.w = "pending" /\ Rec.op = "sub" THEN starts + 1 ELSE starts
       /\ exits' = IF Rec.f = "_dispatch_worker_thread" /\ Rec.w = "pool" /\ Rec.op = "add" THEN exits + 1 ELSE exits
       /\ PkStep(Rec.t).st # "BAD" /\ pk' = (Rec.t :> PkStep(Rec.t)) @@ pk
       /\ owe' = owe
TNext == TReset \/ TOther \/ TIdle \/ TRq \/ TRl
TSpec == TInit /\ [][TNext]_tvars
PoolAccountingOK == pend >= 0 /\ (ncpu > 0 => (pool <= ncpu /\ pool >= ncpu - MAXTIDS))
MaxL == IF TLCGet(1) < l THEN TLCSet(1, l) ELSE TRUE
StopWhenAccepted == (l > Len(Tr)) => (PrintT("TRACE_ACCEPTED") /\ TLCSet("exit", TRUE))
Post == PrintT(<<"MAXL", TLCGet(1), Len(Tr)>>)
=============================================================================
