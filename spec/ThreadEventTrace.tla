------------------------- MODULE ThreadEventTrace -------------------------
(* dispatch_thread_event_t (src/shims/lock.h:273-343, src/shims/lock.c _dispatch_thread_event_*_slow):
   the futex-based one-shot event every blocked dispatch_sync / barrier_sync / async_and_wait waiter
   and every dispatch_apply caller sleeps on.  Value: 0 idle, 1 signalled-not-yet-waited,
   UINT32_MAX (here -1) waited-not-yet-signalled.
     signal: old = inc_orig(value, release); if old # 0 -> futex_wake(1)
     wait  : new = dec(value, acquire); if new # 0 -> slow: loop { v = load(acquire); if v = 0 return;
                                                                   futex_wait(&value, UINT32_MAX) }
   A FUTEX_WAKE may be stale (the signaller increments first and wakes later; the word lives on the
   waiter's stack and is reused by its next wait), so the waiter may only return after it has
   RE-LOADED the value and seen 0.  This module validates the recorded accesses of every event
   word (code -> spec): one small state machine per address. *)
EXTENDS Integers, Sequences, FiniteSets, Json, IOUtils, TLC, TLCExt

Tr == ndJsonDeserialize(IOEnv.TRACE)
MAXV == -1
VARIABLES l, ev      \* ev: event id -> [val, wpc, w, spend]  (waiter pc, waiter thread, signallers that owe a wake)
tvars == <<l, ev>>
Rec == Tr[l]
E0 == [val |-> 0, wpc |-> "idle", w |-> -1, owe |-> {}]
Get(a) == IF a \in DOMAIN ev THEN ev[a] ELSE E0
Put(a, r) == ev' = [x \in DOMAIN ev \cup {a} |-> IF x = a THEN r ELSE ev[x]]
TInit == l = 2 /\ ev = << >> /\ TLCSet(1, 0)
Consume == l' = l + 1

IsTe == l <= Len(Tr) /\ Rec.e = "Te"
IsTf == l <= Len(Tr) /\ Rec.e = "Tf"
TOther == /\ l <= Len(Tr) /\ Rec.e \notin {"Te", "Tf", "Reset"} /\ Consume /\ UNCHANGED ev
\* executions are concatenated: stacks are reused across them, state is kept (events are idle between executions)
TReset == /\ l <= Len(Tr) /\ Rec.e = "Reset" /\ Consume /\ UNCHANGED ev

\* --- atomic accesses to dte_value ---
TSignal == /\ IsTe /\ Rec.op = "add" /\ Consume
           /\ LET s == Get(Rec.a) IN
              /\ Rec.old = s.val /\ Rec.old \in {0, MAXV} /\ Rec.new = Rec.old + 1
              /\ Put(Rec.a, [s EXCEPT !.val = Rec.new, !.owe = IF Rec.old # 0 THEN @ \cup {Rec.t} ELSE @])
TWaitDec == /\ IsTe /\ Rec.op = "sub" /\ Consume
            /\ LET s == Get(Rec.a) IN
               /\ Rec.old = s.val /\ Rec.old \in {0, 1} /\ Rec.new = Rec.old - 1
               /\ s.wpc = "idle"                       \* a new wait only starts after the previous one properly returned
               /\ Put(Rec.a, [s EXCEPT !.val = Rec.new, !.w = Rec.t, !.wpc = IF Rec.new = 0 THEN "idle" ELSE "must_load"])
TWaitLoad == /\ IsTe /\ Rec.op = "load" /\ Consume
             /\ LET s == Get(Rec.a) IN
                /\ Rec.old = s.val /\ s.w = Rec.t /\ s.wpc = "must_load"
                /\ Rec.old \in {0, MAXV}                 \* anything else is "Corrupt thread event value"
                /\ Put(Rec.a, [s EXCEPT !.wpc = IF Rec.old = 0 THEN "idle" ELSE "must_futex_wait"])
\* --- futex probes on the same word ---
TFutexWait == /\ IsTf /\ Rec.k = "futex_wait" /\ Consume
              /\ LET s == Get(Rec.a) IN
                 /\ s.w = Rec.t /\ s.wpc = "must_futex_wait" /\ Rec.v = MAXV
                 /\ Put(Rec.a, [s EXCEPT !.wpc = "in_futex"])
TFutexRet == /\ IsTf /\ Rec.k = "futex_wait_ret" /\ Consume
             /\ LET s == Get(Rec.a) IN
                /\ s.w = Rec.t /\ s.wpc = "in_futex"
                /\ Put(Rec.a, [s EXCEPT !.wpc = "must_load"])    \* whatever the return code: re-load the value
TFutexWake == /\ IsTf /\ Rec.k = "futex_wake" /\ Consume
              /\ LET s == Get(Rec.a) IN
                 /\ Rec.t \in s.owe                    \* only a signaller that found a waiter wakes
                 /\ Put(Rec.a, [s EXCEPT !.owe = @ \ {Rec.t}])
TNext == TOther \/ TReset \/ TSignal \/ TWaitDec \/ TWaitLoad \/ TFutexWait \/ TFutexRet \/ TFutexWake
TSpec == TInit /\ [][TNext]_tvars
ValuesOK == \A a \in DOMAIN ev : ev[a].val \in {0, 1, MAXV}
MaxL == IF TLCGet(1) < l THEN TLCSet(1, l) ELSE TRUE
StopWhenAccepted == (l > Len(Tr)) => (PrintT("TRACE_ACCEPTED") /\ TLCSet("exit", TRUE))
Post == PrintT(<<"MAXL", TLCGet(1), Len(Tr)>>)
=============================================================================
