------------------------------- MODULE Cancel -------------------------------
(* Life cycle of ONE dispatch source on the Linux/epoll backend with the manager thread
   (DISPATCH_USE_MGR_THREAD, no direct knotes: EV_UDATA_SPECIFIC == 0), transcribed from
     src/source.c          dispatch_source_cancel, dispatch_source_cancel_and_wait,
                           _dispatch_source_activate/_install/_invoke2/_wakeup/_merge_evt,
                           _dispatch_source_latch_and_call, _dispatch_source_cancel_callout,
                           _dispatch_source_refs_unregister/_finalize_unregistration
     src/event/event.c     _dispatch_unote_register/_resume/_unregister, timer unotes, _dispatch_timers_run
     src/event/event_epoll.c  _dispatch_unote_register_muxed/_resume_muxed/_unregister_muxed,
                           _dispatch_event_merge_fd/_merge_hangup/_merge_signal (EPOLLONESHOT re-arming)
     src/inline_internal.h _dispatch_queue_class_invoke, _dispatch_queue_drain_try_lock/_try_unlock
     src/queue.c           _dispatch_queue_wakeup, _dispatch_queue_invoke_finish, _dispatch_lane_resume,
                           _dispatch_lane_class_barrier_complete
   with ONE ACTION PER SHARED-MEMORY ACCESS to dq_atomic_flags (dqf), du_state (du), ds_pending_data
   (pending), the handler slots, and per RMW of the source's dq_state (abstracted to: drain-lock
   owner, DIRTY, which queue the ENQUEUED bit stands for, inactive / activating / suspend count).

   Source kinds (constant Kind):
     "data"    DISPATCH_SOURCE_TYPE_DATA_ADD/OR/REPLACE: du_is_direct, no kernel registration, kevent queue = target queue
     "timer"   du_is_timer: heap membership == DU_STATE_ARMED, armed/disarmed on the manager, "timers can cheat"
     "fd"      READ/WRITE: muxnote + epoll registration with EPOLLONESHOT, re-armed on the manager, EPOLLHUP -> NEEDS_DELETE
     "signal"  signalfd muxnote in epoll, EV_CLEAR (never disarmed)
   The target queue is an executor with a FIFO list drained by Workers (one at a time when TargetSerial, i.e. a
   serial queue; concurrently for a global queue); the manager is a serial executor ("mgr") that also
   delivers kernel events; the kernel is: a registration (epoll entry) that fires only while it exists
   and is armed.  The registration handler (client code that may merge data into / cancel its own source)
   is called out once on the target queue after installation and before the first event delivery; the
   flags used by the delivery gate are loaded AFTER that callout.

   dispatch_source_set_cancel_handler[_f] on an ACTIVATED source (MaxSets > 0; src/source.c _dispatch_source_set_handler,
   _dispatch_source_set_handler_slow, _dispatch_source_handler_replace; src/queue.c _dispatch_barrier_trysync_or_async_f,
   _dispatch_barrier_async_detached_f, _dispatch_lane_push, _dispatch_lane_serial_drain): the handlers are GENERATIONS
   (the one installed before activation is G0 = 1, the k-th call installs G0 + k, or 0 = NULL: clear).  The call loads the
   flags (diagnostics only: a handler mutation past cancellation is NOT ignored), then either acquires the source's
   barrier when its dq_state is completely idle, exchanges the slot inline and leaves through
   dx_wakeup(BARRIER_COMPLETE), or pushes a barrier item on the source's OWN item list (wakeup(MAKE_DIRTY) when the
   list was empty); _dispatch_source_invoke2 drains that list first, on whatever queue it runs (manager included),
   under the drain lock; _dispatch_source_wakeup's last test (`!tq && _dispatch_queue_class_probe`) and its
   "CANCELED && DELETED && a handler is left" test are what bring a finished source back to its target queue for the
   cancel callout of a handler installed late.  What the code guarantees (and the ghosts judge): every requested
   replacement takes effect; a handler that is in the slot when or after the source is cancelled is invoked exactly
   once unless a later replacement takes it out first; a replaced handler is never invoked after its replacement took
   effect; no handler twice; every cancel callout obeys the old clauses (target queue, no event handler running,
   after unregistration, never followed by an event handler).  The code does NOT guarantee one callout per source: a
   replacement that takes effect after the callout of the previous handler gets its own callout (invariant
   OneCalloutPerSource is refuted on purpose, informational).
   Not modelled: other items submitted to the source itself, handler mutation before activation (the inactive fast path),
   dispatch_source_set_timer after activation (dt_pending_config), retargeting, DQF_RELEASED (last
   release without cancel), QoS/overrides, the +2 reference ledger (C17), registration failure.
   DSF_NEEDS_EVENT (deferred deletion through a kernel EV_DELETE) cannot be produced on this backend:
   _dispatch_unote_unregister always succeeds without direct knotes; the flag is carried so that the
   transcribed tests keep their shape.  Hang-ups use DU_STATE_NEEDS_DELETE (acknowledged on the target queue).

   Property C16 is stated on ghost variables (gh) at HandlerStart / CancelHandlerStart / CawRet. *)
EXTENDS Integers, Sequences, FiniteSets, TLC

CONSTANTS Kind,               \* "data" | "timer" | "fd" | "signal"
          TargetSerial,       \* TRUE: serial target queue; FALSE: global concurrent queue
          Workers,            \* threads that drain the target queue
          HasCancelHandler,   \* a cancel handler is set (then cancel_and_wait is illegal)
          HasRegHandler,      \* a registration handler is set
          RegCancels,         \* ... which may call dispatch_source_cancel on its own source
          RegMerges,          \* ... which may call dispatch_source_merge_data (data sources)
          HandlerCancels,     \* the event handler may call dispatch_source_cancel on itself
          AllowCitem,         \* a work item on the target queue may call dispatch_source_cancel
          MaxForeign,         \* number of dispatch_source_cancel calls from the foreign thread
          AllowCaw,           \* the foreign thread may call dispatch_source_cancel_and_wait
          AllowSuspend,       \* one dispatch_suspend / dispatch_resume pair by the client
          AllowHup,           \* fd: the peer may close (EPOLLHUP)
          MaxEv,              \* bound on kernel events / merges / timer fires
          MaxSets,            \* number of dispatch_source_set_cancel_handler[_f] calls after activation
          SetCtx,             \* contexts they are issued from: subset of {"handler", "foreign", "tqitem"}
          AllowClear,         \* a call may pass NULL (clear the handler)
          HupFix,             \* FALSE: pinned code: _dispatch_source_merge_evt finalizes any unote it finds unregistered
                              \*        (EV_UDATA_SPECIFIC == 0 on this backend, so the guard of that branch is void);
                              \* TRUE: repaired: only for EV_ONESHOT deliveries (never the case for muxed epoll unotes)
          Mut                 \* "none" or a spec mutation (non-vacuity)

NULL == "null"
MGR == "mgr"   CL == "cl"   CC == "cc"
Threads == Workers \cup {MGR, CL, CC}
Flags == {"CANCELED", "NEEDS_EVENT", "DELETED", "CANCEL_WAITER"}
IsTimer == Kind = "timer"
IsDirect == Kind = "data"           \* du_is_direct: only the custom data sources on this backend
IsMuxed == Kind \in {"fd", "signal"}
DKQ == IF IsDirect THEN "tq" ELSE "mgr"    \* the "kevent queue" of _dispatch_source_invoke2 / _wakeup
G0 == IF HasCancelHandler THEN 1 ELSE 0                          \* generation of the handler set before activation
Gens == 1..(G0 + MaxSets)                                        \* 0 = no handler (NULL)
ASSUME MaxSets > 0 => ~AllowCaw                                  \* cancel_and_wait: "Source has a cancel handler" is a client crash
DU0 == [reg |-> FALSE, armed |-> FALSE, ndel |-> FALSE]          \* DU_STATE_UNREGISTERED
DUArmed == [reg |-> TRUE, armed |-> TRUE, ndel |-> FALSE]        \* wlh | DU_STATE_ARMED

(* ---------------- word-level operators (also used by CancelTrace.tla) ---------------- *)
\* dispatch_source_cancel: _dispatch_queue_atomic_flags_set_orig(ds, DSF_CANCELED)
FCancelOr(f) == f \cup {"CANCELED"}
\* dispatch_source_cancel_and_wait, first rmw loop (k: "timer" | "direct" | "muxed")
FCawNew(f, timerOrIndirect) ==
    (f \cup {"CANCELED"}) \cup
    (IF "DELETED" \notin f /\ ("NEEDS_EVENT" \in f \/ timerOrIndirect) THEN {"CANCEL_WAITER"} ELSE {})
FCawGiveUp(f) == "CANCEL_WAITER" \in f
\* _dispatch_source_refs_finalize_unregistration: set DELETED, clear NEEDS_EVENT | CANCEL_WAITER
FFinalize(f) == (f \cup {"DELETED"}) \ {"NEEDS_EVENT", "CANCEL_WAITER"}
\* deferred unregistration (unreachable on epoll): set NEEDS_EVENT unless NEEDS_EVENT | DELETED
FDefer(f) == f \cup {"NEEDS_EVENT"}
FAddWaiter(f) == f \cup {"CANCEL_WAITER"}
\* _du_state_needs_rearm
DuNeedsRearm(d) == d.reg /\ ~d.armed /\ ~d.ndel

VARIABLES src,    \* [dqf, du, installed, pending, hnd, items]     the source object, its refs and its own item list
          lane,   \* [lock, dirty, enq, inactive, activating, susp]  abstraction of the source's dq_state
          exe,    \* [mgrList, tqList, tqOwner]                     executor queues
          kern,   \* [reg, armed, mux, readable, hup, sig]          epoll registration + muxnote + fd state
          pc, lv, \* per thread control point and locals
          cli,    \* [did, ev, fcancels, sets]                      client / environment budgets
          gh      \* ghosts for the property
vars == <<src, lane, exe, kern, pc, lv, cli, gh>>

L0 == [onq |-> "none", dqf |-> {}, ret |-> "none", retq |-> "none", avoid |-> FALSE,
       wkf |-> {}, wdqf |-> {}, wdu |-> DU0, wktq |-> "none", wkret |-> "idle",
       ctx |-> "none", ccont |-> "idle", ucont |-> "idle", tcont |-> "idle", acont |-> "idle", mcont |-> "idle", dcont |-> "idle",
       prev |-> 0, old |-> {}, sg |-> 0, scont |-> "idle", hg |-> 0]

Init ==
    /\ src = [dqf |-> {}, du |-> DU0, installed |-> FALSE, pending |-> 0,
              hnd |-> [ev |-> TRUE, cancel |-> G0, reg |-> HasRegHandler], items |-> <<>>]
    /\ lane = [lock |-> NULL, dirty |-> FALSE, enq |-> "none", inactive |-> TRUE, activating |-> FALSE, susp |-> 0]
    /\ exe = [mgrList |-> FALSE, tqList |-> <<>>, tqOwner |-> NULL]
    /\ kern = [reg |-> FALSE, armed |-> FALSE, mux |-> FALSE, readable |-> FALSE, hup |-> FALSE, sig |-> FALSE]
    /\ pc = [t \in Threads |-> "idle"]
    /\ lv = [t \in Threads |-> L0]
    /\ cli = [did |-> {}, ev |-> 0, fcancels |-> 0, sets |-> 0]
    /\ gh = [hRunning |-> 0, hStarts |-> 0, ownCancel |-> FALSE, foreignOr |-> FALSE, lateStarts |-> 0,
             chStarts |-> 0, chEnds |-> 0, cawRet |-> FALSE, startsAfterCaw |-> 0, runningAtCawRet |-> FALSE,
             regStarts |-> 0, regRunning |-> 0, bad |-> "",
             chS |-> [g \in Gens |-> 0], chE |-> [g \in Gens |-> 0],      \* starts / ends per handler generation
             req |-> {}, inst |-> (IF HasCancelHandler THEN {1} ELSE {}), repl |-> {}]   \* requested / put in the slot / taken out by a replacement

Suspended == lane.inactive \/ lane.activating \/ lane.susp > 0     \* DISPATCH_QUEUE_IS_SUSPENDED
Go(t, l) == pc' = [pc EXCEPT ![t] = l]
Set(t, l, r) == pc' = [pc EXCEPT ![t] = l] /\ lv' = [lv EXCEPT ![t] = r]
Bad(s) == gh' = [gh EXCEPT !.bad = IF @ = "" THEN s ELSE @]
Push(e, q) == IF q = "mgr" THEN [e EXCEPT !.mgrList = TRUE] ELSE [e EXCEPT !.tqList = Append(@, "src")]
InCaw == pc[CC] \notin {"idle"} /\ lv[CC].ctx = "caw"

(* =========================== wakeup (subroutine) =========================== *)
\* dx_wakeup(ds, qos, flags): flags is a subset of {"dirty" (MAKE_DIRTY), "event" (WAKEUP_EVENT), "bc" (BARRIER_COMPLETE)}
Wake(t, flags, retpc) == Set(t, "wk_r1", [lv[t] EXCEPT !.wkf = flags, !.wkret = retpc])

\* _dispatch_source_wakeup: dqf = _dispatch_queue_atomic_flags(ds); du_state = _dispatch_unote_state(dr)
WkRead1(t) == /\ pc[t] = "wk_r1"
              /\ Set(t, "wk_r2", [lv[t] EXCEPT !.wdqf = src.dqf, !.wdu = src.du])
              /\ UNCHANGED <<src, lane, exe, kern, cli, gh>>
\* the chain of tests (same order as in _dispatch_source_invoke2)
WakeTarget0(f, d, flags) ==
    IF ~src.installed THEN DKQ
    ELSE IF src.hnd.reg THEN "tq"                                    \* the registration handler needs to be delivered
    ELSE IF d.ndel THEN "tq"
    ELSE IF "CANCELED" \notin f /\ src.pending # 0 THEN "tq"
    ELSE IF "CANCELED" \in f /\ "DELETED" \notin f THEN
         (IF IsTimer /\ ~src.du.armed THEN "tq"                       \* timers can cheat if not armed
          ELSE IF "NEEDS_EVENT" \in f /\ "event" \notin flags THEN "none"
          ELSE DKQ)
    ELSE IF "CANCELED" \in f /\ "DELETED" \in f /\ (src.hnd.ev \/ src.hnd.cancel # 0 \/ src.hnd.reg)
                 /\ Mut # "final_wakeup_ignores_handlers" THEN "tq"
    ELSE IF "CANCELED" \notin f /\ DuNeedsRearm(src.du) THEN DKQ
    ELSE "none"
\* if (!tq && _dispatch_queue_class_probe(ds)) tq = DISPATCH_QUEUE_WAKEUP_TARGET
WakeTarget(f, d, flags) ==
    LET w == WakeTarget0(f, d, flags) IN
    IF w = "none" /\ src.items # <<>> /\ Mut # "wakeup_ignores_items" THEN "tq" ELSE w
WkRead2(t) == /\ pc[t] = "wk_r2"
              /\ Set(t, "wk_rmw", [lv[t] EXCEPT !.wktq = WakeTarget(lv[t].wdqf, lv[t].wdu, lv[t].wkf)])
              /\ UNCHANGED <<src, lane, exe, kern, cli, gh>>
\* _dispatch_queue_wakeup: the dq_state rmw loop (+ push), or _dispatch_lane_class_barrier_complete
WkDone(t) == Set(t, lv[t].wkret, [lv[t] EXCEPT !.wkf = {}, !.wdqf = {}, !.wdu = DU0, !.wktq = "none", !.wkret = "idle"])
WkRmw(t) ==
    /\ pc[t] = "wk_rmw"
    /\ LET q == lv[t].wktq IN
       IF "bc" \in lv[t].wkf THEN
            \* the caller owns the drain lock (cancel_and_wait try-lock path)
            IF Suspended THEN /\ lane' = [lane EXCEPT !.lock = NULL] /\ exe' = exe /\ WkDone(t)
            ELSE IF q # "none" THEN
                 /\ lane' = [lane EXCEPT !.lock = NULL, !.enq = IF @ = "none" THEN q ELSE @]
                 /\ exe' = IF lane.enq = "none" THEN Push(exe, q) ELSE exe
                 /\ WkDone(t)
            ELSE IF lane.dirty THEN /\ UNCHANGED <<lane, exe>> /\ Go(t, "wk_bcxor") /\ lv' = lv
            ELSE /\ lane' = [lane EXCEPT !.lock = NULL] /\ exe' = exe /\ WkDone(t)
       ELSE IF q # "none" THEN
            LET canEnq == ~Suspended /\ lane.enq = "none" /\ lane.lock = NULL IN
            /\ lane' = [lane EXCEPT !.enq = IF canEnq THEN q ELSE @, !.dirty = @ \/ "dirty" \in lv[t].wkf]
            /\ exe' = IF canEnq THEN Push(exe, q) ELSE exe
            /\ WkDone(t)
       ELSE /\ UNCHANGED <<lane, exe>> /\ WkDone(t)
    /\ UNCHANGED <<src, kern, cli, gh>>
\* give-up of barrier_complete: os_atomic_xor2o(dq_state, DIRTY); dx_wakeup again
WkBcXor(t) == /\ pc[t] = "wk_bcxor" /\ lane' = [lane EXCEPT !.dirty = FALSE] /\ Go(t, "wk_r1")
              /\ UNCHANGED <<src, exe, kern, lv, cli, gh>>

(* ================= unregistration (subroutine; continuation lv.ucont) ================= *)
\* _dispatch_source_refs_unregister -> _dispatch_unote_unregister
UUnreg(t) ==
    /\ pc[t] = "u_unreg"
    /\ IF ~src.du.reg THEN UNCHANGED <<src, kern>> /\ Go(t, "u_final")
       ELSE IF IsMuxed THEN
            \* _dispatch_unote_unregister_muxed: unlink, last unote: epoll_ctl(DEL), muxnote disposed
            /\ kern' = [kern EXCEPT !.reg = IF Mut = "keep_epoll" THEN @ ELSE FALSE, !.armed = FALSE, !.mux = FALSE]
            /\ src' = src /\ Go(t, "u_du")
       ELSE \* data: state store only; timer: heap removal when armed (+2 released), state store
            /\ src' = [src EXCEPT !.du = DU0] /\ kern' = kern /\ Go(t, "u_final")
    /\ UNCHANGED <<lane, exe, lv, cli, gh>>
UDu(t) == /\ pc[t] = "u_du" /\ src' = [src EXCEPT !.du = DU0] /\ Go(t, "u_final")
          /\ UNCHANGED <<lane, exe, kern, lv, cli, gh>>
\* _dispatch_source_refs_finalize_unregistration: set_and_clear_orig; crash if DELETED; wake the waiters
UFinal(t) ==
    /\ pc[t] = "u_final"
    /\ IF "DELETED" \in src.dqf
       THEN /\ Bad("source_finalized_twice") /\ src' = src /\ pc' = [pc EXCEPT ![t] = lv[t].ucont]
       ELSE /\ src' = [src EXCEPT !.dqf = FFinalize(@)] /\ gh' = gh
            /\ pc' = [p \in Threads |->
                        IF p = t THEN lv[t].ucont
                        ELSE IF pc[p] = "caw_sleep" /\ "CANCEL_WAITER" \in src.dqf /\ Mut # "no_waiter_wake"
                             THEN "caw_wait0" ELSE pc[p]]
    /\ UNCHANGED <<lane, exe, kern, lv, cli>>

(* ============================ dispatch_source_cancel ============================ *)
\* entered with lv.ctx in {"handler", "tqitem", "foreign"} and lv.ccont
COr(t) ==
    /\ pc[t] = "c_or"
    /\ src' = [src EXCEPT !.dqf = FCancelOr(@)]
    /\ gh' = [gh EXCEPT !.foreignOr = @ \/ lv[t].ctx \in {"foreign", "tqitem"},
                        !.ownCancel = @ \/ lv[t].ctx \in {"handler", "reghandler"} \/ (lv[t].ctx = "tqitem" /\ TargetSerial)]
    /\ IF "CANCELED" \in src.dqf THEN Go(t, lv[t].ccont) /\ lv' = lv
       ELSE Wake(t, {"dirty"}, lv[t].ccont)
    /\ UNCHANGED <<lane, exe, kern, cli>>

(* ============ dispatch_source_set_cancel_handler[_f] on an activated source (subroutine; continuation lv.scont) ============ *)
\* the client's call: the next generation, or NULL
NextGen == G0 + cli.sets + 1
SetOps == {"set"} \cup (IF AllowClear THEN {"clear"} ELSE {})
SetCall(t, base, cont) ==
    \E op \in SetOps :
       LET g == IF op = "set" THEN NextGen ELSE 0 IN
       /\ cli' = [cli EXCEPT !.sets = @ + 1]
       /\ gh' = [gh EXCEPT !.req = IF g # 0 THEN @ \cup {g} ELSE @]
       /\ Set(t, "s_dqf", [base EXCEPT !.sg = g, !.scont = cont])
\* _dispatch_source_handler_replace: xchg of ds_handler[DS_CANCEL_HANDLER]; the previous continuation is disposed
Replace(s, g) == [s EXCEPT !.hnd = [@ EXCEPT !.cancel = g]]
GhReplace(g) == [gh EXCEPT !.inst = IF g # 0 THEN @ \cup {g} ELSE @,
                           !.repl = IF src.hnd.cancel # 0 THEN @ \cup {src.hnd.cancel} ELSE @]
SRet(t) == Set(t, lv[t].scont, [lv[t] EXCEPT !.sg = 0, !.scont = "idle"])
\* _dispatch_source_set_handler: dc = _dispatch_source_handler_alloc(); _dispatch_lane_try_inactive_suspend(ds) gives up (the
\* source is not inactive); dqf = _dispatch_queue_atomic_flags(ds): DSF_STRICT -> client crash; "Ignore handlers mutations past
\* cancelation, it's harmless" guards the deprecation DIAGNOSTICS only
\* (Mut "set_dropped_when_canceled": ... taken literally: the continuation is disposed and the call returns)
SDqf(t) == /\ pc[t] = "s_dqf"
           /\ IF Mut = "set_dropped_when_canceled" /\ "CANCELED" \in src.dqf THEN SRet(t)
              ELSE Go(t, "s_try") /\ lv' = lv
           /\ UNCHANGED <<src, lane, exe, kern, cli, gh>>
\* _dispatch_barrier_trysync_or_async_f(ds, dc, _dispatch_source_set_handler_slow, 0):
\* _dispatch_queue_try_acquire_barrier_sync_and_suspend: one cmpxchg from the `completely idle` dq_state (no owner, not
\* enqueued, not dirty, not suspended) to { ib:1, qf:1, owner = self }; dq_items_tail is NOT consulted
LaneIdle == lane.lock = NULL /\ ~lane.dirty /\ lane.enq = "none" /\ ~Suspended
STry(t) == /\ pc[t] = "s_try"
           /\ IF LaneIdle THEN lane' = [lane EXCEPT !.lock = t] /\ Go(t, "s_repl")
              ELSE lane' = lane /\ Go(t, "s_push")
           /\ UNCHANGED <<src, exe, kern, lv, cli, gh>>
\* _dispatch_barrier_trysync_or_async_f_complete: _dispatch_source_set_handler_slow inline (xchg of the slot, the old
\* continuation is disposed), then dx_wakeup(ds, 0, DISPATCH_WAKEUP_BARRIER_COMPLETE)
SRepl(t) == /\ pc[t] = "s_repl" /\ src' = Replace(src, lv[t].sg) /\ gh' = GhReplace(lv[t].sg)
            /\ Set(t, "wk_r1", [lv[t] EXCEPT !.wkf = {"bc"}, !.wkret = lv[t].scont, !.sg = 0, !.scont = "idle"])
            /\ UNCHANGED <<lane, exe, kern, cli>>
\* _dispatch_barrier_async_detached_f -> _dispatch_lane_push: tail exchange + link; the list was empty:
\* dx_wakeup(MAKE_DIRTY | CONSUME_2); otherwise nothing (no QoS overrides in this configuration)
SPush(t) == /\ pc[t] = "s_push"
            /\ src' = [src EXCEPT !.items = Append(@, lv[t].sg)]
            /\ IF src.items = <<>>
               THEN Set(t, "wk_r1", [lv[t] EXCEPT !.wkf = {"dirty"}, !.wkret = lv[t].scont, !.sg = 0, !.scont = "idle"])
               ELSE SRet(t)
            /\ UNCHANGED <<lane, exe, kern, cli, gh>>

(* ================================ activation ================================ *)
\* dispatch_activate -> _dispatch_lane_resume(ds, true): { sc:0 i:1 na:1 } -> { sc:1 i:0 na:0 }
ActRmw(t) ==
    /\ pc[t] = "act_rmw"
    /\ IF lane.inactive /\ lane.susp = 0
       THEN lane' = [lane EXCEPT !.inactive = FALSE, !.activating = TRUE] /\ Go(t, "act_final")
       ELSE lane' = lane /\ Go(t, lv[t].acont)          \* already active: no-op
    /\ UNCHANGED <<src, exe, kern, lv, cli, gh>>
\* _dispatch_source_activate: if (dqf & DSF_CANCELED) { installed = true; finalize_unregistration }
ActFinal(t) ==
    /\ pc[t] = "act_final"
    /\ IF "CANCELED" \in src.dqf
       THEN /\ src' = [src EXCEPT !.installed = TRUE]
            /\ Set(t, "u_final", [lv[t] EXCEPT !.ucont = "act_res"])
       ELSE /\ src' = src /\ Go(t, "act_inst") /\ lv' = lv
    /\ UNCHANGED <<lane, exe, kern, cli, gh>>
\* direct and timer unotes are installed at activation when the priority could be computed
\* (_dispatch_queue_compute_priority_and_wlh != 0), otherwise later on the kevent queue
Register(s) == [s EXCEPT !.installed = TRUE, !.du = IF IsTimer THEN [reg |-> TRUE, armed |-> FALSE, ndel |-> FALSE] ELSE DUArmed]
ActInst(t) ==
    /\ pc[t] = "act_inst"
    /\ \/ /\ (IsDirect \/ IsTimer) /\ ~src.installed /\ src' = Register(src)
       \/ src' = src
    /\ Go(t, "act_res")
    /\ UNCHANGED <<lane, exe, kern, lv, cli, gh>>
\* _dispatch_lane_resume(ds, false): drop the activation's suspend count, then wake up
ActRes(t) ==
    /\ pc[t] = "act_res"
    /\ IF lane.susp > 0 THEN lane' = [lane EXCEPT !.activating = FALSE] /\ Go(t, lv[t].acont) /\ lv' = lv
       ELSE IF lane.lock # NULL THEN lane' = [lane EXCEPT !.activating = FALSE, !.dirty = TRUE] /\ Go(t, lv[t].acont) /\ lv' = lv
       ELSE lane' = [lane EXCEPT !.activating = FALSE] /\ Wake(t, {}, lv[t].acont)
    /\ UNCHANGED <<src, exe, kern, cli, gh>>

(* =================== _dispatch_queue_class_invoke + _dispatch_source_invoke2 =================== *)
Own(t) == IF lv[t].onq = "mgr" THEN "mgr" ELSE "tq"
Rel(e, t) == [e EXCEPT !.tqOwner = IF @ = t THEN NULL ELSE @]
Done(t) == /\ pc[t] = "done"
           /\ exe' = [exe EXCEPT !.tqOwner = IF @ = t THEN NULL ELSE @]
           /\ Set(t, "idle", L0)
           /\ UNCHANGED <<src, lane, kern, cli, gh>>
\* _dispatch_queue_drain_try_lock (DISPATCH_INVOKE_MANAGER_DRAIN dequeues ENQUEUED_ON_MGR, else ENQUEUED)
InvLock(t) ==
    /\ pc[t] = "inv_lock"
    /\ IF ~Suspended /\ lane.lock = NULL /\ ~(lv[t].onq = "tq" /\ lane.enq = "mgr")
       THEN /\ lane' = [lane EXCEPT !.lock = t, !.dirty = FALSE] /\ exe' = exe
            /\ Set(t, IF MaxSets = 0 THEN "i_inst" ELSE "i_drain", [lv[t] EXCEPT !.retq = "none", !.avoid = FALSE])
       ELSE lane' = [lane EXCEPT !.enq = IF @ = Own(t) THEN "none" ELSE @] /\ Set(t, "idle", L0) /\ exe' = Rel(exe, t)
    /\ UNCHANGED <<src, kern, cli, gh>>
Ret(t, r) == Set(t, "inv_fin", [lv[t] EXCEPT !.ret = r])
\* if (_dispatch_queue_class_probe(ds)) retq = _dispatch_lane_serial_drain(ds, ...)  ("intentionally always drain even when
\* on the manager queue"); _dispatch_lane_drain: stop (retq = target) when the source is suspended, else pop the head and
\* invoke it: _dispatch_source_set_handler_slow -> _dispatch_source_handler_replace
IDrain(t) ==
    /\ pc[t] = "i_drain"
    /\ IF src.items = <<>> THEN Go(t, "i_inst") /\ lv' = lv
       ELSE IF Suspended THEN Set(t, "i_inst", [lv[t] EXCEPT !.retq = "tq"])
       ELSE Go(t, "i_pop") /\ lv' = lv
    /\ UNCHANGED <<src, lane, exe, kern, cli, gh>>
IPop(t) == /\ pc[t] = "i_pop" /\ src' = [src EXCEPT !.items = Tail(@)]
           /\ Set(t, "i_drepl", [lv[t] EXCEPT !.sg = Head(src.items)])
           /\ UNCHANGED <<lane, exe, kern, cli, gh>>
IDrepl(t) == /\ pc[t] = "i_drepl" /\ src' = Replace(src, lv[t].sg) /\ gh' = GhReplace(lv[t].sg)
             /\ Set(t, "i_drain", [lv[t] EXCEPT !.sg = 0])
             /\ UNCHANGED <<lane, exe, kern, cli>>
\* if (!ds->ds_is_installed) { if (dq != dkq) return dkq; _dispatch_source_install }
IInst(t) ==
    /\ pc[t] = "i_inst"
    /\ IF src.installed THEN Go(t, "i_susp") /\ lv' = lv
       ELSE IF lv[t].onq # DKQ THEN Ret(t, DKQ)
       ELSE Go(t, "i_install") /\ lv' = lv
    /\ UNCHANGED <<src, lane, exe, kern, cli, gh>>
\* _dispatch_unote_register: data -> ARMED; timer -> registered, not armed; muxed -> muxnote + EPOLL_CTL_ADD, ARMED
IInstall(t) ==
    /\ pc[t] = "i_install"
    /\ src' = Register(src)
    /\ kern' = IF IsMuxed THEN [kern EXCEPT !.reg = TRUE, !.armed = TRUE, !.mux = TRUE] ELSE kern
    /\ Go(t, "i_susp")
    /\ UNCHANGED <<lane, exe, lv, cli, gh>>
\* if (DISPATCH_QUEUE_IS_SUSPENDED(ds)) return ds->do_targetq
\* (Mut "stale_flags_after_registration": the flags load is hoisted to here, before the registration callout)
ISusp(t) == /\ pc[t] = "i_susp"
            /\ IF Suspended THEN Ret(t, "tq")
               ELSE Set(t, "i_regh", [lv[t] EXCEPT !.dqf = IF Mut = "stale_flags_after_registration" THEN src.dqf ELSE @])
            /\ UNCHANGED <<src, lane, exe, kern, cli, gh>>
\* if (_dispatch_source_get_registration_handler(dr)) { if (dq != target) return target; registration_callout }
IRegh(t) == /\ pc[t] = "i_regh"
            /\ IF ~src.hnd.reg THEN Go(t, "i_ndel") /\ lv' = lv
               ELSE IF lv[t].onq # "tq" THEN Ret(t, "tq")
               ELSE Go(t, "r_take") /\ lv' = lv
            /\ UNCHANGED <<src, lane, exe, kern, cli, gh>>
\* _dispatch_source_registration_callout: take the handler; no callout if (plain read) CANCELED
RTake(t) == /\ pc[t] = "r_take"
            /\ src' = [src EXCEPT !.hnd = [@ EXCEPT !.reg = FALSE]]
            /\ Go(t, IF "CANCELED" \in src.dqf THEN "i_ndel" ELSE "r_start")
            /\ UNCHANGED <<lane, exe, kern, lv, cli, gh>>
RStart(t) ==
    /\ pc[t] = "r_start"
    /\ gh' = [gh EXCEPT !.regStarts = IF @ < 2 THEN @ + 1 ELSE @, !.regRunning = 1,
                        !.bad = IF @ # "" THEN @
                                ELSE IF gh.regStarts >= 1 THEN "registration_handler_invoked_twice"
                                ELSE IF gh.hStarts > 0 \/ gh.hRunning > 0 THEN "registration_handler_after_event_delivery"
                                ELSE IF gh.chStarts > 0 THEN "registration_handler_after_cancel_handler"
                                ELSE IF lv[t].onq # "tq" THEN "registration_handler_not_on_target_queue"
                                ELSE ""]
    /\ Go(t, "r_body")
    /\ UNCHANGED <<src, lane, exe, kern, lv, cli>>
\* client code: may merge data into its own source, may cancel it (own context), in any order, each once
RBody(t) ==
    /\ pc[t] = "r_body"
    /\ \/ /\ RegMerges /\ Kind = "data" /\ "rmerge" \notin cli.did
          /\ cli' = [cli EXCEPT !.did = @ \cup {"rmerge"}]
          /\ IF "CANCELED" \in src.dqf THEN UNCHANGED <<pc, lv>>
             ELSE Set(t, "md_add", [lv[t] EXCEPT !.dcont = "r_body"])
       \/ /\ RegCancels /\ "rcancel" \notin cli.did
          /\ cli' = [cli EXCEPT !.did = @ \cup {"rcancel"}]
          /\ Set(t, "c_or", [lv[t] EXCEPT !.ctx = "reghandler", !.ccont = "r_body"])
       \/ /\ Go(t, "r_end") /\ lv' = lv /\ cli' = cli
    /\ UNCHANGED <<src, lane, exe, kern, gh>>
REnd(t) == /\ pc[t] = "r_end" /\ gh' = [gh EXCEPT !.regRunning = 0] /\ Go(t, "i_ndel")
           /\ UNCHANGED <<src, lane, exe, kern, lv, cli>>
\* if (_dispatch_unote_needs_delete(dr)) _dispatch_source_refs_unregister(ds, DELETE_ACK | MUST_SUCCEED)
INdel(t) == /\ pc[t] = "i_ndel"
            /\ IF src.du.ndel THEN Set(t, "u_unreg", [lv[t] EXCEPT !.ucont = "i_dqf"])
               ELSE Go(t, IF Mut = "stale_flags_after_registration" THEN "i_pend" ELSE "i_dqf") /\ lv' = lv
            /\ UNCHANGED <<src, lane, exe, kern, cli, gh>>
\* dqf = _dispatch_queue_atomic_flags(ds)      (after the registration callout: the delivery gate must see its cancel)
IDqf(t) == /\ pc[t] = "i_dqf" /\ Set(t, "i_pend", [lv[t] EXCEPT !.dqf = src.dqf])
           /\ UNCHANGED <<src, lane, exe, kern, cli, gh>>
\* if (!(dqf & CANCELED) && ds_pending_data) { if (dq == target) latch_and_call else return target }
IPend(t) ==
    /\ pc[t] = "i_pend"
    /\ IF ("CANCELED" \notin lv[t].dqf \/ Mut = "no_cancel_check") /\ src.pending # 0
       THEN IF lv[t].onq = "tq" THEN Go(t, "l_xchg") /\ lv' = lv ELSE Ret(t, "tq")
       ELSE Go(t, "i_cancel") /\ lv' = lv
    /\ UNCHANGED <<src, lane, exe, kern, cli, gh>>
\* _dispatch_source_latch_and_call: dc = event handler; prev = xchg(ds_pending_data, 0)
LXchg(t) ==
    /\ pc[t] = "l_xchg"
    /\ src' = [src EXCEPT !.pending = 0]
    /\ IF src.pending # 0 /\ src.hnd.ev THEN Go(t, "h_start") ELSE Go(t, "l_dqf2")
    /\ UNCHANGED <<lane, exe, kern, lv, cli, gh>>
\* ---- the event handler callout ----
HStart(t) ==
    /\ pc[t] = "h_start"
    /\ gh' = [gh EXCEPT
          !.hRunning = @ + 1, !.hStarts = IF @ < 1 THEN @ + 1 ELSE @,      \* counters saturate: finite state space
          !.lateStarts = IF gh.foreignOr /\ @ < 2 THEN @ + 1 ELSE @,
          !.startsAfterCaw = IF gh.cawRet /\ @ < 2 THEN @ + 1 ELSE @,
          !.bad = IF @ # "" THEN @
                  ELSE IF gh.ownCancel THEN "handler_started_after_cancel_from_own_context"
                  ELSE IF gh.foreignOr /\ gh.lateStarts >= 1 THEN "second_handler_start_after_foreign_cancel"
                  ELSE IF gh.chStarts > 0 THEN "handler_started_after_cancel_handler"
                  ELSE IF gh.hRunning > 0 THEN "handler_reentered"
                  ELSE IF gh.regRunning > 0 THEN "handler_during_registration_handler"
                  ELSE IF lv[t].onq # "tq" THEN "handler_not_on_target_queue"
                  ELSE ""]
    /\ Go(t, "h_body")
    /\ UNCHANGED <<src, lane, exe, kern, lv, cli>>
\* (with "handler" \in SetCtx the handler may also call dispatch_source_set_cancel_handler, before or after its cancel)
HBody(t) ==
    /\ pc[t] = "h_body"
    /\ \/ /\ HandlerCancels /\ "hcancel" \notin cli.did
          /\ cli' = [cli EXCEPT !.did = @ \cup {"hcancel"}]
          /\ Set(t, "c_or", [lv[t] EXCEPT !.ctx = "handler", !.ccont = IF "handler" \in SetCtx THEN "h_body" ELSE "h_end"])
          /\ kern' = kern /\ gh' = gh
       \/ /\ "handler" \in SetCtx /\ cli.sets < MaxSets
          /\ SetCall(t, lv[t], "h_body")
          /\ kern' = kern
       \/ /\ Go(t, "h_end") /\ lv' = lv /\ cli' = cli /\ gh' = gh
          /\ \/ kern' = kern
             \/ Kind = "fd" /\ kern.readable /\ kern' = [kern EXCEPT !.readable = FALSE]    \* the handler read the data
    /\ UNCHANGED <<src, lane, exe>>
HEnd(t) == /\ pc[t] = "h_end" /\ gh' = [gh EXCEPT !.hRunning = @ - 1] /\ Go(t, "l_dqf2")
           /\ UNCHANGED <<src, lane, exe, kern, lv, cli>>
\* dqf = _dispatch_queue_atomic_flags(ds); avoid_starvation unless cancelled / deleted
LDqf2(t) ==
    /\ pc[t] = "l_dqf2"
    /\ Set(t, "l_pend2", [lv[t] EXCEPT !.dqf = src.dqf, !.avoid = ("CANCELED" \notin src.dqf /\ "DELETED" \notin src.dqf)])
    /\ UNCHANGED <<src, lane, exe, kern, cli, gh>>
LPend2(t) ==
    /\ pc[t] = "l_pend2"
    /\ Set(t, "i_cancel", [lv[t] EXCEPT !.retq = IF lv[t].avoid /\ src.pending # 0 THEN "tq" ELSE @])
    /\ UNCHANGED <<src, lane, exe, kern, cli, gh>>
\* if ((dqf & CANCELED) && !(dqf & DELETED)) { timers cheat | hop to dkq; unregister; re-read dqf }
ICancel(t) ==
    /\ pc[t] = "i_cancel"
    /\ IF "CANCELED" \in lv[t].dqf /\ "DELETED" \notin lv[t].dqf /\ ~(Mut = "callout_before_unreg" /\ lv[t].onq = "tq")
       THEN IF (IsTimer /\ ~src.du.armed) \/ lv[t].onq = DKQ
            THEN Set(t, "u_unreg", [lv[t] EXCEPT !.ucont = "i_dqf3"])
            ELSE Ret(t, DKQ)
       ELSE Go(t, "i_callout") /\ lv' = lv
    /\ UNCHANGED <<src, lane, exe, kern, cli, gh>>
IDqf3(t) ==
    /\ pc[t] = "i_dqf3"
    /\ IF "DELETED" \notin src.dqf
       THEN Ret(t, IF lv[t].retq # "none" THEN lv[t].retq ELSE "wait")      \* wait for the EV_DELETE
       ELSE Set(t, "i_callout", [lv[t] EXCEPT !.dqf = src.dqf])
    /\ UNCHANGED <<src, lane, exe, kern, cli, gh>>
\* if ((dqf & CANCELED) && (dqf & DELETED)) { off target with handlers left: retq = target; else cancel_callout }
CalloutCond(f) == "CANCELED" \in f /\ ("DELETED" \in f \/ Mut = "callout_before_unreg")
ICallout(t) ==
    /\ pc[t] = "i_callout"
    /\ IF CalloutCond(lv[t].dqf)
       THEN IF lv[t].onq # "tq" /\ (src.hnd.ev \/ src.hnd.cancel # 0 \/ src.hnd.reg) /\ Mut # "callout_on_mgr"
            THEN Set(t, "i_rearm", [lv[t] EXCEPT !.retq = "tq", !.avoid = FALSE])
            ELSE Set(t, "cc_take", [lv[t] EXCEPT !.avoid = FALSE, !.tcont = "cc_done"])
       ELSE Go(t, "i_rearm") /\ lv' = lv
    /\ UNCHANGED <<src, lane, exe, kern, cli, gh>>
\* _dispatch_source_cancel_callout: take the cancel handler, zero the data, free the other handlers
CcTake(t) ==
    /\ pc[t] = "cc_take"
    /\ src' = [src EXCEPT !.hnd = [ev |-> FALSE, cancel |-> IF Mut = "handler_not_taken" THEN @.cancel ELSE 0, reg |-> FALSE],
                          !.pending = 0]
    /\ IF src.hnd.cancel # 0 /\ "CANCELED" \in src.dqf THEN Set(t, "ch_start", [lv[t] EXCEPT !.hg = src.hnd.cancel])
       ELSE Go(t, lv[t].tcont) /\ lv' = lv
    /\ UNCHANGED <<lane, exe, kern, cli, gh>>
ChStart(t) ==
    /\ pc[t] = "ch_start"
    /\ gh' = [gh EXCEPT
          !.chStarts = IF @ < 2 THEN @ + 1 ELSE @,
          !.chS = [@ EXCEPT ![lv[t].hg] = IF @ < 2 THEN @ + 1 ELSE @],
          !.bad = IF @ # "" THEN @
                  ELSE IF gh.chS[lv[t].hg] >= 1 THEN "cancel_handler_invoked_twice"
                  ELSE IF MaxSets = 0 /\ gh.chStarts >= 1 THEN "cancel_handler_invoked_twice"
                  ELSE IF lv[t].hg \in gh.repl THEN "replaced_cancel_handler_invoked"
                  ELSE IF lv[t].onq # "tq" THEN "cancel_handler_not_on_target_queue"
                  ELSE IF gh.hRunning > 0 THEN "cancel_handler_while_event_handler_running"
                  ELSE IF kern.reg \/ kern.mux \/ src.du.reg THEN "cancel_handler_before_unregistration"
                  ELSE IF ~({"CANCELED", "DELETED"} \subseteq src.dqf) THEN "cancel_handler_before_deleted"
                  ELSE ""]
    /\ Go(t, "ch_end")
    /\ UNCHANGED <<src, lane, exe, kern, lv, cli>>
ChEnd(t) == /\ pc[t] = "ch_end"
            /\ gh' = [gh EXCEPT !.chEnds = IF @ < 2 THEN @ + 1 ELSE @, !.chE = [@ EXCEPT ![lv[t].hg] = IF @ < 2 THEN @ + 1 ELSE @]]
            /\ Set(t, lv[t].tcont, [lv[t] EXCEPT !.hg = 0])
            /\ UNCHANGED <<src, lane, exe, kern, cli>>
CcDone(t) == /\ pc[t] = "cc_done" /\ Set(t, "i_rearm", [lv[t] EXCEPT !.dqf = src.dqf])
             /\ UNCHANGED <<src, lane, exe, kern, cli, gh>>
\* if (!(dqf & CANCELED) && needs_rearm) { hop to dkq; suspended -> target; avoid_starvation -> target; resume }
IRearm(t) ==
    /\ pc[t] = "i_rearm"
    /\ IF "CANCELED" \notin lv[t].dqf /\ DuNeedsRearm(src.du)
       THEN IF lv[t].onq # DKQ THEN Ret(t, DKQ)
            ELSE IF Suspended THEN Ret(t, "tq")
            ELSE IF lv[t].avoid THEN Ret(t, "tq")
            ELSE Go(t, "i_resume") /\ lv' = lv
       ELSE Ret(t, lv[t].retq)
    /\ UNCHANGED <<src, lane, exe, kern, cli, gh>>
\* _dispatch_unote_resume: muxed: EPOLL_CTL_MOD when disarmed (du_state is NOT touched);
\* timer: arm (heap insert, +2) unless suspended
IResume(t) ==
    /\ pc[t] = "i_resume"
    /\ IF IsTimer THEN /\ src' = [src EXCEPT !.du = IF ~Suspended THEN [@ EXCEPT !.armed = TRUE] ELSE @] /\ kern' = kern
       ELSE /\ kern' = (IF kern.mux /\ kern.reg THEN [kern EXCEPT !.armed = TRUE] ELSE kern) /\ src' = src
    /\ Ret(t, lv[t].retq)
    /\ UNCHANGED <<lane, exe, cli, gh>>
\* back in _dispatch_queue_class_invoke
InvFin(t) ==
    /\ pc[t] = "inv_fin"
    /\ IF lv[t].ret \in {"tq", "mgr"}
       THEN \* _dispatch_queue_invoke_finish: unlock, DIRTY, re-enqueue on ret unless suspended
            /\ lane' = [lane EXCEPT !.lock = NULL, !.dirty = TRUE, !.enq = IF Suspended THEN "none" ELSE lv[t].ret]
            /\ exe' = Rel(IF Suspended THEN exe ELSE Push(exe, lv[t].ret), t)
            /\ Set(t, "idle", L0)
       ELSE \* _dispatch_queue_drain_try_unlock(dq, owned, ret == NONE)
            IF Suspended THEN /\ lane' = [lane EXCEPT !.lock = NULL, !.enq = "none"] /\ exe' = Rel(exe, t) /\ Set(t, "idle", L0)
            ELSE IF lane.dirty THEN /\ UNCHANGED <<lane, exe, lv>> /\ Go(t, "inv_xor")
            ELSE /\ lane' = [lane EXCEPT !.lock = NULL, !.enq = "none", !.dirty = (lv[t].ret = "wait")]
                 /\ exe' = Rel(exe, t) /\ Set(t, "idle", L0)
    /\ UNCHANGED <<src, kern, cli, gh>>
\* os_atomic_xor2o(dq_state, DIRTY): on a root queue run invoke2 again, else re-enqueue on the current queue
InvXor(t) ==
    /\ pc[t] = "inv_xor"
    /\ lane' = [lane EXCEPT !.dirty = FALSE]
    /\ IF lv[t].onq = "tq" /\ ~TargetSerial
       THEN Set(t, IF MaxSets = 0 THEN "i_inst" ELSE "i_drain", [lv[t] EXCEPT !.retq = "none", !.avoid = FALSE])
       ELSE Ret(t, Own(t))
    /\ UNCHANGED <<src, exe, kern, cli, gh>>

(* ============================ executors ============================ *)
PopTq(w) ==
    /\ pc[w] = "idle" /\ exe.tqList # <<>> /\ (TargetSerial => exe.tqOwner = NULL)
    /\ exe' = [exe EXCEPT !.tqList = Tail(@), !.tqOwner = IF TargetSerial THEN w ELSE NULL]
    /\ IF Head(exe.tqList) = "src" THEN Set(w, "inv_lock", [L0 EXCEPT !.onq = "tq"]) /\ UNCHANGED <<cli, gh>>
       ELSE IF Head(exe.tqList) = "citem"
            THEN Set(w, "c_or", [L0 EXCEPT !.onq = "tq", !.ctx = "tqitem", !.ccont = "done"]) /\ UNCHANGED <<cli, gh>>
       ELSE IF cli.sets < MaxSets THEN SetCall(w, [L0 EXCEPT !.onq = "tq", !.ctx = "tqitem"], "done")     \* "sitem"
       ELSE Set(w, "done", [L0 EXCEPT !.onq = "tq"]) /\ UNCHANGED <<cli, gh>>
    /\ UNCHANGED <<src, lane, kern>>
PopMgr ==
    /\ pc[MGR] = "idle" /\ exe.mgrList
    /\ exe' = [exe EXCEPT !.mgrList = FALSE]
    /\ Set(MGR, "inv_lock", [L0 EXCEPT !.onq = "mgr"])
    /\ UNCHANGED <<src, lane, kern, cli, gh>>

(* ---------------- kernel events, delivered on the manager thread ---------------- *)
\* _dispatch_source_merge_evt: du_state = _dispatch_unote_state(du);
\*   if (!(flags & EV_UDATA_SPECIFIC) && !_du_state_registered(du_state) && !timer) finalize_unregistration(ds);
\*   dx_wakeup(EVENT | CONSUME_2 | MAKE_DIRTY)
MergeEvt(t, retpc) == Set(t, "me_du", [lv[t] EXCEPT !.mcont = retpc])
MeDu(t) ==
    /\ pc[t] = "me_du"
    /\ IF ~src.du.reg /\ ~IsTimer /\ ~HupFix
       THEN Set(t, "u_final", [lv[t] EXCEPT !.ucont = "me_wk"])
       ELSE Set(t, "wk_r1", [lv[t] EXCEPT !.wkf = {"event", "dirty"}, !.wkret = lv[t].mcont, !.mcont = "idle"])
    /\ UNCHANGED <<src, lane, exe, kern, cli, gh>>
MeWk(t) == /\ pc[t] = "me_wk"
           /\ Set(t, "wk_r1", [lv[t] EXCEPT !.wkf = {"event", "dirty"}, !.wkret = lv[t].mcont, !.mcont = "idle"])
           /\ UNCHANGED <<src, lane, exe, kern, cli, gh>>
\* epoll_wait returned the ONESHOT registration: _dispatch_event_merge_fd
MFd ==
    /\ pc[MGR] = "idle" /\ Kind = "fd" /\ kern.reg /\ kern.armed /\ kern.mux /\ (kern.readable \/ kern.hup)
    /\ kern' = [kern EXCEPT !.armed = FALSE]      \* EPOLLONESHOT; dmn_disarmed_events |= EPOLLIN
    /\ Go(MGR, IF kern.readable THEN "m_fd_du" ELSE "m_hup_du")
    /\ UNCHANGED <<src, lane, exe, lv, cli, gh>>
MFdDu == /\ pc[MGR] = "m_fd_du" /\ src' = [src EXCEPT !.du = [@ EXCEPT !.armed = FALSE]] /\ Go(MGR, "m_fd_pd")
         /\ UNCHANGED <<lane, exe, kern, lv, cli, gh>>
MFdPd == /\ pc[MGR] = "m_fd_pd" /\ src' = [src EXCEPT !.pending = 1]
         /\ MergeEvt(MGR, IF kern.hup THEN "m_hup_du" ELSE "idle")
         /\ UNCHANGED <<lane, exe, kern, cli, gh>>
\* _dispatch_event_merge_hangup: NEEDS_DELETE, not armed; pending = ~0; merge; then epoll_ctl(DEL)
MHupDu == /\ pc[MGR] = "m_hup_du" /\ src' = [src EXCEPT !.du = [reg |-> TRUE, armed |-> FALSE, ndel |-> TRUE]]
          /\ Go(MGR, "m_hup_pd") /\ UNCHANGED <<lane, exe, kern, lv, cli, gh>>
MHupPd == /\ pc[MGR] = "m_hup_pd" /\ src' = [src EXCEPT !.pending = 1] /\ MergeEvt(MGR, "m_hup_del")
          /\ UNCHANGED <<lane, exe, kern, cli, gh>>
MHupDel == /\ pc[MGR] = "m_hup_del" /\ kern' = [kern EXCEPT !.reg = FALSE] /\ Go(MGR, "idle")
           /\ UNCHANGED <<src, lane, exe, lv, cli, gh>>
\* _dispatch_event_merge_signal: read the signalfd; pending = 1; merge (EV_CLEAR: stays armed)
MSig == /\ pc[MGR] = "idle" /\ Kind = "signal" /\ kern.reg /\ kern.mux /\ kern.sig
        /\ kern' = [kern EXCEPT !.sig = FALSE] /\ src' = [src EXCEPT !.pending = 1]
        /\ MergeEvt(MGR, "idle")
        /\ UNCHANGED <<lane, exe, cli, gh>>
\* _dispatch_timers_run for the armed timer
MTmr ==
    /\ pc[MGR] = "idle" /\ IsTimer /\ src.du.armed /\ cli.ev < MaxEv
    /\ cli' = [cli EXCEPT !.ev = @ + 1]
    /\ IF src.pending # 0 \/ Suspended
       THEN src' = [src EXCEPT !.du = [@ EXCEPT !.armed = FALSE], !.pending = 1]     \* disarm + DISARMED_MARKER
       ELSE src' = [src EXCEPT !.pending = 1]                                        \* stays in the heap
    /\ MergeEvt(MGR, "idle")
    /\ UNCHANGED <<lane, exe, kern, gh>>

(* ---------------- environment ---------------- *)
PeerWrite == /\ Kind = "fd" /\ cli.ev < MaxEv /\ ~kern.readable /\ ~kern.hup
             /\ kern' = [kern EXCEPT !.readable = TRUE] /\ cli' = [cli EXCEPT !.ev = @ + 1]
             /\ UNCHANGED <<src, lane, exe, pc, lv, gh>>
PeerClose == /\ Kind = "fd" /\ AllowHup /\ ~kern.hup
             /\ kern' = [kern EXCEPT !.hup = TRUE]
             /\ UNCHANGED <<src, lane, exe, pc, lv, cli, gh>>
Raise == /\ Kind = "signal" /\ cli.ev < MaxEv /\ ~kern.sig
         /\ kern' = [kern EXCEPT !.sig = TRUE] /\ cli' = [cli EXCEPT !.ev = @ + 1]
         /\ UNCHANGED <<src, lane, exe, pc, lv, gh>>

(* ---------------- the client thread: activate, suspend/resume, merge_data, async of the cancelling item ---------------- *)
ClActivate == /\ pc[CL] = "idle" /\ "activate" \notin cli.did /\ ~InCaw
              /\ cli' = [cli EXCEPT !.did = @ \cup {"activate"}]
              /\ Set(CL, "act_rmw", [L0 EXCEPT !.acont = "idle"])
              /\ UNCHANGED <<src, lane, exe, kern, gh>>
\* _dispatch_lane_suspend (only on an activated source, and never around cancel_and_wait: header contract)
ClSuspend == /\ AllowSuspend /\ pc[CL] = "idle" /\ "activate" \in cli.did /\ "suspend" \notin cli.did
             /\ ~InCaw /\ "caw" \notin cli.did
             /\ cli' = [cli EXCEPT !.did = @ \cup {"suspend"}]
             /\ lane' = [lane EXCEPT !.susp = 1]
             /\ UNCHANGED <<src, exe, kern, pc, lv, gh>>
\* _dispatch_lane_resume(ds, false)
ClResume == /\ pc[CL] = "idle" /\ lane.susp > 0
            /\ IF lane.lock # NULL THEN lane' = [lane EXCEPT !.susp = 0, !.dirty = TRUE] /\ UNCHANGED <<pc, lv>>
               ELSE lane' = [lane EXCEPT !.susp = 0] /\ Wake(CL, {}, "idle")
            /\ UNCHANGED <<src, exe, kern, cli, gh>>
\* dispatch_source_merge_data: if (dqf & CANCELED) return; add; wakeup(MAKE_DIRTY)
ClMerge == /\ Kind = "data" /\ pc[CL] = "idle" /\ cli.ev < MaxEv
           /\ cli' = [cli EXCEPT !.ev = @ + 1]
           /\ IF "CANCELED" \in src.dqf THEN UNCHANGED <<pc, lv>> ELSE Set(CL, "md_add", [lv[CL] EXCEPT !.dcont = "idle"])
           /\ UNCHANGED <<src, lane, exe, kern, gh>>
MdAdd(t) == /\ pc[t] = "md_add" /\ src' = [src EXCEPT !.pending = 1]
            /\ Set(t, "wk_r1", [lv[t] EXCEPT !.wkf = {"dirty"}, !.wkret = lv[t].dcont, !.dcont = "idle"])
            /\ UNCHANGED <<lane, exe, kern, cli, gh>>
ClCitem == /\ AllowCitem /\ pc[CL] = "idle" /\ "citem" \notin cli.did
           /\ cli' = [cli EXCEPT !.did = @ \cup {"citem"}]
           /\ exe' = [exe EXCEPT !.tqList = Append(@, "citem")]
           /\ UNCHANGED <<src, lane, kern, pc, lv, gh>>

\* an item on the target queue that calls dispatch_source_set_cancel_handler
ClSitem == /\ "tqitem" \in SetCtx /\ pc[CL] = "idle" /\ "sitem" \notin cli.did /\ ~lane.inactive
           /\ cli' = [cli EXCEPT !.did = @ \cup {"sitem"}]
           /\ exe' = [exe EXCEPT !.tqList = Append(@, "sitem")]
           /\ UNCHANGED <<src, lane, kern, pc, lv, gh>>

(* ---------------- the foreign thread: cancel / cancel_and_wait / set_cancel_handler ---------------- *)
CcSet == /\ "foreign" \in SetCtx /\ pc[CC] = "idle" /\ cli.sets < MaxSets /\ ~lane.inactive
         /\ SetCall(CC, [L0 EXCEPT !.ctx = "foreign"], "idle")
         /\ UNCHANGED <<src, lane, exe, kern>>
CcCancel == /\ pc[CC] = "idle" /\ cli.fcancels < MaxForeign
            /\ cli' = [cli EXCEPT !.fcancels = @ + 1]
            /\ Set(CC, "c_or", [L0 EXCEPT !.ctx = "foreign", !.ccont = "idle"])
            /\ UNCHANGED <<src, lane, exe, kern, gh>>
\* header contract: no cancel handler, not from the target queue, not suspended, not being activated concurrently
CcCaw == /\ AllowCaw /\ ~HasCancelHandler /\ pc[CC] = "idle" /\ "caw" \notin cli.did
         /\ pc[CL] \notin {"act_rmw", "act_final", "act_inst", "act_res", "u_final"} /\ lane.susp = 0
         /\ cli' = [cli EXCEPT !.did = @ \cup {"caw"}]
         /\ Set(CC, "caw_rmw", [L0 EXCEPT !.ctx = "caw"])
         /\ UNCHANGED <<src, lane, exe, kern, gh>>
\* first rmw loop on dq_atomic_flags
CawRmw ==
    /\ pc[CC] = "caw_rmw"
    /\ LET old == src.dqf
           new == IF FCawGiveUp(old) THEN old \cup {"CANCELED"} ELSE FCawNew(old, IsTimer \/ ~IsDirect) IN
       /\ src' = [src EXCEPT !.dqf = IF FCawGiveUp(old) THEN @ ELSE new]
       /\ gh' = [gh EXCEPT !.foreignOr = TRUE]
       /\ IF "DELETED" \in old THEN Set(CC, "caw_ret", [lv[CC] EXCEPT !.old = old])
          ELSE IF "CANCEL_WAITER" \in new
               THEN Set(CC, "wk_r1", [lv[CC] EXCEPT !.wkf = {"dirty"}, !.wkret = "caw_act", !.old = old])
          ELSE Set(CC, "caw_lock", [lv[CC] EXCEPT !.old = old])
    /\ UNCHANGED <<lane, exe, kern, cli>>
\* "simplified version of _dispatch_queue_drain_try_lock that also sets the DIRTY bit on failure to lock"
CawLock ==
    /\ pc[CC] = "caw_lock"
    /\ IF ~Suspended /\ lane.lock = NULL
       THEN lane' = [lane EXCEPT !.lock = CC, !.dirty = FALSE] /\ Go(CC, "caw_l1") /\ lv' = lv
       ELSE /\ lane' = [lane EXCEPT !.dirty = IF "CANCELED" \in lv[CC].old THEN @ ELSE TRUE]
            /\ IF Suspended
               THEN \* inactive (a suspend count is a client error excluded by the contract): return dispatch_activate(ds)
                    Set(CC, "act_rmw", [lv[CC] EXCEPT !.acont = "caw_ret"])
               ELSE Wake(CC, {"dirty"}, "caw_act")
    /\ UNCHANGED <<src, exe, kern, cli, gh>>
CawL1 == /\ pc[CC] = "caw_l1"
         /\ IF "DELETED" \notin src.dqf THEN Set(CC, "u_unreg", [lv[CC] EXCEPT !.ucont = "caw_l2"]) ELSE Go(CC, "caw_l2") /\ lv' = lv
         /\ UNCHANGED <<src, lane, exe, kern, cli, gh>>
CawL2 == /\ pc[CC] = "caw_l2"
         /\ IF "DELETED" \in src.dqf THEN Set(CC, "cc_take", [lv[CC] EXCEPT !.tcont = "caw_bc", !.onq = "caw"])
            ELSE Go(CC, "caw_bc") /\ lv' = lv
         /\ UNCHANGED <<src, lane, exe, kern, cli, gh>>
CawBc == /\ pc[CC] = "caw_bc" /\ Wake(CC, {"event", "bc"}, "caw_wait0")
         /\ UNCHANGED <<src, lane, exe, kern, cli, gh>>
\* wakeup: dx_wakeup(MAKE_DIRTY); dispatch_activate(ds)
CawAct == /\ pc[CC] = "caw_act" /\ Set(CC, "act_rmw", [lv[CC] EXCEPT !.acont = "caw_wait0"])
          /\ UNCHANGED <<src, lane, exe, kern, cli, gh>>
\* dqf = flags; while (!(dqf & DELETED)) { add CANCEL_WAITER by cmpxchgv; _dispatch_wait_on_address(&flags, dqf) }
CawWait0 ==
    /\ pc[CC] = "caw_wait0"
    /\ IF Mut = "caw_no_wait" THEN Go(CC, "caw_ret") /\ lv' = lv
       ELSE Set(CC, "caw_chk", [lv[CC] EXCEPT !.dqf = src.dqf])
    /\ UNCHANGED <<src, lane, exe, kern, cli, gh>>
CawChk == /\ pc[CC] = "caw_chk"
          /\ Go(CC, IF "DELETED" \in lv[CC].dqf THEN "caw_ret"
                    ELSE IF "CANCEL_WAITER" \notin lv[CC].dqf THEN "caw_cas" ELSE "caw_futex")
          /\ UNCHANGED <<src, lane, exe, kern, lv, cli, gh>>
CawCas == /\ pc[CC] = "caw_cas"
          /\ IF src.dqf = lv[CC].dqf
             THEN /\ src' = [src EXCEPT !.dqf = FAddWaiter(@)]
                  /\ Set(CC, "caw_futex", [lv[CC] EXCEPT !.dqf = FAddWaiter(src.dqf)])
             ELSE /\ src' = src /\ Set(CC, "caw_chk", [lv[CC] EXCEPT !.dqf = src.dqf])
          /\ UNCHANGED <<lane, exe, kern, cli, gh>>
\* futex(FUTEX_WAIT, &dq_atomic_flags, dqf): sleeps only if the word still holds dqf
CawFutex == /\ pc[CC] = "caw_futex"
            /\ Go(CC, IF src.dqf = lv[CC].dqf THEN "caw_sleep" ELSE "caw_wait0")
            /\ UNCHANGED <<src, lane, exe, kern, lv, cli, gh>>
\* (caw_sleep is left through UFinal's wake; a futex wait may also end spuriously: environment step, never fair)
CawSpurious == /\ pc[CC] = "caw_sleep" /\ Go(CC, "caw_wait0")
               /\ UNCHANGED <<src, lane, exe, kern, lv, cli, gh>>
CawRet ==
    /\ pc[CC] = "caw_ret"
    /\ gh' = [gh EXCEPT !.cawRet = TRUE, !.runningAtCawRet = @ \/ gh.hRunning > 0,
                        !.bad = IF @ # "" THEN @
                                ELSE IF ~({"CANCELED", "DELETED"} \subseteq src.dqf) THEN "cancel_and_wait_returned_before_deleted"
                                ELSE IF src.du.reg /\ ~IsDirect THEN "cancel_and_wait_returned_while_registered"
                                ELSE IF kern.reg \/ kern.mux THEN "cancel_and_wait_returned_with_kernel_registration"
                                ELSE ""]
    /\ Set(CC, "idle", L0)
    /\ UNCHANGED <<src, lane, exe, kern, cli>>

(* ================================ next-state ================================ *)
Lib(t) == WkRead1(t) \/ WkRead2(t) \/ WkRmw(t) \/ WkBcXor(t) \/ UUnreg(t) \/ UDu(t) \/ UFinal(t)
          \/ COr(t) \/ ActRmw(t) \/ ActFinal(t) \/ ActInst(t) \/ ActRes(t)
          \/ Done(t) \/ InvLock(t) \/ IInst(t) \/ IInstall(t) \/ ISusp(t) \/ INdel(t) \/ IDqf(t) \/ IPend(t)
          \/ LXchg(t) \/ HStart(t) \/ HBody(t) \/ HEnd(t) \/ LDqf2(t) \/ LPend2(t) \/ ICancel(t) \/ IDqf3(t)
          \/ ICallout(t) \/ CcTake(t) \/ ChStart(t) \/ ChEnd(t) \/ CcDone(t) \/ IRearm(t) \/ IResume(t)
          \/ IDrain(t) \/ IPop(t) \/ IDrepl(t) \/ SDqf(t) \/ STry(t) \/ SRepl(t) \/ SPush(t)
          \/ InvFin(t) \/ InvXor(t) \/ MeDu(t) \/ MeWk(t) \/ IRegh(t) \/ RTake(t) \/ RStart(t) \/ RBody(t) \/ REnd(t) \/ MdAdd(t)
MgrStep == PopMgr \/ MFd \/ MFdDu \/ MFdPd \/ MHupDu \/ MHupPd \/ MHupDel \/ MSig \/ MTmr
CawStep == CawRmw \/ CawLock \/ CawL1 \/ CawL2 \/ CawBc \/ CawAct \/ CawWait0 \/ CawChk \/ CawCas \/ CawFutex \/ CawRet
Env == PeerWrite \/ PeerClose \/ Raise
Client == ClActivate \/ ClSuspend \/ ClResume \/ ClMerge \/ ClCitem \/ ClSitem \/ CcCancel \/ CcCaw \/ CcSet
Next == (\E t \in Threads : Lib(t)) \/ (\E w \in Workers : PopTq(w)) \/ MgrStep \/ CawStep \/ CawSpurious \/ Env \/ Client
Spec == Init /\ [][Next]_vars
\* fairness: every library step, the executors, calls in progress; the client eventually activates and resumes
FairSpec == /\ Spec
            /\ \A t \in Threads : WF_vars(Lib(t))
            /\ \A w \in Workers : WF_vars(PopTq(w))
            /\ WF_vars(MgrStep) /\ WF_vars(CawStep)
            /\ WF_vars(ClActivate) /\ WF_vars(ClResume)

(* ================================ properties ================================ *)
PCs == {"idle", "wk_r1", "wk_r2", "wk_rmw", "wk_bcxor", "u_unreg", "u_du", "u_final", "c_or",
        "act_rmw", "act_final", "act_inst", "act_res", "done", "inv_lock", "i_inst", "i_install", "i_susp",
        "i_regh", "r_take", "r_start", "r_body", "r_end", "i_ndel", "i_dqf", "i_pend", "l_xchg", "h_start", "h_body", "h_end", "l_dqf2", "l_pend2", "i_cancel",
        "i_dqf3", "i_callout", "cc_take", "ch_start", "ch_end", "cc_done", "i_rearm", "i_resume", "inv_fin",
        "inv_xor", "m_fd_du", "m_fd_pd", "m_hup_du", "m_hup_pd", "m_hup_del", "me_du", "me_wk", "md_add", "caw_rmw", "caw_lock",
        "caw_l1", "caw_l2", "caw_bc", "caw_act", "caw_wait0", "caw_chk", "caw_cas", "caw_futex", "caw_sleep", "caw_ret",
        "i_drain", "i_pop", "i_drepl", "s_dqf", "s_try", "s_repl", "s_push"}
TypeOK == /\ src.dqf \subseteq Flags /\ src.pending \in 0..1 /\ pc \in [Threads -> PCs]
          /\ lane.lock \in Threads \cup {NULL} /\ lane.enq \in {"none", "tq", "mgr"} /\ lane.susp \in 0..1
          /\ gh.hRunning \in 0..2
          /\ src.hnd.cancel \in {0} \cup Gens /\ Len(src.items) <= MaxSets /\ cli.sets \in 0..MaxSets
          /\ gh.req \subseteq Gens /\ gh.inst \subseteq Gens /\ gh.repl \subseteq gh.inst
\* C16 as stated (ghost verdicts at HandlerStart / CancelHandlerStart / CawRet)
C16 == gh.bad = ""
HandlerExclusive == gh.hRunning <= 1
CancelHandlerOnce == (\A g \in Gens : gh.chS[g] <= 1) /\ (MaxSets = 0 => gh.chStarts <= 1)
\* NOT guaranteed by the code once handlers are replaced after activation (informational, refuted on purpose): a
\* replacement that takes effect after the callout of the previous handler gets a callout of its own
OneCalloutPerSource == gh.chStarts <= 1
RegistrationHandlerOnce == gh.regStarts <= 1
\* structural
WaiterImpliesCanceled == "CANCEL_WAITER" \in src.dqf => "CANCELED" \in src.dqf
\* the drain lock is what makes the handler exclusive
HandlerUnderLock == \A t \in Threads : pc[t] \in {"h_start", "h_body", "h_end", "ch_start", "ch_end", "r_start", "r_body", "r_end"} /\ lv[t].onq # "caw" => lane.lock = t
\* dispatch_assert((old_state & dequeue_mask) == dequeue_mask) in drain_try_lock
EnqAssert == \A t \in Threads : pc[t] = "inv_lock" => lane.enq = Own(t)
\* convergence as a safety property: when nothing can move any more, a cancelled + activated + resumed source is final
Final == /\ {"CANCELED", "DELETED"} \subseteq src.dqf /\ "CANCEL_WAITER" \notin src.dqf
         /\ (~IsDirect => ~src.du.reg) /\ ~kern.reg /\ ~kern.mux
         /\ gh.hRunning = 0
         \* every requested replacement took effect, nothing is left in the slot or in the source's item list, and every
         \* handler that was in the slot ran exactly once unless a replacement took it out (MaxSets = 0: gh.chEnds = 1)
         /\ src.hnd.cancel = 0 /\ src.items = <<>> /\ gh.req \subseteq gh.inst
         /\ \A g \in gh.inst \ gh.repl : gh.chE[g] = 1
         /\ \A g \in Gens : gh.chE[g] = gh.chS[g]
         /\ (MaxSets = 0 /\ HasCancelHandler => gh.chEnds = 1)
Quiescent == /\ \A t \in Threads : pc[t] = "idle"
             /\ exe.tqList = <<>> /\ ~exe.mgrList
             /\ ~(Kind = "fd" /\ kern.reg /\ kern.armed /\ kern.mux /\ (kern.readable \/ kern.hup))
             /\ ~(Kind = "signal" /\ kern.reg /\ kern.mux /\ kern.sig)
             /\ ~(IsTimer /\ src.du.armed /\ cli.ev < MaxEv)
ConvergedAtQuiescence == (Quiescent /\ "CANCELED" \in src.dqf /\ "activate" \in cli.did /\ lane.susp = 0) => Final
\* header contract of cancel_and_wait, stronger than C16 (informational config only)
CawStrict == gh.startsAfterCaw = 0 /\ ~gh.runningAtCawRet
\* liveness (FairSpec): a cancelled source reaches the final state; cancel_and_wait returns
Converges == ("CANCELED" \in src.dqf) ~> Final
CawReturns == (pc[CC] = "caw_rmw") ~> (pc[CC] = "idle")
NoSleepForever == (pc[CC] = "caw_sleep") ~> (pc[CC] # "caw_sleep")
=============================================================================
