---------------------------- MODULE BlockTrace ----------------------------
(* Trace validation: recorded executions of the real block-object code (hooked build,
   harness/drv_block.c) must be behaviours of Block.tla.

   Logged and matched with all fields: every API call / return (with arguments and results), body
   start / end, notification runs, the earlier queue item (gate), and every atomic access to the block's
   private data: dbpd_atomic_flags (or / and: old and new word), dbpd_performed (add / load),
   dbpd_queue (cmpxchg / xchg, projected to NULL / non-NULL).  The private group's words are matched at
   the linearisation point the block-object code is responsible for -- the 64-bit add of
   dispatch_group_leave (old / new count and generation) -- and every other access to dg_state /
   dg_bits / dg_gen and every futex probe must (a) come from a thread that is inside a group
   operation according to the spec and (b) show exactly the count and generation the abstract group
   has at that moment (the internals of dispatch_group are C07's).

   Silent (unhookable or abstract) steps: the PLAIN reads of dbpd_atomic_flags (invoke paths,
   testcancel) and dbpd_thread, the plain write of dbpd_thread, the queue handing the item to a
   thread, the abstract group decisions inside dispatch_group_wait / dispatch_group_notify, the
   kernel timeout, pure returns, the timer of a dispatch_after / timer-source submission firing, the source
   giving back its copy of the block object.  TLC places them anywhere between the neighbouring logged events.

   Real time enters in one place only: the driver reads the clock of the timer (_dispatch_uptime) right AFTER
   logging a CancelRet / WaitRet / NotifyRan record; if no timer submission of the execution had reached its
   deadline then (with a margin), the record carries nd = 1 ("not due"), and no "after" / "handler" invocation can
   have been handed to the queue at that record (a timer does not fire before its deadline: C11, assumed here).
   This is what pins "cancelled before it starts" for the timer-started paths. *)
EXTENDS Block, Json, IOUtils, TLCExt

CONSTANT Level   \* "word": every record is matched; "api": only the API-visible events are matched, the
                 \* accesses to the private data and the group are skipped and their spec steps are silent
                 \* (used to decide whether a word-level deviation is visible in the API-level history)

Tr == ndJsonDeserialize(IOEnv.TRACE)
\* record 1 is a header written by the runner: {"e":"Header","nt":<number of threads>}
TraceThreads == 0..(Tr[1].nt - 1)
TraceNoThr == -1
Unbounded == -1

VARIABLE l
tvars == <<vars, l>>

TInit == Init /\ l = 2 /\ TLCSet(1, 0)

Rec == Tr[l]
Ev(e) == l <= Len(Tr) /\ Rec.e = e
Consume == l' = l + 1
Same == UNCHANGED vars
\* the memory_order token a record carries is compared with the transcription for information only: on this
\* machine (TSO) a different order cannot change anything the property speaks about -> MO_DRIFT, never a rejection
MoChk(m) == IF Rec.mo = m THEN TRUE ELSE PrintT(<<"MO_DRIFT", m, Rec.mo>>)

\* concatenated executions: a new block object with its configuration
TReset ==
    /\ Ev("Reset") /\ Consume
    /\ cfg' = [mode |-> Rec.mode, qserial |-> Rec.qserial, barrier |-> Rec.barrier, gate |-> Rec.gate]
    /\ af' = 0 /\ performed' = 0 /\ dq' = 0 /\ dthr' = NoThr /\ qref' = 0
    /\ gcnt' = 1 /\ ggen' = 0
    /\ nst' = [n \in NIds |-> "none"] /\ nsub' = [n \in NIds |-> 0]
    /\ gate' = IF Rec.gate THEN "queued" ELSE "none"
    /\ ug' = 0 /\ bref' = 0
    /\ pc' = [t \in Threads |-> "idle"] /\ lv' = [t \in Threads |-> L0]
    /\ inv' = [k \in 1..MaxInv |-> I0]
    /\ nsubm' = 0 /\ ncancel' = 0 /\ ntest' = 0 /\ nwait' = 0 /\ nperf' = 0
    /\ completed' = FALSE /\ cancelled' = FALSE /\ bodyStarts' = 0 /\ bodyEnds' = 0
    /\ testBad' = FALSE /\ testFalse' = FALSE /\ waitedOK' = FALSE
    /\ lastTest' = [t \in Threads |-> -1]
    /\ wres' = [rc |-> -1, tmo |-> FALSE]
    /\ crashed' = "none"

\* end of an execution (the driver has drained the queues): every call returned, every submission
\* ran, every notification that was registered has run (exactly once: a second run has no spec step)
TEnd == /\ Ev("End") /\ Consume /\ Same
        /\ Quiescent
        /\ \A n \in NIds : nst[n] \in {"none", "ran"}
        /\ nsubm >= 1 => gcnt = 0

TSkip == Ev("GateOpen") /\ Consume /\ Same

(* ------------------------------- API events ------------------------------- *)
Idle(t) == pc[t] = "idle"
NotDue(nd) == nd = 1 => \A k \in 1..MaxInv : inv[k].api \in TimerApis => inv[k].pc \in {"none", "armed"}
TSubmitCall == Ev("SubmitCall") /\ Consume /\ CallSubmit(Rec.t, Rec.api)
TSubmitRet  == Ev("SubmitRet") /\ Consume /\ SubmitRet(Rec.t)
TCancelCall == Ev("CancelCall") /\ Consume /\ CallCancel(Rec.t)
TCancelRet  == Ev("CancelRet") /\ Consume /\ Idle(Rec.t) /\ NotDue(Rec.nd) /\ Same
TTestCall   == Ev("TestCall") /\ Consume /\ CallTest(Rec.t)
TTestRet    == Ev("TestRet") /\ Consume /\ Idle(Rec.t) /\ lastTest[Rec.t] = Rec.r /\ Same
TWaitCall   == Ev("WaitCall") /\ Consume /\ CallWait(Rec.t, Rec.kind)
TWaitRet    == Ev("WaitRet") /\ Consume /\ Idle(Rec.t) /\ wres.rc = Rec.r /\ NotDue(Rec.nd) /\ Same
TNotifyCall == Ev("NotifyCall") /\ Consume /\ CallNotify(Rec.t, Rec.n)
TNotifyRet  == Ev("NotifyRet") /\ Consume /\ Idle(Rec.t) /\ Same
TNotifyRan  == Ev("NotifyRan") /\ Consume /\ NotDue(Rec.nd) /\ NotifyRun(Rec.n)
TBodyStart  == Ev("BodyStart") /\ Consume /\ \E k \in 1..MaxInv : I_BodyStart(k, Rec.t)
TBodyEnd    == Ev("BodyEnd") /\ Consume /\ \E k \in 1..MaxInv : I_BodyEnd(k, Rec.t)
TGateStart  == Ev("GateStart") /\ Consume /\ GateStart
TGateEnd    == Ev("GateEnd") /\ Consume /\ GateEnd
TPerformCall == Ev("PerformCall") /\ Consume /\ CallPerform(Rec.t)
TPBodyStart == Ev("PBodyStart") /\ Consume /\ P_BodyStart(Rec.t)
TPBodyEnd   == Ev("PBodyEnd") /\ Consume /\ P_BodyEnd(Rec.t)
TPerformRet == Ev("PerformRet") /\ Consume /\ P_Out(Rec.t)
\* dispatch_group_wait on the user's group returned: every dispatch_group_async invocation is over
TUgDone     == /\ Ev("UgDone") /\ Consume /\ Same /\ ug = 0
               /\ \A k \in 1..MaxInv : inv[k].api = "gasync" => inv[k].pc = "done"

(* --------------------------- atomics on the private data --------------------------- *)
TAF == /\ Level = "word" /\ Ev("AF") /\ Consume /\ af = Rec.old /\ af' = Rec.new /\ Rec.ok = 1 /\ MoChk("relaxed")
       /\ \/ Rec.op = "or" /\ (C_Or(Rec.t) \/ W_Or(Rec.t) \/ (wres.rc = 0 /\ W_Fin(Rec.t)))
          \/ Rec.op = "and" /\ wres.rc # 0 /\ W_Fin(Rec.t)
TPerf == /\ Level = "word" /\ Ev("Perf") /\ Consume /\ performed = Rec.old /\ performed' = Rec.new /\ MoChk("relaxed")
         /\ \/ Rec.op = "add" /\ \E k \in 1..MaxInv : I_Inc(k, Rec.t)
            \/ Rec.op = "load" /\ (W_LoadPerf(Rec.t) \/ N_Load(Rec.t))
TDQ == /\ Level = "word" /\ Ev("DQ") /\ Consume /\ dq = Rec.old /\ dq' = Rec.new /\ MoChk("relaxed")
       /\ \/ Rec.op = "cmpxchg" /\ S_Cas(Rec.t) /\ (Rec.ok = 1 <=> dq = 0)
          \/ Rec.op = "xchg" /\ (W_Xchg(Rec.t) \/ \E k \in 1..MaxInv : I_Xchg(k, Rec.t))

(* ------------------------------ the private group's words ------------------------------ *)
InGroupOp(t) == \/ pc[t] \in {"w_gcheck", "w_sleep", "w_fin", "n_reg", "n_ret"}
                \/ \E k \in 1..MaxInv : inv[k].thr = t /\ inv[k].pc = "i_wake"
\* dispatch_group_leave: os_atomic_add_orig2o(dg, dg_state, INTERVAL, release) -- the access that changes the count
TGLeave == /\ Level = "word" /\ Ev("G") /\ Rec.ncnt # Rec.ocnt /\ Consume
           /\ gcnt = Rec.ocnt /\ ggen = Rec.ogen
           /\ \E k \in 1..MaxInv : I_Leave(k, Rec.t)
           /\ gcnt' = Rec.ncnt /\ ggen' = Rec.ngen /\ MoChk("release")
\* any other access: by a thread inside a group operation, showing the abstract count / generation, changing
\* neither (the give-up of an rmw loop is logged after its load with the value loaded then: not compared)
TGOther == /\ Level = "word" /\ Ev("G") /\ Rec.ncnt = Rec.ocnt /\ Consume /\ Same
           /\ InGroupOp(Rec.t)
           /\ Rec.op # "giveup" => (Rec.ocnt \in {-1, gcnt} /\ Rec.ogen \in {-1, ggen})
           /\ Rec.ngen = Rec.ogen
TFutex == /\ Level = "word" /\ Ev("Futex") /\ Consume /\ Same /\ InGroupOp(Rec.t)
\* API level: the word-level records are skipped ...
TWordSkip == /\ Level = "api" /\ l <= Len(Tr) /\ Rec.e \in {"AF", "Perf", "DQ", "G", "Futex"} /\ Consume /\ Same
\* ... and the steps they were bound to are silent (an unbound invocation is bound to its own marker thread)
Bind(k) == IF inv[k].thr = NoThr THEN 0 ELSE inv[k].thr
TApiSilent == /\ Level = "api" /\ l <= Len(Tr) /\ UNCHANGED l
              /\ \/ \E t \in Threads : \/ C_Or(t) \/ W_Or(t) \/ W_Xchg(t) \/ W_LoadPerf(t) \/ W_Fin(t)
                                       \/ N_Load(t) \/ S_Cas(t)
                 \/ \E k \in 1..MaxInv : \/ (inv[k].pc = "i_inc" /\ I_Inc(k, Bind(k)))
                                          \/ (inv[k].pc = "i_leave" /\ I_Leave(k, Bind(k)))
                                          \/ (inv[k].pc = "i_xchg" /\ I_Xchg(k, Bind(k)))

(* ------------------------------------ silent steps ------------------------------------ *)
TSilent == /\ l <= Len(Tr) /\ UNCHANGED l
           /\ \/ \E t \in Threads : \/ T_Read(t) \/ W_ReadThr(t) \/ W_GCheck(t) \/ W_Wake(t) \/ W_Timeout(t)
                                    \/ N_Reg(t) \/ N_Ret(t) \/ S_Push(t) \/ P_Read(t)
                                    \/ C_PlainRead(t) \/ C_PlainWrite(t)
              \/ \E k \in 1..MaxInv : \/ I_Fire(k) \/ I_Start(k) \/ I_Read(k) \/ I_SetThr(k) \/ I_WakeDone(k)
                                       \/ I_UgLeave(k) \/ I_SrcRel(k)

TNext == \/ TReset \/ TEnd \/ TSkip
         \/ TSubmitCall \/ TSubmitRet \/ TCancelCall \/ TCancelRet \/ TTestCall \/ TTestRet
         \/ TWaitCall \/ TWaitRet \/ TNotifyCall \/ TNotifyRet \/ TNotifyRan \/ TBodyStart \/ TBodyEnd
         \/ TGateStart \/ TGateEnd \/ TPerformCall \/ TPBodyStart \/ TPBodyEnd \/ TPerformRet \/ TUgDone
         \/ TAF \/ TPerf \/ TDQ \/ TGLeave \/ TGOther \/ TFutex
         \/ TSilent \/ TWordSkip \/ TApiSilent

TSpec == TInit /\ [][TNext]_tvars

\* longest matched prefix, reported on rejection
MaxL == IF TLCGet(1) < l THEN TLCSet(1, l) ELSE TRUE
Accepted == l > Len(Tr)
\* evaluated in every reached state: stop at the first accepting state
StopWhenAccepted == Accepted => (PrintT("TRACE_ACCEPTED") /\ TLCSet("exit", TRUE))
Post == PrintT(<<"MAXL", TLCGet(1), Len(Tr)>>)
=============================================================================
