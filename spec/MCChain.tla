------------------------------- MODULE MCChain -------------------------------
(* Model-checking instances of Chain.tla: hierarchy shapes and client programs per configuration
   (tools/props/C03.py generates the .cfg files). *)
EXTENDS Chain

A(i)  == [op |-> "async", i |-> i]
S(i)  == [op |-> "sync", i |-> i]
SETT(q, tq) == [op |-> "settarget", q |-> q, tq |-> tq]
ACT(q) == [op |-> "activate", q |-> q]

\* ---- C1: serial L -> serial B -> root ; c1 = async a on L ; c2 = async x on B, sync s on L ----
QueuesC1 == {"L", "B"}
TargetC1 == ("L" :> "B" @@ "B" :> ROOT)
WidthC1 == ("L" :> 1 @@ "B" :> 1)
ItemsC1 == {"a", "x", "s"}
KindC1 == ("a" :> "ra" @@ "x" :> "ra" @@ "s" :> "rs")
OnC1 == ("a" :> "L" @@ "x" :> "B" @@ "s" :> "L")
ProgC1 == ("c1" :> <<A("a")>> @@ "c2" :> <<A("x"), S("s")>>)

\* ---- C1q: quick variant: c1 = async a on L ; c2 = sync s on L  (B only as target) + async x on B by c1 ----
ItemsC1q == {"a", "s"}
KindC1q == ("a" :> "ra" @@ "s" :> "rs")
OnC1q == ("a" :> "L" @@ "s" :> "L")
ProgC1q == ("c1" :> <<A("a")>> @@ "c2" :> <<S("s")>>)

\* ---- C1b: dispatch_sync directly on the bottom racing an async on the leaf ----
ItemsC1b == {"a", "sb"}
KindC1b == ("a" :> "ra" @@ "sb" :> "rs")
OnC1b == ("a" :> "L" @@ "sb" :> "B")
ProgC1b == ("c1" :> <<A("a")>> @@ "c2" :> <<S("sb")>>)

\* ---- C2: fan-in: serial L1, L2 -> serial B ; asyncs on both leaves and on B ----
QueuesC2 == {"L1", "L2", "B"}
TargetC2 == ("L1" :> "B" @@ "L2" :> "B" @@ "B" :> ROOT)
WidthC2 == ("L1" :> 1 @@ "L2" :> 1 @@ "B" :> 1)
ItemsC2 == {"a", "b", "x"}
KindC2 == ("a" :> "ra" @@ "b" :> "ra" @@ "x" :> "ra")
OnC2 == ("a" :> "L1" @@ "b" :> "L2" @@ "x" :> "B")
ProgC2 == ("c1" :> <<A("a"), A("x")>> @@ "c2" :> <<A("b")>>)
ItemsC2q == {"a", "b"}
KindC2q == ("a" :> "ra" @@ "b" :> "ra")
OnC2q == ("a" :> "L1" @@ "b" :> "L2")
ProgC2q == ("c1" :> <<A("a")>> @@ "c2" :> <<A("b")>>)
\* fan-in with a sync through one leaf
ItemsC2s == {"a", "s"}
KindC2s == ("a" :> "ra" @@ "s" :> "rs")
OnC2s == ("a" :> "L1" @@ "s" :> "L2")
ProgC2s == ("c1" :> <<A("a")>> @@ "c2" :> <<S("s")>>)

\* ---- C3: concurrent inner L (width 2) -> serial B ; async readers + one sync ----
QueuesC3 == {"L", "B"}
TargetC3 == ("L" :> "B" @@ "B" :> ROOT)
WidthC3 == ("L" :> 2 @@ "B" :> 1)
ItemsC3 == {"r1", "r2", "s"}
KindC3 == ("r1" :> "ra" @@ "r2" :> "ra" @@ "s" :> "rs")
OnC3 == ("r1" :> "L" @@ "r2" :> "L" @@ "s" :> "L")
ProgC3 == ("c1" :> <<A("r1"), A("r2")>> @@ "c2" :> <<S("s")>>)
ItemsC3q == {"r1", "s"}
KindC3q == ("r1" :> "ra" @@ "s" :> "rs")
OnC3q == ("r1" :> "L" @@ "s" :> "L")
ProgC3q == ("c1" :> <<A("r1")>> @@ "c2" :> <<S("s")>>)
\* barrier async + reader + sync reader on the concurrent inner queue
ItemsC3b == {"r1", "b1", "s"}
KindC3b == ("r1" :> "ra" @@ "b1" :> "ba" @@ "s" :> "rs")
OnC3b == ("r1" :> "L" @@ "b1" :> "L" @@ "s" :> "L")
ProgC3b == ("c1" :> <<A("r1"), A("b1")>> @@ "c2" :> <<S("s")>>)

\* ---- C4: dispatch_sync through both levels racing a drainer: c1 = sync s1 on L ; c2 = async x on B, sync s2 on L ----
ItemsC4 == {"s1", "x", "s2"}
KindC4 == ("s1" :> "rs" @@ "x" :> "ra" @@ "s2" :> "rs")
OnC4 == ("s1" :> "L" @@ "x" :> "B" @@ "s2" :> "L")
ProgC4 == ("c1" :> <<S("s1")>> @@ "c2" :> <<A("x"), S("s2")>>)
ItemsC4q == {"s1", "x"}
KindC4q == ("s1" :> "rs" @@ "x" :> "ra")
OnC4q == ("s1" :> "L" @@ "x" :> "B")
ProgC4q == ("c1" :> <<S("s1")>> @@ "c2" :> <<A("x")>>)

\* ---- C5: retarget-then-activate: L created inactive (default target), retargeted to B, activated ----
Target0C5 == ("L" :> ROOT @@ "B" :> ROOT)
ItemsC5 == {"a", "x"}
KindC5 == ("a" :> "ra" @@ "x" :> "ra")
OnC5 == ("a" :> "L" @@ "x" :> "B")
ProgC5 == ("c1" :> <<SETT("L", "B"), ACT("L")>> @@ "c2" :> <<A("a"), A("x")>>)
\* with a dispatch_sync on the (possibly still inactive) queue
ItemsC5s == {"a", "x", "s"}
KindC5s == ("a" :> "ra" @@ "x" :> "ra" @@ "s" :> "rs")
OnC5s == ("a" :> "L" @@ "x" :> "B" @@ "s" :> "L")
ProgC5s == ("c1" :> <<SETT("L", "B"), ACT("L"), A("x")>> @@ "c2" :> <<A("a"), S("s")>>)

\* ---- C6: three levels: serial L -> serial M -> serial B ; async on L, sync on L, async on B ----
QueuesC6 == {"L", "M", "B"}
TargetC6 == ("L" :> "M" @@ "M" :> "B" @@ "B" :> ROOT)
WidthC6 == ("L" :> 1 @@ "M" :> 1 @@ "B" :> 1)
ItemsC6 == {"a", "s"}
KindC6 == ("a" :> "ra" @@ "s" :> "rs")
OnC6 == ("a" :> "L" @@ "s" :> "L")
ProgC6 == ("c1" :> <<A("a")>> @@ "c2" :> <<S("s")>>)
ItemsC6x == {"a", "s", "x"}
KindC6x == ("a" :> "ra" @@ "s" :> "rs" @@ "x" :> "ra")
OnC6x == ("a" :> "M" @@ "s" :> "L" @@ "x" :> "B")
ProgC6x == ("c1" :> <<A("a"), A("x")>> @@ "c2" :> <<S("s")>>)

\* ---- C7: serial leaf over a concurrent middle over a serial bottom: L(1) -> M(2) -> B(1) ----
WidthC7 == ("L" :> 1 @@ "M" :> 2 @@ "B" :> 1)
ItemsC7 == {"a", "r", "s"}
KindC7 == ("a" :> "ra" @@ "r" :> "ra" @@ "s" :> "rs")
OnC7 == ("a" :> "L" @@ "r" :> "M" @@ "s" :> "L")
ProgC7 == ("c1" :> <<A("a"), A("r")>> @@ "c2" :> <<S("s")>>)
ItemsC7q == {"a", "s"}
KindC7q == ("a" :> "ra" @@ "s" :> "rs")
OnC7q == ("a" :> "L" @@ "s" :> "M")
ProgC7q == ("c1" :> <<A("a")>> @@ "c2" :> <<S("s")>>)
=============================================================================
