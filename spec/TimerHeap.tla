----------------------------- MODULE TimerHeap -----------------------------
(* The timer heap of libdispatch (src/event/event.c:340-764, "timer heap").

   One struct dispatch_timer_heap_s holds TWO min-heaps interleaved in a single
   index space: even indices = heap ordered by dt_timer.target (DTH_TARGET_ID),
   odd indices = heap ordered by dt_timer.deadline (DTH_DEADLINE_ID).  Indices
   0 and 1 live inline in dth_min[]; index i >= 2 lives in word (i - 2) of a
   chain of separately allocated segments (segment 0 has C words, segment k>0
   has C << (k-1) words); the LAST segment gives up its final (segments-1)
   words to pointers to the earlier segments, dth_heap points to the last one.
   Every timer carries back-pointers dt_heap_entry[2] (its index in each heap,
   DTH_INVALID_ID when not in the heap).

   This module is a transcription, one operator per C function and one branch
   per C branch:
       Capacity    _dispatch_timer_heap_capacity
       Grow        _dispatch_timer_heap_grow
       Shrink      _dispatch_timer_heap_shrink
       GetSlot     _dispatch_timer_heap_get_slot       (address arithmetic)
       HeapSet     _dispatch_timer_heap_set
       Parent      _dispatch_timer_heap_parent
       LeftChild   _dispatch_timer_heap_left_child
       Resift      _dispatch_timer_heap_resift         (SiftUp / SiftDown loops)
       Insert      _dispatch_timer_heap_insert
       Remove      _dispatch_timer_heap_remove
       Update      _dispatch_timer_heap_update
   Memory is modelled explicitly (segments are arrays of cells, a cell holds
   NULL, a timer, or a pointer to a segment) so that an address computed wrongly,
   a timer written over the pointer table, or a pointer table copied wrongly is
   an observable error and not an impossibility of the model.

   The REFERENCE the transcription is compared with is a plain set `ref` of the
   timers that were inserted and not removed, with the keys they were given
   (sorted-set semantics): the minima of the two heaps must be the minima of
   that set (property C11: "the run loop fires only timers whose target is <=
   now, then reprograms the kernel timer to the new minimum" relies on
   dth_min[] being the true minima for every population and every history of
   insert / remove / update-key). *)
EXTENDS Integers, Sequences, FiniteSets, TLC, CSV

CONSTANTS NT,        \* number of timer objects; Timers == 1..NT
          Keys,      \* set of key values (naturals) for target and deadline
          Pairs,     \* which <<target, deadline>> pairs: "free" all; "le" target <= deadline (as libdispatch
                     \* builds them); "eq" deadline = target (both heaps ordered alike: cheap many-timer configs)
          C,         \* DISPATCH_HEAP_INIT_SEGMENT_CAPACITY (8 in the source); a power of two >= 4
                     \* (with 2 one _grow would add a single word: TLC refutes HeapOrder at once)
          MaxSeg,    \* segments available to the memory model (enough for NT timers)
          Mut,       \* "none" or the name of a spec mutation (non-vacuity runs)
          Emit,      \* "" or a file name: test vectors are appended to it (EmitState / EmitHist)
          SimLen     \* simulation mode: length of the emitted behaviours

Timers == 1..NT
NULL == 0
INVALID == -1                         \* DTH_INVALID_ID
KeyPairs == IF Pairs = "eq" THEN {<<k, k>> : k \in Keys}
            ELSE IF Pairs = "le" THEN {kp \in Keys \X Keys : kp[1] <= kp[2]} ELSE Keys \X Keys

ASSUME /\ NT \in Nat /\ NT >= 1 /\ C \in {4, 8, 16} /\ MaxSeg \in 1..8

Pow2(n) == IF n <= 0 THEN 1 ELSE 2 ^ n
\* size in words of segment k
SegCap(k) == IF k = 0 THEN C ELSE C * Pow2(k - 1)
Ptr(k) == -(k + 1)                    \* a cell holding the address of segment k
IsPtr(v) == v < 0
SegOf(v) == -v - 1
WILD == -2                            \* a segment "address" that is not a live segment

(* uint32_t _dispatch_timer_heap_capacity(uint32_t segments)
     if (segments == 0) return 2;
     seg_no = segments - 1;  return 2 + (C << seg_no) - seg_no;                 *)
Capacity(segments) ==
    IF segments = 0 THEN 2
    ELSE LET seg_no == segments - 1 IN
         IF Mut = "cap_no_table" THEN 2 + C * Pow2(seg_no)
         ELSE 2 + C * Pow2(seg_no) - seg_no

(* The heap structure + the memory it owns, as one record (threaded through the
   operators below exactly as `dth` is threaded through the C functions):
     cnt   dth_count          segs  dth_segments        heapp  dth_heap (segment no, -1 = NULL)
     min   dth_min[2]         mem   [segment -> [word -> cell]]
     ent   [timer -> <<dt_heap_entry[0], dt_heap_entry[1]>>]
     np    dth_needs_program  err   "" or the first memory/assertion error           *)
ZeroSeg(k) == [i \in 0..(SegCap(k) - 1) |-> NULL]
EmptyHeap == [cnt |-> 0, segs |-> 0, heapp |-> -1, min |-> <<NULL, NULL>>,
              mem |-> [k \in 0..(MaxSeg - 1) |-> ZeroSeg(k)],
              ent |-> [t \in Timers |-> <<INVALID, INVALID>>],
              np |-> FALSE, err |-> ""]

Fail(h, what) == IF h.err = "" THEN [h EXCEPT !.err = what] ELSE h

HeapId(idx) == idx % 2                                     \* DTH_HEAP_ID
IdxForHeapId(idx, hid) == (idx - (idx % 2)) + hid          \* DTH_IDX_FOR_HEAP_ID

\* _dispatch_timer_heap_parent:  idx = (idx - DTH_ID_COUNT) / 2; DTH_IDX_FOR_HEAP_ID(idx, heap_id)
Parent(idx) == IdxForHeapId((idx - 2) \div 2, HeapId(idx))
\* _dispatch_timer_heap_left_child:  2 * idx + DTH_ID_COUNT - heap_id
LeftChild(idx) == IF Mut = "left_child" THEN 2 * idx + 2 ELSE 2 * idx + 2 - HeapId(idx)

(* seg_no = clz(C - 1) - clz(idx | (C - 1)) : index of the highest set bit of idx
   relative to C; 0 for idx < C, k for C << (k-1) <= idx < C << k.                *)
SegNoOf(i) == IF i < C THEN 0 ELSE CHOOSE k \in 1..32 : C * Pow2(k - 1) <= i /\ i < C * Pow2(k)

(* A location is [s |-> segment or -1 for dth_min or WILD, o |-> word offset]. *)
Loc(s, o) == [s |-> s, o |-> o]
ValidLoc(h, l) == \/ l.s = -1 /\ l.o \in 0..1
                  \/ l.s \in 0..(h.segs - 1) /\ l.s < MaxSeg /\ l.o \in 0..(SegCap(l.s) - 1)
ReadLoc(h, l) == IF l.s = -1 THEN h.min[l.o + 1] ELSE h.mem[l.s][l.o]
WriteLoc(h, l, v) ==
    IF ~ValidLoc(h, l) THEN Fail(h, "write outside the live segments")
    ELSE IF l.s = -1 THEN [h EXCEPT !.min[l.o + 1] = v]
    ELSE [h EXCEPT !.mem[l.s][l.o] = v]

(* _dispatch_timer_heap_get_slot(dth, idx) *)
GetSlot(h, idx) ==
    IF idx < 2 THEN Loc(-1, idx)
    ELSE LET i == idx - 2
             seg_no == SegNoOf(i)
             segment ==
                 IF seg_no + 1 = h.segs THEN h.heapp
                 ELSE IF h.segs < 2 \/ h.heapp < 0 \/ seg_no + 1 > h.segs THEN WILD
                 ELSE LET seg_capacity == C * Pow2(h.segs - 2)
                          o == seg_capacity - seg_no - 1
                      IN IF o \in 0..(SegCap(h.heapp) - 1) /\ IsPtr(h.mem[h.heapp][o])
                            THEN SegOf(h.mem[h.heapp][o]) ELSE WILD
             off == IF seg_no > 0 THEN i - C * Pow2(seg_no - 1) ELSE i
         IN Loc(segment, off)

(* _dispatch_timer_heap_set(dth, slot, dt, idx) *)
HeapSet(h, slot, dt, idx) ==
    LET h1 == IF idx < 2 /\ Mut # "no_needs_program" THEN [h EXCEPT !.np = TRUE] ELSE h
        h2 == WriteLoc(h1, slot, dt)
    IN IF dt \in Timers
         THEN IF Mut = "stale_backptr" /\ idx >= 6 THEN h2
              ELSE [h2 EXCEPT !.ent[dt][HeapId(idx) + 1] = idx]
         ELSE Fail(h2, "NULL or pointer dereferenced as a timer")

(* _dispatch_timer_heap_grow(dth) *)
Grow(h) ==
    LET seg_no == h.segs
        heap_prev == h.heapp
        seg_capacity == IF seg_no > 0 THEN C * Pow2(seg_no - 1) ELSE C
    IN IF seg_no >= MaxSeg THEN Fail(h, "model bound MaxSeg exceeded") ELSE
       LET fresh == ZeroSeg(seg_no)                      \* calloc
           copied ==
               IF seg_no > 1
                 THEN LET prev_seg_no == seg_no - 1
                          prev_seg_capacity == seg_capacity \div 2
                      IN [i \in 0..(seg_capacity - 1) |->
                            IF i >= seg_capacity - prev_seg_no /\ i < seg_capacity
                              THEN h.mem[heap_prev][prev_seg_capacity - prev_seg_no + (i - (seg_capacity - prev_seg_no))]
                              ELSE fresh[i]]
                 ELSE fresh
           linked == IF seg_no > 0 THEN [copied EXCEPT ![seg_capacity - seg_no] = Ptr(heap_prev)] ELSE copied
       IN [h EXCEPT !.segs = seg_no + 1, !.mem[seg_no] = linked, !.heapp = seg_no]

(* _dispatch_timer_heap_shrink(dth) *)
Shrink(h) ==
    LET seg_no == h.segs - 1
        heap == h.heapp
        seg_capacity == IF seg_no > 0 THEN C * Pow2(seg_no - 1) ELSE C
    IN IF seg_no < 0 \/ heap < 0 THEN Fail(h, "shrink of an empty heap") ELSE
       LET cell == IF seg_no > 0 THEN h.mem[heap][seg_capacity - seg_no] ELSE NULL
           heap_prev == IF seg_no > 0 THEN (IF IsPtr(cell) THEN SegOf(cell) ELSE WILD) ELSE -1
       IN IF heap_prev = WILD THEN Fail(h, "segment pointer table corrupted") ELSE
          LET h1 == IF seg_no > 1
                      THEN LET prev_seg_no == seg_no - 1
                               prev_seg_capacity == seg_capacity \div 2
                           IN [h EXCEPT !.mem[heap_prev] =
                                 [i \in 0..(prev_seg_capacity - 1) |->
                                    IF i >= prev_seg_capacity - prev_seg_no
                                      THEN h.mem[heap][seg_capacity - prev_seg_no + (i - (prev_seg_capacity - prev_seg_no))]
                                      ELSE h.mem[heap_prev][i]]]
                      ELSE h
          IN [h1 EXCEPT !.segs = seg_no, !.heapp = heap_prev,
                        !.mem[heap] = ZeroSeg(heap)]        \* free(heap): canonical zeroes

(* _dispatch_timer_heap_resift(dth, dt, idx), with `key` the keys of all timers
   (dt_timer.heap_key[hid] of each dispatch_timer_source_refs_s)                  *)
KeyOf(key, t, hid) == IF t \in Timers THEN key[t][hid + 1] ELSE -1

RECURSIVE SiftUp(_, _, _, _, _, _)
\* returns <<h, slot, idx, sifted_up>>
SiftUp(h, key, dt, slot, idx, sifted) ==
    IF idx < 2 THEN <<h, slot, idx, sifted>>
    ELSE LET pidx == Parent(idx)
             pslot == GetSlot(h, pidx)
         IN IF ~ValidLoc(h, pslot) THEN <<Fail(h, "read outside the live segments"), slot, idx, TRUE>>
            ELSE LET pdt == ReadLoc(h, pslot) IN
                 IF pdt \notin Timers THEN <<Fail(h, "NULL or pointer dereferenced as a timer"), slot, idx, TRUE>>
                 ELSE IF KeyOf(key, pdt, HeapId(idx)) <= KeyOf(key, dt, HeapId(idx)) THEN <<h, slot, idx, sifted>>
                 ELSE SiftUp(HeapSet(h, slot, pdt, idx), key, dt, pslot, pidx, TRUE)

RECURSIVE SiftDown(_, _, _, _, _)
\* returns <<h, slot, idx>>
SiftDown(h, key, dt, slot, idx) ==
    LET hid == HeapId(idx)
        lidx == LeftChild(idx)
    IN IF ~(lidx < h.cnt) THEN <<h, slot, idx>>
       ELSE LET ridx == lidx + 2
                lslot == GetSlot(h, lidx)
                rslot == GetSlot(h, ridx)
            IN IF ~ValidLoc(h, lslot) \/ (ridx < h.cnt /\ ~ValidLoc(h, rslot))
                 THEN <<Fail(h, "read outside the live segments"), slot, idx>>
               ELSE LET ldt == ReadLoc(h, lslot)
                        rdt == IF ridx < h.cnt THEN ReadLoc(h, rslot) ELSE NULL
                    IN IF ldt \notin Timers \/ (ridx < h.cnt /\ rdt \notin Timers)
                         THEN <<Fail(h, "NULL or pointer dereferenced as a timer"), slot, idx>>
                       ELSE LET right == /\ ridx < h.cnt /\ Mut # "never_right"
                                         /\ KeyOf(key, ldt, hid) > KeyOf(key, rdt, hid)
                                cidx == IF right THEN ridx ELSE lidx
                                cdt == IF right THEN rdt ELSE ldt
                                cslot == IF right THEN rslot ELSE lslot
                            IN IF KeyOf(key, dt, hid) <= KeyOf(key, cdt, hid) THEN <<h, slot, idx>>
                               ELSE SiftDown(HeapSet(h, slot, cdt, idx), key, dt, cslot, cidx)

Resift(h, key, dt, idx) ==
    LET slot == GetSlot(h, idx)
        up == SiftUp(h, key, dt, slot, idx, FALSE)
    IN IF up[4]                                        \* sifted_up: goto done
         THEN HeapSet(up[1], up[2], dt, up[3])
         ELSE LET dn == SiftDown(h, key, dt, slot, idx)
              IN HeapSet(dn[1], dn[2], dt, dn[3])

(* _dispatch_timer_heap_insert(dth, dt)   (dth_max_qos: all timers of the model have priority 0) *)
Insert(h0, key, dt) ==
    LET idx == h0.cnt
        h == [h0 EXCEPT !.cnt = idx + 2]
    IN IF h.ent[dt] # <<INVALID, INVALID>> THEN Fail(h, "insert: DISPATCH_TIMER_ASSERT heap entry") ELSE
       IF idx = 0
         THEN [h EXCEPT !.np = TRUE, !.ent[dt] = <<0, 1>>, !.min = <<dt, dt>>]
         ELSE LET h1 == IF idx + 2 > Capacity(h.segs) THEN Grow(h) ELSE h
                  h2 == Resift(h1, key, dt, idx + 0)
              IN Resift(h2, key, dt, idx + 1)

(* _dispatch_timer_heap_remove(dth, dt) *)
RemoveOne(h, key, dt, idx, heap_id) ==
    LET slot == GetSlot(h, idx + heap_id) IN
    IF ~ValidLoc(h, slot) THEN Fail(h, "read outside the live segments") ELSE
    LET last_dt == ReadLoc(h, slot)
        h1 == WriteLoc(h, slot, NULL)
    IN IF last_dt # dt
         THEN IF last_dt \notin Timers THEN Fail(h1, "NULL or pointer dereferenced as a timer")
              ELSE LET removed_idx == h1.ent[dt][heap_id + 1]
                   IN IF removed_idx \notin 0..(h1.cnt - 1) THEN Fail(h1, "remove: stale heap entry")
                      ELSE Resift(h1, key, last_dt, removed_idx)
         ELSE h1

Remove(h0, key, dt) ==
    LET idx == h0.cnt - 2
        h == [h0 EXCEPT !.cnt = idx]
    IN IF h.ent[dt][1] = INVALID \/ h.ent[dt][2] = INVALID THEN Fail(h, "remove: DISPATCH_TIMER_ASSERT heap entry") ELSE
       IF idx = 0
         THEN [h EXCEPT !.np = TRUE, !.min = <<NULL, NULL>>, !.ent[dt] = <<INVALID, INVALID>>]
         ELSE LET h1 == RemoveOne(h, key, dt, idx, 0)
                  h2 == RemoveOne(h1, key, dt, idx, 1)
                  h3 == IF idx <= Capacity(h2.segs - 1) THEN Shrink(h2) ELSE h2
              IN [h3 EXCEPT !.ent[dt] = <<INVALID, INVALID>>]

(* _dispatch_timer_heap_update(dth, dt)  -- called after dt's keys changed *)
Update(h, key, dt) ==
    IF h.ent[dt][1] = INVALID \/ h.ent[dt][2] = INVALID THEN Fail(h, "update: DISPATCH_TIMER_ASSERT heap entry") ELSE
    LET h1 == Resift(h, key, dt, h.ent[dt][1])
    IN Resift(h1, key, dt, h1.ent[dt][2])

(* ------------------------------------------------------------------------ *)
VARIABLES h,      \* the heap + its memory
          key,    \* [timer -> <<target, deadline>>]; <<0,0>> while the timer is not in the heap
          ref,    \* REFERENCE: the set of timers inserted and not removed
          npok,   \* ghost: the last step set dth_needs_program if it changed a minimum
          hist,   \* simulation mode only: the behaviour so far (<<>> otherwise)
          dir     \* simulation mode only: population drift ("up"/"down")
vars == <<h, key, ref, npok, hist, dir>>

\* what the C driver can observe of the real structure (all small integers)
SlotVal(hh, idx) == LET l == GetSlot(hh, idx) IN IF ValidLoc(hh, l) THEN ReadLoc(hh, l) ELSE -3
\* -1 in the image = a stale segment pointer in a free slot (not compared)
Image(hh, kk) ==
    <<hh.cnt, hh.segs, IF hh.np THEN 1 ELSE 0>>
    \o [i \in 1..Capacity(hh.segs) |-> LET v == SlotVal(hh, i - 1) IN IF v < 0 THEN -1 ELSE v]
    \o [i \in 1..(2 * NT) |-> hh.ent[(i + 1) \div 2][2 - (i % 2)]]
    \o [i \in 1..(2 * NT) |-> kk[(i + 1) \div 2][2 - (i % 2)]]

\* positional checksum of the same image (simulation mode: long behaviours)
RECURSIVE SumSeq(_, _, _)
\* (balanced recursion: TLC's evaluation stack is shallow)
SumSeq(s, lo, hi) ==
    IF lo > hi THEN 0
    ELSE IF lo = hi THEN ((lo * 31 + 7) * (s[lo] + 2)) % 1000003
    ELSE LET mid == (lo + hi) \div 2 IN (SumSeq(s, lo, mid) + SumSeq(s, mid + 1, hi)) % 1000003
Digest(hh, kk) == LET im == Image(hh, kk) IN
    <<hh.cnt, hh.segs, IF hh.np THEN 1 ELSE 0, hh.min[1], hh.min[2], SumSeq(im, 1, Len(im))>>

Init == /\ h = EmptyHeap /\ key = [t \in Timers |-> <<0, 0>>] /\ ref = {} /\ npok = TRUE
        /\ hist = <<>> /\ dir = "up"

MinKeys(hh, kk) == <<hh.min, KeyOf(kk, hh.min[1], 0), KeyOf(kk, hh.min[2], 1)>>

Step(op, t, kp, h1, key1, ref1) ==
    /\ h' = h1 /\ key' = key1 /\ ref' = ref1
    /\ npok' = ((MinKeys(h, key) # MinKeys(h1, key1)) => h1.np)

\* op codes: 1 insert, 2 remove, 3 update
DoInsert(t, kp) ==
    /\ t \notin ref
    /\ LET key1 == [key EXCEPT ![t] = kp] IN
       Step(1, t, kp, Insert([h EXCEPT !.np = FALSE], key1, t), key1, ref \cup {t})
DoRemove(t) ==
    /\ t \in ref
    /\ LET key1 == [key EXCEPT ![t] = <<0, 0>>] IN
       Step(2, t, <<0, 0>>, Remove([h EXCEPT !.np = FALSE], key, t), key1, ref \ {t})
DoUpdate(t, kp) ==
    /\ t \in ref
    /\ LET key1 == [key EXCEPT ![t] = kp] IN
       Step(3, t, kp, Update([h EXCEPT !.np = FALSE], key1, t), key1, ref)

Next == /\ h.err = ""
        /\ \E t \in Timers : \/ \E kp \in KeyPairs : DoInsert(t, kp) \/ DoUpdate(t, kp)
                             \/ DoRemove(t)
        /\ UNCHANGED <<hist, dir>>
Spec == Init /\ [][Next]_vars

(* simulation mode (tlc -simulate): one random operation per step, the population
   drifts up to NT timers and back down to none so that segments grow and shrink *)
SimNext ==
    /\ h.err = "" /\ Len(hist) < SimLen
    /\ \E kp \in {RandomElement(KeyPairs)}, coin \in {RandomElement(0..7)} :
         LET wantRemove == (dir = "down" /\ coin < 5) \/ (dir = "up" /\ coin < 1)
             op == IF wantRemove /\ ref # {} THEN 2
                   ELSE IF (coin >= 6 /\ ref # {}) \/ ref = Timers THEN 3 ELSE 1
         IN \E tt \in {RandomElement(IF op = 1 THEN Timers \ ref ELSE ref)} :
              /\ CASE op = 1 -> DoInsert(tt, kp) [] op = 2 -> DoRemove(tt) [] OTHER -> DoUpdate(tt, kp)
              /\ hist' = Append(hist, <<op, tt, IF op = 2 THEN 0 ELSE kp[1], IF op = 2 THEN 0 ELSE kp[2]>>
                                       \o Digest(h', key'))
              /\ dir' = IF Cardinality(ref') = NT THEN "down" ELSE IF ref' = {} THEN "up" ELSE dir
SimSpec == Init /\ [][SimNext]_vars
(* test vectors, model-checking mode: one row per distinct state (this is evaluated as an invariant, once
   per state), holding the image of the state and, for EVERY operation enabled in it, the operation and the
   image of its successor:   Image ; { <<op, t, target, deadline>> \o Image(successor), ... }               *)
Succs ==
    LET h0 == [h EXCEPT !.np = FALSE] IN
    {<<1, t, kp[1], kp[2]>> \o Image(Insert(h0, [key EXCEPT ![t] = kp], t), [key EXCEPT ![t] = kp])
        : t \in Timers \ ref, kp \in KeyPairs}
    \cup {<<3, t, kp[1], kp[2]>> \o Image(Update(h0, [key EXCEPT ![t] = kp], t), [key EXCEPT ![t] = kp])
        : t \in ref, kp \in KeyPairs}
    \cup {<<2, t, 0, 0>> \o Image(Remove(h0, key, t), [key EXCEPT ![t] = <<0, 0>>]) : t \in ref}
EmitState == (Emit # "" /\ SimLen = 0 /\ h.err = "") => CSVWrite("%1$s;%2$s", <<Image(h, key), Succs>>, Emit)

\* a finished simulated behaviour is written out (evaluated as an invariant)
EmitHist == (Emit # "" /\ Len(hist) = SimLen) =>
                CSVWrite("%1$s;%2$s", <<hist, Image(h, key)>>, Emit)

(* ------------------------------ invariants ------------------------------ *)
NoErr == h.err = ""

MinOf(S) == CHOOSE x \in S : \A y \in S : x <= y
\* the property-level statement: dth_min[] are the minima of the reference set
MinimaAreReferenceMinima ==
    h.err = "" =>
      IF ref = {} THEN h.min = <<NULL, NULL>>
      ELSE /\ h.min[1] \in ref /\ h.min[2] \in ref
           /\ key[h.min[1]][1] = MinOf({key[t][1] : t \in ref})
           /\ key[h.min[2]][2] = MinOf({key[t][2] : t \in ref})
CountIsPopulation == h.err = "" => h.cnt = 2 * Cardinality(ref)
HeapOrder ==
    h.err = "" => \A idx \in 2..(h.cnt - 1) :
        LET c == SlotVal(h, idx) p == SlotVal(h, Parent(idx)) IN
        /\ c \in Timers /\ p \in Timers
        /\ key[p][HeapId(idx) + 1] <= key[c][HeapId(idx) + 1]
BackPointers ==
    h.err = "" =>
      /\ \A t \in Timers : IF t \in ref
            THEN \A hid \in 0..1 : /\ h.ent[t][hid + 1] \in 0..(h.cnt - 1)
                                   /\ HeapId(h.ent[t][hid + 1]) = hid
                                   /\ SlotVal(h, h.ent[t][hid + 1]) = t
            ELSE h.ent[t] = <<INVALID, INVALID>>
      /\ \A idx \in 0..(h.cnt - 1) : SlotVal(h, idx) \in ref
SegmentsOK ==
    h.err = "" =>
      /\ h.cnt <= Capacity(h.segs)
      /\ h.segs > 0 => h.cnt > Capacity(h.segs - 1)          \* no segment is kept for nothing
      /\ h.heapp = h.segs - 1
      /\ \A j \in 0..(h.segs - 2) : h.mem[h.heapp][SegCap(h.heapp) - j - 1] = Ptr(j)
      /\ \A k \in h.segs..(MaxSeg - 1) : h.mem[k] = ZeroSeg(k)
      /\ \A idx \in h.cnt..(Capacity(h.segs) - 1) : SlotVal(h, idx) = NULL \/ IsPtr(SlotVal(h, idx))
NeedsProgramOnMinChange == npok
TypeOK == /\ ref \subseteq Timers /\ h.cnt \in 0..(2 * NT) /\ h.segs \in 0..MaxSeg
          /\ \A t \in Timers : key[t] \in KeyPairs \cup {<<0, 0>>}
=============================================================================
