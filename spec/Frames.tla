------------------------------- MODULE Frames -------------------------------
(* C18 (a): which queue does a running work item belong to?

   State transcribed from the pinned tree:
     per thread   dispatch_queue_key  (current queue)            -> ts[th].cq
                  dispatch_frame_key  (top dispatch_thread_frame) -> ts[th].fp
     a frame      { dtf_queue, dtf_prev } = the pair saved by the push   -> frames[i]
     per queue    do_targetq -> Tgt(q);  dq_specific_head / entries -> HasHead, Placed
                  drain lock owner (dq_state) -> locks[th]
   Operations (src/inline_internal.h:431-545):
     _dispatch_thread_frame_push            Push      _dispatch_thread_frame_pop   Pop
     _dispatch_queue_set_current            SetCur
     _dispatch_thread_frame_find_queue / _iterate_next                 Find
   Lookups (src/queue.c):
     dispatch_get_specific (:2348), _dispatch_queue_get_specific_inline (:2321)   ImplGet
     dispatch_assert_queue / _not (:62, :82)                           ImplAssertPass
   Invocation paths = the sequence of these operations each path performs before the
   client function is called (Program below):
     worker:   _dispatch_root_queue_drain (set_current(rq)), _dispatch_queue_class_invoke
               (drain lock) + _dispatch_lane_drain (push dq), for every lane from the
               bottom of the hierarchy up;
     redirect: _dispatch_lane_concurrent_push / redirecting drain wrap the item
               (dc_data = the queue it was submitted to) and push it to the target;
               _dispatch_async_redirect_invoke pushes a frame for dc_data on whatever
               context pops it; a non-redirecting drain (a serial queue below) runs it inline;
     sync / barrier_sync (fast and slow path): locks along the hierarchy
               (_dispatch_sync_recurse), _dispatch_sync_function_invoke_inline pushes top dq
               on the *calling* thread, i.e. on top of the submitting context;
     async_and_wait: _dispatch_async_and_wait_recurse + ..._invoke_and_complete_recurse,
               push top dq on the calling thread;
     apply:    dispatch_sync_f(dq, _dispatch_apply_serial | _dispatch_apply_redirect) on the
               caller; helpers run _dispatch_apply_redirect_invoke: set_current(root), push dq;
               on a global queue the caller pushes a frame for it, helpers only set_current.

   Reference meaning (the property): inside an item, dispatch_get_specific(k) is the value
   set for k on the nearest queue of RefChain(queue submitted to); dispatch_assert_queue
   accepts exactly RefChain(submitted queue) plus, for synchronous submissions, what the
   submitting context accepted; dispatch_assert_queue_not accepts exactly the others. *)
EXTENDS Integers, Sequences, FiniteSets, TLC, Json, IOUtils, SequencesExt

CONSTANTS MaxDepthA,   \* 0..3 : depth of the hierarchy the item is submitted to (0 = a global queue)
          MaxDepthB,   \* 0..2 : depth of the hierarchy of the submitting item (0 = plain thread only)
          FullKeys,    \* TRUE: both keys placed independently (+ removal); FALSE: key 2 on the
                       \* complement of key 1, or nowhere, or nowhere with key 1 set-then-removed elsewhere
          Mut

None == "-"
ALanes == <<"A1", "A2", "A3">>
BLanes == <<"B1", "B2">>
RO == "RO"   \* com.apple.root.default-qos.overcommit : default target of a serial queue
RN == "RN"   \* com.apple.root.default-qos            : default target of a concurrent queue
RU == "RU"   \* com.apple.root.utility-qos            : never part of any hierarchy here
Roots == {RO, RN, RU}
Keys == {1, 2}
Paths == {"async", "barrier_async", "sync", "barrier_sync", "async_and_wait",
          "barrier_async_and_wait", "apply"}
SyncPaths == Paths \ {"async", "barrier_async"}

(* ------------------------------- scenarios ------------------------------- *)
KindSeqs(n) == [1..n -> {"s", "c"}]
LanesOf(sc) == {ALanes[i] : i \in 1..sc.da} \cup {BLanes[i] : i \in 1..sc.db}
\* a choice is only meaningful for a concurrent lane with a serial lane somewhere below it
Scen0 ==
    {[da |-> da, ka |-> ka, db |-> db, kb |-> kb, bpath |-> bp, path |-> p]
       : da \in 0..MaxDepthA, ka \in UNION {KindSeqs(n) : n \in 0..MaxDepthA},
         db \in 0..MaxDepthB, kb \in UNION {KindSeqs(n) : n \in 0..MaxDepthB},
         bp \in {"sync", "async"}, p \in Paths}
ScenShapes == {s \in Scen0 : /\ DOMAIN s.ka = 1..s.da /\ DOMAIN s.kb = 1..s.db
                             /\ (s.db = 0 => s.bpath = "sync")}
KeyPlacements(L) ==
    IF FullKeys THEN {[k1 |-> a, k2 |-> b, rm |-> r] : a \in SUBSET L, b \in SUBSET L, r \in BOOLEAN}
    ELSE UNION {{[k1 |-> a, k2 |-> L \ a, rm |-> FALSE], [k1 |-> a, k2 |-> {}, rm |-> FALSE],
                 [k1 |-> a, k2 |-> {}, rm |-> TRUE]} : a \in SUBSET L}
\* rm: on every lane where key 1 is not placed it was set and then removed again
(* ------------------------------- hierarchy ------------------------------- *)
VARIABLES sc,      \* the scenario (never changes)
          prog,    \* the operations the paths of this scenario perform, in order
          pc,      \* next operation
          ts,      \* thread -> [cq, fp]
          frames,  \* the frames pushed so far (a frame is never reused here; fp indexes it)
          locks,   \* thread -> set of lanes whose drain lock it owns
          seen     \* the observations made so far: <<[tag, get, accept]>>
vars == <<sc, prog, pc, ts, frames, locks, seen>>

Threads == {"T", "WB", "WA"}
IsRoot(x) == x \in Roots
Kind(s, x) == IF x \in {ALanes[i] : i \in 1..3}
                THEN s.ka[CHOOSE i \in 1..3 : ALanes[i] = x]
                ELSE s.kb[CHOOSE i \in 1..2 : BLanes[i] = x]
RootFor(k) == IF k = "s" THEN RO ELSE RN
\* do_targetq
TgtS(s, x) ==
    IF IsRoot(x) \/ x = None THEN None
    ELSE IF x \in {ALanes[i] : i \in 1..3}
      THEN LET i == CHOOSE j \in 1..3 : ALanes[j] = x IN
           IF i < s.da THEN ALanes[i + 1] ELSE RootFor(s.ka[i])
      ELSE LET i == CHOOSE j \in 1..2 : BLanes[j] = x IN
           IF i < s.db THEN BLanes[i + 1] ELSE RootFor(s.kb[i])
TopA(s) == IF s.da = 0 THEN RN ELSE ALanes[1]    \* the queue the item is submitted to
Serial(s, x) == ~IsRoot(x) /\ Kind(s, x) = "s"
RECURSIVE ChainS(_, _)
ChainS(s, x) == IF x = None THEN {} ELSE {x} \cup ChainS(s, TgtS(s, x))
BelowHasSerial(s, x) == \E y \in ChainS(s, TgtS(s, x)) : Serial(s, y)
Level(x) == IF x \in {"A1", "B1"} THEN 1 ELSE 2

(* ------------------------------ the programs ------------------------------ *)
Op(o, th, x) == [op |-> o, th |-> th, q |-> x]
\* worker side: operations that bring thread th to the client callout of an item pushed to t
RECURSIVE ItemOps(_, _, _, _, _, _)
InvokeOps(s, c, th, x) ==        \* ... to the point where lane x's drain pops its items inline
    ItemOps(s, c, th, TgtS(s, x), FALSE, None) \o <<Op("lock", th, x), Op("push", th, x)>>
ItemOps(s, c, th, t, barrier, redir) ==
    LET fin == IF redir = None THEN <<>>
               ELSE IF Mut = "redirect_no_push" THEN <<>> ELSE <<Op("push", th, redir)>>
    IN IF IsRoot(t) THEN <<Op("setcur", th, t)>> \o fin          \* _dispatch_root_queue_drain
       ELSE IF Serial(s, t) \/ barrier \/ (c[Level(t)] = "i" /\ BelowHasSerial(s, t))
         THEN InvokeOps(s, c, th, t) \o fin                       \* popped inline by t's drain
         ELSE ItemOps(s, c, th, TgtS(s, t), FALSE, IF redir = None THEN t ELSE redir)

\* caller side: _dispatch_sync_f_inline/_dispatch_barrier_sync_f_inline/_dispatch_sync_recurse,
\* _dispatch_async_and_wait_recurse: owner locks on top (if barrier) and on every serial lane below
RECURSIVE LockOps(_, _, _, _)
LockOps(s, th, x, barrier) ==
    IF IsRoot(x) THEN <<>>
    ELSE (IF barrier \/ Serial(s, x) THEN <<Op("lock", th, x)>> ELSE <<>>)
         \o LockOps(s, th, TgtS(s, x), FALSE)
SyncOps(s, th, x, barrier) == LockOps(s, th, x, barrier) \o <<Op("push", th, x)>>

\* undo: pops / unlocks in reverse order; a worker ends with set_current(NULL)
RECURSIVE Undo(_)
Undo(ops) ==
    IF ops = <<>> THEN <<>>
    ELSE LET o == Head(ops) IN
         Undo(Tail(ops)) \o
         <<CASE o.op = "push"   -> Op("pop", o.th, o.q)
             [] o.op = "lock"   -> Op("unlock", o.th, o.q)
             [] o.op = "setcur" -> Op("setcur", o.th, None)>>

AllConcurrent(s) == \A i \in 1..s.da : s.ka[i] = "c"
\* the submission of the item to TopA(s) from thread th, and what runs where
Submit(s, c, th) ==
    LET top == TopA(s)  p == s.path IN
    CASE p \in {"async", "barrier_async"} ->
           LET d == ItemOps(s, c, "WA", top, p = "barrier_async", None) IN
           d \o <<Op("obs_item", "WA", top)>> \o Undo(d)
      [] p \in {"sync", "barrier_sync", "async_and_wait", "barrier_async_and_wait"} ->
           LET d == SyncOps(s, th, top, p \in {"barrier_sync", "barrier_async_and_wait"}) IN
           d \o <<Op("obs_item", th, top)>> \o Undo(d)
      [] p = "apply" ->
           LET d == SyncOps(s, th, top, FALSE)       \* (for a global queue: the frame of dispatch_apply_f)
               h == IF s.da = 0 THEN <<Op("setcur", "WA", top)>>
                    ELSE <<Op("setcur", "WA", CHOOSE r \in Roots : r \in ChainS(s, top)),
                           Op("push", "WA", top)>>
           IN d \o <<Op("obs_item", th, top)>>
                \o (IF AllConcurrent(s) THEN h \o <<Op("obs_helper", "WA", top)>> \o Undo(h) ELSE <<>>)
                \o Undo(d)
Program(s, c) ==
    IF s.db = 0 THEN Submit(s, c, "T")
    ELSE LET th == IF s.bpath = "sync" THEN "T" ELSE "WB"
             d  == IF s.bpath = "sync" THEN SyncOps(s, "T", "B1", FALSE)
                   ELSE ItemOps(s, c, "WB", "B1", FALSE, None)
         IN d \o <<Op("obs_before", th, "B1")>> \o Submit(s, c, th)
              \o <<Op("obs_after", th, "B1")>> \o Undo(d)

(* ------------------------------- lookups ------------------------------- *)
Tgt(x) == TgtS(sc.sh, x)
Placed(k, x) == x \in (IF k = 1 THEN sc.kp.k1 ELSE sc.kp.k2)
\* dq_specific_head exists once any key was ever set on the lane
HasHead(x) == x \in sc.kp.k1 \/ x \in sc.kp.k2 \/ (sc.kp.rm /\ x \in LanesOf(sc.sh))
\* _dispatch_queue_get_specific_inline: only queues that admit specifics and have a head
GetInline(x, k) == IF ~IsRoot(x) /\ HasHead(x) /\ Placed(k, x) THEN x ELSE None
\* dispatch_get_specific: do { ctxt = inline(dq, key); dq = dq->do_targetq; } while (!ctxt && dq)
RECURSIVE GetWalk(_, _)
GetWalk(x, k) ==
    IF x = None THEN None
    ELSE LET v == GetInline(x, k) IN
         IF v # None THEN v
         ELSE IF Mut = "get_first_only" THEN None ELSE GetWalk(Tgt(x), k)
ImplGet(th, k) == GetWalk(ts[th].cq, k)

\* _dispatch_thread_frame_find_queue with _dispatch_thread_frame_iterate_next
RECURSIVE Find(_, _, _)
Find(dq, fr, x) ==
    IF dq = None THEN FALSE
    ELSE IF dq = x THEN TRUE
    ELSE IF fr # 0
      THEN IF Tgt(dq) # None /\ Mut # "no_missing_links"
             THEN \* redirections or dispatch_sync may skip frames: simulate the missing links
                  Find(Tgt(dq), IF dq = frames[fr].q THEN frames[fr].prev ELSE fr, x)
             ELSE Find(frames[fr].q, frames[fr].prev, x)
      ELSE Find(Tgt(dq), 0, x)
ImplAssertPass(th, x) == x \in locks[th] \/ Find(ts[th].cq, ts[th].fp, x)

(* ------------------------------- reference -------------------------------
   (functions of the scenario only: the same definitions give the invariants below and the
   expectations emitted for the replay on the real library) *)
PlacedS(p, k, x) == x \in (IF k = 1 THEN p.k1 ELSE p.k2)
RECURSIVE RefNearestS(_, _, _, _)
RefNearestS(s, p, x, k) ==
    IF x = None THEN None
    ELSE IF ~IsRoot(x) /\ PlacedS(p, k, x) THEN x ELSE RefNearestS(s, p, TgtS(s, x), k)
CtxAcceptS(s) == IF s.db = 0 THEN {} ELSE ChainS(s, "B1")
RefAcceptS(s, tag) ==
    CASE tag = "obs_item"   -> ChainS(s, TopA(s)) \cup (IF s.path \in SyncPaths THEN CtxAcceptS(s) ELSE {})
      [] tag = "obs_helper" -> ChainS(s, TopA(s))   \* an apply iteration on a helper thread
      [] OTHER              -> CtxAcceptS(s)        \* obs_before / obs_after: the outer item
RefGetS(s, p, tag, k) == IF tag \in {"obs_item", "obs_helper"} THEN RefNearestS(s, p, TopA(s), k)
                         ELSE RefNearestS(s, p, "B1", k)
Universe == LanesOf(sc.sh) \cup Roots

(* ------------------------------ state machine ------------------------------ *)
\* Two-level choice (initial states = shapes; key placement and path choices are picked by
\* the first step) so that TLC's workers share the enumeration.
NoKp == [k1 |-> {}, k2 |-> {}, rm |-> FALSE]
Init == /\ \E s \in ScenShapes : sc = [sh |-> s, kp |-> NoKp, ch |-> [l \in 1..2 |-> "r"]]
        /\ prog = <<>>
        /\ pc = 0
        /\ ts = [t \in Threads |-> [cq |-> None, fp |-> 0]]
        /\ frames = <<>>
        /\ locks = [t \in Threads |-> {}]
        /\ seen = <<>>

Choose ==
    /\ pc = 0
    /\ \E p \in KeyPlacements(LanesOf(sc.sh)), c \in [1..2 -> {"r", "i"}] :
         \* a choice bit is only kept free where some lane can use it
         /\ \A l \in 1..2 : (c[l] = "i" =>
               \E x \in LanesOf(sc.sh) : Level(x) = l /\ Kind(sc.sh, x) = "c" /\ BelowHasSerial(sc.sh, x))
         /\ sc' = [sc EXCEPT !.kp = p, !.ch = c]
         /\ prog' = Program(sc.sh, c)
    /\ pc' = 1
    /\ UNCHANGED <<ts, frames, locks, seen>>

Step ==
    /\ pc >= 1 /\ pc <= Len(prog)
    /\ pc' = pc + 1
    /\ UNCHANGED <<sc, prog>>
    /\ LET o == prog[pc]  th == o.th IN
       CASE o.op = "setcur" -> /\ ts' = [ts EXCEPT ![th] = [cq |-> o.q, fp |-> 0]]
                               /\ UNCHANGED <<frames, locks, seen>>
         [] o.op = "push" ->   \* save (queue, frame), install (dq, new frame)
                               /\ frames' = Append(frames, [q |-> ts[th].cq, prev |-> ts[th].fp])
                               /\ ts' = [ts EXCEPT ![th] = [cq |-> o.q, fp |-> Len(frames) + 1]]
                               /\ UNCHANGED <<locks, seen>>
         [] o.op = "pop" ->    \* restore the saved pair of the top frame
                               /\ ts' = [ts EXCEPT ![th] =
                                          [cq |-> IF Mut = "pop_keeps_queue" THEN ts[th].cq
                                                  ELSE frames[ts[th].fp].q,
                                           fp |-> frames[ts[th].fp].prev]]
                               /\ UNCHANGED <<frames, locks, seen>>
         [] o.op = "lock" ->   /\ locks' = [locks EXCEPT ![th] = @ \cup {o.q}]
                               /\ UNCHANGED <<ts, frames, seen>>
         [] o.op = "unlock" -> /\ locks' = [locks EXCEPT ![th] = @ \ {o.q}]
                               /\ UNCHANGED <<ts, frames, seen>>
         [] OTHER ->           \* an observation inside the client function
                               /\ seen' = Append(seen,
                                     [tag |-> o.op,
                                      get |-> [k \in Keys |-> ImplGet(th, k)],
                                      accept |-> {x \in Universe : ImplAssertPass(th, x)}])
                               /\ UNCHANGED <<ts, frames, locks>>
Spec == Init /\ [][Choose \/ Step]_vars

(* ------------------------------- invariants ------------------------------- *)
GetSpecificNearest ==
    \A i \in DOMAIN seen : \A k \in Keys : seen[i].get[k] = RefGetS(sc.sh, sc.kp, seen[i].tag, k)
AssertExactlyChain ==
    \A i \in DOMAIN seen : seen[i].accept = RefAcceptS(sc.sh, seen[i].tag)
\* frames are balanced: at the end every thread is back to "no queue, no frame, no lock"
Balanced == (pc >= 1 /\ pc > Len(prog)) =>
    \A t \in Threads : ts[t] = [cq |-> None, fp |-> 0] /\ locks[t] = {}

(* ------------------------------ test vectors ------------------------------
   One case per (shape, key placement) -- the choices ch are the spec's nondeterminism, the
   expectations do not depend on them (that is what the invariants establish). *)
SetStr(S) == SetToSeq(S)
ObsTags(s) == (IF s.db = 0 THEN <<>> ELSE <<"obs_before">>) \o <<"obs_item">>
              \o (IF s.path = "apply" /\ (\A i \in 1..s.da : s.ka[i] = "c") THEN <<"obs_helper">> ELSE <<>>)
              \o (IF s.db = 0 THEN <<>> ELSE <<"obs_after">>)
CaseOf(s, p) ==
    [da |-> s.da, ka |-> s.ka, db |-> s.db, kb |-> s.kb, bpath |-> s.bpath, path |-> s.path,
     k1 |-> SetStr(p.k1), k2 |-> SetStr(p.k2), rm |-> p.rm,
     tgt |-> [x \in LanesOf(s) |-> TgtS(s, x)],
     obs |-> [i \in DOMAIN ObsTags(s) |->
                LET tag == ObsTags(s)[i] IN
                [tag |-> tag, g1 |-> RefGetS(s, p, tag, 1), g2 |-> RefGetS(s, p, tag, 2),
                 accept |-> SetStr(RefAcceptS(s, tag))]]]
ShapeSeq == SetToSeq(ScenShapes)
Cases(u) == [i \in DOMAIN ShapeSeq |->
               SetToSeq({CaseOf(ShapeSeq[i], p) : p \in KeyPlacements(LanesOf(ShapeSeq[i]))})]
Emit == IF "C18_OUT" \in DOMAIN IOEnv
          THEN JsonSerialize(IOEnv.C18_OUT, Cases(TLCGet("distinct"))) /\ PrintT(<<"EMITTED">>)
          ELSE TRUE
=============================================================================
